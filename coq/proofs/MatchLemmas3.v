(** The matcher on scalars, variables and objects. *)
From Coq Require Import Lia Permutation.
From Verif Require Import Json Outcome Match MatchSpec MatchLemmas1 MatchLemmas2.

Section Risky.
Variable risky : string -> bool.

(** Invariant on the current bindings. *)
Definition okb (bs : bindings) : Prop :=
  sorted_keys (map fst bs) = true /\
  (forall x v, alookup x bs = Some v -> ground v = true) /\
  (forall x v, risky x = true -> alookup x bs = Some v -> is_scalar v = true).

(** Every variable that will have to re-match is risky. *)
Definition CV (V : list string) (bs : bindings) : Prop :=
  forall x, In x V -> (2 <= count_str x V)%nat \/ alookup x bs <> None -> risky x = true.

Lemma okb_sorted bs : okb bs -> sorted_keys (map fst bs) = true.
Proof. intros [H _]. exact H. Qed.

Lemma okb_ext p d bs b :
  okb bs -> Ext' p d bs b -> ground d = true -> LS risky p d -> okb b.
Proof.
  intros [Hs [Hg Hr]] [Hsb [He [Hd [f HL]]]] Hgd HLS.
  assert (Hcase : forall x v, alookup x b = Some v ->
            alookup x bs = Some v \/
            (In x (pvars p) /\ ground v = true /\ (risky x = true -> is_scalar v = true))).
  { intros x v Hx. destruct (alookup x bs) as [v'|] eqn:E.
    - left. apply He in E. congruence.
    - right. assert (Hn : alookup x b <> None) by congruence.
      apply Hd in Hn. destruct Hn as [Hn|Hn]; [congruence|].
      split; auto.
      destruct (lay_bound risky _ _ _ _ _ HL Hn Hgd) as [v0 [H1 [H2 H3]]].
      assert (v0 = v) by congruence. subst v0. split; auto. }
  split; auto. split.
  - intros x v Hx. destruct (Hcase x v Hx) as [H|[_ [H _]]]; eauto.
  - intros x v Hrx Hx. destruct (Hcase x v Hx) as [H|[_ [_ H]]]; eauto.
Qed.

Lemma CV_app_l V1 V2 bs : CV (V1 ++ V2)%list bs -> CV V1 bs.
Proof.
  intros H x Hin Hc. apply H.
  - apply in_or_app. auto.
  - rewrite count_str_app. destruct Hc; auto. left. lia.
Qed.

Lemma CV_app_r V1 V2 bs b1 : CV (V1 ++ V2)%list bs -> domV V1 bs b1 -> CV V2 b1.
Proof.
  intros H Hd x Hin Hc. apply H.
  - apply in_or_app. auto.
  - rewrite count_str_app. destruct Hc as [Hc|Hc]; [left; lia|].
    apply Hd in Hc. destruct Hc as [Hc|Hc]; auto.
    left. apply count_str_In in Hc. apply count_str_In in Hin. lia.
Qed.

Lemma CV_perm V V' bs : Permutation V V' -> CV V bs -> CV V' bs.
Proof.
  intros HP H x Hin Hc. apply H.
  - eapply Permutation_in; [symmetry; exact HP|exact Hin].
  - rewrite (count_str_perm x V V' HP). exact Hc.
Qed.

(** * Scalars *)

Lemma match_body_scalar rec p d bs :
  is_scalar p = true -> nonvar p = true ->
  match_body rec p d bs = Ok (if json_eqb p d then [bs] else []).
Proof.
  intros Hs Hn. destruct p as [|x|x|s| |]; try discriminate; cbn [match_body].
  - destruct d; reflexivity.
  - destruct d; reflexivity.
  - destruct d; reflexivity.
  - cbn [nonvar] in Hn. rewrite Hn. destruct d; reflexivity.
Qed.

Lemma pvars_scalar p : is_scalar p = true -> nonvar p = true -> pvars p = [].
Proof.
  intros Hs Hn. destruct p; try discriminate; auto.
  cbn [nonvar] in Hn. cbn [pvars]. destruct (is_var s); [discriminate|reflexivity].
Qed.

Lemma Ext_scalar p d bs b :
  sorted_keys (map fst bs) = true -> is_scalar p = true -> nonvar p = true ->
  (Ext' p d bs b <-> b = bs /\ d = p).
Proof.
  intros Hs Hp Hn. unfold Ext'. rewrite (pvars_scalar p Hp Hn).
  rewrite ExtG_nil by auto. rewrite Lay_scalar by auto. tauto.
Qed.

Lemma ground_scalar_nonvar v : ground v = true -> is_scalar v = true -> nonvar v = true.
Proof. destruct v; cbn; auto. Qed.

(** * Variables *)

Lemma inequal_None d bs s : wfp (JStr s) = true -> is_var s = true -> inequal d bs s = None.
Proof.
  intros Hw Hv. cbn [wfp] in Hw. rewrite Hv in Hw.
  apply andb_true_iff in Hw. destruct Hw as [_ Hw]. cbn [andb] in Hw.
  unfold is_ineq_name in Hw. unfold inequal.
  destruct (alookup s bs) as [[| | z| | |]|]; auto.
  destruct d; auto.
  destruct (String.length s <=? 2)%nat eqn:El; auto.
  destruct (find_ineq ineq_ops (substring 1 (String.length s - 1) s)) as [[op vv]|]; auto.
  apply Nat.leb_gt in El.
  assert (H2 : (2 <? String.length s)%nat = true) by (apply Nat.ltb_lt; lia).
  rewrite H2 in Hw. discriminate.
Qed.

Lemma pvars_anon s : is_anon s = true -> pvars (JStr s) = [].
Proof. intros H. cbn [pvars]. rewrite H. rewrite andb_false_r. reflexivity. Qed.

Lemma pvars_var s : is_var s = true -> is_anon s = false -> pvars (JStr s) = [s].
Proof. intros H1 H2. cbn [pvars]. rewrite H1, H2. reflexivity. Qed.

Lemma Ext_anon s d bs b :
  sorted_keys (map fst bs) = true -> is_var s = true -> is_anon s = true ->
  (Ext' (JStr s) d bs b <-> b = bs).
Proof.
  intros Hs H1 H2. unfold Ext'. rewrite pvars_anon by auto. rewrite ExtG_nil by auto.
  pose proof (Lay_anon bs s d H1 H2). tauto.
Qed.

Lemma Ext_var_bound s d bs b v :
  sorted_keys (map fst bs) = true -> is_var s = true -> is_anon s = false ->
  alookup s bs = Some v ->
  (Ext' (JStr s) d bs b <-> b = bs /\ v = d).
Proof.
  intros Hs H1 H2 Hl. unfold Ext'. rewrite pvars_var by auto. split.
  - intros [Hsb [He [Hd HL]]].
    assert (b = bs).
    { apply sorted_alist_ext; auto. intros x.
      destruct (alookup x bs) as [v'|] eqn:E; [apply He; auto|].
      destruct (alookup x b) eqn:E'; auto.
      assert (Hn : alookup x b <> None) by congruence.
      apply Hd in Hn. destruct Hn as [Hn|[Hn|[]]]; congruence. }
    subst b. split; auto. apply Lay_var in HL; auto. congruence.
  - intros [-> ->]. split; auto. split; [intros x v; auto|]. split.
    + intros x. split; auto. intros [H|[H|[]]]; auto. subst. congruence.
    + apply Lay_var; auto.
Qed.

Lemma Ext_var_unbound s d bs b :
  sorted_keys (map fst bs) = true -> is_var s = true -> is_anon s = false ->
  alookup s bs = None ->
  (Ext' (JStr s) d bs b <-> b = bind s d bs).
Proof.
  intros Hs H1 H2 Hl. unfold Ext', bind. rewrite pvars_var by auto. split.
  - intros [Hsb [He [Hd HL]]]. apply Lay_var in HL; auto.
    apply sorted_alist_ext; auto; [apply sorted_ainsert; auto|].
    intros x. rewrite alookup_ainsert. destruct (String.eqb x s) eqn:Ex.
    + apply String.eqb_eq in Ex. subst. exact HL.
    + apply String.eqb_neq in Ex.
      destruct (alookup x bs) as [v'|] eqn:E; [apply He; auto|].
      destruct (alookup x b) eqn:E'; auto.
      assert (Hn : alookup x b <> None) by congruence.
      apply Hd in Hn. destruct Hn as [Hn|[Hn|[]]]; congruence.
  - intros ->. split; [apply sorted_ainsert; auto|]. split; [|split].
    + intros x v Hx. rewrite alookup_ainsert. destruct (String.eqb x s) eqn:Ex; auto.
      apply String.eqb_eq in Ex. subst. congruence.
    + intros x. rewrite alookup_ainsert. destruct (String.eqb x s) eqn:Ex.
      * apply String.eqb_eq in Ex. subst. split; [intros _; right; left; reflexivity|congruence].
      * apply String.eqb_neq in Ex. split; auto. intros [H|[H|[]]]; auto; congruence.
    + apply Lay_var; auto. rewrite alookup_ainsert, String.eqb_refl. reflexivity.
Qed.

(** * The recursive call *)

Section Rec.
Variable N : nat.
Variable rec : json -> json -> bindings -> outcome (list bindings).
Hypothesis Hrec : forall p d bs,
  (jsize p < N)%nat -> wfp p = true -> ground d = true -> okb bs ->
  LS risky p d -> CV (pvars p) bs ->
  exists out, rec p d bs = Ok out /\ forall b, In b out <-> Ext' p d bs b.

Lemma match_all_spec bss p d (Q : bindings -> bindings -> Prop) :
  (forall bs, In bs bss -> exists o, rec p d bs = Ok o /\ forall b, In b o <-> Q bs b) ->
  exists out, match_all rec bss p d = Ok out /\
              forall b, In b out <-> exists bs, In bs bss /\ Q bs b.
Proof.
  induction bss as [|bs bss IH]; intros H; cbn [match_all].
  - exists []. split; auto. intros b. split; [intros []|intros [bs [[] _]]].
  - destruct (H bs (or_introl eq_refl)) as [o [Ho Hspec]].
    destruct IH as [out [Hout Hspec']]; [intros; apply H; right; auto|].
    rewrite Ho, Hout. cbn [obind]. exists (o ++ out)%list. split; auto.
    intros b. rewrite in_app_iff, Hspec, Hspec'. split.
    + intros [Hq|[bs' [Hin Hq]]]; [exists bs; split; auto; left; auto|exists bs'; split; auto; right; auto].
    + intros [bs' [[<-|Hin] Hq]]; [left; auto|right; eauto].
Qed.

Lemma match_all_rec bss p d :
  (jsize p < N)%nat -> wfp p = true -> ground d = true -> LS risky p d ->
  (forall bs, In bs bss -> okb bs /\ CV (pvars p) bs) ->
  exists out, match_all rec bss p d = Ok out /\
              forall b, In b out <-> exists bs, In bs bss /\ Ext' p d bs b.
Proof.
  intros H1 H2 H3 H4 H5. apply match_all_spec.
  intros bs Hin. destruct (H5 bs Hin). apply Hrec; auto.
Qed.

(** * Objects with constant keys *)

Definition ExtEntries (pk dk : list (string * json)) (bs b : bindings) : Prop :=
  ExtG (pvars (JObj pk)) (fun b => Forall (entry_lays b dk) pk) bs b.

Lemma pvars_obj_cons k pv r :
  pvars (JObj ((k, pv) :: r)) = (pvars (JStr k) ++ pvars pv ++ pvars (JObj r))%list.
Proof. cbn [pvars flat_map fst snd]. rewrite app_assoc. reflexivity. Qed.

Lemma pvars_nonvar_key k : is_var k = false -> pvars (JStr k) = [].
Proof. intros H. cbn [pvars]. rewrite H. reflexivity. Qed.

Lemma ExtEntries_nil dk bs b :
  sorted_keys (map fst bs) = true -> (ExtEntries [] dk bs b <-> b = bs).
Proof.
  intros Hs. unfold ExtEntries. cbn [pvars flat_map]. rewrite ExtG_nil by auto.
  split; [tauto|]. intros ->. split; auto.
Qed.

Lemma ExtEntries_cons k pv r dk fv bs b :
  is_var k = false -> alookup k dk = Some fv ->
  (ExtEntries ((k, pv) :: r) dk bs b <->
   exists b1, Ext' pv fv bs b1 /\ ExtEntries r dk b1 b).
Proof.
  intros Hk Hl. unfold ExtEntries, Ext'.
  rewrite pvars_obj_cons, (pvars_nonvar_key k Hk). cbn [app].
  rewrite <- ExtG_seq by apply Lay_dep.
  apply ExtG_goal. split.
  - intros H. inversion H as [|? ? [dv [H1 H2]] H3]; subst. cbn [fst snd] in *.
    rewrite Hl in H1. inversion H1; subst. auto.
  - intros [H1 H2]. constructor; auto. exists fv. auto.
Qed.

Lemma ExtEntries_cons_None k pv r dk bs b :
  alookup k dk = None -> ~ ExtEntries ((k, pv) :: r) dk bs b.
Proof.
  intros Hl H. apply ExtG_G in H. inversion H as [|? ? [dv [H1 H2]] H3]; subst.
  cbn [fst] in H1. congruence.
Qed.

Lemma mapcat_spec dk single : forall pk bss,
  any_var_key pk = false ->
  (forall kv, In kv pk -> (jsize (snd kv) < N)%nat /\ wfp (snd kv) = true) ->
  ground (JObj dk) = true ->
  (forall kv dv, In kv pk -> alookup (fst kv) dk = Some dv -> LS risky (snd kv) dv) ->
  (forall bs, In bs bss -> okb bs /\ CV (pvars (JObj pk)) bs) ->
  exists out, mapcat rec bss single pk dk = Ok out /\
              forall b, In b out <-> exists bs, In bs bss /\ ExtEntries pk dk bs b.
Proof.
  induction pk as [|[k pv] r IH]; intros bss Hk Hsz Hg HLS Hbss; cbn [mapcat].
  - exists bss. split; auto. intros b. split.
    + intros Hin. exists b. split; auto. apply ExtEntries_nil; auto.
      apply okb_sorted. apply Hbss; auto.
    + intros [bs [Hin H]]. apply ExtEntries_nil in H; [subst; auto|].
      apply okb_sorted. apply Hbss; auto.
  - assert (Hk1 : is_var k = false).
    { apply (any_var_key_false _ (k, pv) Hk). left. reflexivity. }
    assert (Hk2 : any_var_key r = false).
    { unfold any_var_key in *. cbn [existsb] in Hk. apply orb_false_iff in Hk. tauto. }
    rewrite Hk1.
    destruct (Hsz (k, pv) (or_introl eq_refl)) as [Hsz1 Hw1]. cbn [snd] in Hsz1, Hw1.
    destruct (alookup k dk) as [fv|] eqn:El.
    + assert (HCV : forall bs, In bs bss -> okb bs /\ CV (pvars pv) bs).
      { intros bs Hin. destruct (Hbss bs Hin) as [H1 H2]. split; auto.
        rewrite pvars_obj_cons, (pvars_nonvar_key k Hk1) in H2. cbn [app] in H2.
        eapply CV_app_l; eauto. }
      assert (HLS1 : LS risky pv fv) by (apply (HLS (k, pv) fv); cbn; auto).
      assert (Hgfv : ground fv = true) by (eapply ground_obj_lookup; eauto).
      destruct (match_all_rec bss pv fv Hsz1 Hw1 Hgfv HLS1 HCV) as [acc [Hacc Hspec]].
      rewrite Hacc. cbn [obind].
      assert (Hacc_ok : forall b1, In b1 acc -> okb b1 /\ CV (pvars (JObj r)) b1).
      { intros b1 Hin. apply Hspec in Hin. destruct Hin as [bs [Hin HE]].
        destruct (Hbss bs Hin) as [H1 H2]. split.
        - eapply okb_ext; eauto.
        - rewrite pvars_obj_cons, (pvars_nonvar_key k Hk1) in H2. cbn [app] in H2.
          eapply CV_app_r; eauto. apply (ExtG_dom _ _ _ _ HE). }
      destruct (IH acc Hk2) as [out [Hout Hspec']]; auto.
      { intros kv Hin. apply Hsz. right; auto. }
      { intros kv dv Hin. apply HLS. right; auto. }
      assert (Hfinal : forall b, In b out <-> exists bs, In bs bss /\ ExtEntries ((k, pv) :: r) dk bs b).
      { intros b. rewrite Hspec'. split.
        - intros [b1 [Hin HE]]. apply Hspec in Hin. destruct Hin as [bs [Hin HE1]].
          exists bs. split; auto. apply (ExtEntries_cons k pv r dk fv); eauto.
        - intros [bs [Hin HE]]. apply (ExtEntries_cons k pv r dk fv) in HE; auto.
          destruct HE as [b1 [HE1 HE2]]. exists b1. split; auto. apply Hspec. eauto. }
      destruct acc as [|a acc'].
      * exists []. split; auto. intros b. rewrite <- Hfinal.
        cbn [mapcat] in Hout. destruct r as [|[k' pv'] r'].
        -- cbn [mapcat] in Hout. inversion Hout; subst. tauto.
        -- rewrite Hspec'. split; [intros []|intros [b1 [[] _]]].
      * exists out. split; auto.
    + assert (Hres : match pv with
                     | JStr s => if is_optvar s then mapcat rec bss single r dk else Ok []
                     | _ => Ok []
                     end = Ok []).
      { destruct pv; auto. cbn [wfp] in Hw1. apply andb_true_iff in Hw1. destruct Hw1 as [Hw1 _].
        destruct (is_optvar s); [discriminate|reflexivity]. }
      rewrite Hres. exists []. split; auto. intros b. split; [intros []|].
      intros [bs [_ HE]]. exfalso. eapply ExtEntries_cons_None; eauto.
Qed.

(** * Property variables *)

Lemma propvar_spec k pv :
  is_var k = true -> wfp (JStr k) = true -> (1 < N)%nat ->
  (jsize pv < N)%nat -> wfp pv = true ->
  forall dk bss,
  (forall e, In e dk -> is_var (fst e) = false /\ ground (snd e) = true /\ LS risky pv (snd e)) ->
  (forall bs, In bs bss -> okb bs /\ CV (pvars (JStr k) ++ pvars pv)%list bs) ->
  exists out, propvar_match rec bss k pv dk = Ok out /\
    forall b, In b out <->
      exists bs, In bs bss /\ exists e, In e dk /\
        exists b1, Ext' (JStr k) (JStr (fst e)) bs b1 /\ Ext' pv (snd e) b1 b.
Proof.
  intros Hk Hwk HN Hsz Hw. induction dk as [|[fk fv] r IH]; intros bss Hdk Hbss; cbn [propvar_match].
  - exists []. split; auto. intros b. split; [intros []|intros [bs [_ [e [[] _]]]]].
  - destruct (Hdk (fk, fv) (or_introl eq_refl)) as [Hfk [Hgfv HLSfv]]. cbn [fst snd] in *.
    assert (Hgk : ground (JStr fk) = true) by (cbn [ground]; rewrite Hfk; reflexivity).
    assert (HCV1 : forall bs, In bs bss -> okb bs /\ CV (pvars (JStr k)) bs).
    { intros bs Hin. destruct (Hbss bs Hin) as [H1 H2]. split; auto. eapply CV_app_l; eauto. }
    destruct (match_all_rec bss (JStr k) (JStr fk) ltac:(cbn; lia) Hwk Hgk (LS_str_str _ _ _) HCV1)
      as [ext [Hext Hspec1]].
    rewrite Hext. cbn [obind].
    assert (Hext_ok : forall b1, In b1 ext -> okb b1 /\ CV (pvars pv) b1).
    { intros b1 Hin. apply Hspec1 in Hin. destruct Hin as [bs [Hin HE]].
      destruct (Hbss bs Hin) as [H1 H2]. split.
      - eapply okb_ext; eauto. apply LS_str_str.
      - eapply CV_app_r; eauto. apply (ExtG_dom _ _ _ _ HE). }
    destruct (match_all_rec ext pv fv Hsz Hw Hgfv HLSfv Hext_ok) as [ext2 [Hext2 Hspec2]].
    assert (Hext2' : exists ext2', (match ext with [] => Ok [] | _ :: _ => match_all rec ext pv fv end) = Ok ext2' /\
                       forall b, In b ext2' <-> exists b1, In b1 ext /\ Ext' pv fv b1 b).
    { destruct ext as [|a ext'].
      - exists []. split; auto. intros b. split; [intros []|intros [b1 [[] _]]].
      - exists ext2. split; auto. }
    destruct Hext2' as [ext2' [Hext2' Hspec2']]. rewrite Hext2'. cbn [obind].
    destruct (IH bss) as [rest [Hrest Hspec3]]; auto.
    { intros e He. apply Hdk. right; auto. }
    rewrite Hrest. cbn [obind]. exists (ext2' ++ rest)%list. split; auto.
    intros b. rewrite in_app_iff, Hspec2', Hspec3. split.
    + intros [[b1 [Hin HE]]|[bs [Hin [e [He HE]]]]].
      * apply Hspec1 in Hin. destruct Hin as [bs [Hin HE1]].
        exists bs. split; auto. exists (fk, fv). split; [left; auto|]. exists b1. auto.
      * exists bs. split; auto. exists e. split; [right; auto|]. exact HE.
    + intros [bs [Hin [e [[<-|He] [b1 [HE1 HE2]]]]]].
      * left. exists b1. split; auto. apply Hspec1. eauto.
      * right. exists bs. split; auto. exists e. split; auto. exists b1. auto.
Qed.

Lemma Lay_obj_data b pk d : Lay b (JObj pk) d -> exists dk, d = JObj dk.
Proof.
  intros [[|f] H]; [discriminate|]. rewrite lay_S in H. destruct d; try discriminate. eauto.
Qed.

Lemma Ext_obj_nonvar pk dk bs b :
  any_var_key pk = false -> (Ext' (JObj pk) (JObj dk) bs b <-> ExtEntries pk dk bs b).
Proof.
  intros Hk. unfold Ext', ExtEntries. apply ExtG_goal.
  rewrite Lay_obj_nonvar by auto. split.
  - intros [dk' [H1 H2]]. inversion H1; subst. auto.
  - intros H. eauto.
Qed.

Lemma Ext_obj_var k pv dk bs b :
  is_var k = true ->
  (Ext' (JObj [(k, pv)]) (JObj dk) bs b <->
   exists e, In e dk /\ exists b1, Ext' (JStr k) (JStr (fst e)) bs b1 /\ Ext' pv (snd e) b1 b).
Proof.
  intros Hk. unfold Ext'.
  rewrite pvars_obj_cons. cbn [pvars flat_map]. rewrite app_nil_r. fold (pvars (JStr k)).
  assert (Hequiv : forall e,
     ExtG (pvars (JStr k) ++ pvars pv)%list
          (fun b => Lay b (JStr k) (JStr (fst e)) /\ Lay b pv (snd e)) bs b <->
     exists b1, ExtG (pvars (JStr k)) (fun b => Lay b (JStr k) (JStr (fst e))) bs b1 /\
                ExtG (pvars pv) (fun b => Lay b pv (snd e)) b1 b).
  { intros e. apply ExtG_seq. apply Lay_dep. }
  split.
  - intros H. apply (ExtG_goal _ _ (fun b => exists e, In e dk /\
                       Lay b (JStr k) (JStr (fst e)) /\ Lay b pv (snd e))) in H.
    + apply ExtG_exists in H. destruct H as [e [He H]]. exists e. split; auto. apply Hequiv. exact H.
    + rewrite Lay_obj_var by auto. split.
      * intros [dk' [H1 H2]]. inversion H1; subst. auto.
      * intros H'. eauto.
  - intros [e [He H]]. apply Hequiv in H.
    apply (ExtG_goal _ (fun b => Lay b (JObj [(k, pv)]) (JObj dk))
                       (fun b => exists e, In e dk /\
                       Lay b (JStr k) (JStr (fst e)) /\ Lay b pv (snd e))).
    + rewrite Lay_obj_var by auto. split.
      * intros [dk' [H1 H2]]. inversion H1; subst. auto.
      * intros H'. eauto.
    + apply ExtG_exists. eauto.
Qed.

End Rec.
End Risky.
