(** Basic lemmas: string order, association lists, json_eqb. *)
From Coq Require Import Lia Permutation.
From Verif Require Import Json Outcome Match.

(** * String order *)

Lemma ascii_compare_refl a : Ascii.compare a a = Eq.
Proof. unfold Ascii.compare. apply N.compare_refl. Qed.

Lemma ascii_compare_lt_trans a b c :
  Ascii.compare a b = Lt -> Ascii.compare b c = Lt -> Ascii.compare a c = Lt.
Proof.
  unfold Ascii.compare. rewrite !N.compare_lt_iff. apply N.lt_trans.
Qed.

Lemma str_compare_refl s : String.compare s s = Eq.
Proof.
  induction s as [|a s IH]; cbn; auto. rewrite ascii_compare_refl. exact IH.
Qed.

Lemma str_compare_lt_trans : forall a b c,
  String.compare a b = Lt -> String.compare b c = Lt -> String.compare a c = Lt.
Proof.
  induction a as [|x a IH]; intros [|y b] [|z c]; cbn; intros H1 H2; try discriminate; auto.
  destruct (Ascii.compare x y) eqn:E1; try discriminate.
  - apply Ascii.compare_eq_iff in E1. subst y.
    destruct (Ascii.compare x z) eqn:E2; try discriminate; auto.
    eapply IH; eauto.
  - destruct (Ascii.compare y z) eqn:E2; try discriminate.
    + apply Ascii.compare_eq_iff in E2. subst z. rewrite E1. reflexivity.
    + rewrite (ascii_compare_lt_trans _ _ _ E1 E2). reflexivity.
Qed.

Lemma str_ltb_trans a b c : str_ltb a b = true -> str_ltb b c = true -> str_ltb a c = true.
Proof.
  unfold str_ltb. intros H1 H2.
  destruct (String.compare a b) eqn:E1; try discriminate.
  destruct (String.compare b c) eqn:E2; try discriminate.
  rewrite (str_compare_lt_trans _ _ _ E1 E2). reflexivity.
Qed.

Lemma str_ltb_irrefl a : str_ltb a a = false.
Proof. unfold str_ltb. rewrite str_compare_refl. reflexivity. Qed.

Lemma str_ltb_neq a b : str_ltb a b = true -> a <> b.
Proof. intros H E. subst. rewrite str_ltb_irrefl in H. discriminate. Qed.

Lemma str_compare_gt_lt a b : String.compare a b = Gt -> String.compare b a = Lt.
Proof. intros H. rewrite String.compare_antisym, H. reflexivity. Qed.

(** * Sorted keys *)

Lemma sorted_keys_cons_inv k r :
  sorted_keys (k :: r) = true ->
  Forall (fun k' => str_ltb k k' = true) r /\ sorted_keys r = true.
Proof.
  revert k. induction r as [|k' r IH]; intros k H.
  - split; auto.
  - cbn [sorted_keys] in H. apply andb_true_iff in H. destruct H as [H1 H2].
    split; auto. constructor; auto.
    destruct (IH _ H2) as [H3 _].
    eapply Forall_impl; [|exact H3]. cbn. intros k'' H4. eapply str_ltb_trans; eauto.
Qed.

Lemma sorted_keys_cons k r :
  Forall (fun k' => str_ltb k k' = true) r -> sorted_keys r = true ->
  sorted_keys (k :: r) = true.
Proof.
  intros H1 H2. destruct r as [|k' r]; auto.
  cbn [sorted_keys]. inversion H1; subst. rewrite H3. exact H2.
Qed.

Lemma sorted_keys_tail k r : sorted_keys (k :: r) = true -> sorted_keys r = true.
Proof. intros H. apply sorted_keys_cons_inv in H. tauto. Qed.

(** * alookup *)

Lemma alookup_None_notin {A} k (l : list (string * A)) :
  alookup k l = None <-> ~ In k (map fst l).
Proof.
  induction l as [|[k' v] l IH]; cbn.
  - tauto.
  - destruct (String.eqb k k') eqn:E.
    + apply String.eqb_eq in E. subst. split; [discriminate|]. intros H. exfalso. apply H. auto.
    + apply String.eqb_neq in E. rewrite IH. split.
      * intros H [H1|H1]; congruence.
      * intros H H1. apply H. auto.
Qed.

Lemma alookup_In {A} k (v : A) l : alookup k l = Some v -> In (k, v) l.
Proof.
  induction l as [|[k' v'] l IH]; cbn; [discriminate|].
  destruct (String.eqb k k') eqn:E.
  - apply String.eqb_eq in E. subst. intros H. inversion H. auto.
  - auto.
Qed.

Lemma alookup_lt_None {A} k (l : list (string * A)) :
  Forall (fun k' => str_ltb k k' = true) (map fst l) -> alookup k l = None.
Proof.
  intros H. apply alookup_None_notin. intros Hin.
  rewrite Forall_forall in H. apply H in Hin. rewrite str_ltb_irrefl in Hin. discriminate.
Qed.

Lemma In_sorted_alookup {A} k (v : A) l :
  sorted_keys (map fst l) = true -> In (k, v) l -> alookup k l = Some v.
Proof.
  induction l as [|[k' v'] l IH]; cbn [map fst In alookup]; [tauto|].
  intros Hs [H|H].
  - inversion H; subst. rewrite String.eqb_refl. reflexivity.
  - apply sorted_keys_cons_inv in Hs. destruct Hs as [Hs1 Hs2].
    destruct (String.eqb k k') eqn:E.
    + apply String.eqb_eq in E. subst k'. exfalso.
      rewrite Forall_forall in Hs1.
      assert (Hk : In k (map fst l)) by (apply in_map_iff; exists (k, v); auto).
      apply Hs1 in Hk. rewrite str_ltb_irrefl in Hk. discriminate.
    + auto.
Qed.

(** Extensionality of sorted association lists. *)
Lemma sorted_alist_ext {A} : forall (l l' : list (string * A)),
  sorted_keys (map fst l) = true -> sorted_keys (map fst l') = true ->
  (forall x, alookup x l = alookup x l') -> l = l'.
Proof.
  induction l as [|[k v] l IH]; intros [|[k' v'] l'] Hs Hs' Hext.
  - reflexivity.
  - specialize (Hext k'). cbn in Hext. rewrite String.eqb_refl in Hext. discriminate.
  - specialize (Hext k). cbn in Hext. rewrite String.eqb_refl in Hext. discriminate.
  - cbn [map fst] in Hs, Hs'.
    apply sorted_keys_cons_inv in Hs. destruct Hs as [Hs1 Hs2].
    apply sorted_keys_cons_inv in Hs'. destruct Hs' as [Hs1' Hs2'].
    assert (Hk : k = k').
    { destruct (String.compare k k') eqn:E.
      - apply String.compare_eq_iff; auto.
      - exfalso. pose proof (Hext k) as H. cbn in H. rewrite String.eqb_refl in H.
        assert (Hne : String.eqb k k' = false).
        { apply String.eqb_neq. apply str_ltb_neq. unfold str_ltb. rewrite E. reflexivity. }
        rewrite Hne in H.
        rewrite alookup_lt_None in H; [discriminate|].
        eapply Forall_impl; [|exact Hs1']. cbn. intros a Ha.
        eapply str_ltb_trans; [|exact Ha]. unfold str_ltb. rewrite E. reflexivity.
      - exfalso. apply str_compare_gt_lt in E.
        pose proof (Hext k') as H. cbn in H. rewrite String.eqb_refl in H.
        assert (Hne : String.eqb k' k = false).
        { apply String.eqb_neq. apply str_ltb_neq. unfold str_ltb. rewrite E. reflexivity. }
        rewrite Hne in H.
        rewrite alookup_lt_None in H; [discriminate|].
        eapply Forall_impl; [|exact Hs1]. cbn. intros a Ha.
        eapply str_ltb_trans; [|exact Ha]. unfold str_ltb. rewrite E. reflexivity. }
    subst k'.
    pose proof (Hext k) as H. cbn in H. rewrite String.eqb_refl in H. inversion H; subst v'.
    f_equal. apply IH; auto.
    intros x. destruct (String.eqb x k) eqn:E.
    + apply String.eqb_eq in E. subst x.
      rewrite !alookup_lt_None; auto.
    + specialize (Hext x). cbn in Hext. rewrite E in Hext. exact Hext.
Qed.

(** * ainsert *)

Lemma alookup_ainsert {A} x k (v : A) l :
  alookup x (ainsert k v l) = if String.eqb x k then Some v else alookup x l.
Proof.
  induction l as [|[k' v'] l IH]; cbn [ainsert alookup].
  - reflexivity.
  - destruct (String.compare k k') eqn:E.
    + apply String.compare_eq_iff in E. subst k'. cbn [alookup].
      destruct (String.eqb x k); reflexivity.
    + cbn [alookup]. destruct (String.eqb x k); reflexivity.
    + cbn [alookup]. rewrite IH.
      destruct (String.eqb x k') eqn:E1; auto.
      apply String.eqb_eq in E1. subst x.
      assert (Hne : String.eqb k' k = false).
      { apply String.eqb_neq. intros ->. rewrite str_compare_refl in E. discriminate. }
      rewrite Hne. reflexivity.
Qed.

Lemma ainsert_keys_Forall {A} (P : string -> Prop) k (v : A) l :
  P k -> Forall P (map fst l) -> Forall P (map fst (ainsert k v l)).
Proof.
  intros Hk. induction l as [|[k' v'] l IH]; cbn [ainsert map fst]; intros H.
  - constructor; auto.
  - inversion H; subst. destruct (String.compare k k'); cbn [map fst]; auto.
Qed.

Lemma sorted_ainsert {A} k (v : A) l :
  sorted_keys (map fst l) = true -> sorted_keys (map fst (ainsert k v l)) = true.
Proof.
  induction l as [|[k' v'] l IH]; cbn [ainsert map fst]; intros Hs.
  - reflexivity.
  - destruct (String.compare k k') eqn:E.
    + apply String.compare_eq_iff in E. subst k'. exact Hs.
    + cbn [map fst]. apply sorted_keys_cons_inv in Hs. destruct Hs as [Hs1 Hs2].
      assert (Hlt : str_ltb k k' = true) by (unfold str_ltb; rewrite E; reflexivity).
      apply sorted_keys_cons.
      * constructor; auto. eapply Forall_impl; [|exact Hs1]. cbn. intros a Ha.
        eapply str_ltb_trans; eauto.
      * apply sorted_keys_cons; auto.
    + cbn [map fst]. apply sorted_keys_cons_inv in Hs. destruct Hs as [Hs1 Hs2].
      apply sorted_keys_cons; auto.
      apply ainsert_keys_Forall; auto.
      unfold str_ltb. rewrite (str_compare_gt_lt _ _ E). reflexivity.
Qed.

(** * Filtering an association list by key *)

Definition afilter {A} (keep : string -> bool) (l : list (string * A)) : list (string * A) :=
  filter (fun kv => keep (fst kv)) l.

Lemma alookup_afilter {A} keep x (l : list (string * A)) :
  alookup x (afilter keep l) = if keep x then alookup x l else None.
Proof.
  induction l as [|[k v] l IH]; cbn [afilter filter alookup fst].
  - destruct (keep x); reflexivity.
  - destruct (keep k) eqn:Ek; cbn [alookup]; fold (afilter keep l); rewrite IH.
    + destruct (String.eqb x k) eqn:E; auto.
      apply String.eqb_eq in E. subst. rewrite Ek. reflexivity.
    + destruct (String.eqb x k) eqn:E; auto.
      apply String.eqb_eq in E. subst. rewrite Ek. reflexivity.
Qed.

Lemma afilter_keys_Forall {A} (P : string -> Prop) keep (l : list (string * A)) :
  Forall P (map fst l) -> Forall P (map fst (afilter keep l)).
Proof.
  induction l as [|[k v] l IH]; cbn [afilter filter map fst]; intros H; auto.
  inversion H; subst. destruct (keep k); cbn [map fst]; auto.
Qed.

Lemma sorted_afilter {A} keep (l : list (string * A)) :
  sorted_keys (map fst l) = true -> sorted_keys (map fst (afilter keep l)) = true.
Proof.
  induction l as [|[k v] l IH]; cbn [afilter filter map fst]; intros Hs; auto.
  apply sorted_keys_cons_inv in Hs. destruct Hs as [Hs1 Hs2].
  destruct (keep k); cbn [map fst].
  - apply sorted_keys_cons.
    + apply afilter_keys_Forall; auto.
    + apply IH; auto.
  - apply IH; auto.
Qed.

(** * mem_str, count_str *)

Lemma mem_str_In s l : mem_str s l = true <-> In s l.
Proof.
  induction l as [|x l IH]; cbn.
  - split; [discriminate|tauto].
  - rewrite orb_true_iff, IH, String.eqb_eq. split; intros [H|H]; auto.
Qed.

Lemma count_str_app s l1 l2 : count_str s (l1 ++ l2)%list = (count_str s l1 + count_str s l2)%nat.
Proof. induction l1 as [|x l1 IH]; cbn; auto. rewrite IH. lia. Qed.

Lemma count_str_In s l : In s l <-> (1 <= count_str s l)%nat.
Proof.
  induction l as [|x l IH]; cbn.
  - split; [tauto|lia].
  - destruct (String.eqb s x) eqn:E.
    + apply String.eqb_eq in E. subst. split; [lia|auto].
    + apply String.eqb_neq in E. rewrite IH. split; [intros [H|H]; [congruence|lia]|intros H; right; lia].
Qed.

Lemma count_str_perm s l l' : Permutation l l' -> count_str s l = count_str s l'.
Proof. induction 1; cbn; lia. Qed.

(** * json_eqb *)

Lemma json_eqb_eq : forall a b, json_eqb a b = true -> a = b.
Proof.
  induction a using json_ind'; intros [] Hab; cbn in Hab; try discriminate; auto.
  - apply Bool.eqb_prop in Hab. subst; auto.
  - apply Z.eqb_eq in Hab. subst; auto.
  - apply String.eqb_eq in Hab. subst; auto.
  - f_equal. revert l0 Hab. induction H as [|x l Hx Hl IH]; intros [|y l0] Hab; try discriminate; auto.
    apply andb_true_iff in Hab. destruct Hab as [H1 H2].
    f_equal; auto.
  - f_equal. revert kvs0 Hab. induction H as [|[k x] l Hx Hl IH]; intros [|[k' y] l0] Hab; try discriminate; auto.
    apply andb_true_iff in Hab. destruct Hab as [H1 H2].
    apply andb_true_iff in H1. destruct H1 as [H0 H1].
    apply String.eqb_eq in H0. subst k'. cbn in Hx.
    f_equal; auto. f_equal; auto.
Qed.

Lemma json_eqb_refl : forall a, json_eqb a a = true.
Proof.
  induction a using json_ind'; cbn; auto.
  - apply Bool.eqb_reflx.
  - apply Z.eqb_refl.
  - apply String.eqb_refl.
  - induction H as [|x l Hx Hl IH]; auto. rewrite Hx. exact IH.
  - induction H as [|[k x] l Hx Hl IH]; auto. cbn in Hx. rewrite String.eqb_refl, Hx. exact IH.
Qed.

Lemma json_eqb_iff a b : json_eqb a b = true <-> a = b.
Proof. split; [apply json_eqb_eq|intros ->; apply json_eqb_refl]. Qed.

Lemma json_eqb_false a b : json_eqb a b = false <-> a <> b.
Proof.
  split.
  - intros H E. subst. rewrite json_eqb_refl in H. discriminate.
  - intros H. destruct (json_eqb a b) eqn:E; auto. apply json_eqb_eq in E. contradiction.
Qed.

Lemma mem_json_In x l : mem_json x l = true <-> In x l.
Proof.
  induction l as [|y l IH]; cbn.
  - split; [discriminate|tauto].
  - rewrite orb_true_iff, IH, json_eqb_iff. split; intros [H|H]; auto.
Qed.

Lemma remove_first_perm x l : In x l -> Permutation l (x :: remove_first_json x l).
Proof.
  induction l as [|y l IH]; cbn; [tauto|].
  intros H. destruct (json_eqb x y) eqn:E.
  - apply json_eqb_eq in E. subst. reflexivity.
  - destruct H as [H|H]; [subst; rewrite json_eqb_refl in E; discriminate|].
    rewrite perm_swap. constructor. auto.
Qed.

Lemma remove_first_incl x l y : In y (remove_first_json x l) -> In y l.
Proof.
  induction l as [|z l IH]; cbn; auto.
  destruct (json_eqb x z); cbn; intuition.
Qed.

(** * jsize *)

Lemma jsize_pos j : (1 <= jsize j)%nat.
Proof. destruct j; cbn; lia. Qed.

Lemma jsize_arr_In x l : In x l -> (jsize x < jsize (JArr l))%nat.
Proof.
  cbn [jsize]. induction l as [|y l IH]; cbn [In fold_right]; [tauto|].
  intros [H|H]; [subst; lia|]. apply IH in H. lia.
Qed.

Lemma jsize_obj_In kv l : In kv l -> (jsize (snd kv) + 1 < jsize (JObj l))%nat.
Proof.
  cbn [jsize]. induction l as [|y l IH]; cbn [In fold_right]; [tauto|].
  intros [H|H]; [subst; lia|]. apply IH in H. lia.
Qed.

(** * existsb / forallb helpers *)

Lemma existsb_false {A} (f : A -> bool) l x : existsb f l = false -> In x l -> f x = false.
Proof.
  intros H Hin. destruct (f x) eqn:E; auto.
  assert (existsb f l = true) by (apply existsb_exists; eauto). congruence.
Qed.
