(** C05: the matcher computes exactly the canonical partial-match extensions. *)
From Coq Require Import Lia Permutation.
From Verif Require Import Json Outcome Match MatchSpec
     MatchLemmas1 MatchLemmas2 MatchLemmas3 MatchLemmas4.

(** * Arrays, specification side *)

Lemma ExtG_weaken V (G G' : bindings -> Prop) b0 b :
  (G b -> G' b) -> ExtG V G b0 b -> ExtG V G' b0 b.
Proof. intros H [H1 [H2 [H3 H4]]]. unfold ExtG. auto. Qed.

Definition Gsel (xs D rest : list json) (b : bindings) : Prop :=
  exists ys, Forall2 (Lay b) xs ys /\ Permutation D (ys ++ rest)%list.

Lemma dep_Forall2 xs ys : dep_on (flat_map pvars xs) (fun b => Forall2 (Lay b) xs ys).
Proof.
  intros b b' Hag HF. eapply Forall2_imp_in; [|exact HF].
  intros x y Hx _ HL. eapply Lay_agree; [|exact HL].
  intros v Hv. apply Hag. apply in_flat_map. eauto.
Qed.

Lemma dep_Gsel xs D rest : dep_on (flat_map pvars xs) (Gsel xs D rest).
Proof.
  intros b b' Hag [ys [HF HP]]. exists ys. split; auto.
  eapply dep_Forall2; eauto.
Qed.

Lemma nth_error_snd_perm (rem : list (nat * json)) pos j y :
  nth_error rem pos = Some (j, y) ->
  Permutation (map snd rem) (y :: map snd (remove_nth pos rem)).
Proof.
  intros H. apply nth_error_remove_perm in H.
  apply (Permutation_map snd) in H. exact H.
Qed.

Lemma SemE_sound : forall xs fxs b rem b' rem',
  SemE xs fxs b rem b' rem' ->
  Forall (fun x => isvarj x = false) xs ->
  sorted_keys (map fst b) = true ->
  ExtG (flat_map pvars xs)
       (Gsel xs (fxs ++ map snd rem)%list (left_scalars xs fxs ++ map snd rem')%list) b b'.
Proof.
  intros xs fxs b rem b' rem' H.
  induction H as [fxs b rem
                 |x r fxs b rem b' rem' Hx Hin Hsem IH
                 |x r fxs b rem pos j y b1 b' rem' Hx Hn HE Hsem IH]; intros Hnv Hs.
  - cbn [flat_map left_scalars]. apply ExtG_nil; auto. split; auto.
    exists []. split; [constructor|reflexivity].
  - inversion Hnv as [|? ? Hnx Hnr]; subst.
    cbn [flat_map left_scalars]. rewrite Hx.
    rewrite (pvars_scalar x Hx (nonvar_isvarj x Hnx)). cbn [app].
    eapply ExtG_weaken; [|apply IH; auto].
    intros [ys [HF HP]]. exists (x :: ys). split.
    + constructor; auto. apply Lay_scalar; auto. apply nonvar_isvarj; auto.
    + transitivity ((x :: remove_first_json x fxs) ++ map snd rem)%list.
      * apply Permutation_app_tail. apply remove_first_perm; auto.
      * cbn [app]. constructor. exact HP.
  - inversion Hnv as [|? ? Hnx Hnr]; subst.
    cbn [flat_map left_scalars]. rewrite Hx.
    assert (Hs1 : sorted_keys (map fst b1) = true) by (apply (ExtG_sorted _ _ _ _ HE)).
    specialize (IH Hnr Hs1).
    assert (Hseq : ExtG (pvars x ++ flat_map pvars r)%list
              (fun b'' => Lay b'' x y /\
                 Gsel r (fxs ++ map snd (remove_nth pos rem))%list
                      (left_scalars r fxs ++ map snd rem')%list b'') b b').
    { apply ExtG_seq; [apply Lay_dep|]. exists b1. split; auto. }
    eapply ExtG_weaken; [|exact Hseq].
    intros [HL [ys [HF HP]]]. exists (y :: ys). split; [constructor; auto|].
    transitivity (fxs ++ y :: map snd (remove_nth pos rem))%list.
    + apply Permutation_app_head. eapply nth_error_snd_perm; eauto.
    + rewrite <- Permutation_middle. cbn [app]. constructor. exact HP.
Qed.

Lemma SemE_complete : forall xs fxs b rem b' ys rest,
  Forall (fun x => isvarj x = false) xs ->
  sorted_keys (map fst b) = true ->
  Forall (fun y => is_scalar y = true) fxs ->
  Forall (fun iy => is_scalar (snd iy) = false) rem ->
  ExtG (flat_map pvars xs) (fun b'' => Forall2 (Lay b'') xs ys) b b' ->
  Permutation (fxs ++ map snd rem)%list (ys ++ rest)%list ->
  exists rem', SemE xs fxs b rem b' rem' /\
               Permutation (left_scalars xs fxs ++ map snd rem')%list rest.
Proof.
  induction xs as [|x r IH]; intros fxs b rem b' ys rest Hnv Hs Hsc Hst HE HP.
  - cbn [flat_map] in HE. apply ExtG_nil in HE; auto. destruct HE as [-> HF].
    inversion HF; subst. exists rem. split; [constructor|]. exact HP.
  - inversion Hnv as [|? ? Hnx Hnr]; subst.
    destruct HE as [H1 [H2 [H3 H4]]]. cbn [flat_map] in H3.
    inversion H4 as [|? y ? ys' HLx HF]; subst.
    cbn [app] in HP.
    assert (Hy : In y (fxs ++ map snd rem)%list).
    { eapply Permutation_in; [symmetry; exact HP|]. left. reflexivity. }
    destruct (is_scalar x) eqn:Ex.
    + rewrite (pvars_scalar x Ex (nonvar_isvarj x Hnx)) in H3. cbn [app] in H3.
      apply Lay_scalar in HLx; auto; [|apply nonvar_isvarj; auto]. subst y.
      assert (Hin : In x fxs).
      { apply in_app_or in Hy. destruct Hy as [Hy|Hy]; auto.
        apply in_map_iff in Hy. destruct Hy as [iy [Hiy Hin]].
        rewrite Forall_forall in Hst. apply Hst in Hin. congruence. }
      destruct (IH (remove_first_json x fxs) b rem b' ys' rest) as [rem' [Hsem HP']]; auto.
      * apply Forall_forall. intros y Hy'. apply remove_first_incl in Hy'.
        rewrite Forall_forall in Hsc. auto.
      * split; auto.
      * apply (Permutation_cons_inv (a := x)).
        transitivity (fxs ++ map snd rem)%list; auto.
        change (x :: remove_first_json x fxs ++ map snd rem)%list
          with ((x :: remove_first_json x fxs) ++ map snd rem)%list.
        apply Permutation_app_tail. symmetry. apply remove_first_perm; auto.
      * exists rem'. split; [apply SemE_scalar; auto|].
        cbn [left_scalars]. rewrite Ex. exact HP'.
    + assert (Hys : is_scalar y = false) by (eapply Lay_struct_data; eauto).
      assert (Hin : In y (map snd rem)).
      { apply in_app_or in Hy. destruct Hy as [Hy|Hy]; auto.
        rewrite Forall_forall in Hsc. apply Hsc in Hy. congruence. }
      apply in_map_iff in Hin. destruct Hin as [[j y'] [Hiy Hin]]. cbn in Hiy. subst y'.
      apply In_nth_error in Hin. destruct Hin as [pos Hn].
      assert (Hseq : ExtG (pvars x ++ flat_map pvars r)%list
                (fun b'' => Lay b'' x y /\ Forall2 (Lay b'') r ys') b b').
      { split; auto. }
      apply ExtG_seq in Hseq; [|apply Lay_dep].
      destruct Hseq as [b1 [HE1 HE2]].
      destruct (IH fxs b1 (remove_nth pos rem) b' ys' rest) as [rem' [Hsem HP']]; auto.
      * apply (ExtG_sorted _ _ _ _ HE1).
      * apply Forall_forall. intros iy Hiy. apply remove_nth_incl in Hiy.
        rewrite Forall_forall in Hst. auto.
      * apply (Permutation_cons_inv (a := y)).
        transitivity (fxs ++ map snd rem)%list; auto.
        rewrite Permutation_middle. apply Permutation_app_head.
        symmetry. eapply nth_error_snd_perm; eauto.
      * exists rem'. split; [eapply SemE_struct; eauto|].
        cbn [left_scalars]. rewrite Ex. exact HP'.
Qed.

Lemma arr_novar_pure pl dl fxs fxa bs b :
  Forall (fun x => isvarj x = false) pl ->
  sorted_keys (map fst bs) = true ->
  Permutation (dedup_scalars dl []) (fxs ++ map snd fxa)%list ->
  Forall (fun y => is_scalar y = true) fxs ->
  Forall (fun iy => is_scalar (snd iy) = false) fxa ->
  ((exists rem', SemE pl fxs bs fxa b rem') <-> Ext' (JArr pl) (JArr dl) bs b).
Proof.
  intros Hnv Hs HP Hsc Hst. split.
  - intros [rem' Hsem]. apply SemE_sound in Hsem; auto.
    unfold Ext'. change (pvars (JArr pl)) with (flat_map pvars pl).
    eapply ExtG_weaken; [|exact Hsem].
    intros [ys [HF HP']]. apply Lay_arr. exists dl. split; auto.
    exists ys, (left_scalars pl fxs ++ map snd rem')%list. split; auto.
    transitivity (fxs ++ map snd fxa)%list; auto.
  - intros [H1 [H2 [H3 HL]]]. apply Lay_arr in HL.
    destruct HL as [dl' [Heq [ys [rest [HF HP']]]]]. inversion Heq; subst dl'.
    destruct (SemE_complete pl fxs bs fxa b ys rest) as [rem' [Hsem _]]; auto.
    + split; auto.
    + transitivity (dedup_scalars dl []); auto. symmetry; auto.
    + eauto.
Qed.

Lemma perm_var_last (l1 l2 : list json) a :
  Permutation (l1 ++ a :: l2)%list ((l1 ++ l2) ++ [a])%list.
Proof.
  rewrite <- Permutation_middle. apply Permutation_cons_append.
Qed.

Lemma pvars_arr_perm l1 s l2 :
  Permutation (pvars (JArr (l1 ++ JStr s :: l2)%list))
              (flat_map pvars (l1 ++ l2)%list ++ pvars (JStr s))%list.
Proof.
  change (pvars (JArr (l1 ++ JStr s :: l2)%list)) with (flat_map pvars (l1 ++ JStr s :: l2)%list).
  rewrite (Permutation_flat_map pvars (perm_var_last l1 l2 (JStr s))).
  rewrite flat_map_app. apply Permutation_app_head.
  cbn [flat_map]. rewrite app_nil_r. reflexivity.
Qed.

Lemma arr_var_pure l1 s l2 dl fxs fxa extra bs b :
  Forall (fun x => isvarj x = false) (l1 ++ l2)%list ->
  sorted_keys (map fst bs) = true ->
  Permutation (dedup_scalars dl []) (fxs ++ map snd fxa)%list ->
  Forall (fun y => is_scalar y = true) fxs ->
  Forall (fun iy => is_scalar (snd iy) = false) fxa ->
  map snd extra = left_scalars (l1 ++ l2)%list fxs ->
  ((exists b' rem' pos j y,
      SemE (l1 ++ l2)%list fxs bs fxa b' rem' /\
      nth_error (rem' ++ extra)%list pos = Some (j, y) /\
      Ext' (JStr s) y b' b) <->
   Ext' (JArr (l1 ++ JStr s :: l2)%list) (JArr dl) bs b).
Proof.
  intros Hnv Hs HP Hsc Hst Hextra.
  set (xs := (l1 ++ l2)%list) in *.
  set (pl := (l1 ++ JStr s :: l2)%list).
  assert (HV : forall x, In x (flat_map pvars xs ++ pvars (JStr s))%list <-> In x (pvars (JArr pl))).
  { intros x. split; apply Permutation_in; [symmetry|]; apply pvars_arr_perm. }
  assert (Hpl : Permutation pl (xs ++ [JStr s])%list) by apply perm_var_last.
  split.
  - intros [b' [rem' [pos [j [y [Hsem [Hn HE]]]]]]].
    apply SemE_sound in Hsem; auto.
    assert (Hseq : ExtG (flat_map pvars xs ++ pvars (JStr s))%list
              (fun b'' => Gsel xs (fxs ++ map snd fxa)%list
                            (left_scalars xs fxs ++ map snd rem')%list b'' /\
                          Lay b'' (JStr s) y) bs b).
    { apply ExtG_seq; [apply dep_Gsel|]. exists b'. split; auto. }
    unfold Ext'.
    apply (ExtG_congr _ (pvars (JArr pl)) _ (fun b => Lay b (JArr pl) (JArr dl)) bs b HV (iff_refl _)).
    eapply ExtG_weaken; [|exact Hseq].
    intros [[ys [HF HP']] HLv].
    assert (Hy : In y (left_scalars xs fxs ++ map snd rem')%list).
    { apply nth_error_In in Hn. apply (in_map snd) in Hn. cbn [snd] in Hn.
      rewrite map_app, Hextra in Hn. apply in_app_or in Hn. apply in_or_app. tauto. }
    apply in_split in Hy. destruct Hy as [r1 [r2 Hr]].
    assert (HF' : Forall2 (Lay b) (xs ++ [JStr s])%list (ys ++ [y])%list).
    { apply Forall2_app; auto. }
    destruct (Permutation_Forall2 (Permutation_sym Hpl) HF') as [ys' [Hpys HF'']].
    apply Lay_arr. exists dl. split; auto. exists ys', (r1 ++ r2)%list. split; auto.
    transitivity (fxs ++ map snd fxa)%list; auto.
    transitivity (ys ++ left_scalars xs fxs ++ map snd rem')%list; auto.
    rewrite Hr. rewrite <- Permutation_middle.
    transitivity ((ys ++ [y]) ++ r1 ++ r2)%list.
    + rewrite <- app_assoc. cbn [app]. rewrite <- Permutation_middle. reflexivity.
    + apply Permutation_app_tail. exact Hpys.
  - intros [H1 [H2 [H3 HL]]]. apply Lay_arr in HL.
    destruct HL as [dl' [Heq [ys0 [rest [HF0 HP0]]]]]. inversion Heq; subst dl'.
    destruct (Permutation_Forall2 Hpl HF0) as [ys1 [Hpys HF1]].
    apply Forall2_app_inv_l in HF1. destruct HF1 as [ys [yv [HFxs [HFv ->]]]].
    inversion HFv as [|? y ? yv' HLv HFnil]; subst. inversion HFnil; subst.
    assert (Hseq : ExtG (flat_map pvars xs ++ pvars (JStr s))%list
              (fun b'' => Forall2 (Lay b'') xs ys /\ Lay b'' (JStr s) y) bs b).
    { split; auto. split; auto. split; auto.
      intros x. rewrite (H3 x). rewrite (HV x). tauto. }
    apply ExtG_seq in Hseq; [|apply dep_Forall2].
    destruct Hseq as [b' [HE1 HE2]].
    destruct (SemE_complete xs fxs bs fxa b' ys (y :: rest)) as [rem' [Hsem HP']]; auto.
    + transitivity (dedup_scalars dl []); [symmetry; auto|].
      transitivity (ys0 ++ rest)%list; auto.
      transitivity ((ys ++ [y]) ++ rest)%list; [apply Permutation_app_tail; auto|].
      rewrite <- app_assoc. reflexivity.
    + assert (Hy : In y (map snd (rem' ++ extra)%list)).
      { rewrite map_app, Hextra.
        assert (Hy : In y (left_scalars xs fxs ++ map snd rem')%list).
        { eapply Permutation_in; [symmetry; exact HP'|]. left. reflexivity. }
        apply in_app_or in Hy. apply in_or_app. tauto. }
      apply in_map_iff in Hy. destruct Hy as [[j y'] [Hiy Hin]]. cbn in Hiy. subst y'.
      apply In_nth_error in Hin. destruct Hin as [pos Hn].
      exists b', rem', pos, j, y. auto.
Qed.

Lemma map_snd_combine_extra n (l : list json) : map snd (combine_extra n l) = l.
Proof.
  unfold combine_extra. revert n. induction l as [|a l IH]; intros n; cbn [length seq List.combine map snd]; auto.
  rewrite IH. reflexivity.
Qed.

Lemma AltIn_map_extra b rem1 extra alts :
  AltIn b rem1 (map (fun a : list bindings * list (nat * json) => (fst a, (snd a ++ extra)%list)) alts) <->
  exists rem, AltIn b rem alts /\ rem1 = (rem ++ extra)%list.
Proof.
  unfold AltIn. split.
  - intros [bss [H1 H2]]. apply in_map_iff in H1. destruct H1 as [[bss' rem] [H1 H3]].
    cbn [fst snd] in H1. inversion H1; subst. exists rem. split; eauto.
  - intros [rem [[bss [H1 H2]] ->]]. exists bss. split; auto.
    apply in_map_iff. exists (bss, rem). auto.
Qed.

(** * The matcher body *)

Section Body.
Variable risky : string -> bool.
Variable N : nat.
Variable rec : json -> json -> bindings -> outcome (list bindings).
Hypothesis Hrec : forall p d bs,
  (jsize p < N)%nat -> wfp p = true -> ground d = true -> okb risky bs ->
  LS risky p d -> CV risky (pvars p) bs ->
  exists out, rec p d bs = Ok out /\ forall b, In b out <-> Ext' p d bs b.
Hypothesis Hscal : forall s d bs, is_scalar s = true -> nonvar s = true ->
  rec s d bs = Ok (if json_eqb s d then [bs] else []).

Lemma wfp_arr pl : wfp (JArr pl) = true ->
  (length (filter isvarj pl) <= 1)%nat /\ forall x, In x pl -> wfp x = true.
Proof.
  cbn [wfp]. intros H. apply andb_true_iff in H. destruct H as [H H3].
  apply andb_true_iff in H. destruct H as [H1 _].
  split; [apply Nat.leb_le; exact H1|]. rewrite forallb_forall in H3. exact H3.
Qed.

Lemma is_var_nonempty s : is_var s = true -> String.eqb s "" = false.
Proof. intros H. destruct s; [discriminate|reflexivity]. Qed.

Lemma match_body_arr pl d bs :
  (jsize (JArr pl) <= N)%nat -> wfp (JArr pl) = true -> ground d = true -> okb risky bs ->
  LS risky (JArr pl) d -> CV risky (pvars (JArr pl)) bs ->
  exists out, match_body rec (JArr pl) d bs = Ok out /\ forall b, In b out <-> Ext' (JArr pl) d bs b.
Proof.
  intros Hsz Hw Hg Hok HLS HCV.
  destruct (wfp_arr pl Hw) as [Hcnt Hwf].
  assert (Hnotarr : forall b, (forall dl, d <> JArr dl) -> ~ Ext' (JArr pl) d bs b).
  { intros b Hd HE. apply ExtG_G in HE. apply Lay_arr in HE. destruct HE as [dl [-> _]].
    eapply Hd; eauto. }
  assert (Hsorted : sorted_keys (map fst bs) = true) by (apply (okb_sorted _ _ Hok)).
  cbn [match_body].
  destruct (get_variable_spec pl [] Hcnt) as [[HF Hgv]|[s [l1 [l2 [Hpl [Hs [HF Hgv]]]]]]].
  - (* no variable *)
    rewrite Hgv. cbn [obind rev app].
    destruct d as [| | | |dl|];
      try (exists []; split; [reflexivity|]; intros bq; split; [intros []|];
           intros HE; exfalso; eapply Hnotarr; [|exact HE]; intros dl; discriminate).
    destruct (split_array_spec dl 0 [] []) as [fxs [fxa [Hsp [HP [Hsc [Hst [Hfxs Hfxa]]]]]]].
    cbn [rev app] in Hsp. rewrite Hsp.
    set (e := match fxa with [] => true | _ :: _ => false end).
    destruct (array_elems_spec risky N rec Hrec dl [] e pl fxs [([bs], fxa)]) as [res [Hres Hspec]].
    + intros x Hx. split; [pose proof (jsize_arr_In _ _ Hx); lia|]. split; auto.
      split; [rewrite Forall_forall in HF; auto|].
      intros y Hy. eapply LS_arr; eauto.
    + intros y Hy. eapply ground_arr_In; eauto.
    + rewrite app_nil_r. split.
      * intros bss rem [Hin|[]]. inversion Hin; subst. discriminate.
      * intros b rem Ha. apply AltIn_cons in Ha. destruct Ha as [[-> [<-|[]]]|Ha]; [|destruct (AltIn_nil _ _ Ha)].
        split; [|split; auto].
        intros j y Hin. apply (Hfxa (j, y) Hin).
    + intros He b rem Ha. apply AltIn_cons in Ha. destruct Ha as [[-> _]|Ha]; [|destruct (AltIn_nil _ _ Ha)].
      subst e. destruct fxa; [reflexivity|discriminate].
    + rewrite Hres. cbn [obind].
      destruct res as [[fxs' alts']|].
      * destruct Hspec as [Hfxs' [HOK' Hspec]]. cbn [String.eqb].
        eexists. split; [reflexivity|]. intros b.
        rewrite combine_In. rewrite <- (arr_novar_pure pl dl fxs fxa bs b HF Hsorted HP Hsc Hst).
        split.
        -- intros [rem1 Ha]. apply AltIn_map_extra in Ha. destruct Ha as [rem [Ha _]].
           apply Hspec in Ha. destruct Ha as [b0 [rem0 [Ha Hsem]]].
           apply AltIn_cons in Ha. destruct Ha as [[-> [<-|[]]]|Ha]; [|destruct (AltIn_nil _ _ Ha)].
           eauto.
        -- intros [rem' Hsem]. eexists. apply AltIn_map_extra. exists rem'. split; [|reflexivity].
           apply Hspec. exists bs, fxa. split; auto. apply AltIn_cons. left. split; auto. left; auto.
      * exists []. split; auto. intros b. split; [intros []|]. intros HE.
        apply (arr_novar_pure pl dl fxs fxa bs b HF Hsorted HP Hsc Hst) in HE.
        destruct HE as [rem' Hsem]. exfalso. eapply (Hspec bs fxa b rem'); eauto.
        apply AltIn_cons. left. split; auto. left; auto.
  - (* one variable *)
    rewrite Hgv. cbn [obind rev app].
    destruct d as [| | | |dl|];
      try (exists []; split; [reflexivity|]; intros bq; split; [intros []|];
           intros HE; exfalso; eapply Hnotarr; [|exact HE]; intros dl; discriminate).
    destruct (split_array_spec dl 0 [] []) as [fxs [fxa [Hsp [HP [Hsc [Hst [Hfxs Hfxa]]]]]]].
    cbn [rev app] in Hsp. rewrite Hsp.
    set (e := match fxa with [] => true | _ :: _ => false end).
    assert (Hsin : In (JStr s) pl) by (rewrite Hpl; apply in_or_app; right; left; auto).
    assert (Hxsin : forall x, In x (l1 ++ l2)%list -> In x pl).
    { intros x Hx. rewrite Hpl. apply in_app_or in Hx. apply in_or_app.
      destruct Hx; [left|right; right]; auto. }
    assert (HCV' : CV risky (flat_map pvars (l1 ++ l2)%list ++ pvars (JStr s))%list bs).
    { eapply CV_perm; [|exact HCV]. rewrite Hpl. apply pvars_arr_perm. }
    assert (Hws : wfp (JStr s) = true) by auto.
    assert (HszS : (jsize (JStr s) < N)%nat) by (pose proof (jsize_arr_In _ _ Hsin); lia).
    destruct (array_elems_spec risky N rec Hrec dl (pvars (JStr s)) e (l1 ++ l2)%list fxs [([bs], fxa)])
      as [res [Hres Hspec]].
    + intros x Hx. pose proof (Hxsin x Hx) as Hx'.
      split; [pose proof (jsize_arr_In _ _ Hx'); lia|]. split; auto.
      split; [rewrite Forall_forall in HF; auto|].
      intros y Hy. eapply LS_arr; eauto.
    + intros y Hy. eapply ground_arr_In; eauto.
    + split.
      * intros bss rem [Hin|[]]. inversion Hin; subst. discriminate.
      * intros b rem Ha. apply AltIn_cons in Ha. destruct Ha as [[-> [<-|[]]]|Ha]; [|destruct (AltIn_nil _ _ Ha)].
        split; [|split; auto].
        intros j y Hin. apply (Hfxa (j, y) Hin).
    + intros He b rem Ha. apply AltIn_cons in Ha. destruct Ha as [[-> _]|Ha]; [|destruct (AltIn_nil _ _ Ha)].
      subst e. destruct fxa; [reflexivity|discriminate].
    + rewrite Hres. cbn [obind].
      destruct res as [[fxs' alts']|].
      * destruct Hspec as [Hfxs' [HOK' Hspec]].
        rewrite (is_var_nonempty s Hs).
        set (extra := combine_extra (length dl) fxs').
        set (alts1 := map (fun a : list bindings * list (nat * json) => (fst a, (snd a ++ extra)%list)) alts').
        assert (Hextra : map snd extra = left_scalars (l1 ++ l2)%list fxs).
        { subst extra. rewrite map_snd_combine_extra. exact Hfxs'. }
        assert (HextraU : forall j y, In (j, y) extra -> In y dl).
        { intros j y Hin. apply (in_map snd) in Hin. cbn [snd] in Hin. rewrite Hextra in Hin.
          apply left_scalars_incl in Hin. auto. }
        destruct (arraycat_spec risky N rec Hrec (JStr s) HszS Hws alts1) as [alts2 [Halts2 [Hne2 Hspec2]]].
        { intros bss rem1 Hin. subst alts1. apply in_map_iff in Hin.
          destruct Hin as [[bss' rem] [Heq Hin]]. cbn [fst snd] in Heq. inversion Heq; subst.
          destruct (AltsOK_AltIn risky _ _ _ _ _ HOK' Hin) as [H1 H2]. split; auto.
          intros j y Hy.
          assert (HyU : In y dl).
          { apply in_app_or in Hy. destruct Hy as [Hy|Hy]; eauto. }
          split; [eapply ground_arr_In; eauto|eapply LS_arr; eauto]. }
        rewrite Halts2. cbn [obind].
        assert (Hout : exists out, (match alts2 with
                        | [] => if is_optvar s then Ok (combine alts1) else Ok []
                        | _ :: _ => Ok (combine alts2)
                        end) = Ok out /\ forall b, In b out <-> exists rem2, AltIn b rem2 alts2).
        { destruct alts2 as [|a2 alts2'].
          - cbn [wfp] in Hws. apply andb_true_iff in Hws. destruct Hws as [Hws _].
            destruct (is_optvar s); [discriminate|].
            exists []. split; auto. intros b. split; [intros []|intros [rem2 Ha]; destruct (AltIn_nil _ _ Ha)].
          - eexists. split; [reflexivity|]. intros b. apply combine_In. }
        destruct Hout as [out [Hout Hspec3]]. exists out. split; auto.
        intros b. rewrite Hspec3. rewrite Hpl.
        rewrite <- (arr_var_pure l1 s l2 dl fxs fxa extra bs b HF Hsorted HP Hsc Hst Hextra).
        split.
        -- intros [rem2 Ha]. apply Hspec2 in Ha.
           destruct Ha as [b' [rem1 [pos [j [y [Ha [Hn [_ HE]]]]]]]].
           apply AltIn_map_extra in Ha. destruct Ha as [rem' [Ha ->]].
           apply Hspec in Ha. destruct Ha as [b0 [rem0 [Ha Hsem]]].
           apply AltIn_cons in Ha. destruct Ha as [[-> [<-|[]]]|Ha]; [|destruct (AltIn_nil _ _ Ha)].
           exists b', rem', pos, j, y. auto.
        -- intros [b' [rem' [pos [j [y [Hsem [Hn HE]]]]]]].
           eexists. apply Hspec2. exists b', (rem' ++ extra)%list, pos, j, y.
           split; [|split; [exact Hn|split; [reflexivity|exact HE]]].
           apply AltIn_map_extra. exists rem'. split; auto.
           apply Hspec. exists bs, fxa. split; auto. apply AltIn_cons. left. split; auto. left; auto.
      * exists []. split; auto. intros b. split; [intros []|]. intros HE.
        rewrite Hpl in HE.
        apply (arr_var_pure l1 s l2 dl fxs fxa
                 (combine_extra 0 (left_scalars (l1 ++ l2)%list fxs)) bs b HF Hsorted HP Hsc Hst) in HE.
        -- destruct HE as [b' [rem' [pos [j [y [Hsem _]]]]]]. exfalso.
           eapply (Hspec bs fxa b' rem'); eauto.
           apply AltIn_cons. left. split; auto. left; auto.
        -- apply map_snd_combine_extra.
Qed.


Lemma wfp_obj pk : wfp (JObj pk) = true ->
  (any_var_key pk = false \/ length pk = 1%nat) /\
  forall kv, In kv pk -> wfp (JStr (fst kv)) = true /\ wfp (snd kv) = true.
Proof.
  cbn [wfp]. intros H. apply andb_true_iff in H. destruct H as [H1 H2].
  split.
  - apply orb_true_iff in H1. destruct H1 as [H1|H1].
    + left. destruct (any_var_key pk); [discriminate|reflexivity].
    + right. apply Nat.eqb_eq. exact H1.
  - rewrite forallb_forall in H2. intros kv Hin. specialize (H2 kv Hin).
    apply andb_true_iff in H2. destruct H2 as [H2 H3].
    split; auto.
Qed.

Lemma match_body_spec p d bs :
  (jsize p <= N)%nat -> wfp p = true -> ground d = true -> okb risky bs ->
  LS risky p d -> CV risky (pvars p) bs ->
  exists out, match_body rec p d bs = Ok out /\ forall b, In b out <-> Ext' p d bs b.
Proof.
  intros Hsz Hw Hg Hok HLS HCV.
  assert (Hsorted : sorted_keys (map fst bs) = true) by (apply (okb_sorted _ _ Hok)).
  assert (Hscalar : is_scalar p = true -> nonvar p = true ->
            exists out, match_body rec p d bs = Ok out /\ forall b, In b out <-> Ext' p d bs b).
  { intros Hs Hn. rewrite match_body_scalar by auto.
    eexists. split; [reflexivity|]. intros b. rewrite Ext_scalar by auto.
    destruct (json_eqb p d) eqn:E.
    - apply json_eqb_eq in E. subst d. split; [intros [<-|[]]; auto|intros [-> _]; left; auto].
    - apply json_eqb_false in E. split; [intros []|intros [_ ->]; congruence]. }
  destruct p as [|x|x|s|pl|pk]; try (apply Hscalar; reflexivity).
  - (* strings *)
    destruct (is_var s) eqn:Ev; [|apply Hscalar; [reflexivity|cbn [nonvar]; rewrite Ev; reflexivity]].
    cbn [match_body]. rewrite Ev. cbn [negb].
    destruct (is_anon s) eqn:Ea.
    + exists [bs]. split; auto. intros b. rewrite Ext_anon by auto.
      split; [intros [<-|[]]; auto|intros ->; left; auto].
    + rewrite inequal_None by auto.
      destruct (alookup s bs) as [v|] eqn:El.
      * assert (Hr : risky s = true).
        { apply HCV; [apply pvars_str_in; auto|]. right. congruence. }
        destruct Hok as [_ [Hgr Hsc]].
        assert (Hv1 : is_scalar v = true) by (eapply Hsc; eauto).
        assert (Hv2 : nonvar v = true) by (apply ground_scalar_nonvar; eauto).
        rewrite Hscal by auto. eexists. split; [reflexivity|]. intros b.
        rewrite (Ext_var_bound s d bs b v) by auto.
        destruct (json_eqb v d) eqn:E.
        -- apply json_eqb_eq in E. subst d. split; [intros [<-|[]]; auto|intros [-> _]; left; auto].
        -- apply json_eqb_false in E. split; [intros []|intros [_ ->]; congruence].
      * exists [bind s d bs]. split; auto. intros b. rewrite Ext_var_unbound by auto.
        split; [intros [<-|[]]; auto|intros ->; left; auto].
  - apply match_body_arr; auto.
  - (* objects *)
    destruct (wfp_obj pk Hw) as [Hshape Hwkv].
    cbn [match_body].
    destruct d as [| | | | |dk];
      try (exists []; split; [reflexivity|]; intros bq; split; [intros []|];
           intros HE; exfalso; apply ExtG_G in HE; apply Lay_obj_data in HE;
           destruct HE as [dk HE]; discriminate).
    destruct pk as [|kv0 pk'] eqn:Epk.
    + exists [bs]. split; auto. intros b. rewrite Ext_obj_nonvar by reflexivity.
      rewrite ExtEntries_nil by auto. split; [intros [<-|[]]; auto|intros ->; left; auto].
    + assert (Hne : pk <> []) by (rewrite Epk; discriminate).
      rewrite <- Epk in *. clear Epk.
      destruct (any_var_key pk) eqn:Ea.
      * (* property variable *)
        destruct Hshape as [Hshape|Hshape]; [discriminate|].
        destruct pk as [|[k pv] [|kv2 r]]; try discriminate.
        assert (Hk : is_var k = true).
        { unfold any_var_key in Ea. cbn [existsb fst] in Ea. rewrite orb_false_r in Ea. exact Ea. }
        cbn [length Nat.ltb Nat.leb Nat.eqb andb mapcat]. rewrite Hk.
        destruct (Hwkv (k, pv) (or_introl eq_refl)) as [Hwk Hwpv]. cbn [fst snd] in Hwk, Hwpv.
        pose proof (jsize_obj_In (k, pv) [(k, pv)] (or_introl eq_refl)) as Hszpv. cbn [snd] in Hszpv.
        destruct (propvar_spec risky N rec Hrec k pv Hk Hwk ltac:(lia) ltac:(lia) Hwpv dk [bs])
          as [out [Hout Hspec]].
        -- intros e He. destruct (ground_obj_In _ _ Hg He) as [H1 H2]. split; auto. split; auto.
           apply (LS_obj_var risky [(k, pv)] dk (k, pv) e); cbn; auto.
        -- intros bs' [<-|[]]. split; auto.
           rewrite pvars_obj_cons in HCV. cbn [pvars flat_map] in HCV. rewrite app_nil_r in HCV.
           exact HCV.
        -- exists out. split; auto. intros b. rewrite Hspec. rewrite Ext_obj_var by auto.
           split.
           ++ intros [bs' [[<-|[]] H]]. exact H.
           ++ intros H. exists bs. split; [left; auto|exact H].
      * (* constant keys *)
        rewrite andb_false_r.
        destruct (mapcat_spec risky N rec Hrec dk (length pk =? 1)%nat pk [bs] Ea) as [out [Hout Hspec]].
        -- intros kv Hin. destruct (Hwkv kv Hin) as [_ H2]. split; auto.
           pose proof (jsize_obj_In _ _ Hin). lia.
        -- exact Hg.
        -- intros kv dv Hin Hl. eapply LS_obj_nonvar; eauto. eapply any_var_key_false; eauto.
        -- intros bs' [<-|[]]. split; auto.
        -- destruct pk as [|kv1 pk1]; [congruence|].
           exists out. split; auto. intros b. rewrite Hspec. rewrite Ext_obj_nonvar by auto.
           split.
           ++ intros [bs' [[<-|[]] H]]. exact H.
           ++ intros H. exists bs. split; [left; auto|exact H].
Qed.

End Body.

(** * The matcher with fuel *)

Theorem jmatch_spec risky : forall f p d bs,
  (jsize p < f)%nat -> wfp p = true -> ground d = true -> okb risky bs ->
  LS risky p d -> CV risky (pvars p) bs ->
  exists out, jmatch f p d bs = Ok out /\ forall b, In b out <-> Ext' p d bs b.
Proof.
  induction f as [|f IH]; intros p d bs Hsz; [lia|].
  cbn [jmatch]. apply (match_body_spec risky f (jmatch f)); auto; [|lia].
  intros s d' bs' Hs Hn. destruct f as [|f']; [pose proof (jsize_pos p); lia|].
  cbn [jmatch]. apply match_body_scalar; auto.
Qed.

(** * The main theorem *)

Theorem match_exact : match_exact_statement.
Proof.
  intros p d b0 Hfrag. unfold fragment in Hfrag.
  repeat (apply andb_true_iff in Hfrag; destruct Hfrag as [Hfrag ?]).
  rename H into Hrisk, H0 into Hgb, H1 into Hgd, H2 into Hwfp, H3 into Hwfb, H4 into Hsort.
  set (risky := fun s => ((2 <=? count_str s (pvars p))%nat ||
                          match alookup s b0 with Some _ => mem_str s (pvars p) | None => false end)).
  assert (Hrin : forall s, risky s = true -> In s (pvars p)).
  { intros s Hs. unfold risky in Hs. apply orb_true_iff in Hs. destruct Hs as [Hs|Hs].
    - apply Nat.leb_le in Hs. apply count_str_In. lia.
    - destruct (alookup s b0); [|discriminate]. apply mem_str_In. exact Hs. }
  apply negb_true_iff in Hrisk. unfold struct_risk in Hrisk.
  apply orb_false_iff in Hrisk. destruct Hrisk as [Hlands Hbs].
  assert (Hok : okb risky b0).
  { split; auto. split.
    - intros x v Hx. apply alookup_In in Hx. unfold ground_bs in Hgb.
      rewrite forallb_forall in Hgb. apply (Hgb (x, v) Hx).
    - intros x v Hr Hx. apply Hrin in Hr. apply alookup_In in Hx.
      pose proof (existsb_false _ _ _ Hbs Hx) as H. cbn [fst snd] in H.
      apply mem_str_In in Hr. rewrite Hr in H. cbn [andb] in H.
      destruct (is_scalar v); auto. }
  assert (HLS : LS risky p d).
  { eapply LS_mono_risky; [|exists (jsize p + 1)%nat; exact Hlands].
    intros s Hs. cbn beta. unfold risky in Hs. apply orb_true_iff in Hs. apply orb_true_iff.
    destruct Hs as [Hs|Hs]; auto. right. destruct (alookup s b0); auto. }
  assert (HCV : CV risky (pvars p) b0).
  { intros x Hin Hc. unfold risky. apply orb_true_iff. destruct Hc as [Hc|Hc].
    - left. apply Nat.leb_le. exact Hc.
    - right. destruct (alookup x b0); [|congruence]. apply mem_str_In. exact Hin. }
  destruct (jmatch_spec risky (match_fuel p d b0) p d b0) as [out [Hout Hspec]]; auto.
  { unfold match_fuel. lia. }
  exists out. split; auto. intros b. rewrite Hspec. symmetry. apply Ext_Ext'.
Qed.

Print Assumptions match_exact.
