(** Specification of the pattern index (core/patternindex.go, model
    theories/PatIndex.v): the path a pattern follows in the trie, trie
    membership, and the statements of the [pmod] lemmas and of search
    completeness.  Definitions and statements only; proofs are in
    PatIndexProofs.v. *)
From Coq Require Import Lia.
From Verif Require Import Json Outcome Match PatIndex.

(** * Paths *)

Inductive step := StTok (k tok : string) | StVar (k : string) | StMap (k : string).

Definition step_key (s : step) : string :=
  match s with StTok k _ => k | StVar k => k | StMap k => k end.

(** The key under which a pattern key is stored: property variables go under "?". *)
Definition pkey (k : string) : string := if is_var k then "?" else k.

(** [ppath]: the path [pmod] follows for a pair list; [None] when [pmod]
    reports an error (unsortable constants, out of fuel).  Fuelled like [pmod]. *)
Fixpoint ppath (fuel : nat) (pairs : list (string * json)) : option (list step) :=
  match fuel with
  | O => None
  | S f =>
      match pairs with
      | [] => Some []
      | (k, v) :: rest =>
          let k' := pkey k in
          match picast v with
          | JStr vv =>
              if is_var vv then option_map (cons (StVar k')) (ppath f rest)
              else option_map (cons (StTok k' vv)) (ppath f rest)
          | JObj mp => option_map (cons (StMap k')) (ppath f (mp ++ rest)%list)
          | JArr vv =>
              match sort_values (filter (fun x => negb (is_var_json x)) vv) with
              | None => None
              | Some sorted =>
                  ppath f (map (fun x => (k, x)) (filter is_var_json vv)
                           ++ map (fun x => (k, x)) sorted ++ rest)%list
              end
          | _ => None
          end
      end
  end.

Definition pattern_path (p : json) : option (list step) := ppath (pi_fuel p) (jO p).

(** * Trie membership *)

(** Children; a missing child is the empty node (which holds no id and has no
    children), so that [tr_has] is [False] along a path that leaves the trie. *)
Definition pn_child (n : pnode) (k : string) : pnode := get_or_empty (alookup k (pn_strs n)).

Definition tchild (n : pnode) (s : step) : pnode :=
  match s with
  | StTok k t => pn_child (pn_child n k) t
  | StVar k => get_or_empty (pn_var (pn_child n k))
  | StMap k => get_or_empty (pn_map (pn_child n k))
  end.

(** [tr_has n π id]: following π from node [n] reaches a node whose id set contains [id]. *)
Fixpoint tr_has (n : pnode) (π : list step) (id : string) : Prop :=
  match π with
  | [] => In id (pn_ids n)
  | s :: π' => tr_has (tchild n s) π' id
  end.

(** * Hypotheses of the completeness theorem (all boolean) *)

(** No key of the pattern (at any depth) is a variable: property variables are
    a known gap of the index (see [propvar_shadow_refuted]). *)
Fixpoint no_propvar_keys (p : json) : bool :=
  match p with
  | JArr l => forallb no_propvar_keys l
  | JObj kvs => forallb (fun kv => negb (is_var (fst kv)) && no_propvar_keys (snd kv)) kvs
  | _ => true
  end.

(** Every array of the pattern (at any depth) has at most one variable
    element.  The restriction is necessary: see [two_array_vars_counterexample].
    Elements may otherwise be arbitrary (scalars, maps, arrays). *)
Fixpoint arrays_ok (p : json) : bool :=
  match p with
  | JArr l => (length (filter is_var_json l) <=? 1)%nat && forallb arrays_ok l
  | JObj kvs => forallb (fun kv => arrays_ok (snd kv)) kvs
  | _ => true
  end.

(** * Statements *)

Definition pi_add_has_statement : Prop :=
  forall n p id n', pi_add n p id = (n', None) ->
    exists π, pattern_path p = Some π /\ tr_has n' π id.

Definition pi_add_none_iff_path_statement : Prop :=
  forall n p id, snd (pi_add n p id) = None <-> pattern_path p <> None.

Definition pi_add_preserves_statement : Prop :=
  forall n p id n' e π j, pi_add n p id = (n', e) -> tr_has n π j -> tr_has n' π j.

Definition pi_add_only_statement : Prop :=
  forall n p id n' e π j, pi_add n p id = (n', e) -> tr_has n' π j ->
    tr_has n π j \/ (j = id /\ e = None /\ pattern_path p = Some π).

Definition pi_rem_spec_statement : Prop :=
  forall n p id n' e π j, pi_rem n p id = (n', e) ->
    (tr_has n' π j <-> tr_has n π j /\ ~ (j = id /\ e = None /\ pattern_path p = Some π)).

Definition pindex_complete_statement : Prop :=
  forall n p ev b π id ids,
    wf_json p = true -> wf_json ev = true ->
    no_propvar_keys p = true ->
    arrays_ok p = true ->
    pattern_path p = Some π -> tr_has n π id ->
    lay (lay_fuel p) b p ev = true ->
    pi_search n ev = Ok ids -> In id ids.

Definition pi_search_fuel_ok_statement : Prop :=
  forall n ev, pi_search n ev <> OutOfFuel.

Definition pi_mod_fuel_ok_statement : Prop :=
  forall n p id, snd (pi_add n p id) <> Some "fuel" /\ snd (pi_rem n p id) <> Some "fuel".

Definition psearch_only_stored_statement : Prop :=
  forall n ev ids id, pi_search n ev = Ok ids -> In id ids -> exists π, tr_has n π id.
