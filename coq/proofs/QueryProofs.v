(** C03 — proofs relating the loop-by-loop evaluator [Query.exec] to the
    denotational specification [QuerySpec.den], plus the clause-by-clause
    corollaries of the property text. *)
From Coq Require Import Lia Permutation.
From Verif Require Import Json Outcome Match Query QuerySpec AssocLemmas.

(** * Nested induction principle for queries *)

Section QueryInd.
  Variable P : query -> Prop.
  Hypothesis Hempty : P QEmpty.
  Hypothesis Hcode : forall js, P (QCode js).
  Hypothesis Hpat : forall p locs, P (QPattern p locs).
  Hypothesis Hand : forall qs, Forall P qs -> P (QAnd qs).
  Hypothesis Hor : forall qs sc, Forall P qs -> P (QOr qs sc).
  Hypothesis Hnot : forall q, P q -> P (QNot q).

  Fixpoint query_ind' (q : query) : P q :=
    match q with
    | QEmpty => Hempty
    | QCode js => Hcode js
    | QPattern p locs => Hpat p locs
    | QAnd qs =>
        Hand qs ((fix go (l : list query) : Forall P l :=
                    match l with
                    | [] => Forall_nil _
                    | x :: xs => Forall_cons _ (query_ind' x) (go xs)
                    end) qs)
    | QOr qs sc =>
        Hor qs sc ((fix go (l : list query) : Forall P l :=
                      match l with
                      | [] => Forall_nil _
                      | x :: xs => Forall_cons _ (query_ind' x) (go xs)
                      end) qs)
    | QNot q1 => Hnot q1 (query_ind' q1)
    end.
End QueryInd.

(** * Every script of the query is known to [sem]

    [parse_query] only produces such queries (it fails with "unknown script"
    otherwise, see [parse_query_scripts_known]); the Go code compiles the
    script at parse time.  The hypothesis is needed: see
    [exec_correct_unknown_script_counterexample]. *)
Fixpoint scripts_known (sem : string -> option code) (q : query) : bool :=
  match q with
  | QEmpty => true
  | QCode js => match sem js with Some _ => true | None => false end
  | QPattern _ _ => true
  | QAnd qs => forallb (scripts_known sem) qs
  | QOr qs _ => forallb (scripts_known sem) qs
  | QNot q1 => scripts_known sem q1
  end.

(** * Outcomes up to the reported failure *)

Definition is_ok {A} (o : outcome A) : Prop :=
  match o with Ok _ => True | _ => False end.

(** Same value, or both failures (which failure is reported may differ). *)
Definition sim {A} (a b : outcome A) : Prop :=
  match a, b with
  | Ok x, Ok y => x = y
  | Ok _, _ => False
  | _, Ok _ => False
  | _, _ => True
  end.

Lemma sim_refl {A} (a : outcome A) : sim a a.
Proof. destruct a; cbn; auto. Qed.

Lemma sim_sym {A} (a b : outcome A) : sim a b -> sim b a.
Proof. destruct a, b; cbn; auto. Qed.

Lemma sim_trans {A} (a b c : outcome A) : sim a b -> sim b c -> sim a c.
Proof. destruct a, b, c; cbn; try tauto; congruence. Qed.

Lemma sim_eq {A} (a b : outcome A) : a = b -> sim a b.
Proof. intros ->. apply sim_refl. Qed.

Lemma sim_ok_l {A} (x : A) b : sim (Ok x) b -> b = Ok x.
Proof. destruct b; cbn; try tauto. intros ->. reflexivity. Qed.

Lemma sim_ok_r {A} a (x : A) : sim a (Ok x) -> a = Ok x.
Proof. destruct a; cbn; try tauto. intros ->. reflexivity. Qed.

Lemma sim_not_ok_l {A} (a b : outcome A) : sim a b -> ~ is_ok a -> ~ is_ok b.
Proof. destruct a, b; cbn; tauto. Qed.

Lemma sim_not_ok_r {A} (a b : outcome A) : sim a b -> ~ is_ok b -> ~ is_ok a.
Proof. destruct a, b; cbn; tauto. Qed.

Lemma sim_fail {A} (a b : outcome A) : ~ is_ok a -> ~ is_ok b -> sim a b.
Proof. destruct a, b; cbn; tauto. Qed.

Lemma sim_bind {A B} (a b : outcome A) (f g : A -> outcome B) :
  sim a b -> (forall x, sim (f x) (g x)) -> sim (obind a f) (obind b g).
Proof.
  intros Hab Hfg. destruct a as [x| | |], b as [y| | |]; cbn in *; try tauto.
  subst y. apply Hfg.
Qed.

Lemma is_ok_ex {A} (o : outcome A) : is_ok o <-> exists x, o = Ok x.
Proof.
  destruct o as [x| | |]; cbn; split; try tauto.
  - intros _. exists x. reflexivity.
  - intros [x H]. discriminate.
  - intros [x H]. discriminate.
  - intros [x H]. discriminate.
Qed.

Lemma not_ok_bind {A B} (a : outcome A) (f : A -> outcome B) :
  ~ is_ok a -> ~ is_ok (obind a f).
Proof. destruct a; cbn; tauto. Qed.

(** * [ocat] *)

Lemma ocat_app {A} (l1 l2 : list (outcome (list A))) :
  ocat (l1 ++ l2) = do x <- ocat l1; do y <- ocat l2; Ok (x ++ y)%list.
Proof.
  induction l1 as [|o r IH]; cbn [ocat app obind].
  - destruct (ocat l2); reflexivity.
  - rewrite IH. destruct o as [xs| | |]; cbn [obind]; try reflexivity.
    destruct (ocat r) as [ys| | |]; cbn [obind]; try reflexivity.
    destruct (ocat l2) as [zs| | |]; cbn [obind]; try reflexivity.
    rewrite app_assoc. reflexivity.
Qed.

Lemma ocat_singletons {A} (l : list A) : ocat (map (fun b => Ok [b]) l) = Ok l.
Proof.
  induction l as [|b r IH]; cbn [map ocat obind].
  - reflexivity.
  - rewrite IH. reflexivity.
Qed.

(** The list monad law behind the breadth-first / depth-first exchange. *)
Lemma ocat_bind_sim {A B C} (f : A -> outcome (list B)) (g : B -> outcome (list C)) (l : list A) :
  sim (ocat (map (fun b => do xs <- f b; ocat (map g xs)) l))
      (do out <- ocat (map f l); ocat (map g out)).
Proof.
  induction l as [|b r IH]; cbn [map ocat obind].
  - apply sim_refl.
  - destruct (f b) as [xs| | |]; cbn [obind]; try exact I.
    destruct (ocat (map f r)) as [ys| | |]; cbn [obind] in *.
    + rewrite map_app, ocat_app.
      apply sim_bind; [apply sim_refl|]. intros X.
      apply sim_bind; [exact IH|]. intros Y. apply sim_refl.
    + apply sim_fail; [|cbn; tauto].
      intros H. destruct (ocat (map g xs)); cbn in H; try tauto.
      destruct (ocat (map (fun b0 => do xs0 <- f b0; ocat (map g xs0)) r)); cbn in *; tauto.
    + apply sim_fail; [|cbn; tauto].
      intros H. destruct (ocat (map g xs)); cbn in H; try tauto.
      destruct (ocat (map (fun b0 => do xs0 <- f b0; ocat (map g xs0)) r)); cbn in *; tauto.
    + apply sim_fail; [|cbn; tauto].
      intros H. destruct (ocat (map g xs)); cbn in H; try tauto.
      destruct (ocat (map (fun b0 => do xs0 <- f b0; ocat (map g xs0)) r)); cbn in *; tauto.
Qed.

(** * The local loops of [exec] as standalone functions

    [exec] is a nested fixpoint; the loops are restated here over an arbitrary
    evaluator [ex] for the sub-queries so that they can be reasoned about by
    induction.  The [*_unfold] lemmas hold by computation. *)
Section Loops.
  Variable S : Type.
  Variable ex : query -> S -> list bindings -> S * outcome (list bindings).

  Fixpoint conj_loop (qs : list query) (s : S) (bss : list bindings) : S * outcome (list bindings) :=
    match qs with
    | [] => (s, Ok bss)
    | q1 :: r =>
        match ex q1 s bss with
        | (s', Ok out) => conj_loop r s' out
        | other => other
        end
    end.

  Section Disj.
  Variable sc : bool.
  Variable bs : bindings.
  Fixpoint disj_loop (qs : list query) (s : S) (acc : list bindings)
    : S * outcome (list bindings) :=
    match qs with
    | [] => (s, Ok acc)
    | q1 :: qr =>
        match ex q1 s [bs] with
        | (s', Ok more) =>
            if sc && negb (match more with [] => true | _ => false end)
            then (s', Ok (acc ++ more)%list)
            else disj_loop qr s' (acc ++ more)%list
        | other => other
        end
    end.
  End Disj.

  Section Or.
  Variable qs : list query.
  Variable sc : bool.
  Fixpoint or_loop (bss : list bindings) (s : S) (acc : list bindings)
    : S * outcome (list bindings) :=
    match bss with
    | [] => (s, Ok acc)
    | bs :: r =>
        let '(s', res) := disj_loop sc bs qs s acc in
        match res with
        | Ok acc' => or_loop r s' acc'
        | _ => (s', res)
        end
    end.
  End Or.

  Section Not.
  Variable q1 : query.
  Fixpoint not_loop (bss : list bindings) (s : S) (acc : list bindings)
    : S * outcome (list bindings) :=
    match bss with
    | [] => (s, Ok acc)
    | bs :: r =>
        match ex q1 s [bs] with
        | (s', Ok []) => not_loop r s' (acc ++ [bs])%list
        | (s', Ok _) => not_loop r s' acc
        | other => other
        end
    end.
  End Not.
End Loops.

Section DenLoops.
  Variable dn : query -> bindings -> outcome (list bindings).

  Fixpoint den_conj (qs : list query) (b : bindings) : outcome (list bindings) :=
    match qs with
    | [] => Ok [b]
    | q1 :: r => do xs <- dn q1 b; ocat (map (den_conj r) xs)
    end.

  Section DDisj.
  Variable sc : bool.
  Variable b : bindings.
  Fixpoint den_disj (qs : list query) : outcome (list bindings) :=
    match qs with
    | [] => Ok []
    | q1 :: r =>
        do xs <- dn q1 b;
        if sc && negb (match xs with [] => true | _ => false end) then Ok xs
        else do ys <- den_disj r; Ok (xs ++ ys)%list
    end.
  End DDisj.
End DenLoops.

Section Unfold.
  Variable S : Type.
  Variable search : S -> list string -> json -> S * outcome (list bindings).
  Variable sem : string -> option code.

  Lemma exec_and_unfold qs s bss :
    exec S search sem (QAnd qs) s bss = conj_loop S (exec S search sem) qs s bss.
  Proof. reflexivity. Qed.

  Lemma exec_or_unfold qs sc s bss :
    exec S search sem (QOr qs sc) s bss = or_loop S (exec S search sem) qs sc bss s [].
  Proof. reflexivity. Qed.

  Lemma exec_not_unfold q1 s bss :
    exec S search sem (QNot q1) s bss = not_loop S (exec S search sem) q1 bss s [].
  Proof. reflexivity. Qed.
End Unfold.

Section DenUnfold.
  Variable search : list string -> json -> outcome (list bindings).
  Variable sem : string -> option code.

  Lemma den_and_unfold qs b : den search sem (QAnd qs) b = den_conj (den search sem) qs b.
  Proof. reflexivity. Qed.

  Lemma den_or_unfold qs sc b : den search sem (QOr qs sc) b = den_disj (den search sem) sc b qs.
  Proof. reflexivity. Qed.

  Lemma den_all_single q b : den_all search sem q [b] = den search sem q b.
  Proof.
    unfold den_all. cbn [map ocat obind].
    destruct (den search sem q b) as [xs| | |]; cbn [obind]; try reflexivity.
    rewrite app_nil_r. reflexivity.
  Qed.

  Lemma den_all_cons q b r :
    den_all search sem q (b :: r) =
    do xs <- den search sem q b; do ys <- den_all search sem q r; Ok (xs ++ ys)%list.
  Proof. reflexivity. Qed.

  Lemma den_all_app q l1 l2 :
    den_all search sem q (l1 ++ l2) =
    do x <- den_all search sem q l1; do y <- den_all search sem q l2; Ok (x ++ y)%list.
  Proof. unfold den_all. rewrite map_app. apply ocat_app. Qed.
End DenUnfold.

(** * The refinement theorem over a pure search *)

Section Pure.
  Variable S : Type.
  Variable search : S -> list string -> json -> S * outcome (list bindings).
  Variable sem : string -> option code.
  Variable s0 : S.
  (** Searching does not change the state (nothing stored has expired). *)
  Hypothesis Hpure : forall locs p, fst (search s0 locs p) = s0.

  Definition psearch (locs : list string) (p : json) : outcome (list bindings) :=
    snd (search s0 locs p).

  Let ex := exec S search sem.
  Let dn := den psearch sem.
  Let dna := den_all psearch sem.

  Lemma search_pure locs p : search s0 locs p = (s0, psearch locs p).
  Proof.
    unfold psearch. rewrite <- (Hpure locs p) at 2. apply surjective_pairing.
  Qed.

  (** [exec] on [q] from [s0]: the state is unchanged, and the outcome is the
      specification's up to which failure is reported. *)
  Definition good (q : query) : Prop :=
    forall bss, fst (ex q s0 bss) = s0 /\ sim (dna q bss) (snd (ex q s0 bss)).

  Lemma good_single q b : good q -> fst (ex q s0 [b]) = s0 /\ sim (dn q b) (snd (ex q s0 [b])).
  Proof.
    intros Hg. destruct (Hg [b]) as [H1 H2]. split; [exact H1|].
    unfold dna in H2. rewrite den_all_single in H2. exact H2.
  Qed.

  (** ** pattern *)
  Lemma exec_pattern_pure p locs bss acc :
    exec_pattern S search p locs s0 bss acc =
    (s0, do out <- dna (QPattern p locs) bss; Ok (acc ++ out)%list).
  Proof.
    revert acc. induction bss as [|b r IH]; intros acc.
    - cbn. rewrite app_nil_r. reflexivity.
    - unfold dna. rewrite den_all_cons. cbn [exec_pattern den].
      destruct (bind_pat b p) as [| | | | |m] eqn:Eb; cbn [obind]; try reflexivity.
      rewrite search_pure.
      destruct (psearch locs (JObj m)) as [mores|e|w|] eqn:Es; cbn [obind]; try reflexivity.
      rewrite IH. unfold dna.
      destruct (den_all psearch sem (QPattern p locs) r) as [ys| | |]; cbn [obind]; try reflexivity.
      rewrite app_assoc. reflexivity.
  Qed.

  (** ** code *)
  Lemma exec_code_den js c bss acc :
    sem js = Some c ->
    exec_code c bss acc = do out <- dna (QCode js) bss; Ok (acc ++ out)%list.
  Proof.
    intros Hc. revert acc. induction bss as [|b r IH]; intros acc.
    - cbn. rewrite app_nil_r. reflexivity.
    - unfold dna. rewrite den_all_cons. cbn [exec_code den]. rewrite Hc.
      destruct (run_code c b) as [v|e|w|]; cbn [obind]; try reflexivity.
      rewrite IH. unfold dna.
      destruct (den_all psearch sem (QCode js) r) as [ys| | |]; cbn [obind]; try reflexivity.
      rewrite app_assoc. reflexivity.
  Qed.

  (** ** and *)
  Lemma den_all_and_nil bss : dna (QAnd []) bss = Ok bss.
  Proof. unfold dna, den_all. cbn [den]. apply ocat_singletons. Qed.

  Lemma den_all_and_cons q r bss :
    sim (dna (QAnd (q :: r)) bss) (do out <- dna q bss; dna (QAnd r) out).
  Proof.
    unfold dna, den_all.
    apply (ocat_bind_sim (den psearch sem q) (den psearch sem (QAnd r)) bss).
  Qed.

  Lemma conj_good qs :
    Forall good qs ->
    forall bss, fst (conj_loop S ex qs s0 bss) = s0 /\
                sim (dna (QAnd qs) bss) (snd (conj_loop S ex qs s0 bss)).
  Proof.
    intros HF. induction HF as [|q r Hq Hr IH]; intros bss.
    - cbn [conj_loop fst snd]. split; [reflexivity|]. rewrite den_all_and_nil. apply sim_refl.
    - cbn [conj_loop]. destruct (Hq bss) as [H1 H2].
      destruct (ex q s0 bss) as [s' o] eqn:E. cbn [fst snd] in H1, H2. subst s'.
      eapply (fun X Y => conj X (sim_trans _ _ _ (den_all_and_cons q r bss) Y)).
      + destruct o as [out|e|w|]; [apply IH|reflexivity|reflexivity|reflexivity].
      + destruct o as [out|e|w|].
        * apply sim_ok_r in H2. rewrite H2. cbn [obind]. apply IH.
        * apply sim_fail; [|cbn; tauto]. apply not_ok_bind.
          eapply sim_not_ok_r; [exact H2|cbn; tauto].
        * apply sim_fail; [|cbn; tauto]. apply not_ok_bind.
          eapply sim_not_ok_r; [exact H2|cbn; tauto].
        * apply sim_fail; [|cbn; tauto]. apply not_ok_bind.
          eapply sim_not_ok_r; [exact H2|cbn; tauto].
  Qed.

  (** ** or *)
  Lemma disj_good qs sc bs :
    Forall good qs ->
    forall acc, fst (disj_loop S ex sc bs qs s0 acc) = s0 /\
                sim (do out <- dn (QOr qs sc) bs; Ok (acc ++ out)%list)
                    (snd (disj_loop S ex sc bs qs s0 acc)).
  Proof.
    intros HF. unfold dn. induction HF as [|q r Hq Hr IH]; intros acc.
    - cbn. rewrite app_nil_r. split; reflexivity.
    - rewrite den_or_unfold. cbn [disj_loop den_disj]. rewrite <- den_or_unfold.
      destruct (good_single q bs Hq) as [H1 H2]. fold ex.
      destruct (ex q s0 [bs]) as [s' o] eqn:E. cbn [fst snd] in H1, H2. subst s'.
      destruct o as [more|e|w|].
      + apply sim_ok_r in H2. unfold dn in H2. rewrite H2. cbn [obind].
        destruct (sc && negb (match more with [] => true | _ :: _ => false end)) eqn:Esc.
        * cbn. split; reflexivity.
        * destruct (IH (acc ++ more)%list) as [I1 I2]. split; [exact I1|].
          eapply sim_trans; [|exact I2].
          destruct (den psearch sem (QOr r sc) bs) as [ys| | |]; cbn; try exact I.
          rewrite app_assoc. reflexivity.
      + split; [reflexivity|]. apply sim_fail; [|cbn; tauto].
        apply not_ok_bind, not_ok_bind. eapply sim_not_ok_r; [exact H2|cbn; tauto].
      + split; [reflexivity|]. apply sim_fail; [|cbn; tauto].
        apply not_ok_bind, not_ok_bind. eapply sim_not_ok_r; [exact H2|cbn; tauto].
      + split; [reflexivity|]. apply sim_fail; [|cbn; tauto].
        apply not_ok_bind, not_ok_bind. eapply sim_not_ok_r; [exact H2|cbn; tauto].
  Qed.

  Lemma or_good qs sc :
    Forall good qs ->
    forall bss acc, fst (or_loop S ex qs sc bss s0 acc) = s0 /\
                    sim (do out <- dna (QOr qs sc) bss; Ok (acc ++ out)%list)
                        (snd (or_loop S ex qs sc bss s0 acc)).
  Proof.
    intros HF bss. induction bss as [|bs r IH]; intros acc.
    - cbn. rewrite app_nil_r. split; reflexivity.
    - unfold dna. rewrite den_all_cons. cbn [or_loop].
      destruct (disj_good qs sc bs HF acc) as [H1 H2].
      destruct (disj_loop S ex sc bs qs s0 acc) as [s' res] eqn:E.
      cbn [fst snd] in H1, H2. subst s'. unfold dn in H2.
      destruct res as [acc'|e|w|].
      + destruct (den psearch sem (QOr qs sc) bs) as [xs| | |]; cbn [obind sim] in H2; try tauto.
        subst acc'. cbn [obind]. destruct (IH (acc ++ xs)%list) as [I1 I2]. split; [exact I1|].
        eapply sim_trans; [|exact I2]. unfold dna.
        destruct (den_all psearch sem (QOr qs sc) r) as [ys| | |]; cbn; try exact I.
        rewrite app_assoc. reflexivity.
      + split; [reflexivity|]. apply sim_fail; [|cbn; tauto]. apply not_ok_bind.
        destruct (den psearch sem (QOr qs sc) bs); cbn in *; tauto.
      + split; [reflexivity|]. apply sim_fail; [|cbn; tauto]. apply not_ok_bind.
        destruct (den psearch sem (QOr qs sc) bs); cbn in *; tauto.
      + split; [reflexivity|]. apply sim_fail; [|cbn; tauto]. apply not_ok_bind.
        destruct (den psearch sem (QOr qs sc) bs); cbn in *; tauto.
  Qed.

  (** ** not *)
  Lemma not_good q :
    good q ->
    forall bss acc, fst (not_loop S ex q bss s0 acc) = s0 /\
                    sim (do out <- dna (QNot q) bss; Ok (acc ++ out)%list)
                        (snd (not_loop S ex q bss s0 acc)).
  Proof.
    intros Hq bss. induction bss as [|bs r IH]; intros acc.
    - cbn. rewrite app_nil_r. split; reflexivity.
    - unfold dna. rewrite den_all_cons. cbn [not_loop den].
      destruct (good_single q bs Hq) as [H1 H2]. fold ex.
      destruct (ex q s0 [bs]) as [s' o] eqn:E. cbn [fst snd] in H1, H2. subst s'.
      unfold dn in H2.
      destruct o as [xs|e|w|].
      + apply sim_ok_r in H2. rewrite H2. cbn [obind].
        destruct xs as [|x xs].
        * destruct (IH (acc ++ [bs])%list) as [I1 I2]. split; [exact I1|].
          eapply sim_trans; [|exact I2]. unfold dna.
          destruct (den_all psearch sem (QNot q) r) as [ys| | |]; cbn; try exact I.
          rewrite <- app_assoc. reflexivity.
        * destruct (IH acc) as [I1 I2]. split; [exact I1|].
          eapply sim_trans; [|exact I2]. unfold dna.
          destruct (den_all psearch sem (QNot q) r) as [ys| | |]; cbn; try exact I.
          reflexivity.
      + split; [reflexivity|]. apply sim_fail; [|cbn; tauto].
        apply not_ok_bind, not_ok_bind, not_ok_bind. eapply sim_not_ok_r; [exact H2|cbn; tauto].
      + split; [reflexivity|]. apply sim_fail; [|cbn; tauto].
        apply not_ok_bind, not_ok_bind, not_ok_bind. eapply sim_not_ok_r; [exact H2|cbn; tauto].
      + split; [reflexivity|]. apply sim_fail; [|cbn; tauto].
        apply not_ok_bind, not_ok_bind, not_ok_bind. eapply sim_not_ok_r; [exact H2|cbn; tauto].
  Qed.

  Lemma bind_ok_nil_r {A} (o : outcome (list A)) : (do out <- o; Ok ([] ++ out)%list) = o.
  Proof. destruct o; reflexivity. Qed.

  (** ** all queries *)
  Theorem exec_sim q :
    scripts_known sem q = true -> good q.
  Proof.
    induction q as [|js|p locs|qs IH|qs sc IH|q IH] using query_ind'; intros Hk bss.
    - cbn. split; [reflexivity|]. unfold dna, den_all. cbn [den]. rewrite ocat_singletons. reflexivity.
    - cbn [scripts_known] in Hk. unfold ex. cbn [exec].
      destruct (sem js) as [c|] eqn:Ec; [|discriminate]. cbn [fst snd]. split; [reflexivity|].
      rewrite (exec_code_den js c bss [] Ec). rewrite bind_ok_nil_r. apply sim_refl.
    - unfold ex. cbn [exec]. rewrite exec_pattern_pure. cbn [fst snd]. split; [reflexivity|].
      rewrite bind_ok_nil_r. apply sim_refl.
    - unfold ex. rewrite exec_and_unfold. apply conj_good.
      cbn [scripts_known] in Hk. rewrite forallb_forall in Hk.
      rewrite Forall_forall in IH |- *. intros x Hx. apply IH; [exact Hx|]. apply Hk; exact Hx.
    - unfold ex. rewrite exec_or_unfold.
      assert (HF : Forall good qs).
      { cbn [scripts_known] in Hk. rewrite forallb_forall in Hk.
        rewrite Forall_forall in IH |- *. intros x Hx. apply IH; [exact Hx|]. apply Hk; exact Hx. }
      destruct (or_good qs sc HF bss []) as [H1 H2]. split; [exact H1|].
      rewrite bind_ok_nil_r in H2. exact H2.
    - unfold ex. rewrite exec_not_unfold.
      destruct (not_good q (IH Hk) bss []) as [H1 H2]. split; [exact H1|].
      rewrite bind_ok_nil_r in H2. exact H2.
  Qed.

  (** ** C03 main theorem: [exec] refines [den_all]

      Same list in the same order when the specification yields a result;
      a failure (script error, search error) of the specification aborts
      the whole evaluation.  Which failure is reported may differ, since
      [exec] works breadth-first. *)
  Theorem exec_correct q bss :
    scripts_known sem q = true ->
    (forall out, den_all psearch sem q bss = Ok out ->
                 exec S search sem q s0 bss = (s0, Ok out)) /\
    ((forall out, den_all psearch sem q bss <> Ok out) ->
     exists r, exec S search sem q s0 bss = (s0, r) /\ forall out, r <> Ok out).
  Proof.
    intros Hk. destruct (exec_sim q Hk bss) as [H1 H2]. unfold ex, dna in *.
    destruct (exec S search sem q s0 bss) as [s' r] eqn:E. cbn [fst snd] in H1, H2. subst s'.
    split.
    - intros out Hd. rewrite Hd in H2. apply sim_ok_l in H2. rewrite H2. reflexivity.
    - intros Hn. exists r. split; [reflexivity|]. intros out ->.
      apply sim_ok_r in H2. exact (Hn out H2).
  Qed.

  (** Conversely, whatever [exec] returns successfully is the specified list,
      and the state is never changed. *)
  Theorem exec_correct_conv q bss s out :
    scripts_known sem q = true ->
    exec S search sem q s0 bss = (s, Ok out) ->
    s = s0 /\ den_all psearch sem q bss = Ok out.
  Proof.
    intros Hk E. destruct (exec_sim q Hk bss) as [H1 H2]. unfold ex, dna in *.
    rewrite E in H1, H2. cbn [fst snd] in H1, H2. split; [exact H1|].
    apply sim_ok_r in H2. exact H2.
  Qed.

  Theorem exec_state_pure q bss :
    scripts_known sem q = true -> fst (exec S search sem q s0 bss) = s0.
  Proof. intros Hk. exact (proj1 (exec_sim q Hk bss)). Qed.

  (** The multiset reading of the property (a permutation is implied by equality). *)
  Corollary exec_multiset q bss out :
    scripts_known sem q = true ->
    den_all psearch sem q bss = Ok out ->
    exists out', exec S search sem q s0 bss = (s0, Ok out') /\ Permutation out out'.
  Proof.
    intros Hk Hd. exists out. split; [|apply Permutation_refl].
    apply (proj1 (exec_correct q bss Hk)). exact Hd.
  Qed.

  (** ** Every query is a homomorphism on the incoming bindings *)
  Theorem exec_linear q b1 b2 o1 o2 :
    scripts_known sem q = true ->
    exec S search sem q s0 b1 = (s0, Ok o1) ->
    exec S search sem q s0 b2 = (s0, Ok o2) ->
    exec S search sem q s0 (b1 ++ b2) = (s0, Ok (o1 ++ o2)%list).
  Proof.
    intros Hk E1 E2.
    apply (exec_correct_conv q b1 s0 o1 Hk) in E1. destruct E1 as [_ D1].
    apply (exec_correct_conv q b2 s0 o2 Hk) in E2. destruct E2 as [_ D2].
    apply (proj1 (exec_correct q (b1 ++ b2) Hk)).
    rewrite den_all_app, D1, D2. reflexivity.
  Qed.

  (** ... and conversely a successful run on a concatenation splits. *)
  Theorem exec_linear_split q b1 b2 out :
    scripts_known sem q = true ->
    exec S search sem q s0 (b1 ++ b2) = (s0, Ok out) ->
    exists o1 o2, exec S search sem q s0 b1 = (s0, Ok o1) /\
                  exec S search sem q s0 b2 = (s0, Ok o2) /\ out = (o1 ++ o2)%list.
  Proof.
    intros Hk E.
    apply (exec_correct_conv q (b1 ++ b2) s0 out Hk) in E. destruct E as [_ D].
    rewrite den_all_app in D.
    destruct (den_all psearch sem q b1) as [o1| | |] eqn:D1; cbn [obind] in D; try discriminate.
    destruct (den_all psearch sem q b2) as [o2| | |] eqn:D2; cbn [obind] in D; try discriminate.
    injection D as <-. exists o1, o2.
    split; [apply (proj1 (exec_correct q b1 Hk)); exact D1|].
    split; [apply (proj1 (exec_correct q b2 Hk)); exact D2|reflexivity].
  Qed.
End Pure.

(** ** Why [scripts_known] is assumed, and why failures are compared only as failures *)

(** With a script that [sem] does not know, [exec] fails even on an empty
    list of incoming bindings, whereas [den_all _ []] is [Ok []]: the
    unconditional statement of [exec_correct] is false.  [parse_query] never
    produces such a query ([parse_query_scripts_known]). *)
Lemma exec_correct_unknown_script_counterexample :
  let search := fun (s : unit) (_ : list string) (_ : json) => (s, Ok (@nil bindings)) in
  let sem := fun _ : string => @None code in
  den_all (psearch unit search tt) sem (QCode "f") [] = Ok [] /\
  exec unit search sem (QCode "f") tt [] = (tt, Err "unknown script") /\
  den_all (psearch unit search tt) sem (QAnd [QPattern (JObj []) []; QCode "f"]) [[]] = Ok [] /\
  exec unit search sem (QAnd [QPattern (JObj []) []; QCode "f"]) tt [[]] = (tt, Err "unknown script").
Proof. vm_compute. repeat split; reflexivity. Qed.

(** Breadth-first [exec] and per-binding [den_all] may report different
    failures: here the script of the second incoming binding throws before
    the failing search below the first one is reached. *)
Lemma exec_error_may_differ_example :
  let search := fun (s : unit) (_ : list string) (p : json) =>
                  match p with
                  | JObj [("bad", _)] => (s, Err "boom")
                  | _ => (s, Ok [[("?x", JNum 1)]; [("?x", JNum 2)]])
                  end in
  let sem := fun js : string =>
               if String.eqb js "x1" then Some (CExpr (XSeq "x" (JNum 1))) else Some CThrow in
  let q := QAnd [QPattern (JObj [("a", JStr "?x")]) [];
                 QOr [QCode "x1"; QCode "thr"] true;
                 QPattern (JObj [("bad", JNum 1)]) []] in
  exec unit search sem q tt [[]] = (tt, Err "throw") /\
  den_all (psearch unit search tt) sem q [[]] = Err "boom".
Proof. vm_compute. split; reflexivity. Qed.

(** * Clause-by-clause corollaries *)

Section Clauses.
  Variable S : Type.
  Variable search : S -> list string -> json -> S * outcome (list bindings).
  Variable sem : string -> option code.

  (** ** empty query: the identity (any state, any search) *)
  Theorem empty_identity s bss : exec S search sem QEmpty s bss = (s, Ok bss).
  Proof. reflexivity. Qed.

  (** ** and: sequential composition, left to right (any state, any search) *)
  Theorem and_nil s bss : exec S search sem (QAnd []) s bss = (s, Ok bss).
  Proof. reflexivity. Qed.

  Theorem and_cons q r s bss :
    exec S search sem (QAnd (q :: r)) s bss =
    match exec S search sem q s bss with
    | (s', Ok out) => exec S search sem (QAnd r) s' out
    | other => other
    end.
  Proof. reflexivity. Qed.

  Corollary and_cons_ok q r s bss s' out :
    exec S search sem q s bss = (s', Ok out) ->
    exec S search sem (QAnd (q :: r)) s bss = exec S search sem (QAnd r) s' out.
  Proof. intros E. rewrite and_cons, E. reflexivity. Qed.

  Corollary and_cons_fail q r s bss s' o :
    exec S search sem q s bss = (s', o) -> ~ is_ok o ->
    exec S search sem (QAnd (q :: r)) s bss = (s', o).
  Proof.
    intros E Hn. rewrite and_cons, E. destruct o as [out| | |]; cbn in Hn; [tauto| | |]; reflexivity.
  Qed.
End Clauses.

Section DenClauses.
  Variable search : list string -> json -> outcome (list bindings).
  Variable sem : string -> option code.
  Notation den := (den search sem).

  Theorem den_empty b : den QEmpty b = Ok [b].
  Proof. reflexivity. Qed.

  Theorem den_and_nil b : den (QAnd []) b = Ok [b].
  Proof. reflexivity. Qed.

  (** [and]: each result of the first conjunct is fed to the rest. *)
  Theorem den_and_cons q r b :
    den (QAnd (q :: r)) b = do xs <- den q b; den_all search sem (QAnd r) xs.
  Proof. reflexivity. Qed.

  (** ** or without short-circuit: concatenation of the disjuncts' results *)
  Theorem or_concat qs b :
    den (QOr qs false) b = ocat (map (fun q => den q b) qs).
  Proof.
    rewrite den_or_unfold. induction qs as [|q r IH]; cbn [den_disj map ocat].
    - reflexivity.
    - rewrite IH. reflexivity.
  Qed.

  (** ** or with short-circuit: the first non-empty disjunct *)
  Theorem or_shortcircuit_first_nonempty qs b k qk xs :
    nth_error qs k = Some qk ->
    (forall i qi, (i < k)%nat -> nth_error qs i = Some qi -> den qi b = Ok []) ->
    den qk b = Ok xs -> xs <> [] ->
    den (QOr qs true) b = Ok xs.
  Proof.
    rewrite den_or_unfold. revert k.
    induction qs as [|q r IH]; intros k Hk Hlt Hq Hne.
    - destruct k; discriminate.
    - cbn [den_disj]. destruct k as [|k].
      + cbn in Hk. injection Hk as ->. rewrite Hq. cbn [obind].
        destruct xs as [|x xs']; [contradiction|]. reflexivity.
      + rewrite (Hlt 0%nat q); [|lia|reflexivity]. cbn [obind andb negb].
        rewrite (IH k); [reflexivity|exact Hk| |exact Hq|exact Hne].
        intros i qi Hi Hn. apply (Hlt (Datatypes.S i) qi); [lia|exact Hn].
  Qed.

  (** The same, with the disjuncts before the first non-empty one spelled out. *)
  Corollary or_shortcircuit_split pre qk post b xs :
    Forall (fun q => den q b = Ok []) pre ->
    den qk b = Ok xs -> xs <> [] ->
    den (QOr (pre ++ qk :: post) true) b = Ok xs.
  Proof.
    intros HF Hq Hne.
    apply (or_shortcircuit_first_nonempty _ b (length pre) qk xs).
    - rewrite nth_error_app2; [|lia]. rewrite PeanoNat.Nat.sub_diag. reflexivity.
    - intros i qi Hi Hn. rewrite nth_error_app1 in Hn; [|exact Hi].
      rewrite Forall_forall in HF. apply HF. eapply nth_error_In; exact Hn.
    - exact Hq.
    - exact Hne.
  Qed.

  Theorem or_shortcircuit_all_empty qs sc b :
    Forall (fun q => den q b = Ok []) qs ->
    den (QOr qs sc) b = Ok [].
  Proof.
    rewrite den_or_unfold. intros HF. induction HF as [|q r Hq Hr IH]; cbn [den_disj].
    - reflexivity.
    - rewrite Hq. cbn [obind negb]. rewrite andb_false_r, IH. reflexivity.
  Qed.

  (** A failing disjunct before the first non-empty one aborts. *)
  Theorem or_failure_aborts pre qk post sc b :
    Forall (fun q => den q b = Ok []) pre ->
    ~ is_ok (den qk b) ->
    ~ is_ok (den (QOr (pre ++ qk :: post) sc) b).
  Proof.
    rewrite den_or_unfold. intros HF Hn. induction HF as [|q r Hq Hr IH]; cbn [den_disj app].
    - apply not_ok_bind. exact Hn.
    - rewrite Hq. cbn [obind negb]. rewrite andb_false_r. apply not_ok_bind. exact IH.
  Qed.

  (** ** not: exactly the incoming bindings for which the negated query yields nothing *)
  Theorem not_filter q b :
    (den (QNot q) b = Ok [b] <-> den q b = Ok []) /\
    (den (QNot q) b = Ok [] <-> exists x xs, den q b = Ok (x :: xs)).
  Proof.
    cbn [QuerySpec.den]. destruct (den q b) as [[|x xs]|e|w|]; cbn [obind]; split; split; intros H;
      try discriminate; try reflexivity; try (destruct H as (x0 & xs0 & H); discriminate).
    exists x, xs. reflexivity.
  Qed.

  Corollary not_den_cases q b :
    den (QNot q) b = do xs <- den q b; Ok (if match xs with [] => true | _ => false end then [b] else []).
  Proof. cbn [QuerySpec.den]. destruct (den q b) as [[|x xs]| | |]; reflexivity. Qed.

  Corollary not_failure_aborts q b : ~ is_ok (den q b) -> ~ is_ok (den (QNot q) b).
  Proof. intros H. cbn [QuerySpec.den]. apply not_ok_bind. exact H. Qed.

  Corollary den_all_not q bss out :
    den_all search sem (QNot q) bss = Ok out ->
    forall b, In b out -> In b bss /\ den q b = Ok [].
  Proof.
    revert out. induction bss as [|b0 r IH]; intros out H b Hin.
    - cbn in H. injection H as <-. destruct Hin.
    - rewrite den_all_cons in H.
      destruct (den (QNot q) b0) as [xs| | |] eqn:E0; cbn [obind] in H; try discriminate.
      destruct (den_all search sem (QNot q) r) as [ys| | |] eqn:Er; cbn [obind] in H; try discriminate.
      injection H as <-. apply in_app_or in Hin. destruct Hin as [Hin|Hin].
      + cbn [QuerySpec.den] in E0.
        destruct (den q b0) as [[|x xs']| | |] eqn:Eq; cbn [obind] in E0; try discriminate;
          injection E0 as <-; [|destruct Hin].
        destruct Hin as [<-|[]]. split; [left; reflexivity|exact Eq].
      + destruct (IH ys eq_refl b Hin) as [H1 H2]. split; [right; exact H1|exact H2].
  Qed.
End DenClauses.

(** * Association-list facts for [extend_bindings] and the object merge of [code] *)

Lemma alookup_app {A} k (l1 l2 : list (string * A)) :
  alookup k (l1 ++ l2) = match alookup k l1 with Some v => Some v | None => alookup k l2 end.
Proof.
  induction l1 as [|[k1 v1] r IH]; cbn [app alookup].
  - reflexivity.
  - destruct (String.eqb k k1); [reflexivity|exact IH].
Qed.

Lemma alookup_notin {A} k (l : list (string * A)) : ~ In k (map fst l) -> alookup k l = None.
Proof.
  induction l as [|[k1 v1] r IH]; cbn [map fst In alookup]; intros Hn.
  - reflexivity.
  - destruct (String.eqb_spec k k1) as [->|Hne]; [exfalso; apply Hn; left; reflexivity|].
    apply IH. intros Hin. apply Hn. right. exact Hin.
Qed.

Lemma alookup_in_nodup {A} k (v : A) l :
  NoDup (map fst l) -> In (k, v) l -> alookup k l = Some v.
Proof.
  induction l as [|[k1 v1] r IH]; cbn [map fst In alookup]; intros Hnd Hin.
  - destruct Hin.
  - inversion Hnd as [|? ? Hk1 Hr]; subst.
    destruct Hin as [Heq|Hin].
    + injection Heq as -> ->. rewrite String.eqb_refl. reflexivity.
    + destruct (String.eqb_spec k k1) as [->|Hne].
      * exfalso. apply Hk1. apply (in_map fst) in Hin. exact Hin.
      * apply IH; assumption.
Qed.

Lemma alookup_rev_nodup {A} k (l : list (string * A)) :
  NoDup (map fst l) -> alookup k (rev l) = alookup k l.
Proof.
  induction l as [|[k1 v1] r IH]; cbn [rev map fst alookup]; intros Hnd.
  - reflexivity.
  - inversion Hnd as [|? ? Hk1 Hr]; subst.
    rewrite alookup_app, (IH Hr). cbn [alookup].
    destruct (String.eqb_spec k k1) as [->|Hne].
    + rewrite (alookup_notin k1 r Hk1). reflexivity.
    + destruct (alookup k r); reflexivity.
Qed.

Lemma str_ltb_irrefl k : str_ltb k k = false.
Proof. unfold str_ltb. rewrite scmp_refl. reflexivity. Qed.

Lemma sorted_keys_NoDup ks : sorted_keys ks = true -> NoDup ks.
Proof.
  induction ks as [|k r IH]; intros Hs.
  - constructor.
  - apply sorted_cons in Hs. destruct Hs as [Hlb Hs]. constructor; [|apply IH; exact Hs].
    intros Hin. specialize (Hlb k Hin). rewrite str_ltb_irrefl in Hlb. discriminate.
Qed.

(** Folding sorted inserts: the last entry for a key wins, other keys are kept. *)
Lemma alookup_fold_ainsert {A} (g : string -> string) k (l : list (string * A)) b :
  alookup k (fold_left (fun acc kv => ainsert (g (fst kv)) (snd kv) acc) l b) =
  match alookup k (rev (map (fun kv => (g (fst kv), snd kv)) l)) with
  | Some v => Some v
  | None => alookup k b
  end.
Proof.
  revert b. induction l as [|[k1 v1] r IH]; intros b; cbn [fold_left map rev fst snd].
  - reflexivity.
  - rewrite IH, alookup_app, alookup_ainsert. cbn [alookup].
    destruct (alookup k (rev (map (fun kv => (g (fst kv), snd kv)) r))); [reflexivity|].
    destruct (String.eqb k (g k1)); reflexivity.
Qed.

Lemma sorted_fold_ainsert {A} (g : string -> string) (l : list (string * A)) b :
  sorted_keys (map fst b) = true ->
  sorted_keys (map fst (fold_left (fun acc kv => ainsert (g (fst kv)) (snd kv) acc) l b)) = true.
Proof.
  revert b. induction l as [|[k1 v1] r IH]; intros b Hs; cbn [fold_left].
  - exact Hs.
  - apply IH. apply sorted_ainsert. exact Hs.
Qed.

Lemma map_pair_eta {A B} (l : list (A * B)) : map (fun kv => (fst kv, snd kv)) l = l.
Proof. induction l as [|[a b] r IH]; cbn; [reflexivity|rewrite IH; reflexivity]. Qed.

(** ** ExtendBindings *)

(** In general the LAST entry of [more] for a key wins. *)
Lemma extend_bindings_lookup b more k :
  alookup k (extend_bindings b more) =
  match alookup k (rev more) with Some v => Some v | None => alookup k b end.
Proof.
  unfold extend_bindings.
  rewrite (alookup_fold_ainsert (fun x => x) k more b). rewrite map_pair_eta. reflexivity.
Qed.

(** For bindings proper (no duplicate keys in [more], in particular sorted
    ones): [more] wins, the other variables of [b] are kept. *)
Theorem extend_bindings_spec_nodup b more k :
  NoDup (map fst more) ->
  alookup k (extend_bindings b more) =
  match alookup k more with Some v => Some v | None => alookup k b end.
Proof.
  intros Hnd. rewrite extend_bindings_lookup, alookup_rev_nodup; [reflexivity|exact Hnd].
Qed.

Theorem extend_bindings_spec b more k :
  sorted_keys (map fst more) = true ->
  alookup k (extend_bindings b more) =
  match alookup k more with Some v => Some v | None => alookup k b end.
Proof. intros Hs. apply extend_bindings_spec_nodup, sorted_keys_NoDup, Hs. Qed.

Theorem extend_bindings_sorted b more :
  sorted_keys (map fst b) = true -> sorted_keys (map fst (extend_bindings b more)) = true.
Proof. intros Hs. unfold extend_bindings. apply (sorted_fold_ainsert (fun x => x)). exact Hs. Qed.

(** Sortedness of [more] (not of [b]) is what the statement needs: with a
    duplicate key in [more] the last entry wins, not the one [alookup] finds. *)
Lemma extend_bindings_spec_counterexample :
  let more := [("?x", JNum 1); ("?x", JNum 2)] in
  alookup "?x" (extend_bindings [] more) = Some (JNum 2) /\ alookup "?x" more = Some (JNum 1).
Proof. vm_compute. split; reflexivity. Qed.

(** ** Substitution *)

Theorem bind_pat_nil p : bind_pat [] p = p.
Proof.
  induction p as [| | |s|l IH|kvs IH] using json_ind'; cbn [bind_pat]; try reflexivity.
  - cbn [alookup]. destruct (is_var s); reflexivity.
  - f_equal. induction IH as [|x r Hx Hr IHr]; cbn [map]; [reflexivity|]. rewrite Hx, IHr. reflexivity.
  - f_equal. induction IH as [|[k v] r Hx Hr IHr]; cbn [map fst snd]; [reflexivity|].
    cbn [snd] in Hx. rewrite Hx, IHr. reflexivity.
Qed.

(** Only bound variables are replaced: if no variable in a value position of
    [p] is bound by [b], the pattern is unchanged. *)
Fixpoint value_strings (p : json) : list string :=
  match p with
  | JStr s => [s]
  | JArr l => flat_map value_strings l
  | JObj kvs => flat_map (fun kv => value_strings (snd kv)) kvs
  | _ => []
  end.

Theorem bind_pat_unbound b p :
  (forall x, In x (value_strings p) -> is_var x = true -> alookup x b = None) ->
  bind_pat b p = p.
Proof.
  induction p as [| | |s|l IH|kvs IH] using json_ind'; cbn [bind_pat value_strings]; intros H;
    try reflexivity.
  - destruct (is_var s) eqn:Ev; [|reflexivity].
    rewrite (H s (or_introl eq_refl) Ev). reflexivity.
  - f_equal. induction IH as [|x r Hx Hr IHr]; cbn [map]; [reflexivity|].
    cbn [flat_map] in H. rewrite Hx, IHr; [reflexivity| |].
    + intros y Hy. apply H. apply in_or_app. right. exact Hy.
    + intros y Hy. apply H. apply in_or_app. left. exact Hy.
  - f_equal. induction IH as [|[k v] r Hx Hr IHr]; cbn [map fst snd]; [reflexivity|].
    cbn [flat_map snd] in H, Hx. rewrite Hx, IHr; [reflexivity| |].
    + intros y Hy. apply H. apply in_or_app. right. exact Hy.
    + intros y Hy. apply H. apply in_or_app. left. exact Hy.
Qed.

(** Bindings.Bind, case by case: a bound variable in a value position is
    replaced by its value; everything else (unbound variables, other strings,
    scalars, property names) is kept; arrays and objects are traversed. *)
Theorem bind_pat_spec b :
  (forall x v, is_var x = true -> alookup x b = Some v -> bind_pat b (JStr x) = v) /\
  (forall x, is_var x = true -> alookup x b = None -> bind_pat b (JStr x) = JStr x) /\
  (forall x, is_var x = false -> bind_pat b (JStr x) = JStr x) /\
  bind_pat b JNull = JNull /\
  (forall t, bind_pat b (JBool t) = JBool t) /\
  (forall z, bind_pat b (JNum z) = JNum z) /\
  (forall l, bind_pat b (JArr l) = JArr (map (bind_pat b) l)) /\
  (forall kvs, bind_pat b (JObj kvs) = JObj (map (fun kv => (fst kv, bind_pat b (snd kv))) kvs)).
Proof.
  repeat split; try reflexivity.
  - intros x v Hv Hl. cbn [bind_pat]. rewrite Hv, Hl. reflexivity.
  - intros x Hv Hl. cbn [bind_pat]. rewrite Hv, Hl. reflexivity.
  - intros x Hv. cbn [bind_pat]. rewrite Hv. reflexivity.
Qed.

(** Property names are never substituted and fields are neither added nor dropped. *)
Corollary bind_pat_obj_keys b kvs m :
  bind_pat b (JObj kvs) = JObj m -> map fst m = map fst kvs.
Proof.
  cbn [bind_pat]. intros H. injection H as <-. rewrite map_map. cbn [fst]. reflexivity.
Qed.

(** A pattern query's pattern is an object, so the "isn't a map" failure
    cannot occur for parsed queries. *)
Corollary bind_pat_obj_is_obj b kvs : exists m, bind_pat b (JObj kvs) = JObj m.
Proof. eexists. reflexivity. Qed.

(** * pattern and code clauses *)

Section LeafClauses.
  Variable search : list string -> json -> outcome (list bindings).
  Variable sem : string -> option code.
  Notation den := (den search sem).

  (** ** pattern: every extension of the incoming binding by the bindings of a
      fact that matches the substituted pattern *)
  Theorem pattern_exact p locs b out :
    den (QPattern p locs) b = Ok out <->
    exists m mores, bind_pat b p = JObj m /\ search locs (JObj m) = Ok mores /\
                    out = map (extend_bindings b) mores.
  Proof.
    cbn [QuerySpec.den]. split.
    - destruct (bind_pat b p) as [| | | | |m]; try discriminate.
      destruct (search locs (JObj m)) as [mores| | |] eqn:Es; cbn [obind]; try discriminate.
      intros H. injection H as <-. exists m, mores. repeat split. exact Es.
    - intros (m & mores & Hb & Hs & ->). rewrite Hb, Hs. reflexivity.
  Qed.

  Theorem pattern_search_failure_aborts p locs b m :
    bind_pat b p = JObj m -> ~ is_ok (search locs (JObj m)) -> ~ is_ok (den (QPattern p locs) b).
  Proof. intros Hb Hn. cbn [QuerySpec.den]. rewrite Hb. apply not_ok_bind. exact Hn. Qed.

  (** ** code *)

  (** The object merge of [code]: bind [?f] for every field [f]. *)
  Definition code_merge (b : bindings) (fields : list (string * json)) : bindings :=
    fold_left (fun acc kv => ainsert (String.append "?" (fst kv)) (snd kv) acc) fields b.

  Theorem code_keep_iff js c b v :
    sem js = Some c -> run_code c b = Ok v ->
    (* kept: true, or otherwise non-null and not an object *)
    ((v = JBool true \/ (exists z, v = JNum z) \/ (exists s, v = JStr s) \/ (exists l, v = JArr l)) ->
     den (QCode js) b = Ok [b]) /\
    (* dropped: false or null *)
    ((v = JBool false \/ v = JNull) <-> den (QCode js) b = Ok []) /\
    (* an object is merged into the binding *)
    (forall fields, v = JObj fields -> den (QCode js) b = Ok [code_merge b fields]).
  Proof.
    intros Hc Hr. cbn [QuerySpec.den]. rewrite Hc, Hr. cbn [obind]. repeat split.
    - intros [->|[[z ->]|[[s ->]|[l ->]]]]; reflexivity.
    - intros [->| ->]; reflexivity.
    - destruct v as [|[|]| | | |]; cbn [code_keep]; intros H; try discriminate; auto.
    - intros fields ->. reflexivity.
  Qed.

  (** In one equation. *)
  Corollary code_den js c b v :
    sem js = Some c -> run_code c b = Ok v ->
    den (QCode js) b =
    Ok (match v with
        | JBool false | JNull => []
        | JObj fields => [code_merge b fields]
        | _ => [b]
        end).
  Proof.
    intros Hc Hr. cbn [QuerySpec.den]. rewrite Hc, Hr. cbn [obind].
    destruct v as [|[|]| | | |]; reflexivity.
  Qed.

  Theorem code_error_aborts js c b e :
    sem js = Some c -> run_code c b = Err e -> den (QCode js) b = Err e.
  Proof. intros Hc Hr. cbn [QuerySpec.den]. rewrite Hc, Hr. reflexivity. Qed.

  Corollary code_failure_aborts js c b :
    sem js = Some c -> ~ is_ok (run_code c b) -> ~ is_ok (den (QCode js) b).
  Proof. intros Hc Hn. cbn [QuerySpec.den]. rewrite Hc. apply not_ok_bind. exact Hn. Qed.

  (** The merge, characterised by lookups (the last field of a name wins). *)
  Lemma code_merge_lookup b fields k :
    alookup k (code_merge b fields) =
    match alookup k (rev (map (fun kv => (String.append "?" (fst kv), snd kv)) fields)) with
    | Some v => Some v
    | None => alookup k b
    end.
  Proof. unfold code_merge. apply (alookup_fold_ainsert (String.append "?")). Qed.

  Theorem code_merge_field b fields f fv :
    NoDup (map fst fields) -> In (f, fv) fields ->
    alookup (String.append "?" f) (code_merge b fields) = Some fv.
  Proof.
    intros Hnd Hin. rewrite code_merge_lookup, alookup_rev_nodup.
    - rewrite (alookup_in_nodup (String.append "?" f) fv).
      + reflexivity.
      + rewrite map_map. cbn [fst].
        rewrite <- (map_map fst (String.append "?")).
        apply FinFun.Injective_map_NoDup; [|exact Hnd].
        intros x y Hxy. cbn in Hxy. injection Hxy as ->. reflexivity.
      + apply in_map_iff. exists (f, fv). split; [reflexivity|exact Hin].
    - rewrite map_map. cbn [fst].
      rewrite <- (map_map fst (String.append "?")).
      apply FinFun.Injective_map_NoDup; [|exact Hnd].
      intros x y Hxy. cbn in Hxy. injection Hxy as ->. reflexivity.
  Qed.

  Theorem code_merge_other b fields k :
    (forall f, In f (map fst fields) -> k <> String.append "?" f) ->
    alookup k (code_merge b fields) = alookup k b.
  Proof.
    intros Hk. rewrite code_merge_lookup, alookup_notin; [reflexivity|].
    rewrite map_rev, map_map. cbn [fst]. intros Hin. apply in_rev in Hin.
    apply in_map_iff in Hin. destruct Hin as ([f fv] & Hf & Hin). cbn [fst] in Hf.
    apply (Hk f); [|symmetry; exact Hf]. apply (in_map fst) in Hin. exact Hin.
  Qed.

  Theorem code_merge_sorted b fields :
    sorted_keys (map fst b) = true -> sorted_keys (map fst (code_merge b fields)) = true.
  Proof. intros Hs. unfold code_merge. apply (sorted_fold_ainsert (String.append "?")). exact Hs. Qed.

  (** A script sees the current bindings as variables ([?x] as [x]). *)
  Theorem code_sees_bindings b x :
    run_code (CExpr (XVar x)) b =
    match script_var b x with Some v => Ok v | None => Err "ReferenceError" end.
  Proof. reflexivity. Qed.

  Corollary code_sees_question_var b x v :
    alookup (String.append "?" x) b = Some v -> run_code (CExpr (XVar x)) b = Ok v.
  Proof. intros H. cbn. unfold script_var. rewrite H. reflexivity. Qed.
End LeafClauses.

Ltac split_head_option H r E :=
  match type of H with
  | (match ?tc with Some _ => _ | None => _ end) = _ => destruct tc as [r|] eqn:E
  end.

Ltac crack E :=
  repeat match type of E with
         | context [match ?x with _ => _ end] => destruct x eqn:?; try discriminate E
         | context [if ?x then _ else _] => destruct x eqn:?; try discriminate E
         end.

(** An object built by a script ([XObj]) has sorted, hence distinct, field
    names, so [code_merge_field] applies to it. *)
Lemma eval_obj_sorted b fs v :
  eval_cexpr b (XObj fs) = Ok v ->
  exists fields, v = JObj fields /\ sorted_keys (map fst fields) = true.
Proof.
  cbn [eval_cexpr]. revert v. induction fs as [|[k x] r IH]; intros v H.
  - injection H as <-. exists []. split; reflexivity.
  - destruct (eval_cexpr b x) as [vx| | |]; cbn [obind] in H; try discriminate.
    match type of H with (do rest <- ?g; _) = _ => destruct g as [rest| | |] eqn:Er end;
      cbn [obind] in H; try discriminate.
    destruct (IH rest eq_refl) as (fr & -> & Hs).
    injection H as <-. cbn [jO].
    destruct vx; try (exists fr; split; [reflexivity|exact Hs]);
      (eexists; split; [reflexivity|apply sorted_ainsert; exact Hs]).
Qed.

Corollary eval_obj_nodup b fs fields :
  eval_cexpr b (XObj fs) = Ok (JObj fields) -> NoDup (map fst fields).
Proof.
  intros H. destruct (eval_obj_sorted b fs _ H) as (f' & E & Hs). injection E as <-.
  apply sorted_keys_NoDup. exact Hs.
Qed.

(** * Parsed queries only mention known scripts *)

Section ParseKnown.
Variable sem : string -> option code.
Lemma parse_query_scripts_known fuel : forall j q,
  parse_query sem fuel j = Ok q -> scripts_known sem q = true.
Proof.
  induction fuel as [|f IHf]; intros j q H.
  - discriminate.
  - destruct j as [| | | | |kvs]; try discriminate.
    destruct kvs as [|kv m'].
    + cbn in H. injection H as <-. reflexivity.
    + cbn [parse_query] in H.
      remember (kv :: m') as m eqn:Em. clear Em.
      assert (Hgo : forall xs qs,
                 (fix go (l : list json) : outcome (list query) :=
                    match l with
                    | [] => Ok []
                    | x :: r => do q <- parse_query sem f x; do qs <- go r; Ok (q :: qs)
                    end) xs = Ok qs ->
                 forallb (scripts_known sem) qs = true).
      { induction xs as [|x r IHr]; intros qs Hq.
        - injection Hq as <-. reflexivity.
        - destruct (parse_query sem f x) as [q1| | |] eqn:E1; cbn [obind] in Hq; try discriminate.
          match type of Hq with (do qs <- ?g; _) = _ => destruct g as [qs1| | |] eqn:E2 end;
            cbn [obind] in Hq; try discriminate.
          injection Hq as <-. cbn [forallb]. rewrite (IHf x q1 E1), (IHr qs1 eq_refl). reflexivity. }
      split_head_option H r1 ETC.
      { (* code *)
        subst r1. crack ETC; injection ETC as <-;
          cbn [scripts_known];
          match goal with E : sem _ = Some _ |- _ => rewrite E end; reflexivity. }
      clear ETC. split_head_option H r2 ETP.
      { (* pattern *)
        subst r2. crack ETP. injection ETP as <-. reflexivity. }
      clear ETP. split_head_option H r3 ETA.
      { (* and *)
        subst r3.
        destruct (alookup "and" m) as [[| | | |xs|]|]; try discriminate ETA.
        destruct (forallb (fun x : json => match x with JObj _ => true | _ => false end) xs);
          try discriminate ETA.
        match type of ETA with Some (omap QAnd ?g) = _ => destruct g as [qs| | |] eqn:Eg end;
          try discriminate ETA.
        injection ETA as <-. cbn [scripts_known]. apply (Hgo _ _ Eg). }
      clear ETA. split_head_option H r4 ETO.
      { (* or *)
        subst r4.
        destruct (alookup "or" m) as [[| | | |xs|]|]; try discriminate ETO.
        destruct (forallb (fun x : json => match x with JObj _ => true | _ => false end) xs);
          try discriminate ETO.
        cbv beta iota in ETO.
        match type of ETO with
          match ?g with Ok _ => _ | _ => _ end = _ => destruct g as [qs| | |] eqn:Eg end;
          try discriminate ETO.
        destruct (short_circuit_of m) as [sc| | |]; try discriminate ETO.
        injection ETO as <-. cbn [scripts_known]. apply (Hgo _ _ Eg). }
      clear ETO.
      destruct (alookup "not" m) as [[| | | | |a]|]; try discriminate H.
      destruct (parse_query sem f (JObj a)) as [q1| | |] eqn:E1; try discriminate H.
      injection H as <-. cbn [scripts_known]. apply (IHf _ _ E1).
Qed.
End ParseKnown.


(** * Totality and state threading, for an arbitrary (state-changing) search *)

(** Abnormal outcomes: a panic (when [kp]) or exhausted fuel (when [kf]). *)
Definition abn {A} (kp kf : Prop) (o : outcome A) : Prop :=
  match o with Ok _ | Err _ => False | Panic _ => kp | OutOfFuel => kf end.

(** Written so as not to depend on the exact list of leaf constructors of
    [cexpr] (the template family grows): leaves are handled uniformly, the
    nested field list of [XObj] by an inner fixpoint. *)
Fixpoint eval_cexpr_normal (kp kf : Prop) b e {struct e} : ~ abn kp kf (eval_cexpr b e).
Proof.
  destruct e; cbn [eval_cexpr];
    try (match goal with
         | |- context [script_var ?bs ?x] =>
             destruct (script_var bs x) as [[| | | | |]|]
         end);
    try (cbn; tauto).
  match goal with fs : list (string * cexpr) |- _ => revert fs end. fix go 1. intros [|[k x] r].
  - cbn; tauto.
  - pose proof (eval_cexpr_normal kp kf b x) as Hx. specialize (go r).
    destruct (eval_cexpr b x) as [v| | |]; cbn [obind abn] in *; try tauto.
    match goal with |- ~ abn _ _ (do rest <- ?g; _) => destruct g as [rest| | |] end;
      cbn [obind abn] in *; tauto.
Qed.

Lemma run_code_normal (kp kf : Prop) c b : ~ abn kp kf (run_code c b).
Proof.
  destruct c; cbn [run_code]; try apply eval_cexpr_normal; cbn; tauto.
Qed.

Section Threading.
  Variable S : Type.
  Variable search : S -> list string -> json -> S * outcome (list bindings).
  Variable sem : string -> option code.
  Variable Inv : S -> Prop.
  Variables kp kf : Prop.
  Hypothesis Hsearch : forall s locs p,
    Inv s -> Inv (fst (search s locs p)) /\ ~ abn kp kf (snd (search s locs p)).

  Let ex := exec S search sem.
  Definition fine (q : query) : Prop :=
    forall s bss, Inv s -> Inv (fst (ex q s bss)) /\ ~ abn kp kf (snd (ex q s bss)).

  Lemma exec_pattern_fine p locs bss : forall s acc,
    Inv s -> Inv (fst (exec_pattern S search p locs s bss acc)) /\
             ~ abn kp kf (snd (exec_pattern S search p locs s bss acc)).
  Proof.
    induction bss as [|b r IH]; intros s acc Hs; cbn [exec_pattern].
    - cbn. tauto.
    - destruct (bind_pat b p) as [| | | | |m]; try (cbn; tauto).
      destruct (Hsearch s locs (JObj m) Hs) as [H1 H2].
      destruct (search s locs (JObj m)) as [s' o]. cbn [fst snd] in H1, H2.
      destruct o as [mores|e|w|]; [apply IH; exact H1| | |]; cbn [fst snd]; tauto.
  Qed.

  Lemma exec_code_fine c bss : forall acc, ~ abn kp kf (exec_code c bss acc).
  Proof.
    induction bss as [|b r IH]; intros acc; cbn [exec_code].
    - cbn; tauto.
    - pose proof (run_code_normal kp kf c b) as Hr.
      destruct (run_code c b) as [v| | |]; cbn [obind abn] in *; try tauto. apply IH.
  Qed.

  Lemma conj_fine qs : Forall fine qs -> forall s bss,
    Inv s -> Inv (fst (conj_loop S ex qs s bss)) /\ ~ abn kp kf (snd (conj_loop S ex qs s bss)).
  Proof.
    intros HF. induction HF as [|q r Hq Hr IH]; intros s bss Hs; cbn [conj_loop].
    - cbn; tauto.
    - destruct (Hq s bss Hs) as [H1 H2].
      destruct (ex q s bss) as [s' o]. cbn [fst snd] in H1, H2.
      destruct o as [out|e|w|]; [apply IH; exact H1| | |]; cbn [fst snd]; tauto.
  Qed.

  Lemma disj_fine sc bs qs : Forall fine qs -> forall s acc,
    Inv s -> Inv (fst (disj_loop S ex sc bs qs s acc)) /\
             ~ abn kp kf (snd (disj_loop S ex sc bs qs s acc)).
  Proof.
    intros HF. induction HF as [|q r Hq Hr IH]; intros s acc Hs; cbn [disj_loop].
    - cbn; tauto.
    - destruct (Hq s [bs] Hs) as [H1 H2].
      destruct (ex q s [bs]) as [s' o]. cbn [fst snd] in H1, H2.
      destruct o as [more|e|w|]; try (cbn [fst snd]; tauto).
      destruct (sc && negb (match more with [] => true | _ :: _ => false end)).
      + cbn; tauto.
      + apply IH; exact H1.
  Qed.

  Lemma or_fine qs sc : Forall fine qs -> forall bss s acc,
    Inv s -> Inv (fst (or_loop S ex qs sc bss s acc)) /\
             ~ abn kp kf (snd (or_loop S ex qs sc bss s acc)).
  Proof.
    intros HF bss. induction bss as [|bs r IH]; intros s acc Hs; cbn [or_loop].
    - cbn; tauto.
    - destruct (disj_fine sc bs qs HF s acc Hs) as [H1 H2].
      destruct (disj_loop S ex sc bs qs s acc) as [s' res]. cbn [fst snd] in H1, H2.
      destruct res as [acc'|e|w|]; [apply IH; exact H1| | |]; cbn [fst snd]; tauto.
  Qed.

  Lemma not_fine q : fine q -> forall bss s acc,
    Inv s -> Inv (fst (not_loop S ex q bss s acc)) /\
             ~ abn kp kf (snd (not_loop S ex q bss s acc)).
  Proof.
    intros Hq bss. induction bss as [|bs r IH]; intros s acc Hs; cbn [not_loop].
    - cbn; tauto.
    - destruct (Hq s [bs] Hs) as [H1 H2].
      destruct (ex q s [bs]) as [s' o]. cbn [fst snd] in H1, H2.
      destruct o as [[|x xs]|e|w|]; try (apply IH; exact H1); cbn [fst snd]; tauto.
  Qed.

  Theorem exec_fine q : fine q.
  Proof.
    induction q as [|js|p locs|qs IH|qs sc IH|q IH] using query_ind'; intros s bss Hs; unfold ex.
    - cbn. tauto.
    - cbn [exec]. destruct (sem js) as [c|]; cbn [fst snd]; [|cbn; tauto].
      split; [exact Hs|apply exec_code_fine].
    - cbn [exec]. apply exec_pattern_fine. exact Hs.
    - rewrite exec_and_unfold. apply conj_fine; assumption.
    - rewrite exec_or_unfold. apply or_fine; assumption.
    - rewrite exec_not_unfold. apply not_fine; assumption.
  Qed.
End Threading.

(** [exec] itself is total (structural recursion, no fuel): it reports
    [OutOfFuel] only if some search does. *)
Theorem exec_total S search sem :
  (forall s locs p, snd (search s locs p) <> OutOfFuel) ->
  forall q s bss, snd (exec S search sem q s bss) <> OutOfFuel.
Proof.
  intros Hs q s bss E.
  refine (proj2 (exec_fine S search sem (fun _ => True) False True _ q s bss I) _).
  - intros s1 locs p _. split; [exact I|]. specialize (Hs s1 locs p).
    destruct (snd (search s1 locs p)); cbn; try tauto; try congruence.
  - rewrite E. exact I.
Qed.

(** ... and it panics only if some search does. *)
Theorem exec_no_panic S search sem :
  (forall s locs p w, snd (search s locs p) <> Panic w) ->
  forall q s bss w, snd (exec S search sem q s bss) <> Panic w.
Proof.
  intros Hs q s bss w E.
  refine (proj2 (exec_fine S search sem (fun _ => True) True False _ q s bss I) _).
  - intros s1 locs p _. split; [exact I|]. specialize (Hs s1 locs p).
    destruct (snd (search s1 locs p)) as [| |w1|]; cbn; try tauto; try (intros _; exact (Hs w1 eq_refl)).
  - rewrite E. exact I.
Qed.

(** Every state invariant of the search is an invariant of [exec]: the state
    is only ever changed by searches, each started in the state the previous
    one left. *)
Theorem exec_state_invariant S search sem (Inv : S -> Prop) :
  (forall s locs p, Inv s -> Inv (fst (search s locs p))) ->
  forall q s bss, Inv s -> Inv (fst (exec S search sem q s bss)).
Proof.
  intros Hs q s bss Hi.
  refine (proj1 (exec_fine S search sem Inv False False _ q s bss Hi)).
  intros s1 locs p H1. split; [apply Hs; exact H1|].
  destruct (snd (search s1 locs p)); cbn; tauto.
Qed.


(** ** Evaluation order: how the state is threaded

    The equations below (with [and_cons]) determine [exec] for an arbitrary,
    state-changing search: incoming bindings are processed left to right, the
    searches below one incoming binding run before those of the next, each in
    the state its predecessor left, and the first failure stops everything
    with the state reached so far. *)

(** Prepend [acc] to the result of a run. *)
Definition prepend {S A} (acc : list A) (r : S * outcome (list A)) : S * outcome (list A) :=
  (fst r, do out <- snd r; Ok (acc ++ out)%list).

Lemma prepend_nil {S A} (r : S * outcome (list A)) : prepend [] r = r.
Proof. destruct r as [s [out| | |]]; reflexivity. Qed.

Lemma prepend_prepend {S A} (a1 a2 : list A) (r : S * outcome (list A)) :
  prepend a1 (prepend a2 r) = prepend (a1 ++ a2) r.
Proof.
  destruct r as [s [out| | |]]; unfold prepend; cbn [fst snd obind]; try reflexivity.
  rewrite app_assoc. reflexivity.
Qed.

Section Order.
  Variable S : Type.
  Variable search : S -> list string -> json -> S * outcome (list bindings).
  Variable sem : string -> option code.
  Local Notation ex := (exec S search sem).

  Lemma exec_pattern_acc p locs bss : forall s acc,
    exec_pattern S search p locs s bss acc = prepend acc (exec_pattern S search p locs s bss []).
  Proof.
    induction bss as [|b r IH]; intros s acc; cbn [exec_pattern].
    - unfold prepend. cbn. rewrite app_nil_r. reflexivity.
    - destruct (bind_pat b p) as [| | | | |m]; try reflexivity.
      destruct (search s locs (JObj m)) as [s' [mores|e|w|]]; try reflexivity.
      rewrite (IH s' (acc ++ _)%list), (IH s' ([] ++ _)%list). cbn [app].
      rewrite prepend_prepend. reflexivity.
  Qed.

  Lemma disj_loop_acc sc bs qs : forall s acc,
    disj_loop S ex sc bs qs s acc = prepend acc (disj_loop S ex sc bs qs s []).
  Proof.
    induction qs as [|q r IH]; intros s acc; cbn [disj_loop].
    - unfold prepend. cbn. rewrite app_nil_r. reflexivity.
    - destruct (ex q s [bs]) as [s' [more|e|w|]]; try reflexivity. cbn [app].
      destruct (sc && negb (match more with [] => true | _ :: _ => false end)).
      + reflexivity.
      + rewrite (IH s' (acc ++ more)%list), (IH s' more). rewrite prepend_prepend. reflexivity.
  Qed.

  Lemma or_loop_acc qs sc bss : forall s acc,
    or_loop S ex qs sc bss s acc = prepend acc (or_loop S ex qs sc bss s []).
  Proof.
    induction bss as [|bs r IH]; intros s acc; cbn [or_loop].
    - unfold prepend. cbn. rewrite app_nil_r. reflexivity.
    - rewrite (disj_loop_acc sc bs qs s acc).
      destruct (disj_loop S ex sc bs qs s []) as [s' [xs|e|w|]]; unfold prepend at 1;
        cbn [fst snd obind]; try reflexivity.
      rewrite (IH s' (acc ++ xs)%list), (IH s' xs). rewrite prepend_prepend. reflexivity.
  Qed.

  Lemma not_loop_acc q bss : forall s acc,
    not_loop S ex q bss s acc = prepend acc (not_loop S ex q bss s []).
  Proof.
    induction bss as [|bs r IH]; intros s acc; cbn [not_loop].
    - unfold prepend. cbn. rewrite app_nil_r. reflexivity.
    - destruct (ex q s [bs]) as [s' [[|x xs]|e|w|]]; try reflexivity.
      + rewrite (IH s' (acc ++ [bs])%list), (IH s' ([] ++ [bs])%list). cbn [app].
        rewrite prepend_prepend. reflexivity.
      + apply IH.
  Qed.

  (** pattern: one search per incoming binding, left to right. *)
  Theorem exec_pattern_cons p locs s b r :
    exec S search sem (QPattern p locs) s (b :: r) =
    match bind_pat b p with
    | JObj m =>
        match search s locs (JObj m) with
        | (s', Ok mores) =>
            prepend (map (extend_bindings b) mores) (exec S search sem (QPattern p locs) s' r)
        | other => other
        end
    | _ => (s, Err "isn't a map")
    end.
  Proof.
    cbn [exec exec_pattern].
    destruct (bind_pat b p) as [| | | | |m]; try reflexivity.
    destruct (search s locs (JObj m)) as [s' [mores|e|w|]]; try reflexivity.
    cbn [app]. apply exec_pattern_acc.
  Qed.

  (** not: the negated query is run for one incoming binding at a time. *)
  Theorem exec_not_cons q s b r :
    exec S search sem (QNot q) s (b :: r) =
    match exec S search sem q s [b] with
    | (s', Ok xs) =>
        prepend (match xs with [] => [b] | _ => [] end) (exec S search sem (QNot q) s' r)
    | other => other
    end.
  Proof.
    rewrite exec_not_unfold. cbn [not_loop].
    destruct (exec S search sem q s [b]) as [s' [[|x xs]|e|w|]]; try reflexivity.
    - cbn [app]. rewrite exec_not_unfold. apply not_loop_acc.
    - rewrite exec_not_unfold. rewrite prepend_nil. reflexivity.
  Qed.

  (** or: all disjuncts for the first incoming binding, then the rest. *)
  Theorem exec_or_cons qs sc s b r :
    exec S search sem (QOr qs sc) s (b :: r) =
    match exec S search sem (QOr qs sc) s [b] with
    | (s', Ok xs) => prepend xs (exec S search sem (QOr qs sc) s' r)
    | other => other
    end.
  Proof.
    rewrite !exec_or_unfold. cbn [or_loop].
    destruct (disj_loop S (exec S search sem) sc b qs s []) as [s' [xs|e|w|]]; try reflexivity.
    rewrite exec_or_unfold. apply or_loop_acc.
  Qed.

  Theorem exec_or_single_nil sc s b : exec S search sem (QOr [] sc) s [b] = (s, Ok []).
  Proof. reflexivity. Qed.

  (** ... the disjuncts left to right, stopping at the first non-empty one
      when [sc] is set. *)
  Theorem exec_or_single_cons q qr sc s b :
    exec S search sem (QOr (q :: qr) sc) s [b] =
    match exec S search sem q s [b] with
    | (s', Ok more) =>
        if sc && negb (match more with [] => true | _ => false end)
        then (s', Ok more)
        else prepend more (exec S search sem (QOr qr sc) s' [b])
    | other => other
    end.
  Proof.
    rewrite !exec_or_unfold. cbn [or_loop disj_loop].
    destruct (exec S search sem q s [b]) as [s' [more|e|w|]]; try reflexivity. cbn [app].
    destruct (sc && negb (match more with [] => true | _ :: _ => false end)); [reflexivity|].
    rewrite exec_or_unfold. cbn [or_loop].
    rewrite (disj_loop_acc sc b qr s' more).
    destruct (disj_loop S (exec S search sem) sc b qr s' []) as [s'' [ys|e|w|]]; reflexivity.
  Qed.

  (** code never touches the state. *)
  Theorem exec_code_state js s bss : fst (exec S search sem (QCode js) s bss) = s.
  Proof. cbn [exec]. destruct (sem js); reflexivity. Qed.
End Order.

Section NotExact.
  Variable search : list string -> json -> outcome (list bindings).
  Variable sem : string -> option code.

  (** not, over a whole list of incoming bindings: exactly those (in order)
      for which the negated query yields nothing. *)
  Theorem den_all_not_filter q bss :
    (forall b, In b bss -> is_ok (den search sem q b)) ->
    den_all search sem (QNot q) bss =
    Ok (filter (fun b => match den search sem q b with Ok [] => true | _ => false end) bss).
  Proof.
    induction bss as [|b r IH]; intros Hok.
    - reflexivity.
    - rewrite den_all_cons, IH; [|intros b' Hb'; apply Hok; right; exact Hb'].
      cbn [den filter]. pose proof (Hok b (or_introl eq_refl)) as Hb.
      destruct (den search sem q b) as [[|x xs]| | |]; cbn in Hb; try tauto; reflexivity.
  Qed.
End NotExact.

(** All the threading equations in one statement. *)
Theorem exec_state_threading S search sem :
  (forall q r s bss,
     exec S search sem (QAnd (q :: r)) s bss =
     match exec S search sem q s bss with
     | (s', Ok out) => exec S search sem (QAnd r) s' out
     | other => other
     end) /\
  (forall p locs s b r,
     exec S search sem (QPattern p locs) s (b :: r) =
     match bind_pat b p with
     | JObj m =>
         match search s locs (JObj m) with
         | (s', Ok mores) =>
             prepend (map (extend_bindings b) mores) (exec S search sem (QPattern p locs) s' r)
         | other => other
         end
     | _ => (s, Err "isn't a map")
     end) /\
  (forall qs sc s b r,
     exec S search sem (QOr qs sc) s (b :: r) =
     match exec S search sem (QOr qs sc) s [b] with
     | (s', Ok xs) => prepend xs (exec S search sem (QOr qs sc) s' r)
     | other => other
     end) /\
  (forall q qr sc s b,
     exec S search sem (QOr (q :: qr) sc) s [b] =
     match exec S search sem q s [b] with
     | (s', Ok more) =>
         if sc && negb (match more with [] => true | _ => false end)
         then (s', Ok more)
         else prepend more (exec S search sem (QOr qr sc) s' [b])
     | other => other
     end) /\
  (forall q s b r,
     exec S search sem (QNot q) s (b :: r) =
     match exec S search sem q s [b] with
     | (s', Ok xs) =>
         prepend (match xs with [] => [b] | _ => [] end) (exec S search sem (QNot q) s' r)
     | other => other
     end) /\
  (forall js s bss, fst (exec S search sem (QCode js) s bss) = s) /\
  (forall s bss, exec S search sem QEmpty s bss = (s, Ok bss)).
Proof.
  refine (conj _ (conj _ (conj _ (conj _ (conj _ (conj _ _)))))).
  - intros q r s bss. apply and_cons.
  - intros p locs s b r. apply exec_pattern_cons.
  - intros qs sc s b r. apply exec_or_cons.
  - intros q qr sc s b. apply exec_or_single_cons.
  - intros q s b r. apply exec_not_cons.
  - intros js s bss. apply exec_code_state.
  - intros s bss. reflexivity.
Qed.

(** * The refinement theorem for parsed queries *)

Theorem exec_correct_parsed S search sem s0 :
  (forall locs p, fst (search s0 locs p) = s0) ->
  forall fuel j q bss,
    parse_query sem fuel j = Ok q ->
    (forall out, den_all (psearch S search s0) sem q bss = Ok out ->
                 exec S search sem q s0 bss = (s0, Ok out)) /\
    ((forall out, den_all (psearch S search s0) sem q bss <> Ok out) ->
     exists r, exec S search sem q s0 bss = (s0, r) /\ forall out, r <> Ok out).
Proof.
  intros Hpure fuel j q bss Hp.
  apply exec_correct; [exact Hpure|]. eapply parse_query_scripts_known. exact Hp.
Qed.

(** * A tiny instance, by computation *)

Module Tiny.
  Definition srch (s : unit) (locs : list string) (p : json) : unit * outcome (list bindings) :=
    match p with
    | JObj [("a", JStr "?x")] => (tt, Ok [[("?x", JNum 1)]; [("?x", JNum 2)]])
    | JObj [("a", JNum 1)] => (tt, Ok [[]])
    | _ => (tt, Ok [])
    end.
  Definition sm (js : string) : option code :=
    if String.eqb js "x1" then Some (CExpr (XSeq "x" (JNum 1)))
    else if String.eqb js "obj" then Some (CExpr (XObj [("y", XVar "x"); ("n", XConst JNull)]))
    else None.
  Definition pat := QPattern (JObj [("a", JStr "?x")]) [].
  Definition q (sc : bool) := QAnd [pat; QOr [QCode "x1"; QCode "obj"; QNot pat] sc].
  Definition inc : list bindings := [[]; [("?z", JNum 0)]].

  Example tiny_short_circuit :
    exec unit srch sm (q true) tt inc =
    (tt, Ok [[("?x", JNum 1)]; [("?x", JNum 2); ("?y", JNum 2)];
             [("?x", JNum 1); ("?z", JNum 0)]; [("?x", JNum 2); ("?y", JNum 2); ("?z", JNum 0)]]) /\
    den_all (psearch unit srch tt) sm (q true) inc = snd (exec unit srch sm (q true) tt inc).
  Proof. vm_compute. split; reflexivity. Qed.

  Example tiny_concat :
    exec unit srch sm (q false) tt inc =
    (tt, Ok [[("?x", JNum 1)]; [("?x", JNum 1); ("?y", JNum 1)];
             [("?x", JNum 2); ("?y", JNum 2)]; [("?x", JNum 2)];
             [("?x", JNum 1); ("?z", JNum 0)]; [("?x", JNum 1); ("?y", JNum 1); ("?z", JNum 0)];
             [("?x", JNum 2); ("?y", JNum 2); ("?z", JNum 0)]; [("?x", JNum 2); ("?z", JNum 0)]]) /\
    den_all (psearch unit srch tt) sm (q false) inc = snd (exec unit srch sm (q false) tt inc).
  Proof. vm_compute. split; reflexivity. Qed.
End Tiny.
