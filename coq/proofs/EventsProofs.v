(** C04 - proofs about the event work tree (theories/Events.v): every
    dispatched rule, every when-binding, every condition result, every action
    exactly once, with exactly the injected bindings; failures are local
    unless the rule asks for serial actions. *)
From Coq Require Import Lia.
From Verif Require Import Json Outcome Match PatIndex State Location Query QueryOps QuerySpec Events.
From Verif Require Import AssocLemmas QueryProofs EventsSpec.

(** * 1. Concurrent actions: every action exactly once, in order *)

Theorem run_actions_concurrent sem rid bs acts :
  run_actions sem false rid bs acts = (map (exec_action sem rid bs) acts, false).
Proof.
  induction acts as [|a r IH]; cbn [run_actions map].
  - reflexivity.
  - rewrite IH. destruct (x_res (exec_action sem rid bs a)) eqn:E; reflexivity.
Qed.

Corollary run_actions_concurrent_length sem rid bs acts :
  length (fst (run_actions sem false rid bs acts)) = length acts.
Proof. rewrite run_actions_concurrent. cbn [fst]. apply map_length. Qed.

(** position [i] of the result is the execution of action [i], whatever the
    other actions do *)
Corollary run_actions_concurrent_nth sem rid bs acts i :
  nth_error (fst (run_actions sem false rid bs acts)) i =
  option_map (exec_action sem rid bs) (nth_error acts i).
Proof. rewrite run_actions_concurrent. cbn [fst]. apply nth_error_map. Qed.

Lemma nth_error_app_middle_other {A} (pre post : list A) (a a' : A) i :
  i <> length pre ->
  nth_error (pre ++ a :: post) i = nth_error (pre ++ a' :: post) i.
Proof.
  intros Hne. destruct (Nat.lt_ge_cases i (length pre)) as [Hlt|Hge].
  - rewrite !nth_error_app1 by exact Hlt. reflexivity.
  - rewrite !nth_error_app2 by exact Hge.
    destruct (i - length pre)%nat as [|n] eqn:En; [lia|]. reflexivity.
Qed.

(** Replacing one action by another (e.g. a succeeding one by a failing one)
    changes only that position of the executions: nothing is prevented,
    duplicated or altered. *)
Theorem failure_is_local sem rid bs pre a a' post :
  let xs := fst (run_actions sem false rid bs (pre ++ a :: post)) in
  let xs' := fst (run_actions sem false rid bs (pre ++ a' :: post)) in
  length xs = length xs' /\
  nth_error xs (length pre) = Some (exec_action sem rid bs a) /\
  nth_error xs' (length pre) = Some (exec_action sem rid bs a') /\
  (forall i, i <> length pre -> nth_error xs i = nth_error xs' i) /\
  snd (run_actions sem false rid bs (pre ++ a :: post)) = false /\
  snd (run_actions sem false rid bs (pre ++ a' :: post)) = false.
Proof.
  cbv zeta. rewrite !run_actions_concurrent. cbn [fst snd].
  rewrite !map_app. cbn [map].
  split; [rewrite !app_length; reflexivity|].
  split; [rewrite nth_error_app2, map_length, Nat.sub_diag by (rewrite map_length; lia); reflexivity|].
  split; [rewrite nth_error_app2, map_length, Nat.sub_diag by (rewrite map_length; lia); reflexivity|].
  split; [|split; reflexivity].
  intros i Hne. apply nth_error_app_middle_other. rewrite map_length. exact Hne.
Qed.

(** * 2. Serial actions: up to and including the first failure *)

Theorem run_actions_serial sem rid bs acts :
  run_actions sem true rid bs acts =
  (map (exec_action sem rid bs) (serial_run (action_ok sem rid bs) acts),
   negb (forallb (action_ok sem rid bs) acts)).
Proof.
  unfold serial_run.
  induction acts as [|a r IH]; cbn [run_actions ok_prefix after_ok_prefix forallb].
  - reflexivity.
  - unfold action_ok at 1 3 5. unfold res_ok.
    destruct (x_res (exec_action sem rid bs a)) as [v|x|w|] eqn:E; cbn [andb negb].
    + rewrite IH. reflexivity.
    + reflexivity.
    + reflexivity.
    + reflexivity.
Qed.

Lemma ok_prefix_split ok acts : acts = (ok_prefix ok acts ++ after_ok_prefix ok acts)%list.
Proof.
  induction acts as [|a r IH]; cbn [ok_prefix after_ok_prefix].
  - reflexivity.
  - destruct (ok a) eqn:E; cbn [app].
    + rewrite <- IH. reflexivity.
    + reflexivity.
Qed.

Lemma ok_prefix_all_ok ok acts : forallb ok (ok_prefix ok acts) = true.
Proof.
  induction acts as [|a r IH]; cbn [ok_prefix].
  - reflexivity.
  - destruct (ok a) eqn:E; cbn [forallb]; [rewrite E; exact IH|reflexivity].
Qed.

(** the remainder is empty (everything succeeded) or starts with a failure *)
Lemma after_ok_prefix_head ok acts :
  match after_ok_prefix ok acts with
  | [] => forallb ok acts = true
  | a :: _ => ok a = false /\ forallb ok acts = false
  end.
Proof.
  induction acts as [|a r IH]; cbn [after_ok_prefix forallb].
  - reflexivity.
  - destruct (ok a) eqn:E; cbn [andb].
    + exact IH.
    + split; [exact E|reflexivity].
Qed.

Lemma ok_prefix_app_fail ok pre a post :
  forallb ok pre = true -> ok a = false ->
  ok_prefix ok (pre ++ a :: post) = pre /\ after_ok_prefix ok (pre ++ a :: post) = a :: post.
Proof.
  intros Hpre Ha. induction pre as [|p r IH]; cbn [app ok_prefix after_ok_prefix].
  - rewrite Ha. split; reflexivity.
  - cbn [forallb] in Hpre. apply andb_prop in Hpre. destruct Hpre as [Hp Hr].
    rewrite Hp. destruct (IH Hr) as [H1 H2]. rewrite H1, H2. split; reflexivity.
Qed.

Lemma ok_prefix_all ok acts :
  forallb ok acts = true -> ok_prefix ok acts = acts /\ after_ok_prefix ok acts = [].
Proof.
  intros H. induction acts as [|a r IH]; cbn [ok_prefix after_ok_prefix].
  - split; reflexivity.
  - cbn [forallb] in H. apply andb_prop in H. destruct H as [Ha Hr].
    rewrite Ha. destruct (IH Hr) as [H1 H2]. rewrite H1, H2. split; reflexivity.
Qed.

(** [serial_run] is the longest all-Ok prefix plus the first failing action *)
Theorem serial_run_spec ok acts :
  (forallb ok acts = true /\ serial_run ok acts = acts) \/
  (exists pre a post, acts = (pre ++ a :: post)%list /\ forallb ok pre = true /\ ok a = false /\
                      serial_run ok acts = (pre ++ [a])%list).
Proof.
  unfold serial_run. pose proof (after_ok_prefix_head ok acts) as Hh.
  pose proof (ok_prefix_split ok acts) as Hs.
  destruct (after_ok_prefix ok acts) as [|a post] eqn:E.
  - left. split; [exact Hh|]. cbn [firstn]. rewrite app_nil_r in *. symmetry. exact Hs.
  - right. exists (ok_prefix ok acts), a, post. destruct Hh as [Ha _].
    split; [exact Hs|]. split; [apply ok_prefix_all_ok|]. split; [exact Ha|reflexivity].
Qed.

(** A serial rule runs the actions before the first failure and that failing
    one, then stops; the remaining actions are not run. *)
Theorem serial_stops_at_first_failure sem rid bs pre a post :
  forallb (action_ok sem rid bs) pre = true ->
  action_ok sem rid bs a = false ->
  run_actions sem true rid bs (pre ++ a :: post) =
  (map (exec_action sem rid bs) (pre ++ [a]), true).
Proof.
  intros Hpre Ha. rewrite run_actions_serial. unfold serial_run.
  destruct (ok_prefix_app_fail _ pre a post Hpre Ha) as [H1 H2]. rewrite H1, H2.
  cbn [firstn]. f_equal.
  rewrite forallb_app. cbn [forallb]. rewrite Ha, Hpre. reflexivity.
Qed.

(** ... and when no action fails it runs all of them, like a concurrent rule. *)
Theorem serial_all_ok sem rid bs acts :
  forallb (action_ok sem rid bs) acts = true ->
  run_actions sem true rid bs acts = (map (exec_action sem rid bs) acts, false).
Proof.
  intros H. rewrite run_actions_serial. unfold serial_run.
  destruct (ok_prefix_all _ acts H) as [H1 H2]. rewrite H1, H2, H.
  cbn [firstn negb]. rewrite app_nil_r. reflexivity.
Qed.

(** stopped iff some action fails *)
Corollary run_actions_serial_stopped sem rid bs acts :
  snd (run_actions sem true rid bs acts) = true <->
  exists a, In a acts /\ action_ok sem rid bs a = false.
Proof.
  rewrite run_actions_serial. cbn [snd]. split.
  - intros H. apply Bool.negb_true_iff in H.
    destruct (existsb (fun a => negb (action_ok sem rid bs a)) acts) eqn:Ex.
    + apply existsb_exists in Ex. destruct Ex as [a [Hin Hn]]. exists a.
      split; [exact Hin|]. apply Bool.negb_true_iff. exact Hn.
    + exfalso. assert (Hall : forallb (action_ok sem rid bs) acts = true).
      { apply forallb_forall. intros a Hin.
        destruct (action_ok sem rid bs a) eqn:Ea; [reflexivity|].
        assert (Hex : existsb (fun a => negb (action_ok sem rid bs a)) acts = true).
        { apply existsb_exists. exists a. split; [exact Hin|]. rewrite Ea. reflexivity. }
        rewrite Hex in Ex. discriminate. }
      rewrite Hall in H. discriminate.
  - intros [a [Hin Ha]]. apply Bool.negb_true_iff.
    destruct (forallb (action_ok sem rid bs) acts) eqn:F; [|reflexivity].
    rewrite forallb_forall in F. rewrite (F a Hin) in Ha. discriminate.
Qed.

(** a concurrent rule never stops *)
Corollary run_actions_concurrent_never_stops sem rid bs acts :
  snd (run_actions sem false rid bs acts) = false.
Proof. rewrite run_actions_concurrent. reflexivity. Qed.

(** * 3. For each condition result, for each action *)

Theorem run_results_concurrent sem rid results acts :
  run_results sem false rid results acts =
  (flat_map (fun bs => map (exec_action sem rid bs) acts) results, false).
Proof.
  induction results as [|bs r IH]; cbn [run_results flat_map].
  - reflexivity.
  - rewrite run_actions_concurrent, IH. reflexivity.
Qed.

(** * 7. Values: exactly the results of the successful executions, in order *)

Lemma values_of_app xs ys : values_of (xs ++ ys) = (values_of xs ++ values_of ys)%list.
Proof. unfold values_of. apply flat_map_app. Qed.

Lemma values_of_cons_ok x v xs : x_res x = Ok v -> values_of (x :: xs) = v :: values_of xs.
Proof. intros H. unfold values_of. cbn [flat_map]. rewrite H. reflexivity. Qed.

(** a failing execution contributes nothing, and removes nothing *)
Lemma values_of_cons_fail x xs : res_ok x = false -> values_of (x :: xs) = values_of xs.
Proof.
  unfold res_ok, values_of. cbn [flat_map]. intros H.
  destruct (x_res x) as [v|s|w|]; [discriminate| | |]; reflexivity.
Qed.

Theorem values_report_ok_results xs :
  map (@Ok json) (values_of xs) = map x_res (filter res_ok xs) /\
  length (values_of xs) = length (filter res_ok xs) /\
  (forall v, In v (values_of xs) <-> exists x, In x xs /\ x_res x = Ok v).
Proof.
  split; [|split].
  - induction xs as [|x r IH]; [reflexivity|].
    cbn [filter]. destruct (res_ok x) eqn:E.
    + unfold res_ok in E. destruct (x_res x) as [v|s|w|] eqn:Ex; try discriminate.
      rewrite (values_of_cons_ok x v r Ex). cbn [map]. rewrite IH, Ex. reflexivity.
    + rewrite (values_of_cons_fail x r E). exact IH.
  - induction xs as [|x r IH]; [reflexivity|].
    cbn [filter]. destruct (res_ok x) eqn:E.
    + unfold res_ok in E. destruct (x_res x) as [v|s|w|] eqn:Ex; try discriminate.
      rewrite (values_of_cons_ok x v r Ex). cbn [length]. rewrite IH. reflexivity.
    + rewrite (values_of_cons_fail x r E). exact IH.
  - intros v. unfold values_of. rewrite in_flat_map. split.
    + intros [x [Hin Hv]]. exists x. split; [exact Hin|].
      destruct (x_res x) as [v'|s|w|]; cbn [In] in Hv; try contradiction.
      destruct Hv as [->|[]]. reflexivity.
    + intros [x [Hin Hv]]. exists x. split; [exact Hin|]. rewrite Hv. left. reflexivity.
Qed.

(** in a middle position: the other values are untouched *)
Corollary values_failure_is_local pre x post :
  res_ok x = false -> values_of (pre ++ x :: post) = values_of (pre ++ post).
Proof.
  intros H. rewrite !values_of_app, (values_of_cons_fail x post H). reflexivity.
Qed.

(** * 4. The bindings every condition and action sees *)

Definition inj_add (k : string) (v : json) (b : bindings) : bindings :=
  match alookup k b with Some _ => b | None => ainsert k v b end.

Lemma inject_unfold bs ev loc rid :
  inject bs ev loc rid =
  inj_add "?ruleId" (JStr rid) (inj_add "?location" (JStr loc) (inj_add "?event" ev bs)).
Proof. reflexivity. Qed.

Lemma alookup_inj_add k v b j :
  alookup j (inj_add k v b) =
  match alookup j b with
  | Some x => Some x
  | None => if String.eqb j k then Some v else None
  end.
Proof.
  unfold inj_add. destruct (alookup k b) as [x|] eqn:Ek.
  - destruct (alookup j b) as [y|] eqn:Ej; [reflexivity|].
    destruct (String.eqb_spec j k) as [->|Hne]; [|reflexivity].
    rewrite Ek in Ej. discriminate.
  - rewrite alookup_ainsert. destruct (String.eqb_spec j k) as [->|Hne].
    + rewrite Ek. reflexivity.
    + destruct (alookup j b); reflexivity.
Qed.

Lemma sorted_inj_add k v b :
  sorted_keys (map fst b) = true -> sorted_keys (map fst (inj_add k v b)) = true.
Proof.
  intros Hs. unfold inj_add. destruct (alookup k b); [exact Hs|]. apply sorted_ainsert. exact Hs.
Qed.

(** The bindings of the match / condition are kept as they are (a variable
    of the rule named ?event, ?location or ?ruleId is not overwritten); the
    three context bindings are added; nothing else.  (The lookup clause holds
    for any [bs]; sortedness is only needed for the result to be sorted.) *)
Theorem inject_lookup bs ev loc rid k :
  alookup k (inject bs ev loc rid) =
  match alookup k bs with
  | Some v => Some v
  | None =>
      if String.eqb k "?event" then Some ev
      else if String.eqb k "?location" then Some (JStr loc)
      else if String.eqb k "?ruleId" then Some (JStr rid)
      else None
  end.
Proof.
  rewrite inject_unfold, !alookup_inj_add.
  destruct (alookup k bs) as [v|]; [reflexivity|].
  destruct (String.eqb k "?event"); [reflexivity|].
  destruct (String.eqb k "?location"); reflexivity.
Qed.

Theorem inject_sorted bs ev loc rid :
  sorted_keys (map fst bs) = true -> sorted_keys (map fst (inject bs ev loc rid)) = true.
Proof.
  intros Hs. rewrite inject_unfold. repeat apply sorted_inj_add. exact Hs.
Qed.

Theorem inject_spec bs ev loc rid :
  sorted_keys (map fst bs) = true ->
  sorted_keys (map fst (inject bs ev loc rid)) = true /\
  forall k,
    alookup k (inject bs ev loc rid) =
    match alookup k bs with
    | Some v => Some v
    | None =>
        if String.eqb k "?event" then Some ev
        else if String.eqb k "?location" then Some (JStr loc)
        else if String.eqb k "?ruleId" then Some (JStr rid)
        else None
    end.
Proof.
  intros Hs. split; [apply inject_sorted; exact Hs|]. intros k. apply inject_lookup.
Qed.

(** the keys of the injected bindings: those of [bs] and the three names *)
Corollary inject_keys bs ev loc rid k :
  In k (map fst (inject bs ev loc rid)) <->
  In k (map fst bs) \/ k = "?event" \/ k = "?location" \/ k = "?ruleId".
Proof.
  split.
  - intros Hin.
    destruct (alookup k (inject bs ev loc rid)) as [v|] eqn:E.
    + rewrite inject_lookup in E. destruct (alookup k bs) as [w|] eqn:Eb.
      * left. eapply alookup_In_keys. exact Eb.
      * right. destruct (String.eqb_spec k "?event") as [->|_]; [left; reflexivity|].
        destruct (String.eqb_spec k "?location") as [->|_]; [right; left; reflexivity|].
        destruct (String.eqb_spec k "?ruleId") as [->|_]; [right; right; reflexivity|discriminate].
    + exfalso. exact (alookup_None_keys _ _ E Hin).
  - intros H.
    destruct (alookup k (inject bs ev loc rid)) as [v|] eqn:E; [eapply alookup_In_keys; exact E|].
    exfalso. rewrite inject_lookup in E. destruct (alookup k bs) as [w|] eqn:Eb; [discriminate|].
    destruct H as [H|[Hk|[Hk|Hk]]]; [exact (alookup_None_keys _ _ Eb H)| | |]; subst k; cbn in E; discriminate.
Qed.

(** * 8. FindRules with bodies agrees with Location.find_children *)

Lemma find_children_full_agrees_acc rules : forall l ev now acc,
  fst (find_children_full l rules ev now false acc) =
  fst (find_children l rules ev now (map forget_body acc)) /\
  omap (map forget_body) (snd (find_children_full l rules ev now false acc)) =
  snd (find_children l rules ev now (map forget_body acc)).
Proof.
  induction rules as [|[id body] r IH]; intros l ev now acc; cbn [find_children_full find_children].
  - cbn [fst snd omap obind]. split; [reflexivity|]. rewrite map_rev. reflexivity.
  - destruct (rule_enabled l id now) as [l1 en] eqn:Een.
    destruct en; cbn [negb].
    + destruct (when_pattern body) as [p|] eqn:Ew.
      * destruct (core_match p ev []) as [[|b bs]|x|w|] eqn:Em.
        -- apply IH.
        -- exact (IH l1 ev now ((id, body, b :: bs) :: acc)).
        -- split; reflexivity.
        -- split; reflexivity.
        -- split; reflexivity.
      * exact (IH l1 ev now ((id, body, [[]]) :: acc)).
    + apply IH.
Qed.

Theorem find_children_full_agrees l rules ev now :
  fst (find_children_full l rules ev now false []) = fst (find_children l rules ev now []) /\
  omap (map forget_body) (snd (find_children_full l rules ev now false [])) =
  snd (find_children l rules ev now []).
Proof. exact (find_children_full_agrees_acc rules l ev now []). Qed.

(** * 9. RuleDone: one-shot schedules remove the rule *)

Lemma one_shot_iff s :
  one_shot s = true <-> exists r, s = String "+" r \/ s = String "!" r.
Proof.
  split.
  - destruct s as [|ch r]; cbn [one_shot]; [discriminate|]. intros H.
    exists r. apply Bool.orb_true_iff in H. destruct H as [H|H]; apply Nat.eqb_eq in H.
    + left. f_equal. rewrite <- (ascii_nat_embedding ch), H. reflexivity.
    + right. f_equal. rewrite <- (ascii_nat_embedding ch), H. reflexivity.
  - intros [r [Hs|Hs]]; subst s; reflexivity.
Qed.

Theorem oneshot_removed_after_run name c e sy rid body :
  one_shot (rule_schedule body) = true ->
  rule_done name c e sy rid body =
  match sys_get sy name with
  | None => (sy, Some (Err E_noloc))
  | Some l => (sys_set sy name (fst (loc_rem_rule l c e rid)), done_disp (snd (loc_rem_rule l c e rid)))
  end.
Proof.
  intros H. unfold rule_done, with_loc_e. rewrite H.
  destruct (sys_get sy name) as [l|]; [|reflexivity].
  destruct (loc_rem_rule l c e rid) as [l' [b|x|w|]]; reflexivity.
Qed.

(** ... and touches no other location *)
Theorem rule_done_other_locations name c e sy rid body n :
  n <> name -> sys_get (fst (rule_done name c e sy rid body)) n = sys_get sy n.
Proof.
  intros Hne. unfold rule_done, with_loc_e.
  destruct (one_shot (rule_schedule body)); [|reflexivity].
  destruct (sys_get sy name) as [l|]; [|reflexivity].
  destruct (loc_rem_rule l c e rid) as [l' [b|x|w|]]; cbn [fst];
    unfold sys_get, sys_set; apply alookup_ainsert_other; exact Hne.
Qed.

Theorem rule_done_not_oneshot name c e sy rid body :
  one_shot (rule_schedule body) = false -> rule_done name c e sy rid body = (sy, None).
Proof. intros H. unfold rule_done. rewrite H. reflexivity. Qed.

(** * List lemmas *)

Lemma flat_map_ext_In {A B} (f g : A -> list B) (l : list A) :
  (forall a, In a l -> f a = g a) -> flat_map f l = flat_map g l.
Proof.
  induction l as [|a r IH]; intros H; cbn [flat_map].
  - reflexivity.
  - rewrite (H a (or_introl eq_refl)), IH; [reflexivity|].
    intros b Hb. apply H. right. exact Hb.
Qed.

Lemma map_flat_map' {A B C} (h : B -> C) (f : A -> list B) (l : list A) :
  map h (flat_map f l) = flat_map (fun a => map h (f a)) l.
Proof.
  induction l as [|a r IH]; cbn [flat_map]; [reflexivity|].
  rewrite map_app, IH. reflexivity.
Qed.

(** * 5. Conditions and actions of one rule *)

(** EvalRuleCondition.Do for one when-binding, as [walk_conditions] runs it *)
Definition cond_exec (sem : string -> option code) (name : string) (c : ctx) (e : env) (event : json)
           (sy : system) (rid : string) (body : json) (bs : bindings) : system * outcome (list bindings) :=
  let bs' := inject bs event name rid in
  match jget "condition" body with
  | None | Some JNull => (sy, Ok [bs'])
  | Some q =>
      match parse_query sem (parse_fuel q) q with
      | Ok pq => exec system (sys_search_locs name c e) sem pq sy [bs']
      | Err x => (sy, Err x)
      | Panic w => (sy, Panic w)
      | OutOfFuel => (sy, OutOfFuel)
      end
  end.

Lemma walk_conditions_cons sem name c e event sy rid body bs r :
  walk_conditions sem name c e event sy rid body (bs :: r) =
  let '(sy1, qres) := cond_exec sem name c e event sy rid body bs in
  match qres with
  | Ok results =>
      let '(xs, stopped) := run_results sem (rule_serial body) rid results (rule_actions body) in
      if stopped then (sy1, xs, Some (Err (if (1 <? length results)%nat then "action failed*" else "action failed")))
      else let '(sy2, ys, st) := walk_conditions sem name c e event sy1 rid body r in (sy2, (xs ++ ys)%list, st)
  | Err x => (sy1, [], Some (Err "condition failed"))
  | Panic w => (sy1, [], Some (Panic w))
  | OutOfFuel => (sy1, [], Some OutOfFuel)
  end.
Proof. reflexivity. Qed.

(** the evaluator on one incoming binding, over a pure search *)
Lemma exec_single_pure sem name c e sy fuel q pq b out :
  search_pure name c e sy ->
  parse_query sem fuel q = Ok pq ->
  den (fun locs p => snd (sys_search_locs name c e sy locs p)) sem pq b = Ok out ->
  exec system (sys_search_locs name c e) sem pq sy [b] = (sy, Ok out).
Proof.
  intros Hpure Hp Hd.
  apply (proj1 (exec_correct_parsed system (sys_search_locs name c e) sem sy Hpure fuel q pq [b] Hp)).
  rewrite den_all_single. exact Hd.
Qed.

Lemma exec_single_pure_fail sem name c e sy fuel q pq b :
  search_pure name c e sy ->
  parse_query sem fuel q = Ok pq ->
  (forall out, den (fun locs p => snd (sys_search_locs name c e sy locs p)) sem pq b <> Ok out) ->
  exists r, exec system (sys_search_locs name c e) sem pq sy [b] = (sy, r) /\ forall out, r <> Ok out.
Proof.
  intros Hpure Hp Hd.
  apply (proj2 (exec_correct_parsed system (sys_search_locs name c e) sem sy Hpure fuel q pq [b] Hp)).
  intros out. rewrite den_all_single. apply Hd.
Qed.

(** the condition as run is the condition as specified *)
Theorem cond_exec_exact sem name c e event sy rid body bw results :
  search_pure name c e sy ->
  cond_den sem name c e event sy rid body bw = Ok results ->
  cond_exec sem name c e event sy rid body bw = (sy, Ok results).
Proof.
  intros Hpure. unfold cond_den, cond_exec. cbv zeta.
  destruct (jget "condition" body) as [q|] eqn:Ec.
  - destruct (match q with JNull => true | _ => false end) eqn:Enull.
    + destruct q; try discriminate. intros H. injection H as <-. reflexivity.
    + assert (Hgen :
        match parse_query sem (parse_fuel q) q with
        | Ok pq => den (fun locs p => snd (sys_search_locs name c e sy locs p)) sem pq
                       (inject bw event name rid)
        | Err x => Err x | Panic w => Panic w | OutOfFuel => OutOfFuel
        end = Ok results ->
        match parse_query sem (parse_fuel q) q with
        | Ok pq => exec system (sys_search_locs name c e) sem pq sy [inject bw event name rid]
        | Err x => (sy, Err x) | Panic w => (sy, Panic w) | OutOfFuel => (sy, OutOfFuel)
        end = (sy, Ok results)).
      { destruct (parse_query sem (parse_fuel q) q) as [pq|x|w|] eqn:Ep; try discriminate.
        intros Hd. eapply exec_single_pure; eassumption. }
      destruct q; try discriminate; exact Hgen.
  - intros H. injection H as <-. reflexivity.
Qed.

(** ... and a condition that fails as specified fails as run, with the
    system unchanged *)
Theorem cond_exec_fail sem name c e event sy rid body bw :
  search_pure name c e sy ->
  (forall results, cond_den sem name c e event sy rid body bw <> Ok results) ->
  exists r, cond_exec sem name c e event sy rid body bw = (sy, r) /\ forall results, r <> Ok results.
Proof.
  intros Hpure. unfold cond_den, cond_exec. cbv zeta.
  destruct (jget "condition" body) as [q|] eqn:Ec.
  - destruct (match q with JNull => true | _ => false end) eqn:Enull.
    + destruct q; try discriminate. intros H. exfalso. exact (H _ eq_refl).
    + assert (Hgen :
        (forall results,
        match parse_query sem (parse_fuel q) q with
        | Ok pq => den (fun locs p => snd (sys_search_locs name c e sy locs p)) sem pq
                       (inject bw event name rid)
        | Err x => Err x | Panic w => Panic w | OutOfFuel => OutOfFuel
        end <> Ok results) ->
        exists r,
        match parse_query sem (parse_fuel q) q with
        | Ok pq => exec system (sys_search_locs name c e) sem pq sy [inject bw event name rid]
        | Err x => (sy, Err x) | Panic w => (sy, Panic w) | OutOfFuel => (sy, OutOfFuel)
        end = (sy, r) /\ forall results, r <> Ok results).
      { destruct (parse_query sem (parse_fuel q) q) as [pq|x|w|] eqn:Ep.
        - intros Hd. eapply exec_single_pure_fail; eassumption.
        - intros _. exists (Err x). split; [reflexivity|discriminate].
        - intros _. exists (Panic w). split; [reflexivity|discriminate].
        - intros _. exists OutOfFuel. split; [reflexivity|discriminate]. }
      destruct q; try discriminate; exact Hgen.
  - intros H. exfalso. exact (H _ eq_refl).
Qed.

Theorem walk_conditions_exact sem name c e event sy rid body bss :
  search_pure name c e sy ->
  rule_serial body = false ->
  conds_evaluate sem name c e event sy rid body bss ->
  walk_conditions sem name c e event sy rid body bss =
  (sy,
   flat_map (fun bw =>
               flat_map (fun bc => map (exec_action sem rid bc) (rule_actions body))
                        (cond_results sem name c e event sy rid body bw)) bss,
   None).
Proof.
  intros Hpure Hser. induction bss as [|bw r IH]; intros Hev.
  - reflexivity.
  - rewrite walk_conditions_cons.
    destruct (Hev bw (or_introl eq_refl)) as [results Hres].
    rewrite (cond_exec_exact _ _ _ _ _ _ _ _ _ _ Hpure Hres).
    rewrite Hser, run_results_concurrent.
    rewrite IH by (intros b Hb; apply Hev; right; exact Hb).
    cbn [flat_map]. unfold cond_results at 2. rewrite Hres. reflexivity.
Qed.

(** the statement with the results named, as in the property text *)
Corollary walk_conditions_exact_results sem name c e event sy rid body bss
          (results_of : bindings -> list bindings) :
  search_pure name c e sy ->
  rule_serial body = false ->
  (forall bw, In bw bss -> cond_den sem name c e event sy rid body bw = Ok (results_of bw)) ->
  walk_conditions sem name c e event sy rid body bss =
  (sy,
   flat_map (fun bw =>
               flat_map (fun bc => map (exec_action sem rid bc) (rule_actions body)) (results_of bw)) bss,
   None).
Proof.
  intros Hpure Hser Hres.
  rewrite walk_conditions_exact; [|exact Hpure|exact Hser|].
  - f_equal. f_equal. apply flat_map_ext_In.
    intros bw Hin. unfold cond_results. rewrite (Hres bw Hin). reflexivity.
  - intros bw Hin. exists (results_of bw). apply Hres. exact Hin.
Qed.

(** a failing condition stops the rule at that when-binding: the executions
    of the earlier when-bindings are reported, nothing later runs *)
Theorem walk_conditions_condition_fails sem name c e event sy rid body pre bw post :
  search_pure name c e sy ->
  rule_serial body = false ->
  conds_evaluate sem name c e event sy rid body pre ->
  (forall results, cond_den sem name c e event sy rid body bw <> Ok results) ->
  exists d,
    walk_conditions sem name c e event sy rid body (pre ++ bw :: post) =
    (sy,
     flat_map (fun bw =>
                 flat_map (fun bc => map (exec_action sem rid bc) (rule_actions body))
                          (cond_results sem name c e event sy rid body bw)) pre,
     Some d) /\ d <> Ok tt.
Proof.
  intros Hpure Hser. induction pre as [|b r IH]; intros Hev Hfail.
  - cbn [app]. rewrite walk_conditions_cons.
    destruct (cond_exec_fail _ _ _ _ _ _ _ _ _ Hpure Hfail) as [res [Hres Hnok]].
    rewrite Hres. destruct res as [out|x|w|].
    + exfalso. exact (Hnok out eq_refl).
    + exists (Err "condition failed"). split; [reflexivity|discriminate].
    + exists (Panic w). split; [reflexivity|discriminate].
    + exists OutOfFuel. split; [reflexivity|discriminate].
  - cbn [app]. rewrite walk_conditions_cons.
    destruct (Hev b (or_introl eq_refl)) as [results Hres].
    rewrite (cond_exec_exact _ _ _ _ _ _ _ _ _ _ Hpure Hres).
    rewrite Hser, run_results_concurrent.
    destruct IH as [d [Hd Hne]]; [intros b' Hb'; apply Hev; right; exact Hb'|exact Hfail|].
    rewrite Hd. exists d. split; [|exact Hne].
    cbn [flat_map]. unfold cond_results at 2. rewrite Hres. reflexivity.
Qed.

(** * 6. The whole walk: the fan-out is exact *)

Lemma walk_rules_cons sem name c e event sy rid body bss r :
  walk_rules sem name c e event sy ((rid, body, bss) :: r) =
  match walk_conditions sem name c e event sy rid body bss with
  | (sy1, xs, Some d) => (sy1, xs, Some d)
  | (sy1, xs, None) =>
      match rule_done name c e sy1 rid body with
      | (sy2, Some d) => (sy2, xs, Some d)
      | (sy2, None) =>
          let '(sy3, ys, st) := walk_rules sem name c e event sy2 r in (sy3, (xs ++ ys)%list, st)
      end
  end.
Proof. reflexivity. Qed.

Theorem walk_rules_exact sem name c e event sy children :
  search_pure name c e sy ->
  Forall (clean_child sem name c e event sy) children ->
  walk_rules sem name c e event sy children =
  (sy, spec_recs sem (cond_results sem name c e event sy) children, None).
Proof.
  intros Hpure Hall. induction Hall as [|[[rid body] bss] r Hch Hr IH].
  - reflexivity.
  - destruct Hch as [Hser [Hone Hev]].
    rewrite walk_rules_cons.
    rewrite (walk_conditions_exact _ _ _ _ _ _ _ _ _ Hpure Hser Hev).
    rewrite (rule_done_not_oneshot _ _ _ _ _ _ Hone), IH. reflexivity.
Qed.

(** the executions, as (rule, script, bindings), are exactly the specified ones *)
Theorem spec_recs_keys sem cond children :
  map exec_key (spec_recs sem cond children) = spec_execs cond children.
Proof.
  unfold spec_recs, spec_execs. rewrite map_flat_map'.
  apply flat_map_ext_In. intros [[rid body] bss] _.
  rewrite map_flat_map'. apply flat_map_ext_In. intros bw _.
  rewrite map_flat_map'. apply flat_map_ext_In. intros bc _.
  rewrite map_map. reflexivity.
Qed.

(** where each execution comes from: one rule, one when-binding, one
    condition result, one action *)
Theorem spec_recs_In sem cond children x :
  In x (spec_recs sem cond children) <->
  exists rid body bss bw bc a,
    In (rid, body, bss) children /\ In bw bss /\ In bc (cond rid body bw) /\
    In a (rule_actions body) /\ x = exec_action sem rid bc a.
Proof.
  unfold spec_recs. rewrite in_flat_map. split.
  - intros [[[rid body] bss] [Hch Hx]].
    apply in_flat_map in Hx. destruct Hx as [bw [Hbw Hx]].
    apply in_flat_map in Hx. destruct Hx as [bc [Hbc Hx]].
    apply in_map_iff in Hx. destruct Hx as [a [Hx Ha]].
    exists rid, body, bss, bw, bc, a. repeat split; try assumption. symmetry. exact Hx.
  - intros [rid [body [bss [bw [bc [a [Hch [Hbw [Hbc [Ha Hx]]]]]]]]]].
    exists (rid, body, bss). split; [exact Hch|].
    apply in_flat_map. exists bw. split; [exact Hbw|].
    apply in_flat_map. exists bc. split; [exact Hbc|].
    apply in_map_iff. exists a. split; [symmetry; exact Hx|exact Ha].
Qed.

(** an action gets exactly its bindings, and (javascript endpoints) its
    result is its script run on exactly those bindings *)
Lemma exec_action_fields sem rid bs a :
  x_rule (exec_action sem rid bs a) = rid /\
  x_code (exec_action sem rid bs a) = action_code a /\
  x_bs (exec_action sem rid bs a) = bs.
Proof. repeat split. Qed.

Lemma exec_action_js sem rid bs a :
  js_action a = true ->
  exec_action sem rid bs a = rec_of sem (rid, action_code a, bs).
Proof.
  unfold js_action, exec_action, rec_of, script_result. cbv zeta. intros H. rewrite H. reflexivity.
Qed.

Lemma exec_action_not_js sem rid bs a :
  js_action a = false ->
  x_res (exec_action sem rid bs a) = Err "endpoint not modelled".
Proof.
  unfold js_action, exec_action. cbv zeta. intros H. cbn [x_res]. rewrite H. reflexivity.
Qed.

(** all actions of all dispatched rules use the in-process javascript endpoint *)
Definition js_children (children : list (string * json * list bindings)) : Prop :=
  forall rid body bss a, In (rid, body, bss) children -> In a (rule_actions body) -> js_action a = true.

Theorem spec_recs_results sem cond children :
  js_children children ->
  forall x, In x (spec_recs sem cond children) ->
            x_res x = script_result sem (x_code x) (x_bs x).
Proof.
  intros Hjs x Hx. apply spec_recs_In in Hx.
  destruct Hx as [rid [body [bss [bw [bc [a [Hch [_ [_ [Ha Hx]]]]]]]]]]. subst x.
  rewrite (exec_action_js sem rid bc a (Hjs _ _ _ _ Hch Ha)). reflexivity.
Qed.

(** the records are those the judge [CorrLoc.spec_process] builds *)
Theorem spec_recs_judge sem cond children :
  js_children children ->
  spec_recs sem cond children = map (rec_of sem) (spec_execs cond children).
Proof.
  intros Hjs. unfold spec_recs, spec_execs. rewrite map_flat_map'.
  apply flat_map_ext_In. intros [[rid body] bss] Hch.
  rewrite map_flat_map'. apply flat_map_ext_In. intros bw _.
  rewrite map_flat_map'. apply flat_map_ext_In. intros bc _.
  rewrite map_map. apply map_ext_in. intros a Ha.
  apply exec_action_js. exact (Hjs _ _ _ _ Hch Ha).
Qed.

(** The headline: for every dispatched rule, every when-binding, every
    condition result, every action exactly once, with exactly those
    bindings, and the reported result is the script's on those bindings. *)
Theorem fanout_exact sem name c e event sy children :
  search_pure name c e sy ->
  Forall (clean_child sem name c e event sy) children ->
  exists xs,
    walk_rules sem name c e event sy children = (sy, xs, None) /\
    map (fun x => (x_rule x, x_code x, x_bs x)) xs =
      spec_execs (cond_results sem name c e event sy) children /\
    (js_children children ->
     forall x, In x xs ->
       x_res x = match sem (x_code x) with
                 | Some cd => run_code cd (x_bs x)
                 | None => Err "unknown script"
                 end).
Proof.
  intros Hpure Hall. exists (spec_recs sem (cond_results sem name c e event sy) children).
  split; [apply walk_rules_exact; assumption|].
  split; [exact (spec_recs_keys sem _ children)|].
  intros Hjs x Hx. exact (spec_recs_results sem _ children Hjs x Hx).
Qed.

(** a rule whose condition yields nothing, or which has no action, runs
    nothing and does not disturb the others (instances of the equation) *)
Corollary spec_recs_app sem cond ch1 ch2 :
  spec_recs sem cond (ch1 ++ ch2) = (spec_recs sem cond ch1 ++ spec_recs sem cond ch2)%list.
Proof. unfold spec_recs. apply flat_map_app. Qed.

(** Location.ProcessEvent *)
Theorem process_event_exact sy name c e sem event l0 sy1 children :
  sys_get sy name = Some l0 ->
  find_rules_full sy name c e sem event = (sy1, Ok children) ->
  search_pure name c e sy1 ->
  Forall (clean_child sem name c e event sy1) children ->
  let xs := spec_recs sem (cond_results sem name c e event sy1) children in
  process_event sy name c e sem event = (sy1, mkWalk (Ok tt) xs (values_of xs) false).
Proof.
  intros Hget Hfind Hpure Hall. cbv zeta. unfold process_event.
  rewrite Hget, Hfind, (walk_rules_exact _ _ _ _ _ _ _ Hpure Hall). reflexivity.
Qed.

Corollary process_event_exact_fields sy name c e sem event l0 sy1 children :
  sys_get sy name = Some l0 ->
  find_rules_full sy name c e sem event = (sy1, Ok children) ->
  search_pure name c e sy1 ->
  Forall (clean_child sem name c e event sy1) children ->
  let w := snd (process_event sy name c e sem event) in
  fst (process_event sy name c e sem event) = sy1 /\
  w_disp w = Ok tt /\
  map exec_key (w_execs w) = spec_execs (cond_results sem name c e event sy1) children /\
  w_values w = values_of (w_execs w) /\
  w_amb w = false /\
  (js_children children ->
   w_execs w = map (rec_of sem) (spec_execs (cond_results sem name c e event sy1) children)).
Proof.
  intros Hget Hfind Hpure Hall. cbv zeta.
  rewrite (process_event_exact _ _ _ _ _ _ _ _ _ Hget Hfind Hpure Hall). cbn [fst snd w_disp w_execs w_values w_amb].
  split; [reflexivity|]. split; [reflexivity|].
  split; [apply spec_recs_keys|]. split; [reflexivity|]. split; [reflexivity|].
  intros Hjs. apply spec_recs_judge. exact Hjs.
Qed.

(** * The purity hypothesis, in terms of the inherited search *)

(** [search_pure] holds as soon as the inherited fact search of the event's
    location changes nothing (see LocProofs.inherited_search_exact_chain and
    inherited_search_exact_dag for systems in which nothing has expired). *)
Lemma search_pure_of_sys_search name c e sy :
  (forall p, fst (sys_search sy name c e p true) = sy) -> search_pure name c e sy.
Proof.
  intros H locs p. unfold sys_search_locs. cbv zeta.
  generalize (@nil bindings).
  generalize (match locs with [] => [name] | _ :: _ => locs end).
  intros ls. induction ls as [|l r IH]; intros acc.
  - reflexivity.
  - destruct (String.eqb l name) eqn:El.
    + specialize (H p).
      destruct (sys_search sy name c e p true) as [sy' res] eqn:Es. cbn [fst] in H. subst sy'.
      destruct res as [found|x|w|]; [apply IH|reflexivity|reflexivity|reflexivity].
    + reflexivity.
Qed.

(** * Serial rules (the exception the property makes) *)

(** no failing action: a serial rule behaves like a concurrent one *)
Theorem run_results_all_ok sem serial rid results acts :
  (forall bs, In bs results -> forallb (action_ok sem rid bs) acts = true) ->
  run_results sem serial rid results acts =
  (flat_map (fun bs => map (exec_action sem rid bs) acts) results, false).
Proof.
  destruct serial; [|intros _; apply run_results_concurrent].
  induction results as [|bs r IH]; intros H; cbn [run_results flat_map].
  - reflexivity.
  - rewrite (serial_all_ok sem rid bs acts (H bs (or_introl eq_refl))).
    rewrite IH by (intros b Hb; apply H; right; exact Hb). reflexivity.
Qed.

(** the first failing action of a serial rule stops everything after it:
    the remaining actions for this condition result and all later condition
    results are not run *)
Theorem run_results_serial_stops sem rid pre bs post acts_pre a acts_post :
  (forall b, In b pre -> forallb (action_ok sem rid b) (acts_pre ++ a :: acts_post) = true) ->
  forallb (action_ok sem rid bs) acts_pre = true ->
  action_ok sem rid bs a = false ->
  run_results sem true rid (pre ++ bs :: post) (acts_pre ++ a :: acts_post) =
  ((flat_map (fun b => map (exec_action sem rid b) (acts_pre ++ a :: acts_post)) pre ++
    map (exec_action sem rid bs) (acts_pre ++ [a]))%list, true).
Proof.
  intros Hpre Hok Hfail. induction pre as [|b r IH]; cbn [app run_results flat_map].
  - rewrite (serial_stops_at_first_failure sem rid bs acts_pre a acts_post Hok Hfail). reflexivity.
  - rewrite (serial_all_ok sem rid b _ (Hpre b (or_introl eq_refl))).
    rewrite IH by (intros b' Hb'; apply Hpre; right; exact Hb').
    rewrite app_assoc. reflexivity.
Qed.

(** The exception is real: with serialActions, a failing action prevents
    the later ones; without, it does not. *)
Lemma serial_failure_prevents_others_example :
  let sem := fun js : string =>
               if String.eqb js "boom" then Some CThrow else Some (CExpr (XConst (JNum 1))) in
  let acts := [JObj [("code", JStr "a")]; JObj [("code", JStr "boom")]; JObj [("code", JStr "b")]] in
  map x_code (fst (run_actions sem true "r" [] acts)) = ["a"; "boom"] /\
  snd (run_actions sem true "r" [] acts) = true /\
  map x_code (fst (run_actions sem false "r" [] acts)) = ["a"; "boom"; "b"] /\
  map x_res (fst (run_actions sem false "r" [] acts)) = [Ok (JNum 1); Err "throw"; Ok (JNum 1)] /\
  snd (run_actions sem false "r" [] acts) = false.
Proof. vm_compute. repeat split; reflexivity. Qed.
