(** Concrete instances of the C09/C10 theorems (the hypotheses are satisfiable). *)
From Verif Require Import Json Outcome Match PatIndex State Location SysOps.
From Verif Require Import AssocLemmas GateProofs LocSpec LocBasics LocRules LocWalk LocProofs.

Definition nothing_expired_b (l : loc) (now : Z) : bool :=
  forallb (fun kv => negb (fact_expired (snd kv) now)) (st_facts (l_state l)) &&
  match st_pending (l_state l) with [] => true | _ => false end.

Lemma nothing_expired_dec l now : nothing_expired_b l now = true -> nothing_expired l now.
Proof.
  intros H. unfold nothing_expired_b in H. apply andb_true_iff in H. destruct H as [H Hp].
  split.
  - intros id fact Hl. rewrite forallb_forall in H.
    apply alookup_In in Hl. specialize (H _ Hl). cbn [snd] in H.
    destruct (fact_expired fact now); [discriminate|reflexivity].
  - destruct (st_pending (l_state l)); [reflexivity|discriminate].
Qed.

Definition ex_loc (k : skind) : loc := mkLoc (empty_state k false) false 100.
Definition ex_ctx : ctx := mkCtx "" "".
Definition ex_env (now : Z) : env := mkEnv now "fresh" None.
Definition ex_run (sy : system) (ops : list (string * lop)) : system :=
  sys_run sy (map (fun o => mkReq (fst o) ex_ctx (ex_env 1) (snd o)) ops).

Definition ex_sy0 : system :=
  sys_set (sys_set (sys_set (sys_set [] "A" (ex_loc Indexed)) "B" (ex_loc Linear)) "C" (ex_loc Indexed))
          "D" (ex_loc Indexed).

Definition ex_fact : json := JObj [("x", JStr "1")].
Definition ex_pat : json := JObj [("x", JStr "?v")].

(** A <- B <- C (A inherits from B, B from C); D stands apart. *)
Definition ex_chain : system :=
  ex_run ex_sy0 [("A", LSetParents ["B"]); ("B", LSetParents ["C"]);
                 ("A", LAddFact "fa" ex_fact); ("B", LAddFact "fb" ex_fact);
                 ("C", LAddFact "fc" ex_fact); ("D", LAddFact "fd" ex_fact)].

Lemma ex_chain_wf : sys_wf ex_chain.
Proof. vm_compute. reflexivity. Qed.

Lemma ex_chain_ok : exists rs,
  chain_ok (fun _ l => loc_search_local l ex_ctx (ex_env 2) ex_pat) ex_chain 2 ["A"; "B"; "C"] rs.
Proof.
  eexists.
  eapply chain_cons; [vm_compute; reflexivity|apply nothing_expired_dec; vm_compute; reflexivity|
                      vm_compute; reflexivity|vm_compute; reflexivity|].
  eapply chain_cons; [vm_compute; reflexivity|apply nothing_expired_dec; vm_compute; reflexivity|
                      vm_compute; reflexivity|vm_compute; reflexivity|].
  eapply chain_last; [vm_compute; reflexivity|apply nothing_expired_dec; vm_compute; reflexivity|
                      vm_compute; reflexivity|vm_compute; reflexivity].
Qed.

(** the theorem applies, and agrees with running the model *)
Lemma ex_chain_search :
  snd (sys_search ex_chain "A" ex_ctx (ex_env 2) ex_pat true) =
  Ok [("C", [("fc", [[("?v", JStr "1")]])]); ("B", [("fb", [[("?v", JStr "1")]])]);
      ("A", [("fa", [[("?v", JStr "1")]])])].
Proof. vm_compute. reflexivity. Qed.

(** C <- A closes a cycle *)
Definition ex_cycle : system := ex_run ex_chain [("C", LSetParents ["A"])].

Lemma ex_cycle_fchain : fchain ex_cycle 2 ["A"; "B"; "C"] "A".
Proof.
  eapply fchain_cons; [vm_compute; reflexivity|vm_compute; reflexivity|].
  eapply fchain_cons; [vm_compute; reflexivity|vm_compute; reflexivity|].
  eapply fchain_last; [vm_compute; reflexivity|vm_compute; reflexivity].
Qed.

Lemma ex_cycle_reported :
  snd (sys_search ex_cycle "A" ex_ctx (ex_env 2) ex_pat true) = Err E_loop /\
  snd (sys_find_rules ex_cycle "B" ex_ctx (ex_env 2) ex_fact) = Err E_loop.
Proof. vm_compute. split; reflexivity. Qed.

(** rules: C owns r1, A owns r2; an event in A fires both, an event in C only r1;
    disabling r1 in A does not disable it in C *)
Definition ex_rule : json :=
  JObj [("action", JObj [("code", JStr "1")]); ("when", JObj [("pattern", ex_pat)])].
Definition ex_rules : system := ex_run ex_chain [("C", LAddRule "r1" ex_rule); ("A", LAddRule "r2" ex_rule)].
Definition ex_rules_dis : system := ex_run ex_rules [("A", LEnableRule "r1" false)].

Lemma ex_dispatch :
  snd (sys_find_rules ex_rules "A" ex_ctx (ex_env 2) ex_fact) =
    Ok [("r1", [[("?v", JStr "1")]]); ("r2", [[("?v", JStr "1")]])] /\
  snd (sys_find_rules ex_rules "C" ex_ctx (ex_env 2) ex_fact) = Ok [("r1", [[("?v", JStr "1")]])] /\
  snd (sys_find_rules ex_rules_dis "A" ex_ctx (ex_env 2) ex_fact) = Ok [("r2", [[("?v", JStr "1")]])] /\
  snd (sys_find_rules ex_rules_dis "C" ex_ctx (ex_env 2) ex_fact) = Ok [("r1", [[("?v", JStr "1")]])].
Proof. vm_compute. repeat split; reflexivity. Qed.

Lemma ex_chain_by_theorem : exists rs,
  sys_search ex_chain "A" ex_ctx (ex_env 2) ex_pat true =
  (ex_chain, Ok (rev (List.combine ["A"; "B"; "C"] rs))).
Proof.
  destruct ex_chain_ok as [rs H]. exists rs.
  apply inherited_search_exact_chain; [exact ex_chain_wf| |exact H].
  repeat constructor; cbn [In]; intros H'; repeat (destruct H' as [H'|H']; try discriminate); exact H'.
Qed.

Lemma ex_cycle_by_theorem :
  snd (sys_search ex_cycle "A" ex_ctx (ex_env 2) ex_pat true) = Err E_loop.
Proof.
  assert (Hw : sys_wf ex_cycle) by (vm_compute; reflexivity).
  apply (loop_is_reported ex_cycle "A" ex_ctx (ex_env 2) ["B"; "C"] "A" Hw).
  - repeat constructor; cbn [In]; intros H'; repeat (destruct H' as [H'|H']; try discriminate); exact H'.
  - exact ex_cycle_fchain.
  - left; reflexivity.
Qed.
