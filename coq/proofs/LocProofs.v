(** C09 (isolation, inheritance) and C10 (rule lifecycle): the theorems. *)
From Coq Require Import Lia.
From Verif Require Import Json Outcome Match PatIndex State Location SysOps.
From Verif Require Import StateSpec AssocLemmas CascadeSpec CascadeLemmas1 GateProofs CapacityProofs.
From Verif Require Import LocSpec LocBasics LocRules LocWalk.

(** * A1 *)

Lemma sys_search_local_sys sy name c e p :
  fst (sys_search sy name c e p false) = sy \/
  exists l', fst (sys_search sy name c e p false) = sys_set sy name l'.
Proof.
  unfold sys_search. destruct (sys_get sy name) as [l|]; [|left; reflexivity].
  destruct (loc_search_local l c e p) as [l' r]. right. exists l'. reflexivity.
Qed.

Theorem step_wf : step_wf_statement.
Proof.
  intros sy name c e op sy' r Hw H.
  destruct op; cbn [sys_step] in H;
    try (match type of H with (let '(a, b) := ?X in _) = _ => destruct X as [sy1 r1] eqn:E end;
         injection H as <- _; eapply with_loc_wf; eassumption).
  - destruct (sys_get sy name) as [l0|]; [|injection H as <- _; exact Hw].
    destruct inherited.
    + rewrite sys_search_inherited in H. cbv zeta in H. injection H as <- _.
      apply walk_keys. exact Hw.
    + destruct (sys_search_local_sys sy name c e pattern) as [Hs|[l' Hs]];
        destruct (sys_search sy name c e pattern false) as [sy1 r1]; cbn [fst] in Hs;
        injection H as <- _; subst sy1; [exact Hw|apply sys_wf_set; exact Hw].
  - destruct (sys_get sy name) as [l0|]; [|injection H as <- _; exact Hw].
    pose proof (sys_find_rules_sys sy name c e event) as Hs. cbv zeta in Hs.
    destruct (sys_find_rules sy name c e event) as [sy1 r1]. cbn [fst] in Hs. injection H as <- _.
    destruct Hs as [->|(l & rules & _ & ->)]; [|apply sys_wf_set]; apply walk_keys; exact Hw.
Qed.

Theorem step_frame_local : step_frame_local_statement.
Proof.
  intros sy name c e op sy' r Hnw H other Hne.
  destruct op; cbn [sys_step] in H;
    try (match type of H with (let '(a, b) := ?X in _) = _ => destruct X as [sy1 r1] eqn:E end;
         injection H as <- _; eapply with_loc_frame; eassumption).
  - destruct (sys_get sy name) as [l0|]; [|injection H as <- _; reflexivity].
    destruct inherited; [discriminate|].
    destruct (sys_search_local_sys sy name c e pattern) as [Hs|[l' Hs]];
      destruct (sys_search sy name c e pattern false) as [sy1 r1]; cbn [fst] in Hs;
      injection H as <- _; subst sy1; [reflexivity|apply sys_get_set_other; exact Hne].
  - discriminate.
Qed.

(** * A2 *)

Lemma walk_op_sys sy name c e op sy' r :
  is_walk op = true -> sys_step sy name c e op = (sy', r) ->
  sy' = sy \/
  (exists p, sy' = w_sys _ (do_ancestors _ (fun _ l => loc_search_local l c e p) (anc_fuel sy) sy name (e_now e) [] [] [])) \/
  (exists ev, let sy1 := w_sys _ (do_ancestors _ (fun _ l => loc_rules_local l c e ev) (anc_fuel sy) sy name (e_now e) [] [] []) in
     sy' = sy1 \/
     exists l rules, sys_get sy1 name = Some l /\ sy' = sys_set sy1 name (fst (find_children l rules ev (e_now e) []))).
Proof.
  intros Hwalk H. destruct op; try discriminate; cbn [sys_step] in H.
  - destruct inherited; [|discriminate].
    destruct (sys_get sy name) as [l0|]; [|injection H as <- _; left; reflexivity].
    rewrite sys_search_inherited in H. cbv zeta in H. injection H as <- _.
    right; left. exists pattern. reflexivity.
  - destruct (sys_get sy name) as [l0|]; [|injection H as <- _; left; reflexivity].
    pose proof (sys_find_rules_sys sy name c e event) as Hs. cbv zeta in Hs.
    destruct (sys_find_rules sy name c e event) as [sy1 r1]. cbn [fst] in Hs. injection H as <- _.
    right; right. exists event. cbv zeta. exact Hs.
Qed.

Theorem step_frame_walk : step_frame_walk_statement.
Proof.
  intros sy name c e op sy' r Hwalk H other Ho.
  destruct (walk_op_sys sy name c e op sy' r Hwalk H) as [->|[[p ->]|[ev Hs]]].
  - reflexivity.
  - apply walk_keeps_live; [|exact Ho]. intros n l. apply loc_search_local_noexp.
  - cbv zeta in Hs.
    assert (Hk : keeps_live (e_now e) sy
               (w_sys _ (do_ancestors _ (fun _ l => loc_rules_local l c e ev) (anc_fuel sy) sy name (e_now e) [] [] []))).
    { apply walk_keeps_live. intros n l. apply loc_rules_local_noexp. }
    destruct Hs as [->|(l & rules & Hg & ->)]; [apply Hk; exact Ho|].
    eapply keeps_live_trans; [exact Hk| |exact Ho].
    eapply keeps_live_set; [exact Hg|]. apply find_children_noexp.
Qed.

Theorem walk_touches_only_ancestors : walk_touches_only_ancestors_statement.
Proof.
  intros sy name c e op sy' r Hwalk H other Ho.
  destruct (walk_op_sys sy name c e op sy' r Hwalk H) as [->|[[p ->]|[ev Hs]]].
  - reflexivity.
  - apply (walk_closed _ _ (e_now e) (reach sy (e_now e) name)); auto.
    + intros n l. apply loc_search_local_lsub.
    + apply reach_closed.
    + apply reach_refl.
  - cbv zeta in Hs.
    destruct (walk_closed _ (fun _ l => loc_rules_local l c e ev) (e_now e) (reach sy (e_now e) name)
                (fun n l => loc_rules_local_lsub l c e ev) (anc_fuel sy) sy name [] [] []
                (reach_closed sy (e_now e) name) (reach_refl sy (e_now e) name)) as [_ Hsame].
    destruct Hs as [->|(l & rules & Hg & ->)]; [apply Hsame; exact Ho|].
    rewrite sys_get_set_other; [apply Hsame; exact Ho|].
    intros ->. apply Ho. apply reach_refl.
Qed.

(** * A3 *)

Theorem run_wf : run_wf_statement.
Proof.
  intros h. induction h as [|q h IH]; intros sy Hw; [exact Hw|].
  cbn [sys_run fold_left]. apply IH. unfold sys_do.
  destruct (sys_step sy (r_loc q) (r_ctx q) (r_env q) (r_op q)) as [sy1 r1] eqn:E.
  eapply step_wf; eassumption.
Qed.

Theorem noninterference_history_local : noninterference_history_local_statement.
Proof.
  intros h. induction h as [|q h IH]; intros sy other Hh; [reflexivity|].
  cbn [sys_run fold_left]. fold (sys_run (sys_do sy q) h).
  rewrite IH by (intros q' Hq'; apply Hh; right; exact Hq').
  destruct (Hh q (or_introl eq_refl)) as [Hne Hnw]. unfold sys_do.
  destruct (sys_step sy (r_loc q) (r_ctx q) (r_env q) (r_op q)) as [sy1 r1] eqn:E.
  cbn [fst]. eapply step_frame_local; [exact Hnw|exact E|]. intros Heq. apply Hne. symmetry. exact Heq.
Qed.

Lemma never_expires_nothing_expired l now :
  never_expires l -> st_pending (l_state l) = [] -> nothing_expired l now.
Proof.
  intros H Hp. split; [|exact Hp].
  intros id fact Hl. unfold fact_expired, not_after. rewrite (H id fact Hl). reflexivity.
Qed.

Theorem noninterference_history : noninterference_history_statement.
Proof.
  intros h. induction h as [|q h IH]; intros sy other Hh Hne; [reflexivity|].
  cbn [sys_run fold_left]. fold (sys_run (sys_do sy q) h).
  assert (Hstep : sys_get (sys_do sy q) other = sys_get sy other).
  { unfold sys_do.
    destruct (sys_step sy (r_loc q) (r_ctx q) (r_env q) (r_op q)) as [sy1 r1] eqn:E. cbn [fst].
    destruct (is_walk (r_op q)) eqn:Ew.
    - eapply step_frame_walk; [exact Ew|exact E|].
      intros l Hl. apply never_expires_nothing_expired; apply Hne; exact Hl.
    - eapply step_frame_local; [exact Ew|exact E|]. intros Heq. apply (Hh q (or_introl eq_refl)). symmetry. exact Heq. }
  rewrite IH.
  - exact Hstep.
  - intros q' Hq'. apply Hh. right; exact Hq'.
  - intros l Hl. rewrite Hstep in Hl. apply Hne; exact Hl.
Qed.

(** Without the hypothesis on the list of noted ids the statement fails: a
    walk from "A" reads the parents of its ancestor "B", and that read runs
    the purge "B" had pending (here of an id that is not even stored). *)
Definition cx_pending_sys : system :=
  let c := mkCtx "" "" in
  let e := mkEnv 1 "f" None in
  let la := fst (loc_set_parents (mkLoc (empty_state Indexed false) false 100) c e ["B"]) in
  let lb := mkLoc (set_pending (empty_state Indexed false) ["x"]) false 100 in
  sys_set (sys_set [] "A" la) "B" lb.

Lemma noninterference_history_pending_counterexample :
  let h := [mkReq "A" (mkCtx "" "") (mkEnv 2 "f" None) (LSearch (JObj []) true)] in
  (forall q, In q h -> r_loc q <> "B") /\
  (forall l, sys_get cx_pending_sys "B" = Some l -> never_expires l) /\
  sys_get (sys_run cx_pending_sys h) "B" <> sys_get cx_pending_sys "B".
Proof.
  cbv zeta. split; [|split].
  - intros q [<-|[]]. discriminate.
  - intros l Hl. vm_compute in Hl. injection Hl as <-. intros id fact Hf. discriminate.
  - vm_compute. discriminate.
Qed.

(** * A4 *)

Theorem ancestor_walk_total : ancestor_walk_total_statement.
Proof.
  intros A visit sy name now Hw Hv. exact (walk_total A visit now sy name [] [] Hw Hv).
Qed.

Theorem ancestor_walk_fuel_irrelevant : ancestor_walk_fuel_irrelevant_statement.
Proof.
  intros A visit sy name now f Hw Hf. apply walk_anc_fuel; assumption.
Qed.

Lemma sys_find_rules_err sy name c e ev x :
  w_out _ (do_ancestors _ (fun _ l => loc_rules_local l c e ev) (anc_fuel sy) sy name (e_now e) [] [] []) = Err x ->
  snd (sys_find_rules sy name c e ev) = Err x.
Proof.
  unfold sys_find_rules, w_out.
  destruct (do_ancestors _ (fun _ l => loc_rules_local l c e ev) (anc_fuel sy) sy name (e_now e) [] [] [])
    as [[sy1 d] r]. cbn [snd]. intros ->. reflexivity.
Qed.

Lemma walk_loop_top (A : Type) (visit : string -> loc -> loc * outcome A) sy name now xs z :
  sys_wf sy -> NoDup (name :: xs) -> fchain sy now (name :: xs) z -> In z (name :: xs) ->
  w_out A (do_ancestors A visit (anc_fuel sy) sy name now [] [] []) = Err E_loop.
Proof.
  intros Hw Hnd Hc Hz.
  rewrite <- (walk_anc_fuel A visit now sy name [] [] (length sy + length (name :: xs) + 1) Hw) by lia.
  apply (walk_loop A visit now (name :: xs) z).
  - exact Hc.
  - exact Hnd.
  - intros x _. split; intros [].
  - intros [].
  - left; exact Hz.
  - lia.
Qed.

Theorem loop_is_reported : loop_is_reported_statement.
Proof.
  intros sy name c e xs z Hw Hnd Hc Hz. split.
  - intros p. rewrite sys_search_inherited. cbv zeta. cbn [snd].
    eapply walk_loop_top; eassumption.
  - intros ev. apply sys_find_rules_err. eapply walk_loop_top; eassumption.
Qed.

Theorem two_cycle_reported : two_cycle_reported_statement.
Proof.
  intros sy a b la lb psa psb c e Hw Hab Hga Hpa Hgb Hpb.
  apply (loop_is_reported sy a c e [b] a Hw).
  - constructor; [intros [H|[]]; congruence|]. constructor; [intros []|constructor].
  - eapply fchain_cons; [exact Hga|exact Hpa|]. eapply fchain_last; [exact Hgb|exact Hpb].
  - left; reflexivity.
Qed.

Theorem self_loop_reported : self_loop_reported_statement.
Proof.
  intros sy a la psa c e Hw Hga Hpa.
  apply (loop_is_reported sy a c e [] a Hw).
  - constructor; [intros []|constructor].
  - eapply fchain_last; [exact Hga|exact Hpa].
  - left; reflexivity.
Qed.

(** * A5 *)

Theorem inherited_search_exact_chain : inherited_search_exact_chain_statement.
Proof.
  intros sy name c e p xs rs Hw Hnd Hc.
  rewrite sys_search_inherited. cbv zeta.
  rewrite <- (walk_anc_fuel _ _ (e_now e) sy name [] [] (length sy + length (name :: xs) + 1) Hw) by lia.
  pose proof (walk_chain _ (fun _ l => loc_search_local l c e p) (e_now e) (name :: xs) rs
                (length sy + length (name :: xs) + 1) sy [] [] [] Hw Hc Hnd) as H.
  cbn [hd] in H. rewrite H.
  - reflexivity.
  - intros x _. split; intros [].
  - lia.
Qed.

Theorem local_search_ignores_parents : local_search_ignores_parents_statement.
Proof.
  intros sy1 sy2 name c e p H. unfold sys_search. rewrite H.
  destruct (sys_get sy2 name) as [l|] eqn:E2; [|split; [reflexivity|cbn [fst]; congruence]].
  destruct (loc_search_local l c e p) as [l' r]. cbn [fst snd].
  split; [reflexivity|]. rewrite !sys_get_set_same. reflexivity.
Qed.

(** * A7 *)

Definition find_rules_with (f : nat) (sy : system) (name : string) (c : ctx) (e : env) (event : json)
  : system * outcome (list (string * list bindings)) :=
  let '(sy1, _, r) :=
    do_ancestors _ (fun _ l => loc_rules_local l c e event) f sy name (e_now e) [] [] [] in
  match r with
  | Ok groups =>
      match merge_rules groups [] with
      | Ok rules =>
          match sys_get sy1 name with
          | None => (sy1, Err E_noloc)
          | Some l => let '(l', res) := find_children l rules event (e_now e) [] in
                      (sys_set sy1 name l', res)
          end
      | Err x => (sy1, Err x)
      | Panic w => (sy1, Panic w)
      | OutOfFuel => (sy1, OutOfFuel)
      end
  | Err x => (sy1, Err x)
  | Panic w => (sy1, Panic w)
  | OutOfFuel => (sy1, OutOfFuel)
  end.

Lemma sys_find_rules_with sy name c e ev f :
  sys_wf sy -> (length sy < f)%nat -> sys_find_rules sy name c e ev = find_rules_with f sy name c e ev.
Proof.
  intros Hw Hf. unfold sys_find_rules, find_rules_with.
  rewrite (walk_anc_fuel _ _ (e_now e) sy name [] [] f Hw Hf). reflexivity.
Qed.

Lemma reach_agree sy now name other l2 :
  ~ reach sy now name other -> agree_on (reach sy now name) sy (sys_set sy other l2).
Proof.
  intros Hnr a Ha. apply sys_get_set_other. intros ->. contradiction.
Qed.

Lemma sys_set_length sy n l : (length (sys_set sy n l) <= Datatypes.S (length sy))%nat.
Proof. apply CapacityProofs.ainsert_length. Qed.

Theorem events_not_pushed_down : events_not_pushed_down_statement.
Proof.
  intros sy name c e ev other l2 Hw Hnr.
  pose proof (sys_set_length sy other l2) as Hlen.
  rewrite (sys_find_rules_with sy name c e ev (length sy + 2) Hw) by lia.
  rewrite (sys_find_rules_with (sys_set sy other l2) name c e ev (length sy + 2)) by (try apply sys_wf_set; try exact Hw; lia).
  unfold find_rules_with.
  pose proof (walk_agree _ (fun _ l => loc_rules_local l c e ev) (e_now e) (reach sy (e_now e) name)
                (fun n l => loc_rules_local_lsub l c e ev) (length sy + 2) sy (sys_set sy other l2) name [] [] []
                (reach_closed sy (e_now e) name) (reach_refl sy (e_now e) name)
                (reach_agree sy (e_now e) name other l2 Hnr)) as (H1 & H2 & H3 & _).
  destruct (do_ancestors _ (fun _ l => loc_rules_local l c e ev) (length sy + 2) sy name (e_now e) [] [] [])
    as [[sy1 d1] o1].
  destruct (do_ancestors _ (fun _ l => loc_rules_local l c e ev) (length sy + 2) (sys_set sy other l2) name (e_now e) [] [] [])
    as [[sy2 d2] o2].
  unfold w_done, w_out, w_sys in *. cbn [fst snd] in *. subst d2 o2.
  destruct o1 as [groups|x|w|]; try reflexivity.
  destruct (merge_rules groups []) as [rules|x|w|]; try reflexivity.
  rewrite (H3 name (reach_refl sy (e_now e) name)).
  destruct (sys_get sy1 name) as [l|]; [|reflexivity].
  destruct (find_children l rules ev (e_now e) []) as [l' res]. reflexivity.
Qed.

Theorem inherited_search_not_pushed_down : inherited_search_not_pushed_down_statement.
Proof.
  intros sy name c e p other l2 Hw Hnr.
  pose proof (sys_set_length sy other l2) as Hlen.
  rewrite !sys_search_inherited. cbv zeta. cbn [snd].
  rewrite <- (walk_anc_fuel _ _ (e_now e) sy name [] [] (length sy + 2) Hw) by lia.
  rewrite <- (walk_anc_fuel _ _ (e_now e) (sys_set sy other l2) name [] [] (length sy + 2))
    by (try apply sys_wf_set; try exact Hw; lia).
  apply (walk_agree _ (fun _ l => loc_search_local l c e p) (e_now e) (reach sy (e_now e) name)
           (fun n l => loc_search_local_lsub l c e p) (length sy + 2) sy (sys_set sy other l2) name [] [] []
           (reach_closed sy (e_now e) name) (reach_refl sy (e_now e) name)
           (reach_agree sy (e_now e) name other l2 Hnr)).
Qed.

(** * B4, last part: no rule fires in a disabled location *)

Theorem disabled_no_rule_fires : disabled_no_rule_fires_statement.
Proof.
  intros sy name l c e ev Hg Hn Hen Hp.
  apply sys_find_rules_err. unfold anc_fuel.
  replace (length sy + 2)%nat with (Datatypes.S (length sy + 1)) by lia.
  rewrite do_ancestors_S. cbn [mem_str]. rewrite Hg.
  pose proof (get_parents_noexp l (e_now e) Hn) as Hfst.
  destruct (get_parents l (e_now e)) as [l1 o]. cbn [fst snd] in *. subst l1 o.
  rewrite go_par_nil. cbn [finish]. rewrite sys_get_set_same.
  assert (Hv : loc_rules_local l c e ev = (l, Err E_disabled)).
  { unfold loc_rules_local. apply disabled_location_refuses; [exact Hn|exact Hen|].
    unfold refusing_methods. cbn [In]. tauto. }
  rewrite Hv. reflexivity.
Qed.

(** * B5 *)

Theorem reload_linear_keeps_facts : reload_linear_keeps_facts_statement.
Proof.
  intros l now l' Hk Hst H. unfold loc_reload in H. rewrite Hk in H.
  unfold st_load in H.
  destruct (store_call (set_store (empty_state Linear (st_hooks (l_state l))) (st_store (l_state l))))
    as [s1 failed] eqn:Es.
  destruct failed; [discriminate|]. injection H as <-. cbn [l_state st_facts set_facts]. exact Hst.
Qed.

Theorem flag_survives_reload : flag_survives_reload_statement.
Proof.
  intros l now l' id prop now' Hr Hf. split.
  - rewrite !get_prop_snd, Hf. reflexivity.
  - intros Hn.
    assert (Hp' : st_pending (l_state l') = []).
    { unfold loc_reload in Hr.
      pose proof (st_load_pending (st_kind (l_state l)) (st_hooks (l_state l)) (st_store (l_state l)) now) as Hp.
      destruct (st_load (st_kind (l_state l)) (st_hooks (l_state l)) (st_store (l_state l)) now) as [s' r].
      injection Hr as <- _. exact Hp. }
    assert (Hn' : nothing_expired l' now').
    { split; [rewrite Hf; exact (proj1 Hn)|exact Hp']. }
    rewrite !rule_enabled_noexp_pure by assumption.
    cbn [snd]. unfold rule_enabled_pure, enabled_pure, prop_val. rewrite Hf. reflexivity.
Qed.

Theorem flag_survives_reload_linear : flag_survives_reload_linear_statement.
Proof.
  intros l now l' id now' Hk Hst H.
  apply (flag_survives_reload l now l' id "disabled" now' H).
  eapply reload_linear_keeps_facts; eassumption.
Qed.

(** * A5 for acyclic ancestry in general *)

Lemma walk_dag_top (A : Type) (visit : string -> loc -> loc * outcome A) sy now name :
  sys_wf sy ->
  (forall n l, nothing_expired l now -> fst (visit n l) = l) ->
  (forall y, reach sy now name y -> visit_node_ok visit sy now y) ->
  acyclic_from sy now name ->
  exists groups done,
    do_ancestors A visit (anc_fuel sy) sy name now [] [] [] = (sy, done, Ok groups) /\
    walk_result_exact visit sy now name groups.
Proof.
  intros Hw Hvn Hgood Hacyc.
  assert (Hgood' : forall y, reach sy now name y -> node_ok A visit now sy y).
  { intros y Hy. destruct (Hgood y Hy) as (l & ps & r & Hg & Hn & Hps & Hv).
    exists l, ps, r. split; [exact Hg|]. split; [exact Hn|]. split; [exact Hps|].
    pose proof (Hvn y l Hn) as Hf. destruct (visit y l) as [l' o]. cbn [fst snd] in *. subst. reflexivity. }
  destruct (walk_dag A visit now sy name Hw Hgood' Hacyc (anc_fuel sy) name [] [] [])
    as (new & groups & Hres & Hreach & Hin & Ht & Hnd & Hmap & Hvals).
  - apply reach_refl.
  - intros y _ [].
  - repeat split; [constructor|]. intros y r [].
  - rewrite freek_nil, map_length. unfold anc_fuel. lia.
  - rewrite app_nil_r in *. cbn [app] in *.
    exists groups, new. split; [exact Hres|].
    split; [|split; [|split]].
    + rewrite Hmap. apply NoDup_rev. exact Hnd.
    + intros y. rewrite Hmap, <- in_rev. split; [apply Hreach|].
      intros Hy. eapply topo_reach; eassumption.
    + intros y r Hy. destruct (Hvals y r Hy) as (l & Hg & Hv). exists l. split; [exact Hg|].
      rewrite Hv. reflexivity.
    + intros l1 a r l2 Hgr b Hb. subst groups.
      rewrite map_app in Hmap. cbn [map fst] in Hmap.
      assert (Hnew : new = (rev (map fst l2) ++ a :: rev (map fst l1))%list).
      { rewrite <- (rev_involutive new), <- Hmap, rev_app_distr. cbn [rev]. rewrite <- app_assoc. reflexivity. }
      rewrite Hnew in Ht. apply in_rev. eapply topo_split; eassumption.
Qed.

Theorem inherited_search_exact_dag : inherited_search_exact_dag_statement.
Proof.
  intros sy name c e p Hw Hgood Hacyc.
  destruct (walk_dag_top _ (fun _ l => loc_search_local l c e p) sy (e_now e) name Hw
              (fun n l => loc_search_local_noexp l c e p) Hgood Hacyc) as (groups & done & Hres & Hex).
  exists groups. split; [|exact Hex].
  rewrite sys_search_inherited. cbv zeta. rewrite Hres. reflexivity.
Qed.

Theorem dispatch_exact_dag : dispatch_exact_dag_statement.
Proof.
  intros sy name c e ev Hw Hgood Hacyc.
  destruct (walk_dag_top _ (fun _ l => loc_rules_local l c e ev) sy (e_now e) name Hw
              (fun n l => loc_rules_local_noexp l c e ev) Hgood Hacyc) as (groups & done & Hres & Hex).
  destruct (Hgood name (reach_refl _ _ _)) as (l & ps & r & Hg & Hn & _ & _).
  exists groups, l. split; [exact Hex|]. split; [exact Hg|].
  unfold sys_find_rules. rewrite Hres.
  destruct (merge_rules groups []) as [rules|x|w|]; try reflexivity.
  rewrite Hg. pose proof (find_children_noexp ev (e_now e) rules l [] Hn) as Hf.
  destruct (find_children l rules ev (e_now e) []) as [l' res]. cbn [fst snd] in *. subst l'.
  rewrite (sys_set_same_id sy name l Hw Hg). reflexivity.
Qed.

(** * A4 for the two uses *)

Lemma merge_rules_not_oof groups : forall acc, merge_rules groups acc <> OutOfFuel.
Proof.
  induction groups as [|[n rules] r IH]; intros acc; cbn [merge_rules]; [discriminate|].
  destruct (existsb _ rules); [discriminate|apply IH].
Qed.

Theorem api_walks_total : api_walks_total_statement.
Proof.
  intros sy name c e Hw. split.
  - intros p H. rewrite sys_search_inherited in H. cbv zeta in H. cbn [snd] in H.
    destruct (walk_oof_only_visit _ _ (e_now e) sy name [] [] Hw H) as (n & l & Hv).
    exists l. exact Hv.
  - intros ev H. unfold sys_find_rules in H.
    pose proof (walk_oof_only_visit _ (fun _ l => loc_rules_local l c e ev) (e_now e) sy name [] [] Hw) as Ho.
    destruct (do_ancestors _ (fun _ l => loc_rules_local l c e ev) (anc_fuel sy) sy name (e_now e) [] [] [])
      as [[sy1 d] r]. unfold w_out in Ho. cbn [snd] in *.
    destruct r as [groups|x|w|]; try discriminate.
    + pose proof (merge_rules_not_oof groups []) as Hm.
      destruct (merge_rules groups []) as [rules|x|w|]; try discriminate; [|contradiction].
      destruct (sys_get sy1 name) as [l|]; [|discriminate].
      right. exists l, rules.
      destruct (find_children l rules ev (e_now e) []) as [l' res]. exact H.
    + left. destruct (Ho eq_refl) as (n & l & Hv). exists l. exact Hv.
Qed.

(** * Assumptions *)
Print Assumptions step_wf.
Print Assumptions step_frame_local.
Print Assumptions step_frame_walk.
Print Assumptions walk_touches_only_ancestors.
Print Assumptions run_wf.
Print Assumptions noninterference_history_local.
Print Assumptions noninterference_history.
Print Assumptions noninterference_history_pending_counterexample.
Print Assumptions ancestor_walk_total.
Print Assumptions ancestor_walk_fuel_irrelevant.
Print Assumptions api_walks_total.
Print Assumptions loop_is_reported.
Print Assumptions two_cycle_reported.
Print Assumptions self_loop_reported.
Print Assumptions inherited_search_exact_chain.
Print Assumptions inherited_search_exact_dag.
Print Assumptions dispatch_exact_dag.
Print Assumptions local_search_ignores_parents.
Print Assumptions parents_take_effect_immediately.
Print Assumptions events_not_pushed_down.
Print Assumptions inherited_search_not_pushed_down.
Print Assumptions children_exact.
Print Assumptions children_exact_in.
Print Assumptions disable_then_not_enabled.
Print Assumptions disable_then_not_enabled_counterexample.
Print Assumptions enable_then_enabled.
Print Assumptions disable_is_per_id.
Print Assumptions enable_is_not_per_id_counterexample.
Print Assumptions flag_dies_with_rule.
Print Assumptions readd_starts_enabled.
Print Assumptions disabled_location_refuses.
Print Assumptions disabled_location_refuses_addfact.
Print Assumptions disabled_no_rule_fires.
Print Assumptions statesize_reports_disabled_example.
Print Assumptions reload_linear_keeps_facts.
Print Assumptions flag_survives_reload.
Print Assumptions flag_survives_reload_linear.
