(** C16 (Bolt-backed cron service): proofs of the statements of CroltSpec.v
    about the model of Crolt.v, and closed examples / counterexamples. *)
From Coq Require Import Lia.
From Verif Require Import Json Outcome Crolt AssocLemmas CroltSpec.

(** * The time map *)

Lemma tkey_eqb_eq a b : tkey_eqb a b = true <-> a = b.
Proof.
  destruct a as [a1 a2], b as [b1 b2]. unfold tkey_eqb. cbn [fst snd].
  rewrite andb_true_iff, Z.eqb_eq, String.eqb_eq. split.
  - intros [-> ->]. reflexivity.
  - intros H. injection H as -> ->. split; reflexivity.
Qed.

Lemma tkey_eqb_refl a : tkey_eqb a a = true.
Proof. apply tkey_eqb_eq. reflexivity. Qed.

Lemma tkey_eqb_neq a b : a <> b -> tkey_eqb a b = false.
Proof.
  intros H. destruct (tkey_eqb a b) eqn:E; [|reflexivity].
  apply tkey_eqb_eq in E. contradiction.
Qed.

Lemma tkey_eqb_spec a b : reflect (a = b) (tkey_eqb a b).
Proof.
  destruct (tkey_eqb a b) eqn:E; constructor.
  - apply tkey_eqb_eq; exact E.
  - intros H. apply tkey_eqb_eq in H. congruence.
Qed.

Lemma tlookup_tremove_same k m : tlookup k (tremove k m) = None.
Proof.
  induction m as [|[k' v] r IH]; cbn [tremove tlookup].
  - reflexivity.
  - destruct (tkey_eqb k k') eqn:E; cbn [tlookup].
    + exact IH.
    + rewrite E. exact IH.
Qed.

Lemma tlookup_tremove_other k k' m : k <> k' -> tlookup k' (tremove k m) = tlookup k' m.
Proof.
  intros Hne. induction m as [|[k1 v] r IH]; cbn [tremove tlookup].
  - reflexivity.
  - destruct (tkey_eqb_spec k k1) as [<-|Hk]; cbn [tlookup].
    + rewrite (tkey_eqb_neq k' k) by congruence. exact IH.
    + rewrite IH. reflexivity.
Qed.

Lemma tlookup_tins_same k v m : tlookup k m = None -> tlookup k (tins k v m) = Some v.
Proof.
  induction m as [|[k1 v1] r IH]; cbn [tins tlookup].
  - intros _. rewrite tkey_eqb_refl. reflexivity.
  - destruct (tkey_eqb k k1) eqn:E; [discriminate|].
    intros H. destruct (tkey_ltb k k1); cbn [tlookup].
    + rewrite tkey_eqb_refl. reflexivity.
    + rewrite E. apply IH; exact H.
Qed.

Lemma tlookup_tins_other k k' v m : k <> k' -> tlookup k' (tins k v m) = tlookup k' m.
Proof.
  intros Hne. induction m as [|[k1 v1] r IH]; cbn [tins tlookup].
  - rewrite (tkey_eqb_neq k' k) by congruence. reflexivity.
  - destruct (tkey_ltb k k1); cbn [tlookup].
    + rewrite (tkey_eqb_neq k' k) by congruence. reflexivity.
    + rewrite IH. reflexivity.
Qed.

Lemma tlookup_tput_same k v m : tlookup k (tput k v m) = Some v.
Proof. unfold tput. apply tlookup_tins_same. apply tlookup_tremove_same. Qed.

Lemma tlookup_tput_other k k' v m : k <> k' -> tlookup k' (tput k v m) = tlookup k' m.
Proof.
  intros Hne. unfold tput. rewrite tlookup_tins_other by exact Hne.
  apply tlookup_tremove_other; exact Hne.
Qed.

Lemma keys_tremove k m x : In x (map fst (tremove k m)) -> In x (map fst m) /\ x <> k.
Proof.
  induction m as [|[k1 v] r IH]; cbn [tremove map fst In].
  - intros [].
  - destruct (tkey_eqb_spec k k1) as [<-|Hk]; cbn [map fst In].
    + intros H. destruct (IH H) as [H1 H2]. split; [right; exact H1|exact H2].
    + intros [<-|H].
      * split; [left; reflexivity|congruence].
      * destruct (IH H) as [H1 H2]. split; [right; exact H1|exact H2].
Qed.

Lemma NoDup_tremove k m : NoDup (map fst m) -> NoDup (map fst (tremove k m)).
Proof.
  induction m as [|[k1 v] r IH]; cbn [tremove map fst]; intros Hn.
  - constructor.
  - inversion Hn as [|? ? Hni Hn']; subst.
    destruct (tkey_eqb k k1); cbn [map fst].
    + apply IH; exact Hn'.
    + constructor; [|apply IH; exact Hn'].
      intros Hin. apply keys_tremove in Hin. apply Hni. apply Hin.
Qed.

Lemma keys_tins k v m x : In x (map fst (tins k v m)) -> x = k \/ In x (map fst m).
Proof.
  induction m as [|[k1 v1] r IH]; cbn [tins map fst In].
  - intros [<-|[]]. left; reflexivity.
  - destruct (tkey_ltb k k1); cbn [map fst In].
    + intros [<-|H]; [left; reflexivity|right; exact H].
    + intros [<-|H]; [right; left; reflexivity|].
      destruct (IH H) as [->|H']; [left; reflexivity|right; right; exact H'].
Qed.

Lemma NoDup_tins k v m :
  ~ In k (map fst m) -> NoDup (map fst m) -> NoDup (map fst (tins k v m)).
Proof.
  induction m as [|[k1 v1] r IH]; cbn [tins map fst]; intros Hni Hn.
  - constructor; [intros []|constructor].
  - destruct (tkey_ltb k k1); cbn [map fst].
    + constructor; assumption.
    + inversion Hn as [|? ? Hni1 Hn1]; subst.
      constructor.
      * intros Hin. apply keys_tins in Hin. destruct Hin as [->|Hin].
        -- apply Hni. left; reflexivity.
        -- apply Hni1; exact Hin.
      * apply IH; [|exact Hn1]. intros Hin. apply Hni. right; exact Hin.
Qed.

Lemma NoDup_tput k v m : NoDup (map fst m) -> NoDup (map fst (tput k v m)).
Proof.
  intros Hn. unfold tput. apply NoDup_tins.
  - intros Hin. apply keys_tremove in Hin. destruct Hin as [_ H]. apply H; reflexivity.
  - apply NoDup_tremove; exact Hn.
Qed.

Lemma tlookup_In k v m : tlookup k m = Some v -> In (k, v) m.
Proof.
  induction m as [|[k1 v1] r IH]; cbn [tlookup In].
  - discriminate.
  - destruct (tkey_eqb_spec k k1) as [<-|Hne].
    + intros H. injection H as <-. left; reflexivity.
    + intros H. right. apply IH; exact H.
Qed.

Lemma In_tlookup k v m : NoDup (map fst m) -> In (k, v) m -> tlookup k m = Some v.
Proof.
  induction m as [|[k1 v1] r IH]; cbn [tlookup In map fst]; intros Hn Hin.
  - destruct Hin.
  - inversion Hn as [|? ? Hni Hn']; subst.
    destruct Hin as [E|Hin].
    + injection E as -> ->. rewrite tkey_eqb_refl. reflexivity.
    + destruct (tkey_eqb_spec k k1) as [<-|Hne].
      * exfalso. apply Hni. apply (in_map fst) in Hin. exact Hin.
      * apply IH; assumption.
Qed.

(** * Sub-lists *)

Inductive sub {A} : list A -> list A -> Prop :=
| sub_nil l : sub [] l
| sub_skip x s l : sub s l -> sub s (x :: l)
| sub_keep x s l : sub s l -> sub (x :: s) (x :: l).

Lemma sub_In {A} (s l : list A) x : sub s l -> In x s -> In x l.
Proof.
  induction 1 as [l|y s l _ IH|y s l _ IH]; cbn [In].
  - intros [].
  - intros H. right. apply IH; exact H.
  - intros [<-|H]; [left; reflexivity|right; apply IH; exact H].
Qed.

Lemma sub_map {A B} (f : A -> B) (s l : list A) : sub s l -> sub (map f s) (map f l).
Proof.
  induction 1; cbn [map]; constructor; assumption.
Qed.

Lemma sub_NoDup {A} (s l : list A) : sub s l -> NoDup l -> NoDup s.
Proof.
  induction 1 as [l|y s l Hs IH|y s l Hs IH]; intros Hn.
  - constructor.
  - inversion Hn; subst. apply IH; assumption.
  - inversion Hn as [|? ? Hni Hn']; subst. constructor.
    + intros Hin. apply Hni. eapply sub_In; eassumption.
    + apply IH; exact Hn'.
Qed.

Lemma sub_refl {A} (l : list A) : sub l l.
Proof. induction l; constructor; assumption. Qed.

Lemma sub_trans {A} (a b c : list A) : sub a b -> sub b c -> sub a c.
Proof.
  intros Hab Hbc. revert a Hab.
  induction Hbc as [l|y s l Hs IH|y s l Hs IH]; intros a Hab.
  - inversion Hab; subst. constructor.
  - constructor. apply IH; exact Hab.
  - inversion Hab; subst.
    + constructor.
    + apply sub_skip. apply IH; assumption.
    + apply sub_keep. apply IH; assumption.
Qed.

Lemma sub_filter {A} (p : A -> bool) l : sub (filter p l) l.
Proof.
  induction l as [|x r IH]; cbn [filter]; [constructor|].
  destruct (p x); constructor; exact IH.
Qed.

Lemma sub_take_while {A} (p : A -> bool) l : sub (take_while p l) l.
Proof.
  induction l as [|x r IH]; cbn [take_while]; [constructor|].
  destruct (p x); constructor; exact IH.
Qed.

Lemma sub_firstn {A} n (l : list A) : sub (firstn n l) l.
Proof.
  revert l. induction n as [|n IH]; intros l; cbn [firstn]; [constructor|].
  destruct l; [constructor|]. apply sub_keep. apply IH.
Qed.

Lemma take_while_In {A} (p : A -> bool) l x : In x (take_while p l) -> p x = true.
Proof.
  induction l as [|y r IH]; cbn [take_while In].
  - intros [].
  - destruct (p y) eqn:E; cbn [In].
    + intros [<-|H]; [exact E|apply IH; exact H].
    + intros [].
Qed.

(** * Consistency: basic consequences *)

Lemma bc_entry c t j : buckets_consistent c -> tlookup t (c_time c) = Some j ->
  b_tid j = Some t /\ snd t = aid_of j /\ alookup (snd t) (c_jobs c) = Some j.
Proof.
  intros (_ & _ & HB) H. destruct (HB t j H) as (H1 & H2 & H3).
  rewrite H2. auto.
Qed.

Lemma bc_job c a j : buckets_consistent c -> alookup a (c_jobs c) = Some j ->
  aid_of j = a /\ exists t, b_tid j = Some t /\ snd t = a /\ tlookup t (c_time c) = Some j.
Proof. intros (_ & HA & _) H. apply HA; exact H. Qed.

Lemma bc_nodup c : buckets_consistent c -> NoDup (map fst (c_time c)).
Proof. intros (H & _). exact H. Qed.

Theorem one_time_entry_per_job : one_time_entry_per_job_statement.
Proof.
  intros c t1 t2 j1 j2 Hc H1 H2 E.
  destruct (bc_entry c t1 j1 Hc H1) as (T1 & _ & A1).
  destruct (bc_entry c t2 j2 Hc H2) as (T2 & _ & A2).
  rewrite E in A1. rewrite A1 in A2. injection A2 as <-. congruence.
Qed.

Lemma bc_no_entry c a : buckets_consistent c -> alookup a (c_jobs c) = None ->
  forall t, snd t = a -> tlookup t (c_time c) = None.
Proof.
  intros Hc Hn t E. destruct (tlookup t (c_time c)) as [j|] eqn:L; [|reflexivity].
  destruct (bc_entry c t j Hc L) as (_ & _ & A). rewrite E in A. congruence.
Qed.

Lemma bc_only_entry c a j t0 :
  buckets_consistent c -> alookup a (c_jobs c) = Some j -> b_tid j = Some t0 ->
  forall t, snd t = a -> t <> t0 -> tlookup t (c_time c) = None.
Proof.
  intros Hc Hj Ht t E Hne. destruct (tlookup t (c_time c)) as [jx|] eqn:L; [|reflexivity].
  destruct (bc_entry c t jx Hc L) as (T & _ & A). rewrite E in A. rewrite Hj in A.
  injection A as <-. congruence.
Qed.

(** * update *)

Definition upd_job (j : bjob) (at_ : Z) : bjob :=
  mkB (b_account j) (b_id j) (b_kind j) (b_once j) (b_evict j) (Some (at_, aid_of j)).

Definition time1_of (c : crolt) (j : bjob) : list (tkey * bjob) :=
  match b_tid j with Some old => tremove old (c_time c) | None => c_time c end.

Lemma update_unfold c j at_ :
  update c j at_ =
  mkC (ainsert (aid_of j) (upd_job j at_) (c_jobs c))
      (tput (at_, aid_of j) (upd_job j at_) (time1_of c j)) (c_parts c).
Proof. reflexivity. Qed.

(** What the callers of update guarantee about the job they pass. *)
Definition upd_ok (c : crolt) (j : bjob) : Prop :=
  match b_tid j with
  | None => alookup (aid_of j) (c_jobs c) = None
  | Some old => exists j0, alookup (aid_of j) (c_jobs c) = Some j0 /\ b_tid j0 = Some old
  end.

Lemma update_time1 c j : buckets_consistent c -> upd_ok c j ->
  NoDup (map fst (time1_of c j)) /\
  (forall t, snd t = aid_of j -> tlookup t (time1_of c j) = None) /\
  (forall t, snd t <> aid_of j -> tlookup t (time1_of c j) = tlookup t (c_time c)).
Proof.
  intros Hc Hok. unfold upd_ok in Hok. unfold time1_of. destruct (b_tid j) as [old|].
  - destruct Hok as (j0 & Hj0 & Ht0).
    destruct (bc_job _ _ _ Hc Hj0) as (_ & t & Ht & Hs & _).
    assert (t = old) by congruence. subst t.
    split; [apply NoDup_tremove; apply bc_nodup; exact Hc|]. split.
    + intros t E. destruct (tkey_eqb_spec old t) as [<-|Hne].
      * apply tlookup_tremove_same.
      * rewrite tlookup_tremove_other by exact Hne.
        eapply bc_only_entry; eauto.
    + intros t E. apply tlookup_tremove_other. intros ->. apply E; exact Hs.
  - split; [apply bc_nodup; exact Hc|]. split.
    + apply bc_no_entry; assumption.
    + reflexivity.
Qed.

Lemma update_bc c j at_ : buckets_consistent c -> upd_ok c j -> buckets_consistent (update c j at_).
Proof.
  intros Hc Hok. destruct (update_time1 c j Hc Hok) as (N1 & S1 & O1).
  rewrite update_unfold.
  assert (Ha : aid_of (upd_job j at_) = aid_of j) by reflexivity.
  split; [|split]; cbn [c_jobs c_time].
  - apply NoDup_tput; exact N1.
  - intros aid jx. rewrite alookup_ainsert.
    destruct (String.eqb_spec aid (aid_of j)) as [->|Hne].
    + intros H; injection H as <-. split; [exact Ha|].
      exists (at_, aid_of j). split; [reflexivity|]. split; [reflexivity|].
      apply tlookup_tput_same.
    + intros H. destruct (bc_job _ _ _ Hc H) as (E & t & Ht & Hs & Hl).
      split; [exact E|]. exists t. split; [exact Ht|]. split; [exact Hs|].
      rewrite tlookup_tput_other; [|intros <-; apply Hne; symmetry; exact Hs].
      rewrite O1; [exact Hl|rewrite Hs; exact Hne].
  - intros t jx. destruct (tkey_eqb_spec (at_, aid_of j) t) as [<-|Hne].
    + rewrite tlookup_tput_same. intros H; injection H as <-.
      split; [reflexivity|]. split; [symmetry; exact Ha|].
      rewrite Ha. apply alookup_ainsert_same.
    + rewrite tlookup_tput_other by exact Hne. intros H.
      assert (Hs : snd t <> aid_of j).
      { intros E. rewrite (S1 t E) in H. discriminate. }
      rewrite O1 in H by exact Hs.
      destruct (bc_entry _ _ _ Hc H) as (T & E & A).
      split; [exact T|]. split; [exact E|].
      rewrite alookup_ainsert_other; [rewrite <- E; exact A|rewrite <- E; exact Hs].
Qed.

Lemma update_frame_time c j at_ t : buckets_consistent c -> upd_ok c j ->
  snd t <> aid_of j -> tlookup t (c_time (update c j at_)) = tlookup t (c_time c).
Proof.
  intros Hc Hok Hs. destruct (update_time1 c j Hc Hok) as (_ & _ & O1).
  rewrite update_unfold. cbn [c_time].
  rewrite tlookup_tput_other; [apply O1; exact Hs|].
  intros <-. apply Hs. reflexivity.
Qed.

Lemma update_frame_jobs c j at_ a :
  a <> aid_of j -> alookup a (c_jobs (update c j at_)) = alookup a (c_jobs c).
Proof.
  intros Hne. rewrite update_unfold. cbn [c_jobs]. apply alookup_ainsert_other; exact Hne.
Qed.

Lemma update_jobs_same c j at_ :
  alookup (aid_of j) (c_jobs (update c j at_)) = Some (upd_job j at_).
Proof. rewrite update_unfold. cbn [c_jobs]. apply alookup_ainsert_same. Qed.

Lemma update_parts c j at_ : c_parts (update c j at_) = c_parts c.
Proof. reflexivity. Qed.

(** * delete *)

Lemma delete_aid_bc c aid : buckets_consistent c -> buckets_consistent (delete_aid c aid).
Proof.
  intros Hc. unfold delete_aid. destruct (alookup aid (c_jobs c)) as [j|] eqn:Hj; [|exact Hc].
  destruct (bc_job _ _ _ Hc Hj) as (Ea & t & Ht & Hs & Hl). rewrite Ht.
  split; [|split]; cbn [c_jobs c_time].
  - apply NoDup_tremove. apply bc_nodup; exact Hc.
  - intros x jx. rewrite alookup_aremove.
    destruct (String.eqb_spec x aid) as [->|Hne]; [discriminate|]. intros H.
    destruct (bc_job _ _ _ Hc H) as (E & tx & Htx & Hsx & Hlx).
    split; [exact E|]. exists tx. split; [exact Htx|]. split; [exact Hsx|].
    rewrite tlookup_tremove_other; [exact Hlx|]. intros <-. apply Hne. congruence.
  - intros tx jx. destruct (tkey_eqb_spec t tx) as [<-|Hne].
    + rewrite tlookup_tremove_same. discriminate.
    + rewrite tlookup_tremove_other by exact Hne. intros H.
      destruct (bc_entry _ _ _ Hc H) as (T & E & A).
      split; [exact T|]. split; [exact E|].
      rewrite alookup_aremove_other; [rewrite <- E; exact A|].
      intros Ex. rewrite <- E in Ex. rewrite Ex in A. rewrite Hj in A.
      injection A as <-. congruence.
Qed.

Lemma delete_aid_jobs_same c aid : alookup aid (c_jobs (delete_aid c aid)) = None.
Proof.
  unfold delete_aid. destruct (alookup aid (c_jobs c)) eqn:Hj; [|exact Hj].
  cbn [c_jobs]. apply alookup_aremove_same.
Qed.

Lemma delete_aid_time_same c aid : buckets_consistent c ->
  forall t, snd t = aid -> tlookup t (c_time (delete_aid c aid)) = None.
Proof.
  intros Hc. apply bc_no_entry.
  - apply delete_aid_bc; exact Hc.
  - apply delete_aid_jobs_same.
Qed.

Lemma delete_aid_frame_jobs c aid a :
  a <> aid -> alookup a (c_jobs (delete_aid c aid)) = alookup a (c_jobs c).
Proof.
  intros Hne. unfold delete_aid. destruct (alookup aid (c_jobs c)); [|reflexivity].
  cbn [c_jobs]. apply alookup_aremove_other; exact Hne.
Qed.

Lemma delete_aid_parts c aid : c_parts (delete_aid c aid) = c_parts c.
Proof. unfold delete_aid. destruct (alookup aid (c_jobs c)); reflexivity. Qed.

Lemma fold_delete_aid_bc aids c :
  buckets_consistent c -> buckets_consistent (fold_left delete_aid aids c).
Proof.
  revert c. induction aids as [|a r IH]; intros c Hc; cbn [fold_left].
  - exact Hc.
  - apply IH. apply delete_aid_bc; exact Hc.
Qed.

Lemma gen_aid_ok a i aid : gen_aid a i = Ok aid -> aid = String.append a (String.append "," i).
Proof.
  unfold gen_aid.
  destruct (String.eqb a ""); [discriminate|].
  destruct (String.eqb i ""); [discriminate|].
  destruct (has_comma a); [discriminate|].
  destruct (has_comma i); [discriminate|].
  intros H. injection H as <-. reflexivity.
Qed.

Theorem delete_removes_both : delete_removes_both_statement.
Proof.
  intros c account id aid Hc Hg. unfold c_delete. rewrite Hg. cbn [fst]. split.
  - apply delete_aid_jobs_same.
  - apply delete_aid_time_same; exact Hc.
Qed.

(** * set_flags *)

Lemma set_flags_ok j j' : set_flags j = Ok j' ->
  b_account j' = b_account j /\ b_id j' = b_id j /\ b_tid j' = b_tid j /\
  b_evict j' = b_evict j /\ b_kind j' = b_kind j /\ (b_once j = true -> b_once j' = true).
Proof.
  unfold set_flags. destruct (b_evict j) eqn:Ev.
  - intros H; injection H as <-. auto 10.
  - destruct (String.eqb (b_kind j) "dur").
    + intros H; injection H as <-. cbn. auto 10.
    + destruct (String.eqb (b_kind j) "cron"); [|discriminate].
      intros H; injection H as <-. auto 10.
Qed.

Lemma aid_of_eq j j' : b_account j' = b_account j -> b_id j' = b_id j -> aid_of j' = aid_of j.
Proof. unfold aid_of. intros -> ->. reflexivity. Qed.

(** * The work loop *)

Definition fire_job (j : bjob) : bjob :=
  if b_once j then mkB (b_account j) (b_id j) (b_kind j) true true (b_tid j) else j.

Definition fire_at (ats : list Z) (now : Z) : Z := match ats with a :: _ => a | [] => now end.

Lemma work_loop_cons c k j rest now ats acc :
  work_loop c ((k, j) :: rest) now ats acc =
  if b_evict j then (delete_aid c (aid_of j), acc, Ok tt)
  else match set_flags (fire_job j) with
       | Ok j2 => work_loop (update c j2 (fire_at ats now)) rest now (tl ats)
                            (mkFired (aid_of j) k now (b_once j) :: acc)
       | Err e => (c, acc, Err e)
       | Panic w => (c, acc, Panic w)
       | OutOfFuel => (c, acc, OutOfFuel)
       end.
Proof. reflexivity. Qed.

Lemma fire_job_fields j :
  b_account (fire_job j) = b_account j /\ b_id (fire_job j) = b_id j /\
  b_tid (fire_job j) = b_tid j /\ b_kind (fire_job j) = b_kind j.
Proof. unfold fire_job. destruct (b_once j); auto. Qed.

Lemma set_fire j j2 : set_flags (fire_job j) = Ok j2 ->
  aid_of j2 = aid_of j /\ b_tid j2 = b_tid j /\ b_kind j2 = b_kind j /\
  (b_once j = true -> b_evict j2 = true /\ b_once j2 = true) /\
  (b_once j = false -> b_evict j2 = b_evict j).
Proof.
  intros H. destruct (set_flags_ok _ _ H) as (A & I & T & E & K & O).
  destruct (fire_job_fields j) as (A' & I' & T' & K').
  split; [apply aid_of_eq; congruence|]. split; [congruence|]. split; [congruence|].
  unfold fire_job in E, O. split; intros Hon; rewrite Hon in E, O; cbn in E, O.
  - split; [exact E|apply O; reflexivity].
  - exact E.
Qed.

(** The remaining snapshot: distinct keys, each still a live entry. *)
Definition snap_ok (c : crolt) (snap : list (tkey * bjob)) : Prop :=
  NoDup (map fst snap) /\ forall k j, In (k, j) snap -> tlookup k (c_time c) = Some j.

Lemma snap_distinct c k j rest : buckets_consistent c -> snap_ok c ((k, j) :: rest) ->
  tlookup k (c_time c) = Some j /\ snap_ok c rest /\
  forall k2 jx, In (k2, jx) rest -> aid_of jx <> aid_of j /\ snd k2 <> aid_of j.
Proof.
  intros Hc [Hn Hl]. cbn [map fst] in Hn. inversion Hn as [|? ? Hni Hn']; subst.
  assert (Hk : tlookup k (c_time c) = Some j) by (apply Hl; left; reflexivity).
  split; [exact Hk|]. split.
  - split; [exact Hn'|]. intros k2 jx Hin. apply Hl. right; exact Hin.
  - intros k2 jx Hin.
    assert (Hk2 : tlookup k2 (c_time c) = Some jx) by (apply Hl; right; exact Hin).
    destruct (bc_entry _ _ _ Hc Hk) as (_ & E & _).
    destruct (bc_entry _ _ _ Hc Hk2) as (_ & E2 & _).
    assert (Hs : snd k2 <> aid_of j).
    { intros Es. assert (k2 = k).
      { eapply one_time_entry_per_job; eauto. congruence. }
      subst k2. apply Hni. apply (in_map fst) in Hin. exact Hin. }
    split; [|exact Hs]. rewrite <- E2. exact Hs.
Qed.

Lemma work_step_ok c k j j2 : buckets_consistent c -> tlookup k (c_time c) = Some j ->
  set_flags (fire_job j) = Ok j2 -> upd_ok c j2.
Proof.
  intros Hc Hk Sf. destruct (set_fire _ _ Sf) as (Ea & Et & _).
  destruct (bc_entry _ _ _ Hc Hk) as (T & E & A).
  unfold upd_ok. rewrite Et, T. exists j. split; [|exact T].
  rewrite Ea, <- E. exact A.
Qed.

Lemma snap_ok_step c k j rest j2 at_ : buckets_consistent c -> snap_ok c ((k, j) :: rest) ->
  set_flags (fire_job j) = Ok j2 ->
  buckets_consistent (update c j2 at_) /\ snap_ok (update c j2 at_) rest.
Proof.
  intros Hc Hs Sf. destruct (snap_distinct _ _ _ _ Hc Hs) as (Hk & [Hn Hl] & Hd).
  pose proof (work_step_ok _ _ _ _ Hc Hk Sf) as Hok.
  destruct (set_fire _ _ Sf) as (Ea & _).
  split; [apply update_bc; assumption|]. split; [exact Hn|].
  intros k2 jx Hin. rewrite update_frame_time; [apply Hl; exact Hin|exact Hc|exact Hok|].
  rewrite Ea. apply (Hd k2 jx Hin).
Qed.

Lemma work_loop_bc snap : forall c now ats acc, buckets_consistent c -> snap_ok c snap ->
  buckets_consistent (fst (fst (work_loop c snap now ats acc))).
Proof.
  induction snap as [|[k j] rest IH]; intros c now ats acc Hc Hs.
  - exact Hc.
  - rewrite work_loop_cons. destruct (b_evict j).
    + cbn [fst]. apply delete_aid_bc; exact Hc.
    + destruct (set_flags (fire_job j)) as [j2| | |] eqn:Sf; cbn [fst]; try exact Hc.
      destruct (snap_ok_step c k j rest j2 (fire_at ats now) Hc Hs Sf) as [Hc1 Hs1].
      apply IH; assumption.
Qed.

Lemma due_snapshot_sub c p now : sub (due_snapshot c p now) (c_time c).
Proof.
  unfold due_snapshot. eapply sub_trans; [apply sub_firstn|].
  eapply sub_trans; [apply sub_take_while|apply sub_filter].
Qed.

Lemma due_snapshot_ok c p now : buckets_consistent c -> snap_ok c (due_snapshot c p now).
Proof.
  intros Hc. pose proof (due_snapshot_sub c p now) as Hs. split.
  - eapply sub_NoDup; [apply sub_map; exact Hs|apply bc_nodup; exact Hc].
  - intros k j Hin. apply In_tlookup; [apply bc_nodup; exact Hc|].
    eapply sub_In; eassumption.
Qed.

Lemma due_snapshot_In c p now x : In x (due_snapshot c p now) ->
  In x (c_time c) /\ key_due (fst x) now = true /\ partition (b_account (snd x)) (c_parts c) = p.
Proof.
  unfold due_snapshot. intros H.
  apply (sub_In _ _ _ (sub_firstn _ _)) in H.
  pose proof (take_while_In _ _ _ H) as Hd.
  apply (sub_In _ _ _ (sub_take_while _ _)) in H.
  apply filter_In in H. destruct H as [H1 H2]. apply Z.eqb_eq in H2.
  split; [exact H1|]. split; [exact Hd|exact H2].
Qed.

Lemma c_work_state c p now ats :
  fst (fst (c_work c p now ats)) = fst (fst (work_loop c (due_snapshot c p now) now ats [])) \/
  fst (fst (c_work c p now ats)) = c.
Proof.
  unfold c_work. destruct (work_loop c (due_snapshot c p now) now ats []) as [[c' fs] r].
  destruct r; cbn [fst]; auto.
Qed.

Lemma c_work_fires c p now ats :
  snd (fst (c_work c p now ats)) = snd (fst (work_loop c (due_snapshot c p now) now ats [])).
Proof.
  unfold c_work. destruct (work_loop c (due_snapshot c p now) now ats []) as [[c' fs] r].
  destruct r; reflexivity.
Qed.

Lemma c_work_ok c p now ats c' fs :
  c_work c p now ats = (c', fs, Ok tt) ->
  work_loop c (due_snapshot c p now) now ats [] = (c', fs, Ok tt).
Proof.
  unfold c_work. destruct (work_loop c (due_snapshot c p now) now ats []) as [[c1 fs1] r].
  destruct r as [[]| | |]; intros H; try discriminate H. exact H.
Qed.

Lemma c_work_bc c p now ats : buckets_consistent c ->
  buckets_consistent (fst (fst (c_work c p now ats))).
Proof.
  intros Hc. destruct (c_work_state c p now ats) as [-> | ->]; [|exact Hc].
  apply work_loop_bc; [exact Hc|apply due_snapshot_ok; exact Hc].
Qed.

(** * Every operation keeps the buckets consistent *)

Lemma c_add_bc c j at_ : buckets_consistent c ->
  buckets_consistent (fst (c_add c j at_)).
Proof.
  intros Hc. unfold c_add.
  destruct (gen_aid (b_account j) (b_id j)) as [aid| | |] eqn:G; cbn [fst]; try exact Hc.
  apply gen_aid_ok in G.
  destruct (alookup aid (c_jobs c)) eqn:L; cbn [fst]; [exact Hc|].
  destruct (set_flags j) as [j'| | |] eqn:Sf; cbn [fst]; try exact Hc.
  destruct (set_flags_ok _ _ Sf) as (A & I & T & _).
  apply update_bc; [exact Hc|].
  unfold upd_ok. cbn [b_tid].
  replace (aid_of (mkB (b_account j') (b_id j') (b_kind j') (b_once j') (b_evict j') None))
    with (aid_of j') by reflexivity.
  rewrite (aid_of_eq j j' A I). unfold aid_of. rewrite <- G. exact L.
Qed.

Theorem buckets_consistent_step : buckets_consistent_step_statement.
Proof.
  intros c o Hc. destruct o as [j at_|a i|a|p now ats|]; cbn [bstep].
  - apply c_add_bc; assumption.
  - unfold c_delete. destruct (gen_aid a i); cbn [fst]; try exact Hc.
    apply delete_aid_bc; exact Hc.
  - unfold c_delete_account. apply fold_delete_aid_bc; exact Hc.
  - apply c_work_bc; exact Hc.
  - exact Hc.
Qed.

Lemma init_bc parts : buckets_consistent (crolt_init parts).
Proof.
  split; [constructor|]. split.
  - intros aid j H. discriminate H.
  - intros t j H. discriminate H.
Qed.

Lemma brun_bc ops : forall c, buckets_consistent c ->
  buckets_consistent (brun ops c).
Proof.
  induction ops as [|o r IH]; intros c Hc; cbn [brun fold_left].
  - exact Hc.
  - apply IH. apply buckets_consistent_step; assumption.
Qed.

Theorem buckets_consistent_reachable : buckets_consistent_statement.
Proof. intros ops parts. apply brun_bc. apply init_bc. Qed.

Theorem client_tid_ignored : client_tid_ignored_statement.
Proof.
  intros c j t at_. unfold c_add, with_tid. cbn [b_account b_id].
  destruct (gen_aid (b_account j) (b_id j)); try reflexivity.
  destruct (alookup a (c_jobs c)); try reflexivity.
  unfold set_flags. cbn [b_evict b_kind b_account b_id b_once b_tid].
  destruct (b_evict j); [reflexivity|].
  destruct (String.eqb (b_kind j) "dur"); [reflexivity|].
  destruct (String.eqb (b_kind j) "cron"); reflexivity.
Qed.

(** * What work fires *)

Lemma work_loop_fires snap : forall c now ats acc f,
  In f (snd (fst (work_loop c snap now ats acc))) ->
  In f acc \/
  exists k j, In (k, j) snap /\ f = mkFired (aid_of j) k now (b_once j) /\ b_evict j = false.
Proof.
  induction snap as [|[k j] rest IH]; intros c now ats acc f H.
  - left. exact H.
  - rewrite work_loop_cons in H. destruct (b_evict j) eqn:Ev.
    + left. exact H.
    + destruct (set_flags (fire_job j)) as [j2| | |]; cbn [fst snd] in H;
        try (left; exact H).
      apply IH in H. destruct H as [[<-|H]|(k2 & jx & Hin & Hf & He)].
      * right. exists k, j. split; [left; reflexivity|]. split; [reflexivity|exact Ev].
      * left. exact H.
      * right. exists k2, jx. split; [right; exact Hin|]. split; assumption.
Qed.

Lemma c_work_fired c part now ats f : In f (snd (fst (c_work c part now ats))) ->
  exists j, In (fd_key f, j) (c_time c) /\ aid_of j = fd_aid f /\ b_evict j = false /\
            b_once j = fd_once f /\ partition (b_account j) (c_parts c) = part /\
            key_due (fd_key f) now = true /\ fd_now f = now.
Proof.
  rewrite c_work_fires. intros H. apply work_loop_fires in H.
  destruct H as [[]|(k & j & Hin & -> & Ev)].
  apply due_snapshot_In in Hin. cbn [fst snd] in Hin. destruct Hin as (H1 & H2 & H3).
  exists j. cbn [fd_key fd_aid fd_once fd_now]. auto 10.
Qed.

Theorem work_fires_stored_entries : work_fires_stored_entries_statement.
Proof.
  intros c part now ats f H. apply c_work_fired in H.
  destruct H as (j & H1 & H2 & H3 & H4 & H5 & _). exists j. auto.
Qed.

Theorem key_due_iff : key_due_iff_statement.
Proof. intros k now. unfold key_due. apply Z.ltb_lt. Qed.

Theorem key_order_is_time_order : key_order_is_time_order_statement.
Proof.
  intros a b. unfold tkey_cmp. split.
  - intros H. apply Z.compare_lt_iff in H. rewrite H. reflexivity.
  - destruct (Z.compare_spec (fst a) (fst b)); intros Hc; try lia. discriminate Hc.
Qed.

Theorem work_fires_due_only : work_fires_due_only_statement.
Proof.
  intros c part now ats f H. apply c_work_fired in H.
  destruct H as (j & _ & _ & _ & _ & _ & Hd & _).
  split; [exact Hd|apply key_due_iff; exact Hd].
Qed.

(** * One-shot entries become evict entries *)

Lemma work_loop_frame_jobs snap : forall c now ats acc a,
  (forall k j, In (k, j) snap -> aid_of j <> a) ->
  alookup a (c_jobs (fst (fst (work_loop c snap now ats acc)))) = alookup a (c_jobs c).
Proof.
  induction snap as [|[k j] rest IH]; intros c now ats acc a H.
  - reflexivity.
  - assert (Hj : a <> aid_of j).
    { intros E. apply (H k j (or_introl eq_refl)). symmetry; exact E. }
    rewrite work_loop_cons. destruct (b_evict j).
    + cbn [fst]. apply delete_aid_frame_jobs; exact Hj.
    + destruct (set_flags (fire_job j)) as [j2| | |] eqn:Sf; cbn [fst]; try reflexivity.
      destruct (set_fire _ _ Sf) as (Ea & _).
      rewrite IH.
      * apply update_frame_jobs. rewrite Ea. exact Hj.
      * intros k2 jx Hin. apply (H k2 jx). right; exact Hin.
Qed.

Lemma work_loop_once snap : forall c now ats acc c' fs,
  buckets_consistent c -> snap_ok c snap ->
  work_loop c snap now ats acc = (c', fs, Ok tt) ->
  forall f, In f fs ->
    In f acc \/
    (fd_once f = true ->
     exists j', alookup (fd_aid f) (c_jobs c') = Some j' /\ b_evict j' = true /\ b_once j' = true).
Proof.
  induction snap as [|[k j] rest IH]; intros c now ats acc c' fs Hc Hs Hw f Hf.
  - cbn [work_loop] in Hw. injection Hw as <- <-. left; exact Hf.
  - rewrite work_loop_cons in Hw. destruct (b_evict j) eqn:Ev.
    { injection Hw as <- <-. left; exact Hf. }
    destruct (set_flags (fire_job j)) as [j2| | |] eqn:Sf; try discriminate Hw.
    destruct (snap_ok_step c k j rest j2 (fire_at ats now) Hc Hs Sf) as [Hc1 Hs1].
    destruct (IH _ _ _ _ _ _ Hc1 Hs1 Hw f Hf) as [[<-|Hin]|Hr];
      [right|left; exact Hin|right; exact Hr].
    cbn [fd_once fd_aid]. intros Hon.
    destruct (set_fire _ _ Sf) as (Ea & _ & _ & Ho & _). destruct (Ho Hon) as [He2 Ho2].
    destruct (snap_distinct _ _ _ _ Hc Hs) as (_ & _ & Hd).
    assert (Ec : c' = fst (fst (work_loop (update c j2 (fire_at ats now)) rest now (tl ats)
                                  (mkFired (aid_of j) k now (b_once j) :: acc)))).
    { rewrite Hw. reflexivity. }
    rewrite Ec. rewrite work_loop_frame_jobs.
    + rewrite <- Ea. rewrite update_jobs_same. exists (upd_job j2 (fire_at ats now)).
      split; [reflexivity|]. split; [exact He2|exact Ho2].
    + intros k2 jx Hin. apply (Hd k2 jx Hin).
Qed.

Theorem oneshot_becomes_evict : oneshot_becomes_evict_statement.
Proof.
  intros c part now ats c' fs f Hc Hw Hf Hon.
  apply c_work_ok in Hw.
  destruct (work_loop_once _ _ _ _ _ _ _ Hc (due_snapshot_ok c part now Hc) Hw f Hf) as [[]|H].
  apply H; exact Hon.
Qed.

(** * Evict entries are removed *)

Theorem evict_entry_removed : evict_entry_removed_statement.
Proof.
  intros c part now ats k j rest Hc Hsnap Hev.
  unfold c_work. rewrite Hsnap. rewrite work_loop_cons. rewrite Hev.
  split; [reflexivity|]. split; [reflexivity|]. split.
  - apply delete_aid_jobs_same.
  - apply delete_aid_time_same; [exact Hc|].
    destruct (due_snapshot_ok c part now Hc) as [_ Hl].
    assert (Hk : tlookup k (c_time c) = Some j).
    { apply Hl. rewrite Hsnap. left; reflexivity. }
    destruct (bc_entry _ _ _ Hc Hk) as (_ & E & _). exact E.
Qed.

(** * A one-shot job fires at most once per Add *)

(** Reachable states also satisfy: a stored job is an evict entry or has a
    schedule that set can read (Add stores only what set accepted), so the
    work loop never fails and never rolls back. *)
Definition kind_ok (j : bjob) : Prop :=
  b_evict j = true \/ b_kind j = "dur" \/ b_kind j = "cron".

Definition kinds_ok (c : crolt) : Prop :=
  forall a j, alookup a (c_jobs c) = Some j -> kind_ok j.

Lemma set_flags_kind j j' : set_flags j = Ok j' -> kind_ok j'.
Proof.
  unfold set_flags, kind_ok. destruct (b_evict j) eqn:Ev.
  - intros H; injection H as <-. left; exact Ev.
  - destruct (String.eqb_spec (b_kind j) "dur") as [Ed|_].
    + intros H; injection H as <-. right; left. exact Ed.
    + destruct (String.eqb_spec (b_kind j) "cron") as [Ec|_]; [|discriminate].
      intros H; injection H as <-. right; right. exact Ec.
Qed.

Lemma kinds_update c j at_ : kinds_ok c -> kind_ok j -> kinds_ok (update c j at_).
Proof.
  intros Hk Hj a jx. rewrite update_unfold. cbn [c_jobs]. rewrite alookup_ainsert.
  destruct (String.eqb a (aid_of j)).
  - intros H; injection H as <-. exact Hj.
  - apply Hk.
Qed.

Lemma kinds_delete c x : kinds_ok c -> kinds_ok (delete_aid c x).
Proof.
  intros Hk. unfold delete_aid. destruct (alookup x (c_jobs c)); [|exact Hk].
  intros a jx. cbn [c_jobs]. rewrite alookup_aremove.
  destruct (String.eqb a x); [discriminate|]. apply Hk.
Qed.

Lemma kinds_fold_delete aids : forall c, kinds_ok c -> kinds_ok (fold_left delete_aid aids c).
Proof.
  induction aids as [|a r IH]; intros c Hk; cbn [fold_left]; [exact Hk|].
  apply IH. apply kinds_delete; exact Hk.
Qed.

(** 1 if the job is stored and has not yet become an evict entry. *)
Definition pend (c : crolt) (aid : string) : nat :=
  match alookup aid (c_jobs c) with
  | Some j => if b_evict j then 0%nat else 1%nat
  | None => 0%nat
  end.

Lemma pend_le1 c aid : (pend c aid <= 1)%nat.
Proof. unfold pend. destruct (alookup aid (c_jobs c)) as [j|]; [destruct (b_evict j)|]; lia. Qed.

Lemma pend_update_same c j at_ :
  pend (update c j at_) (aid_of j) = if b_evict j then 0%nat else 1%nat.
Proof. unfold pend. rewrite update_jobs_same. reflexivity. Qed.

Lemma pend_update_other c j at_ aid : aid <> aid_of j -> pend (update c j at_) aid = pend c aid.
Proof. intros H. unfold pend. rewrite update_frame_jobs by exact H. reflexivity. Qed.

Lemma pend_delete c x aid : (pend (delete_aid c x) aid <= pend c aid)%nat.
Proof.
  unfold pend. destruct (String.eqb_spec aid x) as [->|Hne].
  - rewrite delete_aid_jobs_same. lia.
  - rewrite delete_aid_frame_jobs by exact Hne. lia.
Qed.

Lemma pend_fold_delete aids aid : forall c,
  (pend (fold_left delete_aid aids c) aid <= pend c aid)%nat.
Proof.
  induction aids as [|a r IH]; intros c; cbn [fold_left]; [lia|].
  specialize (IH (delete_aid c a)). pose proof (pend_delete c a aid). lia.
Qed.

Lemma filter_cons_len {A} (p : A -> bool) x l :
  length (filter p (x :: l)) = ((if p x then 1 else 0) + length (filter p l))%nat.
Proof. cbn [filter]. destruct (p x); reflexivity. Qed.

Lemma work_loop_count aid snap : forall c now ats acc,
  buckets_consistent c -> kinds_ok c -> snap_ok c snap ->
  exists c' fs, work_loop c snap now ats acc = (c', fs, Ok tt) /\ kinds_ok c' /\
    (length (filter (is_once_fire aid) fs) + pend c' aid
     <= length (filter (is_once_fire aid) acc) + pend c aid)%nat.
Proof.
  induction snap as [|[k j] rest IH]; intros c now ats acc Hc Hk Hs.
  - exists c, acc. split; [reflexivity|]. split; [exact Hk|lia].
  - rewrite work_loop_cons.
    destruct (snap_distinct _ _ _ _ Hc Hs) as (Hkj & _ & _).
    destruct (bc_entry _ _ _ Hc Hkj) as (T & E & A). rewrite E in A.
    destruct (b_evict j) eqn:Ev.
    + exists (delete_aid c (aid_of j)), acc. split; [reflexivity|].
      split; [apply kinds_delete; exact Hk|].
      pose proof (pend_delete c (aid_of j) aid). lia.
    + assert (Hex : exists j2, set_flags (fire_job j) = Ok j2).
      { unfold fire_job. destruct (b_once j) eqn:On.
        - eexists; reflexivity.
        - unfold set_flags. rewrite Ev.
          destruct (Hk _ _ A) as [H|[H|H]]; [congruence| |]; rewrite H; eexists; reflexivity. }
      destruct Hex as [j2 Sf]. rewrite Sf.
      destruct (snap_ok_step c k j rest j2 (fire_at ats now) Hc Hs Sf) as [Hc1 Hs1].
      pose proof (kinds_update c j2 (fire_at ats now) Hk (set_flags_kind _ _ Sf)) as Hk1.
      destruct (IH (update c j2 (fire_at ats now)) now (tl ats)
                   (mkFired (aid_of j) k now (b_once j) :: acc) Hc1 Hk1 Hs1)
        as (c' & fs & Hw & Hk' & Hle).
      exists c', fs. split; [exact Hw|]. split; [exact Hk'|].
      rewrite filter_cons_len in Hle.
      assert (Hf0 : is_once_fire aid (mkFired (aid_of j) k now (b_once j))
                    = String.eqb (aid_of j) aid && b_once j) by reflexivity.
      rewrite Hf0 in Hle. clear Hf0.
      destruct (set_fire _ _ Sf) as (Ea & _ & _ & Ho & Hno).
      assert (Hstep : ((if String.eqb (aid_of j) aid && b_once j then 1 else 0)
                       + pend (update c j2 (fire_at ats now)) aid <= pend c aid)%nat).
      { destruct (String.eqb_spec (aid_of j) aid) as [Eaid|Hne]; cbn [andb].
        - subst aid. assert (Hp : pend c (aid_of j) = 1%nat).
          { unfold pend. rewrite A, Ev. reflexivity. }
          rewrite Hp. rewrite <- Ea. rewrite pend_update_same.
          destruct (b_once j) eqn:On.
          + destruct (Ho eq_refl) as [He2 _]. rewrite He2. lia.
          + destruct (b_evict j2); lia.
        - rewrite pend_update_other; [lia|]. rewrite Ea. congruence. }
      lia.
Qed.

Lemma c_add_cases c j at_ :
  fst (c_add c j at_) = c \/
  exists j', set_flags j = Ok j' /\ fst (c_add c j at_) = update c (with_tid j' None) at_.
Proof.
  unfold c_add. destruct (gen_aid (b_account j) (b_id j)); cbn [fst]; auto.
  destruct (alookup a (c_jobs c)); cbn [fst]; auto.
  destruct (set_flags j) as [j'| | |]; cbn [fst]; auto.
  right. exists j'. split; reflexivity.
Qed.

Lemma crolt_step_count aid c o : buckets_consistent c -> kinds_ok c ->
  kinds_ok (bstep c o) /\
  (length (filter (is_once_fire aid) (bfires c o)) + pend (bstep c o) aid
   <= pend c aid + (if is_badd aid o then 1 else 0))%nat.
Proof.
  intros Hc Hk. destruct o as [j at_|a i|a|p now ats|]; cbn [bstep bfires filter length is_badd].
  - destruct (c_add_cases c j at_) as [->|(j' & Sf & ->)].
    + split; [exact Hk|]. destruct (String.eqb (aid_of j) aid); lia.
    + split; [apply kinds_update; [exact Hk|exact (set_flags_kind _ _ Sf)]|].
      destruct (set_flags_ok _ _ Sf) as (A & I & _).
      pose proof (aid_of_eq j j' A I) as Ea.
      destruct (String.eqb_spec (aid_of j) aid) as [Eaid|Hne].
      * pose proof (pend_le1 (update c (with_tid j' None) at_) aid). lia.
      * rewrite pend_update_other; [lia|].
        replace (aid_of (with_tid j' None)) with (aid_of j') by reflexivity.
        rewrite Ea. congruence.
  - unfold c_delete. destruct (gen_aid a i); cbn [fst]; (split; [|try lia]); try exact Hk.
    + apply kinds_delete; exact Hk.
    + pose proof (pend_delete c a0 aid). lia.
  - unfold c_delete_account. split; [apply kinds_fold_delete; exact Hk|].
    match goal with |- context [fold_left delete_aid ?l c] =>
      pose proof (pend_fold_delete l aid c) end. lia.
  - destruct (work_loop_count aid (due_snapshot c p now) c now ats [] Hc Hk
                (due_snapshot_ok c p now Hc)) as (c' & fs & Hw & Hk' & Hle).
    assert (Hcw : c_work c p now ats = (c', fs, Ok tt)).
    { unfold c_work. rewrite Hw. reflexivity. }
    rewrite Hcw. cbn [fst snd]. split; [exact Hk'|]. cbn [filter length] in Hle. lia.
  - unfold c_reopen. split; [exact Hk|lia].
Qed.

Lemma crolt_run_count aid ops : forall c acc,
  buckets_consistent c -> kinds_ok c ->
  (length (filter (is_once_fire aid) (brun_fires ops c acc))
   <= length (filter (is_once_fire aid) acc) + pend c aid
      + length (filter (is_badd aid) ops))%nat.
Proof.
  induction ops as [|o r IH]; intros c acc Hc Hk; cbn [brun_fires filter].
  - cbn [length]. lia.
  - destruct (crolt_step_count aid c o Hc Hk) as [Hk' Hle].
    specialize (IH (bstep c o) (bfires c o ++ acc)%list
                   (buckets_consistent_step c o Hc) Hk').
    rewrite filter_app, app_length in IH.
    destruct (is_badd aid o); cbn [length]; lia.
Qed.

Theorem crolt_oneshot_fires_at_most_once : crolt_oneshot_fires_at_most_once_statement.
Proof.
  intros ops parts aid.
  pose proof (crolt_run_count aid ops (crolt_init parts) [] (init_bc parts)) as H.
  assert (Hk : kinds_ok (crolt_init parts)).
  { intros a j Hl. discriminate Hl. }
  specialize (H Hk). cbn [filter length] in H.
  assert (Hp : pend (crolt_init parts) aid = 0%nat) by reflexivity.
  lia.
Qed.

(** * Closed examples and counterexamples *)

(** D40 repaired: the trace on which a client TId removed another job's time
    entry; the TId is ignored now and the buckets stay consistent. *)
Example client_tid_ignored_example :
  let ops := [BAdd (mkB "homer" "1" "dur" false false None) 5000;
              BAdd (mkB "homer" "9" "dur" false false (Some (5000, "homer,1"))) 6000] in
  let c := brun ops (crolt_init 2) in
  (exists j, alookup "homer,1" (c_jobs c) = Some j /\ b_tid j = Some (5000, "homer,1") /\
             tlookup (5000, "homer,1") (c_time c) = Some j) /\
  map fst (c_time c) = [(5000, "homer,1"); (6000, "homer,9")].
Proof.
  cbv zeta. split.
  - eexists. repeat split; vm_compute; reflexivity.
  - vm_compute. reflexivity.
Qed.

(** D39 repaired: the instants on which the string order of the trimmed keys
    disagreed with the time order.  An entry due 50 ms after now is not due ... *)
Example subsecond_not_early_example :
  key_due (5550000000, "a,x") 5500000000 = false.
Proof. vm_compute. reflexivity. Qed.

(** ... an entry that was due 50 ms ago is ... *)
Example due_entry_not_deferred_example :
  key_due (5500000000, "a,x") 5550000000 = true.
Proof. vm_compute. reflexivity. Qed.

(** ... and an entry on a whole second is due within that second. *)
Example whole_second_key_due_in_its_second_example :
  key_due (5000000000, "a,x") 5300000000 = true /\
  key_due (5000000000, "a,x") 5000000000 = false /\
  tkey_cmp (5000000000, "a,x") (5300000000, "a,x") = Lt /\
  tkey_cmp (5500000000, "a,x") (5550000000, "a,x") = Lt.
Proof. repeat split; vm_compute; reflexivity. Qed.

(** Partition uses the first bytes of the account, not its hash. *)
Lemma partition_ignores_hash_example :
  partition "homer" 2 = 1 /\ partition "ab" 2 = 0 /\ partition "" 2 = 1.
Proof. repeat split; vm_compute; reflexivity. Qed.

(** The rollback of a failed work call does not undo the firings already made. *)
Lemma work_rollback_keeps_firings_example :
  let j1 := mkB "a" "x" "cron" false false (Some (1000, "a,x")) in
  let j2 := mkB "a" "y" "bad" false false (Some (2000, "a,y")) in
  let c := mkC [("a,x", j1); ("a,y", j2)] [((1000, "a,x"), j1); ((2000, "a,y"), j2)] 1 in
  c_work c 0 2000000000 [3000] =
    (c, [mkFired "a,x" (1000, "a,x") 2000000000 false], Err "schedule").
Proof. vm_compute. reflexivity. Qed.

(** Why the time bucket must be a map (the NoDup clause of
    buckets_consistent): with a shadowed duplicate key the two lookup clauses
    alone are not preserved by work. *)
Definition lookup_clauses (c : crolt) : Prop :=
  (forall aid j, alookup aid (c_jobs c) = Some j ->
     aid_of j = aid /\
     exists t, b_tid j = Some t /\ snd t = aid /\ tlookup t (c_time c) = Some j) /\
  (forall t j, tlookup t (c_time c) = Some j ->
     b_tid j = Some t /\ snd t = aid_of j /\ alookup (aid_of j) (c_jobs c) = Some j).

Lemma shadowed_duplicate_breaks_step_example :
  let k := (1000, "b,y") in
  let jb := mkB "b" "y" "cron" false false (Some k) in
  let js := mkB "b" "y" "cron" false false None in
  let c := mkC [("b,y", jb)] [(k, jb); (k, js)] 1 in
  lookup_clauses c /\ ~ lookup_clauses (bstep c (BWork 0 2000000000 [3000; 4000])).
Proof.
  cbv zeta. split.
  - split.
    + intros aid j. cbn [c_jobs alookup].
      destruct (String.eqb_spec aid "b,y") as [->|Hne]; [|discriminate].
      intros H. injection H as <-. split; [reflexivity|].
      exists (1000, "b,y"). repeat split; reflexivity.
    + intros t j. cbn [c_time tlookup].
      destruct (tkey_eqb_spec t (1000, "b,y")) as [->|Hne]; [|discriminate].
      intros H. injection H as <-. repeat split; reflexivity.
  - intros [_ HB].
    specialize (HB (3000, "b,y") (mkB "b" "y" "cron" false false (Some (3000, "b,y"))) eq_refl).
    destruct HB as (_ & _ & HB). vm_compute in HB. discriminate HB.
Qed.

(** The hypotheses of the theorems are satisfiable. *)
Example history_example :
  exists ops, c_jobs (brun ops (crolt_init 2)) <> [].
Proof.
  exists [BAdd (mkB "homer" "1" "dur" false false None) 5000;
          BWork 1 2000000000 [7000]; BReopen].
  vm_compute. discriminate.
Qed.

Example oneshot_becomes_evict_example :
  exists c part now ats c' fs f,
    buckets_consistent c /\ c_work c part now ats = (c', fs, Ok tt) /\
    In f fs /\ fd_once f = true.
Proof.
  exists (brun [BAdd (mkB "homer" "1" "dur" false false None) 5000] (crolt_init 2)),
         1, 2000000000, [7000].
  eexists. eexists. eexists.
  split; [apply buckets_consistent_reachable; repeat constructor|].
  split; [vm_compute; reflexivity|].
  split; [left; reflexivity|reflexivity].
Qed.

Example evict_entry_removed_example :
  exists c part now k j rest,
    buckets_consistent c /\ due_snapshot c part now = (k, j) :: rest /\ b_evict j = true.
Proof.
  exists (brun [BAdd (mkB "homer" "1" "dur" false false None) 5000;
                BWork 1 2000000000 [7000]] (crolt_init 2)),
         1, 3000000000.
  eexists. eexists. eexists.
  split; [apply buckets_consistent_reachable; repeat constructor|].
  split; [vm_compute; reflexivity|reflexivity].
Qed.

(** * The time bucket is in the order of the instants (D39 repaired) *)

Lemma tkey_ltb_false_le k k' : tkey_ltb k k' = false -> fst k' <= fst k.
Proof.
  unfold tkey_ltb, tkey_cmp. destruct (Z.compare_spec (fst k) (fst k')); intros Hb; first [lia | discriminate Hb].
Qed.

Lemma tkey_ltb_true_le k k' : tkey_ltb k k' = true -> fst k <= fst k'.
Proof.
  unfold tkey_ltb, tkey_cmp. destruct (Z.compare_spec (fst k) (fst k')); intros Hb; first [lia | discriminate Hb].
Qed.

Lemma sorted_tins k v m : StronglySorted by_instant m -> StronglySorted by_instant (tins k v m).
Proof.
  induction m as [|[k1 v1] r IH]; intros Hs; cbn [tins].
  - constructor; constructor.
  - inversion Hs as [|? ? Hr Hall]; subst.
    destruct (tkey_ltb k k1) eqn:E.
    + constructor; [exact Hs|]. constructor.
      * unfold by_instant. cbn [fst]. apply tkey_ltb_true_le; exact E.
      * apply tkey_ltb_true_le in E.
        eapply Forall_impl; [|exact Hall]. intros y Hy. unfold by_instant in *. cbn [fst] in *. lia.
    + constructor; [apply IH; exact Hr|].
      apply tkey_ltb_false_le in E.
      assert (Hin : forall y, In y (tins k v r) -> y = (k, v) \/ In y r).
      { clear. induction r as [|[k2 v2] r IH]; cbn [tins]; intros y Hy.
        - destruct Hy as [<-|[]]. left; reflexivity.
        - destruct (tkey_ltb k k2).
          + destruct Hy as [<-|Hy]; [left; reflexivity|right; exact Hy].
          + destruct Hy as [<-|Hy]; [right; left; reflexivity|].
            destruct (IH y Hy) as [->|H]; [left; reflexivity|right; right; exact H]. }
      apply Forall_forall. intros y Hy. destruct (Hin y Hy) as [->|Hy'].
      * unfold by_instant. cbn [fst]. exact E.
      * rewrite Forall_forall in Hall. apply Hall; exact Hy'.
Qed.

Lemma sorted_tremove k m : StronglySorted by_instant m -> StronglySorted by_instant (tremove k m).
Proof.
  induction m as [|[k1 v1] r IH]; intros Hs; cbn [tremove]; [constructor|].
  inversion Hs as [|? ? Hr Hall]; subst.
  destruct (tkey_eqb k k1); [apply IH; exact Hr|].
  constructor; [apply IH; exact Hr|].
  apply Forall_forall. intros y Hy. rewrite Forall_forall in Hall. apply Hall.
  clear -Hy. induction r as [|[k2 v2] r IH]; cbn [tremove] in Hy; [destruct Hy|].
  destruct (tkey_eqb k k2).
  - right. apply IH; exact Hy.
  - destruct Hy as [<-|Hy]; [left; reflexivity|right; apply IH; exact Hy].
Qed.

Definition time_sorted (c : crolt) : Prop := StronglySorted by_instant (c_time c).

Lemma sorted_update c j at_ : time_sorted c -> time_sorted (update c j at_).
Proof.
  unfold time_sorted, update. intros Hs. cbn [c_time]. unfold tput.
  apply sorted_tins. apply sorted_tremove.
  destruct (b_tid j); [apply sorted_tremove|]; exact Hs.
Qed.

Lemma sorted_delete c aid : time_sorted c -> time_sorted (delete_aid c aid).
Proof.
  unfold time_sorted, delete_aid. intros Hs. destruct (alookup aid (c_jobs c)); [|exact Hs].
  cbn [c_time]. destruct (b_tid b); [apply sorted_tremove|]; exact Hs.
Qed.

Lemma sorted_fold_delete aids : forall c, time_sorted c -> time_sorted (fold_left delete_aid aids c).
Proof.
  induction aids as [|a r IH]; intros c Hs; cbn [fold_left]; [exact Hs|].
  apply IH. apply sorted_delete; exact Hs.
Qed.

Lemma sorted_work_loop snap : forall c now ats acc, time_sorted c ->
  time_sorted (fst (fst (work_loop c snap now ats acc))).
Proof.
  induction snap as [|[k j] rest IH]; intros c now ats acc Hs; cbn [work_loop fst]; [exact Hs|].
  destruct (b_evict j); cbn [fst]; [apply sorted_delete; exact Hs|].
  match goal with |- context [set_flags ?x] => destruct (set_flags x) end; cbn [fst]; try exact Hs.
  apply IH. apply sorted_update; exact Hs.
Qed.

Lemma sorted_bstep c o : time_sorted c -> time_sorted (bstep c o).
Proof.
  intros Hs. destruct o as [j at_|a i|a|p now ats|]; cbn [bstep].
  - unfold c_add. destruct (gen_aid (b_account j) (b_id j)); cbn [fst]; try exact Hs.
    destruct (alookup a (c_jobs c)); cbn [fst]; try exact Hs.
    destruct (set_flags j); cbn [fst]; try exact Hs. apply sorted_update; exact Hs.
  - unfold c_delete. destruct (gen_aid a i); cbn [fst]; try exact Hs. apply sorted_delete; exact Hs.
  - unfold c_delete_account. apply sorted_fold_delete; exact Hs.
  - unfold c_work.
    pose proof (sorted_work_loop (due_snapshot c p now) c now ats [] Hs) as H.
    destruct (work_loop c (due_snapshot c p now) now ats []) as [[c' fs] r]. cbn [fst] in *.
    destruct r; cbn [fst]; assumption.
  - exact Hs.
Qed.

Theorem time_bucket_in_time_order : time_bucket_in_time_order_statement.
Proof.
  intros ops parts. change (time_sorted (brun ops (crolt_init parts))).
  assert (H : forall c, time_sorted c -> time_sorted (brun ops c)).
  { induction ops as [|o r IH]; intros c Hs; cbn [brun fold_left]; [exact Hs|].
    apply IH. apply sorted_bstep; exact Hs. }
  apply H. constructor.
Qed.

Lemma sorted_filter (p : tkey * bjob -> bool) m :
  StronglySorted by_instant m -> StronglySorted by_instant (filter p m).
Proof.
  induction m as [|x r IH]; intros Hs; cbn [filter]; [constructor|].
  inversion Hs as [|? ? Hr Hall]; subst.
  destruct (p x); [|apply IH; exact Hr].
  constructor; [apply IH; exact Hr|].
  apply Forall_forall. intros y Hy. apply filter_In in Hy. rewrite Forall_forall in Hall.
  apply Hall. apply Hy.
Qed.

Theorem due_entry_is_served : due_entry_is_served_statement.
Proof.
  intros ops parts part now k j c Hin Hp Hd.
  pose proof (time_bucket_in_time_order ops parts) as Hs. fold c in Hs.
  unfold due_snapshot.
  set (p := fun kv : tkey * bjob => partition (b_account (snd kv)) (c_parts c) =? part).
  assert (Hf : In (k, j) (filter p (c_time c))).
  { apply filter_In. split; [exact Hin|]. unfold p. cbn [snd]. apply Z.eqb_eq. exact Hp. }
  pose proof (sorted_filter p _ Hs) as Hsf.
  destruct (filter p (c_time c)) as [|x r] eqn:E; [destruct Hf|].
  assert (Hx : key_due (fst x) now = true).
  { apply key_due_iff. apply key_due_iff in Hd.
    destruct Hf as [->|Hr]; [exact Hd|].
    inversion Hsf as [|? ? _ Hall]; subst. rewrite Forall_forall in Hall.
    specialize (Hall _ Hr). unfold by_instant in Hall. cbn [fst] in Hall. lia. }
  cbn [take_while]. rewrite Hx. cbn [firstn]. discriminate.
Qed.
