(** C13 (totality): proofs of the statements of TotalSpec.v.
    Supporting developments: TotalMatch (the matcher on ground data),
    TotalQuery (ParseQuery), TotalState (the state API), TotalSys (locations,
    the ancestor walk with an invariant, queries, event processing),
    TotalNoPanic (no panic, unconditionally). *)
From Coq Require Import Lia.
From Verif Require Import Json Outcome Match PatIndex State Location SysOps Query QueryOps Events.
From Verif Require Import StateSpec MatchLemmas1 AssocLemmas CascadeSpec CascadeLemmas1 GateProofs
  DurableSpec DurableExpiry DurableFail DurableReload PatIndexSpec PatIndexProofs
  LocSpec LocBasics LocProofs TotalSpec TotalMatch TotalQuery TotalState TotalSys TotalNoPanic.
From Verif Require C05_open.

(** * 1. The matcher *)

Theorem core_match_total_ground : core_match_total_ground_statement.
Proof. exact TotalMatch.core_match_total_ground. Qed.

Theorem core_match_ground_results : core_match_ground_results_statement.
Proof. exact TotalMatch.core_match_ground_results. Qed.

Theorem jmatch_never_panics : jmatch_never_panics_statement.
Proof. exact TotalMatch.jmatch_never_panics. Qed.

Theorem core_match_total_ground_pattern : core_match_total_ground_pattern_statement.
Proof. exact TotalMatch.core_match_total_ground_pattern. Qed.

(** The fuel that suffices, explicitly: with B a bound on the size of the data
    and of every bound value, [jsize p + B + 1] levels are enough. *)
Theorem jmatch_fuel_bound : forall B fuel p d bs,
  ground d = true -> ground_bs bs = true ->
  (jsize d <= B)%nat -> (forall k v, In (k, v) bs -> (jsize v <= B)%nat) ->
  (jsize p + B + 1 <= fuel)%nat ->
  answers (jmatch fuel p d bs).
Proof.
  intros B fuel p d bs Hd Hb Hsd Hsb Hf.
  eapply okr_answers. apply (jmatch_total_gen B).
  - pose proof (jsize_pos d). lia.
  - split; assumption.
  - apply Forall_forall. intros [k v] Hin. cbn [snd]. split.
    + unfold ground_bs in Hb. rewrite forallb_forall in Hb. exact (Hb (k, v) Hin).
    + eapply Hsb; eauto.
  - unfold need. destruct (ground p); lia.
Qed.

(** * 2. ParseQuery *)

Theorem parse_query_total : parse_query_total_statement.
Proof. exact TotalQuery.parse_query_total. Qed.

(** * 3. The state API *)

Lemma answers_of_obad {A} (o : outcome A) : obad o = false -> answers o.
Proof. apply obad_answers. Qed.

Theorem state_ops_total_sharp : state_ops_total_sharp_statement.
Proof.
  intros s now. split; [|split; [|split; [|split; [|split; [|split]]]]].
  - intros. apply answers_of_obad, st_add_obad.
  - intros. apply answers_of_obad, st_Rem_obad.
  - intros. apply answers_of_obad, st_get_obad.
  - apply answers_of_obad, st_clear_obad.
  - intros. apply answers_of_obad, st_load_obad.
  - intros. apply answers_of_obad, st_find_rules_obad. assumption.
  - intros. apply answers_of_obad, st_search_obad. assumption.
Qed.

Theorem state_ops_total : state_ops_total_statement.
Proof.
  intros s now _ Hg. destruct (state_ops_total_sharp s now) as (H1 & H2 & H3 & H4 & H5 & H6 & H7).
  split; [|split; [|split; [|split; [|split; [|split]]]]]; intros; auto.
Qed.

Theorem st_ground_preserved : st_ground_preserved_statement.
Proof.
  intros s now Hg. repeat split; intros.
  - apply st_add_ground; assumption.
  - apply st_ground_Rem; assumption.
  - apply st_ground_get; assumption.
  - apply st_ground_search; assumption.
  - apply st_ground_find_rules; assumption.
  - apply st_clear_ground; assumption.
  - apply st_load_ground; assumption.
Qed.

Theorem st_store_ground_preserved : st_store_ground_preserved_statement.
Proof.
  intros s now Hg. repeat split; intros.
  - apply st_add_store_ground; assumption.
  - apply st_store_ground_Rem; assumption.
  - apply st_store_ground_get; assumption.
  - apply st_store_ground_search; assumption.
  - apply st_store_ground_find_rules; assumption.
  - apply st_clear_store_ground; assumption.
  - apply st_load_ground; assumption.
Qed.

Theorem st_ground_lookup : st_ground_lookup_statement.
Proof.
  intros s. split.
  - intros Hg id f Hl. eapply ground_list_lookup; eauto.
  - intros (Hw & _ & _) H. unfold st_ground, ground_list. apply forallb_forall. intros [id f] Hin.
    cbn [snd]. apply (H id). apply DurableReload.In_sorted_alookup; assumption.
Qed.

Theorem index_walks_total : index_walks_total_statement.
Proof.
  split.
  - intros n ev. apply answers_of_obad. apply pi_search_obad.
  - exact pi_mod_fuel_ok.
Qed.

(** * 4. The Location API, queries, event processing *)

Theorem sys_step_total : sys_step_total_statement.
Proof. intros sy name c e op. apply sys_step_obad. Qed.

Theorem sys_step_total_any_system : sys_step_total_any_system_statement.
Proof. intros sy name c e op. apply sys_step_obad_any. Qed.

Theorem sys_step_keeps_ground : sys_step_keeps_ground_statement.
Proof.
  intros sy name c e op Hw Hg Hop. split; [|apply sys_step_ground; assumption].
  destruct (sys_step sy name c e op) as [sy' r] eqn:E. cbn [fst]. eapply step_wf; eauto.
Qed.

Lemma lop_ground_event op : lop_ground op -> lop_event_ground op.
Proof. destruct op; cbn; auto. Qed.

Theorem history_total : history_total_statement.
Proof.
  intros h. induction h as [|q r IH]; intros sy Hw Hg Hh.
  - cbn. auto.
  - assert (Hq : lop_ground (r_op q)) by (apply Hh; left; reflexivity).
    destruct (sys_step_keeps_ground sy (r_loc q) (r_ctx q) (r_env q) (r_op q) Hw Hg Hq) as [Hw' Hg'].
    destruct (IH (sys_do sy q) Hw' Hg' (fun q' Hq' => Hh q' (or_intror Hq'))) as (H1 & H2 & H3).
    cbn [run_answers sys_run fold_left]. split; [split; [|exact H1]|split; assumption].
    apply sys_step_total; auto. apply lop_ground_event. exact Hq.
Qed.

Theorem sys_query_total : sys_query_total_statement.
Proof.
  intros sy name c e sem q Hw Hg.
  destruct (sys_query_total_main sy name c e sem q Hw Hg) as [H1 [H2 H3]]. auto.
Qed.

Theorem process_event_total : process_event_total_statement.
Proof.
  intros sy name c e sem ev Hw Hg Hev.
  destruct (process_event_total_main sy name c e sem ev Hw Hg Hev) as [H1 [H2 H3]]. auto.
Qed.

Theorem search_ground_pattern_total : search_ground_pattern_total_statement.
Proof.
  split.
  - intros s p now Hg. apply answers_of_obad. apply st_search_ground_pattern_obad. exact Hg.
  - intros sy name c e p inh. apply sys_step_search_gp_obad.
Qed.

(** * 5. Rejected inputs *)

Theorem rejected_input_keeps_state : rejected_input_keeps_state_statement.
Proof.
  split; [|split; [|split; [|split]]].
  - exact st_add_rejected_untouched.
  - intros A. exact refused_unchanged_main.
  - intros l c e id rule x Hne Hr. unfold loc_add_rule, gated.
    pose proof (run_gates_noexp (gates_of "AddRule") l c (e_now e) Hne) as Hfst.
    destruct (run_gates (gates_of "AddRule") l c (e_now e)) as [l' [err|]]; cbn [fst] in Hfst; subst l'.
    + eauto.
    + rewrite Hr. eauto.
  - intros sy name l c e sem q x Hw Hg Hne Hp. unfold sys_query. rewrite Hg.
    pose proof (enabled_noexp l (e_now e) Hne) as He.
    destruct (enabled l (e_now e)) as [l1 en]. cbn [fst] in He. subst l1.
    rewrite (sys_set_same_id sy name l Hw Hg).
    destruct (negb en); [eauto|]. rewrite Hp. eauto.
  - intros s now Hne Hp. split; [|split].
    + intros id. apply DurableExpiry.st_get_noexp; assumption.
    + intros p. apply DurableExpiry.st_search_noexp; assumption.
    + intros ev. apply DurableExpiry.st_find_rules_noexp; assumption.
Qed.

(** * 6. No panic *)

Lemma never_of_opanic {A} (o : outcome A) : opanic o = false -> never_panics o.
Proof. intros H. apply npo_never. apply npo_opanic. exact H. Qed.

Lemma never_of_obad {A} (o : outcome A) : obad o = false -> never_panics o.
Proof. intros H. apply never_of_opanic. apply obad_opanic. exact H. Qed.

Theorem no_panic_constructor : no_panic_constructor_statement.
Proof.
  split; [|split; [|split; [|split; [|split]]]].
  - intros fuel p d bs. apply npo_never. apply jmatch_npo.
  - intros sem fuel q H. apply never_of_obad. eapply okr_obad. apply parse_query_ok. exact H.
  - intros s now. split; [|split; [|split; [|split; [|split; [|split]]]]]; intros.
    + apply never_of_obad, st_add_obad.
    + apply never_of_obad, st_Rem_obad.
    + apply never_of_obad, st_get_obad.
    + apply never_of_opanic, st_search_opanic.
    + apply never_of_opanic, st_find_rules_opanic.
    + apply never_of_obad, st_clear_obad.
    + apply never_of_obad, st_load_obad.
  - exact sys_step_opanic.
  - intros sy name c e sem q. apply never_of_opanic, sys_query_opanic.
  - exact process_event_opanic.
Qed.

(** the separate corollaries *)
Corollary core_match_never_panics p d bs : never_panics (core_match p d bs).
Proof. apply (proj1 no_panic_constructor). Qed.
Corollary parse_query_never_panics sem q : never_panics (parse_query sem (parse_fuel q) q).
Proof. apply (proj1 (proj2 no_panic_constructor)). unfold parse_fuel. lia. Qed.
Corollary st_add_never_panics s g x now fr aux : never_panics (snd (st_add s g x now fr aux)).
Proof. apply never_of_obad, st_add_obad. Qed.
Corollary st_Rem_never_panics s id now : never_panics (snd (st_Rem s id now)).
Proof. apply never_of_obad, st_Rem_obad. Qed.
Corollary st_get_never_panics s id now : never_panics (snd (st_get s id now)).
Proof. apply never_of_obad, st_get_obad. Qed.
Corollary st_search_never_panics s p now : never_panics (snd (st_search s p now)).
Proof. apply never_of_opanic, st_search_opanic. Qed.
Corollary st_find_rules_never_panics s ev now : never_panics (snd (st_find_rules s ev now)).
Proof. apply never_of_opanic, st_find_rules_opanic. Qed.
Corollary st_clear_never_panics s : never_panics (snd (st_clear s)).
Proof. apply never_of_obad, st_clear_obad. Qed.
Corollary st_load_never_panics k hooks store now : never_panics (snd (st_load k hooks store now)).
Proof. apply never_of_obad, st_load_obad. Qed.
Corollary st_rem_never_panics s id now : never_panics (snd (st_rem s id now)).
Proof. apply never_of_obad, st_rem_obad. Qed.
Corollary sys_step_never_panics sy name c e op : lres_panic (snd (sys_step sy name c e op)) = false.
Proof. apply sys_step_opanic. Qed.
Corollary sys_query_never_panics sy name c e sem q : never_panics (snd (sys_query sy name c e sem q)).
Proof. apply never_of_opanic, sys_query_opanic. Qed.
Corollary process_event_never_panics sy name c e sem ev :
  walk_panic (snd (process_event sy name c e sem ev)) = false.
Proof. apply process_event_opanic. Qed.

(** * 7. The groundness hypotheses are necessary *)

(** D12 (a binding that refers to itself): for every amount of fuel. *)
Definition nonground_data_can_diverge :
  forall fuel d, jmatch fuel (JStr "?x") d [("?x", JStr "?x")] = OutOfFuel
  := C05_open.match_diverges.

(** With no initial bindings at all, data that contains one string starting
    with "?" is enough: the first occurrence of ?x binds it to the datum "?x",
    the second re-enters with that binding as the pattern, for ever. *)
Definition dv_pat : json := JObj [("a", JStr "?x"); ("b", JStr "?x")].
Definition dv_data : json := JObj [("a", JStr "?x"); ("b", JNum 1)].

Lemma nonground_data_diverges_counterexample :
  ground dv_data = false /\ ground_bs [] = true /\ core_match dv_pat dv_data [] = OutOfFuel.
Proof. vm_compute; repeat split; reflexivity. Qed.

Lemma nonground_data_diverges_every_fuel : forall fuel, jmatch fuel dv_pat dv_data [] = OutOfFuel.
Proof.
  intros fuel. destruct fuel as [|[|f]]; [reflexivity|reflexivity|].
  change (jmatch (S (S f)) dv_pat dv_data []) with (match_body (jmatch (S f)) dv_pat dv_data []).
  unfold dv_pat, dv_data, match_body.
  change ((1 <? length [("a", JStr "?x"); ("b", JStr "?x")])%nat && any_var_key [("a", JStr "?x"); ("b", JStr "?x")])
    with false. cbv iota.
  cbn [mapcat length Nat.eqb]. change (is_var "a") with false. change (is_var "b") with false. cbv iota.
  change (alookup "a" [("a", JStr "?x"); ("b", JNum 1)]) with (Some (JStr "?x")).
  change (alookup "b" [("a", JStr "?x"); ("b", JNum 1)]) with (Some (JNum 1)). cbv iota.
  cbn [match_all].
  change (jmatch (S f) (JStr "?x") (JStr "?x") []) with (Ok [[("?x", JStr "?x")]] : outcome (list bindings)).
  cbn [obind app match_all].
  rewrite C05_open.match_diverges. reflexivity.
Qed.

(** Reachable through the public API: a stored RULE is a fact whose `when`
    pattern contains variables; a fact search whose pattern mirrors the rule
    (same variable twice) makes the matcher re-enter for ever.  So
    [sys_ground] cannot be dropped from [sys_step_total] for searches. *)
Definition dv_rule : json :=
  JObj [("action", JObj [("code", JStr "1")]); ("when", JObj [("pattern", dv_pat)])].
Definition dv_query : json := JObj [("rule", JObj [("when", JObj [("pattern", dv_pat)])])].
Definition dv_sys (k : skind) : system := [("loc", mkLoc (empty_state k false) false 100)].
Definition dv_ctx : ctx := mkCtx "" "".
Definition dv_env : env := mkEnv 0 "fresh" None.

Lemma search_over_stored_rule_diverges_counterexample : forall k,
  let '(sy1, r1) := sys_step (dv_sys k) "loc" dv_ctx dv_env (LAddRule "r1" dv_rule) in
  r1 = RId (Ok "r1") /\
  snd (sys_step sy1 "loc" dv_ctx dv_env (LSearch dv_query false)) = RFound OutOfFuel.
Proof. intros []; vm_compute; split; reflexivity. Qed.

(** * Assumptions *)
Print Assumptions core_match_total_ground.
Print Assumptions core_match_ground_results.
Print Assumptions jmatch_never_panics.
Print Assumptions core_match_total_ground_pattern.
Print Assumptions search_ground_pattern_total.
Print Assumptions jmatch_fuel_bound.
Print Assumptions parse_query_total.
Print Assumptions state_ops_total.
Print Assumptions state_ops_total_sharp.
Print Assumptions st_ground_preserved.
Print Assumptions st_store_ground_preserved.
Print Assumptions st_ground_lookup.
Print Assumptions index_walks_total.
Print Assumptions sys_step_total.
Print Assumptions sys_step_total_any_system.
Print Assumptions sys_step_keeps_ground.
Print Assumptions history_total.
Print Assumptions sys_query_total.
Print Assumptions process_event_total.
Print Assumptions rejected_input_keeps_state.
Print Assumptions no_panic_constructor.
Print Assumptions core_match_never_panics.
Print Assumptions parse_query_never_panics.
Print Assumptions st_add_never_panics.
Print Assumptions st_Rem_never_panics.
Print Assumptions st_get_never_panics.
Print Assumptions st_search_never_panics.
Print Assumptions st_find_rules_never_panics.
Print Assumptions st_clear_never_panics.
Print Assumptions st_load_never_panics.
Print Assumptions st_rem_never_panics.
Print Assumptions sys_step_never_panics.
Print Assumptions sys_query_never_panics.
Print Assumptions process_event_never_panics.
Print Assumptions nonground_data_can_diverge.
Print Assumptions nonground_data_diverges_counterexample.
Print Assumptions nonground_data_diverges_every_fuel.
Print Assumptions search_over_stored_rule_diverges_counterexample.
