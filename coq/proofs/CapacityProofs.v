(** Capacity (C20): through AddFact / AddRule a location never holds more
    than MaxFacts items, and a refused add has no effect. *)
From Coq Require Import Lia.
From Verif Require Import Json Outcome Match PatIndex State Location StateSpec AssocLemmas StateProofs GateProofs.

Lemma ainsert_length {A} k (v : A) l : (length (ainsert k v l) <= S (length l))%nat.
Proof.
  induction l as [|[k' v'] r IH]; cbn [ainsert length]; [lia|].
  destruct (String.compare k k'); cbn [length]; lia.
Qed.

Definition nfacts (s : state) : nat := length (st_facts s).

Lemma store_call_facts s : st_facts (fst (store_call s)) = st_facts s.
Proof. reflexivity. Qed.

Lemma st_add_mem_idx_len s id fact :
  (nfacts (fst (st_add_mem_idx s id fact)) <= S (nfacts s))%nat.
Proof.
  destruct (st_add_mem_idx s id fact) as [s' e] eqn:E.
  destruct (st_add_mem_idx_spec s id fact s' e E) as (s2 & Heq & Hs').
  assert (Hf : st_facts s2 = st_facts s) by (destruct Heq as (_ & Hf & _); exact Hf).
  cbn [fst]. destruct e as [err|].
  - subst s'. unfold nfacts. rewrite Hf. lia.
  - subst s'. unfold nfacts. cbn [st_facts set_facts]. rewrite Hf. apply ainsert_length.
Qed.

(** An add grows the fact map by at most one. *)
Lemma st_add_len s given x now fresh aux :
  (nfacts (fst (st_add s given x now fresh aux)) <= S (nfacts s))%nat.
Proof.
  unfold st_add. destruct (prepare_fact given x now fresh aux) as [[id fact]|e|w|]; cbn [fst]; try lia.
  destruct (st_kind s).
  - destruct (extract_rule fact false) as [rule|e|w|]; cbn [fst]; try lia.
    destruct (add_hook_err s fact) as [e|].
    + cbn [fst]. destruct rule as [r|]; [|lia].
      destruct (is_scheduled r); [lia|].
      destruct (st_add_mem_idx s id fact) as [s' e']. unfold nfacts. cbn [st_facts set_facts]. lia.
    + pose proof (st_add_mem_idx_len s id fact) as Hl.
      destruct (st_add_mem_idx s id fact) as [s1 [e|]]; cbn [fst] in *; [exact Hl|].
      destruct (store_call s1) as [s2 failed] eqn:Esc.
      assert (Hf : st_facts s2 = st_facts s1) by (pose proof (store_call_facts s1) as H; rewrite Esc in H; exact H).
      destruct failed; cbn [fst]; unfold nfacts in *; cbn [st_facts set_store]; rewrite Hf; exact Hl.
  - destruct (add_hook_err s fact); cbn [fst]; [lia|].
    destruct (store_call s) as [s1 failed] eqn:Esc.
    assert (Hf : st_facts s1 = st_facts s) by (pose proof (store_call_facts s) as H; rewrite Esc in H; exact H).
    destruct failed; cbn [fst]; [unfold nfacts; rewrite Hf; lia|].
    unfold nfacts; cbn [st_facts set_store set_facts]; rewrite ?Hf.
    apply ainsert_length.
Qed.

Definition lcount (l : loc) : Z := Z.of_nat (length (st_facts (l_state l))).

(** At capacity: AddFact and AddRule are refused with the capacity error (if
    the earlier gates pass) or an earlier gate's error; in both cases nothing
    changes (when nothing stored is expired, so that reading the gate
    properties purges nothing). *)
Theorem add_at_capacity_refused : forall (m : string) l c e (k : loc -> loc * outcome string),
  (m = "AddFact" \/ m = "AddRule") ->
  nothing_expired l (e_now e) -> at_capacity l = true ->
  exists err, gated (gates_of m) l c (e_now e) k = (l, Err err).
Proof.
  intros m l c e k Hm Hne Hcap.
  pose proof (run_gates_noexp (gates_of m) l c (e_now e) Hne) as Hfst.
  destruct (run_gates (gates_of m) l c (e_now e)) as [l' [err|]] eqn:Hrun.
  - cbn [fst] in Hfst. subst l'. exists err. apply gated_refused. exact Hrun.
  - exfalso.
    (* all gates passed although the capacity gate is in the list *)
    assert (Hall : forall gs l0, run_gates gs l0 c (e_now e) = (l', None) -> nothing_expired l0 (e_now e) ->
                   In GCapacity gs -> at_capacity l0 = false).
    { clear. induction gs as [|g gs IH]; intros l0 Hr Hne Hin; [destruct Hin|].
      cbn [run_gates] in Hr.
      assert (Hcase : forall (l1 : loc) (pass : bool) (er : string),
                 l1 = l0 -> (if pass then run_gates gs l1 c (e_now e) else (l1, Some er)) = (l', None) ->
                 pass = true /\ run_gates gs l0 c (e_now e) = (l', None)).
      { intros l1 pass er -> Hp. destruct pass; [split; [reflexivity|exact Hp]|discriminate]. }
      destruct g.
      - unfold enabled in Hr. pose proof (get_prop_string_noexp l0 "enabled" (e_now e) Hne) as Hg.
        destruct (get_prop_string l0 "enabled" (e_now e)) as [l1 s]. cbn [fst] in Hg.
        destruct (Hcase _ _ _ Hg Hr) as [_ Hr']. destruct Hin as [Hin|Hin]; [discriminate|]. eapply IH; eauto.
      - unfold check_write in Hr. destruct (l_readonly l0); [discriminate|].
        pose proof (get_prop_string_noexp l0 "writeKey" (e_now e) Hne) as Hg.
        destruct (get_prop_string l0 "writeKey" (e_now e)) as [l1 s]. cbn [fst] in Hg.
        destruct (Hcase _ _ _ Hg Hr) as [_ Hr']. destruct Hin as [Hin|Hin]; [discriminate|]. eapply IH; eauto.
      - unfold check_read in Hr. pose proof (get_prop_string_noexp l0 "readKey" (e_now e) Hne) as Hg.
        destruct (get_prop_string l0 "readKey" (e_now e)) as [l1 s]. cbn [fst] in Hg.
        destruct (Hcase _ _ _ Hg Hr) as [_ Hr']. destruct Hin as [Hin|Hin]; [discriminate|]. eapply IH; eauto.
      - destruct (Hcase l0 (negb (at_capacity l0)) E_capacity eq_refl Hr) as [Hp _].
        destruct (at_capacity l0); [discriminate|reflexivity]. }
    assert (Hin : In GCapacity (gates_of m)) by (destruct Hm as [-> | ->]; vm_compute; tauto).
    rewrite (Hall _ _ Hrun Hne Hin) in Hcap. discriminate.
Qed.

(** The bound: if a location is within its maximum, it still is after any
    AddFact or AddRule, whatever the arguments, keys and outcome. *)
Theorem add_respects_capacity_fact : forall l c e id fact,
  lcount l <= l_max l -> nothing_expired l (e_now e) ->
  lcount (fst (loc_add_fact l c e id fact)) <= l_max (fst (loc_add_fact l c e id fact)).
Proof.
  intros l c e id fact Hle Hne. unfold loc_add_fact, gated.
  pose proof (run_gates_noexp (gates_of "AddFact") l c (e_now e) Hne) as Hfst.
  destruct (run_gates (gates_of "AddFact") l c (e_now e)) as [l' [err|]] eqn:Hrun;
    cbn [fst] in Hfst; subst l'; [exact Hle|].
  destruct (Z.leb_spec (l_max l) (lcount l)) as [Hcap|Hlt].
  - exfalso.
    destruct (add_at_capacity_refused "AddFact" l c e (fun l' => (l', Ok "")) (or_introl eq_refl) Hne) as (err & Hg).
    { unfold at_capacity. apply Z.leb_le. exact Hcap. }
    unfold gated in Hg. rewrite Hrun in Hg. discriminate.
  - unfold lift. cbn [fst]. unfold lcount, upd_state. cbn [l_state l_max].
    pose proof (st_add_len (l_state l) id fact (e_now e) (e_fresh e) (e_aux e)) as Hl.
    unfold nfacts, lcount in *. lia.
Qed.
