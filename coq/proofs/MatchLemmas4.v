(** The matcher on arrays. *)
From Coq Require Import Lia Permutation.
From Verif Require Import Json Outcome Match MatchSpec MatchLemmas1 MatchLemmas2 MatchLemmas3.

Definition isvarj (x : json) : bool := match x with JStr s => is_var s | _ => false end.

Lemma nonvar_isvarj x : isvarj x = false -> nonvar x = true.
Proof. destruct x; cbn; auto. intros ->. reflexivity. Qed.

(** * get_variable *)

Lemma get_variable_step x r v acc :
  isvarj x = false -> get_variable (x :: r) v acc = get_variable r v (x :: acc).
Proof. destruct x; cbn [get_variable isvarj]; try reflexivity. intros ->. reflexivity. Qed.

Lemma get_variable_novar : forall xs v acc,
  Forall (fun x => isvarj x = false) xs -> get_variable xs v acc = Ok (v, (rev acc ++ xs)%list).
Proof.
  induction xs as [|x r IH]; intros v acc H.
  - cbn [get_variable]. rewrite app_nil_r. reflexivity.
  - inversion H as [|? ? Hx Hr]; subst.
    rewrite get_variable_step by auto. rewrite IH by auto.
    cbn [rev]. rewrite <- app_assoc. reflexivity.
Qed.

Lemma filter_nil_Forall {A} (f : A -> bool) l : filter f l = [] -> Forall (fun x => f x = false) l.
Proof.
  induction l as [|a l IH]; cbn [filter]; intros H; constructor; destruct (f a) eqn:E; try discriminate; auto.
Qed.

Lemma get_variable_spec : forall xs acc,
  (length (filter isvarj xs) <= 1)%nat ->
  (Forall (fun x => isvarj x = false) xs /\ get_variable xs "" acc = Ok ("", (rev acc ++ xs)%list)) \/
  (exists s l1 l2, xs = (l1 ++ JStr s :: l2)%list /\ is_var s = true /\
     Forall (fun x => isvarj x = false) (l1 ++ l2)%list /\
     get_variable xs "" acc = Ok (s, (rev acc ++ l1 ++ l2)%list)).
Proof.
  induction xs as [|x r IH]; intros acc H.
  - left. split; [constructor|]. cbn [get_variable]. rewrite app_nil_r. reflexivity.
  - cbn [filter] in H. destruct (isvarj x) eqn:Ex.
    + right. destruct x as [| | |s| |]; try discriminate. cbn [isvarj] in Ex.
      cbn [length] in H.
      assert (Hnil : filter isvarj r = []) by (destruct (filter isvarj r); cbn in H; [auto|lia]).
      apply filter_nil_Forall in Hnil.
      exists s, [], r. split; auto. split; auto. split; auto.
      cbn [get_variable]. rewrite Ex. cbn [String.eqb]. apply get_variable_novar; auto.
    + rewrite get_variable_step by auto.
      destruct (IH (x :: acc) H) as [[HF Hg]|[s [l1 [l2 [-> [Hs [HF Hg]]]]]]].
      * left. split; [constructor; auto|]. rewrite Hg. cbn [rev]. rewrite <- app_assoc. reflexivity.
      * right. exists s, (x :: l1), l2. split; auto. split; auto. split; [constructor; auto|].
        rewrite Hg. cbn [rev]. rewrite <- !app_assoc. reflexivity.
Qed.

(** * split_array *)

Lemma split_array_spec : forall l i seen fxa,
  exists sc st,
    split_array i l seen fxa = ((rev seen ++ sc)%list, (rev fxa ++ st)%list) /\
    Permutation (dedup_scalars l seen) (sc ++ map snd st)%list /\
    Forall (fun y => is_scalar y = true) sc /\
    Forall (fun iy => is_scalar (snd iy) = false) st /\
    (forall y, In y sc -> In y l) /\
    (forall iy, In iy st -> In (snd iy) l).
Proof.
  induction l as [|y r IH]; intros i seen fxa; cbn [split_array dedup_scalars].
  - exists [], []. rewrite !app_nil_r. repeat split; auto; intros ? [].
  - destruct (is_scalar y) eqn:Ey.
    + destruct (mem_json y seen) eqn:Em.
      * destruct (IH (S i) seen fxa) as [sc [st [H1 [H2 [H3 [H4 [H5 H6]]]]]]].
        exists sc, st. repeat split; auto; intros; right; auto.
      * destruct (IH (S i) (y :: seen) fxa) as [sc [st [H1 [H2 [H3 [H4 [H5 H6]]]]]]].
        exists (y :: sc), st. rewrite H1. cbn [rev]. rewrite <- app_assoc. cbn [app].
        repeat split; auto.
        -- intros y' [<-|Hy']; [left; auto|right; auto].
        -- intros; right; auto.
    + destruct (IH (S i) seen ((i, y) :: fxa)) as [sc [st [H1 [H2 [H3 [H4 [H5 H6]]]]]]].
      exists sc, ((i, y) :: st). rewrite H1. cbn [rev]. rewrite <- app_assoc. cbn [app map snd].
      repeat split; auto.
      * apply Permutation_cons_app. exact H2.
      * intros; right; auto.
      * intros iy [<-|Hiy]; [left; auto|right; auto].
Qed.

(** * remove_nth *)

Lemma nth_error_remove_perm {A} : forall (l : list A) pos a,
  nth_error l pos = Some a -> Permutation l (a :: remove_nth pos l).
Proof.
  induction l as [|x l IH]; intros [|pos] a H; cbn in H; try discriminate.
  - inversion H; subst. cbn. reflexivity.
  - cbn [remove_nth]. rewrite perm_swap. constructor. apply IH; auto.
Qed.

Lemma remove_nth_incl {A} : forall (l : list A) pos a, In a (remove_nth pos l) -> In a l.
Proof.
  induction l as [|x l IH]; intros [|pos] a; cbn [remove_nth]; auto.
  - intros H; right; auto.
  - intros [H|H]; [left; auto|right; eauto].
Qed.

Lemma remove_nth_nil {A} pos : @remove_nth A pos [] = [].
Proof. destruct pos; reflexivity. Qed.

(** * Semantics of the loop over the non-variable pattern elements *)

Fixpoint left_scalars (xs fxs : list json) : list json :=
  match xs with
  | [] => fxs
  | x :: r => if is_scalar x then left_scalars r (remove_first_json x fxs) else left_scalars r fxs
  end.

Lemma left_scalars_incl : forall xs fxs y, In y (left_scalars xs fxs) -> In y fxs.
Proof.
  induction xs as [|x r IH]; intros fxs y; cbn [left_scalars]; auto.
  destruct (is_scalar x); intros H; apply IH in H; auto.
  eapply remove_first_incl; eauto.
Qed.

Inductive SemE : list json -> list json -> bindings -> list (nat * json) ->
                 bindings -> list (nat * json) -> Prop :=
| SemE_nil fxs b rem : SemE [] fxs b rem b rem
| SemE_scalar x r fxs b rem b' rem' :
    is_scalar x = true -> In x fxs ->
    SemE r (remove_first_json x fxs) b rem b' rem' ->
    SemE (x :: r) fxs b rem b' rem'
| SemE_struct x r fxs b rem pos j y b1 b' rem' :
    is_scalar x = false -> nth_error rem pos = Some (j, y) -> Ext' x y b b1 ->
    SemE r fxs b1 (remove_nth pos rem) b' rem' ->
    SemE (x :: r) fxs b rem b' rem'.

Lemma SemE_scalar_inv x r fxs b rem b' rem' :
  SemE (x :: r) fxs b rem b' rem' -> is_scalar x = true ->
  In x fxs /\ SemE r (remove_first_json x fxs) b rem b' rem'.
Proof. intros H Hx. inversion H; subst; [auto|congruence]. Qed.

Lemma SemE_struct_inv x r fxs b rem b' rem' :
  SemE (x :: r) fxs b rem b' rem' -> is_scalar x = false ->
  exists pos j y b1, nth_error rem pos = Some (j, y) /\ Ext' x y b b1 /\
                     SemE r fxs b1 (remove_nth pos rem) b' rem'.
Proof. intros H Hx. inversion H; subst; [congruence|]. exists pos, j, y, b1. auto. Qed.

Definition AltIn (b : bindings) (rem : list (nat * json))
           (alts : list (list bindings * list (nat * json))) : Prop :=
  exists bss, In (bss, rem) alts /\ In b bss.

Lemma AltIn_app b rem a1 a2 : AltIn b rem (a1 ++ a2)%list <-> AltIn b rem a1 \/ AltIn b rem a2.
Proof.
  unfold AltIn. split.
  - intros [bss [H1 H2]]. apply in_app_or in H1. destruct H1; [left|right]; eauto.
  - intros [[bss [H1 H2]]|[bss [H1 H2]]]; exists bss; split; auto; apply in_or_app; auto.
Qed.

Lemma AltIn_cons b rem bss0 rem0 a :
  AltIn b rem ((bss0, rem0) :: a) <-> (rem = rem0 /\ In b bss0) \/ AltIn b rem a.
Proof.
  unfold AltIn. split.
  - intros [bss [[H1|H1] H2]]; [inversion H1; subst; auto|right; eauto].
  - intros [[-> H]|[bss [H1 H2]]]; [exists bss0; split; auto; left; auto|exists bss; split; auto; right; auto].
Qed.

Lemma AltIn_nil b rem : ~ AltIn b rem [].
Proof. intros [bss [[] _]]. Qed.

Lemma combine_In b alts : In b (combine alts) <-> exists rem, AltIn b rem alts.
Proof.
  unfold combine, AltIn. rewrite in_concat. split.
  - intros [bss [H1 H2]]. apply in_map_iff in H1. destruct H1 as [[bss' rem] [H1 H3]].
    cbn in H1. subst. eauto.
  - intros [rem [bss [H1 H2]]]. exists bss. split; auto.
    apply in_map_iff. exists (bss, rem). auto.
Qed.

Section RiskyRec.
Variable risky : string -> bool.
Variable N : nat.
Variable rec : json -> json -> bindings -> outcome (list bindings).
Hypothesis Hrec : forall p d bs,
  (jsize p < N)%nat -> wfp p = true -> ground d = true -> okb risky bs ->
  LS risky p d -> CV risky (pvars p) bs ->
  exists out, rec p d bs = Ok out /\ forall b, In b out <-> Ext' p d bs b.

Lemma arraycat_one_spec bss x all :
  (jsize x < N)%nat -> wfp x = true ->
  (forall b, In b bss -> okb risky b /\ CV risky (pvars x) b) ->
  forall todo pos,
  (forall j y, In (j, y) todo -> ground y = true /\ LS risky x y) ->
  exists out, arraycat_one rec bss x all todo pos = Ok out /\
    (forall bss' rem', In (bss', rem') out -> bss' <> []) /\
    (forall b' rem', AltIn b' rem' out <->
       exists i j y b, nth_error todo i = Some (j, y) /\ rem' = remove_nth (pos + i) all /\
                       In b bss /\ Ext' x y b b').
Proof.
  intros Hsz Hw Hbss. induction todo as [|[j0 fact] r IH]; intros pos Htodo; cbn [arraycat_one].
  - exists []. split; auto. split; [intros ? ? []|].
    intros b' rem'. split; [intros H; destruct (AltIn_nil _ _ H)|].
    intros [i [j [y [b [H _]]]]]. destruct i; discriminate.
  - destruct (Htodo j0 fact (or_introl eq_refl)) as [Hg HLS].
    destruct (match_all_rec risky N rec Hrec bss x fact Hsz Hw Hg HLS Hbss) as [acc [Hacc Hspec]].
    rewrite Hacc. cbn [obind].
    destruct (IH (S pos)) as [rest [Hrest [Hne Hspec']]].
    { intros j y Hin. apply (Htodo j). right; auto. }
    rewrite Hrest. cbn [obind].
    exists (match acc with [] => rest | _ :: _ => (acc, remove_nth pos all) :: rest end).
    split; auto. split.
    + intros bss' rem' Hin. destruct acc as [|a acc']; [eapply Hne; eauto|].
      destruct Hin as [Hin|Hin]; [inversion Hin; subst; discriminate|eapply Hne; eauto].
    + intros b' rem'.
      assert (Hout : AltIn b' rem' (match acc with [] => rest | _ :: _ => (acc, remove_nth pos all) :: rest end)
                     <-> (rem' = remove_nth pos all /\ In b' acc) \/ AltIn b' rem' rest).
      { destruct acc as [|a acc']; [|apply AltIn_cons]. split; auto. intros [[_ []]|H]; auto. }
      rewrite Hout, Hspec', Hspec. split.
      * intros [[Hr [b [Hb HE]]]|[i [j [y [b [H1 [H2 [H3 H4]]]]]]]].
        -- exists O, j0, fact, b. rewrite Nat.add_0_r. auto.
        -- exists (S i), j, y, b. rewrite Nat.add_succ_r. auto.
      * intros [[|i] [j [y [b [H1 [H2 [H3 H4]]]]]]].
        -- cbn in H1. inversion H1; subst. rewrite Nat.add_0_r. left. eauto.
        -- cbn in H1. right. exists i, j, y, b. rewrite Nat.add_succ_r in H2. auto.
Qed.

Lemma arraycat_spec x :
  (jsize x < N)%nat -> wfp x = true ->
  forall alts,
  (forall bss rem, In (bss, rem) alts ->
     (forall b, In b bss -> okb risky b /\ CV risky (pvars x) b) /\
     (forall j y, In (j, y) rem -> ground y = true /\ LS risky x y)) ->
  exists out, arraycat rec alts x = Ok out /\
    (forall bss' rem', In (bss', rem') out -> bss' <> []) /\
    (forall b' rem', AltIn b' rem' out <->
       exists b rem pos j y, AltIn b rem alts /\ nth_error rem pos = Some (j, y) /\
                             rem' = remove_nth pos rem /\ Ext' x y b b').
Proof.
  intros Hsz Hw. induction alts as [|[bss rem] r IH]; intros Halts; cbn [arraycat].
  - exists []. split; auto. split; [intros ? ? []|].
    intros b' rem'. split; [intros H; destruct (AltIn_nil _ _ H)|].
    intros [b [rem [pos [j [y [H _]]]]]]. destruct (AltIn_nil _ _ H).
  - destruct (Halts bss rem (or_introl eq_refl)) as [Hb Hr].
    destruct (arraycat_one_spec bss x rem Hsz Hw Hb rem O Hr) as [a [Ha [Hne Hspec]]].
    rewrite Ha. cbn [obind].
    destruct IH as [rest [Hrest [Hne' Hspec']]].
    { intros bss' rem'' Hin. apply Halts. right; auto. }
    rewrite Hrest. cbn [obind]. exists (a ++ rest)%list. split; auto. split.
    + intros bss' rem' Hin. apply in_app_or in Hin. destruct Hin; [eapply Hne|eapply Hne']; eauto.
    + intros b' rem'. rewrite AltIn_app, Hspec, Hspec'. split.
      * intros [[i [j [y [b [H1 [H2 [H3 H4]]]]]]]|[b [rem0 [pos [j [y [H1 H2]]]]]]].
        -- exists b, rem, i, j, y. cbn in H2. split; auto. apply AltIn_cons. left; auto.
        -- exists b, rem0, pos, j, y. split; auto. apply AltIn_cons. right; auto.
      * intros [b [rem0 [pos [j [y [H1 [H2 [H3 H4]]]]]]]]. apply AltIn_cons in H1.
        destruct H1 as [[-> Hb']|H1].
        -- left. exists pos, j, y, b. cbn. auto.
        -- right. exists b, rem0, pos, j, y. auto.
Qed.

(** Invariant of the alternatives. *)
Definition AltsOK (U : list json) (V : list string)
           (alts : list (list bindings * list (nat * json))) : Prop :=
  (forall bss rem, In (bss, rem) alts -> bss <> []) /\
  (forall b rem, AltIn b rem alts ->
     (forall j y, In (j, y) rem -> In y U) /\ okb risky b /\ CV risky V b).

Lemma AltsOK_AltIn U V alts bss rem :
  AltsOK U V alts -> In (bss, rem) alts ->
  (forall j y, In (j, y) rem -> In y U) /\ (forall b, In b bss -> okb risky b /\ CV risky V b).
Proof.
  intros [Hne H] Hin. destruct bss as [|b0 bss'] eqn:E; [exfalso; eapply Hne; eauto|].
  rewrite <- E in *. split.
  - assert (Hb0 : AltIn b0 rem alts) by (exists bss; split; auto; subst; left; auto).
    apply H in Hb0. tauto.
  - intros b Hb. assert (Hb' : AltIn b rem alts) by (exists bss; auto).
    apply H in Hb'. tauto.
Qed.

Lemma array_elems_spec U Vtail e : forall xs fxs alts,
  (forall x, In x xs -> (jsize x < N)%nat /\ wfp x = true /\ isvarj x = false /\
                        forall y, In y U -> LS risky x y) ->
  (forall y, In y U -> ground y = true) ->
  AltsOK U (flat_map pvars xs ++ Vtail)%list alts ->
  (e = true -> forall b rem, AltIn b rem alts -> rem = []) ->
  exists res, array_elems rec xs fxs e alts = Ok res /\
    match res with
    | None => forall b rem b' rem', AltIn b rem alts -> ~ SemE xs fxs b rem b' rem'
    | Some (fxs', alts') =>
        fxs' = left_scalars xs fxs /\ AltsOK U Vtail alts' /\
        (forall b' rem', AltIn b' rem' alts' <->
           exists b rem, AltIn b rem alts /\ SemE xs fxs b rem b' rem')
    end.
Proof.
  induction xs as [|x r IH]; intros fxs alts Hxs HU HOK He; cbn [array_elems].
  - exists (Some (fxs, alts)). split; auto. split; auto. split; auto.
    intros b' rem'. split.
    + intros H. exists b', rem'. split; auto. constructor.
    + intros [b [rem [H1 H2]]]. inversion H2; subst. exact H1.
  - destruct (Hxs x (or_introl eq_refl)) as [Hsz [Hw [Hnv HLS]]].
    assert (Hxs' : forall x0, In x0 r -> (jsize x0 < N)%nat /\ wfp x0 = true /\ isvarj x0 = false /\
                        forall y, In y U -> LS risky x0 y).
    { intros x0 Hin. apply Hxs. right; auto. }
    cbn [flat_map] in HOK. rewrite <- app_assoc in HOK.
    destruct (is_scalar x) eqn:Ex.
    + assert (Hpv : pvars x = []) by (apply pvars_scalar; auto; apply nonvar_isvarj; auto).
      rewrite Hpv in HOK. cbn [app] in HOK.
      destruct (mem_json x fxs) eqn:Em.
      * apply mem_json_In in Em.
        destruct (IH (remove_first_json x fxs) alts Hxs' HU HOK He) as [res [Hres Hspec]].
        exists res. split; auto. destruct res as [[fxs' alts']|].
        -- destruct Hspec as [H1 [H2 H3]]. split; [cbn [left_scalars]; rewrite Ex; auto|].
           split; auto. intros b' rem'. rewrite H3. split.
           ++ intros [b [rem [Ha Hs]]]. exists b, rem. split; auto. apply SemE_scalar; auto.
           ++ intros [b [rem [Ha Hs]]]. exists b, rem. split; auto.
              apply SemE_scalar_inv in Hs; tauto.
        -- intros b rem b' rem' Ha Hs. apply SemE_scalar_inv in Hs; auto.
           destruct Hs as [_ Hs]. eapply Hspec; eauto.
      * exists None. split; auto. intros b rem b' rem' Ha Hs.
        apply SemE_scalar_inv in Hs; auto. destruct Hs as [Hin _].
        apply mem_json_In in Hin. congruence.
    + destruct e eqn:Ee.
      * exists None. split; auto. intros b rem b' rem' Ha Hs.
        apply SemE_struct_inv in Hs; auto. destruct Hs as [pos [j [y [b1 [Hn _]]]]].
        rewrite (He eq_refl b rem Ha) in Hn. destruct pos; discriminate.
      * assert (Hpre : forall bss rem, In (bss, rem) alts ->
                 (forall b, In b bss -> okb risky b /\ CV risky (pvars x) b) /\
                 (forall j y, In (j, y) rem -> ground y = true /\ LS risky x y)).
        { intros bss rem Hin. destruct (AltsOK_AltIn _ _ _ _ _ HOK Hin) as [H1 H2]. split.
          - intros b Hb. destruct (H2 b Hb) as [H3 H4]. split; auto. eapply CV_app_l; eauto.
          - intros j y Hy. apply H1 in Hy. split; auto. }
        destruct (arraycat_spec x Hsz Hw alts Hpre) as [alts1 [Halts1 [Hne1 Hspec1]]].
        rewrite Halts1. cbn [obind].
        assert (HOK1 : AltsOK U (flat_map pvars r ++ Vtail)%list alts1).
        { split; auto. intros b' rem' Ha. apply Hspec1 in Ha.
          destruct Ha as [b [rem [pos [j [y [Ha [Hn [-> HE]]]]]]]].
          destruct HOK as [_ HOK]. destruct (HOK b rem Ha) as [H1 [H2 H3]].
          assert (HyU : In y U) by (apply (H1 j); eapply nth_error_In; eauto).
          split; [|split].
          - intros j' y' Hin. apply remove_nth_incl in Hin. eauto.
          - eapply okb_ext; eauto.
          - eapply CV_app_r; eauto. apply (ExtG_dom _ _ _ _ HE). }
        assert (He1 : false = true -> forall b rem, AltIn b rem alts1 -> rem = []) by discriminate.
        destruct (IH fxs alts1 Hxs' HU HOK1 He1) as [res [Hres Hspec]].
        assert (Hstep : forall b' rem', (exists b1 rem1, AltIn b1 rem1 alts1 /\ SemE r fxs b1 rem1 b' rem') <->
                          (exists b rem, AltIn b rem alts /\ SemE (x :: r) fxs b rem b' rem')).
        { intros b' rem'. split.
          - intros [b1 [rem1 [Ha Hs]]]. apply Hspec1 in Ha.
            destruct Ha as [b [rem [pos [j [y [Ha [Hn [-> HE]]]]]]]].
            exists b, rem. split; auto. eapply SemE_struct; eauto.
          - intros [b [rem [Ha Hs]]]. apply SemE_struct_inv in Hs; auto.
            destruct Hs as [pos [j [y [b1 [Hn [HE Hs]]]]]].
            exists b1, (remove_nth pos rem). split; auto. apply Hspec1.
            exists b, rem, pos, j, y. auto. }
        destruct alts1 as [|a1 alts1'] eqn:Ealts1.
        -- exists None. split; auto. intros b rem b' rem' Ha Hs.
           assert (Hex : exists b rem, AltIn b rem alts /\ SemE (x :: r) fxs b rem b' rem') by eauto.
           apply Hstep in Hex. destruct Hex as [b1 [rem1 [Ha1 _]]]. destruct (AltIn_nil _ _ Ha1).
        -- rewrite <- Ealts1 in *. exists res. split; auto.
           destruct res as [[fxs' alts']|].
           ++ destruct Hspec as [H1 [H2 H3]]. split; [cbn [left_scalars]; rewrite Ex; auto|].
              split; auto. intros b' rem'. rewrite H3. apply Hstep.
           ++ intros b rem b' rem' Ha Hs.
              assert (Hex : exists b rem, AltIn b rem alts /\ SemE (x :: r) fxs b rem b' rem') by eauto.
              apply Hstep in Hex. destruct Hex as [b1 [rem1 [Ha1 Hs1]]].
              eapply Hspec; eauto.
Qed.

End RiskyRec.
