(** History-level statements for C20 (capacity), C19 (access control), C02
    (get / search over histories, indexed = linear) and C08 (cascade closure
    in every reachable state).  Statements only; proofs in Hist*.v, collected
    in HistProofs.v. *)
From Verif Require Export Json Outcome Match PatIndex State Location SysOps.
From Coq Require Export Permutation.
From Verif Require Export CorrLoc MatchSpec StateSpec CascadeSpec DurableSpec DurableReload GateProofs CapacityProofs LocSpec.

(** * Histories of requests with their answers *)

Definition sys_ans (sy : system) (q : request) : lres :=
  snd (sys_step sy (r_loc q) (r_ctx q) (r_env q) (r_op q)).

(** the requests of a history, each with the answer it got *)
Fixpoint sys_trace (sy : system) (h : list request) : list (request * lres) :=
  match h with
  | [] => []
  | q :: r => (q, sys_ans sy q) :: sys_trace (sys_do sy q) r
  end.

Definition lres_err (r : lres) : option string :=
  match r with
  | RId (Err e) | RBool (Err e) | RJson (Err e) | RUnit (Err e) | RParents (Err e) | RSize (Err e)
  | RFound (Err e) | RChildren (Err e) => Some e
  | _ => None
  end.

(** the answer carries a value *)
Definition lres_ok (r : lres) : bool :=
  match r with
  | RId (Ok _) | RBool (Ok _) | RJson (Ok _) | RUnit (Ok _) | RParents (Ok _) | RSize (Ok _)
  | RFound (Ok _) | RChildren (Ok _) => true
  | _ => false
  end.

(** * A. C20: capacity over histories *)

(** The requests that go through the capacity gate or cannot grow the state:
    everything except EnableRule(false), SetParents (both store a property
    fact without consulting AtCapacity) and Reload (takes whatever the
    storage holds). *)
Definition cap_safe_op (op : lop) : bool :=
  match op with
  | LEnableRule _ false => false
  | LSetParents _ => false
  | LReload => false
  | _ => true
  end.

(** A1.  A location that is within its maximum stays within it (and keeps
    its maximum) after ANY history of requests — any arguments, keys, clocks
    (expiry purges included), outcomes, state kind, hooks, storage failure —
    in which the requests addressed to it are AddFact / AddRule / RemFact /
    RemRule / GetFact / GetRule / EnableRule(true) / Clear / GetParents /
    StateSize / SetReadOnly / SearchFacts / events.  The requests addressed
    to other locations are arbitrary (their inherited searches and events may
    walk through this location). *)
Definition capacity_invariant_adds_only_statement : Prop :=
  forall h sy name l,
    sys_get sy name = Some l -> lcount l <= l_max l ->
    (forall q, In q h -> r_loc q = name -> cap_safe_op (r_op q) = true) ->
    exists l', sys_get (sys_run sy h) name = Some l' /\ l_max l' = l_max l /\ lcount l' <= l_max l.

(** A linear location whose storage mirrors the memory and no storage call of
    which is going to fail (hooks or not: since the repair of D33 a rejecting
    add hook leaves nothing in the storage). *)
Definition mirror_loc (l : loc) : Prop :=
  st_fail (l_state l) = None /\ st_store (l_state l) = st_facts (l_state l) /\
  st_kind (l_state l) = Linear.

(** A2.  With Reload: for a linear location (with or without hooks) whose
    storage mirrors its memory and never fails. *)
Definition capacity_invariant_with_reload_statement : Prop :=
  forall h sy name l,
    sys_get sy name = Some l -> lcount l <= l_max l -> mirror_loc l ->
    (forall q, In q h -> r_loc q = name -> cap_safe_op (r_op q) = true \/ r_op q = LReload) ->
    exists l', sys_get (sys_run sy h) name = Some l' /\ l_max l' = l_max l /\ lcount l' <= l_max l /\
               mirror_loc l'.

(** A3.  At capacity, in any state that a history reaches, an AddFact or
    AddRule is refused — with the capacity error when the other gates pass —
    and the WHOLE system is exactly what it was (when nothing of the location
    has expired: the gates' own property look-ups purge expired items). *)
Definition refused_for_capacity_no_effect_history_statement : Prop :=
  forall sy h q l id x,
    sys_wf sy ->
    let sy' := sys_run sy h in
    (r_op q = LAddFact id x \/ r_op q = LAddRule id x) ->
    sys_get sy' (r_loc q) = Some l ->
    nothing_expired l (e_now (r_env q)) -> at_capacity l = true ->
    exists e, sys_step sy' (r_loc q) (r_ctx q) (r_env q) (r_op q) = (sy', RId (Err e)) /\
              (e = E_denied \/ e = E_capacity \/ e = E_disabled) /\
              (snd (check_write l (r_ctx q) (e_now (r_env q))) = true ->
               snd (enabled l (e_now (r_env q))) = true -> e = E_capacity).


(** * B. C19: access control over histories *)

Definition is_mutating (op : lop) : bool :=
  match op with
  | LAddFact _ _ | LAddRule _ _ | LRemFact _ | LRemRule _ | LEnableRule _ _ | LClear | LSetParents _ => true
  | _ => false
  end.

(** the operations that reveal facts or rules (or their number) *)
Definition is_reading (op : lop) : bool :=
  match op with
  | LGetFact _ | LGetRule _ | LSize | LSearch _ _ | LEvent _ => true
  | _ => false
  end.

(** the caller's context does not open the write gate of the location: it is
    read-only, or it has a write key and the context carries another one (or
    none), or the location is disabled *)
Definition write_refused (l : loc) (c : ctx) (now : Z) : Prop :=
  snd (check_write l c now) = false \/ snd (enabled l now) = false.

Definition read_refused (l : loc) (c : ctx) (now : Z) : Prop :=
  snd (check_read l c now) = false \/ snd (enabled l now) = false.

(** the answer is one of the gates' errors *)
Definition refusal (r : lres) : Prop :=
  lres_err r = Some E_denied \/ lres_err r = Some E_disabled \/ lres_err r = Some E_capacity.

(** B0: a location with a write key (resp. read key) refuses every context
    that carries another key; a read-only location refuses every context. *)
Definition wrong_key_is_refused_statement : Prop :=
  forall l c now k,
    (snd (get_prop_string l "writeKey" now) = k -> k <> "" -> c_wk c <> k -> write_refused l c now) /\
    (l_readonly l = true -> write_refused l c now) /\
    (snd (get_prop_string l "readKey" now) = k -> k <> "" -> c_rk c <> k -> read_refused l c now).

(** B1.  Every history in which the requests addressed to the location are
    mutating requests (AddFact, AddRule, RemFact, RemRule, EnableRule, Clear,
    SetParents) issued with contexts that do not open its write gate — the
    requests addressed to other locations are arbitrary, inherited searches
    and events walking through this location included — leaves the location
    EXACTLY as it was (facts, both indexes, storage contents, storage-call
    counter, flags), and each of those requests is answered with the error of
    a gate; as long as nothing stored in the location expires meanwhile (the
    gates' own property look-ups purge expired items). *)
Definition wrong_key_history_is_noop_statement : Prop :=
  forall h sy name l,
    sys_get sy name = Some l ->
    (forall q, In q h -> nothing_expired l (e_now (r_env q))) ->
    (forall q, In q h -> r_loc q = name ->
       is_mutating (r_op q) = true /\ write_refused l (r_ctx q) (e_now (r_env q))) ->
    sys_get (sys_run sy h) name = Some l /\
    (forall q r, In (q, r) (sys_trace sy h) -> r_loc q = name -> refusal r).

(** B2.  With a read key (or disabled): every history in which the requests
    addressed to the location are reads (GetFact, GetRule, StateSize,
    SearchFacts local or inherited, events, i.e. the rule look-up) issued with
    contexts that do not open its read gate: none of them gets a value — the
    local ones are answered "denied" (or "disabled"), the walking ones fail
    with the first error met on the way — and the location is unchanged. *)
Definition wrong_read_key_reveals_nothing_statement : Prop :=
  forall h sy name l,
    sys_get sy name = Some l ->
    (forall q, In q h -> nothing_expired l (e_now (r_env q))) ->
    (forall q, In q h -> r_loc q = name ->
       is_reading (r_op q) = true /\ read_refused l (r_ctx q) (e_now (r_env q))) ->
    sys_get (sys_run sy h) name = Some l /\
    (forall q r, In (q, r) (sys_trace sy h) -> r_loc q = name ->
       lres_ok r = false /\
       (is_walk (r_op q) = false -> lres_err r = Some E_denied \/ lres_err r = Some E_disabled)).

(** * D. C08 over histories: the cascade deletes exactly the closure, in
      every reachable state of either state kind *)

(** (Before the repair of D14 the statements of this part asked that no id,
    stored or removed, looks like a pattern variable; the model also had a
    sentinel id of its own.  Both are gone: deleteDependencies checks the
    candidates of its search literally, and the loop's skip is an option.) *)

(** what remains of an id -> fact map after the removal of [id]: the map
    minus the deleteWith closure of [id], computed by CorrLoc.clo_iter (the
    function the correspondence checker judges observed removals with) *)
Definition minus_closure (F : list (string * json)) (id : string) : list (string * json) :=
  filter (fun kv => negb (mem_str (fst kv) (clo_iter (S (length F)) F [id]))) F.

(** the executable closure is the inductive one *)
Definition clo_iter_is_closure_statement : Prop :=
  forall s id j, sorted_keys (map fst (st_facts s)) = true ->
    (In j (clo_iter (S (length (st_facts s))) (st_facts s) [id]) <-> Clo s id j).

(** D1.  In every state that a history of state operations reaches (either
    kind, with or without the cron hooks, no storage failure), a removal of
    ANY id (variable-looking ids included: D14 is repaired) that succeeds leaves, in
    memory AND in the storage, exactly the facts of before minus the
    deleteWith closure of the id; [had] tells whether the id was there. *)
Definition cascade_closure_history_statement : Prop :=
  forall k hooks ops id now s' had,
    let s := reachable k hooks None ops in
    StateSpec.no_expired s now ->
    st_Rem s id now = (s', Ok had) ->
    had = (match alookup id (st_facts s) with Some _ => true | None => false end) /\
    st_facts s' = minus_closure (st_facts s) id /\
    st_store s' = minus_closure (st_store s) id /\
    (forall j, Clo s id j -> alookup j (st_facts s') = None /\ alookup j (st_store s') = None).

(** D2.  Nothing else is deleted: what is outside the closure keeps its fact
    and its storage record. *)
Definition nothing_else_deleted_history_statement : Prop :=
  forall k hooks ops id now s' had,
    let s := reachable k hooks None ops in
    StateSpec.no_expired s now ->
    st_Rem s id now = (s', Ok had) ->
    forall j, ~ Clo s id j ->
      alookup j (st_facts s') = alookup j (st_facts s) /\ alookup j (st_store s') = alookup j (st_store s).

(** D3.  And the removal does succeed (without the hooks always; with them
    when the id is there: the cron hook's look-up reports a missing id). *)
Definition cascade_succeeds_history_statement : Prop :=
  forall k hooks ops id now,
    let s := reachable k hooks None ops in
    StateSpec.no_expired s now ->
    (hooks = false \/ alookup id (st_facts s) <> None) ->
    exists s' had, st_Rem s id now = (s', Ok had).

(** * C. C02 over histories *)

(** did the operation answer a value *)
Definition sstep_ok (s : state) (o : sop * Z) : bool :=
  let '(op, now) := o in
  match op with
  | SAdd g x fr aux => match snd (st_add s g x now fr aux) with Ok _ => true | _ => false end
  | SRem id => match snd (st_Rem s id now) with Ok _ => true | _ => false end
  | SClear => match snd (st_clear s) with Ok _ => true | _ => false end
  | _ => true
  end.

(** the operations of a history, each with whether it succeeded *)
Fixpoint strace (s : state) (ops : list (sop * Z)) : list ((sop * Z) * bool) :=
  match ops with
  | [] => []
  | o :: r => (o, sstep_ok s o) :: strace (sstep s o) r
  end.

(** The specification: an id -> fact map driven by the observed history.  A
    successful add writes the prepared fact under the prepared id; a
    successful removal of [id] takes away the deleteWith closure of [id]
    (w.r.t. the map at that moment); a successful clear empties the map;
    everything else (failed operations, reads) leaves it. *)
Definition spec_step (F : list (string * json)) (ob : (sop * Z) * bool) : list (string * json) :=
  let '((op, now), ok) := ob in
  if negb ok then F else
  match op with
  | SAdd g x fr aux =>
      match prepare_fact g x now fr aux with Ok (id, f) => ainsert id f F | _ => F end
  | SRem id => minus_closure F id
  | SClear => []
  | _ => F
  end.

Definition spec_facts (tr : list ((sop * Z) * bool)) : list (string * json) := fold_left spec_step tr [].

(** Histories without expiry: any ids, stored or removed (adds that a hook
    rejects are allowed: they change nothing). *)
Definition op_plain (o : sop * Z) : bool :=
  match o with
  | (SAdd g x fr aux, now) =>
      match prepare_fact g x now fr aux with
      | Ok (id, f) => fact_expires f =? 0
      | _ => true
      end
  | _ => true
  end.

Definition init_state (k : skind) (hooks : bool) : state := set_fail (empty_state k hooks) None.

(** C1.  For every such history, in either state kind: the fact map and the
    storage are the specification's map, and a get of ANY id at ANY time
    answers the value the specification holds for it — the value of the last
    successful add to that id that no later successful removal has covered
    (directly or through deleteWith) and no clear has dropped — or not-found;
    the get changes nothing. *)
Definition get_returns_last_write_history_statement : Prop :=
  forall k hooks ops,
    forallb op_plain ops = true ->
    let s := reachable k hooks None ops in
    let F := spec_facts (strace (init_state k hooks) ops) in
    st_facts s = F /\ st_store s = F /\
    forall id now,
      st_get s id now = (s, match alookup id F with Some f => Ok f | None => Err "notfound" end).

(** what "last write" means for the specification's map, spelled out: the
    value written by a successful add stays until a successful add to the
    same id, a successful removal whose closure covers the id, or a clear *)
Definition covers (F : list (string * json)) (ob : (sop * Z) * bool) (id : string) : bool :=
  let '((op, now), ok) := ob in
  ok &&
  match op with
  | SAdd g x fr aux => match prepare_fact g x now fr aux with Ok (id', _) => String.eqb id' id | _ => false end
  | SRem j => mem_str id (clo_iter (S (length F)) F [j])
  | SClear => true
  | _ => false
  end.

(** no element of [tr], run from the map [F], touches [id] *)
Fixpoint untouched (F : list (string * json)) (tr : list ((sop * Z) * bool)) (id : string) : bool :=
  match tr with
  | [] => true
  | ob :: r => negb (covers F ob id) && untouched (spec_step F ob) r id
  end.

Definition spec_last_write_statement : Prop :=
  forall tr1 g x fr aux now tr2 id f,
    prepare_fact g x now fr aux = Ok (id, f) ->
    let F1 := spec_step (spec_facts tr1) ((SAdd g x fr aux, now), true) in
    untouched F1 tr2 id = true ->
    alookup id (spec_facts (tr1 ++ ((SAdd g x fr aux, now), true) :: tr2)) = Some f.

Definition spec_not_found_statement : Prop :=
  (forall tr id, untouched [] tr id = true -> alookup id (spec_facts tr) = None) /\
  (forall tr1 ob tr2 id,
     covers (spec_facts tr1) ob id = true ->
     (forall g x fr aux now, fst ob <> (SAdd g x fr aux, now)) ->
     untouched (spec_step (spec_facts tr1) ob) tr2 id = true ->
     alookup id (spec_facts (tr1 ++ ob :: tr2)) = None).

(** the add stores a fact that the indexed state can index (a rule body with
    a usable `when`, or no rule body): otherwise the indexed state refuses an
    add that the linear state accepts *)
Definition op_indexable (o : sop * Z) : bool :=
  match o with
  | (SAdd g x fr aux, now) =>
      match prepare_fact g x now fr aux with
      | Ok (_, f) => match idx_err f with None => true | Some _ => false end
      | _ => true
      end
  | _ => true
  end.

(** C2.  The same history run on an indexed and on a linear state: the same
    operations succeed, the fact maps and the storages are equal, every get
    gets the same answer, and every search whose pattern is in the matcher's
    determinate fragment w.r.t. the stored facts, has a term and no property
    variable (the decidable exclusions of D8, D9, D43) gets the same
    (id, bindings) pairs, as multisets. *)
Definition indexed_linear_agree_history_statement : Prop :=
  forall hooks ops,
    forallb op_plain ops = true -> forallb op_indexable ops = true ->
    let sI := reachable Indexed hooks None ops in
    let sL := reachable Linear hooks None ops in
    strace (init_state Indexed hooks) ops = strace (init_state Linear hooks) ops /\
    st_facts sI = st_facts sL /\ st_store sI = st_store sL /\
    (forall id now, snd (st_get sI id now) = snd (st_get sL id now)) /\
    (forall p now,
       extract_terms p <> [] -> no_propvar p = true ->
       (forall id fact, alookup id (st_facts sL) = Some fact -> fragment p fact [] = true) ->
       exists f1 f2, st_search sI p now = (sI, Ok f1) /\ st_search sL p now = (sL, Ok f2) /\
                     Permutation f1 f2).

(** (without the restriction to indexable facts the two kinds differ:
    HistProofs.indexed_linear_disagree_unindexable_counterexample) *)

(** * B3. C19: with the right keys a protected location behaves like its
      unprotected twin *)

(** the ids of the two key property facts *)
Definition key_idb (j : string) : bool := String.eqb j "!.writeKey" || String.eqb j "!.readKey".

(** a fact map without the key facts *)
Definition nokey (F : list (string * json)) : list (string * json) :=
  filter (fun kv => negb (key_idb (fst kv))) F.

(** A healthy state without expiry: no storage failure pending, sorted maps,
    the storage mirrors the memory, nothing noted for purge, no stored fact
    ever expires, and (indexed state) the
    term index covers the facts and its id lists are sorted.  Every state that
    a history of [op_plain] operations reaches from the empty state is
    healthy ([healthy_reachable_statement]). *)
Definition healthy (hooks : bool) (s : state) : Prop :=
  st_fail s = None /\ st_hooks s = hooks /\ st_wf s /\ st_store s = st_facts s /\ st_pending s = [] /\
  (forall id f, alookup id (st_facts s) = Some f -> fact_expires f = 0) /\
  (st_kind s = Indexed -> Idx_sup s /\ forall t, sorted_keys (ti_ids (st_tindex s) t) = true).

Definition healthy_reachable_statement : Prop :=
  forall k hooks ops, forallb op_plain ops = true -> healthy hooks (reachable k hooks None ops).

(** the key facts do not take part in any cascade but that of the id "" (the
    location's own property facts are written with deleteWith [""]), and no
    fact is stored under the empty id *)
Definition keyfacts_inert (s : state) : Prop :=
  (forall i fact x, key_idb i = true -> alookup i (st_facts s) = Some fact -> dw_names fact x = true -> x = "") /\
  alookup "" (st_facts s) = None.

(** the operation does not address a key fact (nor the empty id) *)
Definition op_nokey (o : sop * Z) : bool :=
  match o with
  | (SAdd g x fr aux, now) =>
      match prepare_fact g x now fr aux with
      | Ok (id, _) => negb (key_idb id) && negb (String.eqb id "")
      | _ => true
      end
  | (SRem j, _) => negb (key_idb j) && negb (String.eqb j "")
  | (SGet j, _) => negb (key_idb j)
  | _ => true
  end.

(** the answer of a state operation (adds, removals, clears and gets), in one type *)
Definition sstep_ans (s : state) (o : sop * Z) : outcome json :=
  let '(op, now) := o in
  match op with
  | SAdd g x fr aux => omap JStr (snd (st_add s g x now fr aux))
  | SRem id => omap JBool (snd (st_Rem s id now))
  | SGet id => snd (st_get s id now)
  | SClear => omap (fun _ => JNull) (snd (st_clear s))
  | _ => Ok JNull
  end.

Fixpoint sanswers (s : state) (ops : list (sop * Z)) : list (outcome json) :=
  match ops with
  | [] => []
  | o :: r => sstep_ans s o :: sanswers (sstep s o) r
  end.

(** B3, state level.  Two healthy states of the same kind whose fact maps
    differ by the key facts only, driven by the same history of operations
    that do not address the key facts: every add, removal, clear and get
    answers the same, the fact maps and the storages still differ by the key
    facts only, and in the states reached every get of a non-key id and every
    search whose pattern does not match a key fact (and is in the fragment of
    C2) answer the same. *)
Definition right_keys_transparent_state_statement : Prop :=
  forall hooks ops s u,
    healthy hooks s -> healthy hooks u -> st_kind u = st_kind s ->
    st_facts u = nokey (st_facts s) -> keyfacts_inert s ->
    forallb op_plain ops = true -> forallb op_indexable ops = true -> forallb op_nokey ops = true ->
    let s' := fold_left sstep ops s in
    let u' := fold_left sstep ops u in
    sanswers s ops = sanswers u ops /\
    healthy hooks s' /\ healthy hooks u' /\ st_kind u' = st_kind s' /\ keyfacts_inert s' /\
    st_facts u' = nokey (st_facts s') /\ st_store u' = nokey (st_store s') /\
    (forall id now, key_idb id = false -> snd (st_get s' id now) = snd (st_get u' id now)) /\
    (forall p now,
       extract_terms p <> [] -> no_propvar p = true ->
       (forall id fact, alookup id (st_facts s') = Some fact -> fragment p fact [] = true) ->
       (forall id fact, key_idb id = true -> alookup id (st_facts s') = Some fact -> core_match p fact [] = Ok []) ->
       exists f1 f2, st_search s' p now = (s', Ok f1) /\ st_search u' p now = (u', Ok f2) /\ Permutation f1 f2).

(** ** B3 at the level of one location *)

(** what a non-walking request does to the location it addresses *)
Definition loc_apply (l : loc) (c : ctx) (e : env) (op : lop) : loc :=
  match op with
  | LAddFact id fact => fst (loc_add_fact l c e id fact)
  | LAddRule id rule => fst (loc_add_rule l c e id rule)
  | LRemFact id => fst (loc_rem_fact l c e id)
  | LRemRule id => fst (loc_rem_rule l c e id)
  | LGetFact id => fst (loc_get_fact l c e id)
  | LGetRule id => fst (loc_get_rule l c e id)
  | LEnableRule id en => fst (loc_enable_rule l c e id en)
  | LClear => fst (loc_clear l c e)
  | LSetParents ps => fst (loc_set_parents l c e ps)
  | LGetParents => fst (loc_get_parents l c e)
  | LSize => fst (loc_size l c e)
  | LSetReadOnly ro => mkLoc (l_state l) ro (l_max l)
  | LReload => fst (loc_reload l (e_now e))
  | LSearch p _ => fst (loc_search_local l c e p)
  | LEvent _ => l
  end.

(** the answer of a non-walking request, from the location it addresses *)
Definition loc_res (name : string) (l : loc) (c : ctx) (e : env) (op : lop) : lres :=
  match op with
  | LAddFact id fact => RId (snd (loc_add_fact l c e id fact))
  | LAddRule id rule => RId (snd (loc_add_rule l c e id rule))
  | LRemFact id => RBool (snd (loc_rem_fact l c e id))
  | LRemRule id => RBool (snd (loc_rem_rule l c e id))
  | LGetFact id => RJson (snd (loc_get_fact l c e id))
  | LGetRule id => RJson (snd (loc_get_rule l c e id))
  | LEnableRule id en => RUnit (snd (loc_enable_rule l c e id en))
  | LClear => RUnit (snd (loc_clear l c e))
  | LSetParents ps => RId (snd (loc_set_parents l c e ps))
  | LGetParents => RParents (snd (loc_get_parents l c e))
  | LSize => RSize (snd (loc_size l c e))
  | LSetReadOnly ro => RUnit (Ok tt)
  | LReload => RUnit (snd (loc_reload l (e_now e)))
  | LSearch p _ => RFound (omap (fun x => [(name, x)]) (snd (loc_search_local l c e p)))
  | LEvent _ => RChildren (Err E_noloc)
  end.


(** the key the location currently requires (a pure reading of the property fact) *)
Definition key_of (l : loc) (prop : string) : string :=
  match prop_val l "" prop with Some (JStr s) => s | _ => "" end.

(** the context carries the keys the location requires *)
Definition opens (l : loc) (c : ctx) : Prop :=
  (key_of l "writeKey" = "" \/ c_wk c = key_of l "writeKey") /\
  (key_of l "readKey" = "" \/ c_rk c = key_of l "readKey").

(** The twin relation: the same flags and state kind, healthy states, and the
    twin's facts are the location's facts without the two key facts (every
    other property fact — enabled, parents, disabled flags — is shared). *)
Definition twin_loc (hooks : bool) (L U : loc) : Prop :=
  l_readonly U = l_readonly L /\ st_kind (l_state U) = st_kind (l_state L) /\
  healthy hooks (l_state L) /\ healthy hooks (l_state U) /\
  st_facts (l_state U) = nokey (st_facts (l_state L)) /\ keyfacts_inert (l_state L).

(** a request sent to both: the protected location gets it with the context
    [t_cL], the twin with ANY context [t_cU] *)
Record treq := mkTreq { t_cL : ctx; t_cU : ctx; t_env : env; t_op : lop }.

Definition sop_ok (o : sop * Z) : bool := op_plain o && op_indexable o && op_nokey o.

(** the fact under which AddRule stores a rule *)
Definition rule_wrapper (rm : list (string * json)) (expiring : bool) (E : Z) : json :=
  let w0 := [("rule", JObj rm)] in
  let w1 := if expiring then ainsert "expires" (JNum E) w0 else w0 in
  JObj (match alookup "deleteWith" rm with Some dw => ainsert "deleteWith" dw w1 | None => w1 end).

(** The requests covered: every non-walking operation but StateSize (its
    answer counts the key facts) and Reload, with arguments that do not
    expire, do not address the key facts or the empty id, and that the
    indexed state can index. *)
Definition treq_ok (q : treq) : bool :=
  let e := t_env q in
  let now := e_now e in
  match t_op q with
  | LAddFact id x => sop_ok (SAdd id x (e_fresh e) (e_aux e), now)
  | LAddRule id rule =>
      match rule_from_map rule with
      | Ok _ =>
          match set_expires (jO rule) now (e_aux e) with
          | Ok (rm, expiring, E) => sop_ok (SAdd id (rule_wrapper rm expiring E) (e_fresh e) None, now)
          | _ => true
          end
      | _ => true
      end
  | LRemFact id => sop_ok (SRem id, now)
  | LRemRule id => sop_ok (SRem id, now) && sop_ok (SRem (prop_id id "disabled"), now)
  | LGetFact id | LGetRule id => negb (key_idb id)
  | LEnableRule id true => sop_ok (SRem (prop_id id "disabled"), now)
  | LEnableRule id false => sop_ok (SAdd "" (set_prop_fact id "disabled" (JBool true)) (e_fresh e) None, now)
  | LClear | LGetParents | LSetReadOnly _ => true
  | LSetParents ps => sop_ok (SAdd "" (set_prop_fact "" "parents" (JArr (map JStr ps))) (e_fresh e) None, now)
  | _ => false
  end.

Definition tstep (LU : loc * loc) (q : treq) : loc * loc :=
  (loc_apply (fst LU) (t_cL q) (t_env q) (t_op q), loc_apply (snd LU) (t_cU q) (t_env q) (t_op q)).

(** the two answers to each request of a history *)
Fixpoint ttrace (n : string) (LU : loc * loc) (h : list treq) : list (lres * lres) :=
  match h with
  | [] => []
  | q :: r => (loc_res n (fst LU) (t_cL q) (t_env q) (t_op q), loc_res n (snd LU) (t_cU q) (t_env q) (t_op q))
              :: ttrace n (tstep LU q) r
  end.

Definition found_equiv (o1 o2 : outcome (list (string * list bindings))) : Prop :=
  match o1, o2 with
  | Ok f1, Ok f2 => Permutation f1 f2
  | Err a, Err b => a = b
  | _, _ => False
  end.

(** B3.  A protected location driven with contexts that carry its keys and
    its unprotected twin driven with arbitrary contexts, far enough from
    their capacity: every request of the history gets the same answer from
    both, the two stay twins (state equality up to the key facts, memory and
    storage), and in the pair reached every local search whose pattern is in
    the fragment of C2 and does not match a key fact answers the same
    multiset.  (Events and inherited searches walk through other locations:
    not covered here.) *)
Definition right_keys_transparent_statement : Prop :=
  forall hooks h L U n,
    twin_loc hooks L U ->
    (forall q, In q h -> opens L (t_cL q)) ->
    forallb treq_ok h = true ->
    lcount L + Z.of_nat (length h) < l_max L -> lcount U + Z.of_nat (length h) < l_max U ->
    let LU' := fold_left tstep h (L, U) in
    twin_loc hooks (fst LU') (snd LU') /\
    st_store (l_state (snd LU')) = nokey (st_store (l_state (fst LU'))) /\
    (forall r1 r2, In (r1, r2) (ttrace n (L, U) h) -> r1 = r2) /\
    (forall cL cU e p,
       opens L cL ->
       extract_terms p <> [] -> no_propvar p = true ->
       (forall id fact, alookup id (st_facts (l_state (fst LU'))) = Some fact -> fragment p fact [] = true) ->
       (forall id fact, key_idb id = true -> alookup id (st_facts (l_state (fst LU'))) = Some fact ->
                        core_match p fact [] = Ok []) ->
       found_equiv (snd (loc_search_local (fst LU') cL e p)) (snd (loc_search_local (snd LU') cU e p))).

(** * A2', C20: Reload of an indexed location *)

(** A sound indexed location: no storage failure pending, the storage mirrors
    the memory, sorted maps, the term index covers the facts, and every stored
    fact is a fixpoint of PrepareFact that the indexed state can index (all
    true of every state that a history reaches from the empty indexed state
    without storage failure: store_mirrors_memory, reachable_state_wf,
    index_superset_invariant, prepared_reachable, indexable_reachable). *)
Definition mirror_idx_loc (l : loc) : Prop :=
  let s := l_state l in
  st_kind s = Indexed /\ st_fail s = None /\ st_store s = st_facts s /\ st_wf s /\ Idx_sup s /\
  prepared s /\ all_indexable_in s.

(** With Reload, indexed location (cron hooks or not; facts may expire: the
    load drops the expired records from the storage). *)
Definition capacity_invariant_with_reload_indexed_statement : Prop :=
  forall h sy name l,
    sys_get sy name = Some l -> lcount l <= l_max l -> mirror_idx_loc l ->
    (forall q, In q h -> r_loc q = name -> cap_safe_op (r_op q) = true \/ r_op q = LReload) ->
    exists l', sys_get (sys_run sy h) name = Some l' /\ l_max l' = l_max l /\ lcount l' <= l_max l /\
               mirror_idx_loc l'.
