(** C04 - a concrete instance of [process_event_exact], by computation:
    location A inherits from B, B from C; each stores one fact {x:"1"}.
    Rule r1 (owned by C) has a condition with three results and three
    actions, the second of which throws; rule r2 (owned by A) has one action.
    The event {x:"1"} in A runs 3 * 3 + 1 executions; the throwing action is
    reported three times on its own node and changes nothing else. *)
From Verif Require Import Json Outcome Match PatIndex State Location SysOps Query QueryOps QuerySpec Events.
From Verif Require Import LocExamples EventsSpec EventsProofs.

Module EventsTiny.
  Definition sm (js : string) : option code :=
    if String.eqb js "one" then Some (CExpr (XConst (JNum 1)))
    else if String.eqb js "v" then Some (CExpr (XVar "v"))
    else if String.eqb js "w" then Some (CExpr (XVar "w"))
    else if String.eqb js "boom" then Some CThrow
    else None.

  Definition rule1 : json :=
    JObj [("actions", JArr [JObj [("code", JStr "v")]; JObj [("code", JStr "boom")]; JObj [("code", JStr "w")]]);
          ("condition", JObj [("pattern", JObj [("x", JStr "?w")])]);
          ("when", JObj [("pattern", ex_pat)])].
  Definition rule2 : json :=
    JObj [("action", JObj [("code", JStr "one")]); ("when", JObj [("pattern", ex_pat)])].
  Definition sy : system := ex_run ex_chain [("C", LAddRule "r1" rule1); ("A", LAddRule "r2" rule2)].
  Definition e2 := ex_env 2.

  Definition sy1 : system := fst (find_rules_full sy "A" ex_ctx e2 sm ex_fact).
  Definition children : list (string * json * list bindings) :=
    [("r1", rule1, [[("?v", JStr "1")]]); ("r2", rule2, [[("?v", JStr "1")]])].

  Lemma tiny_dispatch : snd (find_rules_full sy "A" ex_ctx e2 sm ex_fact) = Ok children.
  Proof. vm_compute. reflexivity. Qed.

  Lemma tiny_process_event :
    let xs := spec_recs sm (cond_results sm "A" ex_ctx e2 ex_fact sy1) children in
    process_event sy "A" ex_ctx e2 sm ex_fact = (sy1, mkWalk (Ok tt) xs (values_of xs) false) /\
    length xs = 10%nat /\
    map x_res (filter (fun x => String.eqb (x_code x) "boom") xs) = [Err "throw"; Err "throw"; Err "throw"] /\
    values_of xs = [JStr "1"; JStr "1"; JStr "1"; JStr "1"; JStr "1"; JStr "1"; JNum 1].
  Proof. vm_compute. repeat split; reflexivity. Qed.

  (** a variable of the rule named like a context binding is not overwritten *)
  Lemma inject_keeps_rule_bindings_example :
    inject [("?event", JNum 7)] ex_fact "A" "r" =
    [("?event", JNum 7); ("?location", JStr "A"); ("?ruleId", JStr "r")].
  Proof. vm_compute. reflexivity. Qed.
End EventsTiny.
