(** The executable deleteWith closure (CorrLoc.clo_iter, the spec the
    correspondence checker judges removals with) computes exactly the
    inductive closure [Clo]; sorted association lists are determined by
    their look-ups. *)
From Coq Require Import Lia.
From Verif Require Import Json Outcome Match PatIndex State Location CorrLoc MatchLemmas1 StateSpec AssocLemmas.
From Verif Require Import CascadeSpec CascadeLemmas1 CascadeExact DurableReload.

(** * Extensionality of sorted association lists *)

Lemma assoc_ext {A} : forall (l1 l2 : list (string * A)),
  sorted_keys (map fst l1) = true -> sorted_keys (map fst l2) = true ->
  (forall j, alookup j l1 = alookup j l2) -> l1 = l2.
Proof.
  induction l1 as [|[k1 v1] t1 IH]; intros l2 H1 H2 He.
  - destruct l2 as [|[k2 v2] t2]; [reflexivity|].
    specialize (He k2). cbn [alookup] in He. rewrite String.eqb_refl in He. discriminate.
  - destruct l2 as [|[k2 v2] t2].
    { specialize (He k1). cbn [alookup] in He. rewrite String.eqb_refl in He. discriminate. }
    cbn [map fst] in H1, H2. apply sorted_cons in H1. apply sorted_cons in H2.
    destruct H1 as [L1 S1], H2 as [L2 S2].
    assert (Hk : k1 = k2).
    { destruct (String.compare k1 k2) eqn:Ec.
      - apply scmp_eq. exact Ec.
      - exfalso. pose proof (He k1) as H. cbn [alookup] in H. rewrite String.eqb_refl in H.
        rewrite (eqb_false_of_lt _ _ Ec) in H.
        rewrite alookup_lb_None in H; [discriminate|].
        intros k' Hin. eapply str_ltb_trans; [apply str_ltb_lt; exact Ec|apply L2; exact Hin].
      - exfalso. pose proof (He k2) as H. cbn [alookup] in H. rewrite String.eqb_refl in H.
        apply scmp_gt_lt in Ec. rewrite (eqb_false_of_lt _ _ Ec) in H.
        rewrite alookup_lb_None in H; [discriminate|].
        intros k' Hin. eapply str_ltb_trans; [apply str_ltb_lt; exact Ec|apply L1; exact Hin]. }
    subst k2. pose proof (He k1) as Hv. cbn [alookup] in Hv. rewrite String.eqb_refl in Hv.
    injection Hv as <-. f_equal. apply IH; auto.
    intros j. destruct (String.eqb_spec j k1) as [->|Hne].
    + rewrite !alookup_lb_None; auto.
    + specialize (He j). cbn [alookup] in He. apply String.eqb_neq in Hne. rewrite Hne in He. exact He.
Qed.

Lemma sorted_afilter {A} keep (l : list (string * A)) :
  sorted_keys (map fst l) = true -> sorted_keys (map fst (afilter keep l)) = true.
Proof.
  induction l as [|[k v] r IH]; intros Hs; [reflexivity|].
  cbn [map fst] in Hs. apply sorted_cons in Hs. destruct Hs as [Hlb Hs].
  cbn [afilter filter fst]. fold (afilter keep r). destruct (keep k); [|apply IH; exact Hs].
  cbn [map fst]. apply sorted_cons. split; [|apply IH; exact Hs].
  intros k' Hin. apply Hlb. clear - Hin. induction r as [|[k0 v0] r IH]; [destruct Hin|].
  cbn [afilter filter fst map] in *. fold (afilter keep r) in *.
  destruct (keep k0); cbn [map fst In] in *; [destruct Hin as [<-|Hin]; [left; reflexivity|right; auto]|right; auto].
Qed.

(** * clo_iter computes Clo *)

Section Closure.
  Variable s : state.
  Hypothesis Hs : sorted_keys (map fst (st_facts s)) = true.
  Let F := st_facts s.

  Definition step_new (set : list string) : list string :=
    map fst (filter (fun kv => negb (mem_str (fst kv) set) && existsb (dw_names_b (snd kv)) set) F).

  Lemma clo_iter_S f set :
    clo_iter (S f) F set = match step_new set with [] => set | _ => clo_iter f F (set ++ step_new set)%list end.
  Proof. reflexivity. Qed.

  Lemma step_new_In j set :
    In j (step_new set) <->
    exists fact, alookup j F = Some fact /\ mem_str j set = false /\ exists x, In x set /\ dw_names fact x = true.
  Proof.
    unfold step_new. rewrite in_map_iff. split.
    - intros ([j' fact] & <- & Hin). apply filter_In in Hin. destruct Hin as [Hin Hc]. cbn [fst snd] in *.
      apply andb_true_iff in Hc. destruct Hc as [H1 H2]. apply Bool.negb_true_iff in H1.
      apply existsb_exists in H2. destruct H2 as (x & Hx & Hn).
      exists fact. split; [apply In_sorted_alookup; assumption|]. split; [exact H1|]. exists x. split; assumption.
    - intros (fact & Hl & Hm & x & Hx & Hn). exists (j, fact). split; [reflexivity|].
      apply filter_In. split; [apply alookup_In; exact Hl|]. cbn [fst snd]. rewrite Hm. cbn [negb andb].
      apply existsb_exists. exists x. split; assumption.
  Qed.

  Lemma clo_iter_incl : forall fuel set x, In x set -> In x (clo_iter fuel F set).
  Proof.
    induction fuel as [|f IH]; intros set x Hx; [exact Hx|].
    rewrite clo_iter_S. destruct (step_new set); [exact Hx|]. apply IH. apply in_or_app. left; exact Hx.
  Qed.

  Lemma clo_iter_sound id : forall fuel set,
    (forall x, In x set -> Clo s id x) -> forall j, In j (clo_iter fuel F set) -> Clo s id j.
  Proof.
    induction fuel as [|f IH]; intros set Hset j Hj; [apply Hset; exact Hj|].
    rewrite clo_iter_S in Hj. destruct (step_new set) as [|n0 nr] eqn:En; [apply Hset; exact Hj|].
    rewrite <- En in Hj. apply (IH (set ++ step_new set)%list); [|exact Hj].
    intros x Hx. apply in_app_or in Hx. destruct Hx as [Hx|Hx]; [apply Hset; exact Hx|].
    apply step_new_In in Hx. destruct Hx as (fact & Hl & _ & y & Hy & Hn).
    eapply Clo_dep; [apply Hset; exact Hy|exact Hl|exact Hn].
  Qed.

  Definition outside (set : list string) : nat :=
    length (filter (fun kv : string * json => negb (mem_str (fst kv) set)) F).

  Lemma filter_length_lt {A} (p q : A -> bool) (l : list A) x :
    (forall y, q y = true -> p y = true) -> In x l -> p x = true -> q x = false ->
    (length (filter q l) < length (filter p l))%nat.
  Proof.
    intros Hqp. induction l as [|y r IH]; intros Hin Hp Hq; [destruct Hin|].
    assert (Hle : forall r0 : list A, (length (filter q r0) <= length (filter p r0))%nat).
    { induction r0 as [|z r0 IH0]; cbn [filter length]; [lia|].
      destruct (q z) eqn:Eq; [rewrite (Hqp z Eq); cbn [length]; lia|destruct (p z); cbn [length]; lia]. }
    cbn [filter]. destruct Hin as [->|Hin].
    - rewrite Hp, Hq. cbn [length]. specialize (Hle r). lia.
    - specialize (IH Hin Hp Hq). destruct (q y) eqn:Eq; [rewrite (Hqp y Eq); cbn [length]; lia|].
      destruct (p y); cbn [length]; lia.
  Qed.

  Definition closed_set (set : list string) : Prop :=
    forall x j fact, In x set -> alookup j F = Some fact -> dw_names fact x = true -> In j set.

  Lemma clo_iter_closed : forall fuel set, (outside set < fuel)%nat -> closed_set (clo_iter fuel F set).
  Proof.
    induction fuel as [|f IH]; intros set Hm; [lia|].
    rewrite clo_iter_S. destruct (step_new set) as [|n0 nr] eqn:En.
    - intros x j fact Hx Hl Hn. destruct (mem_str j set) eqn:Em; [apply mem_str_In; exact Em|].
      exfalso. assert (H : In j (step_new set)) by (apply step_new_In; exists fact; eauto).
      rewrite En in H. destruct H.
    - rewrite <- En. apply IH.
      assert (Hn0 : In n0 (step_new set)) by (rewrite En; left; reflexivity).
      apply step_new_In in Hn0. destruct Hn0 as (fact & Hl & Hm0 & _).
      assert (Hlt : (outside (set ++ step_new set) < outside set)%nat).
      { unfold outside. apply (filter_length_lt _ _ F (n0, fact)).
        - intros [k v] H. cbn [fst] in *. apply Bool.negb_true_iff in H. apply Bool.negb_true_iff.
          destruct (mem_str k set) eqn:E; [|reflexivity].
          rewrite mem_str_app, E in H. discriminate.
        - apply alookup_In. exact Hl.
        - cbn [fst]. rewrite Hm0. reflexivity.
        - cbn [fst]. apply Bool.negb_false_iff. apply mem_str_In. apply in_or_app. right.
          rewrite En. left; reflexivity. }
      lia.
  Qed.

  Theorem clo_iter_spec id j :
    In j (clo_iter (S (length F)) F [id]) <-> Clo s id j.
  Proof.
    split.
    - apply clo_iter_sound. intros x [<-|[]]. constructor.
    - intros H.
      assert (Hc : closed_set (clo_iter (S (length F)) F [id])).
      { apply clo_iter_closed. unfold outside. pose proof (afilter_length (fun j => negb (mem_str j [id])) F) as Hl. unfold afilter in Hl. lia. }
      induction H as [|x j fact H IH Hj Hn].
      + apply clo_iter_incl. left; reflexivity.
      + eapply Hc; eauto.
  Qed.
End Closure.

