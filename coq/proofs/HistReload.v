(** C20 A2': Reload of an indexed location keeps the capacity bound. *)
From Coq Require Import Lia.
From Verif Require Import Json Outcome Match PatIndex State Location SysOps.
From Verif Require Import StateSpec AssocLemmas StateProofs CascadeSpec CascadeLemmas1 GateProofs CapacityProofs.
From Verif Require Import DurableFrame DurableInv DurablePrepare DurableSpec DurableMirror DurableReload DurableReach.
From Verif Require Import LocSpec LocBasics TotalSys HistSpec HistLoc HistClosure.

(** * A stored fact that has expired is refused by PrepareFact as expired *)

Lemma prepare_expired_err id fact now :
  (forall now', fact_expired fact now' = false -> prepare_fact id fact now' id None = Ok (id, fact)) ->
  fact_expired fact now = true ->
  prepare_fact id fact now id None = Err "expired".
Proof.
  intros Hprep Hexp. unfold fact_expired, not_after in Hexp. apply andb_true_iff in Hexp.
  destruct Hexp as [Hnz Hle]. apply Bool.negb_true_iff in Hnz. apply Z.eqb_neq in Hnz. apply Z.leb_le in Hle.
  set (E := fact_expires fact) in *.
  assert (Hlive : fact_expired fact (E - 1) = false).
  { unfold fact_expired, not_after. fold E. apply andb_false_iff. right. apply Z.leb_gt. lia. }
  pose proof (Hprep (E - 1) Hlive) as H.
  destruct (prepare_fact_inv _ _ _ _ _ _ _ H) as (m' & ex & E' & Hf & G & S & N).
  pose proof (prepare_fact_expires _ _ _ _ _ _ _ _ _ _ H S) as HE. fold E in HE.
  destruct (set_expires_full _ _ _ _ _ _ S) as (m1 & _ & _ & Httl & Hexp' & H0 & Hp & Hi & _ & _ & Hrule).
  assert (Hex : ex = true).
  { destruct ex; [reflexivity|]. exfalso. apply Hnz. rewrite HE. apply H0. reflexivity. }
  subst ex. subst E'.
  assert (Hjo : jO fact = m') by (rewrite Hf; reflexivity).
  assert (S' : set_expires (jO fact) now None = Ok (m', true, E)).
  { rewrite Hjo. rewrite set_expires_stages. unfold se_stage1. rewrite Httl. cbn [obind].
    unfold se_stage2. rewrite Hexp'. cbn [obind]. destruct (Hrule eq_refl) as [Hr|(r' & Hr & _ & Hid)].
    + rewrite Hr. reflexivity.
    + rewrite Hr, Hid. reflexivity. }
  eapply expired_write_rejected; [exact G|exact S'|exact Hnz|exact Hle].
Qed.

(** * Loading a sound storage, expired records included *)

Definition live_at (now : Z) (kv : string * json) : bool := negb (fact_expired (snd kv) now).

Lemma alookup_filter_sorted {A} (q : string * A -> bool) (F : list (string * A)) j :
  sorted_keys (map fst F) = true ->
  alookup j (filter q F) = match alookup j F with Some x => if q (j, x) then Some x else None | None => None end.
Proof.
  induction F as [|[k v] r IH]; intros Hs; [reflexivity|].
  cbn [map fst] in Hs. apply sorted_cons in Hs. destruct Hs as [Hlb Hs].
  cbn [filter alookup]. destruct (String.eqb_spec j k) as [->|Hne].
  - destruct (q (k, v)) eqn:Eq; cbn [alookup]; [rewrite String.eqb_refl; reflexivity|].
    rewrite IH by exact Hs. rewrite (alookup_lb_None k r Hlb). reflexivity.
  - destruct (q (k, v)); cbn [alookup]; [apply String.eqb_neq in Hne; rewrite Hne|]; apply IH; exact Hs.
Qed.

Lemma load_idx_live now : forall rest done s,
  P s -> st_fail s = None -> st_facts s = done ->
  (forall k1 k2, In k1 (map fst done) -> In k2 (map fst rest) -> str_ltb k1 k2 = true) ->
  sorted_keys (map fst rest) = true ->
  (forall id fact, In (id, fact) rest ->
     (forall now', fact_expired fact now' = false -> prepare_fact id fact now' id None = Ok (id, fact)) /\
     idx_err fact = None) ->
  exists s', load_idx s rest now = (s', Ok tt) /\
    st_facts s' = (done ++ filter (live_at now) rest)%list /\
    (forall j, alookup j (st_store s') =
               if existsb (fun kv => String.eqb j (fst kv) && negb (live_at now kv)) rest then None
               else alookup j (st_store s)) /\
    st_kind s' = st_kind s /\ st_hooks s' = st_hooks s /\ st_fail s' = None /\ P s'.
Proof.
  induction rest as [|[id x] r IH]; intros done s HP Hfail Hf Hlt Hs Hok; cbn [load_idx].
  - exists s. rewrite app_nil_r. split; [reflexivity|]. split; [exact Hf|]. split; [intros j; reflexivity|].
    split; [reflexivity|]. split; [reflexivity|]. split; [exact Hfail|exact HP].
  - destruct (Hok id x (or_introl eq_refl)) as [Hprep Hidx].
    cbn [map fst] in Hs. apply sorted_cons in Hs. destruct Hs as [Hlb Hs].
    assert (Hok' : forall id' fact', In (id', fact') r ->
              (forall now', fact_expired fact' now' = false -> prepare_fact id' fact' now' id' None = Ok (id', fact')) /\
              idx_err fact' = None) by (intros; apply Hok; right; assumption).
    destruct (fact_expired x now) eqn:Hx.
    + (* expired: the record leaves the storage *)
      rewrite (prepare_expired_err id x now Hprep Hx). cbn [String.eqb Ascii.eqb Bool.eqb].
      change (String.eqb "expired" "expired") with true. cbv iota.
      unfold store_call. rewrite Hfail.
      set (s1 := set_store _ _).
      assert (HP1 : P s1).
      { unfold s1. apply P_set_store_aremove. pose proof (P_store_call s HP) as H. unfold store_call in H.
        rewrite Hfail in H. exact H. }
      assert (Hfail1 : st_fail s1 = None) by reflexivity.
      assert (Hf1 : st_facts s1 = done) by exact Hf.
      assert (Hlt1 : forall k1 k2, In k1 (map fst done) -> In k2 (map fst r) -> str_ltb k1 k2 = true)
        by (intros k1 k2 H1 H2; apply Hlt; [exact H1|right; exact H2]).
      destruct (IH done s1 HP1 Hfail1 Hf1 Hlt1 Hs Hok') as (s' & Hl & Hfs & Hst & Hk & Hh & Hfl & HPs).
      exists s'. split; [exact Hl|]. cbn [filter]. unfold live_at at 1. cbn [snd]. rewrite Hx. cbn [negb].
      split; [exact Hfs|]. split; [|split; [exact Hk|split; [exact Hh|split; [exact Hfl|exact HPs]]]].
      intros j. rewrite Hst. cbn [existsb fst]. unfold live_at at 2. cbn [snd]. rewrite Hx. cbn [negb andb].
      unfold s1. cbn [st_store set_store]. rewrite alookup_aremove, Bool.andb_true_r.
      destruct (String.eqb j id); cbn [orb]; [destruct (existsb _ r); reflexivity|reflexivity].
    + rewrite (Hprep now Hx).
      pose proof (st_add_mem_idx_err s id x) as Herr. rewrite Hidx in Herr.
      pose proof (P_st_add_mem_idx s id x HP) as HP1.
      destruct (st_add_mem_idx s id x) as [s1 e] eqn:Eadd. cbn [snd fst] in Herr, HP1. subst e.
      apply st_add_mem_idx_spec in Eadd. destruct Eadd as (s2 & He & Hs1).
      destruct He as (Hk2 & Hf2 & Ht2 & Hst2 & Hh2 & Hc2 & Hfl2 & Ha2).
      assert (Hf1 : st_facts s1 = (done ++ [(id, x)])%list).
      { rewrite Hs1. cbn [st_facts set_facts]. rewrite Hf2, Hf.
        apply ainsert_append. intros k' Hin. apply Hlt; [exact Hin|]. left; reflexivity. }
      assert (Hfail1 : st_fail s1 = None) by (rewrite Hs1; cbn [st_fail set_facts set_tindex]; congruence).
      destruct (IH (done ++ [(id, x)])%list s1 HP1 Hfail1 Hf1) as (s' & Hl & Hfs & Hst & Hk & Hh & Hfl & HPs).
      * intros k1 k2 Hin1 Hin2. rewrite map_app in Hin1. apply in_app_or in Hin1.
        destruct Hin1 as [Hin1|Hin1].
        -- apply Hlt; [exact Hin1|]. right; exact Hin2.
        -- cbn [map fst In] in Hin1. destruct Hin1 as [<-|[]]. apply Hlb; exact Hin2.
      * exact Hs.
      * exact Hok'.
      * exists s'. split; [exact Hl|]. cbn [filter]. unfold live_at at 1. cbn [snd]. rewrite Hx. cbn [negb].
        split; [rewrite Hfs, <- app_assoc; reflexivity|].
        split.
        { intros j. rewrite Hst. cbn [existsb fst]. unfold live_at at 2. cbn [snd]. rewrite Hx.
          cbn [negb andb]. rewrite Bool.andb_false_r. cbn [orb].
          rewrite Hs1. cbn [st_store set_facts set_tindex]. rewrite Hst2. reflexivity. }
        rewrite Hk, Hh, Hs1. cbn [st_kind st_hooks set_facts set_tindex]. split; [exact Hk2|]. split; [exact Hh2|]. split; [exact Hfl|exact HPs].
Qed.

Lemma existsb_sorted {A} (q : string * A -> bool) (F : list (string * A)) j :
  sorted_keys (map fst F) = true ->
  existsb (fun kv => String.eqb j (fst kv) && q kv) F =
  match alookup j F with Some x => q (j, x) | None => false end.
Proof.
  induction F as [|[k v] r IH]; intros Hs; [reflexivity|].
  cbn [map fst] in Hs. apply sorted_cons in Hs. destruct Hs as [Hlb Hs].
  cbn [existsb alookup fst]. destruct (String.eqb_spec j k) as [->|Hne]; cbn [andb orb].
  - destruct (q (k, v)); [reflexivity|]. cbn [orb]. rewrite IH by exact Hs.
    rewrite (alookup_lb_None k r Hlb). reflexivity.
  - apply IH; exact Hs.
Qed.

(** the state predicate of a sound indexed location *)
Definition QI (s : state) : Prop :=
  st_kind s = Indexed /\ st_fail s = None /\ st_store s = st_facts s /\ st_wf s /\ Idx_sup s /\
  prepared s /\ all_indexable_in s.

Lemma QI_step s o : QI s -> QI (sstep s o).
Proof.
  intros (Hk & Hf & Hm & Hwf & Hsup & Hprep & Hix).
  destruct (sstep_Pres s o) as (P1 & P2 & P3 & _).
  assert (HM : M (sstep s o)) by (apply sstep_M; split; assumption).
  assert (HP : P (sstep s o)) by (apply sstep_P; repeat split; try assumption; apply Hwf).
  split; [congruence|]. split; [congruence|]. split; [apply HM|]. split; [apply HP|]. split; [apply HP|].
  split; [apply prepared_sstep; exact Hprep|]. apply (sstep_Ix s o); [intros _; exact Hix|congruence].
Qed.

Lemma loc_reload_QI M0 l now :
  within M0 l -> LQ QI l -> within M0 (fst (loc_reload l now)) /\ LQ QI (fst (loc_reload l now)).
Proof.
  intros [Hm Hc] (Hk & Hf & Hmir & Hwf & Hsup & Hprep & Hix). unfold loc_reload.
  set (s := l_state l) in *. rewrite Hk, st_load_indexed_unfold.
  set (F := st_store s) in *. set (s1 := mkState Indexed [] [] pn_empty F (st_hooks s) 1 None false []).
  assert (HsF : sorted_keys (map fst F) = true) by apply Hwf.
  assert (HP1 : P s1).
  { unfold P, st_wf, Idx_sup, s1. cbn [st_kind st_facts st_tindex st_store map].
    repeat split; try reflexivity; try exact HsF. intros id fact t Hl. discriminate. }
  destruct (load_idx_live now F [] s1 HP1 eq_refl eq_refl) as (s' & Hl & Hfs & Hst & Hk' & Hh' & Hfl' & HP').
  { intros k1 k2 []. }
  { exact HsF. }
  { intros id fact Hin. pose proof (In_sorted_alookup _ _ _ HsF Hin) as Hlk. rewrite Hmir in Hlk.
    split; [intros now' Hne; apply (Hprep id fact Hlk now' Hne)|].
    apply indexable_fact_iff. apply (Hix id fact Hlk). }
  rewrite Hl. cbn [fst app] in *.
  assert (Hsub : forall j f, alookup j (st_facts s') = Some f -> alookup j (st_facts s) = Some f).
  { intros j f Hj. rewrite Hfs, alookup_filter_sorted in Hj by exact HsF. rewrite <- Hmir.
    destruct (alookup j F) as [x|]; [|discriminate]. destruct (live_at now (j, x)); [exact Hj|discriminate]. }
  split.
  - unfold within, lcount. cbn [l_max l_state]. split; [exact Hm|].
    rewrite Hfs. pose proof (afilter_length (fun _ => true) F) as _.
    assert (Hlen : (length (filter (live_at now) F) <= length F)%nat).
    { clear. induction F as [|kv r IH]; cbn [filter length]; [lia|]. destruct (live_at now kv); cbn [length]; lia. }
    unfold lcount in Hc. fold s in Hc. rewrite <- Hmir in Hc. lia.
  - unfold LQ, QI. cbn [l_state]. destruct HP' as (HkP & HwfP & HsupP).
    split; [exact HkP|]. split; [exact Hfl'|]. split; [|split; [exact HwfP|split; [exact HsupP|split]]].
    + apply assoc_ext; [apply HwfP|apply HwfP|]. intros j. rewrite Hst, Hfs.
      rewrite alookup_filter_sorted by exact HsF. rewrite existsb_sorted by exact HsF.
      unfold s1. cbn [st_store]. destruct (alookup j F) as [x|]; [|reflexivity].
      destruct (live_at now (j, x)); reflexivity.
    + intros id fact Hj. apply (Hprep id fact (Hsub id fact Hj)).
    + intros id fact Hj. apply (Hix id fact (Hsub id fact Hj)).
Qed.

(** * The history, for any state predicate kept by the operations and by Reload *)
Section GenReload.
  Variable Q : state -> Prop.
  Hypothesis Q_step : forall s o, Q s -> Q (sstep s o).
  Hypothesis Q_reload : forall M0 l now,
    within M0 l -> LQ Q l -> within M0 (fst (loc_reload l now)) /\ LQ Q (fst (loc_reload l now)).

  Lemma sys_do_within_Q M0 name sy q :
    (r_loc q = name -> cap_safe_op (r_op q) = true \/ r_op q = LReload) ->
    (exists l, sys_get sy name = Some l /\ within M0 l /\ LQ Q l) ->
    exists l, sys_get (sys_do sy q) name = Some l /\ within M0 l /\ LQ Q l.
  Proof.
    intros Hq (l & Hg & Hw & Hmq). unfold sys_do.
    assert (HK : reads_keep (fun l0 => within M0 l0 /\ LQ Q l0)).
    { destruct (reads_keep_LQ Q Q_step) as (K1 & K2 & K3 & K4).
      unfold reads_keep. split; [|split; [|split]]; intros; destruct H as [H1 H2]; split; auto.
      - eapply lsub_within; [apply get_parents_lsub|exact H1].
      - eapply lsub_within; [apply loc_search_local_lsub|exact H1].
      - eapply lsub_within; [apply loc_rules_local_lsub|exact H1].
      - eapply lsub_within; [apply LocWalk.find_children_lsub|exact H1]. }
    destruct (sys_step_pred _ sy (r_loc q) (r_ctx q) (r_env q) (r_op q) name l HK Hg (conj Hw Hmq))
      as (l' & Hg' & [Hs|(Hn & Hnw & ->)]).
    - exists l'. split; [exact Hg'|exact Hs].
    - eexists. split; [exact Hg'|]. destruct (Hq Hn) as [Hsafe|Hr].
      + split; [apply loc_apply_within; auto|]. apply (loc_apply_LQ Q Q_step); [|exact Hmq].
        intros E. rewrite E in Hsafe. discriminate.
      + rewrite Hr. cbn [loc_apply]. apply Q_reload; assumption.
  Qed.

  Lemma sys_run_within_Q M0 name : forall h sy,
    (forall q, In q h -> r_loc q = name -> cap_safe_op (r_op q) = true \/ r_op q = LReload) ->
    (exists l, sys_get sy name = Some l /\ within M0 l /\ LQ Q l) ->
    exists l, sys_get (sys_run sy h) name = Some l /\ within M0 l /\ LQ Q l.
  Proof.
    induction h as [|q h IH]; intros sy Hh H0; [exact H0|].
    cbn [sys_run fold_left]. apply IH.
    - intros q' Hin. apply Hh. right. exact Hin.
    - apply sys_do_within_Q; [apply Hh; left; reflexivity|exact H0].
  Qed.
End GenReload.

Theorem capacity_invariant_with_reload_indexed_main : capacity_invariant_with_reload_indexed_statement.
Proof.
  intros h sy name l Hg Hc Hmir Hh.
  destruct (sys_run_within_Q QI QI_step loc_reload_QI (l_max l) name h sy Hh) as (l' & Hg' & (Hm & Hc') & Hq).
  { exists l. split; [exact Hg|]. split; [split; [reflexivity|exact Hc]|exact Hmir]. }
  exists l'. repeat split; auto; apply Hq.
Qed.
