(** C15, registry clause: proofs of the statements of CronHooksSpec.v about one
    operation - the calls that an operation of the state API makes to the cron
    service keep the registry equal to the stored scheduled rules, on every
    path: add, overwrite, removal with its cascade, purge of expired items,
    clear.  (The histories, with restarts, are in CronHooksHist.v.)  The former
    counterexamples of finding D28 are positive examples here. *)
From Coq Require Import Lia.
From Verif Require Import Json Outcome Match PatIndex State Location CronHooks StateSpec
  MatchLemmas1 AssocLemmas StateProofs DurableFrame DurableInv DurablePrepare DurableSpec
  DurableMirror DurableExpiry DurableFail DurableReach DurableProofs LocBasics CronHooksSpec.

(** * 2. The specification as a map *)

Definition sched_step (acc : registry) (kv : string * json) : registry :=
  match fact_schedule (snd kv) with
  | Some sch => ainsert (fst kv) sch acc
  | None => acc
  end.

Lemma scheduled_rules_fold s : scheduled_rules s = fold_left sched_step (st_facts s) [].
Proof. reflexivity. Qed.

Lemma sched_fold_sorted l : forall acc,
  sorted_keys (map fst acc) = true -> sorted_keys (map fst (fold_left sched_step l acc)) = true.
Proof.
  induction l as [|kv r IH]; intros acc Hs; cbn [fold_left]; [exact Hs|].
  apply IH. unfold sched_step. destruct (fact_schedule (snd kv)); [apply sorted_ainsert|]; exact Hs.
Qed.

Lemma sched_fold_lookup l : forall acc id,
  sorted_keys (map fst l) = true ->
  alookup id (fold_left sched_step l acc) =
  match alookup id l with
  | Some f => match fact_schedule f with Some sch => Some sch | None => alookup id acc end
  | None => alookup id acc
  end.
Proof.
  induction l as [|[k v] r IH]; intros acc id Hs; cbn [fold_left alookup]; [reflexivity|].
  cbn [map fst] in Hs. apply sorted_cons in Hs. destruct Hs as [Hlb Hs].
  rewrite (IH _ id Hs). unfold sched_step. cbn [fst snd].
  destruct (String.eqb_spec id k) as [->|Hne].
  - assert (Hn : alookup k r = None).
    { destruct (alookup k r) as [f|] eqn:E; [|reflexivity]. exfalso.
      apply AssocLemmas.alookup_In_keys in E. apply Hlb in E.
      apply str_ltb_lt in E. rewrite scmp_refl in E. discriminate. }
    rewrite Hn. destruct (fact_schedule v); [apply alookup_ainsert_same|reflexivity].
  - destruct (fact_schedule v) as [sch|].
    + rewrite (alookup_ainsert_other k id sch acc Hne). reflexivity.
    + reflexivity.
Qed.

(** the schedule of the fact stored under [j], if any *)
Definition olk (j : string) (s : state) : option string :=
  match alookup j (st_facts s) with Some f => fact_schedule f | None => None end.

Lemma sched_lookup s id : st_wf s -> alookup id (scheduled_rules s) = olk id s.
Proof.
  intros (W & _). rewrite scheduled_rules_fold, (sched_fold_lookup _ [] id W). unfold olk.
  destruct (alookup id (st_facts s)) as [f|]; [|reflexivity].
  destruct (fact_schedule f); reflexivity.
Qed.

Lemma scheduled_rules_sorted s : sorted_keys (map fst (scheduled_rules s)) = true.
Proof. rewrite scheduled_rules_fold. apply sched_fold_sorted. reflexivity. Qed.

Theorem scheduled_rules_spec : scheduled_rules_spec_statement.
Proof.
  intros s W. split; [|apply scheduled_rules_sorted].
  intros id sch. rewrite (sched_lookup s id W). unfold olk. split.
  - destruct (alookup id (st_facts s)) as [f|]; [|discriminate].
    intros H. exists f. split; [reflexivity|exact H].
  - intros (f & -> & H). exact H.
Qed.

Definition pair_eqb (a b : string * string) : bool :=
  String.eqb (fst a) (fst b) && String.eqb (snd a) (snd b).

Lemma list_eqb_pair_eq (a b : registry) : list_eqb pair_eqb a b = true <-> a = b.
Proof.
  revert b. induction a as [|[k v] a IH]; intros [|[k' v'] b]; cbn [list_eqb]; try (split; [discriminate|discriminate]).
  - split; reflexivity.
  - unfold pair_eqb at 1. cbn [fst snd]. rewrite !andb_true_iff, !String.eqb_eq, IH. split.
    + intros [[-> ->] ->]. reflexivity.
    + intros H. injection H as -> -> ->. auto.
Qed.

Lemma registry_exact_eq reg s : registry_exact reg s = true <-> reg = scheduled_rules s.
Proof. unfold registry_exact. apply list_eqb_pair_eq. Qed.

Theorem registry_exact_iff : registry_exact_iff_statement.
Proof.
  intros reg s W Hs. rewrite registry_exact_eq. split.
  - intros ->. reflexivity.
  - intros H. apply sorted_alist_ext; [exact Hs|apply scheduled_rules_sorted|exact H].
Qed.

Lemma exact_intro reg s :
  st_wf s -> sorted_keys (map fst reg) = true -> (forall j, alookup j reg = olk j s) ->
  registry_exact reg s = true.
Proof.
  intros W Hs H. apply (registry_exact_iff reg s W Hs). intros j. rewrite (sched_lookup s j W). apply H.
Qed.

Lemma exact_elim reg s :
  st_wf s -> registry_exact reg s = true ->
  sorted_keys (map fst reg) = true /\ forall j, alookup j reg = olk j s.
Proof.
  intros W H. apply registry_exact_eq in H. subst reg. split; [apply scheduled_rules_sorted|].
  intros j. apply sched_lookup. exact W.
Qed.

(** * 1+3. One instrumented step *)

Lemma apply_call_sorted reg c :
  sorted_keys (map fst reg) = true -> sorted_keys (map fst (apply_call reg c)) = true.
Proof. destruct c; cbn [apply_call]; [apply sorted_ainsert|apply sorted_aremove]. Qed.

Lemma apply_calls_sorted cs : forall reg,
  sorted_keys (map fst reg) = true -> sorted_keys (map fst (fold_left apply_call cs reg)) = true.
Proof.
  induction cs as [|c r IH]; intros reg Hs; cbn [fold_left]; [exact Hs|].
  apply IH. apply apply_call_sorted. exact Hs.
Qed.

Definition is_remj (c : ccall) : Prop := match c with CRemJ _ => True | CSched _ _ => False end.

Lemma rems_keep_none cs : forall reg j,
  Forall is_remj cs -> alookup j reg = None -> alookup j (fold_left apply_call cs reg) = None.
Proof.
  induction cs as [|c r IH]; intros reg j Hf Hn; cbn [fold_left]; [exact Hn|].
  inversion Hf as [|c0 r0 Hc Hr]; subst. apply IH; [exact Hr|].
  destruct c as [i sch|i]; [destruct Hc|]. cbn [apply_call].
  rewrite alookup_aremove. destruct (String.eqb j i); [reflexivity|exact Hn].
Qed.

Lemma rems_remove cs : forall reg j,
  Forall is_remj cs -> In (CRemJ j) cs -> alookup j (fold_left apply_call cs reg) = None.
Proof.
  induction cs as [|c r IH]; intros reg j Hf Hin; cbn [fold_left]; [destruct Hin|].
  inversion Hf as [|c0 r0 Hc Hr]; subst. destruct Hin as [->|Hin].
  - apply rems_keep_none; [exact Hr|]. cbn [apply_call]. apply alookup_aremove_same.
  - apply IH; assumption.
Qed.

Lemma will_fail_nofail s : st_fail s = None -> will_fail s = false.
Proof. unfold will_fail. intros ->. reflexivity. Qed.

(** * 3. The calls track the fact map

    [tracks reg s]: the registry holds, for every id, the schedule of the fact
    stored under it (none if there is no fact or the fact is not a scheduled
    rule).  Every lemma below has the shape: if the registry tracks the state
    before, then after the calls of the operation it tracks the state after. *)

Definition run (cs : list ccall) (reg : registry) : registry := fold_left apply_call cs reg.

Definition tracks (reg : registry) (s : state) : Prop := forall j, alookup j reg = olk j s.

Lemma run_app cs1 cs2 reg : run (cs1 ++ cs2) reg = run cs2 (run cs1 reg).
Proof. unfold run. apply fold_left_app. Qed.

Lemma run_nil reg : run [] reg = reg.
Proof. reflexivity. Qed.

Lemma tracks_exact reg s :
  st_wf s -> sorted_keys (map fst reg) = true -> tracks reg s -> registry_exact reg s = true.
Proof. intros W Hs H. apply exact_intro; assumption. Qed.

Lemma exact_tracks reg s :
  st_wf s -> registry_exact reg s = true -> sorted_keys (map fst reg) = true /\ tracks reg s.
Proof. intros W H. apply exact_elim; assumption. Qed.

Lemma run_sorted cs reg : sorted_keys (map fst reg) = true -> sorted_keys (map fst (run cs reg)) = true.
Proof. apply apply_calls_sorted. Qed.

(** the reads proper: same facts, same static fields *)
Definition SameF (s s' : state) : Prop :=
  st_facts s' = st_facts s /\ st_hooks s' = st_hooks s /\ st_fail s' = st_fail s /\ st_kind s' = st_kind s.

Lemma SameF_refl s : SameF s s.
Proof. repeat split. Qed.
Lemma SameF_trans a b c : SameF a b -> SameF b c -> SameF a c.
Proof. intros (A1 & A2 & A3 & A4) (B1 & B2 & B3 & B4). repeat split; congruence. Qed.
Lemma SameF_pending s (p : list string) : SameF s (set_pending s p).
Proof. repeat split. Qed.

Lemma tracks_SameF reg s s' : SameF s s' -> tracks reg s -> tracks reg s'.
Proof. intros (F & _) H j. unfold olk. rewrite F. apply H. Qed.

Lemma search_state_SameF s p now : SameF s (fst (search_state s p now)).
Proof. apply (search_state_R SameF SameF_refl SameF_trans SameF_pending). Qed.
Lemma get_body_SameF s id now : SameF s (fst (get_body s id now)).
Proof. apply (get_body_R SameF SameF_refl SameF_pending). Qed.
Lemma find_body_SameF s ev now : SameF s (fst (find_body s ev now)).
Proof.
  unfold find_body. destruct (st_kind s).
  - destruct (pi_search (st_pindex s) ev); try apply SameF_refl.
    apply (find_ids_idx_R SameF SameF_refl SameF_trans SameF_pending).
  - apply (find_ids_lin_R SameF SameF_refl SameF_trans SameF_pending).
Qed.

(** ** The head of a removal *)

Lemma crem_head_eq s id : crem_head s id = rem_head s id.
Proof. reflexivity. Qed.

(** does the head delete the record from the fact map? *)
Definition head_removes (s : state) : bool :=
  match st_kind s with Indexed => true | Linear => negb (snd (store_call s)) end.

Lemma snd_store_call s : snd (store_call s) = will_fail s.
Proof. reflexivity. Qed.

Lemma rem_head_lookup s id j :
  alookup j (st_facts (fst (rem_head s id))) =
  if head_removes s && String.eqb j id then None else alookup j (st_facts s).
Proof.
  unfold rem_head, head_removes. destruct (st_kind s).
  - cbn [andb]. destruct (alookup id (st_facts s)) as [fact|] eqn:El.
    + pose proof (facts_idx_drop s id fact) as F0.
      destruct (idx_drop_fields s id fact) as (_ & F2 & _).
      unfold store_call.
      destruct (match st_fail (idx_drop s id fact) with
                | Some n => Nat.eqb n (st_calls (idx_drop s id fact)) | None => false end);
        cbn [fst st_facts set_store]; rewrite F0; apply alookup_aremove.
    + cbn [fst]. destruct (String.eqb_spec j id) as [->|Hne]; [exact El|reflexivity].
  - unfold store_call.
    destruct (match st_fail s with Some n => Nat.eqb n (st_calls s) | None => false end);
      cbn [fst snd negb andb st_facts set_store set_facts]; [reflexivity|apply alookup_aremove].
Qed.

Lemma head_removes_nofail s : st_fail s = None -> head_removes s = true.
Proof.
  intros Hf. unfold head_removes. destruct (st_kind s); [reflexivity|].
  rewrite snd_store_call, (will_fail_nofail s Hf). reflexivity.
Qed.

Lemma alookup_run_rem reg i j : alookup j (run [CRemJ i] reg) = if String.eqb j i then None else alookup j reg.
Proof. cbn [run fold_left apply_call]. apply alookup_aremove. Qed.

(** the head, with the rem hook for the record that leaves *)
Lemma head_tracks_unhook reg s id :
  st_hooks s = true -> tracks reg s ->
  tracks (run (crem_head_calls s id) reg) (fst (rem_head s id)).
Proof.
  intros Hh H j. unfold olk. rewrite rem_head_lookup. unfold crem_head_calls.
  destruct (alookup id (st_facts s)) as [fact|] eqn:El.
  - assert (Hcase : forall b, head_removes s = b ->
              alookup j (run (if b then unhook_calls s id fact else []) reg) =
              match (if b && String.eqb j id then None else alookup j (st_facts s)) with
              | Some f => fact_schedule f | None => None end).
    { intros [|] _; cbn [andb].
      - unfold unhook_calls. rewrite Hh. destruct (fact_schedule fact) as [sch|] eqn:Es.
        + rewrite alookup_run_rem. destruct (String.eqb j id); [reflexivity|apply H].
        + rewrite run_nil. destruct (String.eqb_spec j id) as [->|Hne]; [|apply H].
          rewrite H. unfold olk. rewrite El. exact Es.
      - rewrite run_nil. apply H. }
    unfold head_removes in *. destruct (st_kind s).
    + apply (Hcase true eq_refl).
    + destruct (snd (store_call s)); [apply (Hcase false eq_refl)|apply (Hcase true eq_refl)].
  - rewrite run_nil. destruct (head_removes s && String.eqb j id) eqn:E; [|apply H].
    apply andb_true_iff in E. destruct E as [_ E]. apply String.eqb_eq in E. subst j.
    rewrite H. unfold olk. rewrite El. reflexivity.
Qed.

(** the head of the public Rem's removal: the hook has run for [id] already *)
Lemma head_tracks_top reg s id :
  st_fail s = None ->
  (forall j, j <> id -> alookup j reg = olk j s) -> alookup id reg = None ->
  tracks reg (fst (rem_head s id)).
Proof.
  intros Hf H Hid j. unfold olk. rewrite rem_head_lookup, (head_removes_nofail s Hf). cbn [andb].
  destruct (String.eqb_spec j id) as [->|Hne]; [exact Hid|apply H; exact Hne].
Qed.

(** ** The cascade *)

Section TrackRec.
  Variable rr : state -> string -> Z -> state * outcome bool.
  Variable rc : state -> string -> Z -> list ccall.
  Hypothesis rr_Sub : forall s j now, Sub s (fst (rr s j now)).
  Hypothesis rc_tracks : forall s j now reg,
    st_hooks s = true -> tracks reg s -> tracks (run (rc s j now) reg) (fst (rr s j now)).

  Lemma crem_list_tracks ids : forall s skip now reg,
    st_hooks s = true -> tracks reg s ->
    tracks (run (crem_list rr rc s ids skip now) reg) (fst (rem_list rr s ids skip now)).
  Proof.
    induction ids as [|j r IH]; intros s skip now reg Hh H; cbn [crem_list rem_list]; [exact H|].
    destruct (skipped skip j); [apply IH; assumption|].
    rewrite run_app.
    pose proof (rc_tracks s j now reg Hh H) as H1.
    pose proof (rr_Sub s j now) as (_ & Hh1 & _).
    destruct (rr s j now) as [s1 [b|e|w|]]; cbn [fst] in *; try (rewrite run_nil; exact H1).
    apply IH; [congruence|exact H1].
  Qed.

  Lemma cdelete_tracks s id now reg :
    st_hooks s = true -> tracks reg s ->
    tracks (run (cdelete_dependencies rr rc s id now) reg) (fst (delete_dependencies rr s id now)).
  Proof.
    intros Hh H. unfold cdelete_dependencies, delete_dependencies.
    pose proof (search_state_SameF s (dw_pattern id) now) as HS.
    destruct (search_state s (dw_pattern id) now) as [s1 [found|e|w|]]; cbn [fst] in *;
      try (rewrite run_nil; eapply tracks_SameF; eassumption).
    apply crem_list_tracks.
    - destruct HS as (_ & E & _). congruence.
    - eapply tracks_SameF; eassumption.
  Qed.

  Lemma deps_tracks s id now reg :
    st_hooks s = true -> tracks reg (fst (rem_head s id)) ->
    tracks (run (if snd (crem_head s id) then cdelete_dependencies rr rc (fst (crem_head s id)) id now else []) reg)
           (fst (rem_body rr s id now)).
  Proof.
    intros Hh H. rewrite rem_body_head, crem_head_eq.
    destruct (snd (rem_head s id)).
    - rewrite fst_wrapb. apply cdelete_tracks; [|exact H].
      destruct (Sub_head s id) as (_ & E & _). congruence.
    - rewrite run_nil. exact H.
  Qed.

  Lemma crem_body_tracks s id now reg :
    st_hooks s = true -> tracks reg s ->
    tracks (run (crem_body rr rc true s id now) reg) (fst (rem_body rr s id now)).
  Proof.
    intros Hh H. unfold crem_body. rewrite run_app.
    apply deps_tracks; [exact Hh|]. apply head_tracks_unhook; assumption.
  Qed.

  Lemma crem_body_tracks_top s id now reg :
    st_hooks s = true -> st_fail s = None ->
    (forall j, j <> id -> alookup j reg = olk j s) -> alookup id reg = None ->
    tracks (run (crem_body rr rc false s id now) reg) (fst (rem_body rr s id now)).
  Proof.
    intros Hh Hf H Hid. unfold crem_body. cbn [app].
    apply deps_tracks; [exact Hh|]. apply head_tracks_top; assumption.
  Qed.
End TrackRec.

Lemma crem_fuel_tracks fuel : forall s id now reg,
  st_hooks s = true -> tracks reg s ->
  tracks (run (crem_fuel fuel true s id now) reg) (fst (rem_fuel fuel s id now)).
Proof.
  induction fuel as [|f IH]; intros s id now reg Hh H; cbn [crem_fuel rem_fuel]; [exact H|].
  apply crem_body_tracks; [apply rem_fuel_Sub|exact IH|exact Hh|exact H].
Qed.

Lemma cascade_fuel_S s : exists f, cascade_fuel s = S f.
Proof. unfold cascade_fuel. exists (2 * length (st_facts s) + 3)%nat. lia. Qed.

(** the internal rem, hook included (dependents, expired items) *)
Lemma st_rem_tracks s id now reg :
  st_hooks s = true -> tracks reg s ->
  tracks (run (calls_rem_rec true s id now) reg) (fst (st_rem s id now)).
Proof. apply crem_fuel_tracks. Qed.

(** the internal rem of the public Rem (the hook has run for the id) *)
Lemma st_rem_tracks_top s id now reg :
  st_hooks s = true -> st_fail s = None ->
  (forall j, j <> id -> alookup j reg = olk j s) -> alookup id reg = None ->
  tracks (run (calls_rem_rec false s id now) reg) (fst (st_rem s id now)).
Proof.
  intros Hh Hf H Hid. unfold calls_rem_rec, st_rem.
  destruct (cascade_fuel_S s) as [f ->]. cbn [crem_fuel rem_fuel].
  apply crem_body_tracks_top; try assumption; [apply rem_fuel_Sub|].
  intros s0 j now0 reg0. apply crem_fuel_tracks.
Qed.

(** ** The purge *)

Lemma cpurge_ids_tracks ids : forall s now reg,
  st_hooks s = true -> tracks reg s ->
  tracks (run (cpurge_ids s ids now) reg) (fst (purge_ids s ids now)).
Proof.
  induction ids as [|id r IH]; intros s now reg Hh H; cbn [cpurge_ids purge_ids]; [exact H|].
  destruct (alookup id (st_facts s)) as [fact|]; [|apply IH; assumption].
  destruct (fact_expired fact now); [|apply IH; assumption].
  rewrite run_app.
  pose proof (st_rem_tracks s id now reg Hh H) as H1.
  pose proof (st_rem_Sub s id now) as (_ & Hh1 & _).
  destruct (st_rem s id now) as [s1 [b|e|w|]]; cbn [fst] in *; try (rewrite run_nil; exact H1);
    (apply IH; [congruence|exact H1]).
Qed.

Lemma cpurge_fuel_tracks fuel : forall s now reg,
  st_hooks s = true -> tracks reg s ->
  tracks (run (cpurge_fuel fuel s now) reg) (fst (purge_fuel fuel s now)).
Proof.
  induction fuel as [|f IH]; intros s now reg Hh H; cbn [cpurge_fuel purge_fuel].
  - destruct (st_pending s); exact H.
  - destruct (st_pending s) as [|i ids]; [exact H|].
    rewrite run_app.
    assert (H0 : tracks reg (set_pending s [])) by exact H.
    pose proof (cpurge_ids_tracks (i :: ids) (set_pending s []) now reg Hh H0) as H1.
    pose proof (purge_ids_R Sub Sub_refl Sub_trans Sub_pending Sub_head (i :: ids) (set_pending s []) now)
      as (_ & Hh1 & _).
    destruct (purge_ids (set_pending s []) (i :: ids) now) as [s1 [u|e|w|]]; cbn [fst] in *;
      try (rewrite run_nil; exact H1).
    apply IH; [cbn [st_hooks set_pending] in Hh1; congruence|exact H1].
Qed.

Lemma purge_tracks s now reg :
  st_hooks s = true -> tracks reg s -> tracks (run (calls_purge s now) reg) (fst (purge s now)).
Proof. apply cpurge_fuel_tracks. Qed.

Lemma with_purge_tracks {A} (r : state * outcome A) now reg :
  st_hooks (fst r) = true -> tracks reg (fst r) ->
  tracks (run (calls_purge (fst r) now) reg) (fst (with_purge r now)).
Proof. intros Hh H. unfold with_purge. cbn [fst]. apply purge_tracks; assumption. Qed.

(** ** The public operations *)

Lemma get_tracks s id now reg :
  st_hooks s = true -> tracks reg s -> tracks (run (calls_get s id now) reg) (fst (st_get s id now)).
Proof.
  intros Hh H. unfold calls_get, st_get. pose proof (get_body_SameF s id now) as HS.
  apply with_purge_tracks; [destruct HS as (_ & E & _); congruence|eapply tracks_SameF; eassumption].
Qed.

Lemma search_tracks s p now reg :
  st_hooks s = true -> tracks reg s -> tracks (run (calls_search s p now) reg) (fst (st_search s p now)).
Proof.
  intros Hh H. unfold calls_search, st_search. pose proof (search_state_SameF s p now) as HS.
  apply with_purge_tracks; [destruct HS as (_ & E & _); congruence|eapply tracks_SameF; eassumption].
Qed.

Lemma do_find_rules_body s ev now : do_find_rules s ev now = with_purge (find_body s ev now) now.
Proof. reflexivity. Qed.

Lemma fst_st_find_rules s ev now : fst (st_find_rules s ev now) = fst (do_find_rules s ev now).
Proof.
  unfold st_find_rules. destruct (do_find_rules s ev now) as [s1 res]. destruct res; reflexivity.
Qed.

Lemma find_tracks s ev now reg :
  st_hooks s = true -> tracks reg s -> tracks (run (calls_find s ev now) reg) (fst (st_find_rules s ev now)).
Proof.
  intros Hh H. rewrite fst_st_find_rules, do_find_rules_body. unfold calls_find.
  pose proof (find_body_SameF s ev now) as HS.
  apply with_purge_tracks; [destruct HS as (_ & E & _); congruence|eapply tracks_SameF; eassumption].
Qed.

(** what Get answers is what is stored under the id *)
Lemma st_get_ok_stored s id now s1 fact :
  st_get s id now = (s1, Ok fact) -> alookup id (st_facts s) = Some fact.
Proof.
  intros E0. assert (E : snd (st_get s id now) = Ok fact) by (rewrite E0; reflexivity). clear E0.
  unfold st_get, with_purge, get_body in E. cbv zeta in E. cbn [snd] in E.
  destruct (alookup id (st_facts s)) as [f|].
  - destruct (expire s id f now) as [s0 [|]]; cbn [snd fst] in E.
    + destruct (snd (purge s0 now)); discriminate.
    + destruct (snd (purge s0 now)); try discriminate; injection E as ->; reflexivity.
  - cbn [snd fst] in E. destruct (snd (purge s now)); discriminate.
Qed.

Lemma Rem_tracks s id now reg :
  st_hooks s = true -> st_fail s = None -> tracks reg s ->
  tracks (run (calls_Rem s id now) reg) (fst (st_Rem s id now)).
Proof.
  intros Hh Hf H. unfold calls_Rem, st_Rem. rewrite Hh. cbn [negb]. rewrite run_app.
  pose proof (get_tracks s id now reg Hh H) as H1.
  pose proof (st_get_Sub s id now) as HS.
  pose proof (st_get_ok_stored s id now) as Hst.
  destruct (st_get s id now) as [s1 [fact|e|w|]]; cbn [fst] in *.
  - destruct HS as (_ & Hh1 & Hf1 & _ & HF & _).
    assert (Hh1' : st_hooks s1 = true) by congruence.
    assert (Hf1' : st_fail s1 = None) by congruence.
    specialize (Hst s1 fact eq_refl).
    rewrite !run_app.
    set (reg1 := run (calls_get s id now) reg) in *.
    set (reg2 := run (match fact_schedule fact with Some _ => [CRemJ id] | None => [] end) reg1).
    assert (Hoth : forall j, j <> id -> alookup j reg2 = olk j s1).
    { intros j Hne. unfold reg2. destruct (fact_schedule fact).
      - rewrite alookup_run_rem. apply String.eqb_neq in Hne. rewrite Hne. apply H1.
      - apply H1. }
    assert (Hid : alookup id reg2 = None).
    { unfold reg2. destruct (fact_schedule fact) as [sch|] eqn:Es.
      - rewrite alookup_run_rem, String.eqb_refl. reflexivity.
      - rewrite run_nil, H1. unfold olk. destruct (alookup id (st_facts s1)) as [f|] eqn:E1; [|reflexivity].
        apply HF in E1. rewrite Hst in E1. injection E1 as <-. exact Es. }
    pose proof (st_rem_tracks_top s1 id now reg2 Hh1' Hf1' Hoth Hid) as H3.
    apply with_purge_tracks; [|exact H3].
    destruct (st_rem_Sub s1 id now) as (_ & E & _). congruence.
  - apply (with_purge_tracks (A:=bool) (s1, Err e)); [destruct HS as (_ & E & _); cbn [fst]; congruence|exact H1].
  - apply (with_purge_tracks (A:=bool) (s1, Panic w)); [destruct HS as (_ & E & _); cbn [fst]; congruence|exact H1].
  - apply (with_purge_tracks (A:=bool) (s1, OutOfFuel)); [destruct HS as (_ & E & _); cbn [fst]; congruence|exact H1].
Qed.

Lemma add_tracks persistent s g x now fr aux reg :
  st_hooks s = true -> st_fail s = None -> tracks reg s ->
  tracks (run (calls_add persistent false s (fst (st_add s g x now fr aux)) (snd (st_add s g x now fr aux))) reg)
         (fst (st_add s g x now fr aux)).
Proof.
  intros Hh Hf H.
  destruct (prepare_fact g x now fr aux) as [[id fact]|e|w|] eqn:Hp.
  2-4: rewrite st_add_prepare_err by (rewrite Hp; intros p; discriminate);
       rewrite Hp; cbn [fst snd]; unfold calls_add; rewrite Hh; cbn [negb]; exact H.
  destruct (st_add_shape s g x now fr aux id fact Hp) as (c & (F1 & F2 & F3 & F4 & F5 & _) & Hcnd).
  set (s1 := fst (st_add s g x now fr aux)) in *. set (r := snd (st_add s g x now fr aux)) in *.
  pose proof (will_fail_nofail s Hf) as Hwf.
  unfold calls_add. rewrite F2, Hh. cbn [negb]. rewrite andb_false_r.
  assert (Hfailcase : (exists e, r = Err e) -> ac_mem c = false ->
            tracks (run match r with
                        | Ok id0 => match alookup id0 (st_facts s1) with
                                    | Some fact0 => match fact_schedule fact0 with
                                                    | Some sch => [CSched id0 sch]
                                                    | None => match alookup id0 (st_facts s) with
                                                              | Some old => unhook_calls s id0 old
                                                              | None => [] end
                                                    end
                                    | None => [] end
                        | _ => [] end reg) s1).
  { intros (e & ->) Hm. rewrite run_nil. rewrite Hm in F5. intros j. unfold olk. rewrite F5. apply H. }
  assert (Hokcase : r = Ok id -> ac_mem c = true ->
            tracks (run match r with
                        | Ok id0 => match alookup id0 (st_facts s1) with
                                    | Some fact0 => match fact_schedule fact0 with
                                                    | Some sch => [CSched id0 sch]
                                                    | None => match alookup id0 (st_facts s) with
                                                              | Some old => unhook_calls s id0 old
                                                              | None => [] end
                                                    end
                                    | None => [] end
                        | _ => [] end reg) s1).
  { intros -> Hm. rewrite Hm in F5. rewrite F5, alookup_ainsert_same.
    intros j. unfold olk. rewrite F5, alookup_ainsert.
    destruct (fact_schedule fact) as [sch|] eqn:Es.
    - cbn [run fold_left apply_call]. rewrite alookup_ainsert.
      destruct (String.eqb j id); [symmetry; exact Es|apply H].
    - destruct (alookup id (st_facts s)) as [old|] eqn:Eo.
      + unfold unhook_calls. rewrite Hh. destruct (fact_schedule old) as [so|] eqn:Eso.
        * rewrite alookup_run_rem. destruct (String.eqb j id); [symmetry; exact Es|apply H].
        * rewrite run_nil. destruct (String.eqb_spec j id) as [->|Hne]; [|apply H].
          rewrite H. unfold olk. rewrite Eo, Eso, Es. reflexivity.
      + rewrite run_nil. destruct (String.eqb_spec j id) as [->|Hne]; [|apply H].
        rewrite H. unfold olk. rewrite Eo, Es. reflexivity. }
  destruct c; cbn [ac_cond ac_mem] in *.
  - apply Hfailcase; [apply Hcnd|reflexivity].
  - destruct Hcnd as (_ & Hw & _). congruence.
  - apply Hokcase; [apply Hcnd|reflexivity].
  - destruct Hcnd as (_ & Hw & _). congruence.
  - apply Hfailcase; [|reflexivity]. destruct Hcnd as (_ & e & _ & ->). eauto.
  - apply Hokcase; [apply Hcnd|reflexivity].
Qed.

Lemma clear_calls_rems s : Forall is_remj (calls_clear s).
Proof.
  apply Forall_forall. intros c Hin. unfold calls_clear in Hin. apply in_flat_map in Hin.
  destruct Hin as (kv & _ & Hin). unfold unhook_calls in Hin. destruct (st_hooks s); [|destruct Hin].
  destruct (fact_schedule (snd kv)); [|destruct Hin]. destruct Hin as [<-|[]]. exact I.
Qed.

Lemma clear_tracks s reg :
  st_hooks s = true -> st_fail s = None -> tracks reg s ->
  tracks (run (calls_clear s) reg) (fst (st_clear s)).
Proof.
  intros Hh Hf H j.
  destruct (st_clear_shape s) as (_ & _ & _ & _ & Hsh). rewrite (will_fail_nofail s Hf) in Hsh.
  destruct Hsh as (_ & _ & F5 & _). unfold olk. rewrite F5. cbn [alookup].
  destruct (alookup j reg) as [sch|] eqn:Er; [|apply rems_keep_none; [apply clear_calls_rems|exact Er]].
  apply rems_remove; [apply clear_calls_rems|].
  rewrite H in Er. unfold olk in Er. destruct (alookup j (st_facts s)) as [f|] eqn:El; [|discriminate].
  unfold calls_clear. apply in_flat_map. exists (j, f). split; [apply AssocLemmas.alookup_In; exact El|].
  cbn [fst snd]. unfold unhook_calls. rewrite Hh, Er. left; reflexivity.
Qed.

(** * 4. One instrumented step *)

Lemma cstep_tracks persistent s reg op now :
  st_hooks s = true -> st_fail s = None -> tracks reg s ->
  tracks (snd (cstep persistent (s, reg) (COp op, now))) (fst (cstep persistent (s, reg) (COp op, now))).
Proof.
  intros Hh Hf H. unfold cstep, cstate_step, ccalls, reg_before, sstep. cbn [fst snd].
  destruct op as [g x fr aux|id|id|p|ev|].
  - pose proof (add_tracks persistent s g x now fr aux reg Hh Hf H) as HA.
    destruct (st_add s g x now fr aux) as [s' r]. exact HA.
  - apply Rem_tracks; assumption.
  - apply get_tracks; assumption.
  - apply search_tracks; assumption.
  - apply find_tracks; assumption.
  - apply clear_tracks; assumption.
Qed.

Lemma fst_cstep persistent s reg o : fst (cstep persistent (s, reg) o) = cstate_step s o.
Proof. reflexivity. Qed.

Theorem cstep_exact : cstep_exact_statement.
Proof.
  intros persistent s reg op now Hex W Hh Hf.
  destruct (exact_tracks reg s W Hex) as [Hsr Htr].
  pose proof (cstep_tracks persistent s reg op now Hh Hf Htr) as HT.
  destruct (cstep persistent (s, reg) (COp op, now)) as [s' reg'] eqn:Ec.
  cbn [fst snd] in HT.
  assert (Es : s' = sstep s (op, now)) by (injection Ec as <- _; reflexivity).
  assert (Er : reg' = run (ccalls persistent s (COp op, now)) reg) by (injection Ec as _ <-; reflexivity).
  apply tracks_exact; [subst s'; apply sstep_wf; exact W| subst reg'; apply run_sorted; exact Hsr|exact HT].
Qed.

(** * 5. The former refutations (finding D28a-e, repaired) as positive examples *)

Definition sched_rule (sch : string) : json := JObj [("rule", JObj [("schedule", JStr sch)])].
Definition plain_fact : json := JObj [("likes", JStr "tacos")].
Definition dw_rule : json :=
  JObj [("deleteWith", JArr [JStr "f"]); ("rule", JObj [("schedule", JStr "+1h")])].
Definition exp_rule : json :=
  JObj [("expires", JNum 10); ("rule", JObj [("schedule", JStr "+1h")])].

Definition add (id : string) (x : json) (now : Z) : cop * Z := (COp (SAdd id x "" None), now).

(** what is stored, what is registered, what should be registered, exact? *)
Definition cview (sr : state * registry) : list string * registry * registry * bool :=
  (map fst (st_facts (fst sr)), snd sr, scheduled_rules (fst sr), registry_exact (snd sr) (fst sr)).

(** the calls of the last operation of a history *)
Definition last_calls (persistent : bool) (k : skind) (ops : list (cop * Z)) (o : cop * Z) : list ccall :=
  ccalls persistent (fst (crun persistent k ops)) o.

(** D28a: a scheduled rule overwritten by a plain fact loses its job (both
    kinds, both crons): the rem hook runs for the replaced record. *)
Example overwrite_unschedules_example :
  forall persistent k,
    let ops1 := [add "r" (sched_rule "+1h") 0] in
    cview (crun persistent k ops1) = (["r"], [("r", "+1h")], [("r", "+1h")], true) /\
    last_calls persistent k ops1 (add "r" plain_fact 1) = [CRemJ "r"] /\
    cview (crun persistent k (ops1 ++ [add "r" plain_fact 1])) = (["r"], [], [], true) /\
    (* replaced by another scheduled rule: the cron replaces the job *)
    last_calls persistent k ops1 (add "r" (sched_rule "+2h") 1) = [CSched "r" "+2h"] /\
    cview (crun persistent k (ops1 ++ [add "r" (sched_rule "+2h") 1])) = (["r"], [("r", "+2h")], [("r", "+2h")], true).
Proof. intros [|] [|]; vm_compute; repeat split; reflexivity. Qed.

(** D28b: a scheduled rule removed by a deleteWith cascade loses its job. *)
Example cascade_unschedules_example :
  forall persistent k,
    let ops1 := [add "r" dw_rule 0; add "f" plain_fact 1] in
    cview (crun persistent k ops1) = (["f"; "r"], [("r", "+1h")], [("r", "+1h")], true) /\
    last_calls persistent k ops1 (COp (SRem "f"), 2) = [CRemJ "r"] /\
    cview (crun persistent k (ops1 ++ [(COp (SRem "f"), 2)])) = ([], [], [], true).
Proof. intros [|] [|]; vm_compute; repeat split; reflexivity. Qed.

(** D28c: a scheduled rule purged at expiry (seen by a Get) loses its job. *)
Example expiry_unschedules_example :
  forall persistent k,
    let ops1 := [add "r" exp_rule 0] in
    cview (crun persistent k ops1) = (["r"], [("r", "+1h")], [("r", "+1h")], true) /\
    fact_expired (match alookup "r" (st_facts (fst (crun persistent k ops1))) with Some f => f | None => JNull end) 20 = true /\
    last_calls persistent k ops1 (COp (SGet "r"), 20) = [CRemJ "r"] /\
    cview (crun persistent k (ops1 ++ [(COp (SGet "r"), 20)])) = ([], [], [], true).
Proof. intros [|] [|]; vm_compute; repeat split; reflexivity. Qed.

(** D28d: Clear drops every job, on both kinds of state (also the job of an
    expired rule that has not been purged yet). *)
Example clear_unschedules_example :
  forall persistent k,
    let ops1 := [add "e" exp_rule 0; add "r" (sched_rule "+1h") 1] in
    last_calls persistent k ops1 (COp SClear, 20) = [CRemJ "e"; CRemJ "r"] /\
    cview (crun persistent k (ops1 ++ [(COp SClear, 20)])) = ([], [], [], true).
Proof. intros [|] [|]; vm_compute; repeat split; reflexivity. Qed.

(** D28e: with a non-persistent cron, loading a location registers its stored
    scheduled rules again - on both kinds of state; a persistent cron gets no
    call (but the Rem for an expired rule that the indexed state drops). *)
Example load_reregisters_example :
  forall k,
    let ops1 := [add "r" (sched_rule "+1h") 0; add "f" plain_fact 1] in
    last_calls false k ops1 (CReload, 2) = [CSched "r" "+1h"] /\
    cview (crun false k (ops1 ++ [(CReload, 2)])) = (["f"; "r"], [("r", "+1h")], [("r", "+1h")], true) /\
    last_calls true k ops1 (CReload, 2) = [] /\
    cview (crun true k (ops1 ++ [(CReload, 2)])) = (["f"; "r"], [("r", "+1h")], [("r", "+1h")], true).
Proof. intros [|]; vm_compute; repeat split; reflexivity. Qed.

Example load_drops_expired_example :
  let ops1 := [add "e" exp_rule 0; add "r" (sched_rule "+1h") 1] in
  (* indexed: the expired rule is dropped from the storage, and unscheduled *)
  last_calls true Indexed ops1 (CReload, 20) = [CRemJ "e"] /\
  cview (crun true Indexed (ops1 ++ [(CReload, 20)])) = (["r"], [("r", "+1h")], [("r", "+1h")], true) /\
  (* linear: it is loaded as it is (a later read purges and unschedules it) *)
  last_calls true Linear ops1 (CReload, 20) = [] /\
  cview (crun true Linear (ops1 ++ [(CReload, 20)])) = (["e"; "r"], [("e", "+1h"); ("r", "+1h")], [("e", "+1h"); ("r", "+1h")], true) /\
  cview (crun true Linear (ops1 ++ [(CReload, 20); (COp (SGet "e"), 21)])) = (["r"], [("r", "+1h")], [("r", "+1h")], true).
Proof. vm_compute. repeat split; reflexivity. Qed.

(** a longer history: adds, a reschedule, removals, a cascade, reads *)
Definition ex_ops : list (cop * Z) :=
  [add "r1" (sched_rule "+1h") 0; add "r2" (sched_rule "+2h") 1; add "f" plain_fact 2;
   (COp (SRem "r1"), 3); add "r2" (sched_rule "+3h") 4; add "r3" dw_rule 5; (COp (SRem "f"), 6);
   (COp (SGet "r2"), 7); (CReload, 8); add "r2" plain_fact 9].

Example history_example :
  forall persistent k,
    forallb (fun n => let sr := crun persistent k (firstn n ex_ops) in registry_exact (snd sr) (fst sr))
            (seq 0 11) = true /\
    cview (crun persistent k (firstn 6 ex_ops)) =
      (["f"; "r2"; "r3"], [("r2", "+3h"); ("r3", "+1h")], [("r2", "+3h"); ("r3", "+1h")], true) /\
    cview (crun persistent k (firstn 9 ex_ops)) = (["r2"], [("r2", "+3h")], [("r2", "+3h")], true) /\
    cview (crun persistent k ex_ops) = (["r2"], [], [], true).
Proof. intros [|] [|]; vm_compute; repeat split; reflexivity. Qed.

Print Assumptions scheduled_rules_spec.
Print Assumptions registry_exact_iff.
Print Assumptions cstep_tracks.
Print Assumptions cstep_exact.
Print Assumptions overwrite_unschedules_example.
Print Assumptions cascade_unschedules_example.
Print Assumptions expiry_unschedules_example.
Print Assumptions clear_unschedules_example.
Print Assumptions load_reregisters_example.
Print Assumptions load_drops_expired_example.
Print Assumptions history_example.
