(** C15, registry clause: proofs of the statements of CronHooksSpec.v, and the
    refutations (findings D28a-e) as computed counterexamples. *)
From Coq Require Import Lia.
From Verif Require Import Json Outcome Match PatIndex State Location CronHooks StateSpec
  MatchLemmas1 AssocLemmas StateProofs DurableFrame DurableInv DurablePrepare DurableSpec
  DurableMirror DurableExpiry DurableFail DurableReach DurableProofs LocBasics CronHooksSpec.

(** * 2. The specification as a map *)

Definition sched_step (acc : registry) (kv : string * json) : registry :=
  match fact_schedule (snd kv) with
  | Some sch => ainsert (fst kv) sch acc
  | None => acc
  end.

Lemma scheduled_rules_fold s : scheduled_rules s = fold_left sched_step (st_facts s) [].
Proof. reflexivity. Qed.

Lemma sched_fold_sorted l : forall acc,
  sorted_keys (map fst acc) = true -> sorted_keys (map fst (fold_left sched_step l acc)) = true.
Proof.
  induction l as [|kv r IH]; intros acc Hs; cbn [fold_left]; [exact Hs|].
  apply IH. unfold sched_step. destruct (fact_schedule (snd kv)); [apply sorted_ainsert|]; exact Hs.
Qed.

Lemma sched_fold_lookup l : forall acc id,
  sorted_keys (map fst l) = true ->
  alookup id (fold_left sched_step l acc) =
  match alookup id l with
  | Some f => match fact_schedule f with Some sch => Some sch | None => alookup id acc end
  | None => alookup id acc
  end.
Proof.
  induction l as [|[k v] r IH]; intros acc id Hs; cbn [fold_left alookup]; [reflexivity|].
  cbn [map fst] in Hs. apply sorted_cons in Hs. destruct Hs as [Hlb Hs].
  rewrite (IH _ id Hs). unfold sched_step. cbn [fst snd].
  destruct (String.eqb_spec id k) as [->|Hne].
  - assert (Hn : alookup k r = None).
    { destruct (alookup k r) as [f|] eqn:E; [|reflexivity]. exfalso.
      apply AssocLemmas.alookup_In_keys in E. apply Hlb in E.
      apply str_ltb_lt in E. rewrite scmp_refl in E. discriminate. }
    rewrite Hn. destruct (fact_schedule v); [apply alookup_ainsert_same|reflexivity].
  - destruct (fact_schedule v) as [sch|].
    + rewrite (alookup_ainsert_other k id sch acc Hne). reflexivity.
    + reflexivity.
Qed.

(** the schedule of the fact stored under [j], if any *)
Definition olk (j : string) (s : state) : option string :=
  match alookup j (st_facts s) with Some f => fact_schedule f | None => None end.

Lemma sched_lookup s id : st_wf s -> alookup id (scheduled_rules s) = olk id s.
Proof.
  intros (W & _). rewrite scheduled_rules_fold, (sched_fold_lookup _ [] id W). unfold olk.
  destruct (alookup id (st_facts s)) as [f|]; [|reflexivity].
  destruct (fact_schedule f); reflexivity.
Qed.

Lemma scheduled_rules_sorted s : sorted_keys (map fst (scheduled_rules s)) = true.
Proof. rewrite scheduled_rules_fold. apply sched_fold_sorted. reflexivity. Qed.

Theorem scheduled_rules_spec : scheduled_rules_spec_statement.
Proof.
  intros s W. split; [|apply scheduled_rules_sorted].
  intros id sch. rewrite (sched_lookup s id W). unfold olk. split.
  - destruct (alookup id (st_facts s)) as [f|]; [|discriminate].
    intros H. exists f. split; [reflexivity|exact H].
  - intros (f & -> & H). exact H.
Qed.

Definition pair_eqb (a b : string * string) : bool :=
  String.eqb (fst a) (fst b) && String.eqb (snd a) (snd b).

Lemma list_eqb_pair_eq (a b : registry) : list_eqb pair_eqb a b = true <-> a = b.
Proof.
  revert b. induction a as [|[k v] a IH]; intros [|[k' v'] b]; cbn [list_eqb]; try (split; [discriminate|discriminate]).
  - split; reflexivity.
  - unfold pair_eqb at 1. cbn [fst snd]. rewrite !andb_true_iff, !String.eqb_eq, IH. split.
    + intros [[-> ->] ->]. reflexivity.
    + intros H. injection H as -> -> ->. auto.
Qed.

Lemma registry_exact_eq reg s : registry_exact reg s = true <-> reg = scheduled_rules s.
Proof. unfold registry_exact. apply list_eqb_pair_eq. Qed.

Theorem registry_exact_iff : registry_exact_iff_statement.
Proof.
  intros reg s W Hs. rewrite registry_exact_eq. split.
  - intros ->. reflexivity.
  - intros H. apply sorted_alist_ext; [exact Hs|apply scheduled_rules_sorted|exact H].
Qed.

Lemma exact_intro reg s :
  st_wf s -> sorted_keys (map fst reg) = true -> (forall j, alookup j reg = olk j s) ->
  registry_exact reg s = true.
Proof.
  intros W Hs H. apply (registry_exact_iff reg s W Hs). intros j. rewrite (sched_lookup s j W). apply H.
Qed.

Lemma exact_elim reg s :
  st_wf s -> registry_exact reg s = true ->
  sorted_keys (map fst reg) = true /\ forall j, alookup j reg = olk j s.
Proof.
  intros W H. apply registry_exact_eq in H. subst reg. split; [apply scheduled_rules_sorted|].
  intros j. apply sched_lookup. exact W.
Qed.

(** * 1+3. One instrumented step *)

Lemma apply_call_sorted reg c :
  sorted_keys (map fst reg) = true -> sorted_keys (map fst (apply_call reg c)) = true.
Proof. destruct c; cbn [apply_call]; [apply sorted_ainsert|apply sorted_aremove]. Qed.

Lemma apply_calls_sorted cs : forall reg,
  sorted_keys (map fst reg) = true -> sorted_keys (map fst (fold_left apply_call cs reg)) = true.
Proof.
  induction cs as [|c r IH]; intros reg Hs; cbn [fold_left]; [exact Hs|].
  apply IH. apply apply_call_sorted. exact Hs.
Qed.

Definition is_remj (c : ccall) : Prop := match c with CRemJ _ => True | CSched _ _ => False end.

Lemma rems_keep_none cs : forall reg j,
  Forall is_remj cs -> alookup j reg = None -> alookup j (fold_left apply_call cs reg) = None.
Proof.
  induction cs as [|c r IH]; intros reg j Hf Hn; cbn [fold_left]; [exact Hn|].
  inversion Hf as [|c0 r0 Hc Hr]; subst. apply IH; [exact Hr|].
  destruct c as [i sch|i]; [destruct Hc|]. cbn [apply_call].
  rewrite alookup_aremove. destruct (String.eqb j i); [reflexivity|exact Hn].
Qed.

Lemma rems_remove cs : forall reg j,
  Forall is_remj cs -> In (CRemJ j) cs -> alookup j (fold_left apply_call cs reg) = None.
Proof.
  induction cs as [|c r IH]; intros reg j Hf Hin; cbn [fold_left]; [destruct Hin|].
  inversion Hf as [|c0 r0 Hc Hr]; subst. destruct Hin as [->|Hin].
  - apply rems_keep_none; [exact Hr|]. cbn [apply_call]. apply alookup_aremove_same.
  - apply IH; assumption.
Qed.

Lemma will_fail_nofail s : st_fail s = None -> will_fail s = false.
Proof. unfold will_fail. intros ->. reflexivity. Qed.

Lemma fst_cstep persistent s reg o : fst (cstep persistent (s, reg) o) = sstep s o.
Proof.
  destruct o as [op now]. unfold cstep, sstep. destruct op; try reflexivity.
  destruct (st_add s given x now fresh aux); reflexivity.
Qed.

(** others_kept, as a proposition *)
Lemma others_kept_spec s s' id :
  st_wf s -> others_kept s s' id = true ->
  forall j sch, alookup j (scheduled_rules s) = Some sch -> j <> id -> alookup j (st_facts s') <> None.
Proof.
  intros W H j sch Hl Hne. unfold others_kept in H. rewrite forallb_forall in H.
  specialize (H (j, sch) (AssocLemmas.alookup_In _ _ _ Hl)). cbn [fst] in H.
  apply orb_true_iff in H. destruct H as [H|H].
  - apply String.eqb_eq in H. contradiction.
  - destruct (alookup j (st_facts s')); [discriminate|discriminate].
Qed.

Lemma others_kept_complete s s' id :
  (forall j sch, alookup j (scheduled_rules s) = Some sch -> j <> id -> alookup j (st_facts s') <> None) ->
  others_kept s s' id = true.
Proof.
  intros H. unfold others_kept. apply forallb_forall. intros [j sch] Hin. cbn [fst].
  destruct (String.eqb_spec j id) as [->|Hne]; [reflexivity|]. cbn [orb].
  pose proof (In_sorted_alookup j sch _ (scheduled_rules_sorted s) Hin) as Hl.
  specialize (H j sch Hl Hne). destruct (alookup j (st_facts s')); [reflexivity|contradiction].
Qed.

(** the registry only looks at the stored facts *)
Lemma registry_exact_pending reg s p : registry_exact reg (set_pending s p) = registry_exact reg s.
Proof. reflexivity. Qed.

(** nothing expired: a Get answers from the fact map and only empties the
    list of noted ids; so does the purge that ends a Rem *)
Lemma st_get_noexp_eq s id now :
  no_expired s now ->
  st_get s id now = (set_pending s [],
                     match alookup id (st_facts s) with Some f => Ok f | None => Err "notfound" end).
Proof.
  intros Hne. unfold st_get.
  rewrite (DurableExpiry.with_purge_noexp (get_body s id now) now)
    by (rewrite (DurableExpiry.get_body_noexp s id now Hne); exact Hne).
  rewrite (DurableExpiry.get_body_noexp s id now Hne). f_equal.
  unfold get_body. destruct (alookup id (st_facts s)) as [f|] eqn:El; [|reflexivity].
  rewrite (expire_false s id f now (Hne id f El)). reflexivity.
Qed.

Lemma st_Rem_hooks_noexp s id now :
  no_expired s now -> st_hooks s = true ->
  st_Rem s id now =
  match alookup id (st_facts s) with
  | Some _ => (set_pending (fst (st_rem (set_pending s []) id now)) [], snd (st_rem (set_pending s []) id now))
  | None => (set_pending s [], Err "notfound")
  end.
Proof.
  intros Hne Hh. unfold st_Rem. rewrite Hh, (st_get_noexp_eq s id now Hne).
  destruct (alookup id (st_facts s)) as [f|].
  - rewrite DurableExpiry.with_purge_noexp; [reflexivity|].
    eapply Sub_no_expired; [apply st_rem_Sub|exact Hne].
  - rewrite DurableExpiry.with_purge_noexp; [reflexivity|exact Hne].
Qed.

Theorem cstep_exact : cstep_exact_statement.
Proof.
  intros persistent s reg o s' reg' Hex W Hh Hf Hne Hd Hc.
  destruct (exact_elim reg s W Hex) as [Hsr Hreg].
  destruct o as [op now]. cbn [snd] in Hne. destruct op as [g x fr aux|id|id|p|ev|].
  - (* add *)
    unfold cstep in Hc. destruct (st_add s g x now fr aux) as [s1 r] eqn:Ea.
    injection Hc as <- <-.
    destruct (prepare_fact g x now fr aux) as [[id fact]|e|w|] eqn:Hp.
    2-4: rewrite st_add_prepare_err in Ea by (rewrite Hp; intros p; discriminate);
         rewrite Hp in Ea; injection Ea as <- <-;
         unfold calls_add; rewrite Hh; cbn [negb orb]; rewrite andb_false_r; cbn [fold_left]; exact Hex.
    destruct (st_add_shape s g x now fr aux id fact Hp) as (c & (F1 & F2 & F3 & F4 & F5 & _) & Hcnd).
    rewrite Ea in F1, F2, F3, F4, F5, Hcnd. cbn [fst snd] in *.
    assert (W1 : st_wf s1).
    { pose proof (st_add_wf s g x now fr aux W) as H. rewrite Ea in H. exact H. }
    pose proof (will_fail_nofail s Hf) as Hwf.
    unfold calls_add. rewrite F2, Hh. cbn [negb orb]. rewrite andb_false_r.
    assert (Hfailcase : (exists e, r = Err e) -> ac_mem c = false ->
                        registry_exact (fold_left apply_call
                          match r with
                          | Ok id0 => match alookup id0 (st_facts s1) with
                                      | Some fact0 => match fact_schedule fact0 with
                                                      | Some sch => [CSched id0 sch] | None => [] end
                                      | None => [] end
                          | _ => [] end reg) s1 = true).
    { intros (e & ->) Hm. cbn [fold_left]. rewrite Hm in F5.
      apply exact_intro; [exact W1|exact Hsr|]. intros j. unfold olk. rewrite F5. apply Hreg. }
    assert (Hokcase : r = Ok id -> ac_mem c = true ->
                        registry_exact (fold_left apply_call
                          match r with
                          | Ok id0 => match alookup id0 (st_facts s1) with
                                      | Some fact0 => match fact_schedule fact0 with
                                                      | Some sch => [CSched id0 sch] | None => [] end
                                      | None => [] end
                          | _ => [] end reg) s1 = true).
    { intros -> Hm. rewrite Hm in F5. rewrite F5, alookup_ainsert_same.
      cbn [direct] in Hd. rewrite Hp, Ea in Hd. cbn [snd] in Hd.
      destruct (fact_schedule fact) as [sch|] eqn:Es; cbn [fold_left apply_call].
      - apply exact_intro; [exact W1|apply sorted_ainsert; exact Hsr|].
        intros j. unfold olk. rewrite F5, !alookup_ainsert.
        destruct (String.eqb j id); [symmetry; exact Es|apply Hreg].
      - apply exact_intro; [exact W1|exact Hsr|].
        intros j. unfold olk. rewrite F5, alookup_ainsert.
        destruct (String.eqb_spec j id) as [->|Hj]; [|apply Hreg].
        rewrite Es. cbn [is_some negb] in Hd. rewrite andb_true_r in Hd.
        rewrite Hreg, <- (sched_lookup s id W).
        destruct (alookup id (scheduled_rules s)); [discriminate|reflexivity]. }
    destruct c; cbn [ac_cond ac_mem] in *.
    + apply Hfailcase; [apply Hcnd|reflexivity].
    + destruct Hcnd as (_ & Hw & _). congruence.
    + apply Hokcase; [apply Hcnd|reflexivity].
    + destruct Hcnd as (_ & Hw & _). congruence.
    + apply Hfailcase; [|reflexivity]. destruct Hcnd as (_ & e & _ & ->). eauto.
    + apply Hokcase; [apply Hcnd|reflexivity].
  - (* Rem *)
    unfold cstep in Hc. unfold direct in Hd.
    rewrite (st_Rem_hooks_noexp s id now Hne Hh) in Hc, Hd.
    injection Hc as <- <-.
    unfold calls_rem. rewrite Hh. cbn [negb].
    rewrite (st_get_noexp_eq s id now Hne).
    destruct (alookup id (st_facts s)) as [fact|] eqn:El.
    + set (s0 := set_pending s []) in *.
      assert (W0 : st_wf s0) by (apply wf_pending; exact W).
      assert (Hf0 : st_fail s0 = None) by exact Hf.
      pose proof (st_rem_Sub s0 id now) as (_ & _ & _ & _ & HS & _).
      pose proof (st_rem_wf s0 id now W0) as W1.
      destruct (st_rem_ok_nofail s0 id now Hf0) as (had & Hok).
      pose proof (st_rem_gone s0 id now had Hok) as Hgone.
      cbn [fst] in Hd. pose proof (others_kept_spec s _ id W Hd) as Hk.
      cbn [fst]. rewrite registry_exact_pending.
      set (s1 := fst (st_rem s0 id now)) in *.
      assert (Hreg' : forall j, alookup j (aremove id reg) = olk j s1).
      { intros j. rewrite alookup_aremove. destruct (String.eqb_spec j id) as [->|Hj].
        - unfold olk. rewrite Hgone. reflexivity.
        - rewrite Hreg. unfold olk at 2. destruct (alookup j (st_facts s1)) as [f|] eqn:E1.
          + apply HS in E1. unfold olk. change (st_facts s0) with (st_facts s) in E1. rewrite E1. reflexivity.
          + destruct (olk j s) as [sch|] eqn:Eo; [|reflexivity]. exfalso.
            rewrite <- (sched_lookup s j W) in Eo. exact (Hk j sch Eo Hj E1). }
      destruct (fact_schedule fact) as [sch|] eqn:Es; cbn [fold_left apply_call].
      * apply exact_intro; [exact W1|apply sorted_aremove; exact Hsr|exact Hreg'].
      * apply exact_intro; [exact W1|exact Hsr|]. intros j. rewrite <- Hreg'.
        rewrite alookup_aremove. destruct (String.eqb_spec j id) as [->|Hj]; [|reflexivity].
        rewrite Hreg. unfold olk. rewrite El. exact Es.
    + cbn [fst fold_left]. rewrite registry_exact_pending. exact Hex.
  - (* Get *)
    unfold cstep in Hc. rewrite (st_get_noexp_eq s id now Hne) in Hc. cbn [fst] in Hc.
    injection Hc as <- <-. rewrite registry_exact_pending. exact Hex.
  - unfold cstep in Hc. unfold st_search in Hc.
    rewrite DurableExpiry.with_purge_noexp in Hc
      by (rewrite (DurableExpiry.search_state_noexp_state s p now Hne); exact Hne).
    rewrite (DurableExpiry.search_state_noexp_state s p now Hne) in Hc. cbn [fst] in Hc.
    injection Hc as <- <-. rewrite registry_exact_pending. exact Hex.
  - unfold cstep in Hc.
    assert (Hfr : exists p0, fst (st_find_rules s ev now) = set_pending s p0).
    { unfold st_find_rules, do_find_rules.
      match goal with |- context [with_purge ?X now] =>
        assert (HX : fst X = s);
        [destruct (st_kind s);
         [destruct (pi_search (st_pindex s) ev); try reflexivity;
          apply DurableExpiry.find_ids_idx_noexp; exact Hne
         |apply DurableExpiry.find_ids_lin_noexp; exact Hne]|];
        rewrite (DurableExpiry.with_purge_noexp X now) by (rewrite HX; exact Hne); rewrite HX
      end.
      exists []. match goal with |- fst (match ?o with _ => _ end) = _ => destruct o end; reflexivity. }
    destruct Hfr as [p0 Hfr]. rewrite Hfr in Hc. injection Hc as <- <-.
    rewrite registry_exact_pending. exact Hex.
  - (* Clear *)
    cbn [cstep] in Hc. injection Hc as <- <-.
    pose proof (st_clear_wf s W) as W1.
    destruct (st_clear_shape s) as (_ & _ & _ & _ & Hsh). rewrite (will_fail_nofail s Hf) in Hsh.
    destruct Hsh as (_ & _ & F5 & _).
    assert (Ho : forall j, olk j (fst (st_clear s)) = None) by (intros j; unfold olk; rewrite F5; reflexivity).
    cbn [direct] in Hd. unfold calls_clear. rewrite Hh. cbn [negb].
    destruct (st_kind s).
    + set (cs := flat_map _ (st_facts s)).
      assert (Hall : Forall is_remj cs).
      { apply Forall_forall. intros c Hin. unfold cs in Hin. apply in_flat_map in Hin.
        destruct Hin as (kv & _ & Hin). destruct (fact_expired (snd kv) now); [destruct Hin|].
        destruct (fact_schedule (snd kv)); [|destruct Hin]. destruct Hin as [<-|[]]. exact I. }
      apply exact_intro; [exact W1|apply apply_calls_sorted; exact Hsr|].
      intros j. rewrite Ho.
      destruct (alookup j reg) as [sch|] eqn:Er; [|apply rems_keep_none; assumption].
      apply rems_remove; [exact Hall|].
      rewrite Hreg in Er. unfold olk in Er. destruct (alookup j (st_facts s)) as [f|] eqn:El; [|discriminate].
      unfold cs. apply in_flat_map. exists (j, f). split; [apply AssocLemmas.alookup_In; exact El|].
      cbn [fst snd]. rewrite (Hne j f El), Er. left; reflexivity.
    + cbn [fold_left]. apply exact_intro; [exact W1|exact Hsr|].
      intros j. rewrite Ho, Hreg, <- (sched_lookup s j W).
      destruct (scheduled_rules s); [reflexivity|discriminate].
Qed.

(** ** Tightness: [direct] excludes exactly the bypasses.  Under the same
    hypotheses a non-direct operation always leaves the registry inexact. *)

Lemma forallb_false_exists {A} (f : A -> bool) l :
  forallb f l = false -> exists x, In x l /\ f x = false.
Proof.
  induction l as [|a r IH]; cbn [forallb]; [discriminate|].
  destruct (f a) eqn:E; cbn [andb].
  - intros H. destruct (IH H) as (x & Hin & Hx). exists x. split; [right; exact Hin|exact Hx].
  - intros _. exists a. split; [left; reflexivity|exact E].
Qed.

Lemma calls_rem_cases s id now : calls_rem s id now = [] \/ calls_rem s id now = [CRemJ id].
Proof.
  unfold calls_rem. destruct (negb (st_hooks s)); [left; reflexivity|].
  destruct (st_get s id now) as [s1 [f|e|w|]]; try (left; reflexivity).
  destruct (fact_schedule f); [right|left]; reflexivity.
Qed.

Theorem cstep_inexact_if_not_direct :
  forall persistent s reg o s' reg',
    registry_exact reg s = true -> st_wf s -> st_hooks s = true -> st_fail s = None ->
    direct s o = false ->
    cstep persistent (s, reg) o = (s', reg') ->
    registry_exact reg' s' = false.
Proof.
  intros persistent s reg o s' reg' Hex W Hh Hf Hd Hc.
  destruct (exact_elim reg s W Hex) as [Hsr Hreg].
  destruct (registry_exact reg' s') eqn:Hex'; [exfalso|reflexivity].
  destruct o as [op now]. destruct op as [g x fr aux|id|id|p|ev|]; cbn [direct] in Hd; try discriminate.
  - (* overwrite *)
    unfold cstep in Hc. destruct (st_add s g x now fr aux) as [s1 r] eqn:Ea.
    injection Hc as <- <-. cbn [snd] in Hd.
    destruct (prepare_fact g x now fr aux) as [[id fact]|e|w|] eqn:Hp; try discriminate.
    destruct r as [id'|e|w|]; try discriminate.
    apply negb_false_iff, andb_true_iff in Hd. destruct Hd as [Hd1 Hd2].
    destruct (fact_schedule fact) as [sch|] eqn:Es; [discriminate|].
    destruct (st_add_shape s g x now fr aux id fact Hp) as (c & (F1 & F2 & F3 & F4 & F5 & _) & Hcnd).
    rewrite Ea in F1, F2, F3, F4, F5, Hcnd. cbn [fst snd] in *.
    assert (W1 : st_wf s1).
    { pose proof (st_add_wf s g x now fr aux W) as H. rewrite Ea in H. exact H. }
    assert (Hm : ac_mem c = true /\ id' = id).
    { destruct c; cbn [ac_cond] in Hcnd.
      - destruct Hcnd as (_ & e & He). discriminate.
      - destruct Hcnd as (_ & _ & He). discriminate.
      - destruct Hcnd as (_ & _ & _ & He). injection He as ->. split; reflexivity.
      - destruct Hcnd as (_ & _ & He). discriminate.
      - destruct Hcnd as (_ & e & _ & He). discriminate.
      - destruct Hcnd as (_ & _ & _ & He). injection He as ->. split; reflexivity. }
    destruct Hm as [Hm ->]. rewrite Hm in F5.
    unfold calls_add in Hex'. rewrite F2, Hh in Hex'. cbn [negb orb] in Hex'. rewrite andb_false_r in Hex'.
    rewrite F5, alookup_ainsert_same, Es in Hex'. cbn [fold_left] in Hex'.
    destruct (exact_elim reg s1 W1 Hex') as [_ Hreg1].
    specialize (Hreg1 id). unfold olk in Hreg1. rewrite F5, alookup_ainsert_same, Es in Hreg1.
    rewrite Hreg, <- (sched_lookup s id W) in Hreg1. rewrite Hreg1 in Hd1. discriminate.
  - (* cascade *)
    cbn [cstep] in Hc. injection Hc as <- <-.
    apply forallb_false_exists in Hd. destruct Hd as ([j sch] & Hin & Hj). cbn [fst] in Hj.
    apply orb_false_iff in Hj. destruct Hj as [Hj1 Hj2]. apply String.eqb_neq in Hj1.
    pose proof (In_sorted_alookup j sch _ (scheduled_rules_sorted s) Hin) as Hl.
    rewrite (sched_lookup s j W), <- Hreg in Hl.
    pose proof (st_Rem_wf s id now W) as W1.
    destruct (exact_elim _ _ W1 Hex') as [_ Hreg1]. specialize (Hreg1 j). unfold olk in Hreg1.
    destruct (alookup j (st_facts (fst (st_Rem s id now)))); [discriminate|].
    destruct (calls_rem_cases s id now) as [E|E]; rewrite E in Hreg1; cbn [fold_left apply_call] in Hreg1.
    + congruence.
    + rewrite (alookup_aremove_other id j reg Hj1) in Hreg1. congruence.
  - (* linear clear *)
    cbn [cstep] in Hc. injection Hc as <- <-.
    destruct (st_kind s) eqn:Hk; [discriminate|].
    unfold calls_clear in Hex'. rewrite Hh, Hk in Hex'. cbn [negb fold_left] in Hex'.
    destruct (st_clear_shape s) as (_ & _ & _ & _ & Hsh). rewrite (will_fail_nofail s Hf) in Hsh.
    destruct Hsh as (_ & _ & F5 & _).
    apply registry_exact_eq in Hex'. apply registry_exact_eq in Hex.
    unfold scheduled_rules at 1 in Hex'. rewrite F5 in Hex'. cbn [fold_left] in Hex'.
    rewrite Hex' in Hex. rewrite <- Hex in Hd. discriminate.
Qed.

(** one step, both directions *)
Corollary cstep_exact_iff_direct :
  forall persistent s reg o,
    registry_exact reg s = true -> st_wf s -> st_hooks s = true -> st_fail s = None ->
    no_expired s (snd o) ->
    registry_exact (snd (cstep persistent (s, reg) o)) (fst (cstep persistent (s, reg) o)) = direct s o.
Proof.
  intros persistent s reg o Hex W Hh Hf Hne.
  destruct (cstep persistent (s, reg) o) as [s' reg'] eqn:Ec. cbn [fst snd].
  destruct (direct s o) eqn:Hd.
  - eapply cstep_exact; eassumption.
  - eapply cstep_inexact_if_not_direct; eassumption.
Qed.

(** * 3. Histories *)

(** the invariant carried along an instrumented run *)
Definition cinv (sr : state * registry) : Prop :=
  registry_exact (snd sr) (fst sr) = true /\ st_wf (fst sr) /\
  st_hooks (fst sr) = true /\ st_fail (fst sr) = None.

Lemma cinv_init k : cinv (cinit k).
Proof. unfold cinv, cinit. cbn. repeat split; reflexivity. Qed.

Lemma cinv_step persistent sr o :
  cinv sr -> no_expired (fst sr) (snd o) -> direct (fst sr) o = true -> cinv (cstep persistent sr o).
Proof.
  destruct sr as [s reg]. unfold cinv. cbn [fst snd]. intros (Hex & W & Hh & Hf) Hne Hd.
  destruct (cstep persistent (s, reg) o) as [s' reg'] eqn:Ec.
  pose proof (fst_cstep persistent s reg o) as Hs. rewrite Ec in Hs. cbn [fst] in Hs.
  destruct (sstep_Pres s o) as (_ & P2 & P3 & _).
  unfold cinv. cbn [fst snd]. split; [|split; [|split]].
  - eapply cstep_exact; eassumption.
  - subst s'. apply sstep_wf. exact W.
  - subst s'. congruence.
  - subst s'. congruence.
Qed.

Lemma crun_snoc persistent k l o : crun persistent k (l ++ [o]) = cstep persistent (crun persistent k l) o.
Proof. unfold crun. rewrite fold_left_app. reflexivity. Qed.

Lemma direct_history_inv persistent k ops :
  direct_history persistent k ops ->
  forall ops1 ops2, ops = (ops1 ++ ops2)%list -> cinv (crun persistent k ops1).
Proof.
  intros Hd ops1. induction ops1 as [|o l IH] using rev_ind; intros ops2 E.
  - apply cinv_init.
  - rewrite crun_snoc. rewrite <- app_assoc in E. cbn [app] in E.
    destruct (Hd l o ops2 E) as [Hne Hdir].
    apply cinv_step; [apply (IH (o :: ops2) E)|exact Hne|exact Hdir].
Qed.

Theorem registry_exact_direct_ops : registry_exact_direct_ops_statement.
Proof.
  intros persistent k ops Hd ops1 ops2 E.
  pose proof (direct_history_inv persistent k ops Hd ops1 ops2 E) as (H & _).
  destruct (crun persistent k ops1) as [s reg]. exact H.
Qed.

(** the instrumented run follows the plain run *)
Lemma fst_fold_cstep persistent ops : forall sr,
  fst (fold_left (cstep persistent) ops sr) = fold_left sstep ops (fst sr).
Proof.
  induction ops as [|o r IH]; intros [s reg]; cbn [fold_left]; [reflexivity|].
  rewrite IH. rewrite fst_cstep. reflexivity.
Qed.

Lemma fst_crun persistent k ops : fst (crun persistent k ops) = reachable k true None ops.
Proof. unfold crun, reachable. rewrite fst_fold_cstep. reflexivity. Qed.

(** ** The decidable form *)

(** no stored fact has an expiry instant *)
Definition never_exp (s : state) : Prop :=
  forall id fact, alookup id (st_facts s) = Some fact -> fact_expires fact = 0.

Lemma never_exp_no_expired s now : never_exp s -> no_expired s now.
Proof. intros H id fact El. apply never_expires_without_expiry. eapply H; exact El. Qed.

Lemma never_exp_sstep s o : never_exp s -> op_never_expires o = true -> never_exp (sstep s o).
Proof.
  intros H Ho id fact El. apply sstep_facts_origin in El.
  destruct El as [El|(g & x & fr & aux & now & -> & Hp)]; [eapply H; exact El|].
  cbn [op_never_expires] in Ho. apply andb_true_iff in Ho. destruct Ho as [H1 H2].
  eapply no_expiry_without_ttl_or_expires; [exact Hp| |].
  - destruct (alookup "ttl" (jO x)); [discriminate|reflexivity].
  - destruct (alookup "expires" (jO x)); [discriminate|reflexivity].
Qed.

Lemma never_exp_fold ops : forall s,
  never_exp s -> forallb op_never_expires ops = true -> never_exp (fold_left sstep ops s).
Proof.
  induction ops as [|o r IH]; intros s H Ho; cbn [fold_left]; [exact H|].
  cbn [forallb] in Ho. apply andb_true_iff in Ho. destruct Ho as [H1 H2].
  apply IH; [apply never_exp_sstep; assumption|exact H2].
Qed.

Lemma direct_run_split persistent l1 : forall sr o l2,
  direct_run persistent sr (l1 ++ o :: l2) = true ->
  direct (fst (fold_left (cstep persistent) l1 sr)) o = true.
Proof.
  induction l1 as [|a r IH]; intros sr o l2 H; cbn [app direct_run fold_left] in *;
    apply andb_true_iff in H; destruct H as [H1 H2]; [exact H1|].
  eapply IH. exact H2.
Qed.

Lemma direct_run_history persistent k ops :
  forallb op_never_expires ops = true -> direct_run persistent (cinit k) ops = true ->
  direct_history persistent k ops.
Proof.
  intros Ho Hd ops1 o ops2 E. cbv zeta. subst ops. split.
  - apply never_exp_no_expired. unfold crun. rewrite fst_fold_cstep.
    apply never_exp_fold.
    + intros id fact El. discriminate.
    + rewrite forallb_app in Ho. apply andb_true_iff in Ho. apply Ho.
  - unfold crun. eapply direct_run_split. exact Hd.
Qed.

Theorem registry_exact_direct_ops_bool : registry_exact_direct_ops_bool_statement.
Proof.
  intros persistent k ops Ho Hd.
  apply (registry_exact_direct_ops persistent k ops (direct_run_history persistent k ops Ho Hd) ops []).
  symmetry. apply app_nil_r.
Qed.

(** [direct_coarse] (any linear Clear / any overwrite attempt excluded) is stronger than [direct]. *)
Lemma direct_coarse_direct s o : direct_coarse s o = true -> direct s o = true.
Proof.
  destruct o as [op now]. destruct op as [g x fr aux|id|id|p|ev|]; cbn [direct direct_coarse]; try (intros H; exact H).
  - destruct (prepare_fact g x now fr aux) as [[id fact]|e|w|]; try reflexivity.
    intros H. destruct (snd (st_add s g x now fr aux)); [exact H|reflexivity|reflexivity|reflexivity].
  - destruct (st_kind s); [reflexivity|discriminate].
Qed.

(** * 4. Reload *)

Lemma load_calls_fold l : forall acc,
  fold_left apply_call
    (flat_map (fun kv : string * json =>
                 match fact_schedule (snd kv) with Some sch => [CSched (fst kv) sch] | None => [] end) l) acc =
  fold_left sched_step l acc.
Proof.
  induction l as [|kv r IH]; intros acc; cbn [flat_map fold_left]; [reflexivity|].
  rewrite fold_left_app, IH. f_equal. unfold sched_step.
  destruct (fact_schedule (snd kv)); reflexivity.
Qed.

Theorem load_reregisters_indexed : load_reregisters_indexed_statement.
Proof.
  intros s now W HP Hm Hne Hix Hk Hh.
  destruct (reload_same_facts s now W HP Hm Hne (fun _ => Hix)) as (s' & Hl & Hfacts & _ & Hk' & Hh' & _).
  rewrite Hk, Hh in Hl. rewrite Hk in Hk'. rewrite Hh in Hh'.
  exists s'. split; [exact Hl|]. split; [exact Hfacts|].
  assert (Hsame : scheduled_rules s' = scheduled_rules s).
  { unfold scheduled_rules. rewrite Hfacts. reflexivity. }
  split; [|split].
  - unfold calls_load. rewrite Hh', Hk'. cbn [negb orb].
    rewrite load_calls_fold. apply registry_exact_eq. reflexivity.
  - unfold calls_load. rewrite orb_true_r. reflexivity.
  - intros reg Hex. unfold calls_load. rewrite orb_true_r. cbn [fold_left].
    apply registry_exact_eq. rewrite Hsame. apply registry_exact_eq. exact Hex.
Qed.

(** * 5. Refutations (findings D28a-e): where the registry is not exact *)

Definition sched_rule (sch : string) : json := JObj [("rule", JObj [("schedule", JStr sch)])].
Definition plain_fact : json := JObj [("likes", JStr "tacos")].
Definition dw_rule : json :=
  JObj [("deleteWith", JArr [JStr "f"]); ("rule", JObj [("schedule", JStr "+1h")])].
Definition exp_rule : json :=
  JObj [("expires", JNum 10); ("rule", JObj [("schedule", JStr "+1h")])].

(** what is stored, what is registered, what should be registered, exact? *)
Definition cview (sr : state * registry) : list string * registry * registry * bool :=
  (map fst (st_facts (fst sr)), snd sr, scheduled_rules (fst sr), registry_exact (snd sr) (fst sr)).

(** D28a: a scheduled rule overwritten by a plain fact keeps its job (both kinds, both crons). *)
Lemma overwrite_keeps_job_counterexample :
  forall persistent k,
    let ops := [(SAdd "r" (sched_rule "+1h") "" None, 0); (SAdd "r" plain_fact "" None, 1)] in
    cview (crun persistent k [(SAdd "r" (sched_rule "+1h") "" None, 0)])
      = (["r"], [("r", "+1h")], [("r", "+1h")], true) /\
    cview (crun persistent k ops) = (["r"], [("r", "+1h")], [], false) /\
    (* the plain fact is what is stored under "r" *)
    fact_schedule (match alookup "r" (st_facts (fst (crun persistent k ops))) with Some f => f | None => JNull end) = None /\
    direct (fst (crun persistent k [(SAdd "r" (sched_rule "+1h") "" None, 0)])) (SAdd "r" plain_fact "" None, 1) = false.
Proof. intros [|] [|]; vm_compute; repeat split; reflexivity. Qed.

(** D28b: a scheduled rule removed by a deleteWith cascade keeps its job. *)
Lemma cascade_keeps_job_counterexample :
  forall persistent k,
    let ops1 := [(SAdd "r" dw_rule "" None, 0); (SAdd "f" plain_fact "" None, 1)] in
    cview (crun persistent k ops1) = (["f"; "r"], [("r", "+1h")], [("r", "+1h")], true) /\
    cview (crun persistent k (ops1 ++ [(SRem "f", 2)])) = ([], [("r", "+1h")], [], false) /\
    direct (fst (crun persistent k ops1)) (SRem "f", 2) = false.
Proof. intros [|] [|]; vm_compute; repeat split; reflexivity. Qed.

(** D28c: a scheduled rule purged at expiry (seen by a Get) keeps its job. *)
Lemma expiry_keeps_job_counterexample :
  forall persistent k,
    let ops1 := [(SAdd "r" exp_rule "" None, 0)] in
    cview (crun persistent k ops1) = (["r"], [("r", "+1h")], [("r", "+1h")], true) /\
    cview (crun persistent k (ops1 ++ [(SGet "r", 20)])) = ([], [("r", "+1h")], [], false) /\
    (* the Get is a "direct" operation: only the no-expiry hypothesis excludes it *)
    direct (fst (crun persistent k ops1)) (SGet "r", 20) = true /\
    fact_expired (match alookup "r" (st_facts (fst (crun persistent k ops1))) with Some f => f | None => JNull end) 20 = true.
Proof. intros [|] [|]; vm_compute; repeat split; reflexivity. Qed.

(** D28d: Clear of a linear location keeps every job (the indexed one drops them). *)
Lemma linear_clear_keeps_jobs_counterexample :
  forall persistent,
    let ops := [(SAdd "r" (sched_rule "+1h") "" None, 0); (SClear, 1)] in
    cview (crun persistent Linear ops) = ([], [("r", "+1h")], [], false) /\
    cview (crun persistent Indexed ops) = ([], [], [], true) /\
    direct (fst (crun persistent Linear [(SAdd "r" (sched_rule "+1h") "" None, 0)])) (SClear, 1) = false.
Proof. intros [|]; vm_compute; repeat split; reflexivity. Qed.

(** D28e: with a non-persistent cron, loading a linear location registers
    nothing although the storage holds a scheduled rule (the indexed one does). *)
Lemma linear_load_misses_jobs_counterexample :
  let s := fst (crun false Linear [(SAdd "r" (sched_rule "+1h") "" None, 0)]) in
  let s' := fst (st_load Linear true (st_store s) 1) in
  snd (st_load Linear true (st_store s) 1) = Ok tt /\
  calls_load false s' = [] /\
  scheduled_rules s' = [("r", "+1h")] /\
  registry_exact (fold_left apply_call (calls_load false s') []) s' = false /\
  (let si := fst (crun false Indexed [(SAdd "r" (sched_rule "+1h") "" None, 0)]) in
   calls_load false (fst (st_load Indexed true (st_store si) 1)) = [CSched "r" "+1h"]).
Proof. vm_compute. repeat split; reflexivity. Qed.

(** * 6. The hypotheses of the positive theorem are satisfiable *)

Definition ex_ops : list (sop * Z) :=
  [(SAdd "r1" (sched_rule "+1h") "" None, 0); (SAdd "r2" (sched_rule "+2h") "" None, 1);
   (SAdd "f" plain_fact "" None, 2); (SRem "r1", 3);
   (SAdd "r2" (sched_rule "+3h") "" None, 4); (SRem "f", 5); (SGet "r2", 6)].

Example direct_history_satisfiable :
  forall persistent k,
    forallb op_never_expires ex_ops = true /\
    direct_run persistent (cinit k) ex_ops = true /\
    forallb (fun n => let sr := crun persistent k (firstn n ex_ops) in registry_exact (snd sr) (fst sr))
            (seq 0 8) = true /\
    cview (crun persistent k (firstn 3 ex_ops)) =
      (["f"; "r1"; "r2"], [("r1", "+1h"); ("r2", "+2h")], [("r1", "+1h"); ("r2", "+2h")], true) /\
    cview (crun persistent k ex_ops) = (["r2"], [("r2", "+3h")], [("r2", "+3h")], true).
Proof. intros [|] [|]; vm_compute; repeat split; reflexivity. Qed.

Example direct_history_satisfiable_prop :
  forall persistent k, direct_history persistent k ex_ops.
Proof.
  intros persistent k. apply direct_run_history.
  - vm_compute. reflexivity.
  - destruct persistent, k; vm_compute; reflexivity.
Qed.

Print Assumptions scheduled_rules_spec.
Print Assumptions registry_exact_iff.
Print Assumptions cstep_exact.
Print Assumptions cstep_inexact_if_not_direct.
Print Assumptions cstep_exact_iff_direct.
Print Assumptions registry_exact_direct_ops.
Print Assumptions registry_exact_direct_ops_bool.
Print Assumptions direct_run_history.
Print Assumptions direct_coarse_direct.
Print Assumptions others_kept_spec.
Print Assumptions others_kept_complete.
Print Assumptions fst_crun.
Print Assumptions load_reregisters_indexed.
Print Assumptions overwrite_keeps_job_counterexample.
Print Assumptions cascade_keeps_job_counterexample.
Print Assumptions expiry_keeps_job_counterexample.
Print Assumptions linear_clear_keeps_jobs_counterexample.
Print Assumptions linear_load_misses_jobs_counterexample.
Print Assumptions direct_history_satisfiable.
Print Assumptions direct_history_satisfiable_prop.
