(** C06/C07 support: reload of reachable states (A3), the expiry instant never
    moves (B3 corollary), load drops expired records (B6), and the witnesses
    of what goes wrong with a storage failure or a rejecting hook. *)
From Coq Require Import Lia.
From Verif Require Import Json Outcome Match PatIndex State StateSpec AssocLemmas StateProofs
  DurableFrame DurableInv DurablePrepare DurableReload DurableSpec DurableMirror.

(** * Facts recorded by the indexed state are indexable *)

Lemma indexable_fact_iff fact : indexable_fact fact <-> idx_err fact = None.
Proof.
  unfold indexable_fact. split.
  - intros H. rewrite <- (st_add_mem_idx_err (empty_state Indexed false) "" fact). apply H.
  - intros H s id. rewrite st_add_mem_idx_err. exact H.
Qed.

Lemma st_add_facts_origin_idx s g x now fr aux j f :
  st_kind s = Indexed ->
  alookup j (st_facts (fst (st_add s g x now fr aux))) = Some f ->
  alookup j (st_facts s) = Some f \/ indexable_fact f.
Proof.
  intros Hk. unfold st_add.
  destruct (prepare_fact g x now fr aux) as [[id fact]|e|w|] eqn:Hp; cbn [fst]; auto.
  rewrite Hk.
  destruct (extract_rule fact false) as [rule|e|w|] eqn:Er; cbn [fst]; auto.
  destruct (add_hook_err s fact) as [e|] eqn:Eh.
  - cbn [fst]. auto.
  - destruct (st_add_mem_idx s id fact) as [s1 [e|]] eqn:E.
    + apply st_add_mem_idx_spec in E. destruct E as (s2 & He & ->). cbn [fst].
      destruct He as (_ & -> & _). auto.
    + pose proof (st_add_mem_idx_err s id fact) as Herr. rewrite E in Herr. cbn [snd] in Herr.
      apply st_add_mem_idx_spec in E. destruct E as (s2 & He & ->).
      destruct He as (_ & H2 & _).
      assert (Hgoal : alookup j (ainsert id fact (st_facts s)) = Some f ->
                      alookup j (st_facts s) = Some f \/ indexable_fact f).
      { rewrite alookup_ainsert. destruct (String.eqb j id); [|auto].
        intros H. injection H as <-. right. apply indexable_fact_iff. symmetry. exact Herr. }
      unfold store_call.
      match goal with |- context [if ?c then _ else _] => destruct c end;
        cbn [fst st_facts set_store set_facts set_tindex]; rewrite H2; exact Hgoal.
Qed.

Definition Ix (s : state) : Prop := st_kind s = Indexed -> all_indexable_in s.

Lemma sstep_Ix s o : Ix s -> Ix (sstep s o).
Proof.
  intros HI Hk'. destruct (sstep_Pres s o) as (P1 & _). rewrite P1 in Hk'.
  specialize (HI Hk'). intros id fact Hl.
  destruct o as [op now]. destruct op as [g x fr aux|i|i|p|ev|].
  - cbn [sstep] in Hl. apply st_add_facts_origin_idx in Hl; [|exact Hk'].
    destruct Hl as [Hl|Hl]; [eapply HI; exact Hl|exact Hl].
  - apply sstep_facts_origin in Hl. destruct Hl as [Hl|(? & ? & ? & ? & ? & E & _)]; [eapply HI; exact Hl|discriminate].
  - apply sstep_facts_origin in Hl. destruct Hl as [Hl|(? & ? & ? & ? & ? & E & _)]; [eapply HI; exact Hl|discriminate].
  - apply sstep_facts_origin in Hl. destruct Hl as [Hl|(? & ? & ? & ? & ? & E & _)]; [eapply HI; exact Hl|discriminate].
  - apply sstep_facts_origin in Hl. destruct Hl as [Hl|(? & ? & ? & ? & ? & E & _)]; [eapply HI; exact Hl|discriminate].
  - apply sstep_facts_origin in Hl. destruct Hl as [Hl|(? & ? & ? & ? & ? & E & _)]; [eapply HI; exact Hl|discriminate].
Qed.

Lemma fold_sstep_Ix ops : forall s, Ix s -> Ix (fold_left sstep ops s).
Proof.
  induction ops as [|o r IH]; intros s H; cbn [fold_left]; [exact H|].
  apply IH. apply sstep_Ix. exact H.
Qed.

Lemma reachable_Ix k hooks fail ops : Ix (reachable k hooks fail ops).
Proof. apply fold_sstep_Ix. intros _ id fact Hl. discriminate. Qed.

(** * A3 *)

Lemma reload_same_facts_main s now :
  st_wf s -> prepared s -> st_store s = st_facts s -> no_expired s now ->
  (st_kind s = Indexed -> all_indexable_in s) ->
  exists s', st_load (st_kind s) (st_hooks s) (st_store s) now = (s', Ok tt) /\
             st_facts s' = st_facts s /\ st_store s' = st_store s /\
             st_kind s' = st_kind s /\ st_hooks s' = st_hooks s /\
             (st_kind s = Indexed -> st_wf s' /\ Idx_sup s').
Proof.
  intros (W1 & _ & _) HP Hm Hne Hix. rewrite Hm.
  destruct (reload_store_same_facts (st_kind s) (st_hooks s) (st_facts s) now) as
    (s' & H1 & H2 & H3 & H4 & H5 & _ & _ & H8).
  - exact W1.
  - exact HP.
  - exact Hne.
  - intros Hk id fact Hl. apply indexable_fact_iff. eapply Hix; eassumption.
  - exists s'. repeat split; try assumption; apply H8; assumption.
Qed.

Lemma reload_equiv_reachable_hooks k hooks ops now :
  let s := reachable k hooks None ops in
  no_expired s now ->
  exists s', st_load k hooks (st_store s) now = (s', Ok tt) /\
             st_facts s' = st_facts s /\ st_store s' = st_store s /\
             (k = Indexed -> st_wf s' /\ Idx_sup s').
Proof.
  intros s Hne.
  destruct (reachable_fields k hooks None ops) as (Fk & Fh & Ff). fold s in Fk, Fh, Ff.
  assert (HM : M s).
  { unfold s, reachable. apply fold_sstep_M. split; reflexivity. }
  destruct (reload_same_facts_main s now) as (s' & H1 & H2 & H3 & _ & _ & H6).
  - apply reachable_wf.
  - apply reachable_prepared.
  - apply HM.
  - exact Hne.
  - apply reachable_Ix.
  - rewrite Fk, Fh in H1. exists s'. rewrite Fk in H6. repeat split; try assumption; apply H6; assumption.
Qed.

(** * B6: the indexed load keeps no expired fact *)

Lemma load_drops_expired_main hooks store now s' r :
  st_load Indexed hooks store now = (s', r) -> no_expired s' now.
Proof.
  intros H id fact Hl.
  destruct (load_facts_prepared hooks store now s' r H id fact Hl) as (id0 & x & _ & Hp).
  eapply prepare_fact_not_expired. exact Hp.
Qed.

(** * Witnesses *)

(** An add that the hook rejects changes nothing at all, in either state kind
    (the linear state used to write the record first: D33, repaired). *)
Lemma hook_reject_leaves_no_residue_main : hook_reject_leaves_no_residue_statement.
Proof.
  intros s g x now fr aux id fact e Hp Hh. unfold st_add. rewrite Hp.
  destruct (st_kind s) eqn:Hk.
  - destruct (extract_rule fact false) as [rule|e0|w|] eqn:Er.
    2:{ cbn [fst snd]. split; [reflexivity|]. split; [eauto|discriminate]. }
    2-3: unfold extract_rule in Er; destruct (jget "rule" fact) as [[]|]; discriminate.
    rewrite Hh. cbn [fst snd]. split; [reflexivity|]. split; [eauto|discriminate].
  - rewrite Hh. cbn [fst snd]. split; [reflexivity|]. split; [eauto|reflexivity].
Qed.

(** The hypotheses are satisfiable: the history that used to leave a record
    behind (a rule that is not a map, cron hooks installed) now leaves nothing,
    in the linear and in the indexed state. *)
Example hook_reject_leaves_no_residue_example :
  (let s := reachable Linear true None [(SAdd "r" (JObj [("rule", JNum 1)]) "f" None, 10)] in
   st_facts s = [] /\ st_store s = [] /\ st_calls s = 0%nat) /\
  snd (st_add (empty_state Linear true) "r" (JObj [("rule", JNum 1)]) 10 "f" None) = Err "rule isn't a map" /\
  (let s := reachable Indexed true None [(SAdd "r" (JObj [("rule", JObj [("schedule", JNum 1)])]) "f" None, 10)] in
   st_facts s = [] /\ st_store s = [] /\ st_calls s = 0%nat) /\
  snd (st_add (empty_state Indexed true) "r" (JObj [("rule", JObj [("schedule", JNum 1)])]) 10 "f" None)
    = Err "schedule isn't a string".
Proof. vm_compute. repeat split; reflexivity. Qed.

(** Indexed state: an add whose storage write fails answers Err, and has
    already replaced the fact in memory (the storage keeps the old one). *)
Lemma failed_add_modifies_memory_counterexample :
  let ops := [(SAdd "a" (JObj [("v", JNum 1)]) "f" None, 10); (SAdd "a" (JObj [("v", JNum 2)]) "f" None, 10)] in
  let s1 := reachable Indexed false (Some 1%nat) (firstn 1 ops) in
  let s2 := reachable Indexed false (Some 1%nat) ops in
  snd (st_add s1 "a" (JObj [("v", JNum 2)]) 10 "f" None) = Err "storage" /\
  alookup "a" (st_facts s1) = Some (JObj [("v", JNum 1)]) /\
  alookup "a" (st_facts s2) = Some (JObj [("v", JNum 2)]) /\
  alookup "a" (st_store s2) = Some (JObj [("v", JNum 1)]).
Proof. vm_compute. repeat split; reflexivity. Qed.

(** Linear state: a clear whose storage call fails has emptied the memory. *)
Lemma failed_clear_empties_memory_counterexample :
  let s := reachable Linear false (Some 1%nat) [(SAdd "a" (JObj [("v", JNum 1)]) "f" None, 10); (SClear, 10)] in
  st_facts s = [] /\ st_store s = [("a", JObj [("v", JNum 1)])].
Proof. vm_compute. repeat split; reflexivity. Qed.
