(** C04 - definitions used by the statements about the event work tree
    (theories/Events.v).  Definitions only; the theorems are in
    proofs/EventsProofs.v. *)
From Verif Require Import Json Outcome Match PatIndex State Location Query QueryOps QuerySpec Events.

(** ** Successful executions *)

Definition res_ok (x : exec_rec) : bool :=
  match x_res x with Ok _ => true | _ => false end.

(** the action [a], run for rule [rid] on the bindings [bs], succeeds *)
Definition action_ok (sem : string -> option code) (rid : string) (bs : bindings) (a : json) : bool :=
  res_ok (exec_action sem rid bs a).

(** ** What a serial rule runs: the longest prefix of actions that all
    succeed, plus the first failing action if there is one. *)

Fixpoint ok_prefix (ok : json -> bool) (acts : list json) : list json :=
  match acts with
  | [] => []
  | a :: r => if ok a then a :: ok_prefix ok r else []
  end.

Fixpoint after_ok_prefix (ok : json -> bool) (acts : list json) : list json :=
  match acts with
  | [] => []
  | a :: r => if ok a then after_ok_prefix ok r else a :: r
  end.

Definition serial_run (ok : json -> bool) (acts : list json) : list json :=
  (ok_prefix ok acts ++ firstn 1 (after_ok_prefix ok acts))%list.

(** ** Endpoints whose execution is modelled (scripts run in process) *)

Definition js_action (a : json) : bool :=
  let endpoint := match jget "endpoint" a with Some (JStr s) => s | _ => "" end in
  String.eqb endpoint "" || String.eqb endpoint "javascript".

(** the result the property demands for the script [js] run on [bs] *)
Definition script_result (sem : string -> option code) (js : string) (bs : bindings) : outcome json :=
  match sem js with
  | Some cd => run_code cd bs
  | None => Err "unknown script"
  end.

(** the execution record the property demands for one element of [spec_execs] *)
Definition rec_of (sem : string -> option code) (t : string * string * bindings) : exec_rec :=
  let '(rid, js, bs) := t in mkExec rid js bs (script_result sem js bs).

Definition exec_key (x : exec_rec) : string * string * bindings := (x_rule x, x_code x, x_bs x).

(** ** The condition of a rule, read denotationally over the (pure) fact
    search of the system [sy], for one when-binding [bw]. *)

Definition cond_den (sem : string -> option code) (name : string) (c : ctx) (e : env) (event : json)
           (sy : system) (rid : string) (body : json) (bw : bindings) : outcome (list bindings) :=
  let b := inject bw event name rid in
  match jget "condition" body with
  | None | Some JNull => Ok [b]
  | Some q =>
      match parse_query sem (parse_fuel q) q with
      | Ok pq => den (fun locs p => snd (sys_search_locs name c e sy locs p)) sem pq b
      | Err x => Err x
      | Panic w => Panic w
      | OutOfFuel => OutOfFuel
      end
  end.

(** the [cond] argument of [spec_execs] *)
Definition cond_results (sem : string -> option code) (name : string) (c : ctx) (e : env) (event : json)
           (sy : system) (rid : string) (body : json) (bw : bindings) : list bindings :=
  match cond_den sem name c e event sy rid body bw with Ok l => l | _ => [] end.

(** every condition of the rule evaluates, for every when-binding *)
Definition conds_evaluate (sem : string -> option code) (name : string) (c : ctx) (e : env) (event : json)
           (sy : system) (rid : string) (body : json) (bss : list bindings) : Prop :=
  forall bw, In bw bss -> exists results, cond_den sem name c e event sy rid body bw = Ok results.

(** searching changes nothing (e.g. nothing stored has expired) *)
Definition search_pure (name : string) (c : ctx) (e : env) (sy : system) : Prop :=
  forall locs p, fst (sys_search_locs name c e sy locs p) = sy.

(** a dispatched rule to which the unconditional part of C04 applies:
    concurrent actions, not one-shot, conditions evaluate *)
Definition clean_child (sem : string -> option code) (name : string) (c : ctx) (e : env) (event : json)
           (sy : system) (ch : string * json * list bindings) : Prop :=
  let '(rid, body, bss) := ch in
  rule_serial body = false /\
  one_shot (rule_schedule body) = false /\
  conds_evaluate sem name c e event sy rid body bss.

(** the executions of the work tree, as records *)
Definition spec_recs (sem : string -> option code) (cond : string -> json -> bindings -> list bindings)
           (children : list (string * json * list bindings)) : list exec_rec :=
  flat_map (fun ch : string * json * list bindings =>
              let '(rid, body, bss) := ch in
              flat_map (fun bw =>
                          flat_map (fun bc => map (exec_action sem rid bc) (rule_actions body))
                                   (cond rid body bw)) bss) children.

(** forgetting the rule bodies of FindRules' children *)
Definition forget_body (t : string * json * list bindings) : string * list bindings :=
  (fst (fst t), snd t).

(** what RuleDone reports for the result of RemRule *)
Definition done_disp (r : outcome bool) : option (outcome unit) :=
  match r with
  | Ok _ => None
  | Err x => Some (Err x)
  | Panic w => Some (Panic w)
  | OutOfFuel => Some OutOfFuel
  end.
