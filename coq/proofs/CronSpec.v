(** C16 (in-memory cron): the property clauses as statements over the model
    of Cron.v (the code after the repairs of D26, D38, D49 and D50), for ALL operation sequences ([run ops (cron_init limit)] is
    [fold_left step ops ...]); proofs are in CronProofs.v. *)
From Coq Require Export Sorting.Sorted.
From Verif Require Import Json Cron.

Definition next_le (a b : cjob) : Prop := j_next a <= j_next b.

(** The timeline is sorted by Next. *)
Definition timeline_sorted_statement : Prop :=
  forall ops limit, StronglySorted next_le (c_tl (run ops (cron_init limit))).

(** At most one pending entry per job id. *)
Definition unique_ids_statement : Prop :=
  forall ops limit, NoDup (map j_id (c_tl (run ops (cron_init limit)))).

(** Every firing happens at or after the Next of the job that fires, and that
    job (id, Next, kind) was put on the timeline by an Add of the trace or by
    the re-scheduling of a recurring job. *)
Definition was_scheduled (ops : list cop) (f : fire) : Prop :=
  (exists now, In (CAdd (f_id f) (f_next f) (f_rec f) now) ops) \/
  (f_rec f = true /\ exists now, In (CDone (f_id f) now (f_next f)) ops).

Definition no_early_fire_statement : Prop :=
  forall ops limit f, In f (c_fires (run ops (cron_init limit))) ->
    f_next f <= f_now f /\ was_scheduled ops f.

(** Counting firings and schedulings. *)
Definition is_fire (id : string) (r : bool) (f : fire) : bool :=
  String.eqb (f_id f) id && Bool.eqb (f_rec f) r.
Definition count_fires (id : string) (r : bool) (c : cron) : nat :=
  length (filter (is_fire id r) (c_fires c)).
Definition is_add (id : string) (r : bool) (o : cop) : bool :=
  match o with CAdd i _ r' _ => String.eqb i id && Bool.eqb r' r | _ => false end.
Definition is_done (id : string) (o : cop) : bool :=
  match o with CDone i _ _ => String.eqb i id | _ => false end.
Definition count_ops (p : cop -> bool) (ops : list cop) : nat := length (filter p ops).

(** A one-shot job fires at most once per Add. *)
Definition oneshot_fires_at_most_once_statement : Prop :=
  forall ops limit id,
    (count_fires id false (run ops (cron_init limit)) <= count_ops (is_add id false) ops)%nat.

(** A recurring job fires at most once per occurrence: every firing consumes
    one scheduling (the Add, or the re-scheduling after a callback returned). *)
Definition recurring_once_per_occurrence_statement : Prop :=
  forall ops limit id,
    (count_fires id true (run ops (cron_init limit))
     <= count_ops (is_add id true) ops + count_ops (is_done id) ops)%nat.

(** A job that is removed and not added again never fires afterwards --
    whether it was pending or its callback was running at the time (a running
    recurring job is marked and does not re-schedule itself: D26 repaired). *)
Definition fires_of (id : string) (c : cron) : list fire :=
  filter (fun f => String.eqb (f_id f) id) (c_fires c).
Definition no_add (id : string) (ops : list cop) : Prop :=
  forall i next r now, In (CAdd i next r now) ops -> i <> id.

Definition removed_never_fires_statement : Prop :=
  forall ops1 ops2 limit id now,
    let s1 := run ops1 (cron_init limit) in
    no_add id ops2 ->
    fires_of id (run ops2 (step s1 (CRem id now))) = fires_of id s1.

(** ... and it is on the timeline no more. *)
Definition removed_not_pending_statement : Prop :=
  forall ops1 ops2 limit id now,
    let s1 := run ops1 (cron_init limit) in
    no_add id ops2 ->
    ~ In id (map j_id (c_tl (run ops2 (step s1 (CRem id now))))).

(** Rem reports a job whenever there was one to cancel: a pending one, or a
    recurring one whose callback is running (and not cancelled already). *)
Definition rem_found_iff_statement : Prop :=
  forall c id,
    rem_found c id = true <->
    (In id (map j_id (c_tl c)) \/
     exists j, In (j, false) (c_inflight c) /\ j_id j = id /\ j_rec j = true).

(** Suspend, resume and pause do not touch the timeline, the running
    callbacks or the fire log. *)
Definition same_jobs (c c' : cron) : Prop :=
  c_tl c' = c_tl c /\ c_inflight c' = c_inflight c /\ c_fires c' = c_fires c.

Definition suspend_keeps_jobs_statement : Prop :=
  forall c now, same_jobs c (step c CSuspend) /\ same_jobs c (step c (CResume now)) /\
                same_jobs c (step c (CPause now)).

(** While suspended nothing fires, whatever else happens (Add, Rem, returns
    of callbacks, pauses, timer values still in the channel): D49 repaired. *)
Definition no_resume (o : cop) : Prop :=
  match o with CResume _ => False | _ => True end.

Definition suspended_quiet_statement : Prop :=
  forall c ops, c_susp c = true -> Forall no_resume ops ->
    c_fires (run ops c) = c_fires c /\ c_susp (run ops c) = true.

(** The timer of a suspended instance is stopped, in every reachable state. *)
Definition suspended_timer_stopped_statement : Prop :=
  forall ops limit, c_susp (run ops (cron_init limit)) = true ->
    c_armed (run ops (cron_init limit)) = None.

(** Resume re-arms the timer for the head: suspension only delays. *)
Definition resume_rearms_statement : Prop :=
  forall c now j r, c_susp c = true -> c_tl c = j :: r ->
    c_armed (step c (CResume now)) = Some (Z.max (j_next j) now) /\
    c_susp (step c (CResume now)) = false.

(** In every reachable state that is not suspended the timer is armed for
    an instant at which the head is due: the head will be served (D38
    repaired: no history stalls the instance). *)
Definition timer_armed_invariant_statement : Prop :=
  forall ops limit j r,
    c_tl (run ops (cron_init limit)) = j :: r ->
    c_susp (run ops (cron_init limit)) = false ->
    exists t, c_armed (run ops (cron_init limit)) = Some t /\ j_next j <= t.

Definition never_stalled_statement : Prop :=
  forall ops limit, stalled (run ops (cron_init limit)) = false.

(** Rem re-arms the timer for the new head. *)
Definition rem_rearms_timer_statement : Prop :=
  forall c id now j r, c_susp c = false -> rem_found c id = true ->
    c_tl (step c (CRem id now)) = j :: r ->
    c_armed (step c (CRem id now)) = Some (Z.max (j_next j) now).

(** A refused Add has no effect at all (D50 repaired). *)
Definition refused_add_no_effect_statement : Prop :=
  forall c id next recurring now,
    add_ok c id next recurring now = false -> step c (CAdd id next recurring now) = c.

(** An accepted Add puts the job on the timeline, and the limit is respected
    by Add: it is refused iff the timeline, not counting the job it would
    replace, has reached the limit. *)
Definition add_ok_iff_statement : Prop :=
  forall c id next recurring now,
    add_ok c id next recurring now = negb (over_limit c id) /\
    (add_ok c id next recurring now = true ->
     In (mkJob id next recurring) (c_tl (step c (CAdd id next recurring now)))).

(** sort.Search (binary search) on a sorted timeline finds the position the
    model's linear insert uses. *)
Definition search_is_first_later_statement : Prop :=
  forall j tl, StronglySorted next_le tl -> tl_insert_at j tl = tl_insert j tl.
