(** C16 (in-memory cron): the property clauses as statements over the model
    of Cron.v, for ALL operation sequences ([run ops (cron_init limit)] is
    [fold_left step ops ...]); proofs are in CronProofs.v. *)
From Coq Require Export Sorting.Sorted.
From Verif Require Import Json Cron.

Definition next_le (a b : cjob) : Prop := j_next a <= j_next b.

(** The timeline is sorted by Next. *)
Definition timeline_sorted_statement : Prop :=
  forall ops limit, StronglySorted next_le (c_tl (run ops (cron_init limit))).

(** At most one pending entry per job id. *)
Definition unique_ids_statement : Prop :=
  forall ops limit, NoDup (map j_id (c_tl (run ops (cron_init limit)))).

(** Every firing happens at or after the Next of the job that fires, and that
    job (id, Next, kind) was put on the timeline by an Add of the trace or by
    the re-scheduling of a recurring job. *)
Definition was_scheduled (ops : list cop) (f : fire) : Prop :=
  (exists now, In (CAdd (f_id f) (f_next f) (f_rec f) now) ops) \/
  (f_rec f = true /\ exists now, In (CDone (f_id f) now (f_next f)) ops).

Definition no_early_fire_statement : Prop :=
  forall ops limit f, In f (c_fires (run ops (cron_init limit))) ->
    f_next f <= f_now f /\ was_scheduled ops f.

(** Counting firings and schedulings. *)
Definition is_fire (id : string) (r : bool) (f : fire) : bool :=
  String.eqb (f_id f) id && Bool.eqb (f_rec f) r.
Definition count_fires (id : string) (r : bool) (c : cron) : nat :=
  length (filter (is_fire id r) (c_fires c)).
Definition is_add (id : string) (r : bool) (o : cop) : bool :=
  match o with CAdd i _ r' _ => String.eqb i id && Bool.eqb r' r | _ => false end.
Definition is_done (id : string) (o : cop) : bool :=
  match o with CDone i _ _ => String.eqb i id | _ => false end.
Definition count_ops (p : cop -> bool) (ops : list cop) : nat := length (filter p ops).

(** A one-shot job fires at most once per Add. *)
Definition oneshot_fires_at_most_once_statement : Prop :=
  forall ops limit id,
    (count_fires id false (run ops (cron_init limit)) <= count_ops (is_add id false) ops)%nat.

(** A recurring job fires at most once per occurrence: every firing consumes
    one scheduling (the Add, or the re-scheduling after a callback returned). *)
Definition recurring_once_per_occurrence_statement : Prop :=
  forall ops limit id,
    (count_fires id true (run ops (cron_init limit))
     <= count_ops (is_add id true) ops + count_ops (is_done id) ops)%nat.

(** A job removed while it is pending (no callback of that id is running) and
    not added again never fires afterwards. *)
Definition fires_of (id : string) (c : cron) : list fire :=
  filter (fun f => String.eqb (f_id f) id) (c_fires c).
Definition inflight_free (id : string) (c : cron) : Prop :=
  ~ In id (map j_id (c_inflight c)).
Definition no_add (id : string) (ops : list cop) : Prop :=
  forall i next r now, In (CAdd i next r now) ops -> i <> id.

Definition removed_pending_never_fires_statement : Prop :=
  forall ops1 ops2 limit id,
    let s1 := run ops1 (cron_init limit) in
    inflight_free id s1 -> no_add id ops2 ->
    fires_of id (run ops2 (step s1 (CRem id))) = fires_of id s1.

(** Suspend, resume and pause do not touch the timeline, the running
    callbacks or the fire log. *)
Definition same_jobs (c c' : cron) : Prop :=
  c_tl c' = c_tl c /\ c_inflight c' = c_inflight c /\ c_fires c' = c_fires c.

Definition suspend_keeps_jobs_statement : Prop :=
  forall c now, same_jobs c (step c CSuspend) /\ same_jobs c (step c (CResume now)) /\
                same_jobs c (step c (CPause now)).

(** A trace is timer driven when every tick is a delivery of the armed timer. *)
Fixpoint timer_driven (c : cron) (ops : list cop) : Prop :=
  match ops with
  | [] => True
  | o :: r =>
      match o with CTick now => tick_enabled c now = true | _ => True end /\
      timer_driven (step c o) r
  end.

Definition quiet_op (o : cop) : Prop :=
  match o with CRem _ | CTick _ | CSuspend => True | _ => False end.

(** While suspended nothing fires, as long as nothing re-arms the timer
    (no Add, no return of a callback, no pause, no resume). *)
Definition suspended_quiet_statement : Prop :=
  forall c ops, Forall quiet_op ops -> timer_driven (step c CSuspend) ops ->
    c_fires (run ops (step c CSuspend)) = c_fires c.

(** Resume re-arms the timer for the head: suspension only delays. *)
Definition resume_rearms_statement : Prop :=
  forall c now j r, c_susp c = true -> c_tl c = j :: r ->
    c_armed (step c (CResume now)) = Some (Z.max (j_next j) now) /\
    c_susp (step c (CResume now)) = false.

(** Without Rem and Suspend (and while no Add is refused), the timer is always
    armed for an instant at which the head is due: the head will be served. *)
Definition no_rem_susp (o : cop) : Prop :=
  match o with CRem _ | CSuspend => False | _ => True end.

Definition timer_armed_without_rem_statement : Prop :=
  forall ops limit j r, Forall no_rem_susp ops -> Z.of_nat (length ops) <= limit ->
    c_tl (run ops (cron_init limit)) = j :: r ->
    exists t, c_armed (run ops (cron_init limit)) = Some t /\ j_next j <= t.

(** sort.Search (binary search) on a sorted timeline finds the position the
    model's linear insert uses. *)
Definition search_is_first_later_statement : Prop :=
  forall j tl, StronglySorted next_le tl -> tl_insert_at j tl = tl_insert j tl.
