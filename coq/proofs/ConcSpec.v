(** Statements and definitions for C11 (interleavings of requests addressed
    to unrelated locations) and C12 (requests addressed to one location:
    soundness of the linearizability oracle of theories/CorrConc.v, and the
    locking discipline read off the regenerated gen/LockTable.v). *)
From Coq Require Import Lia.
From Verif Require Import Json Outcome Match PatIndex State Location SysOps CorrLoc CorrConc.
From Verif Require Import LocSpec GateProofs LockTable.

(** * A. C11: interleavings over the atomic-request model *)

(** the requests of [h] addressed to location [a], in issue order *)
Definition proj (a : string) (h : list request) : list request :=
  filter (fun q => String.eqb (r_loc q) a) h.

(** A request is LONE in [sy] when it cannot look at or touch another
    location: it is not an ancestor walk, or it is one but its location
    (if it exists) lists no parent at the instant of the request. *)
Definition lone (sy : system) (q : request) : Prop :=
  is_walk (r_op q) = false \/
  forall l, sys_get sy (r_loc q) = Some l -> snd (get_parents l (e_now (r_env q))) = Ok [].

(** [unrelated sy h]: along the run of [h] from [sy], every request is lone
    at the moment it is executed. *)
Fixpoint unrelated (sy : system) (h : list request) : Prop :=
  match h with
  | [] => True
  | q :: r => lone sy q /\ unrelated (sys_do sy q) r
  end.

(** the simple static sufficient condition *)
Definition no_walks (h : list request) : Prop :=
  forall q, In q h -> is_walk (r_op q) = false.

(** the result of every request of [h], in order *)
Fixpoint results (sy : system) (h : list request) : list lres :=
  match h with
  | [] => []
  | q :: r => snd (sys_step sy (r_loc q) (r_ctx q) (r_env q) (r_op q)) :: results (sys_do sy q) r
  end.

(** the results of the requests of [h] that are addressed to [a] *)
Definition results_of (a : string) (sy : system) (h : list request) : list lres :=
  map snd (filter (fun qr => String.eqb (r_loc (fst qr)) a) (List.combine h (results sy h))).

Definition no_walks_unrelated_statement : Prop :=
  forall h sy, no_walks h -> unrelated sy h.

Definition interleave_equiv_sequential_statement : Prop :=
  forall sy h a,
    unrelated sy h ->
    sys_get (sys_run sy h) a = sys_get (sys_run sy (proj a h)) a.

Definition interleave_results_sequential_statement : Prop :=
  forall sy h a,
    unrelated sy h ->
    results_of a sy h = results sy (proj a h).

(** index-based reading of the same fact: the k-th request of [h] returns
    what it returns in the run of its own location's requests alone, at the
    position it has there *)
Definition pos_in_proj (h : list request) (k : nat) : nat :=
  match nth_error h k with
  | Some q => length (proj (r_loc q) (firstn k h))
  | None => O
  end.

Definition interleave_result_at_statement : Prop :=
  forall sy h k q,
    unrelated sy h -> nth_error h k = Some q ->
    nth_error (results sy h) k = nth_error (results sy (proj (r_loc q) h)) (pos_in_proj h k) /\
    nth_error (proj (r_loc q) h) (pos_in_proj h k) = Some q.

(** the projected run is itself made of lone requests *)
Definition unrelated_proj_statement : Prop :=
  forall sy h a, unrelated sy h -> unrelated sy (proj a h).

Definition any_two_interleavings_agree_statement : Prop :=
  forall sy h1 h2,
    unrelated sy h1 -> unrelated sy h2 ->
    (forall a, proj a h1 = proj a h2) ->
    forall a, sys_get (sys_run sy h1) a = sys_get (sys_run sy h2) a /\
              results_of a sy h1 = results_of a sy h2.

(** decidable form of [unrelated], for concrete histories *)
Definition lone_b (sy : system) (q : request) : bool :=
  negb (is_walk (r_op q)) ||
  match sys_get sy (r_loc q) with
  | None => true
  | Some l => match snd (get_parents l (e_now (r_env q))) with Ok [] => true | _ => false end
  end.

Fixpoint unrelated_b (sy : system) (h : list request) : bool :=
  match h with
  | [] => true
  | q :: r => lone_b sy q && unrelated_b (sys_do sy q) r
  end.

(** * B. C12: what the linearizability oracle of CorrConc decides *)

(** real time, as the oracle checks it: no OTHER client's pending head
    returned before [o] (the head of client [i]) was invoked *)
Definition rt_ok (clients : list (list json)) (i : nat) (o : json) : Prop :=
  forall j o' c', j <> i -> nth_error clients j = Some (o' :: c') -> (op_inv o <= op_ret o')%Z.

(** real time, in full: no pending operation at all of another client
    returned before [o] was invoked *)
Definition rt_ok_all (clients : list (list json)) (i : nat) (o : json) : Prop :=
  forall j c o', j <> i -> nth_error clients j = Some c -> In o' c -> (op_inv o <= op_ret o')%Z.

(** a client is sequential: an operation returns after it was invoked and
    before the client's next operation is invoked *)
Fixpoint client_seq (c : list json) : Prop :=
  match c with
  | [] => True
  | o :: r => (op_inv o <= op_ret o)%Z /\
              match r with [] => True | o2 :: _ => (op_ret o <= op_inv o2)%Z end /\
              client_seq r
  end.

(** [order] (client indices) is a linearization of the pending operations
    [clients] from the model state [sy]:
    (i) each choice takes the HEAD of a client (program order) and at the end
        every client is empty;
    (ii) each choice respects real time ([rt_ok]);
    (iii) the model, run on the chosen operation, returns the observed result;
    (iv) the final model state passes [finals]. *)
Fixpoint linearization (sy : system) (clients : list (list json)) (order : list nat)
         (finals : system -> bool) : Prop :=
  match order with
  | [] => all_empty clients = true /\ finals sy = true
  | i :: rest =>
      exists o c,
        nth_error clients i = Some (o :: c) /\
        rt_ok clients i o /\
        same_res (snd (run_op sy o (jfZ "t" o))) (jget_d "res" o) = true /\
        linearization (fst (run_op sy o (jfZ "t" o))) (advance clients i) rest finals
  end.

(** the operations in the order chosen *)
Fixpoint ops_of (clients : list (list json)) (order : list nat) : list json :=
  match order with
  | [] => []
  | i :: rest =>
      match nth i clients [] with
      | o :: _ => o :: ops_of (advance clients i) rest
      | [] => []
      end
  end.

(** the operations that [order] takes from client [i] *)
Definition picked (clients : list (list json)) (order : list nat) (i : nat) : list json :=
  map snd (filter (fun io => Nat.eqb (fst io) i) (List.combine order (ops_of clients order))).

Definition head_enabled_spec_statement : Prop :=
  forall clients i o, head_enabled clients i o = true <-> rt_ok clients i o.

Definition advance_spec_statement : Prop :=
  forall clients i j,
    nth_error (advance clients i) j =
    option_map (fun c => if Nat.eqb j i then tl c else c) (nth_error clients j).

Definition rt_head_implies_all_statement : Prop :=
  forall clients i o,
    (forall c, In c clients -> client_seq c) ->
    rt_ok clients i o -> rt_ok_all clients i o.

Definition lin_budget_monotone_statement : Prop :=
  forall depth finals sy clients budget,
    (fst (lin depth finals sy clients budget) <= budget)%nat.

Definition lin_sound_statement : Prop :=
  forall depth finals sy clients budget b,
    lin depth finals sy clients budget = (b, Some true) ->
    exists order, linearization sy clients order finals.

Definition lin_complete_within_budget_statement : Prop :=
  forall finals sy clients budget b,
    lin (S (total_ops clients)) finals sy clients budget = (b, Some false) ->
    ~ exists order, linearization sy clients order finals.

(** what a linearization is, read as a sequential execution *)
Definition linearization_replays_statement : Prop :=
  forall sy clients order finals,
    linearization sy clients order finals ->
    exists sy_end,
      replay_all sy (ops_of clients order) = Some sy_end /\ finals sy_end = true /\
      length order = total_ops clients /\
      forall i, (i < length clients)%nat -> picked clients order i = nth i clients [].

(** real time over the whole order: an operation linearized later did not
    return before an operation linearized earlier was invoked *)
Definition linearization_real_time_statement : Prop :=
  forall sy clients order finals p q op oq,
    (forall c, In c clients -> client_seq c) ->
    linearization sy clients order finals ->
    (p < q)%nat ->
    nth_error (ops_of clients order) p = Some op ->
    nth_error (ops_of clients order) q = Some oq ->
    (op_inv op <= op_ret oq)%Z.

Definition finals_ok_spec_statement : Prop :=
  forall final final_store sy,
    finals_ok final final_store sy = true <->
    exists sy1 sy2,
      replay_all sy final = Some sy1 /\
      replay_all (reload_all sy1 (match final_store with o :: _ => jfZ "t" o | [] => 0 end)) final_store = Some sy2.

(** replaying observations = running them one after the other with every
    result agreeing *)
Definition replay_all_spec_statement : Prop :=
  forall ops sy sy',
    replay_all sy ops = Some sy' <->
    (fold_left (fun s o => fst (run_op s o (jfZ "t" o))) ops sy = sy' /\
     forall k o, nth_error ops k = Some o ->
       same_res (snd (run_op (fold_left (fun s o => fst (run_op s o (jfZ "t" o))) (firstn k ops) sy) o (jfZ "t" o)))
                (jget_d "res" o) = true).

(** * C. C12: the locking discipline, from the regenerated lock table *)

Fixpoint before_char (k : Z) (s : string) : string :=
  match s with
  | EmptyString => EmptyString
  | String c r => if Z.eqb (Z.of_nat (nat_of_ascii c)) k then EmptyString else String c (before_char k r)
  end.
Fixpoint after_char (k : Z) (s : string) : string :=
  match s with
  | EmptyString => EmptyString
  | String c r => if Z.eqb (Z.of_nat (nat_of_ascii c)) k then r else after_char k r
  end.
Definition before_dot := before_char 46.  (* "IndexedState.Add" -> "IndexedState" *)
Definition after_dot := after_char 46.    (* "IndexedState.Add" -> "Add" *)
Definition ev_kind := before_char 58.     (* "read:IdToFact" -> "read" *)
Definition ev_target := after_char 58.    (* "read:IdToFact" -> "IdToFact" *)

Definition is_lock_event (e : string) : bool :=
  has_prefix "lock:" e || has_prefix "unlock:" e || has_prefix "defer-unlock:" e.

Definition pair_eqb (a b : string * string) : bool :=
  String.eqb (fst a) (fst b) && String.eqb (snd a) (snd b).
Definition mem_pair (a : string * string) (l : list (string * string)) : bool := existsb (pair_eqb a) l.

(** TRUSTED ANNOTATION (the table does not record call arguments):
    [LinearState.rem] and [LinearState.search] take a [lock bool] parameter and
    lock only [if lock]; these (caller, callee) call sites pass [false]
    ([s.rem(ctx, id, false)] in purge and deleteDependencies,
    [s.search(ctx, pattern, false)] in deleteDependencies).  At these call
    sites the callee's lock events are dropped when it is inlined.  (Without
    the annotation the inlined trace would re-acquire the non-reentrant
    RWMutex while holding it; [no_relock] below checks that, with it, no
    method ever does.)  Since the repair of D52 [expire] calls nothing. *)
Definition calls_without_lock : list (string * string) :=
  [("LinearState.purge", "rem"); ("LinearState.deleteDependencies", "rem");
   ("LinearState.deleteDependencies", "search")].

(** one entry of an inlined trace: the lock modes held when the event happens
    (innermost first), the method whose body contains the event, the event *)
Definition tentry : Type := (list string * (string * string))%type.
Definition te_held (t : tentry) : list string := fst t.
Definition te_in (t : tentry) : string := fst (snd t).
Definition te_ev (t : tentry) : string := snd (snd t).

(** Walk a method body with the stack of held locks: [lock:m] pushes [m],
    [unlock:*] pops; [defer-unlock:*] and [defer-call:m] are stacked and run,
    last registered first, when the method returns (a deferred unlock pops and
    is entered in the trace as the [unlock:] of the mode it releases, at the
    place where it runs; a deferred call of a method of the same type is
    inlined there); [call:m] of a
    method of the same type is inlined (fuelled) in the caller's lock context;
    a call of anything else (a hook field) is an event.  Returns the trace and
    the locks held on return. *)
Fixpoint trace (fuel : nat) (ty cur : string) (held : list string) (evs : list string) {struct fuel}
  : list tentry * list string :=
  match fuel with
  | O => ([], held)
  | S f =>
      let inline (callee : string) (held : list string) : option (list tentry * list string) :=
        match tlookup (String.append ty (String.append "." callee)) lock_table with
        | None => None
        | Some evs' =>
            let evs'' := if mem_pair (String.append ty (String.append "." cur), callee) calls_without_lock
                         then filter (fun x => negb (is_lock_event x)) evs' else evs' in
            Some (trace f ty callee held evs'')
        end in
      (* the deferred actions, innermost (last registered) first: "" = an unlock *)
      let run_deferred :=
        (fix run (ds : list string) (held : list string) {struct ds} : list tentry * list string :=
           match ds with
           | [] => ([], held)
           | d :: r =>
               if String.eqb d "" then
                 let '(t, h) := run r (tl held) in
                 ((held, (cur, String.append "unlock:" (hd "" held))) :: t, h)
               else match inline d held with
                    | None => let '(t, h) := run r held in ((held, (cur, String.append "call:" d)) :: t, h)
                    | Some (t1, h1) => let '(t2, h2) := run r h1 in ((t1 ++ t2)%list, h2)
                    end
           end) in
      (fix go (evs : list string) (held : list string) (deferred : list string) {struct evs}
         : list tentry * list string :=
         match evs with
         | [] => run_deferred deferred held
         | e :: r =>
             if has_prefix "lock:" e then
               let '(t, h) := go r (drop5 e :: held) deferred in ((held, (cur, e)) :: t, h)
             else if has_prefix "unlock:" e then
               let '(t, h) := go r (tl held) deferred in ((held, (cur, e)) :: t, h)
             else if has_prefix "defer-unlock:" e then go r held ("" :: deferred)
             else if has_prefix "defer-call:" e then go r held (after_char 58 e :: deferred)
             else if has_prefix "call:" e then
               match inline (drop5 e) held with
               | None => let '(t, h) := go r held deferred in ((held, (cur, e)) :: t, h)
               | Some (t1, h1) =>
                   let '(t2, h2) := go r h1 deferred in
                   ((t1 ++ t2)%list, h2)
               end
             else let '(t, h) := go r held deferred in ((held, (cur, e)) :: t, h)
         end) evs held []
  end.

Definition trace_fuel (fuel : nat) (m : string) (evs : list string) : list tentry * list string :=
  trace fuel (before_dot m) (after_dot m) [] evs.
Definition trace_of (m : string) (evs : list string) : list tentry := fst (trace_fuel 8 m evs).

(** methods documented to be called with the lock already held by their
    caller: they are only checked in the context of their callers *)
Definition lock_inheriting : list string :=
  ["add"; "rem"; "search"; "deleteDependencies"; "expire"; "init"; "indexRule"; "unindexRule";
   "SearchForIDs"; "remHooks"].

Definition is_top (m : string) : bool := negb (mem_str (after_dot m) lock_inheriting).
Definition top_methods : list (string * list string) := filter (fun me => is_top (fst me)) lock_table.

(** the fact maps and the index structures *)
Definition protected_targets : list string := ["IdToFact"; "Facts"; "FactIndex"; "RuleIndex"].

Definition is_protected (e : string) : bool :=
  String.eqb (ev_kind e) "index" ||
  (mem_str (ev_kind e) ["read"; "write"; "delete"; "range"] && mem_str (ev_target e) protected_targets).

Definition is_mutation (e : string) : bool :=
  (mem_str (ev_kind e) ["write"; "delete"] && mem_str (ev_target e) protected_targets) ||
  mem_str e ["index:Add"; "index:RemIdTerms"; "index:AddPatternMap"; "index:RemPatternMap"].

Definition is_store_write (e : string) : bool :=
  mem_str e ["store:Add"; "store:Remove"; "store:Clear"; "store:Delete"].

(** how an event is named in an exception list: "<method containing it>/<event>" *)
Definition qual (t : tentry) : string := String.append (te_in t) (String.append "/" (te_ev t)).

Definition no_lock (t : tentry) : bool := match te_held t with [] => true | _ => false end.

(** (Before the repair of D52 this check needed a list of exceptions: [get]
    released the read lock and then ran [expire] -> [rem] with no lock held.
    Now [expire] only notes the id in a list that has its own mutex, and the
    removal happens in [purge], under the write lock: no exception is left.) *)
Definition locked_accesses_ok : bool :=
  forallb (fun me =>
             forallb (fun t => negb (is_protected (te_ev t)) || negb (no_lock t))
                     (trace_of (fst me) (snd me)))
          top_methods.

Definition fact_map_accesses_are_locked_statement : Prop :=
  forall m evs, In (m, evs) lock_table -> is_top m = true ->
    forall t, In t (trace_of m evs) -> is_protected (te_ev t) = true ->
      te_held t <> [].

(** every method returns with no lock held, and never acquires the
    (non-reentrant) lock while holding it *)
Definition balanced_ok : bool :=
  forallb (fun me => match snd (trace_fuel 8 (fst me) (snd me)) with [] => true | _ => false end) top_methods.
Definition no_relock : bool :=
  forallb (fun me => forallb (fun t => negb (has_prefix "lock:" (te_ev t)) || no_lock t)
                             (trace_of (fst me) (snd me))) top_methods.

Definition locks_balanced_statement : Prop :=
  forall m evs, In (m, evs) lock_table -> is_top m = true ->
    snd (trace_fuel 8 m evs) = [] /\
    forall t, In t (trace_of m evs) -> has_prefix "lock:" (te_ev t) = true -> te_held t = [].

(** the inlining fuel is enough: more fuel finds no new kind of entry *)
Definition entry_eqb (a b : tentry) : bool :=
  list_eqb String.eqb (te_held a) (te_held b) && String.eqb (te_in a) (te_in b) && String.eqb (te_ev a) (te_ev b).
Definition fuel_enough : bool :=
  forallb (fun me => forallb (fun t => existsb (entry_eqb t) (trace_of (fst me) (snd me)))
                             (fst (trace_fuel 16 (fst me) (snd me)))) top_methods.

(** where the add/rem hooks run.  A hook uses the state (cron's rem hook asks
    it for the record), and the state's lock is not re-entrant: a hook is
    called either with no lock held, or with the WRITE lock held and the
    "hook" privilege granted (with it slock/sunlock do nothing).  IndexedState
    calls its hooks inside the write lock; LinearState calls the add hook of
    Add and the rem hook of Rem before it takes the lock, and - since the
    repair of D28 - the hooks of Load, Clear/Delete and of the records that a
    cascade, a purge or an overwrite removes inside the locked section.  The
    walk keeps the privilege flag: [call:grantPrivilege] sets it,
    [call:revokePrivilege] (also when deferred: entered where it runs)
    clears it. *)
Definition is_hook_call (e : string) : bool := mem_str e ["call:addHook"; "call:remHook"].
Fixpoint hooks_ctx_ok (priv : bool) (tr : list tentry) : bool :=
  match tr with
  | [] => true
  | t :: r =>
      if String.eqb (te_ev t) "call:grantPrivilege" then hooks_ctx_ok true r
      else if String.eqb (te_ev t) "call:revokePrivilege" then hooks_ctx_ok false r
      else (negb (is_hook_call (te_ev t)) || no_lock t || (mem_str "w" (te_held t) && priv)) && hooks_ctx_ok priv r
  end.
Definition hook_lock_context_ok : bool :=
  forallb (fun me => hooks_ctx_ok false (trace_of (fst me) (snd me))) top_methods.

(** the privilege flag at each entry of a trace, as the walk computes it *)
Fixpoint priv_at (priv : bool) (tr : list tentry) : list (bool * tentry) :=
  match tr with
  | [] => []
  | t :: r =>
      if String.eqb (te_ev t) "call:grantPrivilege" then (priv, t) :: priv_at true r
      else if String.eqb (te_ev t) "call:revokePrivilege" then (priv, t) :: priv_at false r
      else (priv, t) :: priv_at priv r
  end.

Definition hook_lock_context_statement : Prop :=
  forall m evs, In (m, evs) lock_table -> is_top m = true ->
    forall p t, In (p, t) (priv_at false (trace_of m evs)) -> is_hook_call (te_ev t) = true ->
      te_held t = [] \/ (In "w" (te_held t) /\ p = true).

(** and the hooks ARE called in both contexts (the statement is not vacuous) *)
Definition hook_contexts_both_occur_statement : Prop :=
  (exists m evs p t, In (m, evs) lock_table /\ is_top m = true /\ In (p, t) (priv_at false (trace_of m evs)) /\
                     is_hook_call (te_ev t) = true /\ te_held t = []) /\
  (exists m evs p t, In (m, evs) lock_table /\ is_top m = true /\ In (p, t) (priv_at false (trace_of m evs)) /\
                     is_hook_call (te_ev t) = true /\ In "w" (te_held t) /\ p = true).

(** ** Writers take the write lock *)

Definition writes_something (m : string) (evs : list string) : bool :=
  existsb (fun t => is_mutation (te_ev t) || is_store_write (te_ev t)) (trace_of m evs).
Definition takes_write_lock (m : string) (evs : list string) : bool :=
  existsb (fun t => String.eqb (te_ev t) "lock:w") (trace_of m evs).

(** (Before the repair of D52: the searches and rule look-ups removed expired
    facts while holding only the READ lock, and Get with no lock at all; these
    methods were listed as exceptions.  Now every method that writes takes the
    write lock - the readers reach their only writes through [purge].) *)
Definition write_methods_ok : bool :=
  forallb (fun me => negb (writes_something (fst me) (snd me)) || takes_write_lock (fst me) (snd me)) top_methods.

Definition write_methods_take_write_lock_statement : Prop :=
  forall m evs, In (m, evs) lock_table -> is_top m = true ->
    writes_something m evs = true -> takes_write_lock m evs = true.

(** the finer, per-event form: every mutation of the fact maps and indexes
    happens with the WRITE lock held - no exception *)
Definition mutations_ok : bool :=
  forallb (fun me =>
             forallb (fun t => negb (is_mutation (te_ev t)) || mem_str "w" (te_held t))
                     (trace_of (fst me) (snd me)))
          top_methods.

Definition mutations_hold_write_lock_statement : Prop :=
  forall m evs, In (m, evs) lock_table -> is_top m = true ->
    forall t, In t (trace_of m evs) -> is_mutation (te_ev t) = true ->
      In "w" (te_held t).

(** where the removal of the expired items went: [expire] calls nothing and
    touches nothing any more, and each public reader (and Rem, whose cascade
    searches) reaches [purge], which takes the WRITE lock while nothing is
    held (i.e. after the reader has released its own lock: a deferred call
    runs after the deferred unlock registered after it) *)
Definition purging_methods : list string :=
  ["IndexedState.Get"; "IndexedState.Search"; "IndexedState.FindRules"; "IndexedState.FindCachedRules";
   "IndexedState.Rem"; "LinearState.Get"; "LinearState.Search"; "LinearState.FindRules";
   "LinearState.FindCachedRules"; "LinearState.Rem"].

Definition is_purge_lock (t : tentry) : bool :=
  String.eqb (te_in t) "purge" && String.eqb (te_ev t) "lock:w" && no_lock t.

Definition readers_purge_ok : bool :=
  forallb (fun m => match tlookup m lock_table with
                    | Some evs => existsb is_purge_lock (trace_of m evs)
                    | None => false
                    end) purging_methods &&
  forallb (fun m => match tlookup m lock_table with Some [] => true | _ => false end)
          ["IndexedState.expire"; "LinearState.expire"].

Definition readers_purge_under_write_lock_statement : Prop :=
  (forall m, In m purging_methods ->
     exists evs t, tlookup m lock_table = Some evs /\ In t (trace_of m evs) /\
                   te_in t = "purge" /\ te_ev t = "lock:w" /\ te_held t = []) /\
  tlookup "IndexedState.expire" lock_table = Some [] /\ tlookup "LinearState.expire" lock_table = Some [].

(** ** Every storage write holds the write lock

    (Before the repair of D44 this was false: IndexedState.Add called
    Store.Add after releasing the lock, LinearState.Add / rem / Clear /
    Delete called the store before taking it.) *)
Definition store_writes_ok : bool :=
  forallb (fun me =>
             forallb (fun t => negb (is_store_write (te_ev t)) || mem_str "w" (te_held t))
                     (trace_of (fst me) (snd me)))
          top_methods.

Definition store_writes_hold_write_lock_statement : Prop :=
  forall m evs, In (m, evs) lock_table -> is_top m = true ->
    forall t, In t (trace_of m evs) -> is_store_write (te_ev t) = true ->
      In "w" (te_held t).

(** ** The two phases of Add *)

Inductive phase := PMem | PSto.

Definition phase_eqb (a b : phase * bool) : bool :=
  match fst a, fst b with PMem, PMem | PSto, PSto => Bool.eqb (snd a) (snd b) | _, _ => false end.

Fixpoint squeeze (l : list (phase * bool)) : list (phase * bool) :=
  match l with
  | [] => []
  | x :: r => match squeeze r with
              | y :: r' => if phase_eqb x y then y :: r' else x :: y :: r'
              | [] => [x]
              end
  end.

(** the memory updates and the storage call of a method, in source order,
    each with "the write lock is held"; consecutive equal entries merged *)
Definition phases (m : string) : list (phase * bool) :=
  match tlookup m lock_table with
  | None => []
  | Some evs =>
      squeeze (flat_map (fun t => if is_mutation (te_ev t) then [(PMem, mem_str "w" (te_held t))]
                                  else if String.eqb (te_ev t) "store:Add" then [(PSto, mem_str "w" (te_held t))]
                                  else [])
                        (trace_of m evs))
  end.

(** (Before the repair of D44: indexed = [(PMem, true); (PSto, false)],
    linear = [(PSto, false); (PMem, true)].) *)
Definition add_phases_match_source_statement : Prop :=
  phases "IndexedState.Add" = [(PMem, true); (PSto, true)] /\
  phases "LinearState.Add" = [(PSto, true); (PMem, true)].

(** ** Writers as critical sections

    The finer reading of the same trace: the acquisitions and releases of the
    WRITE lock (explicit or deferred), the memory updates and the storage
    writes of a method, in the order in which they happen, consecutive equal
    entries merged. *)
Inductive shape := SAcq | SRel | SMem | SSto.

Definition shape_eqb (a b : shape) : bool :=
  match a, b with SAcq, SAcq | SRel, SRel | SMem, SMem | SSto, SSto => true | _, _ => false end.

Fixpoint squeeze_by {A} (eqb : A -> A -> bool) (l : list A) : list A :=
  match l with
  | [] => []
  | x :: r => match squeeze_by eqb r with
              | y :: r' => if eqb x y then y :: r' else x :: y :: r'
              | [] => [x]
              end
  end.

Definition shape_of (m : string) : list shape :=
  match tlookup m lock_table with
  | None => []
  | Some evs =>
      squeeze_by shape_eqb
        (flat_map (fun t => if String.eqb (te_ev t) "lock:w" then [SAcq]
                            else if String.eqb (te_ev t) "unlock:w" then [SRel]
                            else if is_mutation (te_ev t) then [SMem]
                            else if is_store_write (te_ev t) then [SSto]
                            else [])
                  (trace_of m evs))
  end.

(** the memory update and the storage write of an Add are ONE critical
    section (no release of the lock between them), in both state kinds; so
    are the storage write and the memory update of Clear and Delete *)
Definition add_is_one_critical_section_statement : Prop :=
  shape_of "IndexedState.Add" = [SAcq; SMem; SSto; SRel] /\
  shape_of "LinearState.Add" = [SAcq; SSto; SMem; SRel].

Definition clear_is_one_critical_section_statement : Prop :=
  forall m, In m ["IndexedState.Clear"; "IndexedState.Delete"; "LinearState.Clear"; "LinearState.Delete"] ->
    shape_of m = [SAcq; SSto; SMem; SRel].

(** [pairs_rel a b l]: [l] starts with one or more pairs [a; b] followed by
    [SRel]; returns what follows *)
Fixpoint pairs_rel (a b : shape) (l : list shape) : option (list shape) :=
  match l with
  | x :: y :: r =>
      if shape_eqb x a && shape_eqb y b then
        match r with
        | SRel :: r' => Some r'
        | _ => pairs_rel a b r
        end
      else None
  | _ => None
  end.

(** [l] is one or more critical sections [SAcq (a b)+ SRel] *)
Fixpoint paired_sections (fuel : nat) (a b : shape) (l : list shape) : bool :=
  match fuel with
  | O => false
  | S f =>
      match l with
      | SAcq :: r =>
          match pairs_rel a b r with
          | Some [] => true
          | Some r' => paired_sections f a b r'
          | None => false
          end
      | _ => false
      end
  end.

(** Rem (the removal of the id and of its dependents, then the purge of the
    expired items its searches met) is a sequence of critical sections, each
    made of pairs "memory removal, storage removal" (indexed) / "storage
    removal, memory removal" (linear) *)
Definition rem_is_paired_sections_statement : Prop :=
  paired_sections 64 SMem SSto (shape_of "IndexedState.Rem") = true /\
  paired_sections 64 SSto SMem (shape_of "LinearState.Rem") = true.

(** ** Two concurrent writers *)

Inductive astep :=
| Mem (id v : nat) | Sto (id v : nat)       (* write [v] under [id] in memory / in storage *)
| MemDel (id : nat) | StoDel (id : nat)     (* remove [id] from memory / from storage *)
| MemClr | StoClr.                          (* remove everything *)

Record mstate := mkM { m_mem : nat -> option nat; m_sto : nat -> option nat }.

Definition upd (f : nat -> option nat) (k v : nat) : nat -> option nat :=
  fun x => if Nat.eqb x k then Some v else f x.
Definition del (f : nat -> option nat) (k : nat) : nat -> option nat :=
  fun x => if Nat.eqb x k then None else f x.

Definition astep_do (st : mstate) (a : astep) : mstate :=
  match a with
  | Mem id v => mkM (upd (m_mem st) id v) (m_sto st)
  | Sto id v => mkM (m_mem st) (upd (m_sto st) id v)
  | MemDel id => mkM (del (m_mem st) id) (m_sto st)
  | StoDel id => mkM (m_mem st) (del (m_sto st) id)
  | MemClr => mkM (fun _ => None) (m_sto st)
  | StoClr => mkM (m_mem st) (fun _ => None)
  end.

Definition arun (st : mstate) (l : list astep) : mstate := fold_left astep_do l st.

(** memory and storage agree *)
Definition agree (st : mstate) : Prop := forall x, m_mem st x = m_sto st x.

(** the two phases of one Add of state type [ty], read off the lock table *)
Definition add_prog (ty : string) (id v : nat) : list astep :=
  map (fun p => match fst p with PMem => Mem id v | PSto => Sto id v end)
      (phases (String.append ty ".Add")).

(** all merges of two step lists (no lock) *)
Fixpoint interleavings {A} (l1 : list A) : list A -> list (list A) :=
  match l1 with
  | [] => fun l2 => [l2]
  | x :: r1 =>
      fix inner (l2 : list A) : list (list A) :=
        match l2 with
        | [] => [x :: r1]
        | y :: r2 => (map (cons x) (interleavings r1 (y :: r2)) ++ map (cons y) (inner r2))%list
        end
  end.

Definition state_types : list string := ["IndexedState"; "LinearState"].

Definition m0 : mstate := mkM (fun _ => None) (fun _ => None).

(** *** The lock

    A writer is a list of steps: it acquires the state's write lock, releases
    it, or acts on memory or storage.  [lsched h p1 p2 il]: the two writers
    [p1] and [p2] can run to completion, from the moment where the lock is
    held by [h] ([None]: free, [Some true]: by the first, [Some false]: by
    the second), in a schedule whose actions are, in order, [il].  The lock is
    exclusive: [Acq] needs the lock free, [Rel] needs it held by the writer
    that releases it.  An action needs nothing (an action outside every
    critical section is allowed: that is what the code did before the repair
    of D44, see [prerepair_adds_diverge_example]). *)
Inductive lstep := Acq | Rel | Act (a : astep).

Inductive lsched : option bool -> list lstep -> list lstep -> list astep -> Prop :=
| LS_done : lsched None [] [] []
| LS_acq1 p1 p2 il : lsched (Some true) p1 p2 il -> lsched None (Acq :: p1) p2 il
| LS_rel1 p1 p2 il : lsched None p1 p2 il -> lsched (Some true) (Rel :: p1) p2 il
| LS_act1 h a p1 p2 il : lsched h p1 p2 il -> lsched h (Act a :: p1) p2 (a :: il)
| LS_acq2 p1 p2 il : lsched (Some false) p1 p2 il -> lsched None p1 (Acq :: p2) il
| LS_rel2 p1 p2 il : lsched None p1 p2 il -> lsched (Some false) p1 (Rel :: p2) il
| LS_act2 h a p1 p2 il : lsched h p1 p2 il -> lsched h p1 (Act a :: p2) (a :: il).

(** [wl held p st]: the writer [p], which holds the lock iff [held], in the
    state [st]: every action of [p] happens inside a critical section (between
    an [Acq] and the next [Rel] of [p]), [p] ends with the lock released, and
    every critical section of [p], entered in ANY state where memory and
    storage agree, is left in such a state. *)
Fixpoint wl (held : bool) (p : list lstep) (st : mstate) : Prop :=
  match p with
  | [] => held = false
  | Acq :: r => held = false /\ forall st', agree st' -> wl true r st'
  | Rel :: r => held = true /\ agree st /\ forall st', agree st' -> wl false r st'
  | Act a :: r => held = true /\ wl true r (astep_do st a)
  end.

Definition well_locked (p : list lstep) : Prop := forall st, wl false p st.

(** ANY two well-locked writers, ANY lock-respecting schedule: memory and
    storage agree at the end *)
Definition locked_writers_never_diverge_statement : Prop :=
  forall p1 p2 st il,
    well_locked p1 -> well_locked p2 -> agree st ->
    lsched None p1 p2 il -> agree (arun st il).

(** the writers of the code, read off the lock table *)
Definition inst (mem sto : astep) (s : shape) : lstep :=
  match s with SAcq => Acq | SRel => Rel | SMem => Act mem | SSto => Act sto end.

(** Add of [v] under [id] *)
Definition add_lprog (ty : string) (id v : nat) : list lstep :=
  map (inst (Mem id v) (Sto id v)) (shape_of (String.append ty ".Add")).

(** the removal of one id: the first pair of Rem's first critical section *)
Definition rem_pair (ty : string) (id : nat) : list lstep :=
  map (inst (MemDel id) (StoDel id)) (firstn 2 (tl (shape_of (String.append ty ".Rem")))).

(** one critical section that removes [ids] one after the other *)
Definition rem_section (ty : string) (ids : list nat) : list lstep :=
  (Acq :: flat_map (rem_pair ty) ids ++ [Rel])%list.

(** Rem: the id with its dependents ([ids]), then, if its searches met expired
    items ([pids], with their dependents), their purge in a second section *)
Definition rem_lprog (ty : string) (ids pids : list nat) : list lstep :=
  (rem_section ty ids ++ match pids with [] => [] | _ => rem_section ty pids end)%list.

(** Clear *)
Definition clear_lprog (ty : string) : list lstep :=
  map (inst MemClr StoClr) (shape_of (String.append ty ".Clear")).

Definition code_writers_well_locked_statement : Prop :=
  forall ty, In ty state_types ->
    (forall id v, well_locked (add_lprog ty id v)) /\
    (forall ids pids, well_locked (rem_lprog ty ids pids)) /\
    well_locked (clear_lprog ty).

(** (D44, repaired) two Adds to ONE id of one state, and an Add and a Rem that
    removes that id (first, or among its dependents, or in its purge): ALL
    schedules that respect the lock keep memory and storage in agreement, and
    after two Adds both hold the value of ONE of the two clients. *)
Definition same_id_adds_never_diverge_statement : Prop :=
  forall ty, In ty state_types ->
    (forall id v1 v2 st il,
       agree st -> lsched None (add_lprog ty id v1) (add_lprog ty id v2) il ->
       agree (arun st il) /\
       (m_mem (arun st il) id = Some v1 \/ m_mem (arun st il) id = Some v2)) /\
    (forall id v ids pids st il,
       agree st -> lsched None (add_lprog ty id v) (rem_lprog ty ids pids) il ->
       agree (arun st il)) /\
    (forall id v st il,
       agree st -> lsched None (add_lprog ty id v) (clear_lprog ty) il ->
       agree (arun st il)).

(** the lock makes an Add ONE step with respect to another Add: the two phases
    of one Add are never separated by a phase of the other - every schedule is
    one of the two serial orders *)
Definition same_id_adds_are_serial_statement : Prop :=
  forall ty id1 v1 id2 v2 il, In ty state_types ->
    lsched None (add_lprog ty id1 v1) (add_lprog ty id2 v2) il ->
    il = (add_prog ty id1 v1 ++ add_prog ty id2 v2)%list \/
    il = (add_prog ty id2 v2 ++ add_prog ty id1 v1)%list.

(** the lock model is not vacuous: with the writers of the code BEFORE the
    repair of D44 (indexed: storage write after the release; linear: storage
    write before the acquisition) it has a schedule that leaves one client's
    value in memory and the other client's value in storage *)
Definition prerepair_add (indexed : bool) (id v : nat) : list lstep :=
  if indexed then [Acq; Act (Mem id v); Rel; Act (Sto id v)]
  else [Act (Sto id v); Acq; Act (Mem id v); Rel].

Definition prerepair_adds_diverge_statement : Prop :=
  forall indexed, exists il,
    lsched None (prerepair_add indexed 1 10) (prerepair_add indexed 1 20) il /\
    m_mem (arun m0 il) 1%nat <> m_sto (arun m0 il) 1%nat.

Definition sequential_adds_agree_statement : Prop :=
  forall ty1 ty2 id1 v1 id2 v2 st,
    In ty1 state_types -> In ty2 state_types -> agree st ->
    agree (arun st (add_prog ty1 id1 v1 ++ add_prog ty2 id2 v2)).

(** (holds for ALL merges of the phases, lock or no lock) *)
Definition different_ids_never_diverge_statement : Prop :=
  forall ty1 ty2 id1 v1 id2 v2 st il,
    In ty1 state_types -> In ty2 state_types -> id1 <> id2 -> agree st ->
    In il (interleavings (add_prog ty1 id1 v1) (add_prog ty2 id2 v2)) ->
    agree (arun st il).

(** * The verdict of [check_conc] in terms of the specification *)

Definition conc_clients (c : json) : list (list json) := map jL (jfL "clients" c).
Definition conc_finals (c : json) : system -> bool := finals_ok (jfL "final" c) (jfL "final_store" c).

(** accepted: the process survived, the set-up replays, and either a
    linearization exists or the search ran out of budget (reported ambiguous) *)
Definition check_conc_accept_statement : Prop :=
  forall c, jfB "ok" (check_conc c) = true ->
    jfS "crashed" c = "" /\
    exists sy1, replay_all (init_system (jfL "locs" c)) (jfL "setup" c) = Some sy1 /\
      ((exists order, linearization sy1 (conc_clients c) order (conc_finals c)) \/
       (snd (lin (S (total_ops (conc_clients c))) (conc_finals c) sy1 (conc_clients c) (Z.to_nat 20000)) = None /\
        jfZ "ambiguous" (check_conc c) = 1)).

(** rejected although the process survived and the set-up replays: there is
    no linearization *)
Definition check_conc_reject_statement : Prop :=
  forall c sy1, jfB "ok" (check_conc c) = false ->
    jfS "crashed" c = "" ->
    replay_all (init_system (jfL "locs" c)) (jfL "setup" c) = Some sy1 ->
    ~ exists order, linearization sy1 (conc_clients c) order (conc_finals c).
