(** C06 support: per-step preservation of the state's static fields, of
    well-formedness (both kinds), of the mirror invariant (storage = memory
    when no storage call fails) and of [prepared]; where facts come from (B3). *)
From Coq Require Import Lia.
From Verif Require Import Json Outcome Match PatIndex State StateSpec AssocLemmas StateProofs
  DurableFrame DurableInv DurablePrepare DurableSpec.

(** * Static fields *)

Definition Pres (s s' : state) : Prop :=
  st_kind s' = st_kind s /\ st_hooks s' = st_hooks s /\ st_fail s' = st_fail s /\
  (st_calls s <= st_calls s')%nat.

Lemma Sub_Pres s s' : Sub s s' -> Pres s s'.
Proof. intros (H1 & H2 & H3 & H4 & _). repeat split; assumption. Qed.

Lemma st_add_Pres s g x now fr aux : Pres s (fst (st_add s g x now fr aux)).
Proof.
  destruct (prepare_fact g x now fr aux) as [[id fact]|e|w|] eqn:Hp.
  - destruct (st_add_shape s g x now fr aux id fact Hp) as (c & (F1 & F2 & F3 & F4 & _) & _).
    repeat split; try assumption. rewrite F4. destruct (ac_called c); lia.
  - unfold st_add. rewrite Hp. repeat split; auto.
  - unfold st_add. rewrite Hp. repeat split; auto.
  - unfold st_add. rewrite Hp. repeat split; auto.
Qed.

Lemma st_clear_Pres s : Pres s (fst (st_clear s)).
Proof.
  destruct (st_clear_shape s) as (F1 & F2 & F3 & F4 & _). repeat split; try assumption. lia.
Qed.

Lemma sstep_Pres s o : Pres s (sstep s o).
Proof.
  destruct o as [op now]. unfold sstep. destruct op.
  - apply st_add_Pres.
  - apply Sub_Pres, st_Rem_Sub.
  - apply Sub_Pres, st_get_Sub.
  - apply Sub_Pres, st_search_Sub.
  - apply Sub_Pres, st_find_rules_Sub.
  - apply st_clear_Pres.
Qed.

Lemma fold_sstep_Pres ops : forall s, Pres s (fold_left sstep ops s).
Proof.
  induction ops as [|o r IH]; intros s; cbn [fold_left].
  - repeat split; auto.
  - destruct (sstep_Pres s o) as (A1 & A2 & A3 & A4).
    destruct (IH (sstep s o)) as (B1 & B2 & B3 & B4).
    repeat split; try congruence. lia.
Qed.

Lemma reachable_fields k hooks fail ops :
  let s := reachable k hooks fail ops in
  st_kind s = k /\ st_hooks s = hooks /\ st_fail s = fail.
Proof.
  unfold reachable. destruct (fold_sstep_Pres ops (set_fail (empty_state k hooks) fail)) as (H1 & H2 & H3 & _).
  cbv zeta. rewrite H1, H2, H3. repeat split.
Qed.

(** * Well-formedness, both kinds *)

Lemma st_add_wf s g x now fr aux : st_wf s -> st_wf (fst (st_add s g x now fr aux)).
Proof.
  intros (W1 & W2 & W3).
  destruct (prepare_fact g x now fr aux) as [[id fact]|e|w|] eqn:Hp.
  2-4: unfold st_add; rewrite Hp; repeat split; assumption.
  destruct (st_add_shape s g x now fr aux id fact Hp) as (c & (_ & _ & _ & _ & F5 & F6 & F7) & _).
  unfold st_wf. rewrite F5, F6, F7. repeat split.
  - destruct (ac_mem c); auto using sorted_ainsert.
  - destruct (st_kind s); [|assumption]. destruct (ac_mem c); auto using sorted_fold_ti_add.
  - destruct (ac_sto c); auto using sorted_ainsert.
Qed.

Lemma st_clear_wf s : st_wf s -> st_wf (fst (st_clear s)).
Proof.
  intros (W1 & W2 & W3). destruct (st_clear_shape s) as (_ & _ & _ & _ & H).
  unfold st_wf. destruct (will_fail s).
  - destruct H as (_ & -> & H). destruct (st_kind s); destruct H as (-> & ->); repeat split; auto.
  - destruct H as (_ & -> & -> & H). destruct (st_kind s); rewrite H; repeat split; auto.
Qed.

Lemma sstep_wf s o : st_wf s -> st_wf (sstep s o).
Proof.
  destruct o as [op now]. unfold sstep. destruct op.
  - apply st_add_wf.
  - apply st_Rem_wf.
  - apply st_get_wf.
  - apply st_search_wf.
  - apply st_find_rules_wf.
  - apply st_clear_wf.
Qed.

Lemma fold_sstep_wf ops : forall s, st_wf s -> st_wf (fold_left sstep ops s).
Proof.
  induction ops as [|o r IH]; intros s H; cbn [fold_left]; [exact H|].
  apply IH. apply sstep_wf. exact H.
Qed.

Lemma reachable_wf k hooks fail ops : st_wf (reachable k hooks fail ops).
Proof. apply fold_sstep_wf. repeat split; reflexivity. Qed.

(** * The mirror invariant *)

Definition M (s : state) : Prop := st_fail s = None /\ st_store s = st_facts s.

Lemma M_pending s (a : list string) : M s -> M (set_pending s a).
Proof. unfold M. cbn. auto. Qed.

Lemma M_head s id : M s -> M (fst (rem_head s id)).
Proof.
  intros (Hf & Hm). unfold rem_head. destruct (st_kind s) eqn:Hk.
  - destruct (alookup id (st_facts s)) as [fact|] eqn:El; [|split; assumption].
    destruct (idx_drop_fields s id fact) as (F1 & F2 & F3 & F4 & F5 & F6 & F7 & F8).
    pose proof (facts_idx_drop s id fact) as F0.
    unfold store_call. rewrite F5, Hf. cbn [fst]. unfold M.
    cbn [st_fail st_store st_facts set_store]. rewrite ?F0, ?F2, ?F5, ?Hf, Hm. split; auto.
  - unfold store_call. rewrite Hf. cbn [fst]. unfold M.
    cbn [st_fail st_store st_facts set_store set_facts]. rewrite Hm. split; auto.
Qed.

Lemma M_will_fail s : M s -> will_fail s = false.
Proof. intros (Hf & _). unfold will_fail. rewrite Hf. reflexivity. Qed.

Lemma st_add_M s g x now fr aux :
  M s -> M (fst (st_add s g x now fr aux)).
Proof.
  intros HM. pose proof (M_will_fail s HM) as Hw. destruct HM as (Hf & Hm).
  destruct (prepare_fact g x now fr aux) as [[id fact]|e|w|] eqn:Hp.
  2-4: unfold st_add; rewrite Hp; split; assumption.
  destruct (st_add_shape s g x now fr aux id fact Hp) as (c & (_ & _ & F3 & _ & F5 & F6 & _) & Hc).
  unfold M. rewrite F3, F5, F6, Hm. split; [exact Hf|].
  destruct c; cbn [ac_mem ac_sto]; try reflexivity; cbn [ac_cond] in Hc.
  destruct Hc as (_ & Hc & _). congruence.
Qed.

Lemma st_clear_M s : M s -> M (fst (st_clear s)).
Proof.
  intros HM. pose proof (M_will_fail s HM) as Hw. destruct HM as (Hf & Hm).
  destruct (st_clear_shape s) as (_ & _ & F3 & _ & H). rewrite Hw in H.
  destruct H as (_ & H1 & H2 & _). unfold M. rewrite F3, H1, H2. auto.
Qed.

Lemma sstep_M s o : M s -> M (sstep s o).
Proof.
  destruct o as [op now]. unfold sstep. destruct op.
  - apply st_add_M.
  - apply (st_Rem_inv M M_pending M_head).
  - apply (st_get_inv M M_pending M_head).
  - apply (st_search_inv M M_pending M_head).
  - apply (st_find_rules_inv M M_pending M_head).
  - apply st_clear_M.
Qed.

Lemma fold_sstep_M ops : forall s, M s -> M (fold_left sstep ops s).
Proof.
  induction ops as [|o r IH]; intros s HM; cbn [fold_left]; [exact HM|].
  apply IH. apply sstep_M. exact HM.
Qed.

(** * Where facts come from (B3) *)

Lemma st_add_facts_origin s g x now fr aux j f :
  alookup j (st_facts (fst (st_add s g x now fr aux))) = Some f ->
  alookup j (st_facts s) = Some f \/ prepare_fact g x now fr aux = Ok (j, f).
Proof.
  destruct (prepare_fact g x now fr aux) as [[id fact]|e|w|] eqn:Hp.
  2-4: unfold st_add; rewrite Hp; cbn [fst]; auto.
  destruct (st_add_shape s g x now fr aux id fact Hp) as (c & (_ & _ & _ & _ & F5 & _) & _).
  rewrite F5. destruct (ac_mem c); [|auto].
  rewrite alookup_ainsert. destruct (String.eqb_spec j id) as [->|Hne]; [|auto].
  intros H. injection H as <-. right; reflexivity.
Qed.

Lemma st_clear_facts_origin s j f :
  alookup j (st_facts (fst (st_clear s))) = Some f -> alookup j (st_facts s) = Some f.
Proof.
  destruct (st_clear_shape s) as (_ & _ & _ & _ & H). destruct (will_fail s).
  - destruct H as (_ & _ & H). destruct (st_kind s); destruct H as (-> & _); [auto|discriminate].
  - destruct H as (_ & _ & -> & _). discriminate.
Qed.

Lemma sstep_facts_origin s o j f :
  alookup j (st_facts (sstep s o)) = Some f ->
  alookup j (st_facts s) = Some f \/
  exists g x fr aux now, o = (SAdd g x fr aux, now) /\ prepare_fact g x now fr aux = Ok (j, f).
Proof.
  destruct o as [op now]. unfold sstep. destruct op as [g x fr aux|id|id|p|ev|].
  - intros H. apply st_add_facts_origin in H. destruct H as [H|H]; [left; exact H|].
    right. exists g, x, fr, aux, now. split; [reflexivity|exact H].
  - intros H. left. revert H. apply (st_Rem_Sub s id now).
  - intros H. left. revert H. apply (st_get_Sub s id now).
  - intros H. left. revert H. apply (st_search_Sub s p now).
  - intros H. left. revert H. apply (st_find_rules_Sub s ev now).
  - intros H. left. apply st_clear_facts_origin. exact H.
Qed.

Lemma writes_id_false o j f :
  writes_id j o = false ->
  ~ (exists g x fr aux now, o = (SAdd g x fr aux, now) /\ prepare_fact g x now fr aux = Ok (j, f)).
Proof.
  intros Hw (g & x & fr & aux & now & -> & Hp). cbn [writes_id] in Hw. rewrite Hp in Hw.
  rewrite String.eqb_refl in Hw. discriminate.
Qed.

Lemma fold_sstep_facts_origin ops j f : forall s,
  forallb (fun o => negb (writes_id j o)) ops = true ->
  alookup j (st_facts (fold_left sstep ops s)) = Some f -> alookup j (st_facts s) = Some f.
Proof.
  induction ops as [|o r IH]; intros s Hw H; cbn [fold_left] in *; [exact H|].
  cbn [forallb] in Hw. apply andb_true_iff in Hw. destruct Hw as [Hw1 Hw2].
  apply negb_true_iff in Hw1.
  apply IH in H; [|exact Hw2].
  apply sstep_facts_origin in H. destruct H as [H|H]; [exact H|].
  exfalso. eapply writes_id_false; eassumption.
Qed.

(** * [prepared] is an invariant *)

Lemma prepared_sstep s o : prepared s -> prepared (sstep s o).
Proof.
  intros HP id fact Hl now' Hne.
  apply sstep_facts_origin in Hl. destruct Hl as [Hl|(g & x & fr & aux & now & _ & Hp)].
  - eapply HP; eassumption.
  - eapply prepare_idempotent; eassumption.
Qed.

Lemma fold_sstep_prepared ops : forall s, prepared s -> prepared (fold_left sstep ops s).
Proof.
  induction ops as [|o r IH]; intros s H; cbn [fold_left]; [exact H|].
  apply IH. apply prepared_sstep. exact H.
Qed.

Lemma reachable_prepared k hooks fail ops : prepared (reachable k hooks fail ops).
Proof. apply fold_sstep_prepared. intros id fact Hl. discriminate. Qed.
