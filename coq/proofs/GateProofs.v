(** Analysis of the regenerated gate table (gen/GateTable.v, produced from
    /repo's Go source on every run) and its tie to the model's gate lists. *)
From Verif Require Import Json Outcome State Location GateTable.
From Verif Require StateProofs.
Import StateProofs(expire_false, with_purge_nil).

Fixpoint tlookup (k : string) (t : list (string * list string)) : option (list string) :=
  match t with
  | [] => None
  | (k', v) :: r => if String.eqb k k' then Some v else tlookup k r
  end.

Definition drop5 (s : string) : string := substring 5 (String.length s - 5) s.

(** Inline calls to other Location methods (gates themselves are atomic). *)
Fixpoint flatten (fuel : nat) (evs : list string) : list string :=
  match fuel with
  | O => []
  | S f =>
      flat_map (fun e =>
                  if has_prefix "call:" e then
                    match tlookup (drop5 e) location_methods with
                    | Some evs' => flatten f evs'
                    | None => []
                    end
                  else [e]) evs
  end.

Definition events_of (m : string) : list string :=
  match tlookup m location_methods with Some evs => flatten 8 evs | None => [] end.

Definition write_accesses : list string :=
  ["state:Add"; "state:Rem"; "state:Clear"; "state:Delete"; "state:SetProp"; "state:RemProp"].
Definition reveal_accesses : list string :=
  ["state:Get"; "state:Search"; "state:FindCachedRules"].

(** Every occurrence of an access in [accs] is preceded by every gate of [gates]. *)
Fixpoint guarded_aux (seen : list string) (evs : list string) (accs gates : list string) : bool :=
  match evs with
  | [] => true
  | e :: r =>
      (if mem_str e accs then forallb (fun g => mem_str g seen) gates else true) &&
      guarded_aux (e :: seen) r accs gates
  end.
Definition guarded (m : string) (accs gates : list string) : bool :=
  guarded_aux [] (events_of m) accs gates.

Fixpoint has_dot (s : string) : bool :=
  match s with
  | EmptyString => false
  | String c r => orb (Z.eqb (Z.of_nat (nat_of_ascii c)) 46%Z) (has_dot r)
  end.

Definition is_exported (m : string) : bool :=
  match m with
  | String c _ =>
      let n := Z.of_nat (nat_of_ascii c) in
      andb (andb (Z.leb 65%Z n) (Z.leb n 90%Z)) (negb (has_dot m))
  | _ => false
  end.

Definition exported_methods : list string :=
  filter is_exported (map fst location_methods).

(** Exported helpers that are deliberately ungated (raw property access, not
    reachable through sys.System or the JavaScript environment). *)
Definition ungated_helpers : list string :=
  ["SetProp"; "RemProp"; "GetProp"; "GetPropString"; "Have"; "RuleEnabled"; "Enabled"; "CheckRead"; "CheckWrite"].

(** GetParents reveals the "!.parents" property fact: it is behind the read gate too
    (repair of D56 in /repo). *)
Lemma get_parents_guarded :
  guarded "GetParents" ["state:GetProp"] ["gate:Enabled"; "gate:CheckRead"] = true.
Proof. vm_compute. reflexivity. Qed.

Definition writers_ok : bool :=
  forallb (fun m => mem_str m ungated_helpers ||
                    guarded m write_accesses ["gate:Enabled"; "gate:CheckWrite"]) exported_methods.

(** EnableRule may look the rule up (Have) behind the write gate; that
    reveals at most the existence of the id to a holder of the write key. *)
Definition readers_ok : bool :=
  forallb (fun m => mem_str m ungated_helpers || String.eqb m "EnableRule" ||
                    guarded m reveal_accesses ["gate:Enabled"; "gate:CheckRead"]) exported_methods.

(** Adds of facts and rules are behind the capacity gate. *)
Definition capacity_ok : bool :=
  guarded "AddFact" ["state:Add"] ["gate:AtCapacity"] &&
  guarded "AddRule" ["state:Add"] ["gate:AtCapacity"].

(** JavaScript location functions call the gated Location methods with the
    caller's own context (so keys are those of the request that fired the rule). *)
Definition js_ok : bool :=
  forallb (fun kv => forallb (fun c => has_suffix "@ctx" c) (snd kv) &&
                     negb (match snd kv with [] => true | _ => false end))
          js_location_functions.

(** The model's gate sequences are the source's: gates before the first
    state access, in order. *)
Fixpoint gate_prefix (evs : list string) : list string :=
  match evs with
  | [] => []
  | e :: r => if has_prefix "gate:" e then e :: gate_prefix r
              else if has_prefix "state:" e then [] else gate_prefix r
  end.

Definition gate_name (g : gate) : string :=
  match g with
  | GEnabled => "gate:Enabled"
  | GWrite => "gate:CheckWrite"
  | GRead => "gate:CheckRead"
  | GCapacity => "gate:AtCapacity"
  end.

Definition modelled_methods : list string :=
  ["AddFact"; "AddRule"; "RemFact"; "RemRule"; "GetFact"; "GetRule"; "EnableRule"; "Clear";
   "SetParents"; "GetParents"; "StateSize"; "searchFacts"; "searchRules"].

Definition model_matches_source : bool :=
  forallb (fun m => list_eqb String.eqb (map gate_name (gates_of m)) (gate_prefix (events_of m)))
          modelled_methods.

(** * Generic consequence of a refusing gate: the operation body is not run. *)
Lemma gated_refused {A} gs l c now (k : loc -> loc * outcome A) l' e :
  run_gates gs l c now = (l', Some e) -> gated gs l c now k = (l', Err e).
Proof. intros H. unfold gated. rewrite H. reflexivity. Qed.

Lemma gated_passed {A} gs l c now (k : loc -> loc * outcome A) l' :
  run_gates gs l c now = (l', None) -> gated gs l c now k = k l'.
Proof. intros H. unfold gated. rewrite H. reflexivity. Qed.

(** * Reflection over the regenerated table *)

Lemma writers_ok_true : writers_ok = true.
Proof. vm_compute. reflexivity. Qed.
Lemma readers_ok_true : readers_ok = true.
Proof. vm_compute. reflexivity. Qed.
Lemma capacity_ok_true : capacity_ok = true.
Proof. vm_compute. reflexivity. Qed.
Lemma js_ok_true : js_ok = true.
Proof. vm_compute. reflexivity. Qed.
Lemma model_matches_source_true : model_matches_source = true.
Proof. vm_compute. reflexivity. Qed.

Lemma writers_guarded : forall m,
  In m exported_methods -> mem_str m ungated_helpers = false ->
  guarded m write_accesses ["gate:Enabled"; "gate:CheckWrite"] = true.
Proof.
  intros m Hin Hex. pose proof writers_ok_true as H. unfold writers_ok in H.
  rewrite forallb_forall in H. specialize (H m Hin). rewrite Hex in H. exact H.
Qed.

Lemma readers_guarded : forall m,
  In m exported_methods -> mem_str m ungated_helpers = false -> String.eqb m "EnableRule" = false ->
  guarded m reveal_accesses ["gate:Enabled"; "gate:CheckRead"] = true.
Proof.
  intros m Hin Hex Hen. pose proof readers_ok_true as H. unfold readers_ok in H.
  rewrite forallb_forall in H. specialize (H m Hin). rewrite Hex, Hen in H. exact H.
Qed.

Lemma model_gates_are_source_gates : forall m,
  In m modelled_methods ->
  list_eqb String.eqb (map gate_name (gates_of m)) (gate_prefix (events_of m)) = true.
Proof.
  intros m Hin. pose proof model_matches_source_true as H. unfold model_matches_source in H.
  rewrite forallb_forall in H. exact (H m Hin).
Qed.

(** * A refusing gate has no effect *)

(** Nothing for a read to purge: no stored item has expired and no purge is
    pending (the list of noted ids is empty between any two operations). *)
Definition nothing_expired (l : loc) (now : Z) : Prop :=
  (forall id fact, alookup id (st_facts (l_state l)) = Some fact -> fact_expired fact now = false) /\
  st_pending (l_state l) = [].

Lemma upd_state_same l : upd_state l (l_state l) = l.
Proof. destruct l; reflexivity. Qed.

Lemma st_get_noexp s id now :
  (forall i f, alookup i (st_facts s) = Some f -> fact_expired f now = false) ->
  st_pending s = [] ->
  fst (st_get s id now) = s.
Proof.
  intros H Hp. unfold st_get, get_body. destruct (alookup id (st_facts s)) as [fact|] eqn:E.
  - rewrite (expire_false s id fact now (H id fact E)). rewrite (with_purge_nil s _ now Hp). reflexivity.
  - rewrite (with_purge_nil s _ now Hp). reflexivity.
Qed.

Lemma get_prop_noexp l id prop now :
  nothing_expired l now -> fst (get_prop l id prop now) = l.
Proof.
  intros H. unfold get_prop.
  pose proof (st_get_noexp (l_state l) (String.append "!" (String.append id (String.append "." prop))) now
                           (proj1 H) (proj2 H)) as Hg.
  destruct (st_get (l_state l) _ now) as [s o] eqn:E. cbn [fst] in Hg. subst s.
  destruct o; cbn [fst]; apply upd_state_same.
Qed.

Lemma get_prop_string_noexp l prop now :
  nothing_expired l now -> fst (get_prop_string l prop now) = l.
Proof.
  intros H. unfold get_prop_string. pose proof (get_prop_noexp l "" prop now H) as Hg.
  destruct (get_prop l "" prop now) as [l' o]. cbn [fst] in Hg. subst l'.
  destruct o as [[| | |s| |]|]; reflexivity.
Qed.

Lemma run_gates_noexp gs : forall l c now,
  nothing_expired l now -> fst (run_gates gs l c now) = l.
Proof.
  induction gs as [|g gs IH]; intros l c now H; [reflexivity|].
  cbn [run_gates].
  assert (Hstep : forall (l' : loc) (pass : bool) (e : string),
             l' = l -> fst (if pass then run_gates gs l' c now else (l', Some e)) = l).
  { intros l' pass e ->. destruct pass; [apply IH; exact H|reflexivity]. }
  destruct g.
  - unfold enabled. pose proof (get_prop_string_noexp l "enabled" now H) as Hg.
    destruct (get_prop_string l "enabled" now) as [l' s]. cbn [fst] in Hg. apply Hstep. exact Hg.
  - unfold check_write. destruct (l_readonly l); [reflexivity|].
    pose proof (get_prop_string_noexp l "writeKey" now H) as Hg.
    destruct (get_prop_string l "writeKey" now) as [l' s]. cbn [fst] in Hg. apply Hstep. exact Hg.
  - unfold check_read. pose proof (get_prop_string_noexp l "readKey" now H) as Hg.
    destruct (get_prop_string l "readKey" now) as [l' s]. cbn [fst] in Hg. apply Hstep. exact Hg.
  - apply Hstep. reflexivity.
Qed.

(** If a gate refuses, the operation returns the gate's error and the
    location (facts, indexes, storage, flags) is exactly what it was. *)
Theorem refused_unchanged_main {A} : forall gs l c now (k : loc -> loc * outcome A) l' e,
  nothing_expired l now ->
  run_gates gs l c now = (l', Some e) ->
  gated gs l c now k = (l, Err e).
Proof.
  intros gs l c now k l' e Hne Hrun.
  pose proof (run_gates_noexp gs l c now Hne) as Hfst. rewrite Hrun in Hfst. cbn [fst] in Hfst. subst l'.
  apply gated_refused. exact Hrun.
Qed.

(** The write gate passes exactly for a writable location and a caller whose
    key matches (or when no key is set). *)
Lemma check_write_spec l c now :
  snd (check_write l c now) =
  negb (l_readonly l) &&
  (let k := snd (get_prop_string l "writeKey" now) in String.eqb k "" || String.eqb (c_wk c) k).
Proof.
  unfold check_write. destruct (l_readonly l); [reflexivity|].
  destruct (get_prop_string l "writeKey" now) as [l' k]. reflexivity.
Qed.

Lemma check_read_spec l c now :
  snd (check_read l c now) =
  (let k := snd (get_prop_string l "readKey" now) in String.eqb k "" || String.eqb (c_rk c) k).
Proof.
  unfold check_read. destruct (get_prop_string l "readKey" now) as [l' k]. reflexivity.
Qed.
