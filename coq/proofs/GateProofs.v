(** Analysis of the regenerated gate table (gen/GateTable.v, produced from
    /repo's Go source on every run) and its tie to the model's gate lists. *)
From Verif Require Import Json Outcome State Location GateTable.

Fixpoint tlookup (k : string) (t : list (string * list string)) : option (list string) :=
  match t with
  | [] => None
  | (k', v) :: r => if String.eqb k k' then Some v else tlookup k r
  end.

Definition drop5 (s : string) : string := substring 5 (String.length s - 5) s.

(** Inline calls to other Location methods (gates themselves are atomic). *)
Fixpoint flatten (fuel : nat) (evs : list string) : list string :=
  match fuel with
  | O => []
  | S f =>
      flat_map (fun e =>
                  if has_prefix "call:" e then
                    match tlookup (drop5 e) location_methods with
                    | Some evs' => flatten f evs'
                    | None => []
                    end
                  else [e]) evs
  end.

Definition events_of (m : string) : list string :=
  match tlookup m location_methods with Some evs => flatten 8 evs | None => [] end.

Definition write_accesses : list string :=
  ["state:Add"; "state:Rem"; "state:Clear"; "state:Delete"; "state:SetProp"; "state:RemProp"].
Definition reveal_accesses : list string :=
  ["state:Get"; "state:Search"; "state:FindCachedRules"].

(** Every occurrence of an access in [accs] is preceded by every gate of [gates]. *)
Fixpoint guarded_aux (seen : list string) (evs : list string) (accs gates : list string) : bool :=
  match evs with
  | [] => true
  | e :: r =>
      (if mem_str e accs then forallb (fun g => mem_str g seen) gates else true) &&
      guarded_aux (e :: seen) r accs gates
  end.
Definition guarded (m : string) (accs gates : list string) : bool :=
  guarded_aux [] (events_of m) accs gates.

Fixpoint has_dot (s : string) : bool :=
  match s with
  | EmptyString => false
  | String c r => orb (Z.eqb (Z.of_nat (nat_of_ascii c)) 46%Z) (has_dot r)
  end.

Definition is_exported (m : string) : bool :=
  match m with
  | String c _ =>
      let n := Z.of_nat (nat_of_ascii c) in
      andb (andb (Z.leb 65%Z n) (Z.leb n 90%Z)) (negb (has_dot m))
  | _ => false
  end.

Definition exported_methods : list string :=
  filter is_exported (map fst location_methods).

(** Exported helpers that are deliberately ungated (raw property access, not
    reachable through sys.System or the JavaScript environment). *)
Definition ungated_helpers : list string :=
  ["SetProp"; "RemProp"; "GetProp"; "GetPropString"; "Have"; "RuleEnabled"; "Enabled"; "CheckRead"; "CheckWrite"].

Definition writers_ok : bool :=
  forallb (fun m => mem_str m ungated_helpers ||
                    guarded m write_accesses ["gate:Enabled"; "gate:CheckWrite"]) exported_methods.

(** EnableRule may look the rule up (Have) behind the write gate; that
    reveals at most the existence of the id to a holder of the write key. *)
Definition readers_ok : bool :=
  forallb (fun m => mem_str m ungated_helpers || String.eqb m "EnableRule" ||
                    guarded m reveal_accesses ["gate:Enabled"; "gate:CheckRead"]) exported_methods.

(** Adds of facts and rules are behind the capacity gate. *)
Definition capacity_ok : bool :=
  guarded "AddFact" ["state:Add"] ["gate:AtCapacity"] &&
  guarded "AddRule" ["state:Add"] ["gate:AtCapacity"].

(** JavaScript location functions call the gated Location methods with the
    caller's own context (so keys are those of the request that fired the rule). *)
Definition js_ok : bool :=
  forallb (fun kv => forallb (fun c => has_suffix "@ctx" c) (snd kv) &&
                     negb (match snd kv with [] => true | _ => false end))
          js_location_functions.

(** The model's gate sequences are the source's: gates before the first
    state access, in order. *)
Fixpoint gate_prefix (evs : list string) : list string :=
  match evs with
  | [] => []
  | e :: r => if has_prefix "gate:" e then e :: gate_prefix r
              else if has_prefix "state:" e then [] else gate_prefix r
  end.

Definition gate_name (g : gate) : string :=
  match g with
  | GEnabled => "gate:Enabled"
  | GWrite => "gate:CheckWrite"
  | GRead => "gate:CheckRead"
  | GCapacity => "gate:AtCapacity"
  end.

Definition modelled_methods : list string :=
  ["AddFact"; "AddRule"; "RemFact"; "RemRule"; "GetFact"; "GetRule"; "EnableRule"; "Clear";
   "SetParents"; "GetParents"; "StateSize"; "searchFacts"; "searchRules"].

Definition model_matches_source : bool :=
  forallb (fun m => list_eqb String.eqb (map gate_name (gates_of m)) (gate_prefix (events_of m)))
          modelled_methods.

(** * Generic consequence of a refusing gate: the operation body is not run. *)
Lemma gated_refused {A} gs l c now (k : loc -> loc * outcome A) l' e :
  run_gates gs l c now = (l', Some e) -> gated gs l c now k = (l', Err e).
Proof. intros H. unfold gated. rewrite H. reflexivity. Qed.

Lemma gated_passed {A} gs l c now (k : loc -> loc * outcome A) l' :
  run_gates gs l c now = (l', None) -> gated gs l c now k = k l'.
Proof. intros H. unfold gated. rewrite H. reflexivity. Qed.
