(** C06 support: a failing storage call is reported by the mutating operation
    it falls into (A4), and operations touch only the ids they name (A5). *)
From Coq Require Import Lia.
From Verif Require Import Json Outcome Match PatIndex State StateSpec MatchLemmas1
  CascadeSpec CascadeLemmas1 CascadeTerm CascadeExact CascadeProofs AssocLemmas StateProofs
  DurableFrame DurableInv DurableSpec DurableExpiry.

Definition reports {A} (n : nat) (s : state) (r : state * outcome A) : Prop :=
  (st_calls s <= n < st_calls (fst r))%nat -> exists e, snd r = Err e.

(** * add and clear *)

Lemma st_add_reports s g x now fr aux n :
  st_fail s = Some n -> reports n s (st_add s g x now fr aux).
Proof.
  intros Hf Hr.
  destruct (prepare_fact g x now fr aux) as [[id fact]|e|w|] eqn:Hp.
  2-4: unfold st_add in Hr; rewrite Hp in Hr; cbn [fst] in Hr; lia.
  destruct (st_add_shape s g x now fr aux id fact Hp) as (c & (_ & _ & _ & F4 & _) & Hc).
  rewrite F4 in Hr.
  assert (Hw : ac_called c = true /\ will_fail s = true).
  { destruct (ac_called c); [|lia]. split; [reflexivity|].
    unfold will_fail. rewrite Hf. apply Nat.eqb_eq. lia. }
  destruct Hw as [Hcall Hw].
  destruct c; cbn [ac_called] in Hcall; try discriminate; cbn [ac_cond] in Hc.
  - destruct Hc as (_ & _ & ->). eauto.
  - destruct Hc as (_ & Hc & _). congruence.
  - destruct Hc as (_ & _ & ->). eauto.
  - destruct Hc as (_ & Hc & _). congruence.
Qed.

Lemma st_clear_reports s n : st_fail s = Some n -> reports n s (st_clear s).
Proof.
  intros Hf Hr. destruct (st_clear_shape s) as (_ & _ & _ & F4 & H).
  rewrite F4 in Hr.
  assert (Hw : will_fail s = true).
  { unfold will_fail. rewrite Hf. apply Nat.eqb_eq. lia. }
  rewrite Hw in H. destruct H as (-> & _). eauto.
Qed.

(** * The cascade, when nothing is expired *)

Lemma rem_head_calls s id n :
  snd (rem_head s id) = true -> st_fail s = Some n ->
  (st_calls s <= st_calls (fst (rem_head s id)))%nat /\
  ~ (st_calls s <= n < st_calls (fst (rem_head s id)))%nat.
Proof.
  unfold rem_head. intros Hc Hf. destruct (st_kind s).
  - destruct (alookup id (st_facts s)) as [fact|]; [|cbn [fst]; lia].
    destruct (idx_drop_fields s id fact) as (_ & _ & _ & F4 & F5 & _).
    revert Hc. unfold store_call. rewrite F4, F5, Hf.
    destruct (Nat.eqb n (st_calls s)) eqn:En; cbn [fst snd]; [discriminate|]. intros _.
    apply Nat.eqb_neq in En. cbn [st_calls set_store]. lia.
  - revert Hc. unfold store_call. rewrite Hf.
    destruct (Nat.eqb n (st_calls s)) eqn:En; cbn [fst snd]; [discriminate|]. intros _.
    apply Nat.eqb_neq in En. cbn [st_calls set_store set_facts]. lia.
Qed.

Section Report.
  Variable rr : state -> string -> Z -> state * outcome bool.
  Variable now : Z.
  Variable n : nat.
  Hypothesis rr_Sub : forall s id now, Sub s (fst (rr s id now)).
  Hypothesis rr_rep : forall s j, st_fail s = Some n -> no_expired s now -> reports n s (rr s j now).

  Lemma rem_list_rep skip : forall ids s, st_fail s = Some n -> no_expired s now ->
    reports n s (rem_list rr s ids skip now).
  Proof.
    induction ids as [|j r IH]; intros s Hf Hne; cbn [rem_list].
    - intros Hr. cbn [fst] in Hr. lia.
    - destruct (skipped skip j); [apply IH; assumption|].
      pose proof (rr_rep s j Hf Hne) as H1. pose proof (rr_Sub s j now) as HS.
      destruct (rr s j now) as [s1 o]. cbn [fst snd] in *.
      destruct o as [b|e|w|].
      + assert (Hf1 : st_fail s1 = Some n) by (destruct HS as (_ & _ & HS & _); congruence).
        pose proof (Sub_no_expired _ _ _ HS Hne) as Hne1.
        intros Hr. destruct (Nat.lt_ge_cases n (st_calls s1)) as [Hlt|Hge].
        * unfold reports in H1. cbn [fst snd] in H1. destruct H1 as [e He]; [lia|discriminate].
        * apply (IH s1 Hf1 Hne1). lia.
      + intros _. cbn [snd]. eauto.
      + intros Hr. destruct (H1 Hr) as [e0 He]. discriminate.
      + intros Hr. destruct (H1 Hr) as [e0 He]. discriminate.
  Qed.

  Lemma delete_dependencies_rep s id : st_fail s = Some n -> no_expired s now ->
    reports n s (delete_dependencies rr s id now).
  Proof.
    intros Hf Hne. unfold delete_dependencies.
    pose proof (search_state_noexp_state s (dw_pattern id) now Hne) as Hs.
    destruct (search_state s (dw_pattern id) now) as [s1 o]. cbn [fst] in Hs. subst s1.
    destruct o as [found|e|w|].
    - apply rem_list_rep; assumption.
    - intros _. cbn [snd]. eauto.
    - intros Hr. cbn [fst] in Hr. lia.
    - intros Hr. cbn [fst] in Hr. lia.
  Qed.

  Lemma rem_body_rep s id : st_fail s = Some n -> no_expired s now ->
    reports n s (rem_body rr s id now).
  Proof.
    intros Hf Hne. rewrite rem_body_head.
    destruct (snd (rem_head s id)) eqn:Ec; [|intros _; cbn [snd]; eauto].
    destruct (rem_head_calls s id n Ec Hf) as [Hle Hnot].
    pose proof (Sub_head s id) as HS.
    assert (Hf1 : st_fail (fst (rem_head s id)) = Some n) by (destruct HS as (_ & _ & HS & _); congruence).
    pose proof (Sub_no_expired _ _ _ HS Hne) as Hne1.
    pose proof (delete_dependencies_rep (fst (rem_head s id)) id Hf1 Hne1) as Hd.
    intros Hr. rewrite fst_wrapb in Hr.
    destruct Hd as [e He]; [lia|].
    destruct (delete_dependencies rr (fst (rem_head s id)) id now) as [s6 o]. cbn [snd] in He. subst o.
    cbn. eauto.
  Qed.
End Report.

Lemma rem_fuel_rep now n : forall fuel s id, st_fail s = Some n -> no_expired s now ->
  reports n s (rem_fuel fuel s id now).
Proof.
  induction fuel as [|f IH]; intros s id Hf Hne; cbn [rem_fuel].
  - intros Hr. cbn [fst] in Hr. lia.
  - apply rem_body_rep; auto. intros s0 j now0. apply rem_fuel_Sub.
Qed.

Lemma st_rem_reports s id now n : st_fail s = Some n -> no_expired s now ->
  reports n s (st_rem s id now).
Proof. apply rem_fuel_rep. Qed.

Lemma st_Rem_reports s id now n : st_fail s = Some n -> no_expired s now ->
  reports n s (st_Rem s id now).
Proof.
  intros Hf Hne. unfold st_Rem.
  (* nothing is expired: the purges only empty the list of noted ids *)
  assert (Hwrap : forall s0 (r : state * outcome bool),
            Sub s0 (fst r) -> no_expired s0 now -> st_calls s0 = st_calls s ->
            reports n s0 r -> reports n s (with_purge r now)).
  { intros s0 r HS Hne0 Hc Hrep.
    rewrite (with_purge_noexp r now (Sub_no_expired _ _ _ HS Hne0)).
    unfold reports in *. cbn [fst snd st_calls set_pending]. rewrite <- Hc. exact Hrep. }
  destruct (st_hooks s).
  - unfold st_get. rewrite (with_purge_noexp (get_body s id now) now)
      by (rewrite (get_body_noexp s id now Hne); exact Hne).
    rewrite (get_body_noexp s id now Hne). cbn [fst snd].
    assert (Hne' : no_expired (set_pending s []) now) by exact Hne.
    destruct (snd (get_body s id now)) as [f|e|w|].
    + apply (Hwrap (set_pending s [])); [apply st_rem_Sub|exact Hne'|reflexivity|].
      apply st_rem_reports; assumption.
    + apply (Hwrap (set_pending s [])); [apply Sub_refl|exact Hne'|reflexivity|].
      intros _. cbn [snd]. eauto.
    + apply (Hwrap (set_pending s [])); [apply Sub_refl|exact Hne'|reflexivity|].
      intros Hr. cbn [fst st_calls set_pending] in Hr. lia.
    + apply (Hwrap (set_pending s [])); [apply Sub_refl|exact Hne'|reflexivity|].
      intros Hr. cbn [fst st_calls set_pending] in Hr. lia.
  - apply (Hwrap s); [apply st_rem_Sub|exact Hne|reflexivity|].
    apply st_rem_reports; assumption.
Qed.

(** The purge that ends an operation logs the storage errors of its removals
    and drops them (both state kinds, after the repair of D52): call 1 fails
    inside this Rem (it is the purge of the expired dependent "a", noted by the
    search of the dependents of "b"), and Rem still answers Ok. *)
Definition swallow_fact : json := JObj [("deleteWith", JArr [JStr "b"]); ("expires", JNum 5)].

Definition swallow_state : state :=
  set_fail (fst (st_add (empty_state Indexed false) "a" swallow_fact 0 "a" None)) (Some 1%nat).

Lemma purge_errors_swallowed_example :
  st_kind swallow_state = Indexed /\
  st_fail swallow_state = Some 1%nat /\
  st_calls swallow_state = 1%nat /\
  st_calls (fst (st_Rem swallow_state "b" 10)) = 2%nat /\
  snd (st_Rem swallow_state "b" 10) = Ok false /\
  (* the expired fact has left the memory and not the storage: its purge failed silently *)
  st_facts (fst (st_Rem swallow_state "b" 10)) = [] /\
  st_store (fst (st_Rem swallow_state "b" 10)) = st_store swallow_state /\
  st_store swallow_state = [("a", swallow_fact)] /\
  (* likewise for a search *)
  snd (st_search swallow_state (dw_pattern "b") 10) = Ok [] /\
  st_calls (fst (st_search swallow_state (dw_pattern "b") 10)) = 2%nat.
Proof. vm_compute. repeat split; reflexivity. Qed.

(** The LINEAR state no longer reports them either (before the repair of
    D52 LinearState.search / doFindRules returned the error of [expire] at
    once): the Rem (through deleteDependencies), the search, the rule lookup
    and the Get that meet the expired item answer as if it were not there; its
    failed purge leaves it where it was (LinearState.rem gives up before
    touching the memory), to be purged by a later read. *)
Definition report_state : state :=
  mkState Linear [("a", swallow_fact)] [] pn_empty [("a", swallow_fact)] false 0 (Some 1%nat) false [].

Definition report_rule_state : state :=
  let r := JObj [("expires", JNum 5); ("rule", JObj [("when", JObj [("pattern", JObj [])])])] in
  mkState Linear [("r", r)] [] pn_empty [("r", r)] false 0 (Some 0%nat) false [].

Lemma purge_errors_dropped_linear_example :
  st_calls (fst (st_Rem report_state "b" 10)) = 2%nat /\
  snd (st_Rem report_state "b" 10) = Ok false /\
  st_facts (fst (st_Rem report_state "b" 10)) = st_facts report_state /\
  st_store (fst (st_Rem report_state "b" 10)) = st_store report_state /\
  snd (st_search (set_fail report_state (Some 0%nat)) (JObj []) 10) = Ok [] /\
  st_calls (fst (st_search (set_fail report_state (Some 0%nat)) (JObj []) 10)) = 1%nat /\
  st_facts (fst (st_search (set_fail report_state (Some 0%nat)) (JObj []) 10)) = st_facts report_state /\
  snd (st_find_rules report_rule_state (JObj []) 10) = Ok [] /\
  st_facts (fst (st_find_rules report_rule_state (JObj []) 10)) = st_facts report_rule_state /\
  snd (st_get (set_fail report_state (Some 0%nat)) "a" 10) = Err "notfound" /\
  st_facts (fst (st_get (set_fail report_state (Some 0%nat)) "a" 10)) = st_facts report_state /\
  (* the same rule lookup on the indexed kind *)
  snd (st_find_rules (set_fail (fst (st_add (empty_state Indexed false) "r"
                        (JObj [("expires", JNum 5); ("rule", JObj [("when", JObj [("pattern", JObj [])])])])
                        0 "r" None)) (Some 1%nat)) (JObj []) 10) = Ok [].
Proof. vm_compute. repeat split; reflexivity. Qed.

(** Why [purged_once_seen] no longer has the alternative hypothesis "or the
    removal of the item (alone) succeeds": the purge that ends the Get removes
    EVERY noted id, so another removal can take the storage call that works
    and leave the failing one to this item.  Here "b" is already noted, call
    1 fails: the removal of "a" alone succeeds (it uses call 0), but inside
    the Get it comes second and fails after the item has left the memory
    (indexed state): the record stays in the storage. *)
Definition noted_fail_state : state :=
  let x := JObj [("expires", JNum 5)] in
  mkState Indexed [("a", x); ("b", x)] [] pn_empty [("a", x); ("b", x)] false 0 (Some 1%nat) false ["b"].

Lemma purged_once_seen_alone_counterexample :
  alookup "a" (st_facts noted_fail_state) = Some (JObj [("expires", JNum 5)]) /\
  fact_expired (JObj [("expires", JNum 5)]) 10 = true /\
  snd (st_rem noted_fail_state "a" 10) = Ok true /\
  snd (st_get noted_fail_state "a" 10) = Err "notfound" /\
  alookup "a" (st_facts (fst (st_get noted_fail_state "a" 10))) = None /\
  alookup "a" (st_store (fst (st_get noted_fail_state "a" 10))) = Some (JObj [("expires", JNum 5)]).
Proof. vm_compute. repeat split; reflexivity. Qed.

(** * A5: crash containment *)

Lemma st_add_touches_only_id s g x now fr aux id fact :
  prepare_fact g x now fr aux = Ok (id, fact) ->
  forall j, j <> id ->
    alookup j (st_store (fst (st_add s g x now fr aux))) = alookup j (st_store s) /\
    alookup j (st_facts (fst (st_add s g x now fr aux))) = alookup j (st_facts s).
Proof.
  intros Hp j Hj.
  destruct (st_add_shape s g x now fr aux id fact Hp) as (c & (_ & _ & _ & _ & F5 & F6 & _) & _).
  rewrite F5, F6. split.
  - destruct (ac_sto c); [apply alookup_ainsert_other; exact Hj|reflexivity].
  - destruct (ac_mem c); [apply alookup_ainsert_other; exact Hj|reflexivity].
Qed.

Lemma st_add_rejected_untouched s g x now fr aux :
  (forall p, prepare_fact g x now fr aux <> Ok p) -> fst (st_add s g x now fr aux) = s.
Proof. intros H. rewrite st_add_prepare_err by exact H. reflexivity. Qed.

Lemma st_Rem_only_loses s id now :
  (forall j v, alookup j (st_store (fst (st_Rem s id now))) = Some v -> alookup j (st_store s) = Some v) /\
  (forall j f, alookup j (st_facts (fst (st_Rem s id now))) = Some f -> alookup j (st_facts s) = Some f).
Proof. destruct (st_Rem_Sub s id now) as (_ & _ & _ & _ & HF & HS). split; assumption. Qed.

(** Linear kind, nothing expired, no failure: what is lost is in the closure. *)
Lemma st_rem_lost_in_closure s id now :
  st_kind s = Linear -> st_fail s = None -> no_expired s now ->
  forall j, (alookup j (st_store s) <> None /\ alookup j (st_store (fst (st_rem s id now))) = None) \/
            (alookup j (st_facts s) <> None /\ alookup j (st_facts (fst (st_rem s id now))) = None) ->
            Clo s id j.
Proof.
  intros Hk Hf Hne j Hlost.
  destruct (cascade_ok_linear s id now Hk Hf Hne) as (s' & had & Hr).
  assert (Hg : good s now) by (repeat split; auto).
  unfold st_rem in *. rewrite Hr in Hlost. cbn [fst] in Hlost.
  destruct (rem_fuel_exact now _ s id s' had Hg Hr) as (_ & D & _ & HDclo & _ & HR).
  destruct HR as (_ & _ & HF & HS).
  apply HDclo. apply mem_str_In.
  destruct (mem_str j D) eqn:Em; [reflexivity|exfalso].
  rewrite HF, HS, Em in Hlost. destruct Hlost as [[H1 H2]|[H1 H2]]; contradiction.
Qed.
