(** C10: rule lifecycle. *)
From Coq Require Import Lia.
From Verif Require Import Json Outcome Match PatIndex State Location SysOps.
From Verif Require Import StateSpec AssocLemmas StateProofs CascadeSpec CascadeLemmas1 CascadeTerm GateProofs LocSpec LocBasics.

(** * B1 *)

Lemma find_children_gen l ev now : forall rules acc,
  nothing_expired l now -> children_no_error l ev now rules ->
  find_children l rules ev now acc = (l, Ok (rev acc ++ flat_map (child_of l ev now) rules)%list).
Proof.
  induction rules as [|[id body] r IH]; intros acc Hn Hok; cbn [find_children flat_map].
  - rewrite app_nil_r. reflexivity.
  - assert (Hok' : children_no_error l ev now r).
    { intros i b p Hin. apply (Hok i b p). right; exact Hin. }
    pose proof (rule_enabled_noexp l id now Hn) as Hfst.
    pose proof (Hok id body) as Hm.
    unfold child_of at 1.
    destruct (rule_enabled l id now) as [l1 en]. cbn [fst snd] in *. subst l1.
    destruct en; cbn [negb].
    + destruct (when_pattern body) as [p|].
      * destruct (Hm p (or_introl eq_refl) eq_refl eq_refl) as [bss Hbss]. rewrite Hbss.
        destruct bss as [|b bss].
        -- cbn [app]. apply IH; assumption.
        -- rewrite IH by assumption. cbn [rev]. rewrite <- app_assoc. reflexivity.
      * rewrite IH by assumption. cbn [rev]. rewrite <- app_assoc. reflexivity.
    + cbn [app]. apply IH; assumption.
Qed.

Theorem children_exact : children_exact_statement.
Proof.
  intros l rules ev now Hn Hok. rewrite (find_children_gen l ev now rules [] Hn Hok). reflexivity.
Qed.

Theorem children_exact_in : children_exact_in_statement.
Proof.
  intros l rules ev now id bss Hn Hok. rewrite in_flat_map. split.
  - intros [[i body] [Hin Hc]]. unfold child_of in Hc.
    destruct (snd (rule_enabled l i now)) eqn:Een; [|destruct Hc].
    destruct (when_pattern body) as [p|] eqn:Ew.
    + destruct (core_match p ev []) as [[|b r]|e|w|] eqn:Em; cbn [In] in Hc; try contradiction.
      destruct Hc as [Hc|[]].
      injection Hc as <- <-. exists body. repeat split; try assumption.
      left. exists p. repeat split; try assumption. discriminate.
    + destruct Hc as [Hc|[]]. injection Hc as <- <-. exists body. repeat split; try assumption.
      right. split; [exact Ew|reflexivity].
  - intros (body & Hin & Hen & Hc). exists (id, body). split; [exact Hin|].
    unfold child_of. rewrite Hen.
    destruct Hc as [(p & Hw & Hm & Hne)|(Hw & ->)]; rewrite Hw.
    + rewrite Hm. destruct bss; [congruence|]. left; reflexivity.
    + left; reflexivity.
Qed.

(** * Strings *)

Lemma slen_app a b : String.length (String.append a b) = (String.length a + String.length b)%nat.
Proof. induction a as [|ch a IH]; cbn [String.append String.length]; [reflexivity|]. rewrite IH. reflexivity. Qed.

Lemma append_inj_l s : forall a b, String.append a s = String.append b s -> a = b.
Proof.
  induction a as [|ch a IH]; intros b H.
  - destruct b as [|ch' b]; [reflexivity|]. exfalso.
    apply (f_equal String.length) in H. cbn [String.append String.length] in H.
    rewrite slen_app in H. lia.
  - destruct b as [|ch' b].
    + exfalso. apply (f_equal String.length) in H. cbn [String.append String.length] in H.
      rewrite slen_app in H. lia.
    + cbn [String.append] in H. injection H as <- H. f_equal. apply IH; exact H.
Qed.

Lemma prop_id_inj a b p : prop_id a p = prop_id b p -> a = b.
Proof.
  unfold prop_id. cbn [String.append]. intros H. injection H as H.
  eapply append_inj_l; exact H.
Qed.

Lemma prop_id_disabled_not_enabled id : prop_id "" "enabled" <> prop_id id "disabled".
Proof.
  intros H. apply (f_equal String.length) in H. unfold prop_id in H.
  rewrite !slen_app in H. cbn [String.length] in H. lia.
Qed.

Lemma prop_id_not_self id p : prop_id id p <> id.
Proof.
  intros H. apply (f_equal String.length) in H. unfold prop_id in H.
  rewrite !slen_app in H. cbn [String.length] in H. lia.
Qed.

(** * Pure views of the property reads *)

Lemma get_prop_pid l id prop now :
  get_prop l id prop now =
  match st_get (l_state l) (prop_id id prop) now with
  | (s, Ok fact) => (upd_state l s, jget (String.append "!" prop) fact)
  | (s, _) => (upd_state l s, None)
  end.
Proof. reflexivity. Qed.

Lemma st_get_live s id now :
  (forall f, alookup id (st_facts s) = Some f -> fact_expired f now = false) ->
  st_pending s = [] ->
  st_get s id now = (s, match alookup id (st_facts s) with Some f => Ok f | None => Err "notfound" end).
Proof.
  intros H Hp. unfold st_get, get_body. destruct (alookup id (st_facts s)) as [f|].
  - rewrite (expire_false s id f now (H f eq_refl)). apply with_purge_nil. exact Hp.
  - apply with_purge_nil. exact Hp.
Qed.

Lemma get_prop_live l id prop now :
  prop_live l id prop now -> st_pending (l_state l) = [] ->
  get_prop l id prop now = (l, prop_val l id prop).
Proof.
  intros H Hp. rewrite get_prop_pid, (st_get_live _ _ _ H Hp). unfold prop_val.
  destruct (alookup (prop_id id prop) (st_facts (l_state l))); rewrite upd_state_same; reflexivity.
Qed.

Lemma nothing_expired_live l id prop now : nothing_expired l now -> prop_live l id prop now.
Proof. intros H f Hf. eapply (proj1 H); exact Hf. Qed.

Definition enabled_pure (l : loc) : bool :=
  let e := match prop_val l "" "enabled" with Some (JStr s) => s | _ => "" end in
  String.eqb e "" || String.eqb e "yes" || String.eqb e "true".

Lemma enabled_live l now :
  prop_live l "" "enabled" now -> st_pending (l_state l) = [] -> enabled l now = (l, enabled_pure l).
Proof.
  intros H Hp. unfold enabled, get_prop_string. rewrite (get_prop_live _ _ _ _ H Hp). unfold enabled_pure.
  destruct (prop_val l "" "enabled") as [[| | |s| |]|]; reflexivity.
Qed.

Definition rule_enabled_pure (l : loc) (id : string) : bool :=
  if negb (enabled_pure l) then false else
  match prop_val l id "disabled" with Some (JBool d) => negb d | _ => true end.

Lemma rule_enabled_live l id now :
  prop_live l "" "enabled" now -> prop_live l id "disabled" now -> st_pending (l_state l) = [] ->
  rule_enabled l id now = (l, rule_enabled_pure l id).
Proof.
  intros H1 H2 Hp. unfold rule_enabled, rule_enabled_pure. rewrite (enabled_live _ _ H1 Hp).
  destruct (negb (enabled_pure l)); [reflexivity|].
  rewrite (get_prop_live _ _ _ _ H2 Hp).
  destruct (prop_val l id "disabled") as [[|b| | | |]|]; reflexivity.
Qed.

Lemma rule_enabled_noexp_pure l id now :
  nothing_expired l now -> rule_enabled l id now = (l, rule_enabled_pure l id).
Proof.
  intros Hn. apply rule_enabled_live; [apply nothing_expired_live; exact Hn|
                                       apply nothing_expired_live; exact Hn|exact (proj2 Hn)].
Qed.

(** * The flag fact *)

Definition flag_fact (id : string) : json :=
  JObj [("!disabled", JBool true); ("deleteWith", JArr [JStr id]); ("id", JStr id)].

Lemma set_prop_fact_disabled id : set_prop_fact id "disabled" (JBool true) = flag_fact id.
Proof. reflexivity. Qed.

Lemma prepare_flag id now fresh :
  prepare_fact "" (flag_fact id) now fresh None = Ok (prop_id id "disabled", flag_fact id).
Proof. reflexivity. Qed.

Lemma flag_never_expired id now : fact_expired (flag_fact id) now = false.
Proof. reflexivity. Qed.

(** gates passing with nothing expired leave the location alone *)
Lemma gated_ok_noexp {A} gs l c now (k : loc -> loc * outcome A) l' a :
  nothing_expired l now -> gated gs l c now k = (l', Ok a) -> k l = (l', Ok a).
Proof.
  intros Hn H. unfold gated in H. pose proof (run_gates_noexp gs l c now Hn) as Hf.
  destruct (run_gates gs l c now) as [l1 [e|]]; cbn [fst] in Hf; subst l1; [discriminate|exact H].
Qed.

Lemma gated_ok {A} gs l c now (k : loc -> loc * outcome A) l' a :
  gated gs l c now k = (l', Ok a) -> exists l1, lsub l1 l /\ k l1 = (l', Ok a).
Proof.
  intros H. unfold gated in H. pose proof (run_gates_lsub gs l c now) as Hf.
  destruct (run_gates gs l c now) as [l1 [e|]]; cbn [fst] in Hf; [discriminate|].
  exists l1. split; assumption.
Qed.

(** * B2 *)

Lemma disable_adds_flag l c e id l' :
  st_wf (l_state l) -> nothing_expired l (e_now e) ->
  loc_enable_rule l c e id false = (l', Ok tt) ->
  alookup (prop_id id "disabled") (st_facts (l_state l')) = Some (flag_fact id) /\
  (forall j, j <> prop_id id "disabled" ->
             alookup j (st_facts (l_state l')) = alookup j (st_facts (l_state l))) /\
  st_pending (l_state l') = [].
Proof.
  intros Hwf Hn H. unfold loc_enable_rule in H. apply gated_ok_noexp in H; [|exact Hn].
  unfold lift in H. rewrite set_prop_fact_disabled in H.
  pose proof (st_add_pending (l_state l) "" (flag_fact id) (e_now e) (e_fresh e) None) as Hpe.
  rewrite (proj2 Hn) in Hpe.
  destruct (st_add (l_state l) "" (flag_fact id) (e_now e) (e_fresh e) None) as [s' o] eqn:Ea.
  cbn [fst snd] in H, Hpe. destruct o as [pid| | |]; cbn [omap obind] in H; try discriminate.
  injection H as <-. cbn [l_state upd_state].
  destruct (add_visible _ _ _ _ _ _ _ _ Hwf Ea) as (_ & fact & Hp & Hl & _ & Ho).
  rewrite prepare_flag in Hp. injection Hp as <- <-. repeat split; assumption.
Qed.

Theorem disable_then_not_enabled : disable_then_not_enabled_statement.
Proof.
  intros l c e id l' now' Hwf Hn H Hlive.
  destruct (disable_adds_flag l c e id l' Hwf Hn H) as (Hflag & _ & Hpe).
  rewrite rule_enabled_live; [|exact Hlive| |exact Hpe].
  - cbn [snd]. unfold rule_enabled_pure. destruct (negb (enabled_pure l')); [reflexivity|].
    unfold prop_val. rewrite Hflag. reflexivity.
  - intros f Hf. rewrite Hflag in Hf. injection Hf as <-. apply flag_never_expired.
Qed.

Lemma no_flag_lsub l' l id : lsub l' l -> no_flag l id -> no_flag l' id.
Proof. intros (H & _) Hnf f Hf. apply Hnf. eapply fsub_lookup; eassumption. Qed.

Lemma get_prop_no_flag l id now : no_flag l id -> snd (get_prop l id "disabled" now) = None.
Proof.
  intros Hnf. rewrite get_prop_pid.
  pose proof (st_get_snd (l_state l) (prop_id id "disabled") now) as Hs.
  destruct (st_get (l_state l) (prop_id id "disabled") now) as [s1 o]. cbn [snd] in Hs. subst o.
  destruct (alookup (prop_id id "disabled") (st_facts (l_state l))) as [f|] eqn:El; [|reflexivity].
  destruct (fact_expired f now); [reflexivity|]. cbn [snd]. apply Hnf. exact El.
Qed.

Lemma rule_enabled_no_flag l id now :
  no_flag l id -> snd (rule_enabled l id now) = snd (enabled l now).
Proof.
  intros Hnf. unfold rule_enabled. pose proof (enabled_lsub l now) as Hs.
  destruct (enabled l now) as [l1 en]. cbn [fst snd] in *.
  destruct en; cbn [negb]; [|reflexivity].
  pose proof (get_prop_no_flag l1 id now (no_flag_lsub _ _ _ Hs Hnf)) as Hg.
  destruct (get_prop l1 id "disabled" now) as [l2 o]. cbn [snd] in Hg. subst o. reflexivity.
Qed.

Lemma no_flag_absent l id : alookup (prop_id id "disabled") (st_facts (l_state l)) = None -> no_flag l id.
Proof. intros H f Hf. congruence. Qed.

Theorem enable_then_enabled : enable_then_enabled_statement.
Proof.
  intros l c e id l' now' H. apply rule_enabled_no_flag. apply no_flag_absent.
  unfold loc_enable_rule in H. apply gated_ok in H. destruct H as (l1 & _ & H).
  unfold lift in H.
  pose proof (st_Rem_gone (l_state l1) (prop_id id "disabled") (e_now e)) as Hg.
  destruct (st_Rem (l_state l1) (prop_id id "disabled") (e_now e)) as [s' o]. cbn [fst snd] in *.
  destruct o as [b| | |]; cbn [omap obind] in H; try discriminate.
  injection H as <-. cbn [l_state upd_state]. eapply Hg. reflexivity.
Qed.

Theorem disable_is_per_id : disable_is_per_id_statement.
Proof.
  intros l c e id id' l' now' Hwf Hn H Hne Hn'.
  destruct (disable_adds_flag l c e id l' Hwf Hn H) as (Hflag & Hother & Hpe).
  assert (Hn'' : nothing_expired l' now').
  { split; [|exact Hpe].
    intros j f Hj. destruct (String.eqb_spec j (prop_id id "disabled")) as [->|Hjne].
    - rewrite Hflag in Hj. injection Hj as <-. apply flag_never_expired.
    - rewrite (Hother j Hjne) in Hj. eapply (proj1 Hn'); exact Hj. }
  rewrite !rule_enabled_noexp_pure by assumption.
  cbn [snd]. unfold rule_enabled_pure, enabled_pure, prop_val.
  rewrite (Hother (prop_id "" "enabled")) by apply prop_id_disabled_not_enabled.
  rewrite (Hother (prop_id id' "disabled")); [reflexivity|].
  intros Heq. apply prop_id_inj in Heq. contradiction.
Qed.

(** * B3 *)

Lemma rem_rule_no_flag l c e id l' b :
  nothing_expired l (e_now e) -> loc_rem_rule l c e id = (l', Ok b) -> no_flag l' id.
Proof.
  intros Hn H. unfold loc_rem_rule in H. apply gated_ok_noexp in H; [|exact Hn].
  pose proof (st_Rem_fsub (l_state l) id (e_now e)) as Hsub.
  pose proof (st_Rem_pending (l_state l) id (e_now e)) as Hpe.
  destruct (st_Rem (l_state l) id (e_now e)) as [s o]. cbn [fst] in Hsub, Hpe.
  destruct o as [b0|x|w|]; try discriminate.
  set (l1 := upd_state l s) in *.
  assert (Hn1 : nothing_expired l1 (e_now e)).
  { eapply nothing_expired_lsub; [|exact Hpe|exact Hn]. apply lsub_upd. exact Hsub. }
  rewrite (get_prop_live l1 id "disabled" (e_now e)) in H
    by (try (apply nothing_expired_live; exact Hn1); exact (proj2 Hn1)).
  destruct (prop_val l1 id "disabled") as [v|] eqn:Ev.
  - unfold lift in H.
    pose proof (st_Rem_gone (l_state l1) (prop_id id "disabled") (e_now e)) as Hg.
    destruct (st_Rem (l_state l1) (prop_id id "disabled") (e_now e)) as [s' o']. cbn [fst snd] in *.
    destruct o' as [b1| | |]; cbn [omap obind] in H; try discriminate.
    injection H as <- _. apply no_flag_absent. cbn [l_state upd_state]. eapply Hg. reflexivity.
  - injection H as <- _. intros f Hf. unfold prop_val in Ev. rewrite Hf in Ev. exact Ev.
Qed.

Theorem flag_dies_with_rule : flag_dies_with_rule_statement.
Proof.
  intros l c e id l' b Hn H. pose proof (rem_rule_no_flag l c e id l' b Hn H) as Hnf.
  split; [exact Hnf|]. intros now'. apply get_prop_no_flag. exact Hnf.
Qed.

(** the keys of a stored rule fact *)
Lemma set_expires_other k m now aux m' ex E :
  k <> "ttl" -> k <> "expires" -> k <> "rule" ->
  set_expires m now aux = Ok (m', ex, E) -> alookup k m' = alookup k m.
Proof.
  intros H1 H2 H3 H. unfold set_expires in H.
  match type of H with obind ?X _ = _ => destruct X as [m1| | |] eqn:E1 end; cbn [obind] in H; try discriminate.
  assert (Hm1 : alookup k m1 = alookup k m).
  { destruct (alookup "ttl" m) as [t|]; [|injection E1 as <-; reflexivity].
    destruct t as [| |v|s| |]; try discriminate.
    - injection E1 as <-. rewrite AssocLemmas.alookup_ainsert_other by exact H2.
      apply AssocLemmas.alookup_aremove_other. exact H1.
    - destruct (parse_secs s); [|discriminate]. injection E1 as <-.
      rewrite AssocLemmas.alookup_ainsert_other by exact H2.
      apply AssocLemmas.alookup_aremove_other. exact H1. }
  destruct (alookup "expires" m1) as [ev|]; [|injection H as <- _ _; exact Hm1].
  match type of H with obind ?X _ = _ => destruct X as [[E0 m2]| | |] eqn:E2 end; cbn [obind] in H; try discriminate.
  assert (Hm2 : alookup k m2 = alookup k m).
  { destruct ev as [| |v|s| |]; try discriminate.
    - injection E2 as _ <-. exact Hm1.
    - destruct aux as [v|]; [|discriminate]. injection E2 as _ <-.
      rewrite AssocLemmas.alookup_ainsert_other by exact H2. exact Hm1. }
  destruct (alookup "rule" m2) as [[| | | | |r]|]; try discriminate.
  - injection H as <- _ _. rewrite AssocLemmas.alookup_ainsert_other by exact H3. exact Hm2.
  - injection H as <- _ _. exact Hm2.
Qed.

Lemma add_rule_no_flag l c e id' rule l'' id2 id :
  st_wf (l_state l) -> nothing_expired l (e_now e) -> no_flag l id ->
  loc_add_rule l c e id' rule = (l'', Ok id2) -> no_flag l'' id.
Proof.
  intros Hwf Hn Hnf H. unfold loc_add_rule in H. apply gated_ok_noexp in H; [|exact Hn].
  destruct (rule_from_map rule); try discriminate.
  destruct (set_expires (jO rule) (e_now e) (e_aux e)) as [[[rm expiring] E]| | |]; try discriminate.
  unfold lift in H.
  match type of H with context [st_add _ _ (JObj ?w) _ _ _] => set (w2 := w) in * end.
  assert (Hw2 : alookup "!disabled" w2 = None).
  { unfold w2. destruct (alookup "deleteWith" rm); destruct expiring;
      repeat (rewrite AssocLemmas.alookup_ainsert_other by discriminate); reflexivity. }
  destruct (st_add (l_state l) id' (JObj w2) (e_now e) (e_fresh e) None) as [s' o] eqn:Ea.
  cbn [fst snd] in H. destruct o as [i| | |]; cbn [omap obind] in H; try discriminate.
  injection H as <- ->. cbn [l_state upd_state].
  destruct (add_visible _ _ _ _ _ _ _ _ Hwf Ea) as (_ & fact & Hp & Hl & _ & Ho).
  intros f Hf. cbn [l_state upd_state] in Hf.
  destruct (String.eqb_spec (prop_id id "disabled") id2) as [Heq|Hne].
  - rewrite Heq, Hl in Hf. injection Hf as <-.
    unfold prepare_fact in Hp.
    destruct (gen_id (jO (JObj w2)) id' (e_fresh e)); cbn [obind] in Hp; try discriminate.
    destruct (set_expires (jO (JObj w2)) (e_now e) None) as [[[m' ex] E']| | |] eqn:Es; cbn [obind] in Hp; try discriminate.
    destruct (ex && not_after E' (e_now e)); [discriminate|]. injection Hp as _ <-.
    cbn [jget]. rewrite (set_expires_other "!disabled" _ _ _ _ _ _ ltac:(discriminate) ltac:(discriminate) ltac:(discriminate) Es).
    exact Hw2.
  - rewrite (Ho _ Hne) in Hf. apply Hnf. exact Hf.
Qed.

Theorem readd_starts_enabled : readd_starts_enabled_statement.
Proof.
  intros l c e id l' b c2 e2 rule l'' id2 now' Hn Hrem Hwf Hn2 Hadd.
  apply rule_enabled_no_flag.
  eapply add_rule_no_flag; [exact Hwf|exact Hn2| |exact Hadd].
  exact (rem_rule_no_flag l c e id l' b Hn Hrem).
Qed.

(** * B4 *)

Lemma run_gates_enabled_first gs l c now :
  nothing_expired l now -> snd (enabled l now) = false ->
  run_gates (GEnabled :: gs) l c now = (l, Some E_disabled).
Proof.
  intros Hn He. cbn [run_gates]. pose proof (enabled_noexp l now Hn) as Hf.
  destruct (enabled l now) as [l' b]. cbn [fst snd] in *. subst l' b. reflexivity.
Qed.

Theorem disabled_location_refuses : disabled_location_refuses_statement.
Proof.
  intros A l c now m k Hn He Hin.
  assert (Hg : exists gs, gates_of m = GEnabled :: gs).
  { unfold refusing_methods in Hin. cbn [In] in Hin.
    repeat (destruct Hin as [<-|Hin]; [eexists; vm_compute; reflexivity|]). destruct Hin. }
  destruct Hg as [gs ->]. apply gated_refused. apply run_gates_enabled_first; assumption.
Qed.

Theorem disabled_location_refuses_addfact : disabled_location_refuses_addfact_statement.
Proof.
  intros A l c now k Hn He.
  change (gates_of "AddFact") with [GWrite; GCapacity; GEnabled].
  assert (H : exists err, (err = E_denied \/ err = E_capacity \/ err = E_disabled) /\
                          exists l', run_gates [GWrite; GCapacity; GEnabled] l c now = (l', Some err)).
  { cbn [run_gates]. destruct (check_write l c now) as [l1 b] eqn:Ew.
    destruct b; [|exists E_denied; split; [auto|eexists; reflexivity]].
    destruct (negb (at_capacity l1)); [|exists E_capacity; split; [auto|eexists; reflexivity]].
    assert (Hl1 : l1 = l).
    { pose proof (run_gates_noexp [GWrite] l c now Hn) as Hr. cbn [run_gates] in Hr.
      rewrite Ew in Hr. exact Hr. }
    subst l1. pose proof (enabled_noexp l now Hn) as Hf.
    destruct (enabled l now) as [l' b]. cbn [fst snd] in *. subst l' b.
    exists E_disabled. split; [auto|eexists; reflexivity]. }
  destruct H as (err & Herr & l' & Hrun). exists err. split; [exact Herr|].
  eapply refused_unchanged_main; eassumption.
Qed.

(** StateSize used to be the exception (its only gate was the read key: finding
    D36, repaired in /repo); it now reports that the location is disabled. *)
Definition disabled_loc : loc :=
  fst (loc_add_fact (mkLoc (empty_state Indexed false) false 100) (mkCtx "" "") (mkEnv 1 "f" None) ""
                    (JObj [("!enabled", JStr "no")])).

Lemma statesize_reports_disabled_example :
  snd (enabled disabled_loc 2) = false /\
  snd (loc_size disabled_loc (mkCtx "" "") (mkEnv 2 "f" None)) = Err E_disabled /\
  snd (loc_get_parents disabled_loc (mkCtx "" "") (mkEnv 2 "f" None)) = Err E_disabled.
Proof. vm_compute. repeat split; reflexivity. Qed.

(** Without a live `enabled` property fact the disabled flag can be lost:
    the rule id "!.enabled" makes the flag a dependent of the property fact. *)
Definition cx_loc0 (k : skind) : loc := mkLoc (empty_state k false) false 100.
Definition cx_ctx : ctx := mkCtx "" "".
Definition cx_env (now : Z) : env := mkEnv now "fresh" None.

Definition cx_flag_loc (k : skind) : loc * outcome unit :=
  let l1 := fst (loc_add_fact (cx_loc0 k) cx_ctx (cx_env 1) ""
                              (JObj [("!enabled", JStr "true"); ("expires", JNum 10)])) in
  loc_enable_rule l1 cx_ctx (cx_env 2) "!.enabled" false.

Lemma disable_then_not_enabled_counterexample :
  forall k, snd (cx_flag_loc k) = Ok tt /\
            snd (rule_enabled (fst (cx_flag_loc k)) "!.enabled" 3) = false /\
            snd (rule_enabled (fst (cx_flag_loc k)) "!.enabled" 11) = true.
Proof. intros []; vm_compute; repeat split; reflexivity. Qed.

(** Re-enabling a rule can enable another one: the flag of the rule whose
    id is the first flag's id is a dependent of the first flag. *)
Definition cx_two_flags (k : skind) : loc :=
  let m1 := fst (loc_enable_rule (cx_loc0 k) cx_ctx (cx_env 1) "!r.disabled" false) in
  fst (loc_enable_rule m1 cx_ctx (cx_env 2) "r" false).

Lemma enable_is_not_per_id_counterexample :
  forall k, let l := cx_two_flags k in
            let r := loc_enable_rule l cx_ctx (cx_env 3) "r" true in
            snd r = Ok tt /\
            snd (rule_enabled l "!r.disabled" 4) = false /\
            snd (rule_enabled (fst r) "!r.disabled" 4) = true.
Proof. intros []; vm_compute; repeat split; reflexivity. Qed.

(** * A6 *)

Definition parents_fact (ps : list string) : json :=
  JObj [("!parents", JArr (map JStr ps)); ("deleteWith", JArr [JStr ""]); ("id", JStr "")].

Lemma map_jnorm_JStr ps : map jnorm (map JStr ps) = map JStr ps.
Proof. induction ps as [|p r IH]; [reflexivity|]. cbn [map]. rewrite IH. reflexivity. Qed.

Lemma set_prop_fact_parents ps : set_prop_fact "" "parents" (JArr (map JStr ps)) = parents_fact ps.
Proof.
  unfold set_prop_fact, parents_fact. cbn [jnorm fold_left fst snd map String.append].
  rewrite map_jnorm_JStr. reflexivity.
Qed.

Lemma prepare_parents ps now fresh :
  prepare_fact "" (parents_fact ps) now fresh None = Ok (prop_id "" "parents", parents_fact ps).
Proof. reflexivity. Qed.

Lemma forallb_JStr ps : forallb (fun x => match x with JStr _ => true | _ => false end) (map JStr ps) = true.
Proof. induction ps as [|p r IH]; [reflexivity|exact IH]. Qed.

Lemma map_jS_JStr ps : map jS (map JStr ps) = ps.
Proof. induction ps as [|p r IH]; [reflexivity|]. cbn [map jS]. rewrite IH. reflexivity. Qed.

Lemma get_parents_of_fact l ps now :
  alookup (prop_id "" "parents") (st_facts (l_state l)) = Some (parents_fact ps) ->
  st_pending (l_state l) = [] ->
  get_parents l now = (l, Ok ps).
Proof.
  intros Hl Hpe. unfold get_parents. rewrite get_prop_live; [| |exact Hpe].
  - unfold prop_val. rewrite Hl. cbn [jget parents_fact alookup String.append String.eqb Ascii.eqb Bool.eqb].
    rewrite forallb_JStr, map_jS_JStr. reflexivity.
  - intros f Hf. rewrite Hl in Hf. injection Hf as <-. reflexivity.
Qed.

Lemma set_parents_adds l c e ps l' id :
  st_wf (l_state l) -> nothing_expired l (e_now e) ->
  loc_set_parents l c e ps = (l', Ok id) ->
  alookup (prop_id "" "parents") (st_facts (l_state l')) = Some (parents_fact ps) /\
  (forall j, j <> prop_id "" "parents" ->
             alookup j (st_facts (l_state l')) = alookup j (st_facts (l_state l))) /\
  l_readonly l' = l_readonly l /\ l_max l' = l_max l /\ st_pending (l_state l') = [].
Proof.
  intros Hwf Hn H. unfold loc_set_parents in H. apply gated_ok_noexp in H; [|exact Hn].
  unfold lift in H. rewrite set_prop_fact_parents in H.
  pose proof (st_add_pending (l_state l) "" (parents_fact ps) (e_now e) (e_fresh e) None) as Hpe.
  rewrite (proj2 Hn) in Hpe.
  destruct (st_add (l_state l) "" (parents_fact ps) (e_now e) (e_fresh e) None) as [s' o] eqn:Ea.
  cbn [fst snd] in H, Hpe. destruct o as [pid| | |]; cbn [omap obind] in H; try discriminate.
  injection H as <- _. cbn [l_state upd_state].
  destruct (add_visible _ _ _ _ _ _ _ _ Hwf Ea) as (_ & fact & Hp & Hl & _ & Ho).
  rewrite prepare_parents in Hp. injection Hp as <- <-. repeat split; assumption.
Qed.

Theorem parents_take_effect_immediately : parents_take_effect_immediately_statement.
Proof.
  intros l c e ps l' id now Hwf Hn H.
  destruct (set_parents_adds l c e ps l' id Hwf Hn H) as (Hl & _ & _ & _ & Hpe).
  apply get_parents_of_fact; assumption.
Qed.
