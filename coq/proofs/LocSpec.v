(** Statements for C09 (isolation between locations, inheritance through
    parents only) and C10 (rule lifecycle: enable/disable, removal, reload). *)
From Verif Require Import Json Outcome Match PatIndex State Location SysOps.
From Verif Require Import StateSpec CascadeLemmas1 GateProofs.

(** * Definitions *)

(** A system is a sorted association list (so sys_get/sys_set behave as a map). *)
Definition sys_wf (sy : system) : Prop := sorted_keys (map fst sy) = true.

(** The two operations that walk the ancestors. *)
Definition is_walk (op : lop) : bool :=
  match op with
  | LSearch _ true => true
  | LEvent _ => true
  | _ => false
  end.

(** [b] is listed among the parents of the existing location [a] (as read at [now]). *)
Definition parent_of (sy : system) (now : Z) (a b : string) : Prop :=
  exists l ps, sys_get sy a = Some l /\ snd (get_parents l now) = Ok ps /\ In b ps.

Inductive reach (sy : system) (now : Z) : string -> string -> Prop :=
| reach_refl a : reach sy now a a
| reach_step a b c : parent_of sy now a b -> reach sy now b c -> reach sy now a c.

(** Nothing of the location [other] (if it exists) has expired at [now]. *)
Definition nothing_expired_opt (sy : system) (other : string) (now : Z) : Prop :=
  forall l, sys_get sy other = Some l -> nothing_expired l now.

(** Nothing of the location ever expires. *)
Definition never_expires (l : loc) : Prop :=
  forall id fact, alookup id (st_facts (l_state l)) = Some fact -> fact_expires fact = 0.

(** The property fact [!<id>.<prop>] (if present) is live at [now]. *)
Definition prop_live (l : loc) (id prop : string) (now : Z) : Prop :=
  forall f, alookup (prop_id id prop) (st_facts (l_state l)) = Some f -> fact_expired f now = false.

(** No disabled flag is stored for [id]. *)
Definition no_flag (l : loc) (id : string) : Prop :=
  forall f, alookup (prop_id id "disabled") (st_facts (l_state l)) = Some f -> jget "!disabled" f = None.

(** * A. Isolation (C09) *)

(** A1 *)
Definition step_wf_statement : Prop :=
  forall sy name c e op sy' r,
    sys_wf sy -> sys_step sy name c e op = (sy', r) -> sys_wf sy'.

Definition step_frame_local_statement : Prop :=
  forall sy name c e op sy' r,
    is_walk op = false ->
    sys_step sy name c e op = (sy', r) ->
    forall other, other <> name -> sys_get sy' other = sys_get sy other.

(** * B. Rule lifecycle (C10) *)

(** B1: what FindRules.Do keeps of the candidate rules. *)
Definition child_of (l : loc) (ev : json) (now : Z) (kv : string * json) : list (string * list bindings) :=
  let '(id, body) := kv in
  if snd (rule_enabled l id now) then
    match when_pattern body with
    | Some p => match core_match p ev [] with
                | Ok [] => []
                | Ok bss => [(id, bss)]
                | _ => []
                end
    | None => [(id, [[]])]
    end
  else [].

(** the matcher raises no error on the enabled candidates *)
Definition children_no_error (l : loc) (ev : json) (now : Z) (rules : list (string * json)) : Prop :=
  forall id body p, In (id, body) rules -> snd (rule_enabled l id now) = true ->
    when_pattern body = Some p -> exists bss, core_match p ev [] = Ok bss.

Definition children_exact_statement : Prop :=
  forall l rules ev now,
    nothing_expired l now -> children_no_error l ev now rules ->
    find_children l rules ev now [] = (l, Ok (flat_map (child_of l ev now) rules)).

Definition children_exact_in_statement : Prop :=
  forall l rules ev now id bss,
    nothing_expired l now -> children_no_error l ev now rules ->
    (In (id, bss) (flat_map (child_of l ev now) rules) <->
     exists body, In (id, body) rules /\ snd (rule_enabled l id now) = true /\
       ((exists p, when_pattern body = Some p /\ core_match p ev [] = Ok bss /\ bss <> []) \/
        (when_pattern body = None /\ bss = [[]]))).

(** The value of the property fact as stored (what get_prop returns when nothing expired). *)
Definition prop_val (l : loc) (id prop : string) : option json :=
  match alookup (prop_id id prop) (st_facts (l_state l)) with
  | Some f => jget (String.append "!" prop) f
  | None => None
  end.

(** B2 *)
Definition disable_then_not_enabled_statement : Prop :=
  forall l c e id l' now',
    st_wf (l_state l) -> nothing_expired l (e_now e) ->
    loc_enable_rule l c e id false = (l', Ok tt) ->
    prop_live l' "" "enabled" now' ->
    snd (rule_enabled l' id now') = false.

Definition enable_then_enabled_statement : Prop :=
  forall l c e id l' now',
    loc_enable_rule l c e id true = (l', Ok tt) ->
    snd (rule_enabled l' id now') = snd (enabled l' now').

Definition disable_is_per_id_statement : Prop :=
  forall l c e id id' l' now',
    st_wf (l_state l) -> nothing_expired l (e_now e) ->
    loc_enable_rule l c e id false = (l', Ok tt) ->
    id' <> id -> nothing_expired l now' ->
    snd (rule_enabled l' id' now') = snd (rule_enabled l id' now').

(** B3 *)
Definition flag_dies_with_rule_statement : Prop :=
  forall l c e id l' b,
    nothing_expired l (e_now e) ->
    loc_rem_rule l c e id = (l', Ok b) ->
    no_flag l' id /\ forall now', snd (get_prop l' id "disabled" now') = None.

Definition readd_starts_enabled_statement : Prop :=
  forall l c e id l' b c2 e2 rule l'' id2 now',
    nothing_expired l (e_now e) -> loc_rem_rule l c e id = (l', Ok b) ->
    st_wf (l_state l') -> nothing_expired l' (e_now e2) ->
    loc_add_rule l' c2 e2 id rule = (l'', Ok id2) ->
    snd (rule_enabled l'' id now') = snd (enabled l'' now').

(** B4 *)
Definition refusing_methods : list string :=
  ["AddRule"; "RemFact"; "RemRule"; "GetFact"; "GetRule"; "EnableRule"; "Clear";
   "SetParents"; "GetParents"; "searchFacts"; "searchRules"; "StateSize"].

Definition disabled_location_refuses_statement : Prop :=
  forall A l c now m (k : loc -> loc * outcome A),
    nothing_expired l now -> snd (enabled l now) = false -> In m refusing_methods ->
    gated (gates_of m) l c now k = (l, Err E_disabled).

Definition disabled_location_refuses_addfact_statement : Prop :=
  forall A l c now (k : loc -> loc * outcome A),
    nothing_expired l now -> snd (enabled l now) = false ->
    exists err, (err = E_denied \/ err = E_capacity \/ err = E_disabled) /\
                gated (gates_of "AddFact") l c now k = (l, Err err).

(** A6 *)
Definition parents_take_effect_immediately_statement : Prop :=
  forall l c e ps l' id now,
    st_wf (l_state l) -> nothing_expired l (e_now e) ->
    loc_set_parents l c e ps = (l', Ok id) ->
    get_parents l' now = (l', Ok ps).

(** A set of names closed under the parent relation. *)
Definition closed_under (sy : system) (now : Z) (S : string -> Prop) : Prop :=
  forall a b, S a -> parent_of sy now a b -> S b.

(** A2 *)
Definition step_frame_walk_statement : Prop :=
  forall sy name c e op sy' r,
    is_walk op = true ->
    sys_step sy name c e op = (sy', r) ->
    forall other, nothing_expired_opt sy other (e_now e) -> sys_get sy' other = sys_get sy other.

Definition walk_touches_only_ancestors_statement : Prop :=
  forall sy name c e op sy' r,
    is_walk op = true ->
    sys_step sy name c e op = (sy', r) ->
    forall other, ~ reach sy (e_now e) name other -> sys_get sy' other = sys_get sy other.

(** A3 *)
Definition noninterference_history_local_statement : Prop :=
  forall h sy other,
    (forall q, In q h -> r_loc q <> other /\ is_walk (r_op q) = false) ->
    sys_get (sys_run sy h) other = sys_get sy other.

(** (after the repair of D52 a read also runs the pending purge, which empties the
    list of noted ids: the untouched location must have none noted, as is the
    case between any two operations) *)
Definition noninterference_history_statement : Prop :=
  forall h sy other,
    (forall q, In q h -> r_loc q <> other) ->
    (forall l, sys_get sy other = Some l -> never_expires l /\ st_pending (l_state l) = []) ->
    sys_get (sys_run sy h) other = sys_get sy other.

Definition run_wf_statement : Prop :=
  forall h sy, sys_wf sy -> sys_wf (sys_run sy h).

(** A4 *)
Definition ancestor_walk_total_statement : Prop :=
  forall (A : Type) (visit : string -> loc -> loc * outcome A) sy name now,
    sys_wf sy -> (forall n l, snd (visit n l) <> OutOfFuel) ->
    snd (do_ancestors A visit (anc_fuel sy) sy name now [] [] []) <> OutOfFuel.

Definition ancestor_walk_fuel_irrelevant_statement : Prop :=
  forall (A : Type) (visit : string -> loc -> loc * outcome A) sy name now f,
    sys_wf sy -> (length sy < f)%nat ->
    do_ancestors A visit f sy name now [] [] [] =
    do_ancestors A visit (anc_fuel sy) sy name now [] [] [].

(** [fchain sy now [x0; ...; xn] z]: every x(i+1) is the first parent of
    the existing location x(i), and z is the first parent of xn. *)
Inductive fchain (sy : system) (now : Z) : list string -> string -> Prop :=
| fchain_last x z l ps :
    sys_get sy x = Some l -> snd (get_parents l now) = Ok (z :: ps) -> fchain sy now [x] z
| fchain_cons x y r z l ps :
    sys_get sy x = Some l -> snd (get_parents l now) = Ok (y :: ps) ->
    fchain sy now (y :: r) z -> fchain sy now (x :: y :: r) z.

Definition loop_is_reported_statement : Prop :=
  forall sy name c e xs z,
    sys_wf sy -> NoDup (name :: xs) -> fchain sy (e_now e) (name :: xs) z -> In z (name :: xs) ->
    (forall p, snd (sys_search sy name c e p true) = Err E_loop) /\
    (forall ev, snd (sys_find_rules sy name c e ev) = Err E_loop).

Definition two_cycle_reported_statement : Prop :=
  forall sy a b la lb psa psb c e,
    sys_wf sy -> a <> b ->
    sys_get sy a = Some la -> snd (get_parents la (e_now e)) = Ok (b :: psa) ->
    sys_get sy b = Some lb -> snd (get_parents lb (e_now e)) = Ok (a :: psb) ->
    (forall p, snd (sys_search sy a c e p true) = Err E_loop) /\
    (forall ev, snd (sys_find_rules sy a c e ev) = Err E_loop).

Definition self_loop_reported_statement : Prop :=
  forall sy a la psa c e,
    sys_wf sy ->
    sys_get sy a = Some la -> snd (get_parents la (e_now e)) = Ok (a :: psa) ->
    (forall p, snd (sys_search sy a c e p true) = Err E_loop) /\
    (forall ev, snd (sys_find_rules sy a c e ev) = Err E_loop).

(** A5: a chain of single parents [x0; x1; ...; xn] (child first), where
    nothing has expired and the visit of each succeeds without changing it. *)
Inductive chain_ok {A : Type} (visit : string -> loc -> loc * outcome A) (sy : system) (now : Z)
  : list string -> list A -> Prop :=
| chain_last x l r :
    sys_get sy x = Some l -> nothing_expired l now ->
    snd (get_parents l now) = Ok [] -> visit x l = (l, Ok r) ->
    chain_ok visit sy now [x] [r]
| chain_cons x y xs l r rs :
    sys_get sy x = Some l -> nothing_expired l now ->
    snd (get_parents l now) = Ok [y] -> visit x l = (l, Ok r) ->
    chain_ok visit sy now (y :: xs) rs ->
    chain_ok visit sy now (x :: y :: xs) (r :: rs).

Definition inherited_search_exact_chain_statement : Prop :=
  forall sy name c e p xs rs,
    sys_wf sy -> NoDup (name :: xs) ->
    chain_ok (fun _ l => loc_search_local l c e p) sy (e_now e) (name :: xs) rs ->
    sys_search sy name c e p true = (sy, Ok (rev (List.combine (name :: xs) rs))).

Definition local_search_ignores_parents_statement : Prop :=
  forall sy1 sy2 name c e p,
    sys_get sy1 name = sys_get sy2 name ->
    snd (sys_search sy1 name c e p false) = snd (sys_search sy2 name c e p false) /\
    sys_get (fst (sys_search sy1 name c e p false)) name =
    sys_get (fst (sys_search sy2 name c e p false)) name.

(** A7 *)
Definition events_not_pushed_down_statement : Prop :=
  forall sy name c e ev other l2,
    sys_wf sy -> ~ reach sy (e_now e) name other ->
    snd (sys_find_rules (sys_set sy other l2) name c e ev) = snd (sys_find_rules sy name c e ev).

Definition inherited_search_not_pushed_down_statement : Prop :=
  forall sy name c e p other l2,
    sys_wf sy -> ~ reach sy (e_now e) name other ->
    snd (sys_search (sys_set sy other l2) name c e p true) = snd (sys_search sy name c e p true).

(** B4, last part *)
Definition disabled_no_rule_fires_statement : Prop :=
  forall sy name l c e ev,
    sys_get sy name = Some l -> nothing_expired l (e_now e) ->
    snd (enabled l (e_now e)) = false -> snd (get_parents l (e_now e)) = Ok [] ->
    snd (sys_find_rules sy name c e ev) = Err E_disabled.

(** B5 *)
Definition reload_linear_keeps_facts_statement : Prop :=
  forall l now l',
    st_kind (l_state l) = Linear -> st_store (l_state l) = st_facts (l_state l) ->
    loc_reload l now = (l', Ok tt) ->
    st_facts (l_state l') = st_facts (l_state l).

Definition flag_survives_reload_statement : Prop :=
  forall l now l' id prop now',
    loc_reload l now = (l', Ok tt) ->
    st_facts (l_state l') = st_facts (l_state l) ->
    snd (get_prop l' id prop now') = snd (get_prop l id prop now') /\
    (nothing_expired l now' -> snd (rule_enabled l' id now') = snd (rule_enabled l id now')).

Definition flag_survives_reload_linear_statement : Prop :=
  forall l now l' id now',
    st_kind (l_state l) = Linear -> st_store (l_state l) = st_facts (l_state l) ->
    loc_reload l now = (l', Ok tt) ->
    snd (get_prop l' id "disabled" now') = snd (get_prop l id "disabled" now') /\
    (nothing_expired l now' -> snd (rule_enabled l' id now') = snd (rule_enabled l id now')).

(** A5, general acyclic ancestry *)
Definition visit_node_ok {A : Type} (visit : string -> loc -> loc * outcome A) (sy : system) (now : Z)
           (y : string) : Prop :=
  exists l ps r, sys_get sy y = Some l /\ nothing_expired l now /\
                 snd (get_parents l now) = Ok ps /\ snd (visit y l) = Ok r.

Definition acyclic_from (sy : system) (now : Z) (name : string) : Prop :=
  forall y z, reach sy now name y -> parent_of sy now y z -> ~ reach sy now z y.

Definition ancestors_first {B : Type} (sy : system) (now : Z) (groups : list (string * B)) : Prop :=
  forall l1 a r l2, groups = (l1 ++ (a, r) :: l2)%list ->
                    forall b, parent_of sy now a b -> In b (map fst l1).

(** every ancestor exactly once, ancestors first, with its own local result *)
Definition walk_result_exact {A : Type} (visit : string -> loc -> loc * outcome A) (sy : system) (now : Z)
           (name : string) (groups : list (string * A)) : Prop :=
  NoDup (map fst groups) /\
  (forall y, In y (map fst groups) <-> reach sy now name y) /\
  (forall y r, In (y, r) groups -> exists l, sys_get sy y = Some l /\ snd (visit y l) = Ok r) /\
  ancestors_first sy now groups.

Definition inherited_search_exact_dag_statement : Prop :=
  forall sy name c e p,
    sys_wf sy ->
    (forall y, reach sy (e_now e) name y ->
               visit_node_ok (fun _ l => loc_search_local l c e p) sy (e_now e) y) ->
    acyclic_from sy (e_now e) name ->
    exists groups,
      sys_search sy name c e p true = (sy, Ok groups) /\
      walk_result_exact (fun _ l => loc_search_local l c e p) sy (e_now e) name groups.

Definition dispatch_exact_dag_statement : Prop :=
  forall sy name c e ev,
    sys_wf sy ->
    (forall y, reach sy (e_now e) name y ->
               visit_node_ok (fun _ l => loc_rules_local l c e ev) sy (e_now e) y) ->
    acyclic_from sy (e_now e) name ->
    exists groups l,
      walk_result_exact (fun _ l => loc_rules_local l c e ev) sy (e_now e) name groups /\
      sys_get sy name = Some l /\
      sys_find_rules sy name c e ev =
      (sy, match merge_rules groups [] with
           | Ok rules => snd (find_children l rules ev (e_now e) [])
           | Err x => Err x
           | Panic w => Panic w
           | OutOfFuel => OutOfFuel
           end).

(** A4 for the two uses: the walk itself never exhausts its fuel; only a
    local search / candidate lookup can. *)
Definition api_walks_total_statement : Prop :=
  forall sy name c e,
    sys_wf sy ->
    (forall p, snd (sys_search sy name c e p true) = OutOfFuel ->
               exists l, snd (loc_search_local l c e p) = OutOfFuel) /\
    (forall ev, snd (sys_find_rules sy name c e ev) = OutOfFuel ->
                (exists l, snd (loc_rules_local l c e ev) = OutOfFuel) \/
                (exists l rules, snd (find_children l rules ev (e_now e) []) = OutOfFuel)).
