(** Statements for C06 (durability: the storage mirrors the memory, reload
    gives the same facts, storage failures are reported, crash containment)
    and C07 (expiry: the instant is fixed at write time, expired facts are
    never returned, stored facts are never modified).
    Definitions and statements only; proofs in DurableProofs.v. *)
From Verif Require Import Json Outcome Match PatIndex State StateSpec CascadeSpec.

(** * Definitions *)

(** The operation is an add that prepares (writes, if it gets that far) [id]. *)
Definition writes_id (id : string) (o : sop * Z) : bool :=
  match o with
  | (SAdd given x fresh aux, now) =>
      match prepare_fact given x now fresh aux with
      | Ok (id', _) => String.eqb id' id
      | _ => false
      end
  | _ => false
  end.

(** Every fact in memory is a fixpoint of PrepareFact (as long as it is not expired). *)
Definition prepared (s : state) : Prop :=
  forall id fact, alookup id (st_facts s) = Some fact ->
    forall now', fact_expired fact now' = false -> prepare_fact id fact now' id None = Ok (id, fact).

(** [id] names a stored fact that is not expired at [now]. *)
Definition live (s : state) (id : string) (now : Z) : Prop :=
  exists fact, alookup id (st_facts s) = Some fact /\ fact_expired fact now = false.

(** The indexed state can (re-)index the fact without error, whatever the
    state and the id (the error of [st_add_mem_idx] depends on the fact only). *)
Definition indexable_fact (fact : json) : Prop :=
  forall s id, snd (st_add_mem_idx s id fact) = None.

Definition all_indexable_in (s : state) : Prop :=
  forall id fact, alookup id (st_facts s) = Some fact -> indexable_fact fact.

(** [j] is in the storage (or in the memory) of [s] and no longer in that of [s']. *)
Definition lost_between (s s' : state) (j : string) : Prop :=
  (alookup j (st_store s) <> None /\ alookup j (st_store s') = None) \/
  (alookup j (st_facts s) <> None /\ alookup j (st_facts s') = None).

(** The rule body that FindRules returns for a fact, per state kind. *)
Definition rule_body_of (k : skind) (fact body : json) : Prop :=
  match k with
  | Indexed => extract_rule fact true = Ok (Some body)
  | Linear => jget "rule" fact = Some body
  end.

(** * A. Durability (C06) *)

(** A1: without storage failure (and without cron hooks) the storage and the
    memory hold the same facts, in every reachable state of either kind. *)
Definition store_mirrors_memory_statement : Prop :=
  forall k ops, let s := reachable k false None ops in st_store s = st_facts s.

(** ... and with the hooks installed, whatever the hooks reject (both kinds ask
    the hook before anything is written). *)
Definition store_mirrors_memory_hooks_statement : Prop :=
  forall k hooks ops,
    let s := reachable k hooks None ops in st_store s = st_facts s.

(** An add that the add hook rejects reports the hook's error and leaves the
    state - memory, indexes, storage, even the count of storage calls - exactly
    as it was, in both state kinds.  (The indexed state can report the error of
    the rule extraction, which comes first, instead.) *)
Definition hook_reject_leaves_no_residue_statement : Prop :=
  forall s g x now fr aux id fact e,
    prepare_fact g x now fr aux = Ok (id, fact) ->
    add_hook_err s fact = Some e ->
    fst (st_add s g x now fr aux) = s /\
    (exists e', snd (st_add s g x now fr aux) = Err e') /\
    (st_kind s = Linear -> snd (st_add s g x now fr aux) = Err e).

(** well-formedness (sorted association lists) in every reachable state, both
    kinds, any failure *)
Definition reachable_wf_statement : Prop :=
  forall k hooks fail ops, st_wf (reachable k hooks fail ops).

(** A2: PrepareFact is idempotent on what it produced. *)
Definition prepare_idempotent_statement : Prop :=
  forall given x now fresh aux id fact now',
    prepare_fact given x now fresh aux = Ok (id, fact) ->
    fact_expired fact now' = false ->
    prepare_fact id fact now' id None = Ok (id, fact).

Definition prepared_reachable_statement : Prop :=
  forall k hooks fail ops, prepared (reachable k hooks fail ops).

Definition indexable_reachable_statement : Prop :=
  forall hooks fail ops, all_indexable_in (reachable Indexed hooks fail ops).

(** A3: loading the storage of a state gives back the same facts. *)
Definition reload_same_facts_statement : Prop :=
  forall s now,
    st_wf s -> prepared s -> st_store s = st_facts s -> no_expired s now ->
    (st_kind s = Indexed -> all_indexable_in s) ->
    exists s', st_load (st_kind s) (st_hooks s) (st_store s) now = (s', Ok tt) /\
               st_facts s' = st_facts s /\ st_store s' = st_store s /\
               st_kind s' = st_kind s /\ st_hooks s' = st_hooks s /\
               (st_kind s = Indexed -> st_wf s' /\ Idx_sup s').

Definition reload_equiv_reachable_statement : Prop :=
  forall k ops now,
    let s := reachable k false None ops in
    no_expired s now ->
    exists s', st_load k false (st_store s) now = (s', Ok tt) /\
               st_facts s' = st_facts s /\ st_store s' = st_store s /\
               (k = Indexed -> st_wf s' /\ Idx_sup s').

Definition reload_equiv_reachable_hooks_statement : Prop :=
  forall k hooks ops now,
    let s := reachable k hooks None ops in
    no_expired s now ->
    exists s', st_load k hooks (st_store s) now = (s', Ok tt) /\
               st_facts s' = st_facts s /\ st_store s' = st_store s /\
               (k = Indexed -> st_wf s' /\ Idx_sup s').

(** A4: the mutating operation into which the failing storage call falls
    reports an error. *)
Definition storage_failure_is_reported_statement : Prop :=
  (forall s g x now fr aux n,
     st_fail s = Some n ->
     (st_calls s <= n < st_calls (fst (st_add s g x now fr aux)))%nat ->
     exists e, snd (st_add s g x now fr aux) = Err e) /\
  (forall s id now n,
     st_fail s = Some n -> no_expired s now ->
     (st_calls s <= n < st_calls (fst (st_Rem s id now)))%nat ->
     exists e, snd (st_Rem s id now) = Err e) /\
  (forall s n,
     st_fail s = Some n ->
     (st_calls s <= n < st_calls (fst (st_clear s)))%nat ->
     exists e, snd (st_clear s) = Err e).

(** A5: crash containment. *)
Definition ops_touch_only_named_ids_statement : Prop :=
  (* add touches only the id it prepared, whatever the outcome *)
  (forall s g x now fr aux id fact,
     prepare_fact g x now fr aux = Ok (id, fact) ->
     forall j, j <> id ->
       alookup j (st_store (fst (st_add s g x now fr aux))) = alookup j (st_store s) /\
       alookup j (st_facts (fst (st_add s g x now fr aux))) = alookup j (st_facts s)) /\
  (forall s g x now fr aux,
     (forall p, prepare_fact g x now fr aux <> Ok p) -> fst (st_add s g x now fr aux) = s) /\
  (* Rem only loses keys (any state, any failure) *)
  (forall s id now,
     (forall j v, alookup j (st_store (fst (st_Rem s id now))) = Some v -> alookup j (st_store s) = Some v) /\
     (forall j f, alookup j (st_facts (fst (st_Rem s id now))) = Some f -> alookup j (st_facts s) = Some f)) /\
  (* linear state: what Rem loses is in the deleteWith closure (any failure) *)
  (forall s id now,
     st_kind s = Linear -> no_expired s now ->
     forall k, lost_between s (fst (st_Rem s id now)) k -> Clo s id k) /\
  (* reads of a state without expired facts (and without a pending purge: the
     list of noted ids is empty between any two operations) change nothing at all *)
  (forall s now, no_expired s now -> st_pending s = [] ->
     (forall id, fst (st_get s id now) = s) /\
     (forall p, fst (st_search s p now) = s) /\
     (forall ev, fst (st_find_rules s ev now) = s)).

(** * B. Expiry (C07) *)

(** B1: the expiry instant is fixed when the item is written. *)
Definition expiry_instant_fixed_at_write_statement : Prop :=
  forall given x now fresh aux id fact,
    prepare_fact given x now fresh aux = Ok (id, fact) ->
    (forall v, alookup "ttl" (jO x) = Some (JNum v) -> fact_expires fact = now + v) /\
    (forall d n, alookup "ttl" (jO x) = Some (JStr d) -> parse_secs d = Some n ->
                 fact_expires fact = now + n) /\
    (forall E, alookup "ttl" (jO x) = None -> alookup "expires" (jO x) = Some (JNum E) ->
               fact_expires fact = E) /\
    (forall str, alookup "ttl" (jO x) = None -> alookup "expires" (jO x) = Some (JStr str) ->
                 exists v, aux = Some v /\ fact_expires fact = v) /\
    (alookup "ttl" (jO x) = None -> alookup "expires" (jO x) = None -> fact_expires fact = 0) /\
    jget "ttl" fact = None /\
    fact_expired fact now = false /\
    (forall r, jget "rule" fact = Some (JObj r) -> fact_expires fact <> 0 ->
               alookup "expires" r = Some (JNum (fact_expires fact))).

(** B2 *)
Definition expired_write_rejected_statement : Prop :=
  forall given x now fresh aux id m E,
    gen_id (jO x) given fresh = Ok id ->
    set_expires (jO x) now aux = Ok (m, true, E) -> E <> 0 -> E <= now ->
    prepare_fact given x now fresh aux = Err "expired".

(** B3: a stored fact is never modified: whatever a step leaves under an id
    was there before, unless the step is an add that prepares that id. *)
Definition stored_facts_never_modified_statement : Prop :=
  forall s o id f',
    alookup id (st_facts (sstep s o)) = Some f' ->
    alookup id (st_facts s) = Some f' \/ writes_id id o = true.

Definition expiry_instant_never_moves_statement : Prop :=
  forall k hooks fail ops1 ops2 id f2,
    forallb (fun o => negb (writes_id id o)) ops2 = true ->
    alookup id (st_facts (reachable k hooks fail (ops1 ++ ops2))) = Some f2 ->
    alookup id (st_facts (reachable k hooks fail ops1)) = Some f2.

(** B4 *)
Definition get_visible_iff_statement : Prop :=
  forall s id now fact,
    snd (st_get s id now) = Ok fact <->
    alookup id (st_facts s) = Some fact /\ fact_expired fact now = false.

Definition removal_never_errs_without_failure_statement : Prop :=
  forall s id now, st_fail s = None -> exists had, snd (st_rem s id now) = Ok had.

(** An expired item that a Get meets is never returned: the answer is "not
    found" (whatever the storage does: the error of a failed purge is logged),
    and when no storage call fails the item has left the memory and the
    storage by the time the Get returns. *)
Definition purged_once_seen_statement : Prop :=
  forall s id now fact,
    alookup id (st_facts s) = Some fact -> fact_expired fact now = true ->
    snd (st_get s id now) = Err "notfound" /\
    (st_fail s = None ->
     alookup id (st_facts (fst (st_get s id now))) = None /\
     alookup id (st_store (fst (st_get s id now))) = None).

(** B5 *)
Definition search_never_returns_expired_statement : Prop :=
  forall s p now s' res,
    st_search s p now = (s', Ok res) ->
    forall id bss, In (id, bss) res -> live s id now.

Definition find_never_returns_expired_statement : Prop :=
  forall s ev now s' l,
    st_find_rules s ev now = (s', Ok l) ->
    forall id body, In (id, body) l ->
      exists fact, alookup id (st_facts s) = Some fact /\ fact_expired fact now = false /\
                   rule_body_of (st_kind s) fact body.

(** B6 *)
Definition never_expires_without_expiry_statement : Prop :=
  forall fact, fact_expires fact = 0 -> forall now, fact_expired fact now = false.

Definition load_drops_expired_statement : Prop :=
  forall hooks store now s' r,
    st_load Indexed hooks store now = (s', r) -> no_expired s' now.
