(** Statements of the service-layer theorems (property C18).  Proofs are in
    ServiceProofs.v.  The lexical layers are not modelled (see Service.v):
    what the theorems need about the printers of the lexical layer is the
    explicit hypothesis [lexical_ok]. *)
From Verif Require Import Json Outcome Service CorrService DispatchTable.

(** * DWIMURI *)

Definition dwim_idempotent_statement : Prop :=
  forall s, dwim_uri (dwim_uri s) = dwim_uri s.

Fixpoint no_char (c : ascii) (s : string) : bool :=
  match s with EmptyString => true | String d r => negb (Ascii.eqb c d) && no_char c r end.

Definition starts_slash (s : string) : bool :=
  match s with String c _ => Ascii.eqb c "/" | EmptyString => false end.

Fixpoint all_verchars (s : string) : bool :=
  match s with EmptyString => true | String c r => is_verchar c && all_verchars r end.

(** A version prefix: "/" or "/v" followed by at least one of [.0-9]. *)
Definition is_version (v : string) : bool :=
  match v with
  | String c0 (String c1 r) =>
      Ascii.eqb c0 "/" &&
      ((is_verchar c1 && all_verchars r) ||
       (Ascii.eqb c1 "v" && negb (String.eqb r "") && all_verchars r))
  | _ => false
  end.

(** A uri in the form the dispatcher compares with: it starts with "/api",
    has no '?', and what follows "/api" starts with '/', is not itself
    version-like and does not start with "/api" again. *)
Definition normal_uri (u : string) : bool :=
  has_prefix "/api" u && no_char "?" u &&
  starts_slash (strip_api u) &&
  negb (has_prefix "/api" (strip_api u)) &&
  String.eqb (drop_version (strip_api u)) (strip_api u).

Definition variant_ok (pv : prefix_variant) : bool :=
  match pv with
  | PAsIs | PNoApi => true
  | PVersion v | PVersionNoApi v => is_version v
  end.

(** What DWIMURI normalises, exactly: the query string is dropped (up to the
    next newline); one leading version "/v?[.0-9]+" is dropped; "/api" is
    prepended unless the text already starts with "/api".  Hence for a normal
    uri all of: as is, without "/api", with a version prefix (with or without
    "/api"), and each of them followed by a query string, normalise to it. *)
Definition dwim_prefix_variants_statement : Prop :=
  forall u pv q,
    normal_uri u = true -> variant_ok pv = true -> no_char nl q = true ->
    dwim_uri (vary pv u) = u /\
    dwim_uri (String.append (vary pv u) (String "?" q)) = u.

(** The general facts behind it. *)
Definition dwim_keeps_api_statement : Prop :=
  forall u, has_prefix "/api" u = true -> no_char "?" u = true -> dwim_uri u = u.
Definition dwim_adds_api_statement : Prop :=
  forall u, has_prefix "/api" u = false -> no_char "?" u = true -> drop_version u = u ->
            dwim_uri u = String.append "/api" u.
Definition dwim_drops_version_statement : Prop :=
  forall v t, is_version v = true -> no_char "?" v = true -> no_char "?" t = true ->
              starts_slash t = true ->
              dwim_uri (String.append v t) = if has_prefix "/api" t then t else String.append "/api" t.

(** Not everything that looks like a path survives: a segment that looks like
    a version is eaten, and "/api" is recognised as a bare string prefix. *)
Definition dwim_eats_versionlike_segment_counterexample_statement : Prop :=
  dwim_uri "/1.0" = "/api" /\ dwim_uri "/api/v2/x" = "/api/v2/x" /\ dwim_uri "/v2/x" = "/api/x" /\
  dwim_uri "/apiary" = "/apiary" /\ dwim_uri "/.hidden" = "/apihidden".

(** * Decoding is independent of the encoding *)

Record lexical_ok (P : printers) : Prop := {
  lx_json_brace : forall o, starts_brace (pr_json P o) = true;
  lx_yaml_newline : forall o, has_newline (pr_yaml P o) = true;
  lx_form_nonempty : forall l, l <> [] -> pr_form P l <> "";
  lx_form_nobrace : forall l, starts_brace (pr_form P l) = false;
  lx_form_nonewline : forall l, has_newline (pr_form P l) = false }.

Definition names (r : logical_request) : list string := map fst (lr_params r).

Definition untyped (p : string) : bool :=
  match alookup p svc_parameter_types with None => true | Some _ => false end.

(** map-valued parameters travel under names declared "json" in
    parameterTypes; text and boolean parameters under undeclared names *)
Definition wt_param (kv : string * lval) : bool :=
  match snd kv with LMap _ => typed_json (fst kv) | _ => untyped (fst kv) end.

Definition well_typed (r : logical_request) : Prop :=
  NoDup (names r) /\ ~ In "uri" (names r) /\ forallb wt_param (lr_params r) = true /\
  normal_uri (lr_uri r) = true /\
  lr_uri r <> "/api/json" /\ lr_uri r <> "/api/yaml".

(** a form body must not be empty (D24) *)
Definition supported (r : logical_request) (e : encoding) : Prop :=
  variant_ok (e_prefix e) = true /\
  (e_kind e = EForm -> lr_params r <> []).

(** how a getter sees a logical value *)
Definition sees (m : params) (p : string) (v : lval) : Prop :=
  match v with
  | LStr s => get_string_param m p true = (s, true, None)
  | LBool b => get_bool_param m p true = (b, true, None)
  | LMap o => get_map_param m p true = (Some o, true, None)
  end.

Definition decodes_to (rq : request) (r : logical_request) (m : params) : Prop :=
  decode svc_parameter_types rq = Ok (lr_uri r, m) /\
  (forall p v, In (p, v) (lr_params r) -> sees m p v) /\
  (forall p, ~ In p (names r) -> p <> "uri" -> alookup p m = None).

(** Every supported rendering of a well-typed logical request decodes to the
    request's uri and parameters. *)
Definition decode_render_statement : Prop :=
  forall P r e, lexical_ok P -> well_typed r -> supported r e ->
    exists m, decodes_to (render P r e) r m.

(** For any two supported encodings the dispatcher receives the same uri and
    the getters see the same parameters. *)
Definition decode_encoding_independent_statement : Prop :=
  forall P r e1 e2, lexical_ok P -> well_typed r -> supported r e1 -> supported r e2 ->
    exists u m1 m2,
      decode svc_parameter_types (render P r e1) = Ok (u, m1) /\
      decode svc_parameter_types (render P r e2) = Ok (u, m2) /\
      (forall p v, In (p, v) (lr_params r) -> sees m1 p v /\ sees m2 p v) /\
      (forall p, ~ In p (names r) -> p <> "uri" -> alookup p m1 = None /\ alookup p m2 = None).

(** * The service performs the direct call *)

Inductive lkind := KStr | KBool | KMap.
Definition kind_of (v : lval) : lkind :=
  match v with LStr _ => KStr | LBool _ => KBool | LMap _ => KMap end.
Definition lkind_eqb (a b : lkind) : bool :=
  match a, b with KStr, KStr | KBool, KBool | KMap, KMap => true | _, _ => false end.

(** The signature of each operation: (parameter, kind, required). *)
Definition signatures : list (string * list (string * lkind * bool)) := [
  ("/api/loc/admin/clear", [("location", KStr, true)]);
  ("/api/loc/admin/create", [("location", KStr, true)]);
  ("/api/loc/admin/delete", [("location", KStr, true)]);
  ("/api/loc/admin/size", [("location", KStr, true)]);
  ("/api/loc/admin/stats", [("location", KStr, true)]);
  ("/api/loc/admin/updatedmem", [("location", KStr, true)]);
  ("/api/loc/events/ingest", [("event", KMap, true); ("location", KStr, true)]);
  ("/api/loc/facts/add", [("fact", KMap, true); ("location", KStr, true); ("id", KStr, false)]);
  ("/api/loc/facts/get", [("id", KStr, true); ("location", KStr, true)]);
  ("/api/loc/facts/query", [("query", KMap, true); ("location", KStr, true)]);
  ("/api/loc/facts/rem", [("id", KStr, true); ("location", KStr, true)]);
  ("/api/loc/facts/replace", [("pattern", KMap, true); ("fact", KMap, true); ("location", KStr, true);
                              ("id", KStr, false); ("inherited", KBool, false)]);
  ("/api/loc/facts/search", [("pattern", KMap, true); ("location", KStr, true); ("inherited", KBool, false)]);
  ("/api/loc/facts/take", [("pattern", KMap, true); ("location", KStr, true); ("inherited", KBool, false)]);
  ("/api/loc/parents", [("location", KStr, true); ("set", KStr, false)]);
  ("/api/loc/rules/add", [("rule", KMap, true); ("location", KStr, true); ("id", KStr, false)]);
  ("/api/loc/rules/disable", [("id", KStr, true); ("location", KStr, true)]);
  ("/api/loc/rules/enable", [("id", KStr, true); ("location", KStr, true)]);
  ("/api/loc/rules/enabled", [("id", KStr, true); ("location", KStr, true)]);
  ("/api/loc/rules/list", [("location", KStr, true); ("inherited", KBool, false)]);
  ("/api/loc/rules/rem", [("id", KStr, true); ("location", KStr, true)]);
  ("/api/loc/util/js", [("location", KStr, true); ("code", KStr, true)])].

Definition sig_param_ok (r : logical_request) (s : string * lkind * bool) : bool :=
  let '(n, k, req) := s in
  match lparam n r with
  | Some v => lkind_eqb (kind_of v) k
  | None => negb req
  end.

(** r fits the signature of its operation: every parameter of the signature
    is present with its kind (or absent, if optional), and r has no others. *)
Definition fits_signature (r : logical_request) : bool :=
  match alookup (lr_uri r) signatures with
  | Some sg => forallb (sig_param_ok r) sg && forallb (fun n => mem_str n (map (fun s => fst (fst s)) sg)) (names r)
  | None => false
  end.

(** Whatever the encoding, the service plans exactly the direct System call
    of the logical request (same method, same arguments). *)
Definition service_performs_direct_call_statement : Prop :=
  forall P r e, lexical_ok P -> well_typed r -> supported r e -> fits_signature r = true ->
    exists p, direct_call r = Ok p /\
              serve svc_parameter_types (render P r e) = Ok (ASingle p).

(** Inside a batch: the element is dispatched on the same map as the
    /api/json envelope, so the same call is planned. *)
Definition batch_performs_direct_calls_statement : Prop :=
  forall P rs, lexical_ok P ->
    (forall r, In r rs -> well_typed r /\ fits_signature r = true) ->
    exists ps, Forall2 (fun r p => direct_call r = Ok p) rs ps /\
               serve svc_parameter_types (render_batch P rs) = Ok (ABatch (map BPlan ps)).

(** * Missing or ill-typed parameters *)

Definition all_strs_json (j : json) : bool :=
  match j with JArr l => all_strs l | _ => false end.

(** the parameter is missing (and required) or has a type the getter rejects *)
Definition bad_for (g : string) (req : bool) (v : option json) : bool :=
  match v with
  | None => req
  | Some j =>
      if String.eqb g "GetStringParam" then
        match j with JStr _ => false | JArr l => negb (all_strs l) | _ => true end
      else if String.eqb g "getBoolParam" then
        match j with JBool _ | JStr _ => false | _ => true end
      else if String.eqb g "getMapParam" then
        match j with JObj _ => false | _ => true end
      else true
  end.

Definition loc_entries : list (string * list getter_spec) :=
  filter (fun e => has_prefix "/api/loc/" (fst e)) dispatch_getters.

(** The literal tables of the model are the tables regenerated from the Go
    source (so the theorems below are about the source's dispatch). *)
Definition model_tables_match_source_statement : Prop :=
  svc_parameter_types = parameter_types /\
  svc_loc_getters = loc_entries /\
  svc_loc_effects = filter (fun e => has_prefix "/api/loc/" (fst e) &&
                                     match snd e with [] => false | _ => true end) dispatch_effects /\
  svc_process_uris = map fst (filter (fun s => String.eqb (snd s) "ProcessRequest") dispatch_sites) /\
  svc_serve_uris = map fst (filter (fun s => String.eqb (snd s) "ServeHTTP") dispatch_sites).

(** Every map-valued parameter of an /api/loc/* case is declared "json" in
    parameterTypes and every string / bool parameter is undeclared (else the
    query-string and form encodings could not carry it). *)
Definition getter_types_consistent_statement : Prop :=
  forall uri gs g p req chk,
    In (uri, gs) loc_entries -> In (g, p, req, chk) gs ->
    (g = "getMapParam" -> typed_json p = true) /\
    (g <> "getMapParam" -> untyped p = true).

(** A getter whose error is checked aborts the request. *)
Definition checked_getter_rejects_statement : Prop :=
  forall uri gs g p req m,
    In (uri, gs) loc_entries -> In (g, p, req, true) gs ->
    bad_for g req (alookup p m) = true ->
    exists e, dispatch uri m = Err e.

(** Every required parameter of every /api/loc/* case is checked, without
    exception (by reflection over the regenerated table). *)
Definition required_are_checked_statement : Prop :=
  forall uri gs g p chk,
    In (uri, gs) loc_entries -> In (g, p, true, chk) gs -> chk = true.

(** So is the optional "id" of facts/add, rules/add and facts/replace: an id
    that is not a string is an error, not a generated id. *)
Definition optional_ids_are_checked_statement : Prop :=
  forall uri gs g req chk,
    In (uri, gs) loc_entries -> In (g, "id", req, chk) gs -> chk = true.

(** Hence: for every /api/loc/* entry of the dispatch table and every
    required parameter, a request in which it is missing or ill-typed is
    answered with an error. *)
Definition missing_or_illtyped_is_error_statement : Prop :=
  forall uri gs g p chk m,
    In (uri, gs) loc_entries -> In (g, p, true, chk) gs ->
    bad_for g true (alookup p m) = true ->
    exists e, dispatch uri m = Err e.

(** The composite operations (take = search-and-remove; replace = take, then
    add) run their inner requests on the same parameter map and return their
    errors: whatever the search rejects, take and replace reject; whatever
    the add rejects, replace rejects - BEFORE anything is taken (no plan at
    all, not a take followed by an error). *)
Definition inner_getters (uri : string) : list getter_spec :=
  match alookup uri svc_loc_getters with Some gs => gs | None => [] end.
Definition composite_reports_inner_errors_statement : Prop :=
  forall g p req m,
    bad_for g req (alookup p m) = true ->
    (In (g, p, req, true) (inner_getters "/api/loc/facts/search") ->
       (exists e, dispatch "/api/loc/facts/take" m = Err e) /\
       (exists e, dispatch "/api/loc/facts/replace" m = Err e)) /\
    (In (g, p, req, true) (inner_getters "/api/loc/facts/add") ->
       exists e, dispatch "/api/loc/facts/replace" m = Err e).

(** replace never takes and then fails to start the add: its plan is the
    take followed by the add, or nothing. *)
Definition replace_add_not_rejected_statement : Prop :=
  forall m p e, dispatch "/api/loc/facts/replace" m <> Ok (PSeq p (PErr e)).

(** At the HTTP level: if the decoded request lacks (or ill-types) such a
    parameter, ServeHTTP answers 400 before any System call. *)
Definition missing_or_illtyped_is_400_statement : Prop :=
  forall rq uri m gs g p chk,
    decode svc_parameter_types rq = Ok (uri, m) ->
    In (uri, gs) loc_entries -> In (g, p, true, chk) gs ->
    bad_for g true (alookup p m) = true ->
    exists e, serve svc_parameter_types rq = Err e.

(** * Unknown URIs *)

Definition unknown_uri_is_error_statement : Prop :=
  forall uri m, mem_str uri svc_process_uris = false -> dispatch uri m = Err "unknown uri".

Definition unknown_uri_is_400_statement : Prop :=
  forall rq uri m,
    decode svc_parameter_types rq = Ok (uri, m) ->
    mem_str uri svc_process_uris = false -> mem_str uri svc_serve_uris = false ->
    serve svc_parameter_types rq = Err "unknown uri".

(** * Never a panic *)

(** ServeHTTP (up to the System calls) never panics, on ANY abstract request
    (after the repairs of D24, D25 and D61). *)
Definition serve_never_panics_statement : Prop :=
  forall rq w, serve svc_parameter_types rq <> Panic w.

(** An empty body, or an empty text of a json-typed parameter, is a 400. *)
Definition empty_inputs_are_400_statement : Prop :=
  forall rq, in_D24 rq = true \/ in_D61 rq = true -> exists e, serve svc_parameter_types rq = Err e.

(** * Clauses the faithful model refutes (kept as findings) *)

Definition txt (s : string) : ptext := {| pt_text := s; pt_json := None; pt_yaml := None; pt_int := None |}.
Definition txt_obj (s : string) (o : obj) : ptext := {| pt_text := s; pt_json := Some o; pt_yaml := Some o; pt_int := None |}.
Definition empty_body : btext := {| bt_text := ""; bt_json := None; bt_yaml := Some []; bt_form := Some [] |}.
Definition json_text_body (s : string) (o : obj) : btext :=
  {| bt_text := s; bt_json := Some o; bt_yaml := Some o; bt_form := None |}.

(** D24: POST /api/loc/facts/add?location=here&fact={"a":1} with an empty body *)
Definition rq_D24 : request :=
  {| rq_method := "POST"; rq_path := "/api/loc/facts/add";
     rq_query := Some [("fact", txt_obj "{""a"":1}" [("a", JNum 1)]); ("location", txt "here")];
     rq_body := empty_body |}.
Definition empty_body_is_400_statement : Prop :=
  in_D24 rq_D24 = true /\ serve svc_parameter_types rq_D24 = Err "empty body".

(** D25: POST /api/loc/facts/add with the JSON body {"fact":{"a":1},"location":"here","uri":5} *)
Definition rq_D25 : request :=
  {| rq_method := "POST"; rq_path := "/api/loc/facts/add"; rq_query := Some [];
     rq_body := json_text_body "{""fact"":{""a"":1},""location"":""here"",""uri"":5}"
                  [("fact", JObj [("a", JNum 1)]); ("location", JStr "here"); ("uri", JNum 5)] |}.
(** ... and POST /api/sys/util/batch with {"requests":[{"uri":5}]} *)
Definition rq_D25_batch : request :=
  {| rq_method := "POST"; rq_path := "/api/sys/util/batch"; rq_query := Some [];
     rq_body := json_text_body "{""requests"":[{""uri"":5}]}" [("requests", JArr [JObj [("uri", JNum 5)]])] |}.
Definition nonstring_uri_is_error_statement : Prop :=
  in_D25 rq_D25 = true /\ serve svc_parameter_types rq_D25 = Err "need a string uri" /\
  in_D25 rq_D25_batch = true /\ serve svc_parameter_types rq_D25_batch = Ok (ABatch [BErr "need a string uri"]).
(** the envelopes do check: the same member in an /api/json body is a 400 *)
Definition rq_env_nonstring : request :=
  {| rq_method := "POST"; rq_path := "/api/json"; rq_query := Some [];
     rq_body := json_text_body "{""location"":""here"",""uri"":5}" [("location", JStr "here"); ("uri", JNum 5)] |}.
Definition envelope_nonstring_uri_is_400_statement : Prop :=
  serve svc_parameter_types rq_env_nonstring = Err "need a string uri".

(** D61: GET /api/loc/facts/add?location=here&fact= (empty text of a json-typed parameter) *)
Definition rq_D61 : request :=
  {| rq_method := "GET"; rq_path := "/api/loc/facts/add";
     rq_query := Some [("fact", txt ""); ("location", txt "here")]; rq_body := empty_body |}.
Definition empty_typed_param_is_400_statement : Prop :=
  in_D61 rq_D61 = true /\ serve svc_parameter_types rq_D61 = Err "unknown syntax".

(** D62 (repaired): take without a pattern, replace without a fact (nothing
    is taken), replace without a pattern: errors. *)
Definition composite_errors_are_reported_statement : Prop :=
  dispatch "/api/loc/facts/take" [("location", JStr "here")] = Err "missing" /\
  dispatch "/api/loc/facts/replace" [("location", JStr "here"); ("pattern", JObj [("a", JStr "?x")])] = Err "missing" /\
  dispatch "/api/loc/facts/replace" [("fact", JObj []); ("location", JStr "here")] = Err "missing" /\
  dispatch "/api/loc/facts/replace" [("fact", JObj []); ("id", JNum 5); ("location", JStr "here"); ("pattern", JObj [])] = Err "wrongtype" /\
  dispatch "/api/loc/facts/replace" [("fact", JObj []); ("location", JStr "here"); ("pattern", JObj [])] =
    Ok (PSeq (PCall "SearchFacts" [JStr "here"; JObj []; JBool false] true)
             (PCall "AddFact" [JStr "here"; JStr ""; JObj []] false)).

(** D63 (repaired): a missing "code" and an ill-typed optional "id" are
    errors; an absent id is still fine. *)
Definition getter_errors_are_reported_statement : Prop :=
  dispatch "/api/loc/util/js" [("location", JStr "here")] = Err "missing" /\
  dispatch "/api/loc/facts/add" [("fact", JObj []); ("id", JNum 5); ("location", JStr "here")] = Err "wrongtype" /\
  dispatch "/api/loc/rules/add" [("id", JBool true); ("location", JStr "here"); ("rule", JObj [])] = Err "wrongtype" /\
  dispatch "/api/loc/facts/add" [("fact", JObj []); ("location", JStr "here")] =
    Ok (PCall "AddFact" [JStr "here"; JStr ""; JObj []] false).

(** The hypotheses of decode_render are needed.
    (a) A "uri" member of a JSON body overrides the path: POST /api/loc/facts/get
        with {"id":"f1","location":"here","uri":"/api/loc/facts/rem"} removes f1. *)
Definition rq_uri_override : request :=
  {| rq_method := "POST"; rq_path := "/api/loc/facts/get"; rq_query := Some [];
     rq_body := json_text_body "{...}" [("id", JStr "f1"); ("location", JStr "here"); ("uri", JStr "/api/loc/facts/rem")] |}.
Definition body_uri_overrides_path_counterexample_statement : Prop :=
  serve svc_parameter_types rq_uri_override = Ok (ASingle (PCall "RemFact" [JStr "here"; JStr "f1"] false)).
(** (b) A form body without parameters is an empty body: a 400. *)
Definition empty_form_counterexample_statement : Prop :=
  forall P, pr_form P [] = "" ->
    serve svc_parameter_types
          (render P {| lr_uri := "/api/loc/admin/size"; lr_params := [] |}
                  {| e_kind := EForm; e_prefix := PAsIs; e_yaml_params := false |}) = Err "empty body".
(** (c) A map under a name that parameterTypes does not declare stays a text
        in a query string: the getter rejects it, while a JSON body works. *)
Definition undeclared_map_param_counterexample_statement : Prop :=
  forall P, lexical_ok P ->
    let r := {| lr_uri := "/api/sys/storage/set"; lr_params := [("state", LMap [])] |} in
    (exists m, decode svc_parameter_types (render P r {| e_kind := EQuery; e_prefix := PAsIs; e_yaml_params := false |}) = Ok ("/api/sys/storage/set", m) /\
               snd (get_map_param m "state" true) = Some "wrongtype") /\
    (exists m, decode svc_parameter_types (render P r {| e_kind := EJson; e_prefix := PAsIs; e_yaml_params := false |}) = Ok ("/api/sys/storage/set", m) /\
               get_map_param m "state" true = (Some [], true, None)).
(** (d) Spellings that exist in one encoding only: a JSON array of strings is
        joined by GetStringParam; a repeated query parameter is rejected. *)
Definition rq_repeated : request :=
  {| rq_method := "GET"; rq_path := "/api/loc/admin/size";
     rq_query := Some [("location", txt "he"); ("location", txt "re")]; rq_body := empty_body |}.
Definition encoding_specific_spellings_statement : Prop :=
  get_string_param [("location", JArr [JStr "he"; JStr "re"])] "location" true = ("here", true, None) /\
  serve svc_parameter_types rq_repeated = Err "need exactly one value" /\
  get_bool_param [("inherited", JStr "TRUE")] "inherited" false = (true, true, None) /\
  get_bool_param [("inherited", JStr "yes")] "inherited" false = (false, true, None).
