(** History-level proofs for the Location layer: what one request does to one
    location of the system (C20 capacity, C19 access control). *)
From Coq Require Import Lia.
From Verif Require Import Json Outcome Match PatIndex State Location SysOps.
From Verif Require Import StateSpec AssocLemmas CascadeSpec CascadeLemmas1 CascadeTerm StateProofs GateProofs CapacityProofs.
From Verif Require Import LocSpec LocBasics LocRules LocWalk LocProofs TotalSys DurableSpec DurableMirror DurableReload HistSpec.

(** * One request, seen from one location *)

Lemma with_loc_at {A} sy name (f : loc -> loc * outcome A) l :
  sys_get sy name = Some l ->
  sys_get (fst (with_loc sy name f)) name = Some (fst (f l)).
Proof.
  intros Hg. unfold with_loc. rewrite Hg. destruct (f l) as [l' r]. cbn [fst].
  apply sys_get_set_same.
Qed.

Lemma fst_let_pair {A B C} (X : A * B) (g : B -> C) : fst (let '(a, b) := X in (a, g b)) = fst X.
Proof. destruct X; reflexivity. Qed.

Lemma sys_step_local_at sy name c e op l :
  is_walk op = false -> sys_get sy name = Some l ->
  sys_get (fst (sys_step sy name c e op)) name = Some (loc_apply l c e op).
Proof.
  intros Hw Hg. destruct op; cbn [sys_step loc_apply];
    try (match goal with |- context [with_loc sy name ?f] =>
           let H := fresh "H" in
           pose proof (with_loc_at sy name f l Hg) as H; destruct (with_loc sy name f) as [sy' r]; exact H end).
  - destruct inherited; [discriminate|]. rewrite Hg.
    unfold sys_search. rewrite Hg. destruct (loc_search_local l c e pattern) as [l' r]. cbn [fst].
    apply sys_get_set_same.
  - discriminate.
Qed.

Lemma sys_step_local_other sy name c e op other :
  is_walk op = false -> other <> name ->
  sys_get (fst (sys_step sy name c e op)) other = sys_get sy other.
Proof.
  intros Hw Hne. destruct (sys_step sy name c e op) as [sy' r] eqn:E.
  exact (step_frame_local sy name c e op sy' r Hw E other Hne).
Qed.

(** A walk (inherited search, event) keeps every predicate of one location
    that the reads keep. *)
Lemma walk_pred_at (A : Type) (visit : string -> loc -> loc * outcome A) now name (G : loc -> Prop) :
  (forall n l0, G l0 -> G (fst (visit n l0))) ->
  (forall l0, G l0 -> G (fst (get_parents l0 now))) ->
  forall f sy n visiting done acc,
    (exists l', sys_get sy name = Some l' /\ G l') ->
    exists l', sys_get (w_sys A (do_ancestors A visit f sy n now visiting done acc)) name = Some l' /\ G l'.
Proof.
  intros Hv Hp f sy n visiting done acc Hi.
  assert (Hset : forall sy0 m lm lm', (exists l', sys_get sy0 name = Some l' /\ G l') ->
            sys_get sy0 m = Some lm -> (G lm -> G lm') ->
            exists l', sys_get (sys_set sy0 m lm') name = Some l' /\ G l').
  { intros sy0 m lm lm' (l' & Hg & Hs) Hm Hsub. destruct (String.eqb_spec name m) as [->|Hne].
    - rewrite sys_get_set_same. exists lm'. split; [reflexivity|].
      rewrite Hm in Hg. injection Hg as ->. apply Hsub. exact Hs.
    - rewrite sys_get_set_other by exact Hne. exists l'. split; assumption. }
  destruct (walk_rel A visit now (fun sy0 => exists l', sys_get sy0 name = Some l' /\ G l')
              (fun _ _ => True) (fun _ => True)) with (f := f) (sy := sy) (name := n)
              (visiting := visiting) (done := done) (acc := acc) as [H _]; auto.
  - intros sy0 m lm Hi0 _ Hm. split; [|exact I]. eapply Hset; [exact Hi0|exact Hm|apply Hp].
  - intros sy0 m lm Hi0 _ Hm. split; [|exact I]. eapply Hset; [exact Hi0|exact Hm|apply Hv].
Qed.

(** the reads of the Location layer keep [G] *)
Definition reads_keep (G : loc -> Prop) : Prop :=
  (forall l now, G l -> G (fst (get_parents l now))) /\
  (forall l c e p, G l -> G (fst (loc_search_local l c e p))) /\
  (forall l c e ev, G l -> G (fst (loc_rules_local l c e ev))) /\
  (forall l rules ev now acc, G l -> G (fst (find_children l rules ev now acc))).

Lemma sys_step_walk_pred G sy n c e op name :
  reads_keep G -> is_walk op = true ->
  (exists l, sys_get sy name = Some l /\ G l) ->
  exists l', sys_get (fst (sys_step sy n c e op)) name = Some l' /\ G l'.
Proof.
  intros (Kp & Ks & Kr & Kc) Hw H0. destruct (sys_step sy n c e op) as [sy' r] eqn:E. cbn [fst].
  destruct (walk_op_sys sy n c e op sy' r Hw E) as [->|[(p & ->)|(ev & Hs)]]; [exact H0| |].
  - apply walk_pred_at; [intros; apply Ks; assumption|intros; apply Kp; assumption|exact H0].
  - cbv zeta in Hs.
    pose proof (walk_pred_at _ (fun _ l0 => loc_rules_local l0 c e ev) (e_now e) name G
                  (fun _ l0 H => Kr l0 c e ev H) (fun l0 H => Kp l0 (e_now e) H) (anc_fuel sy) sy n [] [] [] H0) as H1.
    destruct Hs as [->|(ln & rules & Hn & ->)]; [exact H1|].
    destruct H1 as (l' & Hg' & Hs'). destruct (String.eqb_spec name n) as [->|Hne].
    + rewrite sys_get_set_same. eexists. split; [reflexivity|].
      rewrite Hn in Hg'. injection Hg' as ->. apply Kc. exact Hs'.
    + rewrite sys_get_set_other by exact Hne. exists l'. split; assumption.
Qed.

Lemma reads_keep_lsub l : reads_keep (fun l' => lsub l' l).
Proof.
  unfold reads_keep. split; [|split; [|split]]; intros.
  - eapply lsub_trans; [apply get_parents_lsub|assumption].
  - eapply lsub_trans; [apply loc_search_local_lsub|assumption].
  - eapply lsub_trans; [apply loc_rules_local_lsub|assumption].
  - eapply lsub_trans; [apply find_children_lsub|assumption].
Qed.

(** One request, seen from the location [name]: either it is a non-walking
    request addressed to it, or it has kept every predicate that the reads keep. *)
Lemma sys_step_pred G sy n c e op name l :
  reads_keep G -> sys_get sy name = Some l -> G l ->
  exists l', sys_get (fst (sys_step sy n c e op)) name = Some l' /\
             (G l' \/ (n = name /\ is_walk op = false /\ l' = loc_apply l c e op)).
Proof.
  intros HK Hg HG. destruct (is_walk op) eqn:Hw.
  - destruct (sys_step_walk_pred G sy n c e op name HK Hw) as (l' & H1 & H2); [exists l; auto|]. exists l'. auto.
  - destruct (String.eqb_spec n name) as [->|Hne].
    + exists (loc_apply l c e op). split; [apply sys_step_local_at; assumption|]. right. auto.
    + exists l. split; [rewrite sys_step_local_other by auto; exact Hg|left; exact HG].
Qed.

Lemma sys_step_at sy n c e op name l :
  sys_get sy name = Some l ->
  exists l', sys_get (fst (sys_step sy n c e op)) name = Some l' /\
             (lsub l' l \/ (n = name /\ is_walk op = false /\ l' = loc_apply l c e op)).
Proof.
  intros Hg. apply (sys_step_pred (fun l' => lsub l' l)); [apply reads_keep_lsub|exact Hg|apply lsub_refl].
Qed.

(** * A. Capacity *)

Definition within (M : Z) (l : loc) : Prop := l_max l = M /\ lcount l <= M.

Lemma lsub_count l' l : lsub l' l -> lcount l' <= lcount l.
Proof.
  intros (H & _). unfold lcount. apply fsub_length in H. lia.
Qed.

Lemma lsub_within M l' l : lsub l' l -> within M l -> within M l'.
Proof.
  intros Hs [Hm Hc]. pose proof (lsub_count _ _ Hs). destruct Hs as (_ & _ & Hmax).
  split; [congruence|lia].
Qed.

(** gates that passed and contain the capacity gate leave room for one more *)
Lemma run_gates_room gs : forall l c now l',
  run_gates gs l c now = (l', None) -> In GCapacity gs -> lcount l' < l_max l'.
Proof.
  induction gs as [|g gs IH]; intros l c now l' Hr Hin; [destruct Hin|].
  cbn [run_gates] in Hr.
  assert (Hcase : forall (l1 : loc) (pass : bool) (er : string),
             (if pass then run_gates gs l1 c now else (l1, Some er)) = (l', None) ->
             pass = true /\ run_gates gs l1 c now = (l', None)).
  { intros l1 pass er Hp. destruct pass; [split; [reflexivity|exact Hp]|discriminate]. }
  destruct g.
  - destruct (enabled l now) as [l1 b]. destruct (Hcase _ _ _ Hr) as [_ Hr'].
    destruct Hin as [Hin|Hin]; [discriminate|]. eapply IH; eauto.
  - destruct (check_write l c now) as [l1 b]. destruct (Hcase _ _ _ Hr) as [_ Hr'].
    destruct Hin as [Hin|Hin]; [discriminate|]. eapply IH; eauto.
  - destruct (check_read l c now) as [l1 b]. destruct (Hcase _ _ _ Hr) as [_ Hr'].
    destruct Hin as [Hin|Hin]; [discriminate|]. eapply IH; eauto.
  - destruct (Hcase l (negb (at_capacity l)) E_capacity Hr) as [Hp Hr'].
    pose proof (run_gates_lsub gs l c now) as Hs. rewrite Hr' in Hs. cbn [fst] in Hs.
    pose proof (lsub_count _ _ Hs) as Hc. destruct Hs as (_ & _ & Hmax).
    unfold at_capacity in Hp. apply Bool.negb_true_iff in Hp. apply Z.leb_gt in Hp.
    unfold lcount in *. lia.
Qed.

Lemma lift_add_within {B} M l s given x now fresh aux (f : string -> B) :
  l_max l = M -> lcount l < M -> s = l_state l ->
  within M (fst (lift l (st_add s given x now fresh aux) f)).
Proof.
  intros Hm Hc ->. unfold lift, within, lcount, upd_state in *. cbn [fst l_max l_state].
  pose proof (st_add_len (l_state l) given x now fresh aux) as H. unfold nfacts in *.
  split; [exact Hm|lia].
Qed.

Lemma gated_add_within M gs l c now (k : loc -> loc * outcome string) :
  within M l -> In GCapacity gs ->
  (forall l0, l_max l0 = M -> lcount l0 < M -> within M (fst (k l0))) ->
  within M (fst (gated gs l c now k)).
Proof.
  intros Hw Hin Hk. unfold gated. pose proof (run_gates_lsub gs l c now) as Hs.
  destruct (run_gates gs l c now) as [l' [er|]] eqn:Hr; cbn [fst] in *.
  - eapply lsub_within; eassumption.
  - pose proof (run_gates_room gs l c now l' Hr Hin) as Hroom.
    pose proof (lsub_within M _ _ Hs Hw) as [Hm _]. apply Hk; [exact Hm|lia].
Qed.

Lemma loc_add_fact_within M l c e id fact : within M l -> within M (fst (loc_add_fact l c e id fact)).
Proof.
  intros Hw. unfold loc_add_fact. apply gated_add_within; [exact Hw|vm_compute; tauto|].
  intros l0 Hm Hc. apply lift_add_within; auto.
Qed.

Lemma loc_add_rule_within M l c e id rule : within M l -> within M (fst (loc_add_rule l c e id rule)).
Proof.
  intros Hw. unfold loc_add_rule. apply gated_add_within; [exact Hw|vm_compute; tauto|].
  intros l0 Hm Hc.
  assert (H0 : within M l0) by (split; [exact Hm|lia]).
  destruct (rule_from_map rule); cbn [fst]; try exact H0.
  destruct (set_expires (jO rule) (e_now e) (e_aux e)) as [[[rm ex] E]|x|w|]; cbn [fst]; try exact H0.
  apply lift_add_within; auto.
Qed.

Lemma lsub_rem_fact l c e id : lsub (fst (loc_rem_fact l c e id)) l.
Proof. unfold loc_rem_fact. apply gated_lsub. intros l0. apply lift_lsub. apply st_Rem_fsub. Qed.

Lemma lsub_rem_rule l c e id : lsub (fst (loc_rem_rule l c e id)) l.
Proof.
  unfold loc_rem_rule. apply gated_lsub. intros l0.
  pose proof (st_Rem_fsub (l_state l0) id (e_now e)) as H1.
  destruct (st_Rem (l_state l0) id (e_now e)) as [s o]. cbn [fst] in H1.
  assert (Hl1 : lsub (upd_state l0 s) l0) by (apply lsub_upd; exact H1).
  destruct o as [b|x|w|]; cbn [fst]; try exact Hl1.
  pose proof (get_prop_lsub (upd_state l0 s) id "disabled" (e_now e)) as H2.
  destruct (get_prop (upd_state l0 s) id "disabled" (e_now e)) as [l2 [v|]]; cbn [fst] in *.
  - eapply lsub_trans; [|eapply lsub_trans; [exact H2|exact Hl1]].
    apply lift_lsub. apply st_Rem_fsub.
  - eapply lsub_trans; eassumption.
Qed.

Lemma lsub_get_fact l c e id : lsub (fst (loc_get_fact l c e id)) l.
Proof. unfold loc_get_fact. apply gated_lsub. intros l0. apply lift_lsub. apply st_get_fsub. Qed.

Lemma lsub_get_rule l c e id : lsub (fst (loc_get_rule l c e id)) l.
Proof.
  unfold loc_get_rule. apply gated_lsub. intros l0.
  pose proof (st_get_fsub (l_state l0) id (e_now e)) as H1.
  destruct (st_get (l_state l0) id (e_now e)) as [s [f|x|w|]]; cbn [fst] in *; apply lsub_upd; exact H1.
Qed.

Lemma lsub_enable_true l c e id : lsub (fst (loc_enable_rule l c e id true)) l.
Proof. unfold loc_enable_rule. apply gated_lsub. intros l0. apply lift_lsub. apply st_Rem_fsub. Qed.

Lemma lsub_get_parents l c e : lsub (fst (loc_get_parents l c e)) l.
Proof. unfold loc_get_parents. apply gated_lsub. intros l0. apply get_parents_lsub. Qed.

Lemma lsub_size l c e : lsub (fst (loc_size l c e)) l.
Proof. unfold loc_size. apply gated_lsub. intros l0. apply lsub_refl. Qed.

Lemma st_clear_count s : (length (st_facts (fst (st_clear s))) <= length (st_facts s))%nat.
Proof.
  unfold st_clear, store_call.
  destruct (match st_fail s with Some n => Nat.eqb n (st_calls s) | None => false end);
    destruct (st_kind s); cbn [fst st_facts set_facts set_store set_pindex set_tindex length]; lia.
Qed.

Lemma loc_clear_within M l c e : within M l -> within M (fst (loc_clear l c e)).
Proof.
  intros Hw. unfold loc_clear, gated. pose proof (run_gates_lsub (gates_of "Clear") l c (e_now e)) as Hs.
  destruct (run_gates (gates_of "Clear") l c (e_now e)) as [l' [er|]]; cbn [fst] in *.
  - eapply lsub_within; eassumption.
  - destruct (lsub_within M _ _ Hs Hw) as [Hm Hc]. unfold lift, within, lcount, upd_state in *. cbn [fst l_max l_state].
    pose proof (st_clear_count (l_state l')). split; [exact Hm|lia].
Qed.

Lemma loc_apply_within M l c e op :
  is_walk op = false -> cap_safe_op op = true -> within M l -> within M (loc_apply l c e op).
Proof.
  intros Hw Hs Hin. destruct op; cbn [loc_apply]; try discriminate.
  - apply loc_add_fact_within; exact Hin.
  - apply loc_add_rule_within; exact Hin.
  - eapply lsub_within; [apply lsub_rem_fact|exact Hin].
  - eapply lsub_within; [apply lsub_rem_rule|exact Hin].
  - eapply lsub_within; [apply lsub_get_fact|exact Hin].
  - eapply lsub_within; [apply lsub_get_rule|exact Hin].
  - destruct enable; [|discriminate]. eapply lsub_within; [apply lsub_enable_true|exact Hin].
  - apply loc_clear_within; exact Hin.
  - eapply lsub_within; [apply lsub_get_parents|exact Hin].
  - eapply lsub_within; [apply lsub_size|exact Hin].
  - exact Hin.
  - eapply lsub_within; [apply loc_search_local_lsub|exact Hin].
Qed.

Lemma sys_do_within M name sy q :
  (r_loc q = name -> cap_safe_op (r_op q) = true) ->
  (exists l, sys_get sy name = Some l /\ within M l) ->
  exists l, sys_get (sys_do sy q) name = Some l /\ within M l.
Proof.
  intros Hq (l & Hg & Hw). unfold sys_do.
  destruct (sys_step_at sy (r_loc q) (r_ctx q) (r_env q) (r_op q) name l Hg) as (l' & Hg' & [Hs|(Hn & Hnw & ->)]).
  - exists l'. split; [exact Hg'|eapply lsub_within; eassumption].
  - eexists. split; [exact Hg'|]. apply loc_apply_within; auto.
Qed.

Theorem capacity_invariant_adds_only_main : capacity_invariant_adds_only_statement.
Proof.
  intros h sy name l Hg Hc Hh.
  assert (H : exists l', sys_get (sys_run sy h) name = Some l' /\ within (l_max l) l').
  { assert (H0 : exists l', sys_get sy name = Some l' /\ within (l_max l) l')
      by (exists l; split; [exact Hg|split; [reflexivity|exact Hc]]).
    clear Hg Hc. revert sy H0. induction h as [|q h IH]; intros sy H0; [exact H0|].
    cbn [sys_run fold_left]. apply IH.
    - intros q' Hin. apply Hh. right. exact Hin.
    - apply sys_do_within; [apply Hh; left; reflexivity|exact H0]. }
  destruct H as (l' & Hg' & Hm & Hc'). exists l'. auto.
Qed.

(** * State predicates that every state operation keeps are kept by every
      request of the Location API but Reload *)
Section LocQ.
  Variable Q : state -> Prop.
  Hypothesis Q_step : forall s o, Q s -> Q (sstep s o).

  Lemma Q_get s id now : Q s -> Q (fst (st_get s id now)).
  Proof. exact (Q_step s (SGet id, now)). Qed.
  Lemma Q_Rem s id now : Q s -> Q (fst (st_Rem s id now)).
  Proof. exact (Q_step s (SRem id, now)). Qed.
  Lemma Q_add s g x now fr aux : Q s -> Q (fst (st_add s g x now fr aux)).
  Proof. exact (Q_step s (SAdd g x fr aux, now)). Qed.
  Lemma Q_search s p now : Q s -> Q (fst (st_search s p now)).
  Proof. exact (Q_step s (SSearch p, now)). Qed.
  Lemma Q_find s ev now : Q s -> Q (fst (st_find_rules s ev now)).
  Proof. exact (Q_step s (SFind ev, now)). Qed.
  Lemma Q_clear s : Q s -> Q (fst (st_clear s)).
  Proof. exact (Q_step s (SClear, 0)). Qed.

  Lemma reads_keep_LQ : reads_keep (LQ Q).
  Proof.
    unfold reads_keep. split; [|split; [|split]].
    - intros l now H. apply (get_parents_LQ Q Q_get). exact H.
    - intros l c e p H. unfold loc_search_local. apply (gated_LQ Q Q_get); [exact H|].
      intros l0 H0. unfold lift, LQ. cbn [fst upd_state l_state]. apply Q_search. exact H0.
    - intros l c e ev H. unfold loc_rules_local. apply (gated_LQ Q Q_get); [exact H|].
      intros l0 H0. unfold lift, LQ. cbn [fst upd_state l_state]. apply Q_find. exact H0.
    - intros l rules ev now acc H. apply (find_children_LQ Q Q_get). exact H.
  Qed.

  Lemma loc_apply_LQ l c e op : op <> LReload -> LQ Q l -> LQ Q (loc_apply l c e op).
  Proof.
    intros Hop H. destruct op; cbn [loc_apply]; try congruence; try exact H.
    - unfold loc_add_fact. apply (gated_LQ Q Q_get); [exact H|]. intros l0 H0.
      unfold lift, LQ. cbn [fst upd_state l_state]. apply Q_add. exact H0.
    - unfold loc_add_rule. apply (gated_LQ Q Q_get); [exact H|]. intros l0 H0.
      destruct (rule_from_map rule); cbn [fst]; try exact H0.
      destruct (set_expires (jO rule) (e_now e) (e_aux e)) as [[[rm ex] E]|x|w|]; cbn [fst]; try exact H0.
      unfold lift, LQ. cbn [fst upd_state l_state]. apply Q_add. exact H0.
    - unfold loc_rem_fact. apply (gated_LQ Q Q_get); [exact H|]. intros l0 H0.
      unfold lift, LQ. cbn [fst upd_state l_state]. apply Q_Rem. exact H0.
    - unfold loc_rem_rule. apply (gated_LQ Q Q_get); [exact H|]. intros l0 H0.
      pose proof (Q_Rem (l_state l0) id (e_now e) H0) as H1.
      destruct (st_Rem (l_state l0) id (e_now e)) as [s o]. cbn [fst] in H1.
      assert (Hl1 : LQ Q (upd_state l0 s)) by exact H1.
      destruct o as [b|x|w|]; cbn [fst]; try exact Hl1.
      pose proof (get_prop_LQ Q Q_get (upd_state l0 s) id "disabled" (e_now e) Hl1) as H2.
      destruct (get_prop (upd_state l0 s) id "disabled" (e_now e)) as [l2 [v|]]; cbn [fst] in *; [|exact H2].
      unfold lift, LQ. cbn [fst upd_state l_state]. apply Q_Rem. exact H2.
    - unfold loc_get_fact. apply (gated_LQ Q Q_get); [exact H|]. intros l0 H0.
      unfold lift, LQ. cbn [fst upd_state l_state]. apply Q_get. exact H0.
    - unfold loc_get_rule. apply (gated_LQ Q Q_get); [exact H|]. intros l0 H0.
      pose proof (Q_get (l_state l0) id (e_now e) H0) as H1.
      destruct (st_get (l_state l0) id (e_now e)) as [s [f|x|w|]]; exact H1.
    - unfold loc_enable_rule. apply (gated_LQ Q Q_get); [exact H|]. intros l0 H0.
      destruct enable; unfold lift, LQ; cbn [fst upd_state l_state]; [apply Q_Rem|apply Q_add]; exact H0.
    - unfold loc_clear. apply (gated_LQ Q Q_get); [exact H|]. intros l0 H0.
      unfold lift, LQ. cbn [fst upd_state l_state]. apply Q_clear. exact H0.
    - unfold loc_set_parents. apply (gated_LQ Q Q_get); [exact H|]. intros l0 H0.
      unfold lift, LQ. cbn [fst upd_state l_state]. apply Q_add. exact H0.
    - unfold loc_get_parents. apply (gated_LQ Q Q_get); [exact H|]. intros l0 H0.
      apply (get_parents_LQ Q Q_get). exact H0.
    - unfold loc_size. apply (gated_LQ Q Q_get); [exact H|]. intros l0 H0. exact H0.
    - destruct reads_keep_LQ as (_ & Ks & _). apply Ks. exact H.
  Qed.
End LocQ.

(** * A2. Capacity with Reload (linear location, storage mirrors memory) *)

Definition MQ (s : state) : Prop := M s /\ st_kind s = Linear.

Lemma MQ_step s o : MQ s -> MQ (sstep s o).
Proof.
  intros (HM & Hk). destruct (sstep_Pres s o) as (P1 & P2 & _).
  split; [|congruence]. apply sstep_M. exact HM.
Qed.

Lemma mirror_loc_MQ l : mirror_loc l <-> LQ MQ l.
Proof. unfold mirror_loc, LQ, MQ, M. tauto. Qed.

Lemma loc_reload_mirror M0 l now : within M0 l -> LQ MQ l -> within M0 (fst (loc_reload l now)) /\ LQ MQ (fst (loc_reload l now)).
Proof.
  intros [Hm Hc] ((Hf & Hst) & Hk). unfold loc_reload. rewrite Hk, load_linear. cbn [fst].
  unfold within, LQ, MQ, M, lcount. cbn [l_max l_state st_facts st_store st_fail st_kind st_hooks].
  rewrite Hst. unfold lcount in Hc. repeat split; auto.
Qed.

Lemma sys_do_within_mirror M0 name sy q :
  (r_loc q = name -> cap_safe_op (r_op q) = true \/ r_op q = LReload) ->
  (exists l, sys_get sy name = Some l /\ within M0 l /\ LQ MQ l) ->
  exists l, sys_get (sys_do sy q) name = Some l /\ within M0 l /\ LQ MQ l.
Proof.
  intros Hq (l & Hg & Hw & Hmq). unfold sys_do.
  assert (HK : reads_keep (fun l0 => within M0 l0 /\ LQ MQ l0)).
  { destruct (reads_keep_LQ MQ MQ_step) as (K1 & K2 & K3 & K4).
    unfold reads_keep. split; [|split; [|split]]; intros; destruct H as [H1 H2]; split; auto.
    - eapply lsub_within; [apply get_parents_lsub|exact H1].
    - eapply lsub_within; [apply loc_search_local_lsub|exact H1].
    - eapply lsub_within; [apply loc_rules_local_lsub|exact H1].
    - eapply lsub_within; [apply find_children_lsub|exact H1]. }
  destruct (sys_step_pred _ sy (r_loc q) (r_ctx q) (r_env q) (r_op q) name l HK Hg (conj Hw Hmq))
    as (l' & Hg' & [Hs|(Hn & Hnw & ->)]).
  - exists l'. split; [exact Hg'|exact Hs].
  - eexists. split; [exact Hg'|]. destruct (Hq Hn) as [Hsafe|Hr].
    + split; [apply loc_apply_within; auto|]. apply (loc_apply_LQ MQ MQ_step); [|exact Hmq].
      intros E. rewrite E in Hsafe. discriminate.
    + rewrite Hr. cbn [loc_apply]. apply loc_reload_mirror; assumption.
Qed.

Theorem capacity_invariant_with_reload_main : capacity_invariant_with_reload_statement.
Proof.
  intros h sy name l Hg Hc Hmir Hh.
  assert (H : exists l', sys_get (sys_run sy h) name = Some l' /\ within (l_max l) l' /\ LQ MQ l').
  { assert (H0 : exists l', sys_get sy name = Some l' /\ within (l_max l) l' /\ LQ MQ l').
    { exists l. split; [exact Hg|]. split; [split; [reflexivity|exact Hc]|]. apply mirror_loc_MQ. exact Hmir. }
    clear Hg Hc Hmir. revert sy H0. induction h as [|q h IH]; intros sy H0; [exact H0|].
    cbn [sys_run fold_left]. apply IH.
    - intros q' Hin. apply Hh. right. exact Hin.
    - apply sys_do_within_mirror; [apply Hh; left; reflexivity|exact H0]. }
  destruct H as (l' & Hg' & (Hm & Hc') & Hq). exists l'. repeat split; auto; apply mirror_loc_MQ; exact Hq.
Qed.

(** * The gates as a pure function when nothing has expired *)

Definition gate_pass (l : loc) (c : ctx) (now : Z) (g : gate) : bool :=
  match g with
  | GEnabled => snd (enabled l now)
  | GWrite => snd (check_write l c now)
  | GRead => snd (check_read l c now)
  | GCapacity => negb (at_capacity l)
  end.

Definition gate_err (g : gate) : string :=
  match g with GEnabled => E_disabled | GWrite => E_denied | GRead => E_denied | GCapacity => E_capacity end.

Definition first_refusal (l : loc) (c : ctx) (now : Z) (gs : list gate) : option string :=
  match find (fun g => negb (gate_pass l c now g)) gs with
  | Some g => Some (gate_err g)
  | None => None
  end.

Lemma check_write_noexp l c now : nothing_expired l now -> fst (check_write l c now) = l.
Proof.
  intros H. unfold check_write. destruct (l_readonly l); [reflexivity|].
  pose proof (get_prop_string_noexp l "writeKey" now H) as Hg.
  destruct (get_prop_string l "writeKey" now) as [l' s]. exact Hg.
Qed.

Lemma check_read_noexp l c now : nothing_expired l now -> fst (check_read l c now) = l.
Proof.
  intros H. unfold check_read.
  pose proof (get_prop_string_noexp l "readKey" now H) as Hg.
  destruct (get_prop_string l "readKey" now) as [l' s]. exact Hg.
Qed.

Lemma run_gates_pure gs l c now :
  nothing_expired l now -> run_gates gs l c now = (l, first_refusal l c now gs).
Proof.
  intros Hne. unfold first_refusal. induction gs as [|g gs IH]; [reflexivity|].
  cbn [run_gates find].
  assert (Hstep : forall (l1 : loc) (pass : bool),
             l1 = l -> pass = gate_pass l c now g ->
             (if pass then run_gates gs l1 c now else (l1, Some (gate_err g))) =
             (l, match (if negb (gate_pass l c now g) then Some g
                        else find (fun g0 => negb (gate_pass l c now g0)) gs) with
                 | Some g0 => Some (gate_err g0) | None => None end)).
  { intros l1 pass -> ->. destruct (gate_pass l c now g); cbn [negb]; [exact IH|reflexivity]. }
  destruct g.
  - pose proof (enabled_noexp l now Hne) as H1. cbn [gate_pass gate_err] in *.
    destruct (enabled l now) as [l1 b]. cbn [fst snd] in *. apply Hstep; auto.
  - pose proof (check_write_noexp l c now Hne) as H1. cbn [gate_pass gate_err] in *.
    destruct (check_write l c now) as [l1 b]. cbn [fst snd] in *. apply Hstep; auto.
  - pose proof (check_read_noexp l c now Hne) as H1. cbn [gate_pass gate_err] in *.
    destruct (check_read l c now) as [l1 b]. cbn [fst snd] in *. apply Hstep; auto.
  - cbn [gate_pass gate_err] in *. apply Hstep; auto.
Qed.

Lemma gated_pure {A} gs l c now (k : loc -> loc * outcome A) :
  nothing_expired l now ->
  gated gs l c now k = match first_refusal l c now gs with Some e => (l, Err e) | None => k l end.
Proof. intros H. unfold gated. rewrite run_gates_pure by exact H. reflexivity. Qed.

Lemma with_loc_same {A} sy name (f : loc -> loc * outcome A) l r :
  sys_wf sy -> sys_get sy name = Some l -> f l = (l, r) -> with_loc sy name f = (sy, r).
Proof.
  intros Hw Hg Hf. unfold with_loc. rewrite Hg, Hf. rewrite sys_set_same_id by assumption. reflexivity.
Qed.

Theorem refused_for_capacity_no_effect_history_main : refused_for_capacity_no_effect_history_statement.
Proof.
  intros sy h q l id x Hwf sy' Hop Hg Hne Hcap.
  assert (Hwf' : sys_wf sy') by (apply run_wf; exact Hwf).
  destruct q as [name c e op]. cbn [r_loc r_ctx r_env r_op] in *.
  set (now := e_now e) in *.
  assert (Hcapf : gate_pass l c now GCapacity = false) by (cbn [gate_pass]; rewrite Hcap; reflexivity).
  destruct Hop as [-> | ->]; cbn [sys_step].
  - unfold loc_add_fact. 
    assert (Hr : exists er, first_refusal l c now (gates_of "AddFact") = Some er /\
              (er = E_denied \/ er = E_capacity \/ er = E_disabled) /\
              (snd (check_write l c now) = true -> snd (enabled l now) = true -> er = E_capacity)).
    { unfold first_refusal. change (gates_of "AddFact") with [GWrite; GCapacity; GEnabled]. cbn [find].
      rewrite Hcapf. cbn [gate_pass negb]. destruct (snd (check_write l c now)); cbn [negb gate_err].
      - eexists. split; [reflexivity|]. split; auto.
      - eexists. split; [reflexivity|]. split; auto. intros; discriminate. }
    destruct Hr as (er & Hr & H1 & H2). exists er. split; [|split; assumption].
    erewrite with_loc_same; [reflexivity|exact Hwf'|exact Hg|].
    rewrite gated_pure by exact Hne. fold now. rewrite Hr. reflexivity.
  - unfold loc_add_rule.
    assert (Hr : exists er, first_refusal l c now (gates_of "AddRule") = Some er /\
              (er = E_denied \/ er = E_capacity \/ er = E_disabled) /\
              (snd (check_write l c now) = true -> snd (enabled l now) = true -> er = E_capacity)).
    { unfold first_refusal. change (gates_of "AddRule") with [GEnabled; GWrite; GCapacity]. cbn [find].
      rewrite Hcapf. cbn [gate_pass negb].
      destruct (snd (enabled l now)); cbn [negb gate_err];
        [destruct (snd (check_write l c now)); cbn [negb gate_err]|];
        eexists; (split; [reflexivity|]); (split; [auto|]); intros; auto; discriminate. }
    destruct Hr as (er & Hr & H1 & H2). exists er. split; [|split; assumption].
    erewrite with_loc_same; [reflexivity|exact Hwf'|exact Hg|].
    rewrite gated_pure by exact Hne. fold now. rewrite Hr. reflexivity.
Qed.
