(** C13 support, part 5: no model function constructs a panic — for every
    input (ground or not), every state, every system, every fuel. *)
From Coq Require Import Lia.
From Verif Require Import Json Outcome Match PatIndex State Location SysOps Query QueryOps Events.
From Verif Require CascadeTerm.
From Verif Require Import StateSpec MatchLemmas1 AssocLemmas CascadeLemmas1 GateProofs
  LocSpec LocBasics LocWalk LocProofs QueryProofs TotalSpec TotalMatch TotalQuery TotalState TotalSys.

Lemma obad_opanic {A} (o : outcome A) : obad o = false -> opanic o = false.
Proof. destruct o; cbn; auto. Qed.

Lemma opanic_npo {A} (o : outcome A) : opanic o = false <-> npo o.
Proof. symmetry. apply npo_opanic. Qed.

Lemma opanic_omap {A B} (g : A -> B) (o : outcome A) : opanic (omap g o) = opanic o.
Proof. destruct o; reflexivity. Qed.

(** * State *)

Lemma st_search_opanic s p now : opanic (snd (st_search s p now)) = false.
Proof.
  unfold st_search. rewrite (CascadeTerm.snd_with_purge (search_state s p now) now).
  apply opanic_npo. exact (search_state_npo s p now).
Qed.

Lemma find_ids_lin_opanic ev now : forall ids s acc, opanic (snd (find_ids_lin s ids ev now acc)) = false.
Proof.
  induction ids as [|id r IH]; intros s acc; cbn [find_ids_lin]; [reflexivity|].
  destruct (alookup id (st_facts s)) as [fact|]; [|apply IH].
  destruct (jget "rule" fact) as [rule|]; [|apply IH].
  destruct (expire s id fact now) as [s1 ex]. destruct ex; [apply IH|].
  destruct rule as [| | | | |rm]; try apply IH.
  destruct (alookup "when" rm) as [[| | | | |w]|]; try apply IH.
  match goal with |- context [core_match ?p ev []] =>
    pose proof (core_match_npo p ev []) as Hm; destruct (core_match p ev []) as [[|b bss]|e|w'|] end;
    try apply IH; try reflexivity. contradiction.
Qed.

Lemma st_find_rules_opanic s ev now : opanic (snd (st_find_rules s ev now)) = false.
Proof.
  unfold st_find_rules.
  assert (H : opanic (snd (do_find_rules s ev now)) = false).
  { unfold do_find_rules. rewrite CascadeTerm.snd_with_purge. destruct (st_kind s).
    - pose proof (pi_search_obad (st_pindex s) ev) as Hp.
      destruct (pi_search (st_pindex s) ev); cbn in Hp; try discriminate; try reflexivity.
      apply obad_opanic. apply find_ids_idx_obad.
    - apply find_ids_lin_opanic. }
  destruct (do_find_rules s ev now) as [s1 res].
  cbn [snd] in H. destruct res as [l|e|w|]; cbn in H; try discriminate; reflexivity.
Qed.

(** * One location *)

Lemma gated_opanic {A} gs l c now (k : loc -> loc * outcome A) :
  (forall l0, opanic (snd (k l0)) = false) -> opanic (snd (gated gs l c now k)) = false.
Proof.
  intros Hk. unfold gated. destruct (run_gates gs l c now) as [l' [e|]]; [reflexivity|apply Hk].
Qed.

Lemma loc_search_local_opanic l c e p : opanic (snd (loc_search_local l c e p)) = false.
Proof.
  unfold loc_search_local. apply gated_opanic. intros l0. unfold lift. cbn [snd].
  rewrite opanic_omap. apply st_search_opanic.
Qed.

Lemma loc_rules_local_opanic l c e ev : opanic (snd (loc_rules_local l c e ev)) = false.
Proof.
  unfold loc_rules_local. apply gated_opanic. intros l0. unfold lift. cbn [snd].
  rewrite opanic_omap. apply st_find_rules_opanic.
Qed.

Lemma find_children_opanic ev now : forall rules l acc, opanic (snd (find_children l rules ev now acc)) = false.
Proof.
  induction rules as [|[id body] r IH]; intros l acc; cbn [find_children]; [reflexivity|].
  destruct (rule_enabled l id now) as [l1 en]. destruct (negb en); [apply IH|].
  destruct (when_pattern body) as [p|]; [|apply IH].
  pose proof (core_match_npo p ev []) as Hm.
  destruct (core_match p ev []) as [[|b bss]|x|w|]; try apply IH; try reflexivity. contradiction.
Qed.

Lemma find_children_full_opanic ev now emb : forall rules l acc,
  opanic (snd (find_children_full l rules ev now emb acc)) = false.
Proof.
  induction rules as [|[id body] r IH]; intros l acc; cbn [find_children_full]; [reflexivity|].
  destruct (if emb then (l, true) else rule_enabled l id now) as [l1 en]. destruct (negb en); [apply IH|].
  destruct (when_pattern body) as [p|]; [|apply IH].
  pose proof (core_match_npo p ev []) as Hm.
  destruct (core_match p ev []) as [[|b bss]|x|w|]; try apply IH; try reflexivity. contradiction.
Qed.

(** * Systems *)

Lemma walk_opanic A (v : string -> loc -> loc * outcome A) now :
  (forall n l, opanic (snd (v n l)) = false) ->
  forall f sy name visiting done acc,
    opanic (w_out A (do_ancestors A v f sy name now visiting done acc)) = false.
Proof.
  intros Hv f sy name visiting done acc. apply opanic_npo. apply walk_npo.
  intros n l. apply opanic_npo. apply Hv.
Qed.

Lemma sys_search_opanic sy name c e p inh : opanic (snd (sys_search sy name c e p inh)) = false.
Proof.
  destruct inh.
  - rewrite sys_search_inherited. cbv zeta. cbn [snd].
    apply walk_opanic. intros n l. apply loc_search_local_opanic.
  - unfold sys_search. destruct (sys_get sy name) as [l|]; [|reflexivity].
    pose proof (loc_search_local_opanic l c e p) as H.
    destruct (loc_search_local l c e p) as [l' r]. cbn [snd] in *. rewrite opanic_omap. exact H.
Qed.

Lemma merge_rules_opanic groups acc : opanic (merge_rules groups acc) = false.
Proof. apply obad_opanic. apply merge_rules_obad. Qed.

Lemma sys_find_rules_opanic sy name c e ev : opanic (snd (sys_find_rules sy name c e ev)) = false.
Proof.
  unfold sys_find_rules.
  pose proof (walk_opanic _ (fun _ l => loc_rules_local l c e ev) (e_now e)
                (fun _ l => loc_rules_local_opanic l c e ev) (anc_fuel sy) sy name [] [] []) as H1.
  destruct (do_ancestors _ (fun _ l => loc_rules_local l c e ev) (anc_fuel sy) sy name (e_now e) [] [] [])
    as [[sy1 d] r]. unfold w_out in H1. cbn [snd] in H1.
  destruct r as [groups|x|w|]; cbn in H1; try discriminate; try reflexivity.
  pose proof (merge_rules_opanic groups []) as Hm.
  destruct (merge_rules groups []) as [rules|x|w|]; cbn in Hm; try discriminate; try reflexivity.
  destruct (sys_get sy1 name) as [l|]; [|reflexivity].
  pose proof (find_children_opanic ev (e_now e) rules l []) as Hc.
  destruct (find_children l rules ev (e_now e) []) as [l' res]. exact Hc.
Qed.

Lemma lres_bad_panic r : lres_bad r = false -> lres_panic r = false.
Proof. destruct r; cbn; apply obad_opanic. Qed.

Lemma sys_step_opanic sy name c e op : lres_panic (snd (sys_step sy name c e op)) = false.
Proof.
  pose (Q := fun _ : state => True). assert (Qg : forall s id now, Q s -> Q (fst (st_get s id now))) by (intros; exact I).
  destruct op; cbn [sys_step];
    try (match goal with
         | |- context [with_loc ?sy ?name ?f] =>
             let H := fresh "H" in
             pose proof (with_loc_obad sy name f) as H;
             destruct (with_loc sy name f) as [sy' r]; cbn [fst snd lres_panic] in *;
             apply obad_opanic; apply H; intros l Hl
         end).
  - apply (loc_add_fact_obad Q Qg). exact I.
  - apply (loc_add_rule_obad Q Qg). exact I.
  - apply (loc_rem_fact_obad Q Qg). exact I.
  - apply (loc_rem_rule_obad Q Qg). exact I.
  - apply (loc_get_fact_obad Q Qg). exact I.
  - apply (loc_get_rule_obad Q Qg). exact I.
  - apply (loc_enable_rule_obad Q Qg). exact I.
  - apply (loc_clear_obad Q Qg). exact I.
  - apply (loc_set_parents_obad Q Qg). exact I.
  - apply (loc_get_parents_obad Q Qg). exact I.
  - apply (loc_size_obad Q Qg). exact I.
  - reflexivity.
  - apply loc_reload_obad.
  - destruct (sys_get sy name); [|reflexivity].
    pose proof (sys_search_opanic sy name c e pattern inherited) as H.
    destruct (sys_search sy name c e pattern inherited) as [sy' r]. exact H.
  - destruct (sys_get sy name); [|reflexivity].
    pose proof (sys_find_rules_opanic sy name c e event) as H.
    destruct (sys_find_rules sy name c e event) as [sy' r]. exact H.
Qed.

(** * Queries *)

Lemma sys_search_locs_opanic name c e sy locs p : opanic (snd (sys_search_locs name c e sy locs p)) = false.
Proof.
  unfold sys_search_locs.
  generalize (match locs with [] => [name] | _ :: _ => locs end). clear locs.
  generalize (@nil bindings). intros acc locs. revert sy acc.
  induction locs as [|l r IH]; intros sy acc; [reflexivity|].
  destruct (String.eqb l name); [|reflexivity].
  pose proof (sys_search_opanic sy name c e p true) as H1.
  destruct (sys_search sy name c e p true) as [sy' [found|x|w|]]; cbn in H1; try discriminate.
  all: try apply IH; try reflexivity.
Qed.

Lemma exec_opanic name c e sem q sy bss :
  opanic (snd (exec system (sys_search_locs name c e) sem q sy bss)) = false.
Proof.
  apply opanic_npo. apply npo_never. intros w.
  apply (exec_no_panic system (sys_search_locs name c e) sem).
  intros s locs p w0 E. pose proof (sys_search_locs_opanic name c e s locs p) as H. rewrite E in H. discriminate.
Qed.

Lemma parse_query_opanic sem q : opanic (parse_query sem (parse_fuel q) q) = false.
Proof. apply obad_opanic. apply parse_query_obad. Qed.

Lemma sys_query_opanic sy name c e sem q : opanic (snd (sys_query sy name c e sem q)) = false.
Proof.
  unfold sys_query. destruct (sys_get sy name) as [l|]; [|reflexivity].
  destruct (enabled l (e_now e)) as [l1 en]. destruct (negb en); [reflexivity|].
  pose proof (parse_query_opanic sem q) as Hp.
  destruct (parse_query sem (parse_fuel q) q) as [pq|x|w|]; cbn in Hp; try discriminate; [|reflexivity|reflexivity].
  apply exec_opanic.
Qed.

(** * Event processing *)

Lemma with_loc_opanic {A} sy name (f : loc -> loc * outcome A) :
  (forall l, opanic (snd (f l)) = false) -> opanic (snd (with_loc sy name f)) = false.
Proof.
  intros H. unfold with_loc. destruct (sys_get sy name) as [l|]; [|reflexivity].
  specialize (H l). destruct (f l) as [l' r]. exact H.
Qed.

Lemma loc_get_rule_opanic l c e id : opanic (snd (loc_get_rule l c e id)) = false.
Proof. apply obad_opanic. apply (loc_get_rule_obad (fun _ => True)); [intros; exact I|exact I]. Qed.

Lemma loc_rem_rule_opanic l c e id : opanic (snd (loc_rem_rule l c e id)) = false.
Proof. apply obad_opanic. apply (loc_rem_rule_obad (fun _ => True)); [intros; exact I|exact I]. Qed.

Lemma find_rules_full_opanic sy name c e sem ev : opanic (snd (find_rules_full sy name c e sem ev)) = false.
Proof.
  unfold find_rules_full.
  assert (Hfc : forall sy0 rules emb,
            opanic (snd (with_loc_e sy0 name (fun l => find_children_full l rules ev (e_now e) emb []))) = false).
  { intros sy0 rules emb. rewrite with_loc_e_eq. apply with_loc_opanic. intros l. apply find_children_full_opanic. }
  destruct (jget "trigger!" ev) as [[| | |id| |]|]; try reflexivity.
  - rewrite with_loc_e_eq.
    pose proof (with_loc_opanic sy name (fun l => loc_get_rule l c e id) (fun l => loc_get_rule_opanic l c e id)) as H1.
    destruct (with_loc sy name (fun l => loc_get_rule l c e id)) as [sy1 [body|x|w|]];
      cbn [snd] in *; try discriminate; try reflexivity.
    destruct (negb (condition_ok sem body)); [reflexivity|].
    destruct (rule_from_map body); try reflexivity. apply Hfc.
  - destruct (jget "evaluate!" ev) as [[| | | | |m]|]; try reflexivity.
    + destruct (negb (condition_ok sem (JObj m))); [reflexivity|].
      destruct (rule_from_map (JObj m)); try reflexivity. apply Hfc.
    + pose proof (walk_opanic _ (fun _ l => loc_rules_local l c e ev) (e_now e)
                    (fun _ l => loc_rules_local_opanic l c e ev) (anc_fuel sy) sy name [] [] []) as H1.
      destruct (do_ancestors _ (fun _ l => loc_rules_local l c e ev) (anc_fuel sy) sy name (e_now e) [] [] [])
        as [[sy1 d] r]. unfold w_out in H1. cbn [snd] in H1.
      destruct r as [groups|x|w|]; cbn in H1; try discriminate; try reflexivity.
      pose proof (merge_rules_opanic groups []) as Hm.
      destruct (merge_rules groups []) as [rules|x|w|]; cbn in Hm; try discriminate; try reflexivity.
      cbv zeta. apply Hfc.
Qed.

Section WalkNPE.
  Variable sem : string -> option code.
  Variable name : string.
  Variable c : ctx.
  Variable e : env.
  Variable event : json.

  Definition xs_np (xs : list exec_rec) : Prop := Forall (fun x => opanic (x_res x) = false) xs.
  Definition st_np (st : option (outcome unit)) : Prop := forall d, st = Some d -> opanic d = false.

  Lemma xs_ok_np xs : xs_ok xs -> xs_np xs.
  Proof. intros H. eapply Forall_impl; [|exact H]. intros x. apply obad_opanic. Qed.

  Definition wres_np (r : system * list exec_rec * option (outcome unit)) : Prop :=
    xs_np (snd (fst r)) /\ st_np (snd r).

  Lemma walk_conditions_np rid body : forall bss sy,
    wres_np (walk_conditions sem name c e event sy rid body bss).
  Proof.
    induction bss as [|bs r IH]; intros sy; cbn [walk_conditions].
    - split; [constructor|intros d Hd; discriminate].
    - set (bs' := inject bs event name rid).
      assert (Hq : forall sy1 qres,
                (match jget "condition" body with
                 | None | Some JNull => (sy, Ok [bs'])
                 | Some q =>
                     match parse_query sem (parse_fuel q) q with
                     | Ok pq => exec system (sys_search_locs name c e) sem pq sy [bs']
                     | Err x => (sy, Err x)
                     | Panic w => (sy, Panic w)
                     | OutOfFuel => (sy, OutOfFuel)
                     end
                 end) = (sy1, qres) -> opanic qres = false).
      { intros sy1 qres.
        assert (Hpq : forall q, (match parse_query sem (parse_fuel q) q with
                                 | Ok pq => exec system (sys_search_locs name c e) sem pq sy [bs']
                                 | Err x => (sy, Err x)
                                 | Panic w => (sy, Panic w)
                                 | OutOfFuel => (sy, OutOfFuel)
                                 end) = (sy1, qres) -> opanic qres = false).
        { intros q. pose proof (parse_query_opanic sem q) as Hp.
          destruct (parse_query sem (parse_fuel q) q) as [pq|x|w|]; cbn in Hp; try discriminate.
          - intros E. pose proof (exec_opanic name c e sem pq sy [bs']) as H1. rewrite E in H1. exact H1.
          - intros E. inversion E; subst. reflexivity.
          - intros E. inversion E; subst. reflexivity. }
        destruct (jget "condition" body) as [[| | | | |]|]; try apply Hpq;
          intros E; inversion E; subst; reflexivity. }
      match goal with |- wres_np (let '(a, b) := ?X in _) => destruct X as [sy1 qres] eqn:EX end.
      pose proof (Hq sy1 qres eq_refl) as Hb.
      destruct qres as [results|x|w|]; cbn in Hb; try discriminate.
      + pose proof (xs_ok_np _ (run_results_ok sem (rule_serial body) rid (rule_actions body) results)) as Hr.
        destruct (run_results sem (rule_serial body) rid results (rule_actions body)) as [xs stopped].
        cbn [fst] in Hr. destruct stopped.
        * split; [exact Hr|]. intros d Hd. inversion Hd; subst. reflexivity.
        * specialize (IH sy1).
          destruct (walk_conditions sem name c e event sy1 rid body r) as [[sy2 ys] st].
          destruct IH as (H2 & H3). cbn [fst snd] in *.
          split; [|exact H3]. apply Forall_app. split; assumption.
      + split; [constructor|]. intros d Hd. inversion Hd; subst. reflexivity.
      + split; [constructor|]. intros d Hd. inversion Hd; subst. reflexivity.
  Qed.

  Lemma rule_done_np sy rid body : st_np (snd (rule_done name c e sy rid body)).
  Proof.
    unfold rule_done. destruct (one_shot (rule_schedule body)); [|intros d Hd; discriminate].
    rewrite with_loc_e_eq.
    pose proof (with_loc_opanic sy name (fun l => loc_rem_rule l c e rid) (fun l => loc_rem_rule_opanic l c e rid)) as H1.
    destruct (with_loc sy name (fun l => loc_rem_rule l c e rid)) as [sy' [b|x|w|]];
      cbn [fst snd] in *; try discriminate; intros d Hd; inversion Hd; subst; reflexivity.
  Qed.

  Lemma walk_rules_np : forall children sy, wres_np (walk_rules sem name c e event sy children).
  Proof.
    induction children as [|[[rid body] bss] r IH]; intros sy; cbn [walk_rules].
    - split; [constructor|intros d Hd; discriminate].
    - pose proof (walk_conditions_np rid body bss sy) as Hc.
      destruct (walk_conditions sem name c e event sy rid body bss) as [[sy1 xs] [d|]];
        destruct Hc as (H2 & H3); cbn [fst snd] in *.
      + split; assumption.
      + pose proof (rule_done_np sy1 rid body) as G2.
        destruct (rule_done name c e sy1 rid body) as [sy2 [d|]]; cbn [fst snd] in *.
        * split; assumption.
        * specialize (IH sy2). destruct (walk_rules sem name c e event sy2 r) as [[sy3 ys] st].
          destruct IH as (K2 & K3). cbn [fst snd] in *.
          split; [|exact K3]. apply Forall_app. split; assumption.
  Qed.
End WalkNPE.

Lemma process_event_opanic sy name c e sem ev :
  walk_panic (snd (process_event sy name c e sem ev)) = false.
Proof.
  unfold process_event. destruct (sys_get sy name); [|reflexivity].
  pose proof (find_rules_full_opanic sy name c e sem ev) as H1.
  destruct (find_rules_full sy name c e sem ev) as [sy1 [children|x|w|]]; cbn [snd] in *; try discriminate;
    try reflexivity.
  pose proof (walk_rules_np sem name c e ev children sy1) as Hr.
  destruct (walk_rules sem name c e ev sy1 children) as [[sy2 xs] st].
  destruct Hr as (K2 & K3). cbn [fst snd] in *.
  unfold walk_panic. cbn [w_disp w_execs]. apply orb_false_iff. split.
  - destruct st as [d|]; [apply K3; reflexivity|reflexivity].
  - clear -K2. induction K2 as [|x l Hx Hl IH]; [reflexivity|]. cbn [existsb]. rewrite Hx, IH. reflexivity.
Qed.
