(** Statements about the throttle's bookkeeping as an event system
    (Breaker.v: [tstep] = Submit entry / Submit exit, [tstep2] adds
    Throttle.Disable).  Proofs in BreakerProofs.v. *)
From Verif Require Import Json Breaker.

(** The bound, at every point of EVERY history of entries, exits and
    Disable(true/false) calls (the history [es] is arbitrary, so the statement
    holds after each of its prefixes): never more than pendingLimit+1
    submissions between their entry and their exit, and an entry is admitted
    only while at most pendingLimit are. *)
Definition throttle_waiting_bounded_statement : Prop :=
  forall es plimit attempts disabled, 0 <= plimit ->
    let s := fold_left tstep2 es (fresh_throttle plimit attempts disabled) in
    0 <= ts_waiting s <= plimit + 1 /\
    (enter_admits s = true -> ts_waiting s <= plimit).

(** A throttle that is never disabled: at every point of every history the
    pending counter IS the number of submissions between entry and exit, and
    an entry overflows exactly when pendingLimit+1 of them are waiting. *)
Definition throttle_counter_exact_statement : Prop :=
  forall es plimit attempts,
    let s := fold_left Breaker.tstep es (fresh_throttle plimit attempts false) in
    t_pending (ts_thr s) = ts_waiting s /\
    enter_admits s = (ts_waiting s <=? plimit).

(** ... hence it recovers: once every entered submission has exited the
    counter is back to its initial value, and exactly pendingLimit+1 further
    submissions can be in flight again (overflows in between, however many,
    cost nothing). *)
Definition throttle_recovers_statement : Prop :=
  forall es plimit attempts n, 0 <= plimit ->
    let s := fold_left Breaker.tstep es (fresh_throttle plimit attempts false) in
    ts_waiting s = 0 ->
    t_pending (ts_thr s) = 0 /\
    ts_waiting (fold_left Breaker.tstep (repeat TEnter n) s) = Z.min (Z.of_nat n) (plimit + 1).

(** An overflow never changes the state of a throttle that is not disabled
    (in particular it does not give a slot back). *)
Definition throttle_overflow_no_effect_statement : Prop :=
  forall s, t_disabled (ts_thr s) = false -> enter_admits s = false -> Breaker.tstep s TEnter = s.
