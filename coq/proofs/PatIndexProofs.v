(** Proofs about the pattern index: the [pmod] lemmas (what add/remove do to
    trie membership), fuel sufficiency, and completeness of the search. *)
From Coq Require Import Lia Permutation.
From Verif Require Import Json Outcome Match PatIndex.
From Verif Require Import MatchLemmas1 AssocLemmas PatIndexSpec.

(** * Part 1: nodes, children, [tr_has] *)

Lemma step_eq_dec (a b : step) : {a = b} + {a <> b}.
Proof. decide equality; apply string_dec. Defined.

Lemma path_eq_dec (a b : list step) : {a = b} + {a <> b}.
Proof. apply list_eq_dec. apply step_eq_dec. Defined.

Lemma tchild_empty s : tchild pn_empty s = pn_empty.
Proof. destruct s; reflexivity. Qed.

Lemma tr_has_empty π id : tr_has pn_empty π id -> False.
Proof.
  induction π as [|s π IH]; cbn [tr_has].
  - intros [].
  - rewrite tchild_empty. exact IH.
Qed.

Lemma pn_child_some n k c : alookup k (pn_strs n) = Some c -> pn_child n k = c.
Proof. unfold pn_child. intros ->. reflexivity. Qed.

Lemma pn_child_none n k : alookup k (pn_strs n) = None -> pn_child n k = pn_empty.
Proof. unfold pn_child. intros ->. reflexivity. Qed.

(** Existential reading of [tr_has] (the shape given in the task statement). *)
Lemma tr_has_tok n k t π id :
  tr_has n (StTok k t :: π) id <->
  exists ki c, alookup k (pn_strs n) = Some ki /\ alookup t (pn_strs ki) = Some c /\ tr_has c π id.
Proof.
  cbn [tr_has tchild]. split.
  - intros H. destruct (alookup k (pn_strs n)) as [ki|] eqn:E1.
    + rewrite (pn_child_some _ _ _ E1) in H.
      destruct (alookup t (pn_strs ki)) as [c|] eqn:E2.
      * rewrite (pn_child_some _ _ _ E2) in H. exists ki, c. auto.
      * rewrite (pn_child_none _ _ E2) in H. destruct (tr_has_empty _ _ H).
    + rewrite (pn_child_none _ _ E1) in H. cbn in H. destruct (tr_has_empty _ _ H).
  - intros (ki & c & E1 & E2 & H).
    rewrite (pn_child_some _ _ _ E1), (pn_child_some _ _ _ E2). exact H.
Qed.

Lemma tr_has_var n k π id :
  tr_has n (StVar k :: π) id <->
  exists ki c, alookup k (pn_strs n) = Some ki /\ pn_var ki = Some c /\ tr_has c π id.
Proof.
  cbn [tr_has tchild]. split.
  - intros H. destruct (alookup k (pn_strs n)) as [ki|] eqn:E1.
    + rewrite (pn_child_some _ _ _ E1) in H.
      destruct (pn_var ki) as [c|] eqn:E2.
      * exists ki, c. auto.
      * cbn in H. destruct (tr_has_empty _ _ H).
    + rewrite (pn_child_none _ _ E1) in H. cbn in H. destruct (tr_has_empty _ _ H).
  - intros (ki & c & E1 & E2 & H).
    rewrite (pn_child_some _ _ _ E1), E2. exact H.
Qed.

Lemma tr_has_map n k π id :
  tr_has n (StMap k :: π) id <->
  exists ki c, alookup k (pn_strs n) = Some ki /\ pn_map ki = Some c /\ tr_has c π id.
Proof.
  cbn [tr_has tchild]. split.
  - intros H. destruct (alookup k (pn_strs n)) as [ki|] eqn:E1.
    + rewrite (pn_child_some _ _ _ E1) in H.
      destruct (pn_map ki) as [c|] eqn:E2.
      * exists ki, c. auto.
      * cbn in H. destruct (tr_has_empty _ _ H).
    + rewrite (pn_child_none _ _ E1) in H. cbn in H. destruct (tr_has_empty _ _ H).
  - intros (ki & c & E1 & E2 & H).
    rewrite (pn_child_some _ _ _ E1), E2. exact H.
Qed.

(** Any non-empty path from [n] starts with a key present in [n]. *)
Lemma tr_has_key n s π id :
  tr_has n (s :: π) id -> exists ki, alookup (step_key s) (pn_strs n) = Some ki.
Proof.
  destruct s as [k t|k|k]; intros H.
  - apply tr_has_tok in H. destruct H as (ki & _ & E & _). exists ki. exact E.
  - apply tr_has_var in H. destruct H as (ki & _ & E & _). exists ki. exact E.
  - apply tr_has_map in H. destruct H as (ki & _ & E & _). exists ki. exact E.
Qed.

(** Setters. *)
Lemma pn_ids_set_str n k c : pn_ids (pn_set_str n k c) = pn_ids n.
Proof. destruct n; reflexivity. Qed.
Lemma pn_var_set_str n k c : pn_var (pn_set_str n k c) = pn_var n.
Proof. destruct n; reflexivity. Qed.
Lemma pn_map_set_str n k c : pn_map (pn_set_str n k c) = pn_map n.
Proof. destruct n; reflexivity. Qed.
Lemma pn_strs_set_var n c : pn_strs (pn_set_var n c) = pn_strs n.
Proof. destruct n; reflexivity. Qed.
Lemma pn_strs_set_map n c : pn_strs (pn_set_map n c) = pn_strs n.
Proof. destruct n; reflexivity. Qed.
Lemma pn_map_set_var n c : pn_map (pn_set_var n c) = pn_map n.
Proof. destruct n; reflexivity. Qed.
Lemma pn_var_set_map n c : pn_var (pn_set_map n c) = pn_var n.
Proof. destruct n; reflexivity. Qed.
Lemma pn_var_set_var n c : pn_var (pn_set_var n c) = Some c.
Proof. destruct n; reflexivity. Qed.
Lemma pn_map_set_map n c : pn_map (pn_set_map n c) = Some c.
Proof. destruct n; reflexivity. Qed.

Lemma pn_child_set_str n k c j :
  pn_child (pn_set_str n k c) j = if String.eqb j k then c else pn_child n j.
Proof.
  destruct n as [s v m i]. unfold pn_child. cbn [pn_set_str pn_strs].
  rewrite AssocLemmas.alookup_ainsert. destruct (String.eqb j k); reflexivity.
Qed.

Lemma pn_child_set_var n c j : pn_child (pn_set_var n c) j = pn_child n j.
Proof. unfold pn_child. rewrite pn_strs_set_var. reflexivity. Qed.
Lemma pn_child_set_map n c j : pn_child (pn_set_map n c) j = pn_child n j.
Proof. unfold pn_child. rewrite pn_strs_set_map. reflexivity. Qed.

(** The four ways [pmod] rebuilds a node, seen through [tchild]. *)
Lemma tchild_set_same n k s :
  tchild (pn_set_str n k (pn_child n k)) s = tchild n s.
Proof.
  destruct s as [k2 t|k2|k2]; cbn [tchild]; rewrite pn_child_set_str;
    destruct (String.eqb_spec k2 k) as [->|Hne]; reflexivity.
Qed.

Lemma tchild_set_tok_eq n k t c :
  tchild (pn_set_str n k (pn_set_str (pn_child n k) t c)) (StTok k t) = c.
Proof.
  cbn [tchild]. rewrite pn_child_set_str, String.eqb_refl.
  rewrite pn_child_set_str, String.eqb_refl. reflexivity.
Qed.

Lemma tchild_set_tok_neq n k t c s :
  s <> StTok k t ->
  tchild (pn_set_str n k (pn_set_str (pn_child n k) t c)) s = tchild n s.
Proof.
  intros Hne. destruct s as [k2 t2|k2|k2]; cbn [tchild]; rewrite pn_child_set_str;
    destruct (String.eqb_spec k2 k) as [->|Hk]; try reflexivity.
  - rewrite pn_child_set_str. destruct (String.eqb_spec t2 t) as [->|Ht]; [congruence|reflexivity].
  - rewrite pn_var_set_str. reflexivity.
  - rewrite pn_map_set_str. reflexivity.
Qed.

Lemma tchild_set_var_eq n k c :
  tchild (pn_set_str n k (pn_set_var (pn_child n k) c)) (StVar k) = c.
Proof.
  cbn [tchild]. rewrite pn_child_set_str, String.eqb_refl, pn_var_set_var. reflexivity.
Qed.

Lemma tchild_set_var_neq n k c s :
  s <> StVar k ->
  tchild (pn_set_str n k (pn_set_var (pn_child n k) c)) s = tchild n s.
Proof.
  intros Hne. destruct s as [k2 t2|k2|k2]; cbn [tchild]; rewrite pn_child_set_str;
    destruct (String.eqb_spec k2 k) as [->|Hk]; try reflexivity.
  - rewrite pn_child_set_var. reflexivity.
  - congruence.
  - rewrite pn_map_set_var. reflexivity.
Qed.

Lemma tchild_set_map_eq n k c :
  tchild (pn_set_str n k (pn_set_map (pn_child n k) c)) (StMap k) = c.
Proof.
  cbn [tchild]. rewrite pn_child_set_str, String.eqb_refl, pn_map_set_map. reflexivity.
Qed.

Lemma tchild_set_map_neq n k c s :
  s <> StMap k ->
  tchild (pn_set_str n k (pn_set_map (pn_child n k) c)) s = tchild n s.
Proof.
  intros Hne. destruct s as [k2 t2|k2|k2]; cbn [tchild]; rewrite pn_child_set_str;
    destruct (String.eqb_spec k2 k) as [->|Hk]; try reflexivity.
  - rewrite pn_child_set_map. reflexivity.
  - rewrite pn_var_set_map. reflexivity.
  - congruence.
Qed.

(** * Part 2: [pmod] against [ppath] *)

Definition upd (op : piop) (id : string) (P : Prop) (j : string) : Prop :=
  match op with OpAdd => j = id \/ P | OpRem => P /\ j <> id end.

(** [trel op id n n' o e]: [n'] is [n] with [id] added/removed at the end of
    the path [o] (if any), nothing else changed; [e] is an error iff no path. *)
Definition trel (op : piop) (id : string) (n n' : pnode) (o : option (list step)) (e : option string) : Prop :=
  match o with
  | Some π0 =>
      e = None /\
      (forall j, tr_has n' π0 j <-> upd op id (tr_has n π0 j) j) /\
      (forall π j, π <> π0 -> (tr_has n' π j <-> tr_has n π j))
  | None => e <> None /\ forall π j, tr_has n' π j <-> tr_has n π j
  end.

Lemma trel_step op id n n' s0 o e :
  pn_ids n' = pn_ids n ->
  (forall s, s <> s0 -> tchild n' s = tchild n s) ->
  trel op id (tchild n s0) (tchild n' s0) o e ->
  trel op id n n' (option_map (cons s0) o) e.
Proof.
  intros Hids Hoth Hrel. destruct o as [π0|]; cbn [option_map trel] in *.
  - destruct Hrel as (He & Hat & Hother). split; [exact He|]. split.
    + intros j. cbn [tr_has]. apply Hat.
    + intros π j Hne. destruct π as [|s π]; cbn [tr_has].
      * rewrite Hids. reflexivity.
      * destruct (step_eq_dec s s0) as [->|Hs].
        -- apply Hother. congruence.
        -- rewrite (Hoth s Hs). reflexivity.
  - destruct Hrel as (He & Hall). split; [exact He|].
    intros π j. destruct π as [|s π]; cbn [tr_has].
    + rewrite Hids. reflexivity.
    + destruct (step_eq_dec s s0) as [->|Hs].
      * apply Hall.
      * rewrite (Hoth s Hs). reflexivity.
Qed.

Lemma tr_has_same n n' :
  pn_ids n' = pn_ids n -> (forall s, tchild n' s = tchild n s) ->
  forall π j, tr_has n' π j <-> tr_has n π j.
Proof.
  intros Hids Hch π j. destruct π as [|s π]; cbn [tr_has].
  - rewrite Hids. reflexivity.
  - rewrite Hch. reflexivity.
Qed.

Lemma trel_same op id n n1 n' o e :
  (forall π j, tr_has n1 π j <-> tr_has n π j) ->
  trel op id n1 n' o e -> trel op id n n' o e.
Proof.
  intros Hsame Hrel. destruct o as [π0|]; cbn [trel] in *.
  - destruct Hrel as (He & Hat & Hother). split; [exact He|]. split.
    + intros j. rewrite Hat. destruct op; cbn [upd]; rewrite Hsame; reflexivity.
    + intros π j Hne. rewrite (Hother π j Hne). apply Hsame.
  - destruct Hrel as (He & Hall). split; [exact He|].
    intros π j. rewrite Hall. apply Hsame.
Qed.

Lemma pmod_S f op id n k v rest :
  pmod (S f) op id n ((k, v) :: rest) =
  let k' := pkey k in
  let ki := pn_child n k' in
  match picast v with
  | JStr vv =>
      if is_var vv then
        let '(c, e) := pmod f op id (tchild n (StVar k')) rest in
        (pn_set_str n k' (pn_set_var ki c), e)
      else
        let '(c, e) := pmod f op id (tchild n (StTok k' vv)) rest in
        (pn_set_str n k' (pn_set_str ki vv c), e)
  | JObj mp =>
      let '(c, e) := pmod f op id (tchild n (StMap k')) (mp ++ rest)%list in
      (pn_set_str n k' (pn_set_map ki c), e)
  | JArr vv =>
      match sort_values (filter (fun x => negb (is_var_json x)) vv) with
      | None => (pn_set_str n k' ki, Some "not sortable")
      | Some sorted =>
          pmod f op id (pn_set_str n k' ki)
               (map (fun x => (k, x)) (filter is_var_json vv)
                ++ map (fun x => (k, x)) sorted ++ rest)%list
      end
  | _ => (pn_set_str n k' ki, Some "can't handle")
  end.
Proof. reflexivity. Qed.

Lemma pmod_nil f op id n :
  pmod (S f) op id n [] =
  (pn_set_ids n (match op with
                 | OpAdd => sset_add id (pn_ids n)
                 | OpRem => sset_rem id (pn_ids n)
                 end), None).
Proof. reflexivity. Qed.

Lemma ppath_S f k v rest :
  ppath (S f) ((k, v) :: rest) =
  let k' := pkey k in
  match picast v with
  | JStr vv =>
      if is_var vv then option_map (cons (StVar k')) (ppath f rest)
      else option_map (cons (StTok k' vv)) (ppath f rest)
  | JObj mp => option_map (cons (StMap k')) (ppath f (mp ++ rest)%list)
  | JArr vv =>
      match sort_values (filter (fun x => negb (is_var_json x)) vv) with
      | None => None
      | Some sorted =>
          ppath f (map (fun x => (k, x)) (filter is_var_json vv)
                   ++ map (fun x => (k, x)) sorted ++ rest)%list
      end
  | _ => None
  end.
Proof. reflexivity. Qed.

Lemma picast_shape v :
  (exists s, picast v = JStr s) \/ (exists l, picast v = JArr l /\ v = JArr l)
  \/ (exists m, picast v = JObj m /\ v = JObj m).
Proof.
  destruct v as [|b|z|s|l|m]; cbn [picast].
  - left; eexists; reflexivity.
  - left; eexists; reflexivity.
  - left; eexists; reflexivity.
  - left. destruct (has_prefix "?" s || has_prefix "F_" s || has_prefix "B_" s || has_prefix "S_" s);
      eexists; reflexivity.
  - right; left; eexists; split; reflexivity.
  - right; right; eexists; split; reflexivity.
Qed.

Lemma tchild_set_ids n i s : tchild (pn_set_ids n i) s = tchild n s.
Proof. destruct n; destruct s; reflexivity. Qed.

Lemma pmod_trel : forall fuel op id n pairs n' e,
  pmod fuel op id n pairs = (n', e) -> trel op id n n' (ppath fuel pairs) e.
Proof.
  induction fuel as [|f IH]; intros op id n pairs n' e H.
  - cbn in H. injection H as <- <-. cbn. split; [discriminate|]. intros; reflexivity.
  - destruct pairs as [|[k v] rest].
    + rewrite pmod_nil in H. injection H as <- <-. cbn [ppath trel].
      split; [reflexivity|]. split.
      * intros j. cbn [tr_has]. destruct n as [s vv m i]. cbn [pn_set_ids pn_ids].
        destruct op; cbn [upd].
        -- apply In_sset_add.
        -- apply In_sset_rem.
      * intros π j Hne. destruct π as [|s π]; [congruence|].
        cbn [tr_has]. rewrite tchild_set_ids. reflexivity.
    + rewrite pmod_S in H. rewrite ppath_S. cbv zeta in *.
      set (k' := pkey k) in *.
      destruct (picast_shape v) as [[s Hs]|[[l [Hl _]]|[m [Hm _]]]].
      * rewrite Hs in *. destruct (is_var s) eqn:Ev.
        -- destruct (pmod f op id (tchild n (StVar k')) rest) as [c e0] eqn:Ec.
           injection H as <- <-.
           apply trel_step.
           ++ apply pn_ids_set_str.
           ++ intros s1 Hs1. apply tchild_set_var_neq; exact Hs1.
           ++ rewrite tchild_set_var_eq. apply IH. exact Ec.
        -- destruct (pmod f op id (tchild n (StTok k' s)) rest) as [c e0] eqn:Ec.
           injection H as <- <-.
           apply trel_step.
           ++ apply pn_ids_set_str.
           ++ intros s1 Hs1. apply tchild_set_tok_neq; exact Hs1.
           ++ rewrite tchild_set_tok_eq. apply IH. exact Ec.
      * rewrite Hl in *.
        assert (Hsame : forall π j, tr_has (pn_set_str n k' (pn_child n k')) π j <-> tr_has n π j).
        { apply tr_has_same; [apply pn_ids_set_str|]. intros s1. apply tchild_set_same. }
        destruct (sort_values (filter (fun x => negb (is_var_json x)) l)) as [sorted|].
        -- eapply trel_same; [exact Hsame|]. apply IH. exact H.
        -- injection H as <- <-. cbn [trel]. split; [discriminate|]. exact Hsame.
      * rewrite Hm in *.
        destruct (pmod f op id (tchild n (StMap k')) (m ++ rest)%list) as [c e0] eqn:Ec.
        injection H as <- <-.
        apply trel_step.
        -- apply pn_ids_set_str.
        -- intros s1 Hs1. apply tchild_set_map_neq; exact Hs1.
        -- rewrite tchild_set_map_eq. apply IH. exact Ec.
Qed.

(** ** The [pi_add] / [pi_rem] lemmas *)

Lemma pi_add_trel n p id n' e :
  pi_add n p id = (n', e) -> trel OpAdd id n n' (pattern_path p) e.
Proof. apply pmod_trel. Qed.

Lemma pi_rem_trel n p id n' e :
  pi_rem n p id = (n', e) -> trel OpRem id n n' (pattern_path p) e.
Proof. apply pmod_trel. Qed.

Theorem pi_add_has : pi_add_has_statement.
Proof.
  intros n p id n' H. apply pi_add_trel in H.
  destruct (pattern_path p) as [π0|]; cbn [trel] in H.
  - destruct H as (_ & Hat & _). exists π0. split; [reflexivity|].
    apply Hat. left. reflexivity.
  - destruct H as (He & _). congruence.
Qed.

Theorem pi_add_none_iff_path : pi_add_none_iff_path_statement.
Proof.
  intros n p id. destruct (pi_add n p id) as [n' e] eqn:E. cbn [snd].
  apply pi_add_trel in E.
  destruct (pattern_path p) as [π0|]; cbn [trel] in E.
  - destruct E as (He & _). split; [discriminate|intros _; exact He].
  - destruct E as (He & _). split; [intros H; contradiction|intros H; congruence].
Qed.

Theorem pi_add_preserves : pi_add_preserves_statement.
Proof.
  intros n p id n' e π j H Hh. apply pi_add_trel in H.
  destruct (pattern_path p) as [π0|]; cbn [trel] in H.
  - destruct H as (_ & Hat & Hother).
    destruct (path_eq_dec π π0) as [->|Hne].
    + apply Hat. right. exact Hh.
    + apply Hother; assumption.
  - destruct H as (_ & Hall). apply Hall. exact Hh.
Qed.

Theorem pi_add_only : pi_add_only_statement.
Proof.
  intros n p id n' e π j H Hh. apply pi_add_trel in H.
  destruct (pattern_path p) as [π0|]; cbn [trel] in H.
  - destruct H as (He & Hat & Hother).
    destruct (path_eq_dec π π0) as [->|Hne].
    + apply Hat in Hh. destruct Hh as [->|Hh]; [right|left; exact Hh]. auto.
    + left. apply Hother in Hh; assumption.
  - destruct H as (_ & Hall). left. apply Hall. exact Hh.
Qed.

Theorem pi_rem_spec : pi_rem_spec_statement.
Proof.
  intros n p id n' e π j H. apply pi_rem_trel in H.
  destruct (pattern_path p) as [π0|]; cbn [trel] in H.
  - destruct H as (He & Hat & Hother).
    destruct (path_eq_dec π π0) as [->|Hne].
    + rewrite Hat. cbn [upd]. split.
      * intros [H1 H2]. split; [exact H1|]. intros (Hj & _). contradiction.
      * intros [H1 H2]. split; [exact H1|]. intros Hj. apply H2. auto.
    + rewrite (Hother π j Hne). split.
      * intros H1. split; [exact H1|]. intros (_ & _ & Hp). congruence.
      * intros [H1 _]. exact H1.
  - destruct H as (He & Hall). rewrite Hall. split.
    + intros H1. split; [exact H1|]. intros (_ & _ & Hp). discriminate.
    + intros [H1 _]. exact H1.
Qed.

(** * Part 3: fuel *)

Definition lsum (l : list json) : nat := fold_right (fun x n => (S (vsize x) + n)%nat) O l.

Lemma pairs_size_app a b : pairs_size (a ++ b) = (pairs_size a + pairs_size b)%nat.
Proof.
  unfold pairs_size. induction a as [|x a IH]; cbn [app fold_right]; [reflexivity|].
  rewrite IH. lia.
Qed.

Lemma pairs_size_cons k v r : pairs_size ((k, v) :: r) = (S (vsize v) + pairs_size r)%nat.
Proof. reflexivity. Qed.

Lemma pairs_size_map k (g : json -> json) l :
  (forall x, vsize (g x) = vsize x) ->
  pairs_size (map (fun x => (k, g x)) l) = lsum l.
Proof.
  intros Hg. unfold pairs_size, lsum. induction l as [|x l IH]; cbn [map fold_right snd]; [reflexivity|].
  rewrite IH, Hg. reflexivity.
Qed.

Lemma vsize_picast x : vsize (picast x) = vsize x.
Proof.
  destruct x as [|b|z|s|l|m]; cbn [picast]; try reflexivity.
  destruct (has_prefix "?" s || has_prefix "F_" s || has_prefix "B_" s || has_prefix "S_" s); reflexivity.
Qed.

Lemma vsize_arr l : vsize (JArr l) = S (lsum l).
Proof. reflexivity. Qed.
Lemma vsize_obj m : vsize (JObj m) = S (pairs_size m).
Proof. reflexivity. Qed.

Lemma lsum_filter (P : json -> bool) l :
  (lsum (filter P l) + lsum (filter (fun x => negb (P x)) l) = lsum l)%nat.
Proof.
  unfold lsum. induction l as [|x l IH]; cbn [filter fold_right]; [reflexivity|].
  destruct (P x); cbn [negb fold_right]; lia.
Qed.

Lemma lsum_insert x l : lsum (insert_thing x l) = (S (vsize x) + lsum l)%nat.
Proof.
  unfold lsum. induction l as [|y l IH]; cbn [insert_thing fold_right]; [reflexivity|].
  destruct (thing_leb x y); cbn [fold_right]; [reflexivity|]. rewrite IH. lia.
Qed.

Lemma lsum_sort l s : sort_values l = Some s -> lsum s = lsum l.
Proof.
  unfold sort_values. destruct (is_sortable l); [|discriminate]. intros H. injection H as <-.
  induction l as [|x l IH]; cbn [fold_right]; [reflexivity|].
  rewrite lsum_insert, IH. reflexivity.
Qed.

Lemma expand_size k vv sorted rest :
  sort_values (filter (fun x => negb (is_var_json x)) vv) = Some sorted ->
  (pairs_size (map (fun x => (k, x)) (filter is_var_json vv)
               ++ map (fun x => (k, x)) sorted ++ rest) + 2
   = pairs_size ((k, JArr vv) :: rest))%nat.
Proof.
  intros Hs. rewrite !pairs_size_app, pairs_size_cons, vsize_arr.
  rewrite !(pairs_size_map k (fun x => x)) by reflexivity.
  rewrite (lsum_sort _ _ Hs).
  pose proof (lsum_filter is_var_json vv). lia.
Qed.

Lemma vsize_str_like v s : picast v = JStr s -> vsize v = 1%nat.
Proof. intros H. rewrite <- (vsize_picast v), H. reflexivity. Qed.

Lemma pmod_fuel : forall fuel op id n pairs,
  (pairs_size pairs < fuel)%nat -> snd (pmod fuel op id n pairs) <> Some "fuel".
Proof.
  induction fuel as [|f IH]; intros op id n pairs Hlt; [lia|].
  destruct pairs as [|[k v] rest].
  - rewrite pmod_nil. cbn [snd]. discriminate.
  - rewrite pmod_S. cbv zeta. rewrite pairs_size_cons in Hlt.
    destruct (picast_shape v) as [[s Hs]|[[l [Hl Hv]]|[m [Hm Hv]]]].
    + rewrite Hs. destruct (is_var s).
      * specialize (IH op id (tchild n (StVar (pkey k))) rest).
        destruct (pmod f op id (tchild n (StVar (pkey k))) rest) as [c e0].
        cbn [snd] in *. apply IH. lia.
      * specialize (IH op id (tchild n (StTok (pkey k) s)) rest).
        destruct (pmod f op id (tchild n (StTok (pkey k) s)) rest) as [c e0].
        cbn [snd] in *. apply IH. lia.
    + rewrite Hl. subst v.
      destruct (sort_values (filter (fun x => negb (is_var_json x)) l)) as [sorted|] eqn:Es.
      * apply IH. pose proof (expand_size k l sorted rest Es) as Hsz.
        rewrite pairs_size_cons in Hsz. lia.
      * cbn [snd]. discriminate.
    + rewrite Hm. subst v. rewrite vsize_obj in Hlt.
      specialize (IH op id (tchild n (StMap (pkey k))) (m ++ rest)%list).
      destruct (pmod f op id (tchild n (StMap (pkey k))) (m ++ rest)%list) as [c e0].
      cbn [snd] in *. apply IH. rewrite pairs_size_app. lia.
Qed.

Lemma pairs_size_jO p : (pairs_size (jO p) < pi_fuel p)%nat.
Proof.
  unfold pi_fuel. destruct p; cbn [jO]; try (cbn; lia).
  rewrite vsize_obj. lia.
Qed.

Theorem pi_mod_fuel_ok : pi_mod_fuel_ok_statement.
Proof.
  intros n p id. split; apply pmod_fuel; apply pairs_size_jO.
Qed.

(** With enough fuel [ppath] does not depend on the fuel. *)
Lemma ppath_fuel_mono : forall f pairs π, ppath f pairs = Some π ->
  forall f', (f <= f')%nat -> ppath f' pairs = Some π.
Proof.
  induction f as [|f IH]; intros pairs π H f' Hle; [discriminate|].
  destruct f' as [|f']; [lia|]. assert (Hle' : (f <= f')%nat) by lia.
  destruct pairs as [|[k v] rest]; [exact H|].
  rewrite ppath_S in *. cbv zeta in *.
  destruct (picast v) as [|b|z|s|l|m]; try discriminate.
  - destruct (is_var s).
    + destruct (ppath f rest) as [π1|] eqn:E; [|discriminate].
      rewrite (IH _ _ E _ Hle'). exact H.
    + destruct (ppath f rest) as [π1|] eqn:E; [|discriminate].
      rewrite (IH _ _ E _ Hle'). exact H.
  - destruct (sort_values (filter (fun x => negb (is_var_json x)) l)); [|discriminate].
    apply (IH _ _ H _ Hle').
  - destruct (ppath f (m ++ rest)%list) as [π1|] eqn:E; [|discriminate].
    rewrite (IH _ _ E _ Hle'). exact H.
Qed.

(** * Part 4: the search *)

Lemma In_sset_union x a b : In x (sset_union a b) <-> In x a \/ In x b.
Proof.
  unfold sset_union. induction a as [|y a IH]; cbn [fold_right In].
  - tauto.
  - rewrite In_sset_add, IH. split.
    + intros [->|[H|H]]; auto.
    + intros [[->|H]|H]; auto.
Qed.

Lemma search_all_ok rec : forall next acc r,
  search_all rec next acc = Ok r ->
  incl acc r /\ forall m, In m next -> exists r', rec m = Ok r' /\ incl r' r.
Proof.
  induction next as [|n next IH]; intros acc r H; cbn [search_all] in H.
  - injection H as <-. split; [apply incl_refl|]. intros m [].
  - destruct (rec n) as [more| | |] eqn:En; cbn [obind] in H; try discriminate.
    apply IH in H. destruct H as [Hacc Hnext]. split.
    + intros x Hx. apply Hacc. apply In_sset_union. right. exact Hx.
    + intros m [<-|Hm].
      * exists more. split; [exact En|]. intros x Hx. apply Hacc. apply In_sset_union. left. exact Hx.
      * apply Hnext. exact Hm.
Qed.

Lemma search_all_fuel rec : forall next acc,
  (forall m, rec m <> OutOfFuel) -> search_all rec next acc <> OutOfFuel.
Proof.
  induction next as [|n next IH]; intros acc Hrec; cbn [search_all].
  - discriminate.
  - pose proof (Hrec n) as Hn. destruct (rec n); cbn [obind]; try discriminate; try congruence.
    apply IH. exact Hrec.
Qed.

(** Results of [search_all] only come from the accumulator or from the calls. *)
Lemma search_all_only rec : forall next acc r x,
  search_all rec next acc = Ok r -> In x r ->
  In x acc \/ exists m r', In m next /\ rec m = Ok r' /\ In x r'.
Proof.
  induction next as [|n next IH]; intros acc r x H Hx; cbn [search_all] in H.
  - injection H as <-. left. exact Hx.
  - destruct (rec n) as [more| | |] eqn:En; cbn [obind] in H; try discriminate.
    destruct (IH _ _ _ H Hx) as [Hacc|(m & r' & Hm & Hr & Hxr)].
    + apply In_sset_union in Hacc. destruct Hacc as [Hmore|Hacc]; [right|left; exact Hacc].
      exists n, more. split; [left; reflexivity|]. split; assumption.
    + right. exists m, r'. split; [right; exact Hm|]. split; assumption.
Qed.

Definition look (k : string) (n : pnode) : option pnode :=
  match alookup k (pn_strs n) with Some c => Some c | None => alookup "?" (pn_strs n) end.

Definition var_ids (ki : pnode) : list string :=
  match pn_var ki with Some vi => pn_ids vi | None => [] end.
Definition var_next (n ki : pnode) : list pnode :=
  (n :: match pn_var ki with Some vi => [vi] | None => [] end)%list.

Lemma psearch_S f n k v rest :
  psearch (S f) n ((k, v) :: rest) =
  if is_var k && (1 <? length ((k, v) :: rest))%nat
  then Err "Can't have variable key with other keys" else
  match look k n with
  | None => psearch f n rest
  | Some ki =>
      match picast v with
      | JStr vv =>
          if is_var vv then Err "Can't have variables in these things" else
          match alookup vv (pn_strs ki) with
          | Some i => search_all (fun m => psearch f m rest) (var_next n ki ++ [i])%list
                                 (sset_union (pn_ids i) (var_ids ki))
          | None => search_all (fun m => psearch f m rest) (var_next n ki) (var_ids ki)
          end
      | JObj mp =>
          match pn_map ki with
          | Some mi =>
              do more <- psearch f mi (mp ++ rest)%list;
              search_all (fun m => psearch f m rest) (var_next n ki ++ [mi])%list
                         (sset_union more (var_ids ki))
          | None => search_all (fun m => psearch f m rest) (var_next n ki) (var_ids ki)
          end
      | JArr vv =>
          match sort_values vv with
          | None => Err "not sortable"
          | Some sorted =>
              search_all (fun m => psearch f m (map (fun x => (k, x)) sorted ++ rest)%list)
                         (var_next n ki) (var_ids ki)
          end
      | _ => Err "can't handle"
      end
  end.
Proof.
  unfold look. cbn [psearch]. destruct (is_var k && (1 <? length ((k, v) :: rest))%nat); [reflexivity|].
  destruct (pn_strs n) as [|p l]; reflexivity.
Qed.

Lemma psearch_nil f n : psearch (S f) n [] = Ok (pn_ids n).
Proof. reflexivity. Qed.

Lemma psearch_fuel : forall fuel n pairs,
  (pairs_size pairs < fuel)%nat -> psearch fuel n pairs <> OutOfFuel.
Proof.
  induction fuel as [|f IH]; intros n pairs Hlt; [lia|].
  destruct pairs as [|[k v] rest]; [rewrite psearch_nil; discriminate|].
  rewrite psearch_S. rewrite pairs_size_cons in Hlt.
  destruct (is_var k && (1 <? length ((k, v) :: rest))%nat); [discriminate|].
  destruct (look k n) as [ki|]; [|apply IH; lia].
  assert (Hrest : forall m, psearch f m rest <> OutOfFuel) by (intros m; apply IH; lia).
  destruct (picast_shape v) as [[s Hs]|[[l [Hl Hv]]|[m [Hm Hv]]]].
  - rewrite Hs. destruct (is_var s); [discriminate|].
    destruct (alookup s (pn_strs ki)); apply search_all_fuel; exact Hrest.
  - rewrite Hl. subst v. destruct (sort_values l) as [sorted|] eqn:Es; [|discriminate].
    apply search_all_fuel. intros m. apply IH.
    rewrite pairs_size_app, (pairs_size_map k (fun x => x)) by reflexivity.
    rewrite (lsum_sort _ _ Es). rewrite vsize_arr in Hlt. lia.
  - rewrite Hm. subst v. rewrite vsize_obj in Hlt.
    destruct (pn_map ki) as [mi|]; [|apply search_all_fuel; exact Hrest].
    assert (Hmi : psearch f mi (m ++ rest)%list <> OutOfFuel).
    { apply IH. rewrite pairs_size_app. lia. }
    destruct (psearch f mi (m ++ rest)%list); cbn [obind]; try discriminate; try congruence.
    apply search_all_fuel; exact Hrest.
Qed.

Theorem pi_search_fuel_ok : pi_search_fuel_ok_statement.
Proof. intros n ev. apply psearch_fuel. apply pairs_size_jO. Qed.

(** Inversion of one successful step of the search at a pair whose key is present. *)
Lemma psearch_step f n k v rest ids ki :
  psearch (S f) n ((k, v) :: rest) = Ok ids ->
  alookup k (pn_strs n) = Some ki ->
  match picast v with
  | JStr vv =>
      forall m, (m = n \/ pn_var ki = Some m \/ alookup vv (pn_strs ki) = Some m) ->
                exists ids', psearch f m rest = Ok ids' /\ incl ids' ids
  | JObj mp =>
      (forall m, (m = n \/ pn_var ki = Some m) ->
                 exists ids', psearch f m rest = Ok ids' /\ incl ids' ids) /\
      (forall mi, pn_map ki = Some mi ->
                  exists ids', psearch f mi (mp ++ rest)%list = Ok ids' /\ incl ids' ids)
  | JArr vv =>
      exists sd, sort_values vv = Some sd /\
      forall m, (m = n \/ pn_var ki = Some m) ->
                exists ids', psearch f m (map (fun x => (k, x)) sd ++ rest)%list = Ok ids' /\ incl ids' ids
  | _ => False
  end.
Proof.
  intros H Hk. rewrite psearch_S in H.
  destruct (is_var k && (1 <? length ((k, v) :: rest))%nat); [discriminate|].
  unfold look in H. rewrite Hk in H.
  assert (Hnext : forall m, (m = n \/ pn_var ki = Some m) -> In m (var_next n ki)).
  { intros m [->|Hm]; unfold var_next; [left; reflexivity|]. rewrite Hm. right; left; reflexivity. }
  destruct (picast_shape v) as [[s Hs]|[[l [Hl Hv]]|[mp [Hm Hv]]]].
  - rewrite Hs in *. destruct (is_var s); [discriminate|].
    intros m Hm. destruct (alookup s (pn_strs ki)) as [i|] eqn:Ei.
    + apply search_all_ok in H. destruct H as [_ H]. apply H.
      apply in_or_app. destruct Hm as [Hm|[Hm|Hm]].
      * left. apply Hnext. left. exact Hm.
      * left. apply Hnext. right. exact Hm.
      * right. injection Hm as <-. left. reflexivity.
    + apply search_all_ok in H. destruct H as [_ H]. apply H.
      destruct Hm as [Hm|[Hm|Hm]]; [apply Hnext; left; exact Hm|apply Hnext; right; exact Hm|discriminate].
  - rewrite Hl in *. destruct (sort_values l) as [sd|]; [|discriminate].
    exists sd. split; [reflexivity|]. intros m Hm.
    apply search_all_ok in H. destruct H as [_ H]. apply H. apply Hnext. exact Hm.
  - rewrite Hm in *. destruct (pn_map ki) as [mi|] eqn:Emi.
    + destruct (psearch f mi (mp ++ rest)%list) as [more| | |] eqn:Emore; cbn [obind] in H; try discriminate.
      apply search_all_ok in H. destruct H as [Hacc H]. split.
      * intros m Hm'. apply H. apply in_or_app. left. apply Hnext. exact Hm'.
      * intros mi' Hmi'. injection Hmi' as <-. exists more. split; [exact Emore|].
        intros x Hx. apply Hacc. apply In_sset_union. left. exact Hx.
    + apply search_all_ok in H. destruct H as [_ H]. split.
      * intros m Hm'. apply H. apply Hnext. exact Hm'.
      * intros mi' Hmi'. discriminate.
Qed.

(** Skipping pairs: the search always also continues at the same node. *)
Lemma psearch_skip_app : forall f n l ep ids,
  psearch f n (l ++ ep) = Ok ids ->
  exists f' ids', psearch f' n ep = Ok ids' /\ incl ids' ids.
Proof.
  induction f as [|f IH]; intros n l ep ids H; [discriminate|].
  destruct l as [|[k v] l].
  - exists (S f), ids. split; [exact H|apply incl_refl].
  - cbn [app] in H. rewrite psearch_S in H.
    destruct (is_var k && (1 <? length ((k, v) :: l ++ ep))%nat); [discriminate|].
    destruct (look k n) as [ki|]; [|apply (IH _ _ _ _ H)].
    assert (Hn : In n (var_next n ki)) by (left; reflexivity).
    assert (Hdone : forall nx acc, In n nx ->
              search_all (fun m => psearch f m (l ++ ep)) nx acc = Ok ids ->
              exists f' ids', psearch f' n ep = Ok ids' /\ incl ids' ids).
    { intros nx acc Hin Hs. apply search_all_ok in Hs. destruct Hs as [_ Hs].
      destruct (Hs n Hin) as (r' & Hr & Hincl).
      destruct (IH _ _ _ _ Hr) as (f' & ids' & Hp & Hi).
      exists f', ids'. split; [exact Hp|]. eapply incl_tran; eassumption. }
    destruct (picast_shape v) as [[s Hs]|[[vv [Hl Hv]]|[mp [Hm Hv]]]].
    + rewrite Hs in H. destruct (is_var s); [discriminate|].
      destruct (alookup s (pn_strs ki)) as [i|].
      * eapply Hdone; [|exact H]. apply in_or_app. left. exact Hn.
      * eapply Hdone; [|exact H]. exact Hn.
    + rewrite Hl in H. destruct (sort_values vv) as [sd|]; [|discriminate].
      apply search_all_ok in H. destruct H as [_ H].
      destruct (H n Hn) as (r' & Hr & Hincl).
      rewrite app_assoc in Hr.
      destruct (IH _ _ _ _ Hr) as (f' & ids' & Hp & Hi).
      exists f', ids'. split; [exact Hp|]. eapply incl_tran; eassumption.
    + rewrite Hm in H. destruct (pn_map ki) as [mi|].
      * destruct (psearch f mi (mp ++ l ++ ep)%list) as [more| | |]; cbn [obind] in H; try discriminate.
        eapply Hdone; [|exact H]. apply in_or_app. left. exact Hn.
      * eapply Hdone; [|exact H]. exact Hn.
Qed.

(** [finds π ep]: a search over the event pairs [ep], started at any node from
    which the path π leads to [id], returns [id] (unless it reports an error). *)
Definition finds (π : list step) (ep : list (string * json)) : Prop :=
  forall f n id ids, tr_has n π id -> psearch f n ep = Ok ids -> In id ids.

Lemma finds_skip_app π l ep : finds π ep -> finds π (l ++ ep).
Proof.
  intros H f n id ids Ht Hp.
  destruct (psearch_skip_app _ _ _ _ _ Hp) as (f' & ids' & Hp' & Hi).
  apply Hi. eapply H; eassumption.
Qed.

Lemma finds_skip π e ep : finds π ep -> finds π (e :: ep).
Proof. apply (finds_skip_app π [e] ep). Qed.

Lemma finds_nil ep : finds [] ep.
Proof.
  rewrite <- (app_nil_r ep). apply finds_skip_app.
  intros f n id ids Ht Hp. destruct f as [|f]; [discriminate|].
  rewrite psearch_nil in Hp. injection Hp as <-. exact Ht.
Qed.

Lemma finds_tok k tok v π ep :
  picast v = JStr tok -> finds π ep -> finds (StTok k tok :: π) ((k, v) :: ep).
Proof.
  intros Hv H f n id ids Ht Hp. destruct f as [|f]; [discriminate|].
  apply tr_has_tok in Ht. destruct Ht as (ki & c & Hk & Hc & Ht).
  pose proof (psearch_step _ _ _ _ _ _ _ Hp Hk) as Hst. rewrite Hv in Hst.
  destruct (Hst c) as (ids' & Hp' & Hi); [right; right; exact Hc|].
  apply Hi. eapply H; eassumption.
Qed.

Lemma finds_var k v π ep : finds π ep -> finds (StVar k :: π) ((k, v) :: ep).
Proof.
  intros H f n id ids Ht Hp. destruct f as [|f]; [discriminate|].
  apply tr_has_var in Ht. destruct Ht as (ki & c & Hk & Hc & Ht).
  pose proof (psearch_step _ _ _ _ _ _ _ Hp Hk) as Hst.
  destruct (picast_shape v) as [[s Hs]|[[vv [Hl Hv]]|[mp [Hm Hv]]]].
  - rewrite Hs in Hst. destruct (Hst c) as (ids' & Hp' & Hi); [right; left; exact Hc|].
    apply Hi. eapply H; eassumption.
  - rewrite Hl in Hst. destruct Hst as (sd & _ & Hst).
    destruct (Hst c) as (ids' & Hp' & Hi); [right; exact Hc|].
    apply Hi. eapply (finds_skip_app π _ ep H); eassumption.
  - rewrite Hm in Hst. destruct Hst as (Hst & _).
    destruct (Hst c) as (ids' & Hp' & Hi); [right; exact Hc|].
    apply Hi. eapply H; eassumption.
Qed.

Lemma finds_map k mp π ep :
  finds π (mp ++ ep) -> finds (StMap k :: π) ((k, JObj mp) :: ep).
Proof.
  intros H f n id ids Ht Hp. destruct f as [|f]; [discriminate|].
  apply tr_has_map in Ht. destruct Ht as (ki & c & Hk & Hc & Ht).
  pose proof (psearch_step _ _ _ _ _ _ _ Hp Hk) as Hst. cbn [picast] in Hst.
  destruct Hst as (_ & Hst). destruct (Hst c Hc) as (ids' & Hp' & Hi).
  apply Hi. eapply H; eassumption.
Qed.

(** An array value in the event: with the whole-array variable move. *)
Lemma finds_var_arr k vv π ep :
  (forall sd, sort_values vv = Some sd -> finds π (map (fun x => (k, x)) sd ++ ep)) ->
  finds (StVar k :: π) ((k, JArr vv) :: ep).
Proof.
  intros H f n id ids Ht Hp. destruct f as [|f]; [discriminate|].
  apply tr_has_var in Ht. destruct Ht as (ki & c & Hk & Hc & Ht).
  pose proof (psearch_step _ _ _ _ _ _ _ Hp Hk) as Hst. cbn [picast] in Hst.
  destruct Hst as (sd & Hsd & Hst).
  destruct (Hst c) as (ids' & Hp' & Hi); [right; exact Hc|].
  apply Hi. eapply (H sd Hsd); eassumption.
Qed.

(** An array value in the event, expanded in place (the path goes on with the
    same key, so the key is present in the node), or skipped (the path does
    not need this pair at all). *)
Lemma finds_arr k vv π ep :
  (exists s π', π = s :: π' /\ step_key s = k) \/ finds π ep ->
  (forall sd, sort_values vv = Some sd -> finds π (map (fun x => (k, x)) sd ++ ep)) ->
  finds π ((k, JArr vv) :: ep).
Proof.
  intros [(s & π' & -> & Hkey)|Hskip] H; [|apply finds_skip; exact Hskip].
  intros f n id ids Ht Hp. destruct f as [|f]; [discriminate|].
  destruct (tr_has_key _ _ _ _ Ht) as (ki & Hk). rewrite Hkey in Hk.
  pose proof (psearch_step _ _ _ _ _ _ _ Hp Hk) as Hst. cbn [picast] in Hst.
  destruct Hst as (sd & Hsd & Hst).
  destruct (Hst n) as (ids' & Hp' & Hi); [left; reflexivity|].
  apply Hi. eapply (H sd Hsd); eassumption.
Qed.

(** ** Every id returned by the search is stored somewhere in the trie *)

Lemma look_some k n ki : look k n = Some ki -> exists κ, alookup κ (pn_strs n) = Some ki.
Proof.
  unfold look. destruct (alookup k (pn_strs n)) as [c|] eqn:E.
  - intros H. injection H as <-. exists k. exact E.
  - intros H. exists "?". exact H.
Qed.

Lemma psearch_stored : forall f n pairs ids id,
  psearch f n pairs = Ok ids -> In id ids -> exists π, tr_has n π id.
Proof.
  induction f as [|f IH]; intros n pairs ids id H Hin; [discriminate|].
  destruct pairs as [|[k v] rest].
  - rewrite psearch_nil in H. injection H as <-. exists []. exact Hin.
  - rewrite psearch_S in H.
    destruct (is_var k && (1 <? length ((k, v) :: rest))%nat); [discriminate|].
    destruct (look k n) as [ki|] eqn:Elook; [|apply (IH _ _ _ _ H Hin)].
    destruct (look_some _ _ _ Elook) as (κ & Hκ).
    assert (Hvarids : In id (var_ids ki) -> exists π, tr_has n π id).
    { unfold var_ids. destruct (pn_var ki) as [vi|] eqn:Evi; [|intros []].
      intros Hi. exists [StVar κ]. apply tr_has_var. exists ki, vi. auto. }
    assert (Hvarnext : forall pairs' m r', In m (var_next n ki) ->
              psearch f m pairs' = Ok r' -> In id r' -> exists π, tr_has n π id).
    { intros pairs' m r' Hm Hr Hi. unfold var_next in Hm. destruct Hm as [<-|Hm].
      - apply (IH _ _ _ _ Hr Hi).
      - destruct (pn_var ki) as [vi|] eqn:Evi; [|destruct Hm].
        destruct Hm as [<-|[]]. destruct (IH _ _ _ _ Hr Hi) as (π & Hπ).
        exists (StVar κ :: π). apply tr_has_var. exists ki, vi. auto. }
    destruct (picast_shape v) as [[s Hs]|[[vv [Hl Hv]]|[mp [Hm Hv]]]].
    + rewrite Hs in H. destruct (is_var s); [discriminate|].
      destruct (alookup s (pn_strs ki)) as [i|] eqn:Ei.
      * destruct (search_all_only _ _ _ _ _ H Hin) as [Hacc|(m & r' & Hm & Hr & Hi)].
        -- apply In_sset_union in Hacc. destruct Hacc as [Hacc|Hacc]; [|apply Hvarids; exact Hacc].
           exists [StTok κ s]. apply tr_has_tok. exists ki, i. auto.
        -- apply in_app_or in Hm. destruct Hm as [Hm|[<-|[]]].
           ++ apply (Hvarnext _ _ _ Hm Hr Hi).
           ++ destruct (IH _ _ _ _ Hr Hi) as (π & Hπ).
              exists (StTok κ s :: π). apply tr_has_tok. exists ki, i. auto.
      * destruct (search_all_only _ _ _ _ _ H Hin) as [Hacc|(m & r' & Hm & Hr & Hi)].
        -- apply Hvarids; exact Hacc.
        -- apply (Hvarnext _ _ _ Hm Hr Hi).
    + rewrite Hl in H. destruct (sort_values vv) as [sd|]; [|discriminate].
      destruct (search_all_only _ _ _ _ _ H Hin) as [Hacc|(m & r' & Hm & Hr & Hi)].
      * apply Hvarids; exact Hacc.
      * apply (Hvarnext _ _ _ Hm Hr Hi).
    + rewrite Hm in H. destruct (pn_map ki) as [mi|] eqn:Emi.
      * destruct (psearch f mi (mp ++ rest)%list) as [more| | |] eqn:Emore; cbn [obind] in H; try discriminate.
        destruct (search_all_only _ _ _ _ _ H Hin) as [Hacc|(m & r' & Hm' & Hr & Hi)].
        -- apply In_sset_union in Hacc. destruct Hacc as [Hacc|Hacc]; [|apply Hvarids; exact Hacc].
           destruct (IH _ _ _ _ Emore Hacc) as (π & Hπ).
           exists (StMap κ :: π). apply tr_has_map. exists ki, mi. auto.
        -- apply in_app_or in Hm'. destruct Hm' as [Hm'|[<-|[]]].
           ++ apply (Hvarnext _ _ _ Hm' Hr Hi).
           ++ destruct (IH _ _ _ _ Hr Hi) as (π & Hπ).
              exists (StMap κ :: π). apply tr_has_map. exists ki, mi. auto.
      * destruct (search_all_only _ _ _ _ _ H Hin) as [Hacc|(m & r' & Hm' & Hr & Hi)].
        -- apply Hvarids; exact Hacc.
        -- apply (Hvarnext _ _ _ Hm' Hr Hi).
Qed.

Theorem psearch_only_stored : psearch_only_stored_statement.
Proof. intros n ev ids id H Hin. eapply psearch_stored; eassumption. Qed.

(** * Part 5: sorting facts ([thing_leb] is a total order on values of one sortable type) *)

Inductive subseq {A : Type} : list A -> list A -> Prop :=
| ss_nil l : subseq [] l
| ss_skip x a l : subseq a l -> subseq a (x :: l)
| ss_take x a l : subseq a l -> subseq (x :: a) (x :: l).

Lemma subseq_incl {A} (a l : list A) : subseq a l -> incl a l.
Proof.
  induction 1 as [l|x a l _ IH|x a l _ IH].
  - intros y [].
  - intros y Hy. right. apply IH. exact Hy.
  - intros y [<-|Hy]; [left; reflexivity|right; apply IH; exact Hy].
Qed.

Lemma subseq_NoDup {A} (a l : list A) : subseq a l -> NoDup l -> NoDup a.
Proof.
  induction 1 as [l|x a l _ IH|x a l Hs IH]; intros Hnd.
  - constructor.
  - apply IH. inversion Hnd; assumption.
  - inversion Hnd as [|y l' Hnin Hnd']; subst. constructor.
    + intros Hin. apply Hnin. eapply subseq_incl; eassumption.
    + apply IH. exact Hnd'.
Qed.

Lemma str_leb_total a b : str_leb a b = false -> str_leb b a = true.
Proof.
  unfold str_leb. destruct (String.compare a b) eqn:E; try discriminate.
  intros _. rewrite (scmp_gt_lt _ _ E). reflexivity.
Qed.

Lemma str_leb_trans a b c : str_leb a b = true -> str_leb b c = true -> str_leb a c = true.
Proof.
  unfold str_leb. destruct (String.compare a b) eqn:E1; try discriminate; intros _;
    destruct (String.compare b c) eqn:E2; try discriminate; intros _.
  - apply scmp_eq in E1. subst b. rewrite E2. reflexivity.
  - apply scmp_eq in E1. subst b. rewrite E2. reflexivity.
  - apply scmp_eq in E2. subst c. rewrite E1. reflexivity.
  - rewrite (scmp_lt_trans _ _ _ E1 E2). reflexivity.
Qed.

Lemma str_leb_antisym a b : str_leb a b = true -> str_leb b a = true -> a = b.
Proof.
  unfold str_leb. destruct (String.compare a b) eqn:E1; try discriminate; intros _.
  - intros _. apply scmp_eq. exact E1.
  - rewrite (scmp_lt_gt _ _ E1). discriminate.
Qed.

Lemma thing_leb_total x y : thing_leb x y = false -> thing_leb y x = true.
Proof.
  destruct x as [| [] |z1|s1|l1|m1], y as [| [] |z2|s2|l2|m2]; cbn [thing_leb implb]; try reflexivity; try discriminate.
  - intros H. apply Z.leb_gt in H. apply Z.leb_le. lia.
  - apply str_leb_total.
Qed.

Lemma thing_leb_trans x y z :
  type_code x <> 0 -> type_code y = type_code x -> type_code z = type_code x ->
  thing_leb x y = true -> thing_leb y z = true -> thing_leb x z = true.
Proof.
  destruct x as [|b1|z1|s1|l1|m1]; cbn [type_code]; intros H0; try congruence;
    destruct y as [|b2|z2|s2|l2|m2]; cbn [type_code]; intros Hy; try discriminate;
    destruct z as [|b3|z3|s3|l3|m3]; cbn [type_code]; intros Hz; try discriminate; cbn [thing_leb].
  - destruct b1, b2, b3; cbn; congruence.
  - rewrite !Z.leb_le. lia.
  - apply str_leb_trans.
Qed.

Lemma thing_leb_antisym x y :
  type_code x <> 0 -> type_code y = type_code x ->
  thing_leb x y = true -> thing_leb y x = true -> x = y.
Proof.
  destruct x as [|b1|z1|s1|l1|m1]; cbn [type_code]; intros H0; try congruence;
    destruct y as [|b2|z2|s2|l2|m2]; cbn [type_code]; intros Hy; try discriminate; cbn [thing_leb].
  - destruct b1, b2; cbn; congruence.
  - rewrite !Z.leb_le. intros H1 H2. f_equal. lia.
  - intros H1 H2. f_equal. apply str_leb_antisym; assumption.
Qed.

Definition tsort (l : list json) : list json := fold_right insert_thing [] l.

Lemma perm_insert x l : Permutation (insert_thing x l) (x :: l).
Proof.
  induction l as [|y l IH]; cbn [insert_thing]; [reflexivity|].
  destruct (thing_leb x y); [reflexivity|].
  rewrite IH. apply perm_swap.
Qed.

Lemma perm_tsort l : Permutation (tsort l) l.
Proof.
  unfold tsort. induction l as [|x l IH]; cbn [fold_right]; [reflexivity|].
  rewrite perm_insert. constructor. exact IH.
Qed.

Fixpoint tsorted (l : list json) : Prop :=
  match l with
  | [] => True
  | x :: r => (forall y, In y r -> thing_leb x y = true) /\ tsorted r
  end.

Definition homog (t : Z) (l : list json) : Prop := forall x, In x l -> type_code x = t.

Lemma insert_sorted t x l :
  t <> 0 -> type_code x = t -> homog t l -> tsorted l -> tsorted (insert_thing x l).
Proof.
  intros Ht Hx. induction l as [|y l IH]; intros Hh Hs; cbn [insert_thing].
  - cbn. split; [intros y []|exact I].
  - destruct Hs as [Hy Hs].
    assert (Hty : type_code y = t) by (apply Hh; left; reflexivity).
    destruct (thing_leb x y) eqn:E.
    + cbn [tsorted]. split; [|split; assumption].
      intros z [<-|Hz]; [exact E|].
      apply (thing_leb_trans x y z); try congruence.
      * rewrite (Hh z); [congruence|right; exact Hz].
      * apply Hy. exact Hz.
    + cbn [tsorted]. split.
      * intros z Hz. apply (Permutation_in _ (perm_insert x l)) in Hz.
        destruct Hz as [<-|Hz]; [apply thing_leb_total; exact E|apply Hy; exact Hz].
      * apply IH; [|exact Hs]. intros z Hz. apply Hh. right. exact Hz.
Qed.

Lemma tsort_sorted t l : t <> 0 -> homog t l -> tsorted (tsort l).
Proof.
  intros Ht. unfold tsort. induction l as [|x l IH]; intros Hh; cbn [fold_right]; [exact I|].
  apply (insert_sorted t); auto.
  - apply Hh. left. reflexivity.
  - intros z Hz. apply (Permutation_in _ (perm_tsort l)) in Hz. apply Hh. right. exact Hz.
  - apply IH. intros z Hz. apply Hh. right. exact Hz.
Qed.

Lemma subseq_sorted t : t <> 0 -> forall sd sc,
  homog t sd -> homog t sc -> tsorted sd -> tsorted sc -> NoDup sc -> incl sc sd ->
  subseq sc sd.
Proof.
  intros Ht. induction sd as [|d sd IH]; intros sc Hhd Hhc Hsd Hsc Hnd Hincl.
  - destruct sc as [|c sc]; [constructor|]. destruct (Hincl c (or_introl eq_refl)).
  - destruct sc as [|c sc]; [constructor|].
    destruct Hsd as [Hd Hsd]. destruct Hsc as [Hc Hsc].
    assert (Hhd' : homog t sd) by (intros z Hz; apply Hhd; right; exact Hz).
    assert (Hhc' : homog t sc) by (intros z Hz; apply Hhc; right; exact Hz).
    inversion Hnd as [|c' sc' Hnin Hnd']; subst.
    destruct (json_eqb c d) eqn:E.
    + apply json_eqb_iff in E. subst d. apply ss_take. apply IH; auto.
      intros z Hz. destruct (Hincl z (or_intror Hz)) as [<-|Hz']; [contradiction|exact Hz'].
    + apply json_eqb_false in E. apply ss_skip. apply IH; auto.
      * cbn [tsorted]. split; assumption.
      * intros z Hz. destruct (Hincl z Hz) as [<-|Hz']; [|exact Hz']. exfalso.
        destruct Hz as [Hz|Hz]; [congruence|].
        destruct (Hincl c (or_introl eq_refl)) as [Hcd|Hcd]; [congruence|].
        apply E. apply (thing_leb_antisym c d).
        -- rewrite (Hhc c); [exact Ht|left; reflexivity].
        -- rewrite (Hhd d), (Hhc c); [reflexivity|left; reflexivity|left; reflexivity].
        -- apply Hc. exact Hz.
        -- apply Hd. exact Hcd.
Qed.

Lemma sort_values_tsort l s : sort_values l = Some s -> s = tsort l /\ is_sortable l = true.
Proof.
  unfold sort_values. destruct (is_sortable l); [|discriminate].
  intros H. injection H as <-. split; reflexivity.
Qed.

Lemma is_sortable_cases l :
  is_sortable l = true -> (length l <= 1)%nat \/ exists t, t <> 0 /\ homog t l.
Proof.
  destruct l as [|x [|y r]]; [left; cbn; lia|left; cbn; lia|].
  intros H. right. unfold is_sortable in H. apply andb_true_iff in H. destruct H as [H1 H2].
  exists (type_code x). split.
  - apply negb_true_iff in H1. apply Z.eqb_neq in H1. exact H1.
  - intros z [<-|Hz]; [reflexivity|].
    rewrite forallb_forall in H2. apply Z.eqb_eq. apply H2. exact Hz.
Qed.

(** The sorted distinct constants of the pattern array are a subsequence of
    the sorted elements of the event array. *)
Lemma sorted_consts_subseq C dl sc sd :
  sort_values C = Some sc -> sort_values dl = Some sd ->
  NoDup C -> incl C dl -> subseq sc sd.
Proof.
  intros HC Hdl Hnd Hincl.
  apply sort_values_tsort in HC. destruct HC as [-> _].
  apply sort_values_tsort in Hdl. destruct Hdl as [-> Hsortable].
  destruct (is_sortable_cases _ Hsortable) as [Hlen|(t & Ht & Hh)].
  - destruct dl as [|d [|d2 dl]]; [| |cbn in Hlen; lia].
    + destruct C as [|c C]; [constructor|]. destruct (Hincl c (or_introl eq_refl)).
    + destruct C as [|c [|c2 C]].
      * constructor.
      * destruct (Hincl c (or_introl eq_refl)) as [<-|[]]. cbn. apply ss_take. constructor.
      * exfalso. destruct (Hincl c (or_introl eq_refl)) as [<-|[]].
        destruct (Hincl c2 (or_intror (or_introl eq_refl))) as [<-|[]].
        inversion Hnd as [|x l Hnin _]; subst. apply Hnin. left. reflexivity.
  - assert (HhC : homog t C) by (intros z Hz; apply Hh; apply Hincl; exact Hz).
    apply (subseq_sorted t Ht).
    + intros z Hz. apply Hh. apply (Permutation_in _ (perm_tsort dl)). exact Hz.
    + intros z Hz. apply HhC. apply (Permutation_in _ (perm_tsort C)). exact Hz.
    + apply (tsort_sorted t); assumption.
    + apply (tsort_sorted t); assumption.
    + apply (Permutation_NoDup (Permutation_sym (perm_tsort C))). exact Hnd.
    + intros z Hz. apply (Permutation_in _ (Permutation_sym (perm_tsort dl))).
      apply Hincl. apply (Permutation_in _ (perm_tsort C)). exact Hz.
Qed.

(** * Part 6: what [lay] says *)

Definition Lay (b : bindings) (p d : json) : Prop := exists f, lay f b p d = true.

Definition scalar_const (c : json) : bool := is_scalar c && negb (is_var_json c).

Lemma Lay_scalar b c d : scalar_const c = true -> Lay b c d -> d = c.
Proof.
  unfold scalar_const. intros Hc [f H]. apply andb_true_iff in Hc. destruct Hc as [Hs Hv].
  apply negb_true_iff in Hv.
  destruct f as [|f]; [discriminate|]. cbn [lay] in H.
  destruct c as [|x|x|s|l|m]; cbn [is_scalar] in Hs; try discriminate.
  - destruct d; try discriminate. reflexivity.
  - destruct d as [|y| | | |]; try discriminate. apply Bool.eqb_prop in H. congruence.
  - destruct d as [| |y| | |]; try discriminate. apply Z.eqb_eq in H. congruence.
  - cbn [is_var_json] in Hv. rewrite Hv in H. cbn [negb] in H.
    destruct d as [| | |t| |]; try discriminate. apply String.eqb_eq in H. congruence.
Qed.

Lemma Lay_obj b pk d :
  (forall k pv, In (k, pv) pk -> is_var k = false) ->
  Lay b (JObj pk) d ->
  exists dk, d = JObj dk /\
    forall k pv, In (k, pv) pk -> exists dv, alookup k dk = Some dv /\ Lay b pv dv.
Proof.
  intros Hnv [f H]. destruct f as [|f]; [discriminate|]. cbn [lay] in H.
  destruct d as [| | | | |dk]; try discriminate. exists dk. split; [reflexivity|].
  assert (Hgen : forallb (fun kv => negb (is_var (fst kv)) &&
                                    match alookup (fst kv) dk with
                                    | Some dv => lay f b (snd kv) dv
                                    | None => false
                                    end) pk = true ->
                 forall k pv, In (k, pv) pk -> exists dv, alookup k dk = Some dv /\ Lay b pv dv).
  { intros Hall k pv Hin. rewrite forallb_forall in Hall. specialize (Hall _ Hin).
    cbn [fst snd] in Hall. apply andb_true_iff in Hall. destruct Hall as [_ Hall].
    destruct (alookup k dk) as [dv|]; [|discriminate].
    exists dv. split; [reflexivity|]. exists f. exact Hall. }
  destruct pk as [|[k pv] [|kv2 r]].
  - intros k pv [].
  - rewrite (Hnv k pv (or_introl eq_refl)) in H.
    intros k' pv' [E|[]]. injection E as <- <-.
    destruct (alookup k dk) as [dv|]; [|discriminate].
    exists dv. split; [reflexivity|]. exists f. exact H.
  - apply Hgen. exact H.
Qed.

Lemma picks_perm {A} (l : list A) pr : In pr (picks l) -> Permutation l (fst pr :: snd pr).
Proof.
  revert pr. induction l as [|x l IH]; intros pr Hin; cbn [picks] in Hin.
  - destruct Hin.
  - destruct Hin as [<-|Hin]; [reflexivity|].
    apply in_map_iff in Hin. destruct Hin as (pr' & <- & Hin'). cbn [fst snd].
    rewrite (IH _ Hin') at 1. apply perm_swap.
Qed.

Lemma lay_inj_spec rec : forall fuel pl dl,
  lay_inj rec fuel pl dl = true ->
  exists D' R, Forall2 (fun x d => rec x d = true) pl D' /\ Permutation dl (D' ++ R).
Proof.
  induction fuel as [|f IH]; intros pl dl H; [discriminate|].
  cbn [lay_inj] in H. destruct pl as [|x pl].
  - exists [], dl. split; [constructor|reflexivity].
  - apply existsb_exists in H. destruct H as (pr & Hin & H).
    apply andb_true_iff in H. destruct H as [Hx Hrest].
    destruct (IH _ _ Hrest) as (D' & R & HF & HP).
    exists (fst pr :: D'), R. split; [constructor; assumption|].
    rewrite (picks_perm _ _ Hin). cbn [app]. constructor. exact HP.
Qed.

Lemma Lay_arr b pl d :
  Lay b (JArr pl) d ->
  exists dl D' R, d = JArr dl /\ Forall2 (Lay b) pl D' /\
                  Permutation (dedup_scalars dl []) (D' ++ R).
Proof.
  intros [f H]. destruct f as [|f]; [discriminate|]. cbn [lay] in H.
  destruct d as [| | | |dl|]; try discriminate.
  destruct (lay_inj_spec _ _ _ _ H) as (D' & R & HF & HP).
  exists dl, D', R. split; [reflexivity|]. split; [|exact HP].
  clear -HF. induction HF as [|x d pl D' Hxd _ IH]; constructor; [exists f; exact Hxd|exact IH].
Qed.

Lemma Lay_struct_scalar b p d : is_scalar p = false -> Lay b p d -> is_scalar d = false.
Proof.
  intros Hp [f H]. destruct f as [|f]; [discriminate|]. cbn [lay] in H.
  destruct p; cbn [is_scalar] in Hp; try discriminate; destruct d; try discriminate; reflexivity.
Qed.

Lemma dedup_scalars_incl : forall l seen x, In x (dedup_scalars l seen) -> In x l.
Proof.
  induction l as [|y l IH]; intros seen x H; cbn [dedup_scalars] in H; [exact H|].
  destruct (is_scalar y).
  - destruct (mem_json y seen).
    + right. eapply IH; exact H.
    + destruct H as [<-|H]; [left; reflexivity|right; eapply IH; exact H].
  - destruct H as [<-|H]; [left; reflexivity|right; eapply IH; exact H].
Qed.

Lemma dedup_scalars_NoDup : forall l seen,
  forallb is_scalar l = true ->
  NoDup (dedup_scalars l seen) /\ forall x, In x (dedup_scalars l seen) -> ~ In x seen.
Proof.
  induction l as [|y l IH]; intros seen Hs; cbn [dedup_scalars].
  - split; [constructor|intros x []].
  - cbn [forallb] in Hs. apply andb_true_iff in Hs. destruct Hs as [Hy Hs]. rewrite Hy.
    destruct (mem_json y seen) eqn:Em.
    + apply IH. exact Hs.
    + destruct (IH (y :: seen) Hs) as [Hnd Hnot]. split.
      * constructor; [|exact Hnd]. intros Hin. apply (Hnot y Hin). left. reflexivity.
      * intros x [<-|Hx].
        -- intros Hin. apply MatchLemmas1.mem_json_In in Hin. congruence.
        -- intros Hin. apply (Hnot x Hx). right. exact Hin.
Qed.

(** * Part 7: from [lay] to an embedding of the pattern pairs in the event pairs *)

Definition pat_ok (p : json) : bool := wf_json p && no_propvar_keys p && arrays_ok p.

Lemma pat_ok_obj mp :
  pat_ok (JObj mp) = true ->
  sorted_keys (map fst mp) = true /\
  forall k pv, In (k, pv) mp -> is_var k = false /\ pat_ok pv = true.
Proof.
  unfold pat_ok. cbn [wf_json no_propvar_keys arrays_ok]. intros H.
  apply andb_true_iff in H. destruct H as [H H3].
  apply andb_true_iff in H. destruct H as [H1 H2].
  apply andb_true_iff in H1. destruct H1 as [Hs H1]. split; [exact Hs|].
  intros k pv Hin. rewrite forallb_forall in H1, H2, H3.
  specialize (H1 _ Hin). specialize (H2 _ Hin). specialize (H3 _ Hin). cbn [fst snd] in *.
  apply andb_true_iff in H2. destruct H2 as [Hk H2]. apply negb_true_iff in Hk.
  split; [exact Hk|]. rewrite H1, H2, H3. reflexivity.
Qed.

Lemma pat_ok_arr pl :
  pat_ok (JArr pl) = true ->
  (length (filter is_var_json pl) <= 1)%nat /\
  (forall x, In x pl -> pat_ok x = true).
Proof.
  unfold pat_ok. cbn [wf_json no_propvar_keys arrays_ok]. intros H.
  apply andb_true_iff in H. destruct H as [H H3].
  apply andb_true_iff in H. destruct H as [H1 H2].
  apply andb_true_iff in H3. destruct H3 as [H3 H5].
  split; [apply Nat.leb_le; exact H3|].
  intros x Hin. rewrite forallb_forall in H1, H2, H5.
  rewrite (H1 _ Hin), (H2 _ Hin), (H5 _ Hin). reflexivity.
Qed.

Lemma wf_obj dk :
  wf_json (JObj dk) = true ->
  sorted_keys (map fst dk) = true /\ forall k dv, In (k, dv) dk -> wf_json dv = true.
Proof.
  cbn [wf_json]. intros H. apply andb_true_iff in H. destruct H as [H1 H2].
  split; [exact H1|]. intros k dv Hin. rewrite forallb_forall in H2. apply (H2 _ Hin).
Qed.

Lemma scalar_picast c :
  scalar_const c = true -> exists tok, picast c = JStr tok /\ is_var tok = false.
Proof.
  unfold scalar_const. intros H. apply andb_true_iff in H. destruct H as [Hs Hv].
  apply negb_true_iff in Hv.
  destruct c as [|x|x|s|l|m]; cbn [is_scalar] in Hs; try discriminate; cbn [picast].
  - eexists; split; reflexivity.
  - destruct x; eexists; split; reflexivity.
  - generalize (Z_to_string x). intros w. eexists; split; reflexivity.
  - cbn [is_var_json] in Hv.
    destruct (has_prefix "?" s || has_prefix "F_" s || has_prefix "B_" s || has_prefix "S_" s).
    + eexists; split; [reflexivity|exact Hv].
    + eexists; split; reflexivity.
Qed.

Lemma picast_var s : is_var s = true -> picast (JStr s) = JStr s.
Proof. unfold is_var. intros H. cbn [picast]. rewrite H. reflexivity. Qed.

Lemma pkey_nonvar k : is_var k = false -> pkey k = k.
Proof. unfold pkey. intros ->. reflexivity. Qed.

(** Value relation: the pattern value lays over the event value, or it is a
    scalar constant (of a pattern array) and the event value is that constant. *)
Inductive VL (b : bindings) : json -> json -> Prop :=
| VL_lay pv dv : pat_ok pv = true -> wf_json dv = true -> Lay b pv dv -> VL b pv dv
| VL_const c : scalar_const c = true -> VL b c c.

(** The pattern pairs are matched, in order, by a subsequence of the event pairs. *)
Inductive PL (b : bindings) : list (string * json) -> list (string * json) -> Prop :=
| PL_nil ep : PL b [] ep
| PL_skip pp e ep : PL b pp ep -> PL b pp (e :: ep)
| PL_match k pv dv pp ep :
    is_var k = false -> VL b pv dv -> PL b pp ep -> PL b ((k, pv) :: pp) ((k, dv) :: ep).

Lemma PL_skip_app b pp l ep : PL b pp ep -> PL b pp (l ++ ep).
Proof. intros H. induction l as [|e l IH]; [exact H|]. cbn [app]. apply PL_skip. exact IH. Qed.

Lemma PL_app b p1 e1 p2 e2 : PL b p1 e1 -> PL b p2 e2 -> PL b (p1 ++ p2) (e1 ++ e2).
Proof.
  intros H1 H2. induction H1 as [ep|pp e ep _ IH|k pv dv pp ep Hk Hv _ IH]; cbn [app].
  - apply PL_skip_app. exact H2.
  - apply PL_skip. exact IH.
  - apply PL_match; assumption.
Qed.

(** Sorted objects: the pattern's keys, all present in the event object, are
    met in order. *)
Lemma PL_of_obj b : forall dk pk,
  sorted_keys (map fst pk) = true -> sorted_keys (map fst dk) = true ->
  (forall k pv, In (k, pv) pk ->
     is_var k = false /\ exists dv, alookup k dk = Some dv /\ VL b pv dv) ->
  PL b pk dk.
Proof.
  induction dk as [|[kd vd] dk IH]; intros pk Hsp Hsd Hall.
  - destruct pk as [|[k pv] pk]; [constructor|].
    destruct (Hall k pv (or_introl eq_refl)) as (_ & dv & Hl & _). discriminate.
  - destruct pk as [|[k pv] pk]; [constructor|].
    cbn [map fst] in Hsp, Hsd. apply sorted_cons in Hsp. apply sorted_cons in Hsd.
    destruct Hsp as [Hlbp Hsp]. destruct Hsd as [Hlbd Hsd].
    destruct (String.eqb_spec k kd) as [->|Hne].
    + destruct (Hall kd pv (or_introl eq_refl)) as (Hk & dv & Hl & Hv).
      cbn [alookup] in Hl. rewrite String.eqb_refl in Hl. injection Hl as <-.
      apply PL_match; [exact Hk|exact Hv|].
      apply IH; [exact Hsp|exact Hsd|].
      intros k2 pv2 Hin. destruct (Hall k2 pv2 (or_intror Hin)) as (Hk2 & dv2 & Hl2 & Hv2).
      split; [exact Hk2|]. exists dv2. split; [|exact Hv2].
      cbn [alookup] in Hl2.
      assert (Hlt : str_ltb kd k2 = true).
      { apply Hlbp. apply (in_map fst) in Hin. exact Hin. }
      apply str_ltb_lt in Hlt. apply scmp_lt_gt in Hlt.
      rewrite (eqb_false_of_gt _ _ Hlt) in Hl2. exact Hl2.
    + apply PL_skip. apply IH.
      * cbn [map fst]. apply sorted_cons. split; assumption.
      * exact Hsd.
      * intros k2 pv2 Hin. destruct (Hall k2 pv2 Hin) as (Hk2 & dv2 & Hl2 & Hv2).
        split; [exact Hk2|]. exists dv2. split; [|exact Hv2].
        cbn [alookup] in Hl2. destruct (String.eqb_spec k2 kd) as [->|Hne2]; [|exact Hl2].
        exfalso. destruct Hin as [E|Hin]; [congruence|].
        assert (H1 : str_ltb k kd = true).
        { apply Hlbp. apply (in_map fst) in Hin. exact Hin. }
        destruct (Hall k pv (or_introl eq_refl)) as (_ & dv & Hl & _).
        cbn [alookup] in Hl. apply String.eqb_neq in Hne. rewrite Hne in Hl.
        apply alookup_In_keys in Hl.
        assert (H2 : str_ltb kd k = true) by (apply Hlbd; exact Hl).
        pose proof (str_ltb_trans _ _ _ H1 H2) as H3.
        apply str_ltb_lt in H3. rewrite scmp_refl in H3. discriminate.
Qed.

(** Arrays: the constants of the pattern array among scalar event elements. *)
Lemma consts_subseq b : forall pl D',
  Forall2 (Lay b) pl D' ->
  (forall d, In d D' -> is_scalar d = true) ->
  subseq (filter (fun x => negb (is_var_json x)) pl) D' /\
  forall c, In c (filter (fun x => negb (is_var_json x)) pl) -> scalar_const c = true.
Proof.
  induction 1 as [|x d pl D' Hxd _ IH]; intros Hsc.
  - split; [constructor|intros c []].
  - destruct IH as [IH1 IH2].
    { intros d' Hd'. apply Hsc. right. exact Hd'. }
    cbn [filter]. destruct (is_var_json x) eqn:Ev; cbn [negb].
    + split; [apply ss_skip; exact IH1|exact IH2].
    + assert (Hx : scalar_const x = true).
      { unfold scalar_const. rewrite Ev. cbn [negb]. rewrite andb_true_r.
        destruct (is_scalar x) eqn:Es; [reflexivity|].
        pose proof (Lay_struct_scalar _ _ _ Es Hxd) as Hd.
        rewrite (Hsc d (or_introl eq_refl)) in Hd. discriminate. }
      pose proof (Lay_scalar _ _ _ Hx Hxd) as ->. split.
      * apply ss_take. exact IH1.
      * intros c [<-|Hc]; [exact Hx|apply IH2; exact Hc].
Qed.

Lemma PL_sub b k pp ep : forall sc sd,
  is_var k = false ->
  subseq sc sd ->
  (forall c, In c sc -> scalar_const c = true) ->
  PL b pp ep ->
  PL b (map (fun x => (k, x)) sc ++ pp) (map (fun x => (k, x)) sd ++ ep).
Proof.
  intros sc sd Hk Hss. induction Hss as [l|x a l _ IH|x a l _ IH]; intros Hc HPL.
  - cbn [map app]. apply PL_skip_app. exact HPL.
  - cbn [map app]. apply PL_skip. apply IH; assumption.
  - cbn [map app]. apply PL_match; [exact Hk| |].
    + apply VL_const. apply Hc. left. reflexivity.
    + apply IH; [|exact HPL]. intros c Hin. apply Hc. right. exact Hin.
Qed.

Lemma NoDup_app_l {A} (l r : list A) : NoDup (l ++ r) -> NoDup l.
Proof.
  induction l as [|x l IH]; cbn [app]; intros H; [constructor|].
  inversion H as [|y l' Hnin Hnd]; subst. constructor.
  - intros Hin. apply Hnin. apply in_or_app. left. exact Hin.
  - apply IH. exact Hnd.
Qed.

Lemma arr_PL b k pl dl pp ep sc sd :
  is_var k = false ->
  pat_ok (JArr pl) = true -> wf_json (JArr dl) = true ->
  Lay b (JArr pl) (JArr dl) ->
  PL b pp ep ->
  sort_values (filter (fun x => negb (is_var_json x)) pl) = Some sc ->
  sort_values dl = Some sd ->
  PL b (map (fun x => (k, x)) sc ++ pp) (map (fun x => (k, x)) sd ++ ep).
Proof.
  intros Hk Hok Hwf HLay HPL Hsc Hsd.
  destruct (pat_ok_arr _ Hok) as (_ & Hoks).
  destruct (Lay_arr _ _ _ HLay) as (dl0 & D' & R & E & HF & HP). injection E as <-.
  set (C := filter (fun x => negb (is_var_json x)) pl) in *.
  destruct (forallb is_scalar dl) eqn:Esc.
  - (* all event elements are scalars *)
    destruct (dedup_scalars_NoDup dl [] Esc) as [Hnd _].
    pose proof (Permutation_NoDup HP Hnd) as Hnd2. apply NoDup_app_l in Hnd2.
    assert (HD'dl : incl D' dl).
    { intros d Hd. apply (dedup_scalars_incl dl []).
      apply (Permutation_in _ (Permutation_sym HP)). apply in_or_app. left. exact Hd. }
    assert (HD'sc : forall d, In d D' -> is_scalar d = true).
    { intros d Hd. rewrite forallb_forall in Esc. apply Esc. apply HD'dl. exact Hd. }
    destruct (consts_subseq b pl D' HF HD'sc) as [Hss HC]. fold C in Hss, HC.
    apply PL_sub; [exact Hk| | |exact HPL].
    + apply (sorted_consts_subseq C dl); auto.
      * eapply subseq_NoDup; eassumption.
      * intros c Hc. apply HD'dl. eapply subseq_incl; eassumption.
    + intros c Hc. apply HC. apply sort_values_tsort in Hsc. destruct Hsc as [-> _].
      apply (Permutation_in _ (perm_tsort C)). exact Hc.
  - (* some structured element: the event array is a singleton *)
    pose proof (sort_values_tsort _ _ Hsd) as [-> Hsortable].
    destruct (is_sortable_cases _ Hsortable) as [Hlen|(t & Ht & Hh)].
    2:{ exfalso. assert (Hall : forallb is_scalar dl = true); [|congruence].
        apply forallb_forall. intros x Hx. specialize (Hh x Hx).
        destruct x; cbn [type_code] in Hh; try reflexivity; congruence. }
    destruct dl as [|D [|D2 dl]]; [discriminate| |cbn in Hlen; lia].
    cbn [forallb] in Esc. rewrite andb_true_r in Esc.
    cbn [dedup_scalars] in HP. rewrite Esc in HP. cbn [dedup_scalars] in HP.
    apply Permutation_length_1_inv in HP.
    cbn [tsort fold_right insert_thing map app].
    destruct D' as [|d D''].
    + inversion HF; subst. subst C. cbn [filter] in Hsc.
      apply sort_values_tsort in Hsc. destruct Hsc as [-> _].
      cbn [tsort fold_right map app]. apply PL_skip. exact HPL.
    + cbn [app] in HP. injection HP as -> HP'.
      apply app_eq_nil in HP'. destruct HP' as [-> ->].
      inversion HF as [|x d' pl' D0 Hxd HF']; subst. inversion HF'; subst.
      subst C. cbn [filter] in Hsc.
      destruct (is_var_json x) eqn:Ev; cbn [negb] in Hsc;
        apply sort_values_tsort in Hsc; destruct Hsc as [-> _];
        cbn [tsort fold_right insert_thing map app].
      * apply PL_skip. exact HPL.
      * destruct (is_scalar x) eqn:Esx.
        -- exfalso. assert (Hx : scalar_const x = true).
           { unfold scalar_const. rewrite Esx, Ev. reflexivity. }
           pose proof (Lay_scalar _ _ _ Hx Hxd) as ->. congruence.
        -- apply PL_match; [exact Hk| |exact HPL].
           apply VL_lay; [apply Hoks; left; reflexivity| |exact Hxd].
           cbn [wf_json forallb] in Hwf. rewrite andb_true_r in Hwf. exact Hwf.
Qed.

(** The path of an expanded array either starts with a step under the array's
    key or is the path of the rest. *)
Lemma ppath_head k : is_var k = false -> forall f ys pp π,
  ppath f (map (fun x => (k, x)) ys ++ pp) = Some π ->
  (exists s π', π = s :: π' /\ step_key s = k) \/
  (exists f', (f' <= f)%nat /\ ppath f' pp = Some π).
Proof.
  intros Hk. induction f as [|f IH]; intros ys pp π H; [discriminate|].
  destruct ys as [|y ys].
  - right. exists (S f). split; [lia|exact H].
  - cbn [map app] in H. rewrite ppath_S in H. cbv zeta in H. rewrite (pkey_nonvar _ Hk) in H.
    destruct (picast y) as [|bb|z|s|l|m]; try discriminate.
    + left. destruct (is_var s);
        destruct (ppath f (map (fun x => (k, x)) ys ++ pp)) as [π1|]; try discriminate;
        injection H as <-; eexists; eexists; split; reflexivity.
    + destruct (sort_values (filter (fun x => negb (is_var_json x)) l)) as [sorted|]; [|discriminate].
      rewrite !app_assoc in H. rewrite <- !map_app in H.
      destruct (IH _ _ _ H) as [Hl|(f' & Hf' & Hp)]; [left; exact Hl|].
      right. exists f'. split; [lia|exact Hp].
    + left. destruct (ppath f (m ++ map (fun x => (k, x)) ys ++ pp)%list) as [π1|]; try discriminate.
      injection H as <-. eexists; eexists; split; reflexivity.
Qed.

Section MainInduction.
  Variable b : bindings.
  Variable F : nat.
  Hypothesis IHF : forall f, (f <= F)%nat -> forall pp π ep,
      ppath f pp = Some π -> PL b pp ep -> finds π ep.

  Lemma arr_case f k pl dl pp ep sc π :
    (f <= F)%nat -> is_var k = false ->
    pat_ok (JArr pl) = true -> wf_json (JArr dl) = true ->
    Lay b (JArr pl) (JArr dl) ->
    PL b pp ep ->
    sort_values (filter (fun x => negb (is_var_json x)) pl) = Some sc ->
    ppath f (map (fun x => (k, x)) (filter is_var_json pl)
             ++ map (fun x => (k, x)) sc ++ pp) = Some π ->
    finds π ((k, JArr dl) :: ep).
  Proof.
    intros Hf Hk Hok Hwf HLay HPL Hsc Hp.
    assert (Htail : forall sd, sort_values dl = Some sd ->
              PL b (map (fun x => (k, x)) sc ++ pp) (map (fun x => (k, x)) sd ++ ep)).
    { intros sd Hsd. eapply arr_PL; eassumption. }
    destruct (pat_ok_arr _ Hok) as (Hlen & _).
    destruct (filter is_var_json pl) as [|v [|v2 V]] eqn:EV.
    - cbn [map app] in Hp. apply finds_arr.
      + destruct (ppath_head k Hk _ _ _ _ Hp) as [Hl|(f' & Hf' & Hp')]; [left; exact Hl|].
        right. eapply (IHF f'); [lia|exact Hp'|exact HPL].
      + intros sd Hsd. apply (IHF f Hf _ _ _ Hp). apply Htail. exact Hsd.
    - assert (Hv : is_var_json v = true).
      { assert (Hin : In v (filter is_var_json pl)) by (rewrite EV; left; reflexivity).
        apply filter_In in Hin. apply Hin. }
      destruct v as [| | |x| |]; cbn [is_var_json] in Hv; try discriminate.
      cbn [map app] in Hp. destruct f as [|f]; [discriminate|].
      rewrite ppath_S in Hp. cbv zeta in Hp.
      rewrite (pkey_nonvar _ Hk), (picast_var _ Hv), Hv in Hp.
      destruct (ppath f (map (fun x => (k, x)) sc ++ pp)) as [π1|] eqn:Ep; [|discriminate].
      injection Hp as <-. apply finds_var_arr.
      intros sd Hsd. eapply (IHF f); [lia|exact Ep|]. apply Htail. exact Hsd.
    - cbn [length] in Hlen. lia.
  Qed.
End MainInduction.

Lemma PL_finds b : forall F f, (f <= F)%nat -> forall pp π ep,
  ppath f pp = Some π -> PL b pp ep -> finds π ep.
Proof.
  induction F as [|F IHF]; intros f Hf pp π ep Hp HPL.
  - assert (f = 0)%nat as -> by lia. discriminate.
  - destruct f as [|f]; [discriminate|]. assert (Hf' : (f <= F)%nat) by lia.
    revert π Hp. induction HPL as [ep|pp e ep _ IHpl|k pv dv pp ep Hk HVL HPL _]; intros π Hp.
    + cbn in Hp. injection Hp as <-. apply finds_nil.
    + apply finds_skip. apply IHpl. exact Hp.
    + rewrite ppath_S in Hp. cbv zeta in Hp. rewrite (pkey_nonvar _ Hk) in Hp.
      assert (Htok : forall tok, picast pv = JStr tok -> is_var tok = false ->
                     picast dv = JStr tok -> finds π ((k, dv) :: ep)).
      { intros tok Hpv Hnv Hdv. rewrite Hpv, Hnv in Hp.
        destruct (ppath f pp) as [π1|] eqn:Ep; [|discriminate]. injection Hp as <-.
        apply finds_tok; [exact Hdv|]. apply (IHF f Hf' _ _ _ Ep HPL). }
      destruct HVL as [pv dv Hok Hwf HLay|c Hc].
      * destruct (scalar_const pv) eqn:Esc.
        -- pose proof (Lay_scalar _ _ _ Esc HLay) as ->.
           destruct (scalar_picast _ Esc) as (tok & Htk & Hnv). apply (Htok tok); assumption.
        -- destruct pv as [|x|x|s|pl|mp]; try discriminate Esc.
           ++ (* variable *)
              unfold scalar_const in Esc. cbn [is_scalar is_var_json andb] in Esc.
              apply negb_false_iff in Esc.
              rewrite (picast_var _ Esc), Esc in Hp.
              destruct (ppath f pp) as [π1|] eqn:Ep; [|discriminate]. injection Hp as <-.
              apply finds_var. apply (IHF f Hf' _ _ _ Ep HPL).
           ++ (* array *)
              cbn [picast] in Hp.
              destruct (sort_values (filter (fun x => negb (is_var_json x)) pl)) as [sc|] eqn:Es;
                [|discriminate].
              destruct (Lay_arr _ _ _ HLay) as (dl & _ & _ & -> & _).
              eapply (arr_case b F IHF f); eassumption.
           ++ (* map *)
              cbn [picast] in Hp.
              destruct (ppath f (mp ++ pp)%list) as [π1|] eqn:Ep; [|discriminate].
              injection Hp as <-.
              destruct (pat_ok_obj _ Hok) as [Hsp Hkeys].
              destruct (Lay_obj b mp dv) as (dk & -> & Hall); [intros k2 pv2 Hin; apply (Hkeys _ _ Hin)|exact HLay|].
              destruct (wf_obj _ Hwf) as [Hsd Hwfs].
              apply finds_map. apply (IHF f Hf' _ _ _ Ep).
              apply PL_app; [|exact HPL].
              apply PL_of_obj; [exact Hsp|exact Hsd|].
              intros k2 pv2 Hin. destruct (Hkeys _ _ Hin) as [Hk2 Hok2].
              split; [exact Hk2|]. destruct (Hall _ _ Hin) as (dv2 & Hl2 & HL2).
              exists dv2. split; [exact Hl2|].
              apply VL_lay; [exact Hok2| |exact HL2].
              apply (Hwfs k2). apply AssocLemmas.alookup_In. exact Hl2.
      * destruct (scalar_picast _ Hc) as (tok & Htk & Hnv).
        apply (Htok tok); assumption.
Qed.

(** * The main theorem *)

Theorem pindex_complete : pindex_complete_statement.
Proof.
  intros n p ev b π id ids Hwfp Hwfe Hnp Hao Hpath Htr Hlay Hsearch.
  assert (Hok : pat_ok p = true) by (unfold pat_ok; rewrite Hwfp, Hnp, Hao; reflexivity).
  assert (HLay : Lay b p ev) by (exists (lay_fuel p); exact Hlay).
  unfold pattern_path in Hpath. unfold pi_search in Hsearch.
  assert (Hfinds : finds π (jO ev)).
  { destruct p as [| | | | |mp]; try (cbn [jO] in Hpath; cbn in Hpath; injection Hpath as <-; apply finds_nil).
    destruct (pat_ok_obj _ Hok) as [Hsp Hkeys].
    destruct (Lay_obj b mp ev) as (dk & -> & Hall); [intros k2 pv2 Hin; apply (Hkeys _ _ Hin)|exact HLay|].
    destruct (wf_obj _ Hwfe) as [Hsd Hwfs]. cbn [jO] in *.
    apply (PL_finds b _ _ (le_n _) _ _ _ Hpath).
    apply PL_of_obj; [exact Hsp|exact Hsd|].
    intros k2 pv2 Hin. destruct (Hkeys _ _ Hin) as [Hk2 Hok2].
    split; [exact Hk2|]. destruct (Hall _ _ Hin) as (dv2 & Hl2 & HL2).
    exists dv2. split; [exact Hl2|].
    apply VL_lay; [exact Hok2| |exact HL2].
    apply (Hwfs k2). apply AssocLemmas.alookup_In. exact Hl2. }
  eapply Hfinds; eassumption.
Qed.

(** * Counterexamples: why the hypotheses of [pindex_complete] are needed *)

(** Known gap: a pattern with a property-variable key is shadowed as soon as
    the trie also holds the event's concrete key (the search only falls back
    to the "?" child when the key itself is absent). *)
Lemma propvar_shadow_refuted :
  let p1 := JObj [("?p", JNum 1)] in
  let p2 := JObj [("a", JNum 2)] in
  let ev := JObj [("a", JNum 1)] in
  let n := fst (pi_add (fst (pi_add pn_empty p1 "r1")) p2 "r2") in
  let b := [("?p", JStr "a")] in
  wf_json p1 = true /\ wf_json ev = true /\ arrays_ok p1 = true /\
  no_propvar_keys p1 = false /\
  snd (pi_add pn_empty p1 "r1") = None /\
  snd (pi_add (fst (pi_add pn_empty p1 "r1")) p2 "r2") = None /\
  pattern_path p1 = Some [StTok "?" "F_1"] /\
  tr_has n [StTok "?" "F_1"] "r1" /\
  lay (lay_fuel p1) b p1 ev = true /\
  pi_search n ev = Ok [] /\
  (* without the second rule the search does find r1 *)
  pi_search (fst (pi_add pn_empty p1 "r1")) ev = Ok ["r1"].
Proof. vm_compute. repeat split; auto. Qed.

(** [null] inside a pattern array (formerly cast twice by [mod], and never
    found) is now found. *)
Lemma null_in_array_now_found :
  let p := JObj [("a", JArr [JNull])] in
  let n := fst (pi_add pn_empty p "r") in
  wf_json p = true /\ no_propvar_keys p = true /\ arrays_ok p = true /\
  snd (pi_add pn_empty p "r") = None /\
  pattern_path p = Some [StTok "a" "null"] /\
  lay (lay_fuel p) [] p p = true /\
  pi_search n p = Ok ["r"].
Proof. vm_compute. repeat split; auto. Qed.

(** Two variables in one pattern array: the second variable must consume an
    event element before the sorted constants, which may all be larger. *)
Lemma two_array_vars_counterexample :
  let p := JObj [("a", JArr [JStr "?x"; JStr "?y"; JNum 1])] in
  let ev := JObj [("a", JArr [JNum 1; JNum 2; JNum 3])] in
  let b := [("?x", JNum 2); ("?y", JNum 3)] in
  let n := fst (pi_add pn_empty p "r1") in
  wf_json p = true /\ wf_json ev = true /\ no_propvar_keys p = true /\ arrays_ok p = false /\
  snd (pi_add pn_empty p "r1") = None /\
  pattern_path p = Some [StVar "a"; StVar "a"; StTok "a" "F_1"] /\
  tr_has n [StVar "a"; StVar "a"; StTok "a" "F_1"] "r1" /\
  lay (lay_fuel p) b p ev = true /\
  pi_search n ev = Ok [].
Proof. vm_compute. repeat split; auto. Qed.

(** Same with anonymous variables (no bindings needed). *)
Lemma two_array_anon_vars_counterexample :
  let p := JObj [("a", JArr [JStr "?"; JStr "?"; JNum 1])] in
  let ev := JObj [("a", JArr [JNum 1; JNum 2; JNum 3])] in
  let n := fst (pi_add pn_empty p "r1") in
  pattern_path p = Some [StVar "a"; StVar "a"; StTok "a" "F_1"] /\
  tr_has n [StVar "a"; StVar "a"; StTok "a" "F_1"] "r1" /\
  lay (lay_fuel p) [] p ev = true /\
  pi_search n ev = Ok [].
Proof. vm_compute. repeat split; auto. Qed.

(** End-to-end corollary: a pattern that was added without error is returned
    by every error-free search for an event it lays over. *)
Corollary pindex_add_complete : forall n p id n' ev b ids,
  wf_json p = true -> wf_json ev = true ->
  no_propvar_keys p = true -> arrays_ok p = true ->
  pi_add n p id = (n', None) ->
  lay (lay_fuel p) b p ev = true ->
  pi_search n' ev = Ok ids -> In id ids.
Proof.
  intros n p id n' ev b ids Hwfp Hwfe Hnp Hao Hadd Hlay Hs.
  destruct (pi_add_has _ _ _ _ Hadd) as (π & Hπ & Ht).
  apply (pindex_complete n' p ev b π id ids); assumption.
Qed.
