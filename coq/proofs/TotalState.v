(** C13 support, part 3: the operations of the state API are total. *)
From Coq Require Import Lia.
From Verif Require Import Json Outcome Match PatIndex State StateSpec MatchLemmas1 MatchLemmas2
  AssocLemmas StateProofs CascadeSpec CascadeLemmas1 CascadeTerm DurableFrame DurableInv DurableReload
  PatIndexSpec PatIndexProofs TotalSpec TotalMatch.

(** * Ground association lists and objects *)

Lemma ground_list_ainsert k v l :
  ground_list l = true -> ground v = true -> ground_list (ainsert k v l) = true.
Proof.
  intros Hl Hv. unfold ground_list in *. induction l as [|[k' v'] r IH]; cbn [ainsert forallb snd].
  - rewrite Hv. reflexivity.
  - cbn [forallb snd] in Hl. apply andb_true_iff in Hl. destruct Hl as [H1 H2].
    destruct (String.compare k k'); cbn [forallb snd].
    + rewrite Hv, H2. reflexivity.
    + rewrite Hv, H1, H2. reflexivity.
    + rewrite H1, (IH H2). reflexivity.
Qed.

Lemma ground_list_aremove k l : ground_list l = true -> ground_list (aremove k l) = true.
Proof.
  unfold ground_list. induction l as [|[k' v'] r IH]; cbn [aremove forallb snd]; [auto|].
  intros Hl. apply andb_true_iff in Hl. destruct Hl as [H1 H2].
  destruct (String.eqb k k'); [auto|]. cbn [forallb snd]. rewrite H1, (IH H2). reflexivity.
Qed.

Lemma ground_list_lookup k v l : ground_list l = true -> alookup k l = Some v -> ground v = true.
Proof.
  intros Hl Hk. apply AssocLemmas.alookup_In in Hk. unfold ground_list in Hl.
  rewrite forallb_forall in Hl. exact (Hl (k, v) Hk).
Qed.

Lemma ground_obj_ainsert k v m :
  ground (JObj m) = true -> is_var k = false -> ground v = true -> ground (JObj (ainsert k v m)) = true.
Proof.
  intros Hm Hk Hv. cbn [ground] in *. induction m as [|[k' v'] r IH]; cbn [ainsert forallb fst snd].
  - rewrite Hk, Hv. reflexivity.
  - cbn [forallb fst snd] in Hm. apply andb_true_iff in Hm. destruct Hm as [H1 H2].
    destruct (String.compare k k'); cbn [forallb fst snd].
    + rewrite Hk, Hv, H2. reflexivity.
    + rewrite Hk, Hv, H1, H2. reflexivity.
    + rewrite H1, (IH H2). reflexivity.
Qed.

Lemma ground_obj_aremove k m : ground (JObj m) = true -> ground (JObj (aremove k m)) = true.
Proof.
  cbn [ground]. induction m as [|[k' v'] r IH]; cbn [aremove forallb fst snd]; [auto|].
  intros Hm. apply andb_true_iff in Hm. destruct Hm as [H1 H2].
  destruct (String.eqb k k'); [auto|]. cbn [forallb fst snd]. rewrite H1, (IH H2). reflexivity.
Qed.

Lemma ground_jO x : ground x = true -> ground (JObj (jO x)) = true.
Proof. destruct x; cbn [jO]; auto. Qed.

(** * PrepareFact, ExtractRule, RuleFromMap: results or errors *)

Lemma set_expires_anyr m now aux : okr (fun _ => True) (set_expires m now aux).
Proof.
  unfold set_expires.
  eapply okr_bind with (P := fun _ => True).
  - destruct (alookup "ttl" m) as [[| | |s| |]|]; try exact I. destruct (parse_secs s); exact I.
  - intros m1 _. destruct (alookup "expires" m1) as [e|]; [|exact I].
    eapply okr_bind with (P := fun _ => True).
    + destruct e; try exact I. destruct aux; exact I.
    + intros [E m2] _. destruct (alookup "rule" m2) as [[| | | | |]|]; exact I.
Qed.

Lemma gen_id_anyr m given fresh : okr (fun _ => True) (gen_id m given fresh).
Proof.
  unfold gen_id. destruct (id_props m) as [|[p v] [|? ?]]; try exact I.
  destruct (alookup "id" m) as [[]|]; exact I.
Qed.

Lemma prepare_fact_anyr given x now fresh aux : okr (fun _ => True) (prepare_fact given x now fresh aux).
Proof.
  unfold prepare_fact. eapply okr_bind; [apply gen_id_anyr|]. intros id _.
  eapply okr_bind; [apply set_expires_anyr|]. intros [[m' ex] E] _.
  destruct (ex && not_after E now); exact I.
Qed.

Lemma extract_rule_anyr fact req : okr (fun _ => True) (extract_rule fact req).
Proof.
  unfold extract_rule. destruct (jget "rule" fact) as [[]|]; try exact I; destruct req; exact I.
Qed.

Lemma rule_from_map_anyr r : okr (fun _ => True) (rule_from_map r).
Proof.
  unfold rule_from_map.
  repeat match goal with |- context [if ?c then _ else _] => destruct c end; exact I.
Qed.


Lemma set_expires_ground m now aux m' ex E :
  ground (JObj m) = true -> set_expires m now aux = Ok (m', ex, E) -> ground (JObj m') = true.
Proof.
  intros Hm. unfold set_expires.
  assert (H1 : okr (fun m1 => ground (JObj m1) = true)
                 (match alookup "ttl" m with
                  | None => Ok m
                  | Some t =>
                      let m0 := aremove "ttl" m in
                      match t with
                      | JNum v => Ok (ainsert "expires" (JNum (now + v)) m0)
                      | JStr s => match parse_secs s with
                                  | Some n => Ok (ainsert "expires" (JNum (now + n)) m0)
                                  | None => Err "bad duration"
                                  end
                      | _ => Err "bad TTL"
                      end
                  end)).
  { destruct (alookup "ttl" m) as [[| | |s| |]|]; cbn; auto;
      try destruct (parse_secs s); cbn; auto;
      apply ground_obj_ainsert; auto using ground_obj_aremove. }
  match type of H1 with okr _ ?o => destruct o as [m1|e|w|]; cbn [obind]; try discriminate end.
  cbn [okr] in H1.
  destruct (alookup "expires" m1) as [e|] eqn:Ee; [|intros H; inversion H; subst; exact H1].
  assert (H2 : okr (fun em => ground (JObj (snd em)) = true)
                 (match e with
                  | JNum v => Ok (v, m1)
                  | JStr _ => match aux with
                              | Some v => Ok (v, ainsert "expires" (JNum v) m1)
                              | None => Err "bad time"
                              end
                  | _ => Err "Expected a string or number for expires"
                  end)).
  { destruct e; cbn; auto. destruct aux; cbn; auto. apply ground_obj_ainsert; auto. }
  match type of H2 with okr _ ?o => destruct o as [[E2 m2]|e2|w|]; cbn [obind]; try discriminate end.
  cbn [okr snd] in H2.
  destruct (alookup "rule" m2) as [[| | | | |r]|] eqn:Er; try discriminate;
    intros H; inversion H; subst; auto.
  apply ground_obj_ainsert; auto.
  apply ground_obj_ainsert; auto.
  eapply ground_obj_lookup; eauto.
Qed.

Lemma prepare_fact_ground given x now fresh aux id fact :
  ground x = true -> prepare_fact given x now fresh aux = Ok (id, fact) -> ground fact = true.
Proof.
  intros Hx. unfold prepare_fact.
  destruct (gen_id (jO x) given fresh) as [id0|e|w|]; cbn [obind]; try discriminate.
  destruct (set_expires (jO x) now aux) as [[[m' ex] E]|e|w|] eqn:Es; cbn [obind]; try discriminate.
  destruct (ex && not_after E now); [discriminate|]. intros H. inversion H; subst.
  eapply set_expires_ground; [|exact Es]. apply ground_jO. exact Hx.
Qed.

(** * The index walks *)

Lemma ti_search_npo idx terms : npo (ti_search idx terms).
Proof.
  unfold ti_search. destruct terms; [exact I|].
  destruct (ti_pick_smallest idx terms 1 (length (ti_ids idx s)) 0); exact I.
Qed.

Lemma search_all_npo rec : (forall n, npo (rec n)) -> forall next acc, npo (search_all rec next acc).
Proof.
  intros Hr. induction next as [|n r IH]; intros acc; cbn [search_all]; [exact I|].
  apply npo_bind; [apply Hr|]. intros more. apply IH.
Qed.

Lemma psearch_npo : forall fuel n pairs, npo (psearch fuel n pairs).
Proof.
  induction fuel as [|f IH]; intros n pairs; cbn [psearch]; [exact I|].
  destruct pairs as [|[k v] rest]; [exact I|].
  destruct (is_var k && (1 <? length ((k, v) :: rest))%nat); [exact I|].
  destruct (pn_strs n) as [|s0 si0] eqn:Es; [apply IH|]. rewrite <- Es.
  destruct (match alookup k (pn_strs n) with Some c => Some c | None => alookup "?" (pn_strs n) end) as [ki|];
    [|apply IH].
  destruct (picast v) as [| | |vv|vv|mp]; try exact I.
  - destruct (is_var vv); [exact I|].
    destruct (alookup vv (pn_strs ki)); apply search_all_npo; intros m; apply IH.
  - destruct (sort_values vv); [|exact I]. apply search_all_npo; intros m; apply IH.
  - destruct (pn_map ki); [|apply search_all_npo; intros m; apply IH].
    apply npo_bind; [apply IH|]. intros more. apply search_all_npo; intros m; apply IH.
Qed.

Lemma pi_search_obad n ev : obad (pi_search n ev) = false.
Proof.
  pose proof (pi_search_fuel_ok n ev) as H1. pose proof (psearch_npo (pi_fuel ev) n (jO ev)) as H2.
  fold (pi_search n ev) in H2. destruct (pi_search n ev); cbn in *; auto; contradiction.
Qed.

(** * The cascade never panics (any state, any fuel) *)

Lemma search_ids_npo pattern now : forall ids s acc, npo (snd (search_ids s ids pattern now acc)).
Proof.
  induction ids as [|id r IH]; intros s acc; cbn [search_ids]; [exact I|].
  destruct (alookup id (st_facts s)) as [fact|]; [|apply IH].
  destruct (expire s id fact now) as [s1 ex]. destruct ex; [apply IH|].
  pose proof (core_match_npo pattern fact []) as Hm.
  destruct (core_match pattern fact []) as [[|b bss]|e|w|]; try apply IH; try exact I. exact Hm.
Qed.

Lemma search_state_npo s pattern now : npo (snd (search_state s pattern now)).
Proof.
  unfold search_state. destruct (st_kind s); [|apply search_ids_npo].
  pose proof (ti_search_npo (st_tindex s) (extract_terms pattern)) as Ht.
  destruct (ti_search (st_tindex s) (extract_terms pattern)); try exact I; [apply search_ids_npo|exact Ht].
Qed.

Section NP.
  Variable rr : state -> string -> Z -> state * outcome bool.
  Hypothesis rr_np : forall s id now, npo (snd (rr s id now)).

  Lemma rem_list_npo skip now : forall ids s, npo (snd (rem_list rr s ids skip now)).
  Proof.
    induction ids as [|j r IH]; intros s; cbn [rem_list]; [exact I|].
    destruct (skipped skip j); [apply IH|].
    pose proof (rr_np s j now) as H. destruct (rr s j now) as [s1 [b|e|w|]]; cbn [snd] in *; auto.
  Qed.

  Lemma delete_dependencies_npo s id now : npo (snd (delete_dependencies rr s id now)).
  Proof.
    unfold delete_dependencies. pose proof (search_state_npo s (dw_pattern id) now) as H.
    destruct (search_state s (dw_pattern id) now) as [s1 [found|e|w|]]; cbn [snd] in *; auto.
    apply rem_list_npo.
  Qed.

  Lemma rem_body_npo s id now : npo (snd (rem_body rr s id now)).
  Proof.
    rewrite rem_body_head. destruct (snd (rem_head s id)); [|exact I].
    pose proof (delete_dependencies_npo (fst (rem_head s id)) id now) as H.
    destruct (delete_dependencies rr (fst (rem_head s id)) id now) as [s6 [u|e|w|]]; cbn in *; auto.
  Qed.
End NP.

Lemma rem_fuel_npo : forall fuel s id now, npo (snd (rem_fuel fuel s id now)).
Proof.
  induction fuel as [|f IH]; intros s id now; cbn [rem_fuel]; [exact I|].
  apply rem_body_npo. exact IH.
Qed.

Lemma st_rem_obad s id now : obad (snd (st_rem s id now)) = false.
Proof.
  pose proof (st_rem_not_oof s id now) as H1. pose proof (rem_fuel_npo (cascade_fuel s) s id now) as H2.
  fold (st_rem s id now) in H2. destruct (snd (st_rem s id now)); cbn in *; auto; contradiction.
Qed.

Lemma st_rem_rec_npo s id now : npo (snd (st_rem_rec s id now)).
Proof. apply rem_fuel_npo. Qed.

(** * Groundness is kept by removals and reads *)

Lemma st_ground_pending s (a : list string) : st_ground s -> st_ground (set_pending s a).
Proof. auto. Qed.

Lemma st_store_ground_pending s (a : list string) : st_store_ground s -> st_store_ground (set_pending s a).
Proof. auto. Qed.

Lemma st_ground_head s id : st_ground s -> st_ground (fst (rem_head s id)).
Proof.
  unfold st_ground, rem_head. intros H. destruct (st_kind s).
  - destruct (alookup id (st_facts s)) as [fact|]; [|exact H].
    pose proof (facts_idx_drop s id fact) as F0. unfold store_call.
    match goal with |- context [if ?c then _ else _] => destruct c end;
      cbn [fst st_facts set_store]; rewrite F0; apply ground_list_aremove; exact H.
  - unfold store_call.
    match goal with |- context [if ?c then _ else _] => destruct c end;
      cbn [fst st_facts set_store set_facts]; [exact H|apply ground_list_aremove; exact H].
Qed.

Lemma st_store_ground_head s id : st_store_ground s -> st_store_ground (fst (rem_head s id)).
Proof.
  unfold st_store_ground, rem_head. intros H. destruct (st_kind s).
  - destruct (alookup id (st_facts s)) as [fact|]; [|exact H].
    destruct (idx_drop_fields s id fact) as (_ & F2 & _). unfold store_call.
    match goal with |- context [if ?c then _ else _] => destruct c end;
      cbn [fst st_store set_store]; rewrite F2; [exact H|apply ground_list_aremove; exact H].
  - unfold store_call.
    match goal with |- context [if ?c then _ else _] => destruct c end;
      cbn [fst st_store set_store set_facts]; [exact H|apply ground_list_aremove; exact H].
Qed.

Definition st_ground_rem := st_rem_inv st_ground st_ground_pending st_ground_head.
Definition st_ground_rem_rec := st_rem_rec_inv st_ground st_ground_pending st_ground_head.
Definition st_ground_search := st_search_inv st_ground st_ground_pending st_ground_head.
Definition st_ground_get := st_get_inv st_ground st_ground_pending st_ground_head.
Definition st_ground_Rem := st_Rem_inv st_ground st_ground_pending st_ground_head.
Definition st_ground_find_rules := st_find_rules_inv st_ground st_ground_pending st_ground_head.
Definition st_store_ground_rem := st_rem_inv st_store_ground st_store_ground_pending st_store_ground_head.
Definition st_store_ground_search := st_search_inv st_store_ground st_store_ground_pending st_store_ground_head.
Definition st_store_ground_get := st_get_inv st_store_ground st_store_ground_pending st_store_ground_head.
Definition st_store_ground_Rem := st_Rem_inv st_store_ground st_store_ground_pending st_store_ground_head.
Definition st_store_ground_find_rules :=
  st_find_rules_inv st_store_ground st_store_ground_pending st_store_ground_head.

Lemma expire_ground s id fact now : st_ground s -> st_ground (fst (expire s id fact now)).
Proof.
  apply (expire_R (fun s s' => st_ground s -> st_ground s') (fun s H => H) st_ground_pending).
Qed.

(** the purge always answers: a public entry point is bad only if its
    operation proper is *)
Lemma with_purge_obad {A} (r : state * outcome A) now :
  obad (snd (with_purge r now)) = obad (snd r).
Proof. rewrite snd_with_purge. reflexivity. Qed.

(** * Search *)

Lemma search_ids_obad pattern now :
  (forall fact, ground fact = true -> obad (core_match pattern fact []) = false) ->
  forall ids s acc, st_ground s -> obad (snd (search_ids s ids pattern now acc)) = false.
Proof.
  intros Hm. induction ids as [|id r IH]; intros s acc Hg; cbn [search_ids]; [reflexivity|].
  destruct (alookup id (st_facts s)) as [fact|] eqn:El; [|apply IH; exact Hg].
  pose proof (expire_ground s id fact now Hg) as Hg1.
  destruct (expire s id fact now) as [s1 ex]. cbn [fst] in Hg1.
  destruct ex; [apply IH; exact Hg1|].
  pose proof (Hm fact (ground_list_lookup id fact _ Hg El)) as Hf.
  destruct (core_match pattern fact []) as [[|b bss]|e|w|]; cbn in Hf; try discriminate;
    try (apply IH; exact Hg1). reflexivity.
Qed.

Lemma core_match_obad p d : ground d = true -> obad (core_match p d []) = false.
Proof. intros Hd. eapply okr_obad. apply core_match_okr; [exact Hd|reflexivity]. Qed.

Lemma st_search_obad s p now : st_ground s -> obad (snd (st_search s p now)) = false.
Proof.
  intros Hg. unfold st_search. rewrite with_purge_obad. unfold search_state.
  destruct (st_kind s).
  - pose proof (ti_search_npo (st_tindex s) (extract_terms p)) as H1.
    pose proof (ti_search_not_oof (st_tindex s) (extract_terms p)) as H2.
    destruct (ti_search (st_tindex s) (extract_terms p)); cbn [snd obad]; try reflexivity;
      try contradiction.
    apply search_ids_obad; [intros fact; apply core_match_obad|exact Hg].
  - apply search_ids_obad; [intros fact; apply core_match_obad|exact Hg].
Qed.

(** * Get, Rem *)

Lemma st_get_obad s id now : obad (snd (st_get s id now)) = false.
Proof.
  unfold st_get. rewrite with_purge_obad. unfold get_body.
  destruct (alookup id (st_facts s)) as [fact|]; [|reflexivity].
  destruct (expire s id fact now) as [s1 [|]]; reflexivity.
Qed.

Lemma st_Rem_obad s id now : obad (snd (st_Rem s id now)) = false.
Proof.
  unfold st_Rem. rewrite with_purge_obad. destruct (st_hooks s); [|apply st_rem_obad].
  pose proof (st_get_obad s id now) as H.
  destruct (st_get s id now) as [s1 [b|e|w|]]; cbn in *; auto. apply st_rem_obad.
Qed.

(** * Add *)

Lemma st_add_obad s given x now fresh aux : obad (snd (st_add s given x now fresh aux)) = false.
Proof.
  pose proof (prepare_fact_anyr given x now fresh aux) as Hp.
  destruct (prepare_fact given x now fresh aux) as [[id fact]|e|w|] eqn:Ep; try contradiction.
  - destruct (st_add_shape s given x now fresh aux id fact Ep) as (c & _ & Hc).
    destruct c; cbn [ac_cond] in Hc.
    + destruct Hc as (_ & e & ->). reflexivity.
    + destruct Hc as (_ & _ & ->). reflexivity.
    + destruct Hc as (_ & _ & _ & ->). reflexivity.
    + destruct Hc as (_ & _ & ->). reflexivity.
    + destruct Hc as (_ & e & _ & ->). reflexivity.
    + destruct Hc as (_ & _ & _ & ->). reflexivity.
  - unfold st_add. rewrite Ep. reflexivity.
Qed.

Lemma st_add_ground s given x now fresh aux :
  ground x = true -> st_ground s -> st_ground (fst (st_add s given x now fresh aux)).
Proof.
  intros Hx Hg.
  destruct (prepare_fact given x now fresh aux) as [[id fact]|e|w|] eqn:Ep.
  - destruct (st_add_shape s given x now fresh aux id fact Ep) as (c & Hf & _).
    destruct Hf as (_ & _ & _ & _ & Hfacts & _). unfold st_ground. rewrite Hfacts.
    destruct (ac_mem c); [|exact Hg].
    apply ground_list_ainsert; [exact Hg|]. eapply prepare_fact_ground; eauto.
  - unfold st_add. rewrite Ep. exact Hg.
  - unfold st_add. rewrite Ep. exact Hg.
  - unfold st_add. rewrite Ep. exact Hg.
Qed.

Lemma st_add_store_ground s given x now fresh aux :
  ground x = true -> st_store_ground s -> st_store_ground (fst (st_add s given x now fresh aux)).
Proof.
  intros Hx Hg.
  destruct (prepare_fact given x now fresh aux) as [[id fact]|e|w|] eqn:Ep.
  - destruct (st_add_shape s given x now fresh aux id fact Ep) as (c & Hf & _).
    destruct Hf as (_ & _ & _ & _ & _ & Hstore & _). unfold st_store_ground. rewrite Hstore.
    destruct (ac_sto c); [|exact Hg].
    apply ground_list_ainsert; [exact Hg|]. eapply prepare_fact_ground; eauto.
  - unfold st_add. rewrite Ep. exact Hg.
  - unfold st_add. rewrite Ep. exact Hg.
  - unfold st_add. rewrite Ep. exact Hg.
Qed.

(** * Clear *)

Lemma st_clear_obad s : obad (snd (st_clear s)) = false.
Proof.
  unfold st_clear. destruct (store_call s) as [s1 failed]. destruct (st_kind s); destruct failed; reflexivity.
Qed.

Lemma st_clear_ground s : st_ground s -> st_ground (fst (st_clear s)).
Proof.
  unfold st_clear, store_call, st_ground. intros H.
  destruct (st_kind s); match goal with |- context [if ?c then _ else _] => destruct c end; cbn; auto.
Qed.

Lemma st_clear_store_ground s : st_store_ground s -> st_store_ground (fst (st_clear s)).
Proof.
  unfold st_clear, store_call, st_store_ground. intros H.
  destruct (st_kind s); match goal with |- context [if ?c then _ else _] => destruct c end; cbn; auto.
Qed.

(** * Load *)

Lemma load_idx_obad now : forall pairs s, obad (snd (load_idx s pairs now)) = false.
Proof.
  induction pairs as [|[id x] r IH]; intros s; cbn [load_idx]; [reflexivity|].
  pose proof (prepare_fact_anyr id x now id None) as Hp.
  destruct (prepare_fact id x now id None) as [[id' fact]|e|w|]; try contradiction.
  - destruct (st_add_mem_idx s id' fact) as [s1 [e|]]; [reflexivity|apply IH].
  - destruct (String.eqb e "expired"); [|reflexivity].
    destruct (store_call s) as [s1 failed]. destruct failed; [reflexivity|apply IH].
Qed.

Lemma st_load_obad k hooks store now : obad (snd (st_load k hooks store now)) = false.
Proof.
  unfold st_load. destruct (store_call _) as [s1 failed]. destruct failed; [reflexivity|].
  destruct k; [apply load_idx_obad|reflexivity].
Qed.

Lemma load_idx_ground now : forall pairs s, ground_list pairs = true ->
  st_ground s -> st_store_ground s ->
  st_ground (fst (load_idx s pairs now)) /\ st_store_ground (fst (load_idx s pairs now)).
Proof.
  induction pairs as [|[id x] r IH]; intros s Hp Hg Hs; cbn [load_idx]; [split; assumption|].
  unfold ground_list in Hp. cbn [forallb snd] in Hp. apply andb_true_iff in Hp. destruct Hp as [Hx Hr].
  destruct (prepare_fact id x now id None) as [[id' fact]|e|w|] eqn:Ep; try (split; assumption).
  - destruct (st_add_mem_idx s id' fact) as [s1 e] eqn:Ea.
    destruct (st_add_mem_idx_fields s id' fact s1 e Ea) as [Hst Hf].
    assert (Hg1 : st_ground s1).
    { unfold st_ground. rewrite Hf. destruct e; [exact Hg|].
      apply ground_list_ainsert; [exact Hg|]. eapply prepare_fact_ground; eauto. }
    assert (Hs1 : st_store_ground s1) by (unfold st_store_ground; rewrite Hst; exact Hs).
    destruct e; [split; assumption|]. apply IH; assumption.
  - destruct (String.eqb e "expired"); [|split; assumption].
    unfold store_call.
    match goal with |- context [if ?c then _ else _] => destruct c end; [split; assumption|].
    apply IH; [exact Hr|exact Hg|].
    unfold st_store_ground. cbn [st_store set_store]. apply ground_list_aremove. exact Hs.
Qed.

Lemma st_load_ground k hooks store now : ground_list store = true ->
  st_ground (fst (st_load k hooks store now)) /\ st_store_ground (fst (st_load k hooks store now)).
Proof.
  intros Hs. unfold st_load, store_call.
  match goal with |- context [if ?c then _ else _] => destruct c end; [split; [reflexivity|exact Hs]|].
  destruct k.
  - apply load_idx_ground; [exact Hs|reflexivity|exact Hs].
  - split; exact Hs.
Qed.

(** * FindRules: only the EVENT must be ground; the state (its rules, with
      their variables) is arbitrary *)

Lemma find_ids_idx_obad now : forall ids s acc, obad (snd (find_ids_idx s ids now acc)) = false.
Proof.
  induction ids as [|id r IH]; intros s acc; cbn [find_ids_idx]; [reflexivity|].
  destruct (alookup id (st_facts s)) as [fact|]; [|reflexivity].
  destruct (expire s id fact now) as [s1 ex]. destruct ex; [apply IH|].
  pose proof (extract_rule_anyr fact true) as He.
  destruct (extract_rule fact true) as [[body|]|e|w|]; try contradiction; try reflexivity. apply IH.
Qed.

Lemma find_ids_lin_obad ev now : ground ev = true ->
  forall ids s acc, obad (snd (find_ids_lin s ids ev now acc)) = false.
Proof.
  intros Hev. induction ids as [|id r IH]; intros s acc; cbn [find_ids_lin]; [reflexivity|].
  destruct (alookup id (st_facts s)) as [fact|]; [|apply IH].
  destruct (jget "rule" fact) as [rule|]; [|apply IH].
  destruct (expire s id fact now) as [s1 ex]. destruct ex; [apply IH|].
  destruct rule as [| | | | |rm]; try apply IH.
  destruct (alookup "when" rm) as [[| | | | |w]|]; try apply IH.
  match goal with |- context [core_match ?p ev []] =>
    pose proof (core_match_obad p ev Hev) as Hm; destruct (core_match p ev []) as [[|b bss]|e|w'|] end;
    cbn in Hm; try discriminate; try apply IH. reflexivity.
Qed.

Lemma do_find_rules_obad s ev now : ground ev = true -> obad (snd (do_find_rules s ev now)) = false.
Proof.
  intros Hev. unfold do_find_rules. rewrite with_purge_obad.
  destruct (st_kind s).
  - pose proof (pi_search_obad (st_pindex s) ev) as Hp.
    destruct (pi_search (st_pindex s) ev); cbn in Hp; try discriminate; try reflexivity.
    apply find_ids_idx_obad.
  - apply find_ids_lin_obad. exact Hev.
Qed.

Lemma st_find_rules_obad s ev now : ground ev = true -> obad (snd (st_find_rules s ev now)) = false.
Proof.
  intros Hev. unfold st_find_rules. pose proof (do_find_rules_obad s ev now Hev) as H.
  destruct (do_find_rules s ev now) as [s1 res].
  cbn [snd] in H. destruct res as [l|e|w|]; cbn in H; try discriminate; reflexivity.
Qed.

(** * A search with a GROUND pattern is total on any state *)

Lemma search_ids_obad_all pattern now :
  (forall fact, obad (core_match pattern fact []) = false) ->
  forall ids s acc, obad (snd (search_ids s ids pattern now acc)) = false.
Proof.
  intros Hm. induction ids as [|id r IH]; intros s acc; cbn [search_ids]; [reflexivity|].
  destruct (alookup id (st_facts s)) as [fact|]; [|apply IH].
  destruct (expire s id fact now) as [s1 ex]. destruct ex; [apply IH|].
  pose proof (Hm fact) as Hf.
  destruct (core_match pattern fact []) as [[|b bss]|e|w|]; cbn in Hf; try discriminate;
    try apply IH. reflexivity.
Qed.

Lemma st_search_ground_pattern_obad s p now : ground p = true -> obad (snd (st_search s p now)) = false.
Proof.
  intros Hg. unfold st_search. rewrite with_purge_obad. unfold search_state.
  destruct (st_kind s).
  - pose proof (ti_search_npo (st_tindex s) (extract_terms p)) as H1.
    pose proof (ti_search_not_oof (st_tindex s) (extract_terms p)) as H2.
    destruct (ti_search (st_tindex s) (extract_terms p)); cbn [snd obad]; try reflexivity;
      try contradiction.
    apply search_ids_obad_all. intros fact. apply core_match_ground_pattern_obad. exact Hg.
  - apply search_ids_obad_all. intros fact. apply core_match_ground_pattern_obad. exact Hg.
Qed.
