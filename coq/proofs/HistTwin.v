(** C19, "with the right keys behaviour is identical to an unprotected
    location": the twin simulation, at the level of the state operations. *)
From Coq Require Import Lia Permutation.
From Verif Require Import Json Outcome Match PatIndex State Location CorrLoc MatchSpec MatchLemmas1 MatchProofs.
From Verif Require Import StateSpec AssocLemmas StateProofs PendingProofs CascadeSpec CascadeLemmas1 CascadeTerm CascadeExact.
From Verif Require Import DurableFrame DurableInv DurablePrepare DurableSpec DurableMirror DurableExpiry DurableReload DurableReach DurableProofs.
From Verif Require Import HistSpec HistClosure HistCascade HistState.

(** * healthy = the invariant of HistState *)

Definition TsI (s : state) : Prop := st_kind s = Indexed -> Ts s.

Lemma healthy_HInv hooks s : healthy hooks s <-> HInv hooks s /\ TsI s.
Proof.
  unfold healthy, HInv, TsI, facts_all, P, Ts. split.
  - intros (H1 & H2 & H3 & H4 & H5 & H6 & H7). split.
    + split; [exact H1|]. split; [exact H2|]. split; [exact H3|]. split; [exact H4|]. split; [exact H5|].
      split; [exact H6|]. intros Hk. split; [exact Hk|]. split; [exact H3|]. apply (H7 Hk).
    + intros Hk. apply (H7 Hk).
  - intros ((H1 & H2 & H3 & H4 & H5 & H6 & H7) & H8).
    split; [exact H1|]. split; [exact H2|]. split; [exact H3|]. split; [exact H4|]. split; [exact H5|].
    split; [exact H6|]. intros Hk. split; [apply (H7 Hk)|apply (H8 Hk)].
Qed.

Lemma TsI_step s o : TsI s -> TsI (sstep s o).
Proof.
  intros H Hk. destruct (sstep_Pres s o) as (P1 & _). apply Ts_step. apply H. congruence.
Qed.

Theorem healthy_reachable_main : healthy_reachable_statement.
Proof.
  intros k hooks ops Hpl. apply healthy_HInv. split.
  - destruct (fold_refines hooks ops (init_state k hooks) [] (HInv_init k hooks) Hpl eq_refl) as [_ H]. exact H.
  - intros _. apply Ts_reachable.
Qed.

(** * The fact map without the key facts *)

Definition nkb (j : string) : bool := negb (key_idb j).

Lemma nokey_afilter F : nokey F = afilter nkb F.
Proof. reflexivity. Qed.

Lemma nokey_lookup F j : alookup j (nokey F) = if key_idb j then None else alookup j F.
Proof. rewrite nokey_afilter, alookup_afilter. unfold nkb. destruct (key_idb j); reflexivity. Qed.

Lemma nokey_sorted F : sorted_keys (map fst F) = true -> sorted_keys (map fst (nokey F)) = true.
Proof. rewrite nokey_afilter. apply sorted_afilter. Qed.

Lemma nokey_ainsert F id f :
  sorted_keys (map fst F) = true -> key_idb id = false ->
  nokey (ainsert id f F) = ainsert id f (nokey F).
Proof.
  intros Hs Hk. apply assoc_ext.
  - apply nokey_sorted. apply sorted_ainsert. exact Hs.
  - apply sorted_ainsert. apply nokey_sorted. exact Hs.
  - intros j. rewrite nokey_lookup, !alookup_ainsert, nokey_lookup.
    destruct (String.eqb_spec j id) as [->|Hne]; [rewrite Hk; reflexivity|reflexivity].
Qed.

(** the closure of a non-key id is the same with and without the key facts *)
Lemma Clo_twin s u j :
  st_facts u = nokey (st_facts s) -> keyfacts_inert s -> key_idb j = false -> j <> "" ->
  forall i, Clo s j i <-> (key_idb i = false /\ Clo u j i).
Proof.
  intros HF (Hin1 & Hin2) Hj Hj0 i. split.
  - intros H.
    assert (Hgen : key_idb i = false /\ i <> "" /\ Clo u j i).
    { induction H as [|x i fact H IH Hl Hn].
      - repeat split; auto. constructor.
      - destruct IH as (Hx & Hx0 & Hcx).
        destruct (key_idb i) eqn:Hi.
        + exfalso. apply Hx0. eapply Hin1; eauto.
        + split; [reflexivity|]. split; [intros ->; congruence|].
          eapply Clo_dep; [exact Hcx| |exact Hn]. rewrite HF, nokey_lookup, Hi. exact Hl. }
    destruct Hgen as (H1 & _ & H3). auto.
  - intros [_ H]. eapply Clo_mono; [|exact H].
    intros i0 f Hl. rewrite HF, nokey_lookup in Hl. destruct (key_idb i0); [discriminate|exact Hl].
Qed.

Lemma nokey_minus s u j :
  sorted_keys (map fst (st_facts s)) = true ->
  st_facts u = nokey (st_facts s) -> keyfacts_inert s -> key_idb j = false -> j <> "" ->
  minus_closure (st_facts u) j = nokey (minus_closure (st_facts s) j).
Proof.
  intros Hs HF Hin Hj Hj0.
  assert (Hsu : sorted_keys (map fst (st_facts u)) = true) by (rewrite HF; apply nokey_sorted; exact Hs).
  apply assoc_ext.
  - apply sorted_minus_closure. exact Hsu.
  - apply nokey_sorted. apply sorted_minus_closure. exact Hs.
  - intros i. rewrite nokey_lookup, !minus_closure_lookup by assumption.
    replace (alookup i (st_facts u)) with (if key_idb i then None else alookup i (st_facts s))
      by (rewrite HF, nokey_lookup; reflexivity).
    destruct (key_idb i) eqn:Hi.
    + destruct (mem_str i _); reflexivity.
    + assert (Hm : mem_str i (clo_iter (S (length (st_facts u))) (st_facts u) [j]) =
                   mem_str i (clo_iter (S (length (st_facts s))) (st_facts s) [j])).
      { apply Bool.eq_true_iff_eq. rewrite !mem_str_In, (clo_iter_spec u Hsu), (clo_iter_spec s Hs).
        rewrite (Clo_twin s u j HF Hin Hj Hj0 i). tauto. }
      rewrite Hm. reflexivity.
Qed.

(** the specification's step commutes with dropping the key facts *)
Lemma spec_step_nokey s u o ok :
  sorted_keys (map fst (st_facts s)) = true ->
  st_facts u = nokey (st_facts s) -> keyfacts_inert s -> op_nokey o = true ->
  spec_step (st_facts u) (o, ok) = nokey (spec_step (st_facts s) (o, ok)).
Proof.
  intros Hs HF Hin Hnk. destruct o as [[g x fr aux|j|j|p|ev|] now]; cbn [spec_step op_nokey] in *;
    destruct ok; cbn [negb]; try exact HF.
  - destruct (prepare_fact g x now fr aux) as [[id f]|e|w|]; try exact HF.
    apply andb_true_iff in Hnk. destruct Hnk as [H1 _]. apply Bool.negb_true_iff in H1.
    rewrite HF. symmetry. apply nokey_ainsert; assumption.
  - apply andb_true_iff in Hnk. destruct Hnk as [H1 H2]. apply Bool.negb_true_iff in H1, H2.
    apply nokey_minus; auto. apply String.eqb_neq. exact H2.
  - reflexivity.
Qed.

Lemma ok_fun_nokey hooks F o : op_nokey o = true -> ok_fun hooks (nokey F) o = ok_fun hooks F o.
Proof.
  destruct o as [[g x fr aux|j|j|p|ev|] now]; cbn [ok_fun op_nokey]; try reflexivity.
  intros H. apply andb_true_iff in H. destruct H as [H1 _]. apply Bool.negb_true_iff in H1.
  rewrite nokey_lookup, H1. reflexivity.
Qed.

(** the key facts stay inert *)
Lemma inert_step s F' :
  keyfacts_inert s ->
  (forall i f, key_idb i = true -> alookup i F' = Some f -> alookup i (st_facts s) = Some f) ->
  alookup "" F' = None ->
  forall s', st_facts s' = F' -> keyfacts_inert s'.
Proof.
  intros (H1 & H2) Hsub H0 s' Hs'. unfold keyfacts_inert. rewrite Hs'. split; [|exact H0].
  intros i fact x Hi Hl Hn. eapply H1; eauto.
Qed.

Lemma spec_step_inert s o ok :
  keyfacts_inert s -> op_nokey o = true ->
  (forall i f, key_idb i = true -> alookup i (spec_step (st_facts s) (o, ok)) = Some f ->
               alookup i (st_facts s) = Some f) /\
  alookup "" (spec_step (st_facts s) (o, ok)) = None.
Proof.
  intros (H1 & H2) Hnk. destruct o as [[g x fr aux|j|j|p|ev|] now]; cbn [spec_step op_nokey] in *;
    destruct ok; cbn [negb]; try (split; [auto|exact H2]).
  - destruct (prepare_fact g x now fr aux) as [[id f]|e|w|]; try (split; [auto|exact H2]).
    apply andb_true_iff in Hnk. destruct Hnk as [Ha Hb]. apply Bool.negb_true_iff in Ha, Hb. split.
    + intros i f0 Hi Hl. rewrite alookup_ainsert in Hl.
      destruct (String.eqb_spec i id) as [->|Hne]; [congruence|exact Hl].
    + rewrite alookup_ainsert. rewrite String.eqb_sym, Hb. exact H2.
  - change (minus_closure (st_facts s) j)
      with (afilter (fun j0 => negb (mem_str j0 (clo_iter (S (length (st_facts s))) (st_facts s) [j]))) (st_facts s)).
    split.
    + intros i f Hi Hl. rewrite alookup_afilter in Hl.
      destruct (mem_str i (clo_iter (S (length (st_facts s))) (st_facts s) [j])); cbn [negb] in Hl;
        [discriminate|exact Hl].
    + rewrite alookup_afilter, H2.
      destruct (mem_str "" (clo_iter (S (length (st_facts s))) (st_facts s) [j])); reflexivity.
  - split; [intros i f _ Hl; discriminate|reflexivity].
Qed.

(** * The answers are functions of the fact map *)

Lemma st_add_ans hooks s g x now fr aux :
  HInv hooks s -> op_plain (SAdd g x fr aux, now) = true -> op_indexable (SAdd g x fr aux, now) = true ->
  snd (st_add s g x now fr aux) =
  match prepare_fact g x now fr aux with
  | Ok (id, f) => match hookerr hooks f with Some e => Err e | None => Ok id end
  | Err e => Err e | Panic w => Panic w | OutOfFuel => OutOfFuel
  end.
Proof.
  intros HI Hpl Hix. pose proof HI as (Hf & Hh & _). cbn [op_plain op_indexable] in *.
  destruct (prepare_fact g x now fr aux) as [[id f]|e|w|] eqn:Hprep.
  - pose proof (add_hook_err_hookerr hooks s f Hh) as Hhook.
    destruct (st_add_shape s g x now fr aux id f Hprep) as (c & _ & Hc).
    pose proof (will_fail_None s Hf) as Hw.
    destruct (hookerr hooks f) as [he|] eqn:Hhe.
    + (* the hook's verdict is the answer, in both kinds *)
      unfold st_add. rewrite Hprep. destruct (st_kind s).
      * destruct (extract_rule f false) as [rule|e|w|] eqn:Er.
        2-4: unfold extract_rule in Er; destruct (jget "rule" f) as [[]|]; discriminate.
        rewrite Hhook. reflexivity.
      * rewrite Hhook. reflexivity.
    + destruct (st_kind s) eqn:Hk.
      * destruct (idx_err f) eqn:Hi; [discriminate|].
        apply (st_add_idx_ok s g x now fr aux id f Hk Hprep Hhook Hi Hf).
      * destruct c; cbn [ac_cond] in Hc.
        -- destruct Hc as (Hc & _). congruence.
        -- destruct Hc as (Hc & _). congruence.
        -- destruct Hc as (Hc & _). congruence.
        -- destruct Hc as (_ & Hc & _). congruence.
        -- destruct Hc as (_ & e & He & _). congruence.
        -- destruct Hc as (_ & _ & _ & ->). reflexivity.
  - rewrite st_add_prepare_err by (intros q; rewrite Hprep; discriminate). rewrite Hprep. reflexivity.
  - rewrite st_add_prepare_err by (intros q; rewrite Hprep; discriminate). rewrite Hprep. reflexivity.
  - rewrite st_add_prepare_err by (intros q; rewrite Hprep; discriminate). rewrite Hprep. reflexivity.
Qed.

Lemma st_Rem_ans hooks s id now :
  HInv hooks s ->
  snd (st_Rem s id now) = if hooks && negb (had_fact s id) then Err "notfound" else Ok (had_fact s id).
Proof.
  intros HI. pose proof HI as (Hf & Hh & Hwf & _ & Hp & _).
  rewrite (st_Rem_unfold s id now (HInv_noexp hooks s now HI) Hp). rewrite Hh.
  destruct (hooks && negb (had_fact s id)); [reflexivity|]. cbn [snd].
  destruct (st_rem_ok_nofail s id now Hf) as (had & Hhad).
  destruct (st_rem s id now) as [s1 o] eqn:Er. cbn [snd] in *. subst o.
  destruct (st_rem_lists s id now s1 had (HInv_goodk hooks s now HI) Hwf Er) as (-> & _). reflexivity.
Qed.

Lemma sstep_ans_fun hooks s u o :
  HInv hooks s -> HInv hooks u -> st_facts u = nokey (st_facts s) ->
  op_plain o = true -> op_indexable o = true -> op_nokey o = true ->
  sstep_ans s o = sstep_ans u o.
Proof.
  intros HS HU HF Hpl Hix Hnk. destruct o as [[g x fr aux|j|j|p|ev|] now]; cbn [sstep_ans]; try reflexivity.
  - rewrite (st_add_ans hooks s g x now fr aux HS Hpl Hix), (st_add_ans hooks u g x now fr aux HU Hpl Hix). reflexivity.
  - cbn [op_plain op_nokey] in *. apply andb_true_iff in Hnk. destruct Hnk as [H1 _]. apply Bool.negb_true_iff in H1.
    rewrite (st_Rem_ans hooks s j now HS), (st_Rem_ans hooks u j now HU).
    unfold had_fact. rewrite HF, nokey_lookup, H1. reflexivity.
  - cbn [op_nokey] in Hnk. apply Bool.negb_true_iff in Hnk.
    rewrite !LocBasics.st_get_snd. rewrite HF, nokey_lookup, Hnk. reflexivity.
  - pose proof (st_clear_shape s) as Hc. pose proof (st_clear_shape u) as Hd. cbv zeta in Hc, Hd.
    destruct HS as (Hfs & _), HU as (Hfu & _).
    rewrite (will_fail_None s Hfs) in Hc. rewrite (will_fail_None u Hfu) in Hd.
    destruct Hc as (_ & _ & _ & _ & -> & _). destruct Hd as (_ & _ & _ & _ & -> & _). reflexivity.
Qed.

(** * The simulation *)

Definition Twin (hooks : bool) (s u : state) : Prop :=
  HInv hooks s /\ HInv hooks u /\ TsI s /\ TsI u /\ st_kind u = st_kind s /\
  st_facts u = nokey (st_facts s) /\ keyfacts_inert s.

Lemma twin_step hooks s u o :
  Twin hooks s u -> op_plain o = true -> op_indexable o = true -> op_nokey o = true ->
  Twin hooks (sstep s o) (sstep u o) /\ sstep_ans s o = sstep_ans u o.
Proof.
  intros (HS & HU & TS & TU & Hk & HF & Hin) Hpl Hix Hnk.
  split; [|apply (sstep_ans_fun hooks); assumption].
  destruct (sstep_refines hooks s o HS Hpl) as [A1 A2].
  destruct (sstep_refines hooks u o HU Hpl) as [B1 B2].
  assert (Hok : sstep_ok u o = sstep_ok s o).
  { rewrite (sstep_ok_pure hooks u o HU Hpl Hix), (sstep_ok_pure hooks s o HS Hpl Hix), HF.
    apply ok_fun_nokey. exact Hnk. }
  assert (Hs : sorted_keys (map fst (st_facts s)) = true) by (destruct HS as (_ & _ & Hwf & _); apply Hwf).
  split; [exact A2|]. split; [exact B2|]. split; [apply TsI_step; exact TS|]. split; [apply TsI_step; exact TU|].
  split.
  { destruct (sstep_Pres s o) as (P1 & _). destruct (sstep_Pres u o) as (Q1 & _). congruence. }
  split.
  - rewrite B1, A1, Hok. apply spec_step_nokey; assumption.
  - destruct (spec_step_inert s o (sstep_ok s o) Hin Hnk) as [I1 I2].
    eapply inert_step; [exact Hin|exact I1|exact I2|exact A1].
Qed.

Lemma twin_fold hooks : forall ops s u,
  Twin hooks s u ->
  forallb op_plain ops = true -> forallb op_indexable ops = true -> forallb op_nokey ops = true ->
  Twin hooks (fold_left sstep ops s) (fold_left sstep ops u) /\ sanswers s ops = sanswers u ops.
Proof.
  induction ops as [|o r IH]; intros s u HT Hpl Hix Hnk; cbn [fold_left sanswers]; [auto|].
  cbn [forallb] in Hpl, Hix, Hnk. apply andb_true_iff in Hpl, Hix, Hnk.
  destruct Hpl as [Ho Hr], Hix as [Hio Hir], Hnk as [Hno Hnr].
  destruct (twin_step hooks s u o HT Ho Hio Hno) as [HT' Ha].
  destruct (IH _ _ HT' Hr Hir Hnr) as [H1 H2]. split; [exact H1|]. rewrite Ha, H2. reflexivity.
Qed.

(** * Searches in a healthy state *)

Lemma search_hits_gen hooks s p now :
  HInv hooks s -> TsI s ->
  extract_terms p <> [] -> no_propvar p = true ->
  (forall id fact, alookup id (st_facts s) = Some fact -> fragment p fact [] = true) ->
  exists ids, st_search s p now = (s, Ok (hits (st_facts s) p ids)) /\ NoDup ids /\
              (forall id, hit1 (st_facts s) p id <> [] -> In id ids).
Proof.
  intros HI HT Hterms Hpv Hfrag. pose proof (HInv_noexp hooks s now HI) as Hne.
  pose proof HI as (_ & _ & Hwf & _ & Hp & _ & HP).
  assert (Hok : forall id fact, alookup id (st_facts s) = Some fact -> exists bss, core_match p fact [] = Ok bss).
  { intros id fact Hl. destruct (match_exact p fact [] (Hfrag id fact Hl)) as (out & Hm & _). eauto. }
  assert (Hsub : forall id fact b bss, alookup id (st_facts s) = Some fact ->
                 core_match p fact [] = Ok (b :: bss) ->
                 forall t, In t (extract_terms p) -> In t (extract_terms fact)).
  { intros id fact b bss Hl Hm t Ht. pose proof (Hfrag id fact Hl) as Hf.
    destruct (match_exact p fact [] Hf) as (out & Hm' & Hiff). rewrite Hm in Hm'. injection Hm' as <-.
    destruct (proj1 (Hiff b) (or_introl eq_refl)) as (_ & _ & _ & Hlay).
    unfold fragment in Hf. repeat (apply andb_prop in Hf; destruct Hf as [Hf ?]).
    eapply (terms_subset p fact b); eauto. }
  destruct (st_kind s) eqn:Hk.
  - destruct (HP eq_refl) as (_ & _ & Hsup).
    destruct (ti_search_spec (st_tindex s) (extract_terms p) Hterms) as (ids & Hts & Hids).
    exists ids. split; [|split].
    + unfold st_search, search_state. rewrite Hk, Hts. rewrite (search_ids_hits s p now Hne Hok).
      rewrite with_purge_nil by exact Hp. reflexivity.
    + apply sorted_NoDup. eapply ti_search_sorted; [|exact Hts]. apply (HT Hk).
    + intros id Hne'. unfold hit1 in Hne'.
      destruct (alookup id (st_facts s)) as [fact|] eqn:Hl; [|congruence].
      destruct (core_match p fact []) as [[|b bss]|e|w|] eqn:Hm; try congruence.
      apply Hids. intros t Ht. apply (Hsup id fact t Hl). eapply Hsub; eauto.
  - exists (map fst (st_facts s)). split; [|split].
    + unfold st_search, search_state. rewrite Hk. rewrite (search_ids_hits s p now Hne Hok).
      rewrite with_purge_nil by exact Hp. reflexivity.
    + apply sorted_NoDup. apply Hwf.
    + intros id Hne'. unfold hit1 in Hne'.
      destruct (alookup id (st_facts s)) as [fact|] eqn:Hl; [|congruence].
      eapply alookup_In_keys; exact Hl.
Qed.

Theorem right_keys_transparent_state_main : right_keys_transparent_state_statement.
Proof.
  intros hooks ops s u Hs Hu Hk HF Hin Hpl Hix Hnk s' u'.
  apply healthy_HInv in Hs, Hu. destruct Hs as [HS TS], Hu as [HU TU].
  destruct (twin_fold hooks ops s u) as [HT Hans]; auto.
  { split; [exact HS|]. split; [exact HU|]. split; [exact TS|]. split; [exact TU|].
    split; [exact Hk|]. split; [exact HF|exact Hin]. }
  fold s' u' in HT. destruct HT as (HS' & HU' & TS' & TU' & Hk' & HF' & Hin').
  split; [exact Hans|]. split; [apply healthy_HInv; split; assumption|].
  split; [apply healthy_HInv; split; assumption|]. split; [exact Hk'|]. split; [exact Hin'|].
  split; [exact HF'|]. split.
  { destruct HS' as (_ & _ & _ & Hm1 & _), HU' as (_ & _ & _ & Hm2 & _). rewrite Hm1, Hm2. exact HF'. }
  split.
  - intros id now Hid. rewrite !LocBasics.st_get_snd. rewrite HF', nokey_lookup, Hid. reflexivity.
  - intros p now Hterms Hpv Hfrag Hkeys.
    assert (Hfragu : forall id fact, alookup id (st_facts u') = Some fact -> fragment p fact [] = true).
    { intros id fact Hl. rewrite HF', nokey_lookup in Hl. destruct (key_idb id); [discriminate|]. eapply Hfrag; eauto. }
    destruct (search_hits_gen hooks s' p now HS' TS' Hterms Hpv Hfrag) as (ids1 & E1 & N1 & C1).
    destruct (search_hits_gen hooks u' p now HU' TU' Hterms Hpv Hfragu) as (ids2 & E2 & N2 & C2).
    assert (Hext : forall id, hit1 (st_facts u') p id = hit1 (st_facts s') p id).
    { intros id. unfold hit1. rewrite HF', nokey_lookup. destruct (key_idb id) eqn:Hid; [|reflexivity].
      destruct (alookup id (st_facts s')) as [fact|] eqn:Hl; [|reflexivity].
      rewrite (Hkeys id fact Hid Hl). reflexivity. }
    exists (hits (st_facts s') p ids1), (hits (st_facts u') p ids2). split; [exact E1|]. split; [exact E2|].
    unfold hits. rewrite (flat_map_ext _ _ Hext ids2). apply flat_map_perm; [exact N1|exact N2|].
    intros id Hne. split; intros _; [apply C2; rewrite Hext; exact Hne|apply C1; exact Hne].
Qed.

(** the key facts of the next state come from the current one *)
Lemma sstep_keysub hooks s o :
  HInv hooks s -> keyfacts_inert s -> op_plain o = true -> op_nokey o = true ->
  forall i f, key_idb i = true -> alookup i (st_facts (sstep s o)) = Some f -> alookup i (st_facts s) = Some f.
Proof.
  intros HS Hin Hpl Hnk. destruct (sstep_refines hooks s o HS Hpl) as [A1 _]. rewrite A1.
  apply (spec_step_inert s o (sstep_ok s o) Hin Hnk).
Qed.
