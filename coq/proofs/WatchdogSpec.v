(** C14 - statements about the watchdog protocol of RunJavascript
    (theories/Watchdog.v).  [repaired] = watchdogCleanup buffered (capacity 1)
    and named results set by the recover branch; [as_is] = the code as it is
    (capacity 0, the recover branch returns (nil, nil)); [buffer_only] = only
    the channel repaired.  All statements quantify over ALL schedules: a
    reachable configuration is one reached by any interleaving of runner,
    watchdog goroutine and timer. *)
From Verif Require Import Json Watchdog.

Inductive reachable (P : params) (f : family) : config -> Prop :=
| reach_init : reachable P f (init f)
| reach_step : forall c c', reachable P f c -> step P c c' -> reachable P f c'.

(** a run: the configurations visited after the first one, and the last one *)
Inductive run (P : params) : config -> list config -> config -> Prop :=
| run_nil : forall c, run P c [] c
| run_cons : forall c c' tr d, step P c c' -> run P c' tr d -> run P c (c' :: tr) d.

Definition terminal (P : params) (c : config) : Prop := next P c = [].
Definition maximal_run (P : params) (c : config) (tr : list config) (d : config) : Prop :=
  run P c tr d /\ terminal P d.

Definition returned (c : config) : Prop := exists a, c_r c = RReturned a.

(** script s can make RunJavascript return r (under some schedule) *)
Definition yields (P : params) (s : script) (r : result) : Prop :=
  exists c a, reachable P (family_of s) c /\ c_r c = RReturned a /\ concretize s a = r.

(** *** The repaired protocol *)

(** The caller always gets control back (every family but the never-polling
    loop): every step consumes the measure, so runs are finite (at most 10
    steps) and from every reachable configuration a maximal run exists; no
    deferred call of the runner ever blocks; every maximal run ends with the
    runner returned and the watchdog goroutine gone (no goroutine leak). *)
Definition caller_always_returns_statement : Prop :=
  (forall P c c', step P c c' -> (measure c' < measure c)%nat) /\
  (forall P c tr d, run P c tr d -> (length tr + measure d <= measure c)%nat) /\
  (forall P c, exists tr d, maximal_run P c tr d) /\
  forall f, f <> FLoopNoPoll ->
    (forall c, reachable (repaired true) f c ->
       match c_r c with
       | RStart | RDeferSend _ | RDeferClose _ | RDeferRecover _ => runner_steps (repaired true) c <> []
       | _ => True
       end) /\
    (forall c, reachable (repaired true) f c -> terminal (repaired true) c -> returned c /\ c_w c = WDone) /\
    (forall tr d, maximal_run (repaired true) (init f) tr d -> returned d /\ c_w d = WDone).

(** A script that exceeds the limit and polls yields a time-out error: never
    a value, never (nil, nil); one that finishes at about the deadline yields
    its value or the time-out error; and a time-out is only ever reported
    after the timer has fired (not before the limit). *)
Definition timeout_is_error_statement : Prop :=
  (forall s r, family_of s = FSlow \/ family_of s = FLoopPolls ->
               yields (repaired true) s r -> r = RErr Timeout) /\
  (forall v r, yields (repaired true) (SEdge v) r -> r = RValue v \/ r = RErr Timeout) /\
  (forall s, family_of s = FSlow \/ family_of s = FLoopPolls ->
             forall tr d, maximal_run (repaired true) (init (family_of s)) tr d ->
                          c_r d = RReturned (AErr Timeout)) /\
  (forall P f c, reachable P f c -> c_r c = RReturned (AErr Timeout) -> c_timer c = true).

(** A script that is over before the deadline is unaffected by the watchdog,
    whatever the schedule, in every variant of the code, watched or not. *)
Definition fast_script_unaffected_statement : Prop :=
  forall P,
    (forall v r, yields P (SValue v) r -> r = RValue v) /\
    (forall r, yields P SThrow r -> r = RErr Thrown) /\
    (forall r, yields P SSyntax r -> r = RErr Syntax) /\
    (forall f c, f = FValue \/ f = FThrow \/ f = FSyntax ->
                 reachable P f c -> c_r c <> RDeferSend PHalt /\ c_r c <> RDeferClose PHalt /\ c_r c <> RDeferRecover PHalt).

(** No reachable configuration panics, in any variant: no send on a closed
    channel, no double close, no call of a nil interrupt function. *)
Definition no_send_on_closed_channel_statement : Prop :=
  forall P f c, reachable P f c ->
    c_r c <> RCrashed SendOnClosed /\ c_w c <> WCrashed SendOnClosed.
Definition no_double_close_statement : Prop :=
  forall P f c, reachable P f c ->
    c_r c <> RCrashed DoubleClose /\ c_w c <> WCrashed DoubleClose.
Definition no_panic_statement : Prop :=
  forall P f c, reachable P f c -> crashed c = false.

(** Timeout selection, and what "disabled" means: no goroutine, no channel
    operation, no timer; the script runs to its own end (or for ever). *)
Definition timeout_selection_statement : Prop :=
  (forall h c d, timeout_selection false h c d = None) /\
  (forall c d, 0 < c -> timeout_selection true true c d = Some c) /\
  (forall c d, c < 0 -> timeout_selection true true c d = None) /\
  (forall d, 0 <= d -> timeout_selection true true 0 d = Some d) /\
  (forall c d, 0 <= d -> timeout_selection true false c d = Some d) /\
  (forall h c d, (h = false \/ c = 0) -> d < 0 -> timeout_selection true h c d = None) /\
  (forall o h c d t, timeout_selection o h c d = Some t -> o = true /\ 0 <= t).

Definition disabled_timeout_runs_unwatched_statement : Prop :=
  forall cap_ named_ o h ctl dflt,
    timeout_selection o h ctl dflt = None ->
    let P := params_of cap_ named_ (timeout_selection o h ctl dflt) in
    watched P = false /\
    (forall f c, reachable P f c ->
       c_w c = WIdle /\ c_intr c = chan0 /\ c_cln c = chan0 /\ c_timer c = false /\ crashed c = false) /\
    (forall v r, yields P (SValue v) r -> r = RValue v) /\
    (forall v r, yields P (SSlow v) r -> r = RValue v) /\
    (forall v r, yields P (SEdge v) r -> r = RValue v) /\
    (forall r, yields P SThrow r -> r = RErr Thrown) /\
    (forall r, yields P SSyntax r -> r = RErr Syntax) /\
    (forall v tr d, maximal_run P (init FSlow) tr d -> concretize (SSlow v) AOk = RValue v /\ c_r d = RReturned AOk) /\
    (forall r, ~ yields P SLoopPolls r) /\ (forall r, ~ yields P SLoopNoPoll r).

(** *** The code as it is (D19) *)

(** a reachable configuration in which the runner is blocked in the deferred
    send and the watchdog goroutine is gone: nobody will ever receive *)
Definition timeout_deadlocks_counterexample_statement : Prop :=
  exists c, reachable (as_is true) FLoopPolls c /\
            c_r c = RDeferSend PHalt /\ c_w c = WDone /\ terminal (as_is true) c.

(** worse: EVERY run of an interrupted script ends there, and the time-out
    branch of the recover is dead code *)
Definition as_is_every_timeout_deadlocks_statement : Prop :=
  (forall f, f = FSlow \/ f = FLoopPolls ->
     forall tr d, maximal_run (as_is true) (init f) tr d -> c_r d = RDeferSend PHalt /\ c_w d = WDone) /\
  (forall f c, reachable (as_is true) f c -> c_r c <> RDeferRecover PHalt).

(** even a script that is over in time can hang its caller, when the timer
    fires between the end of the script and the deferred send *)
Definition fast_script_race_deadlock_counterexample_statement : Prop :=
  exists c, reachable (as_is true) FValue c /\
            c_r c = RDeferSend (PRet AOk) /\ c_w c = WDone /\ terminal (as_is true) c.

(** buffering the channel alone is not enough: the recovered Halt returns
    (nil, nil), a time-out reported as success *)
Definition halt_returns_nil_nil_counterexample_statement : Prop :=
  yields (buffer_only true) SLoopPolls RNilNil /\
  (forall tr d, maximal_run (buffer_only true) (init FLoopPolls) tr d -> c_r d = RReturned ANilNil).

(** *** The never-polling loop (D27), in both variants: the interrupt is
    delivered and sits in the channel; the script never looks *)
Definition never_polls_counterexample_statement : Prop :=
  forall P, P = as_is true \/ P = repaired true ->
    (exists c, reachable P FLoopNoPoll c /\ c_r c = RRun /\ c_w c = WDone /\
               buf (c_intr c) = true /\ terminal P c) /\
    (forall c, reachable P FLoopNoPoll c -> ~ returned c).
