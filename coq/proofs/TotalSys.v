(** C13 support, part 4: the Location API, inherited searches, event
    dispatch, queries and event processing are total. *)
From Coq Require Import Lia.
From Verif Require Import Json Outcome Match PatIndex State Location SysOps Query QueryOps Events.
From Verif Require Import StateSpec MatchLemmas1 MatchLemmas2 AssocLemmas CascadeLemmas1 GateProofs
  LocSpec LocBasics LocRules LocWalk LocProofs QueryProofs TotalSpec TotalMatch TotalQuery TotalState.

(** * Ground locations *)

Definition sg (s : state) : Prop := st_ground s /\ st_store_ground s.

Lemma loc_ground_sg l : loc_ground l <-> sg (l_state l).
Proof. reflexivity. Qed.

Lemma sg_get s id now : sg s -> sg (fst (st_get s id now)).
Proof. intros [H1 H2]. split; [apply st_ground_get|apply st_store_ground_get]; assumption. Qed.
Lemma sg_Rem s id now : sg s -> sg (fst (st_Rem s id now)).
Proof. intros [H1 H2]. split; [apply st_ground_Rem|apply st_store_ground_Rem]; assumption. Qed.
Lemma sg_search s p now : sg s -> sg (fst (st_search s p now)).
Proof. intros [H1 H2]. split; [apply st_ground_search|apply st_store_ground_search]; assumption. Qed.
Lemma sg_find_rules s ev now : sg s -> sg (fst (st_find_rules s ev now)).
Proof. intros [H1 H2]. split; [apply st_ground_find_rules|apply st_store_ground_find_rules]; assumption. Qed.
Lemma sg_add s g x now fr aux : ground x = true -> sg s -> sg (fst (st_add s g x now fr aux)).
Proof. intros Hx [H1 H2]. split; [apply st_add_ground|apply st_add_store_ground]; assumption. Qed.
Lemma sg_clear s : sg s -> sg (fst (st_clear s)).
Proof. intros [H1 H2]. split; [apply st_clear_ground|apply st_clear_store_ground]; assumption. Qed.

(** A predicate on states that every read keeps ([sg], or [True]). *)
Section LocInv.
  Variable Q : state -> Prop.
  Hypothesis Q_get : forall s id now, Q s -> Q (fst (st_get s id now)).

  Definition LQ (l : loc) : Prop := Q (l_state l).

  Lemma get_prop_LQ l id prop now : LQ l -> LQ (fst (get_prop l id prop now)).
  Proof.
    intros H. unfold get_prop.
    pose proof (Q_get (l_state l) (String.append "!" (String.append id (String.append "." prop))) now H) as Hg.
    destruct (st_get (l_state l) _ now) as [s o]. cbn [fst] in Hg. destruct o; exact Hg.
  Qed.

  Lemma get_prop_string_LQ l prop now : LQ l -> LQ (fst (get_prop_string l prop now)).
  Proof.
    intros H. unfold get_prop_string. pose proof (get_prop_LQ l "" prop now H) as Hg.
    destruct (get_prop l "" prop now) as [l' o]. cbn [fst] in Hg. destruct o as [[| | |s| |]|]; exact Hg.
  Qed.

  Lemma enabled_LQ l now : LQ l -> LQ (fst (enabled l now)).
  Proof.
    intros H. unfold enabled. pose proof (get_prop_string_LQ l "enabled" now H) as Hg.
    destruct (get_prop_string l "enabled" now) as [l' s]. exact Hg.
  Qed.

  Lemma check_write_LQ l c now : LQ l -> LQ (fst (check_write l c now)).
  Proof.
    intros H. unfold check_write. destruct (l_readonly l); [exact H|].
    pose proof (get_prop_string_LQ l "writeKey" now H) as Hg.
    destruct (get_prop_string l "writeKey" now) as [l' s]. exact Hg.
  Qed.

  Lemma check_read_LQ l c now : LQ l -> LQ (fst (check_read l c now)).
  Proof.
    intros H. unfold check_read. pose proof (get_prop_string_LQ l "readKey" now H) as Hg.
    destruct (get_prop_string l "readKey" now) as [l' s]. exact Hg.
  Qed.

  Lemma run_gates_LQ gs : forall l c now, LQ l -> LQ (fst (run_gates gs l c now)).
  Proof.
    induction gs as [|g gs IH]; intros l c now H; [exact H|]. cbn [run_gates].
    assert (Hstep : forall (l' : loc) (pass : bool) (e : string),
               LQ l' -> LQ (fst (if pass then run_gates gs l' c now else (l', Some e)))).
    { intros l' pass e H'. destruct pass; [apply IH; exact H'|exact H']. }
    destruct g.
    - pose proof (enabled_LQ l now H) as Hg. destruct (enabled l now) as [l' b]. apply Hstep; exact Hg.
    - pose proof (check_write_LQ l c now H) as Hg. destruct (check_write l c now) as [l' b]. apply Hstep; exact Hg.
    - pose proof (check_read_LQ l c now H) as Hg. destruct (check_read l c now) as [l' b]. apply Hstep; exact Hg.
    - apply Hstep. exact H.
  Qed.

  Lemma gated_LQ {A} gs l c now (k : loc -> loc * outcome A) :
    LQ l -> (forall l0, LQ l0 -> LQ (fst (k l0))) -> LQ (fst (gated gs l c now k)).
  Proof.
    intros H Hk. unfold gated. pose proof (run_gates_LQ gs l c now H) as Hg.
    destruct (run_gates gs l c now) as [l' [e|]]; cbn [fst] in *; [exact Hg|apply Hk; exact Hg].
  Qed.

  Lemma gated_obad {A} gs l c now (k : loc -> loc * outcome A) :
    LQ l -> (forall l0, LQ l0 -> obad (snd (k l0)) = false) -> obad (snd (gated gs l c now k)) = false.
  Proof.
    intros H Hk. unfold gated. pose proof (run_gates_LQ gs l c now H) as Hg.
    destruct (run_gates gs l c now) as [l' [e|]]; cbn [fst snd] in *; [reflexivity|apply Hk; exact Hg].
  Qed.

  Lemma get_parents_LQ l now : LQ l -> LQ (fst (get_parents l now)).
  Proof.
    intros H. unfold get_parents. pose proof (get_prop_LQ l "" "parents" now H) as Hg.
    destruct (get_prop l "" "parents" now) as [l' [[| | | |xs|]|]]; exact Hg.
  Qed.

  Lemma rule_enabled_LQ l id now : LQ l -> LQ (fst (rule_enabled l id now)).
  Proof.
    intros H. unfold rule_enabled. pose proof (enabled_LQ l now H) as H1.
    destruct (enabled l now) as [l1 en]. cbn [fst] in H1. destruct (negb en); [exact H1|].
    pose proof (get_prop_LQ l1 id "disabled" now H1) as H2.
    destruct (get_prop l1 id "disabled" now) as [l2 [[]|]]; exact H2.
  Qed.
End LocInv.

Lemma obad_omap {A B} (g : A -> B) (o : outcome A) : obad (omap g o) = obad o.
Proof. destruct o; reflexivity. Qed.

Lemma get_parents_obad l now : obad (snd (get_parents l now)) = false.
Proof.
  destruct (get_parents_out l now) as [[ps H]|[x H]]; rewrite H; reflexivity.
Qed.

(** * The operations on one location *)

Definition LG := LQ sg.

Lemma LG_iff l : LG l <-> loc_ground l.
Proof. reflexivity. Qed.

Lemma lift_LG {A B} l (r : state * outcome A) (g : A -> B) : sg (fst r) -> LG (fst (lift l r g)).
Proof. intros H. exact H. Qed.

Lemma lift_obad {A B} l (r : state * outcome A) (g : A -> B) : obad (snd (lift l r g)) = obad (snd r).
Proof. unfold lift. cbn [snd]. apply obad_omap. Qed.

(** AddFact *)
Lemma loc_add_fact_obad (Q : state -> Prop) (Qg : forall s id now, Q s -> Q (fst (st_get s id now))) l c e id fact :
  LQ Q l -> obad (snd (loc_add_fact l c e id fact)) = false.
Proof.
  intros H. unfold loc_add_fact. apply (gated_obad Q Qg); [exact H|]. intros l0 _.
  rewrite lift_obad. apply st_add_obad.
Qed.

Lemma loc_add_fact_LG l c e id fact : ground fact = true -> LG l -> LG (fst (loc_add_fact l c e id fact)).
Proof.
  intros Hf H. unfold loc_add_fact. apply (gated_LQ sg sg_get); [exact H|]. intros l0 H0.
  apply lift_LG. apply sg_add; assumption.
Qed.

(** AddRule *)
Lemma loc_add_rule_obad (Q : state -> Prop) (Qg : forall s id now, Q s -> Q (fst (st_get s id now))) l c e id rule :
  LQ Q l -> obad (snd (loc_add_rule l c e id rule)) = false.
Proof.
  intros H. unfold loc_add_rule. apply (gated_obad Q Qg); [exact H|]. intros l0 _.
  pose proof (rule_from_map_anyr rule) as Hr.
  destruct (rule_from_map rule); try contradiction; [|reflexivity].
  pose proof (set_expires_anyr (jO rule) (e_now e) (e_aux e)) as Hs.
  destruct (set_expires (jO rule) (e_now e) (e_aux e)) as [[[rm ex] E]|x|w|]; try contradiction; [|reflexivity].
  rewrite lift_obad. apply st_add_obad.
Qed.

Lemma loc_add_rule_LG l c e id rule : ground rule = true -> LG l -> LG (fst (loc_add_rule l c e id rule)).
Proof.
  intros Hf H. unfold loc_add_rule. apply (gated_LQ sg sg_get); [exact H|]. intros l0 H0.
  destruct (rule_from_map rule); try exact H0.
  destruct (set_expires (jO rule) (e_now e) (e_aux e)) as [[[rm ex] E]|x|w|] eqn:Es; try exact H0.
  apply lift_LG. apply sg_add; [|exact H0].
  assert (Hrm : ground (JObj rm) = true).
  { eapply set_expires_ground; [|exact Es]. apply ground_jO. exact Hf. }
  assert (H1 : ground (JObj (if ex then ainsert "expires" (JNum E) [("rule", JObj rm)] else [("rule", JObj rm)])) = true).
  { destruct ex; [apply ground_obj_ainsert; auto|]; cbn [ground forallb fst snd] in *;
      change (is_var "rule") with false; cbn [negb andb]; rewrite Hrm; reflexivity. }
  destruct (alookup "deleteWith" rm) as [dw|] eqn:Ed; [|exact H1].
  apply ground_obj_ainsert; auto. exact (ground_obj_lookup rm "deleteWith" dw Hrm Ed).
Qed.

(** RemFact *)
Lemma loc_rem_fact_obad (Q : state -> Prop) (Qg : forall s id now, Q s -> Q (fst (st_get s id now))) l c e id :
  LQ Q l -> obad (snd (loc_rem_fact l c e id)) = false.
Proof.
  intros H. unfold loc_rem_fact. apply (gated_obad Q Qg); [exact H|]. intros l0 _.
  rewrite lift_obad. apply st_Rem_obad.
Qed.

Lemma loc_rem_fact_LG l c e id : LG l -> LG (fst (loc_rem_fact l c e id)).
Proof.
  intros H. unfold loc_rem_fact. apply (gated_LQ sg sg_get); [exact H|]. intros l0 H0.
  apply lift_LG. apply sg_Rem. exact H0.
Qed.

(** RemRule *)
Lemma loc_rem_rule_obad (Q : state -> Prop) (Qg : forall s id now, Q s -> Q (fst (st_get s id now))) l c e id :
  LQ Q l -> obad (snd (loc_rem_rule l c e id)) = false.
Proof.
  intros H. unfold loc_rem_rule. apply (gated_obad Q Qg); [exact H|]. intros l0 _.
  pose proof (st_Rem_obad (l_state l0) id (e_now e)) as Hr.
  destruct (st_Rem (l_state l0) id (e_now e)) as [s [b|x|w|]]; cbn in Hr; try discriminate; [|reflexivity].
  destruct (get_prop (upd_state l0 s) id "disabled" (e_now e)) as [l2 [v|]]; [|reflexivity].
  rewrite lift_obad. apply st_Rem_obad.
Qed.

Lemma loc_rem_rule_LG l c e id : LG l -> LG (fst (loc_rem_rule l c e id)).
Proof.
  intros H. unfold loc_rem_rule. apply (gated_LQ sg sg_get); [exact H|]. intros l0 H0.
  pose proof (sg_Rem (l_state l0) id (e_now e) H0) as Hr.
  destruct (st_Rem (l_state l0) id (e_now e)) as [s [b|x|w|]]; cbn [fst] in *; try exact Hr.
  pose proof (get_prop_LQ sg sg_get (upd_state l0 s) id "disabled" (e_now e) Hr) as Hp.
  destruct (get_prop (upd_state l0 s) id "disabled" (e_now e)) as [l2 [v|]]; cbn [fst] in *; [|exact Hp].
  apply lift_LG. apply sg_Rem. exact Hp.
Qed.

(** GetFact, GetRule *)
Lemma loc_get_fact_obad (Q : state -> Prop) (Qg : forall s id now, Q s -> Q (fst (st_get s id now))) l c e id :
  LQ Q l -> obad (snd (loc_get_fact l c e id)) = false.
Proof.
  intros H. unfold loc_get_fact. apply (gated_obad Q Qg); [exact H|]. intros l0 _.
  rewrite lift_obad. apply st_get_obad.
Qed.

Lemma loc_get_fact_LG l c e id : LG l -> LG (fst (loc_get_fact l c e id)).
Proof.
  intros H. unfold loc_get_fact. apply (gated_LQ sg sg_get); [exact H|]. intros l0 H0.
  apply lift_LG. apply sg_get. exact H0.
Qed.

Lemma loc_get_rule_obad (Q : state -> Prop) (Qg : forall s id now, Q s -> Q (fst (st_get s id now))) l c e id :
  LQ Q l -> obad (snd (loc_get_rule l c e id)) = false.
Proof.
  intros H. unfold loc_get_rule. apply (gated_obad Q Qg); [exact H|]. intros l0 _.
  pose proof (st_get_obad (l_state l0) id (e_now e)) as Hr.
  destruct (st_get (l_state l0) id (e_now e)) as [s [fact|x|w|]]; cbn in Hr; try discriminate; [|reflexivity].
  cbn [snd]. pose proof (extract_rule_anyr fact true) as He.
  destruct (extract_rule fact true) as [[r|]|x|w|]; try contradiction; reflexivity.
Qed.

Lemma loc_get_rule_LG l c e id : LG l -> LG (fst (loc_get_rule l c e id)).
Proof.
  intros H. unfold loc_get_rule. apply (gated_LQ sg sg_get); [exact H|]. intros l0 H0.
  pose proof (sg_get (l_state l0) id (e_now e) H0) as Hr.
  destruct (st_get (l_state l0) id (e_now e)) as [s [fact|x|w|]]; exact Hr.
Qed.

(** EnableRule *)
Lemma loc_enable_rule_obad (Q : state -> Prop) (Qg : forall s id now, Q s -> Q (fst (st_get s id now))) l c e id en :
  LQ Q l -> obad (snd (loc_enable_rule l c e id en)) = false.
Proof.
  intros H. unfold loc_enable_rule. apply (gated_obad Q Qg); [exact H|]. intros l0 _.
  destruct en; rewrite lift_obad; [apply st_Rem_obad|apply st_add_obad].
Qed.

Lemma flag_fact_ground id : is_var id = false -> ground (flag_fact id) = true.
Proof.
  intros H. unfold flag_fact. cbn [ground forallb fst snd]. rewrite H.
  change (is_var "!disabled") with false. change (is_var "deleteWith") with false.
  change (is_var "id") with false. reflexivity.
Qed.

Lemma loc_enable_rule_LG l c e id en :
  is_var id = false -> LG l -> LG (fst (loc_enable_rule l c e id en)).
Proof.
  intros Hid H. unfold loc_enable_rule. apply (gated_LQ sg sg_get); [exact H|]. intros l0 H0.
  destruct en; apply lift_LG; [apply sg_Rem; exact H0|].
  apply sg_add; [|exact H0]. rewrite set_prop_fact_disabled. apply flag_fact_ground. exact Hid.
Qed.

(** Clear *)
Lemma loc_clear_obad (Q : state -> Prop) (Qg : forall s id now, Q s -> Q (fst (st_get s id now))) l c e :
  LQ Q l -> obad (snd (loc_clear l c e)) = false.
Proof.
  intros H. unfold loc_clear. apply (gated_obad Q Qg); [exact H|]. intros l0 _.
  rewrite lift_obad. apply st_clear_obad.
Qed.

Lemma loc_clear_LG l c e : LG l -> LG (fst (loc_clear l c e)).
Proof.
  intros H. unfold loc_clear. apply (gated_LQ sg sg_get); [exact H|]. intros l0 H0.
  apply lift_LG. apply sg_clear. exact H0.
Qed.

(** SetParents, GetParents, StateSize *)
Lemma loc_set_parents_obad (Q : state -> Prop) (Qg : forall s id now, Q s -> Q (fst (st_get s id now))) l c e ps :
  LQ Q l -> obad (snd (loc_set_parents l c e ps)) = false.
Proof.
  intros H. unfold loc_set_parents. apply (gated_obad Q Qg); [exact H|]. intros l0 _.
  rewrite lift_obad. apply st_add_obad.
Qed.

Definition names_ground (ps : list string) : bool := forallb (fun p => negb (is_var p)) ps.

Lemma parents_fact_ground ps : names_ground ps = true -> ground (parents_fact ps) = true.
Proof.
  intros H. unfold parents_fact. cbn [ground forallb fst snd].
  change (is_var "!parents") with false. change (is_var "deleteWith") with false.
  change (is_var "id") with false. change (is_var "") with false. cbn [negb andb].
  rewrite !andb_true_r. unfold names_ground in H.
  induction ps as [|p r IH]; [reflexivity|]. cbn [map forallb ground] in *.
  apply andb_true_iff in H. destruct H as [H1 H2]. rewrite H1, (IH H2). reflexivity.
Qed.

Lemma loc_set_parents_LG l c e ps : names_ground ps = true -> LG l -> LG (fst (loc_set_parents l c e ps)).
Proof.
  intros Hps H. unfold loc_set_parents. apply (gated_LQ sg sg_get); [exact H|]. intros l0 H0.
  apply lift_LG. apply sg_add; [|exact H0]. rewrite set_prop_fact_parents. apply parents_fact_ground. exact Hps.
Qed.

Lemma loc_get_parents_obad (Q : state -> Prop) (Qg : forall s id now, Q s -> Q (fst (st_get s id now))) l c e :
  LQ Q l -> obad (snd (loc_get_parents l c e)) = false.
Proof.
  intros H. unfold loc_get_parents. apply (gated_obad Q Qg); [exact H|]. intros l0 _. apply get_parents_obad.
Qed.

Lemma loc_get_parents_LG l c e : LG l -> LG (fst (loc_get_parents l c e)).
Proof.
  intros H. unfold loc_get_parents. apply (gated_LQ sg sg_get); [exact H|]. intros l0 H0.
  apply (get_parents_LQ sg sg_get). exact H0.
Qed.

Lemma loc_size_obad (Q : state -> Prop) (Qg : forall s id now, Q s -> Q (fst (st_get s id now))) l c e :
  LQ Q l -> obad (snd (loc_size l c e)) = false.
Proof.
  intros H. unfold loc_size. apply (gated_obad Q Qg); [exact H|]. intros l0 _. reflexivity.
Qed.

Lemma loc_size_LG l c e : LG l -> LG (fst (loc_size l c e)).
Proof.
  intros H. unfold loc_size. apply (gated_LQ sg sg_get); [exact H|]. intros l0 H0. exact H0.
Qed.

(** Reload *)
Lemma loc_reload_obad l now : obad (snd (loc_reload l now)) = false.
Proof.
  unfold loc_reload.
  pose proof (st_load_obad (st_kind (l_state l)) (st_hooks (l_state l)) (st_store (l_state l)) now) as H.
  destruct (st_load _ _ _ now) as [s' r]. exact H.
Qed.

Lemma loc_reload_LG l now : LG l -> LG (fst (loc_reload l now)).
Proof.
  intros [_ Hs]. unfold loc_reload.
  pose proof (st_load_ground (st_kind (l_state l)) (st_hooks (l_state l)) (st_store (l_state l)) now Hs) as H.
  destruct (st_load _ _ _ now) as [s' r]. exact H.
Qed.

(** searchFacts on one location: the stored facts must be ground *)
Lemma loc_search_local_obad l c e p : LG l -> obad (snd (loc_search_local l c e p)) = false.
Proof.
  intros H. unfold loc_search_local. apply (gated_obad sg sg_get); [exact H|]. intros l0 H0.
  rewrite lift_obad. apply st_search_obad. apply H0.
Qed.

Lemma loc_search_local_LG l c e p : LG l -> LG (fst (loc_search_local l c e p)).
Proof.
  intros H. unfold loc_search_local. apply (gated_LQ sg sg_get); [exact H|]. intros l0 H0.
  apply lift_LG. apply sg_search. exact H0.
Qed.

(** searchRules on one location: only the event must be ground *)
Lemma loc_rules_local_obad (Q : state -> Prop) (Qg : forall s id now, Q s -> Q (fst (st_get s id now))) l c e ev :
  ground ev = true -> LQ Q l -> obad (snd (loc_rules_local l c e ev)) = false.
Proof.
  intros Hev H. unfold loc_rules_local. apply (gated_obad Q Qg); [exact H|]. intros l0 _.
  rewrite lift_obad. apply st_find_rules_obad. exact Hev.
Qed.

Lemma loc_rules_local_LG l c e ev : LG l -> LG (fst (loc_rules_local l c e ev)).
Proof.
  intros H. unfold loc_rules_local. apply (gated_LQ sg sg_get); [exact H|]. intros l0 H0.
  apply lift_LG. apply sg_find_rules. exact H0.
Qed.

(** FindRules.Do *)
Lemma find_children_obad ev now : ground ev = true ->
  forall rules l acc, obad (snd (find_children l rules ev now acc)) = false.
Proof.
  intros Hev. induction rules as [|[id body] r IH]; intros l acc; cbn [find_children]; [reflexivity|].
  destruct (rule_enabled l id now) as [l1 en]. destruct (negb en); [apply IH|].
  destruct (when_pattern body) as [p|]; [|apply IH].
  pose proof (core_match_obad p ev Hev) as Hm.
  destruct (core_match p ev []) as [[|b bss]|x|w|]; cbn in Hm; try discriminate; try apply IH. reflexivity.
Qed.

Lemma find_children_LQ (Q : state -> Prop) (Qg : forall s id now, Q s -> Q (fst (st_get s id now))) ev now :
  forall rules l acc, LQ Q l -> LQ Q (fst (find_children l rules ev now acc)).
Proof.
  induction rules as [|[id body] r IH]; intros l acc H; cbn [find_children]; [exact H|].
  pose proof (rule_enabled_LQ Q Qg l id now H) as H1.
  destruct (rule_enabled l id now) as [l1 en]. cbn [fst] in H1. destruct (negb en); [apply IH; exact H1|].
  destruct (when_pattern body) as [p|]; [|apply IH; exact H1].
  destruct (core_match p ev []) as [[|b bss]|x|w|]; try (apply IH; exact H1); exact H1.
Qed.

(** * The ancestor walk *)

(** A walk whose visits never panic never panics (any fuel). *)
Section WalkNP.
  Variable A : Type.
  Variable v : string -> loc -> loc * outcome A.
  Variable now : Z.
  Hypothesis v_np : forall n l, npo (snd (v n l)).

  Lemma go_par_npo rec name :
    (forall sy p done acc, npo (w_out A (rec sy p done acc))) ->
    forall ps sy done acc, npo (w_out A (go_par A rec name sy ps done acc)).
  Proof.
    intros Hrec. induction ps as [|p r IH]; intros sy done acc.
    - rewrite go_par_nil. exact I.
    - rewrite go_par_cons. destruct (String.eqb p name); [exact I|].
      pose proof (Hrec sy p done acc) as H.
      destruct (rec sy p done acc) as [[sy1 d1] [a1|x|w|]]; unfold w_out in *; cbn [snd] in *; auto.
  Qed.

  Lemma finish_npo name r : npo (w_out A r) -> npo (w_out A (finish A v name r)).
  Proof.
    destruct r as [[sy2 d2] [a2|x|w|]]; unfold w_out; cbn [finish snd]; auto. intros _.
    destruct (sys_get sy2 name) as [l2|]; [|exact I].
    pose proof (v_np name l2) as H. destruct (v name l2) as [l3 [a|x|w|]]; cbn [snd] in *; auto.
  Qed.

  Lemma walk_npo : forall f sy name visiting done acc,
    npo (w_out A (do_ancestors A v f sy name now visiting done acc)).
  Proof.
    induction f as [|f IH]; intros sy name visiting done acc.
    - rewrite do_ancestors_0. exact I.
    - rewrite do_ancestors_S.
      destruct (mem_str name done); [exact I|]. destruct (mem_str name visiting); [exact I|].
      destruct (sys_get sy name) as [l|]; [|exact I].
      destruct (get_parents_out l now) as [[ps Hps]|[x Hx]];
        destruct (get_parents l now) as [l1 o]; cbn [snd] in *; subst o; [|exact I].
      apply finish_npo. apply go_par_npo. intros sy0 p d0 a0. apply IH.
  Qed.
End WalkNP.

(** A walk over a system all of whose locations satisfy a decidable
    predicate that the visits and the parent look-ups keep. *)
Section WalkInv.
  Variable A : Type.
  Variable visit : string -> loc -> loc * outcome A.
  Variable now : Z.
  Variable gb : loc -> Prop.
  Hypothesis gb_dec : forall l, {gb l} + {~ gb l}.
  Hypothesis vis_g : forall n l, gb l -> gb (fst (visit n l)).
  Hypothesis par_g : forall l, gb l -> gb (fst (get_parents l now)).
  Hypothesis vis_t : forall n l, gb l -> obad (snd (visit n l)) = false.

  Definition SInv (sy : system) : Prop := forall n l, sys_get sy n = Some l -> gb l.

  Lemma SInv_set sy n l : SInv sy -> gb l -> SInv (sys_set sy n l).
  Proof.
    intros Hi Hl m l' Hg. destruct (String.eqb_spec m n) as [->|Hne].
    - rewrite sys_get_set_same in Hg. injection Hg as <-. exact Hl.
    - rewrite sys_get_set_other in Hg by exact Hne. eapply Hi; eauto.
  Qed.

  Lemma walk_SInv f sy name visiting done acc :
    SInv sy -> SInv (w_sys A (do_ancestors A visit f sy name now visiting done acc)).
  Proof.
    intros Hi.
    apply (walk_rel A visit now SInv (fun _ _ => True) (fun _ => True)); auto.
    - intros sy0 n l Hi0 _ Hg. split; [|exact I]. apply SInv_set; [exact Hi0|]. apply par_g. eapply Hi0; eauto.
    - intros sy0 n l Hi0 _ Hg. split; [|exact I]. apply SInv_set; [exact Hi0|]. apply vis_g. eapply Hi0; eauto.
  Qed.

  (** the visit, made total outside the predicate *)
  Definition visit' (n : string) (l : loc) : loc * outcome A :=
    if gb_dec l then visit n l else (l, Err "").

  Lemma visit'_eq n l : gb l -> visit' n l = visit n l.
  Proof. intros H. unfold visit'. destruct (gb_dec l); [reflexivity|contradiction]. Qed.

  Lemma visit'_obad n l : obad (snd (visit' n l)) = false.
  Proof. unfold visit'. destruct (gb_dec l); [apply vis_t; assumption|reflexivity]. Qed.

  Lemma walk'_SInv f sy name visiting done acc :
    SInv sy -> SInv (w_sys A (do_ancestors A visit' f sy name now visiting done acc)).
  Proof.
    intros Hi.
    apply (walk_rel A visit' now SInv (fun _ _ => True) (fun _ => True)); auto.
    - intros sy0 n l Hi0 _ Hg. split; [|exact I]. apply SInv_set; [exact Hi0|]. apply par_g. eapply Hi0; eauto.
    - intros sy0 n l Hi0 _ Hg. split; [|exact I]. apply SInv_set; [exact Hi0|].
      rewrite visit'_eq by (eapply Hi0; eauto). apply vis_g. eapply Hi0; eauto.
  Qed.

  Lemma go_par_eq f name visiting :
    (forall sy p done acc, SInv sy ->
       rec_of A visit f now name visiting sy p done acc = rec_of A visit' f now name visiting sy p done acc) ->
    forall ps sy done acc, SInv sy ->
      go_par A (rec_of A visit f now name visiting) name sy ps done acc =
      go_par A (rec_of A visit' f now name visiting) name sy ps done acc.
  Proof.
    intros Hrec. induction ps as [|p r IH]; intros sy done acc Hi.
    - rewrite !go_par_nil. reflexivity.
    - rewrite !go_par_cons. destruct (String.eqb p name); [reflexivity|].
      rewrite (Hrec sy p done acc Hi).
      pose proof (walk'_SInv f sy p (name :: visiting) done acc Hi) as Hi1. unfold rec_of.
      destruct (do_ancestors A visit' f sy p now (name :: visiting) done acc) as [[sy1 d1] [a1|x|w|]];
        try reflexivity.
      apply IH. exact Hi1.
  Qed.

  Lemma go_par'_SInv f name visiting : forall ps sy done acc, SInv sy ->
    SInv (w_sys A (go_par A (rec_of A visit' f now name visiting) name sy ps done acc)).
  Proof.
    induction ps as [|p r IH]; intros sy done acc Hi.
    - rewrite go_par_nil. exact Hi.
    - rewrite go_par_cons. destruct (String.eqb p name); [exact Hi|].
      pose proof (walk'_SInv f sy p (name :: visiting) done acc Hi) as Hi1. unfold rec_of.
      destruct (do_ancestors A visit' f sy p now (name :: visiting) done acc) as [[sy1 d1] [a1|x|w|]];
        try exact Hi1.
      apply IH. exact Hi1.
  Qed.

  Lemma finish_eq name r : SInv (w_sys A r) -> finish A visit name r = finish A visit' name r.
  Proof.
    destruct r as [[sy2 d2] [a2|x|w|]]; cbn [finish]; try reflexivity. unfold w_sys. cbn [fst]. intros Hi.
    destruct (sys_get sy2 name) as [l2|] eqn:Eg; [|reflexivity].
    rewrite visit'_eq by (eapply Hi; eauto). reflexivity.
  Qed.

  Lemma walk_eq : forall f sy name visiting done acc, SInv sy ->
    do_ancestors A visit f sy name now visiting done acc =
    do_ancestors A visit' f sy name now visiting done acc.
  Proof.
    induction f as [|f IH]; intros sy name visiting done acc Hi.
    - rewrite !do_ancestors_0. reflexivity.
    - rewrite !do_ancestors_S.
      destruct (mem_str name done); [reflexivity|]. destruct (mem_str name visiting); [reflexivity|].
      destruct (sys_get sy name) as [l|] eqn:Eg; [|reflexivity].
      pose proof (par_g l (Hi name l Eg)) as Hp.
      destruct (get_parents l now) as [l1 [parents|x|w|]]; try reflexivity. cbn [fst] in Hp.
      assert (Hi1 : SInv (sys_set sy name l1)) by (apply SInv_set; assumption).
      rewrite (go_par_eq f name visiting); [|intros; apply IH; assumption|exact Hi1].
      apply finish_eq. apply go_par'_SInv. exact Hi1.
  Qed.

  Theorem walk_total_inv sy name done acc :
    sys_wf sy -> SInv sy ->
    obad (w_out A (do_ancestors A visit (anc_fuel sy) sy name now [] done acc)) = false /\
    SInv (w_sys A (do_ancestors A visit (anc_fuel sy) sy name now [] done acc)).
  Proof.
    intros Hw Hi. rewrite walk_eq by exact Hi. split; [|apply walk'_SInv; exact Hi].
    assert (H1 : w_out A (do_ancestors A visit' (anc_fuel sy) sy name now [] done acc) <> OutOfFuel).
    { apply walk_total; [exact Hw|]. intros n l E. pose proof (visit'_obad n l) as H.
      rewrite E in H. discriminate. }
    assert (H2 : npo (w_out A (do_ancestors A visit' (anc_fuel sy) sy name now [] done acc))).
    { apply walk_npo. intros n l. pose proof (visit'_obad n l) as H.
      destruct (snd (visit' n l)); cbn in *; auto; discriminate. }
    destruct (w_out A (do_ancestors A visit' (anc_fuel sy) sy name now [] done acc));
      cbn in *; auto; contradiction.
  Qed.
End WalkInv.

(** * Systems *)

Definition SQ (Q : state -> Prop) (sy : system) : Prop := forall n l, sys_get sy n = Some l -> LQ Q l.

Lemma SQ_sg sy : SQ sg sy <-> sys_ground sy.
Proof. reflexivity. Qed.

Lemma SQ_True sy : SQ (fun _ => True) sy.
Proof. intros n l _. exact I. Qed.

Lemma SQ_set Q sy n l : SQ Q sy -> LQ Q l -> SQ Q (sys_set sy n l).
Proof. apply (SInv_set (LQ Q)). Qed.

Lemma LG_dec l : {LG l} + {~ LG l}.
Proof.
  unfold LG, LQ, sg, st_ground, st_store_ground.
  destruct (ground_list (st_facts (l_state l))); [|right; intros [H _]; discriminate].
  destruct (ground_list (st_store (l_state l))); [left; split; reflexivity|right; intros [_ H]; discriminate].
Qed.

Lemma True_dec (l : loc) : {True} + {~ True}.
Proof. left. exact I. Qed.

Lemma with_loc_obad {A} sy name (f : loc -> loc * outcome A) :
  (forall l, sys_get sy name = Some l -> obad (snd (f l)) = false) ->
  obad (snd (with_loc sy name f)) = false.
Proof.
  intros H. unfold with_loc. destruct (sys_get sy name) as [l|] eqn:Eg; [|reflexivity].
  specialize (H l eq_refl). destruct (f l) as [l' r]. exact H.
Qed.

Lemma with_loc_SQ {A} Q sy name (f : loc -> loc * outcome A) :
  SQ Q sy -> (forall l, LQ Q l -> LQ Q (fst (f l))) -> SQ Q (fst (with_loc sy name f)).
Proof.
  intros Hs H. unfold with_loc. destruct (sys_get sy name) as [l|] eqn:Eg; [|exact Hs].
  specialize (H l (Hs name l Eg)). destruct (f l) as [l' r]. cbn [fst] in *. apply SQ_set; assumption.
Qed.

Lemma with_loc_e_eq {A} sy name (f : loc -> loc * outcome A) : with_loc_e sy name f = with_loc sy name f.
Proof. reflexivity. Qed.

Lemma merge_rules_obad groups : forall acc, obad (merge_rules groups acc) = false.
Proof.
  induction groups as [|[n rules] r IH]; intros acc; cbn [merge_rules]; [reflexivity|].
  destruct (existsb _ rules); [reflexivity|apply IH].
Qed.

(** ** SearchFacts (local or inherited) over a ground system *)
Lemma sys_search_total sy name c e p inh :
  sys_wf sy -> sys_ground sy ->
  obad (snd (sys_search sy name c e p inh)) = false /\
  sys_ground (fst (sys_search sy name c e p inh)) /\ sys_wf (fst (sys_search sy name c e p inh)).
Proof.
  intros Hw Hg. destruct inh.
  - rewrite sys_search_inherited. cbv zeta. cbn [fst snd].
    destruct (walk_total_inv _ (fun _ l => loc_search_local l c e p) (e_now e) LG LG_dec
                (fun _ l => loc_search_local_LG l c e p) (fun l => get_parents_LQ sg sg_get l (e_now e))
                (fun _ l => loc_search_local_obad l c e p) sy name [] [] Hw Hg) as [H1 H2].
    split; [exact H1|]. split; [exact H2|]. apply walk_keys. exact Hw.
  - unfold sys_search. destruct (sys_get sy name) as [l|] eqn:Eg; [|cbn [fst snd]; split; [reflexivity|split; [exact Hg|exact Hw]]].
    pose proof (loc_search_local_obad l c e p (Hg name l Eg)) as H1.
    pose proof (loc_search_local_LG l c e p (Hg name l Eg)) as H2.
    destruct (loc_search_local l c e p) as [l' r]. cbn [fst snd] in *.
    rewrite obad_omap. split; [exact H1|]. split; [apply (SQ_set sg); assumption|apply sys_wf_set; exact Hw].
Qed.

(** ** Event dispatch: only the event must be ground, the system is arbitrary *)
Lemma sys_find_rules_obad sy name c e ev :
  sys_wf sy -> ground ev = true -> obad (snd (sys_find_rules sy name c e ev)) = false.
Proof.
  intros Hw Hev. unfold sys_find_rules.
  destruct (walk_total_inv _ (fun _ l => loc_rules_local l c e ev) (e_now e) (fun _ => True) True_dec
              (fun _ _ _ => I) (fun _ _ => I)
              (fun _ l _ => loc_rules_local_obad (fun _ => True) (fun _ _ _ _ => I) l c e ev Hev I)
              sy name [] [] Hw (SQ_True sy)) as [H1 _].
  destruct (do_ancestors _ (fun _ l => loc_rules_local l c e ev) (anc_fuel sy) sy name (e_now e) [] [] [])
    as [[sy1 d] r]. unfold w_out in H1. cbn [snd] in H1.
  destruct r as [groups|x|w|]; cbn in H1; try discriminate; try reflexivity.
  pose proof (merge_rules_obad groups []) as Hm.
  destruct (merge_rules groups []) as [rules|x|w|]; cbn in Hm; try discriminate; try reflexivity.
  destruct (sys_get sy1 name) as [l|]; [|reflexivity].
  pose proof (find_children_obad ev (e_now e) Hev rules l []) as Hc.
  destruct (find_children l rules ev (e_now e) []) as [l' res]. exact Hc.
Qed.

Lemma sys_find_rules_SQ (Q : state -> Prop) (Qg : forall s id now, Q s -> Q (fst (st_get s id now)))
      (Qf : forall s ev now, Q s -> Q (fst (st_find_rules s ev now))) sy name c e ev :
  SQ Q sy -> SQ Q (fst (sys_find_rules sy name c e ev)).
Proof.
  intros Hs.
  assert (Hwalk : SQ Q (w_sys _ (do_ancestors _ (fun _ l => loc_rules_local l c e ev) (anc_fuel sy) sy name
                                   (e_now e) [] [] []))).
  { apply (walk_SInv _ (fun _ l => loc_rules_local l c e ev) (e_now e) (LQ Q)); [| |exact Hs].
    - intros n l H. unfold loc_rules_local. apply (gated_LQ Q Qg); [exact H|]. intros l0 H0.
      unfold lift, LQ. cbn [fst upd_state l_state]. apply Qf. exact H0.
    - intros l H. apply (get_parents_LQ Q Qg). exact H. }
  pose proof (sys_find_rules_sys sy name c e ev) as Hsys. cbv zeta in Hsys.
  destruct Hsys as [->|(l & rules & Hl & ->)]; [exact Hwalk|].
  apply SQ_set; [exact Hwalk|]. apply (find_children_LQ Q Qg). exact (Hwalk name l Hl).
Qed.

Lemma sys_find_rules_wf sy name c e ev : sys_wf sy -> sys_wf (fst (sys_find_rules sy name c e ev)).
Proof.
  intros Hw. pose proof (sys_find_rules_sys sy name c e ev) as Hsys. cbv zeta in Hsys.
  destruct Hsys as [->|(l & rules & Hl & ->)]; [|apply sys_wf_set]; apply walk_keys; exact Hw.
Qed.

(** ** One step of the Location API *)

Ltac step_with_loc :=
  match goal with
  | |- context [with_loc ?sy ?name ?f] =>
      let H := fresh "H" in
      pose proof (with_loc_obad sy name f) as H;
      destruct (with_loc sy name f) as [sy' r]; cbn [fst snd lres_bad] in *; apply H; intros l Hl
  end.

(** every operation but a fact search: any system *)
Lemma sys_step_obad_any sy name c e op :
  sys_wf sy -> lop_event_ground op -> (forall p inh, op <> LSearch p inh) ->
  lres_bad (snd (sys_step sy name c e op)) = false.
Proof.
  intros Hw Hev Hns.
  pose (Q := fun _ : state => True). assert (Qg : forall s id now, Q s -> Q (fst (st_get s id now))) by (intros; exact I).
  destruct op; cbn [sys_step]; try step_with_loc.
  - apply (loc_add_fact_obad Q Qg). exact I.
  - apply (loc_add_rule_obad Q Qg). exact I.
  - apply (loc_rem_fact_obad Q Qg). exact I.
  - apply (loc_rem_rule_obad Q Qg). exact I.
  - apply (loc_get_fact_obad Q Qg). exact I.
  - apply (loc_get_rule_obad Q Qg). exact I.
  - apply (loc_enable_rule_obad Q Qg). exact I.
  - apply (loc_clear_obad Q Qg). exact I.
  - apply (loc_set_parents_obad Q Qg). exact I.
  - apply (loc_get_parents_obad Q Qg). exact I.
  - apply (loc_size_obad Q Qg). exact I.
  - reflexivity.
  - apply loc_reload_obad.
  - exfalso. eapply Hns. reflexivity.
  - destruct (sys_get sy name); [|reflexivity].
    pose proof (sys_find_rules_obad sy name c e event Hw Hev) as H.
    destruct (sys_find_rules sy name c e event) as [sy' r]. exact H.
Qed.

Lemma sys_step_obad sy name c e op :
  sys_wf sy -> sys_ground sy -> lop_event_ground op ->
  lres_bad (snd (sys_step sy name c e op)) = false.
Proof.
  intros Hw Hg Hev. destruct op; try (apply sys_step_obad_any; [exact Hw|exact Hev|intros; discriminate]).
  cbn [sys_step]. destruct (sys_get sy name); [|reflexivity].
  destruct (sys_search_total sy name c e pattern inherited Hw Hg) as [H _].
  destruct (sys_search sy name c e pattern inherited) as [sy' r]. exact H.
Qed.

Ltac step_with_loc_SQ :=
  match goal with
  | |- context [with_loc ?sy ?name ?f] =>
      let H := fresh "H" in
      pose proof (with_loc_SQ sg sy name f) as H;
      destruct (with_loc sy name f) as [sy' r]; cbn [fst snd] in *; apply H; [assumption|]; intros l Hl
  end.

Lemma sys_step_ground sy name c e op :
  sys_wf sy -> sys_ground sy -> lop_ground op -> sys_ground (fst (sys_step sy name c e op)).
Proof.
  intros Hw Hg Hop. destruct op; cbn [sys_step lop_ground] in *; try step_with_loc_SQ.
  - apply loc_add_fact_LG; assumption.
  - apply loc_add_rule_LG; assumption.
  - apply loc_rem_fact_LG; assumption.
  - apply loc_rem_rule_LG; assumption.
  - apply loc_get_fact_LG; assumption.
  - apply loc_get_rule_LG; assumption.
  - apply loc_enable_rule_LG; assumption.
  - apply loc_clear_LG; assumption.
  - apply loc_set_parents_LG; assumption.
  - apply loc_get_parents_LG; assumption.
  - apply loc_size_LG; assumption.
  - exact Hl.
  - apply loc_reload_LG; assumption.
  - destruct (sys_get sy name); [|exact Hg].
    destruct (sys_search_total sy name c e pattern inherited Hw Hg) as (_ & H & _).
    destruct (sys_search sy name c e pattern inherited) as [sy' r]. exact H.
  - destruct (sys_get sy name); [|exact Hg].
    pose proof (sys_find_rules_SQ sg sg_get sg_find_rules sy name c e event Hg) as H.
    destruct (sys_find_rules sy name c e event) as [sy' r]. exact H.
Qed.

(** * Queries *)

Definition SI (sy : system) : Prop := sys_wf sy /\ sys_ground sy.

Lemma abn_obad {A} (o : outcome A) : ~ abn True True o <-> obad o = false.
Proof. destruct o; cbn; split; auto; try tauto; discriminate. Qed.

Lemma sys_search_locs_fine name c e sy locs p :
  SI sy -> SI (fst (sys_search_locs name c e sy locs p)) /\
           ~ abn True True (snd (sys_search_locs name c e sy locs p)).
Proof.
  unfold sys_search_locs.
  generalize (match locs with [] => [name] | _ :: _ => locs end). clear locs.
  generalize (@nil bindings). intros acc locs. revert sy acc.
  induction locs as [|l r IH]; intros sy acc Hi.
  - cbn. tauto.
  - destruct (String.eqb l name); [|cbn; tauto].
    destruct Hi as [Hw Hg].
    destruct (sys_search_total sy name c e p true Hw Hg) as (H1 & H2 & H3).
    destruct (sys_search sy name c e p true) as [sy' [found|x|w|]]; cbn [fst snd] in *; try discriminate.
    + apply IH. split; assumption.
    + split; [split; assumption|cbn; tauto].
Qed.

Lemma exec_SI name c e sem q sy bss :
  SI sy -> SI (fst (exec system (sys_search_locs name c e) sem q sy bss)) /\
           obad (snd (exec system (sys_search_locs name c e) sem q sy bss)) = false.
Proof.
  intros Hi.
  destruct (exec_fine system (sys_search_locs name c e) sem SI True True
              (fun s locs p Hs => sys_search_locs_fine name c e s locs p Hs) q sy bss Hi) as [H1 H2].
  split; [exact H1|]. apply abn_obad. exact H2.
Qed.

Lemma parse_query_obad sem q : obad (parse_query sem (parse_fuel q) q) = false.
Proof. apply obad_answers. apply parse_query_total. Qed.

Lemma SI_set sy n l : SI sy -> LG l -> SI (sys_set sy n l).
Proof. intros [Hw Hg] Hl. split; [apply sys_wf_set; exact Hw|apply (SQ_set sg); assumption]. Qed.

Theorem sys_query_total_main sy name c e sem q :
  sys_wf sy -> sys_ground sy ->
  obad (snd (sys_query sy name c e sem q)) = false /\ SI (fst (sys_query sy name c e sem q)).
Proof.
  intros Hw Hg. unfold sys_query. destruct (sys_get sy name) as [l|] eqn:Eg; [|split; [reflexivity|split; assumption]].
  pose proof (enabled_LQ sg sg_get l (e_now e) (Hg name l Eg)) as Hl.
  destruct (enabled l (e_now e)) as [l1 en]. cbn [fst] in Hl.
  assert (Hi : SI (sys_set sy name l1)) by (apply SI_set; [split; assumption|exact Hl]).
  destruct (negb en); [split; [reflexivity|exact Hi]|].
  pose proof (parse_query_obad sem q) as Hp.
  destruct (parse_query sem (parse_fuel q) q) as [pq|x|w|]; cbn in Hp; try discriminate.
  - destruct (exec_SI name c e sem pq (sys_set sy name l1) [[]] Hi) as [H1 H2]. split; assumption.
  - split; [reflexivity|exact Hi].
Qed.

(** * Event processing *)

Lemma find_children_full_obad ev now emb : ground ev = true ->
  forall rules l acc, obad (snd (find_children_full l rules ev now emb acc)) = false.
Proof.
  intros Hev. induction rules as [|[id body] r IH]; intros l acc; cbn [find_children_full]; [reflexivity|].
  destruct (if emb then (l, true) else rule_enabled l id now) as [l1 en]. destruct (negb en); [apply IH|].
  destruct (when_pattern body) as [p|]; [|apply IH].
  pose proof (core_match_obad p ev Hev) as Hm.
  destruct (core_match p ev []) as [[|b bss]|x|w|]; cbn in Hm; try discriminate; try apply IH. reflexivity.
Qed.

Lemma find_children_full_LG ev now emb : forall rules l acc,
  LG l -> LG (fst (find_children_full l rules ev now emb acc)).
Proof.
  induction rules as [|[id body] r IH]; intros l acc H; cbn [find_children_full]; [exact H|].
  assert (H1 : LG (fst (if emb then (l, true) else rule_enabled l id now))).
  { destruct emb; [exact H|apply (rule_enabled_LQ sg sg_get); exact H]. }
  destruct (if emb then (l, true) else rule_enabled l id now) as [l1 en]. cbn [fst] in H1.
  destruct (negb en); [apply IH; exact H1|].
  destruct (when_pattern body) as [p|]; [|apply IH; exact H1].
  destruct (core_match p ev []) as [[|b bss]|x|w|]; try (apply IH; exact H1); exact H1.
Qed.

Lemma with_loc_SI {A} sy name (f : loc -> loc * outcome A) :
  SI sy -> (forall l, LG l -> LG (fst (f l))) -> SI (fst (with_loc sy name f)).
Proof.
  intros [Hw Hg] H. split.
  - destruct (with_loc sy name f) as [sy' r] eqn:E. cbn [fst]. eapply with_loc_wf; eauto.
  - apply (with_loc_SQ sg); assumption.
Qed.

Lemma find_rules_full_total sy name c e sem ev :
  SI sy -> ground ev = true ->
  obad (snd (find_rules_full sy name c e sem ev)) = false /\ SI (fst (find_rules_full sy name c e sem ev)).
Proof.
  intros Hi Hev. unfold find_rules_full.
  assert (Hfc : forall sy0 rules emb, SI sy0 ->
            obad (snd (with_loc_e sy0 name (fun l => find_children_full l rules ev (e_now e) emb []))) = false /\
            SI (fst (with_loc_e sy0 name (fun l => find_children_full l rules ev (e_now e) emb [])))).
  { intros sy0 rules emb Hi0. rewrite with_loc_e_eq. split.
    - apply with_loc_obad. intros l _. apply find_children_full_obad. exact Hev.
    - apply with_loc_SI; [exact Hi0|]. intros l Hl. apply find_children_full_LG. exact Hl. }
  destruct (jget "trigger!" ev) as [[| | |id| |]|]; try (split; [reflexivity|exact Hi]).
  - (* trigger! *)
    rewrite with_loc_e_eq.
    pose proof (with_loc_obad sy name (fun l => loc_get_rule l c e id)
                  (fun l Hl => loc_get_rule_obad sg sg_get l c e id (proj2 Hi name l Hl))) as H1.
    pose proof (with_loc_SI sy name (fun l => loc_get_rule l c e id) Hi
                  (fun l Hl => loc_get_rule_LG l c e id Hl)) as H2.
    destruct (with_loc sy name (fun l => loc_get_rule l c e id)) as [sy1 [body|x|w|]];
      cbn [fst snd] in *; try discriminate; try (split; [reflexivity|exact H2]).
    destruct (negb (condition_ok sem body)); [split; [reflexivity|exact H2]|].
    destruct (rule_from_map body); try (split; [reflexivity|exact H2]).
    apply Hfc. exact H2.
  - (* evaluate! / ordinary *)
    destruct (jget "evaluate!" ev) as [[| | | | |m]|]; try (split; [reflexivity|exact Hi]).
    + destruct (negb (condition_ok sem (JObj m))); [split; [reflexivity|exact Hi]|].
      destruct (rule_from_map (JObj m)); try (split; [reflexivity|exact Hi]).
      apply Hfc. exact Hi.
    + destruct Hi as [Hw Hg].
      destruct (walk_total_inv _ (fun _ l => loc_rules_local l c e ev) (e_now e) LG LG_dec
                  (fun _ l => loc_rules_local_LG l c e ev) (fun l => get_parents_LQ sg sg_get l (e_now e))
                  (fun _ l Hl => loc_rules_local_obad sg sg_get l c e ev Hev Hl) sy name [] [] Hw Hg) as [H1 H2].
      pose proof (proj1 (walk_keys _ (fun _ l => loc_rules_local l c e ev) (anc_fuel sy) sy name (e_now e) [] [] [] Hw)) as H3.
      destruct (do_ancestors _ (fun _ l => loc_rules_local l c e ev) (anc_fuel sy) sy name (e_now e) [] [] [])
        as [[sy1 d] r]. unfold w_out, w_sys in *. cbn [fst snd] in *.
      assert (Hi1 : SI sy1) by (split; assumption).
      destruct r as [groups|x|w|]; cbn in H1; try discriminate; try (split; [reflexivity|exact Hi1]).
      pose proof (merge_rules_obad groups []) as Hm.
      destruct (merge_rules groups []) as [rules|x|w|]; cbn in Hm; try discriminate;
        try (split; [reflexivity|exact Hi1]).
      cbv zeta. apply Hfc. exact Hi1.
Qed.

Section WalkTot.
  Variable sem : string -> option code.
  Variable name : string.
  Variable c : ctx.
  Variable e : env.
  Variable event : json.

  Definition xs_ok (xs : list exec_rec) : Prop := Forall (fun x => obad (x_res x) = false) xs.
  Definition st_ok (st : option (outcome unit)) : Prop := forall d, st = Some d -> obad d = false.

  Lemma exec_action_ok rid bs a : obad (x_res (exec_action sem rid bs a)) = false.
  Proof.
    unfold exec_action. cbn [x_res].
    destruct (negb _); [reflexivity|]. destruct (sem (action_code a)) as [cd|]; [|reflexivity].
    apply abn_obad. apply run_code_normal.
  Qed.

  Lemma run_actions_ok serial rid bs : forall acts, xs_ok (fst (run_actions sem serial rid bs acts)).
  Proof.
    induction acts as [|a r IH]; cbn [run_actions]; [constructor|].
    pose proof (exec_action_ok rid bs a) as Ha.
    destruct (run_actions sem serial rid bs r) as [xs st]. cbn [fst] in IH.
    set (x := exec_action sem rid bs a) in *.
    assert (Hcons : xs_ok (x :: xs)) by (constructor; assumption).
    assert (Hone : xs_ok [x]) by (constructor; [assumption|constructor]).
    destruct (x_res x); [|destruct serial..]; cbn [fst]; assumption.
  Qed.

  Lemma run_results_ok serial rid acts : forall results, xs_ok (fst (run_results sem serial rid results acts)).
  Proof.
    induction results as [|bs r IH]; cbn [run_results]; [constructor|].
    pose proof (run_actions_ok serial rid bs acts) as Ha.
    destruct (run_actions sem serial rid bs acts) as [xs st]. cbn [fst] in Ha.
    destruct st; [exact Ha|].
    destruct (run_results sem serial rid r acts) as [ys st']. cbn [fst] in *.
    apply Forall_app. split; assumption.
  Qed.

  Definition wres_ok (r : system * list exec_rec * option (outcome unit)) : Prop :=
    SI (fst (fst r)) /\ xs_ok (snd (fst r)) /\ st_ok (snd r).

  Lemma walk_conditions_ok rid body : forall bss sy, SI sy ->
    wres_ok (walk_conditions sem name c e event sy rid body bss).
  Proof.
    induction bss as [|bs r IH]; intros sy Hi; cbn [walk_conditions].
    - split; [exact Hi|split; [constructor|intros d Hd; discriminate]].
    - set (bs' := inject bs event name rid).
      assert (Hq : forall sy1 qres,
                (match jget "condition" body with
                 | None | Some JNull => (sy, Ok [bs'])
                 | Some q =>
                     match parse_query sem (parse_fuel q) q with
                     | Ok pq => exec system (sys_search_locs name c e) sem pq sy [bs']
                     | Err x => (sy, Err x)
                     | Panic w => (sy, Panic w)
                     | OutOfFuel => (sy, OutOfFuel)
                     end
                 end) = (sy1, qres) -> SI sy1 /\ obad qres = false).
      { intros sy1 qres.
        assert (Hpq : forall q, (match parse_query sem (parse_fuel q) q with
                                 | Ok pq => exec system (sys_search_locs name c e) sem pq sy [bs']
                                 | Err x => (sy, Err x)
                                 | Panic w => (sy, Panic w)
                                 | OutOfFuel => (sy, OutOfFuel)
                                 end) = (sy1, qres) -> SI sy1 /\ obad qres = false).
        { intros q. pose proof (parse_query_obad sem q) as Hp.
          destruct (parse_query sem (parse_fuel q) q) as [pq|x|w|]; cbn in Hp; try discriminate.
          - intros E. destruct (exec_SI name c e sem pq sy [bs'] Hi) as [H1 H2]. rewrite E in H1, H2. split; assumption.
          - intros E. inversion E; subst. split; [exact Hi|reflexivity]. }
        destruct (jget "condition" body) as [[| | | | |]|]; try apply Hpq;
          intros E; inversion E; subst; split; auto. }
      match goal with |- wres_ok (let '(a, b) := ?X in _) => destruct X as [sy1 qres] eqn:EX end.
      destruct (Hq sy1 qres eq_refl) as [Hi1 Hb].
      destruct qres as [results|x|w|]; cbn in Hb; try discriminate.
      + pose proof (run_results_ok (rule_serial body) rid (rule_actions body) results) as Hr.
        destruct (run_results sem (rule_serial body) rid results (rule_actions body)) as [xs stopped].
        cbn [fst] in Hr. destruct stopped.
        * split; [exact Hi1|split; [exact Hr|]]. intros d Hd. inversion Hd; subst. reflexivity.
        * specialize (IH sy1 Hi1).
          destruct (walk_conditions sem name c e event sy1 rid body r) as [[sy2 ys] st].
          destruct IH as (H1 & H2 & H3). cbn [fst snd] in *.
          split; [exact H1|split; [|exact H3]]. apply Forall_app. split; assumption.
      + split; [exact Hi1|split; [constructor|]]. intros d Hd. inversion Hd; subst. reflexivity.
  Qed.

  Lemma rule_done_ok sy rid body : SI sy ->
    SI (fst (rule_done name c e sy rid body)) /\ st_ok (snd (rule_done name c e sy rid body)).
  Proof.
    intros Hi. unfold rule_done. destruct (one_shot (rule_schedule body)); [|split; [exact Hi|intros d Hd; discriminate]].
    rewrite with_loc_e_eq.
    pose proof (with_loc_obad sy name (fun l => loc_rem_rule l c e rid)
                  (fun l Hl => loc_rem_rule_obad sg sg_get l c e rid (proj2 Hi name l Hl))) as H1.
    pose proof (with_loc_SI sy name (fun l => loc_rem_rule l c e rid) Hi
                  (fun l Hl => loc_rem_rule_LG l c e rid Hl)) as H2.
    destruct (with_loc sy name (fun l => loc_rem_rule l c e rid)) as [sy' [b|x|w|]];
      cbn [fst snd] in *; try discriminate; split; try exact H2; intros d Hd; inversion Hd; subst; reflexivity.
  Qed.

  Lemma walk_rules_ok : forall children sy, SI sy -> wres_ok (walk_rules sem name c e event sy children).
  Proof.
    induction children as [|[[rid body] bss] r IH]; intros sy Hi; cbn [walk_rules].
    - split; [exact Hi|split; [constructor|intros d Hd; discriminate]].
    - pose proof (walk_conditions_ok rid body bss sy Hi) as Hc.
      destruct (walk_conditions sem name c e event sy rid body bss) as [[sy1 xs] [d|]];
        destruct Hc as (H1 & H2 & H3); cbn [fst snd] in *.
      + split; [exact H1|split; [exact H2|exact H3]].
      + destruct (rule_done_ok sy1 rid body H1) as [G1 G2].
        destruct (rule_done name c e sy1 rid body) as [sy2 [d|]]; cbn [fst snd] in *.
        * split; [exact G1|split; [exact H2|exact G2]].
        * specialize (IH sy2 G1). destruct (walk_rules sem name c e event sy2 r) as [[sy3 ys] st].
          destruct IH as (K1 & K2 & K3). cbn [fst snd] in *.
          split; [exact K1|split; [|exact K3]]. apply Forall_app. split; assumption.
  Qed.
End WalkTot.

Theorem process_event_total_main sy name c e sem ev :
  sys_wf sy -> sys_ground sy -> ground ev = true ->
  walk_bad (snd (process_event sy name c e sem ev)) = false /\ SI (fst (process_event sy name c e sem ev)).
Proof.
  intros Hw Hg Hev. assert (Hi : SI sy) by (split; assumption).
  unfold process_event. destruct (sys_get sy name); [|split; [reflexivity|exact Hi]].
  destruct (find_rules_full_total sy name c e sem ev Hi Hev) as [H1 H2].
  destruct (find_rules_full sy name c e sem ev) as [sy1 [children|x|w|]]; cbn [fst snd] in *; try discriminate.
  - pose proof (walk_rules_ok sem name c e ev children sy1 H2) as Hr.
    destruct (walk_rules sem name c e ev sy1 children) as [[sy2 xs] st].
    destruct Hr as (K1 & K2 & K3). cbn [fst snd] in *. split; [|exact K1].
    unfold walk_bad. cbn [w_disp w_execs]. apply orb_false_iff. split.
    + destruct st as [d|]; [apply K3; reflexivity|reflexivity].
    + clear -K2. induction K2 as [|x l Hx Hl IH]; [reflexivity|]. cbn [existsb]. rewrite Hx, IH. reflexivity.
  - split; [reflexivity|exact H2].
Qed.

(** * A fact search with a GROUND pattern is total on any system *)

Lemma loc_search_local_gp_obad l c e p : ground p = true -> obad (snd (loc_search_local l c e p)) = false.
Proof.
  intros Hg. unfold loc_search_local.
  apply (gated_obad (fun _ => True) (fun _ _ _ _ => I)); [exact I|]. intros l0 _.
  rewrite lift_obad. apply st_search_ground_pattern_obad. exact Hg.
Qed.

Lemma sys_search_gp_obad sy name c e p inh :
  sys_wf sy -> ground p = true -> obad (snd (sys_search sy name c e p inh)) = false.
Proof.
  intros Hw Hg. destruct inh.
  - rewrite sys_search_inherited. cbv zeta. cbn [snd].
    destruct (walk_total_inv _ (fun _ l => loc_search_local l c e p) (e_now e) (fun _ => True) True_dec
                (fun _ _ _ => I) (fun _ _ => I) (fun _ l _ => loc_search_local_gp_obad l c e p Hg)
                sy name [] [] Hw (SQ_True sy)) as [H1 _].
    exact H1.
  - unfold sys_search. destruct (sys_get sy name) as [l|]; [|reflexivity].
    pose proof (loc_search_local_gp_obad l c e p Hg) as H1.
    destruct (loc_search_local l c e p) as [l' r]. cbn [snd] in *. rewrite obad_omap. exact H1.
Qed.

Lemma sys_step_search_gp_obad sy name c e p inh :
  sys_wf sy -> ground p = true -> lres_bad (snd (sys_step sy name c e (LSearch p inh))) = false.
Proof.
  intros Hw Hg. cbn [sys_step]. destruct (sys_get sy name); [|reflexivity].
  pose proof (sys_search_gp_obad sy name c e p inh Hw Hg) as H.
  destruct (sys_search sy name c e p inh) as [sy' r]. exact H.
Qed.
