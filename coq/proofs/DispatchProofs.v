(** C01: event dispatch is exact behind the rule index.  Proofs. *)
From Coq Require Import Lia.
From Verif Require Import Json Outcome Match PatIndex State Location
     StateSpec AssocLemmas StateProofs PatIndexSpec PatIndexProofs MatchSpec MatchProofs
     GateProofs DispatchSpec.

(** * Part 1: the index invariant *)

(** ** The trie operations as iffs *)

Lemma pi_add_iff n p id n' e :
  pi_add n p id = (n', e) ->
  (e = None <-> pattern_path p <> None) /\
  forall π j, tr_has n' π j <-> tr_has n π j \/ (j = id /\ pattern_path p = Some π).
Proof.
  intros H. apply pi_add_trel in H.
  destruct (pattern_path p) as [π0|]; cbn [trel] in H.
  - destruct H as (He & Hat & Hoth). split.
    + split; [discriminate|intros _; exact He].
    + intros π j. destruct (path_eq_dec π π0) as [->|Hne].
      * rewrite Hat. cbn [upd]. split.
        -- intros [->|H]; [right; split; reflexivity|left; exact H].
        -- intros [H|[-> _]]; [right; exact H|left; reflexivity].
      * rewrite (Hoth π j Hne). split.
        -- intros H; left; exact H.
        -- intros [H|[_ Hp]]; [exact H|congruence].
  - destruct H as (He & Hall). split.
    + split; [intros E; contradiction|intros E; congruence].
    + intros π j. rewrite Hall. split.
      * intros H; left; exact H.
      * intros [H|[_ Hp]]; [exact H|discriminate].
Qed.

Lemma pi_rem_iff n p id n' e :
  pi_rem n p id = (n', e) ->
  forall π j, tr_has n' π j <-> tr_has n π j /\ ~ (j = id /\ pattern_path p = Some π).
Proof.
  intros H. apply pi_rem_trel in H.
  destruct (pattern_path p) as [π0|]; cbn [trel] in H.
  - destruct H as (He & Hat & Hoth). intros π j.
    destruct (path_eq_dec π π0) as [->|Hne].
    + rewrite Hat. cbn [upd]. split.
      * intros [H1 H2]. split; [exact H1|]. intros [Hj _]. contradiction.
      * intros [H1 H2]. split; [exact H1|]. intros Hj. apply H2. split; [exact Hj|reflexivity].
    + rewrite (Hoth π j Hne). split.
      * intros H1. split; [exact H1|]. intros [_ Hp]. congruence.
      * intros [H1 _]. exact H1.
  - destruct H as (He & Hall). intros π j. rewrite Hall. split.
    + intros H1. split; [exact H1|]. intros [_ Hp]. discriminate.
    + intros [H1 _]. exact H1.
Qed.

(** ** Functional form of the invariant *)

Definition rule_path (rule : json) : option (list step) :=
  match rule_patterns rule with Some p => pattern_path p | None => None end.

(** the rule stored in a fact (as [st_add_mem_idx] computes the old rule) *)
Definition stored_rule (o : option json) : option json :=
  match o with
  | Some old => match extract_rule old false with Ok r => r | _ => None end
  | None => None
  end.

Definition opath (r : option json) : option (list step) :=
  match r with
  | Some o => if is_scheduled o then None else rule_path o
  | None => None
  end.

Definition fact_path (o : option json) : option (list step) := opath (stored_rule o).

Definition Ex (s : state) : Prop :=
  forall π j, tr_has (st_pindex s) π j <-> fact_path (alookup j (st_facts s)) = Some π.

Definition Ri (s : state) : Prop :=
  forall j r, stored_rule (alookup j (st_facts s)) = Some r -> is_scheduled r = false ->
              rule_path r <> None.

Lemma extract_rule_false_ok fact : exists r, extract_rule fact false = Ok r.
Proof.
  unfold extract_rule. destruct (jget "rule" fact) as [[| | | | |r]|]; eexists; reflexivity.
Qed.

Lemma indexed_rule_iff s id π :
  indexed_rule s id π <-> fact_path (alookup id (st_facts s)) = Some π.
Proof.
  unfold indexed_rule, fact_path, stored_rule, opath, rule_path. split.
  - intros (fact & rule & p & Hl & He & Hs & Hp & Hπ).
    rewrite Hl, He, Hs, Hp. exact Hπ.
  - destruct (alookup id (st_facts s)) as [fact|]; [|discriminate].
    destruct (extract_rule fact false) as [[rule|]| | |] eqn:He; try discriminate.
    destruct (is_scheduled rule) eqn:Hs; [discriminate|].
    destruct (rule_patterns rule) as [p|] eqn:Hp; [|discriminate].
    intros Hπ. exists fact, rule, p. repeat split; assumption.
Qed.

Lemma Pidx_exact_iff s : Pidx_exact s <-> Ex s.
Proof.
  unfold Pidx_exact, Ex. split; intros H π j; rewrite H.
  - apply indexed_rule_iff.
  - symmetry. apply indexed_rule_iff.
Qed.

Lemma rules_indexable_iff s : rules_indexable s <-> Ri s.
Proof.
  unfold rules_indexable, Ri, stored_rule, rule_path. split.
  - intros H j r Hst Hs.
    destruct (alookup j (st_facts s)) as [fact|] eqn:Hl; [|discriminate].
    destruct (extract_rule fact false) as [r0| | |] eqn:He; try discriminate. subst r0.
    destruct (H j fact r Hl He Hs) as (p & π & Hp & Hπ). rewrite Hp, Hπ. discriminate.
  - intros H id fact rule Hl He Hs.
    specialize (H id rule). rewrite Hl, He in H. specialize (H eq_refl Hs).
    destruct (rule_patterns rule) as [p|]; [|congruence].
    destruct (pattern_path p) as [π|] eqn:Hπ; [|congruence].
    exists p, π. split; [reflexivity|exact Hπ].
Qed.

(** The working invariant. *)
Definition J (s : state) : Prop := st_kind s = Indexed /\ Ex s /\ Ri s.

Lemma Pidx_iff s : Pidx s <-> J s.
Proof. unfold Pidx, J. rewrite Pidx_exact_iff, rules_indexable_iff. reflexivity. Qed.

Lemma J_ext s s' :
  st_kind s' = st_kind s -> st_facts s' = st_facts s -> st_pindex s' = st_pindex s -> J s -> J s'.
Proof. unfold J, Ex, Ri. intros -> -> ->. auto. Qed.

(** ** unindex_rule / index_rule *)

Lemma unindex_rule_facts s id rule : st_facts (unindex_rule s id rule) = st_facts s.
Proof. unfold unindex_rule. destruct (is_scheduled rule); [reflexivity|]. destruct (rule_patterns rule); reflexivity. Qed.

Lemma unindex_rule_kind s id rule : st_kind (unindex_rule s id rule) = st_kind s.
Proof. unfold unindex_rule. destruct (is_scheduled rule); [reflexivity|]. destruct (rule_patterns rule); reflexivity. Qed.

(** a scheduled rule was never indexed: nothing is taken out for it *)
Lemma unindex_rule_tr s id rule π j :
  tr_has (st_pindex (unindex_rule s id rule)) π j <->
  tr_has (st_pindex s) π j /\ ~ (j = id /\ opath (Some rule) = Some π).
Proof.
  unfold unindex_rule, opath. destruct (is_scheduled rule).
  { split; [intros H; split; [exact H|intros [_ Hp]; discriminate]|intros [H _]; exact H]. }
  unfold rule_path. destruct (rule_patterns rule) as [p|].
  - cbn [st_pindex set_pindex]. destruct (pi_rem (st_pindex s) p id) as [n' e] eqn:E.
    cbn [fst]. apply (pi_rem_iff _ _ _ _ _ E).
  - split; [intros H; split; [exact H|intros [_ Hp]; discriminate]|intros [H _]; exact H].
Qed.

Lemma index_rule_facts s id rule : st_facts (fst (index_rule s id rule)) = st_facts s.
Proof.
  unfold index_rule. destruct (rule_patterns rule) as [p|]; [|reflexivity].
  destruct (pi_add (st_pindex s) p id). reflexivity.
Qed.

Lemma index_rule_kind s id rule : st_kind (fst (index_rule s id rule)) = st_kind s.
Proof.
  unfold index_rule. destruct (rule_patterns rule) as [p|]; [|reflexivity].
  destruct (pi_add (st_pindex s) p id). reflexivity.
Qed.

Lemma index_rule_tr s id rule s' e :
  index_rule s id rule = (s', e) ->
  (e = None <-> rule_path rule <> None) /\
  forall π j, tr_has (st_pindex s') π j <->
              tr_has (st_pindex s) π j \/ (j = id /\ rule_path rule = Some π).
Proof.
  unfold index_rule, rule_path. destruct (rule_patterns rule) as [p|].
  - destruct (pi_add (st_pindex s) p id) as [n' e'] eqn:E. intros H. injection H as <- <-.
    cbn [st_pindex set_pindex]. apply (pi_add_iff _ _ _ _ _ E).
  - intros H. injection H as <- <-. split.
    + split; [discriminate|intros H; congruence].
    + intros π j. split; [intros H; left; exact H|intros [H|[_ Hp]]; [exact H|discriminate]].
Qed.

(** ** st_add_mem_idx *)

Lemma fact_path_ainsert id fact facts j :
  fact_path (alookup j (ainsert id fact facts)) =
  if String.eqb j id then fact_path (Some fact) else fact_path (alookup j facts).
Proof. rewrite alookup_ainsert. destruct (String.eqb j id); reflexivity. Qed.

Lemma J_record s2 s id fact :
  st_kind s2 = Indexed -> st_facts s2 = st_facts s ->
  (forall π j, tr_has (st_pindex s2) π j <->
     if String.eqb j id then fact_path (Some fact) = Some π
     else fact_path (alookup j (st_facts s)) = Some π) ->
  Ri s ->
  (forall r, stored_rule (Some fact) = Some r -> is_scheduled r = false -> rule_path r <> None) ->
  J (set_facts (set_tindex s2 (fold_left (fun idx t => ti_add t id idx) (extract_terms fact) (st_tindex s2)))
               (ainsert id fact (st_facts s2))).
Proof.
  intros Hk Hf Htr HRi Hnew. unfold J, Ex, Ri.
  cbn [st_kind st_facts st_pindex set_facts set_tindex]. rewrite Hf.
  split; [exact Hk|]. split.
  - intros π j. rewrite fact_path_ainsert, Htr. destruct (String.eqb j id); reflexivity.
  - intros j r. rewrite alookup_ainsert. destruct (String.eqb j id).
    + apply Hnew.
    + apply HRi.
Qed.

Lemma st_add_mem_idx_J s id fact :
  J s -> J (fst (st_add_mem_idx s id fact)).
Proof.
  intros (Hk & HEx & HRi). unfold Ex in HEx. unfold st_add_mem_idx.
  destruct (extract_rule fact false) as [rule|e0|w|] eqn:Er.
  2-4: cbn [fst]; unfold J; auto.
  pose proof (fun π => HEx π id) as Hold. unfold fact_path in Hold.
  change (match alookup id (st_facts s) with
          | Some old => match extract_rule old false with Ok r => r | _ => None end
          | None => None
          end) with (stored_rule (alookup id (st_facts s))).
  cbv zeta.
  set (oldrule := stored_rule (alookup id (st_facts s))) in *.
  set (s1 := match oldrule with Some r => unindex_rule s id r | None => s end).
  assert (H1k : st_kind s1 = Indexed).
  { subst s1. destruct oldrule; [rewrite unindex_rule_kind|]; exact Hk. }
  assert (H1f : st_facts s1 = st_facts s).
  { subst s1. destruct oldrule; [apply unindex_rule_facts|reflexivity]. }
  assert (H1t : forall π j, tr_has (st_pindex s1) π j <-> tr_has (st_pindex s) π j /\ j <> id).
  { intros π j. subst s1. destruct oldrule as [o|] eqn:Eo.
    - rewrite unindex_rule_tr. split.
      + intros [Ht Hn]. split; [exact Ht|]. intros ->. apply Hn. split; [reflexivity|].
        apply Hold in Ht. exact Ht.
      + intros [Ht Hn]. split; [exact Ht|]. intros [Hj _]. contradiction.
    - split.
      + intros Ht. split; [exact Ht|]. intros ->. apply Hold in Ht. discriminate.
      + intros [Ht _]; exact Ht. }
  assert (Hnew_path : stored_rule (Some fact) = rule).
  { unfold stored_rule. rewrite Er. reflexivity. }
  (* the three outcomes of the indexing step *)
  match goal with
  | |- J (fst (let '(a, b) := ?X in _)) => assert (Hcases : forall s2 err, X = (s2, err) ->
      st_kind s2 = Indexed /\ st_facts s2 = st_facts s /\
      match err with
      | Some _ => forall π j, tr_has (st_pindex s2) π j <-> tr_has (st_pindex s) π j
      | None =>
          (forall π j, tr_has (st_pindex s2) π j <->
             if String.eqb j id then fact_path (Some fact) = Some π
             else fact_path (alookup j (st_facts s)) = Some π) /\
          (forall r, stored_rule (Some fact) = Some r -> is_scheduled r = false -> rule_path r <> None)
      end)
  end.
  { intros s2 err. unfold fact_path at 1. rewrite Hnew_path.
    destruct rule as [r|].
    - destruct (is_scheduled r) eqn:Es.
      + intros H. injection H as <- <-. split; [exact H1k|]. split; [exact H1f|]. split.
        * intros π j. rewrite H1t. cbn [opath]. rewrite Es.
          destruct (String.eqb_spec j id) as [->|Hne].
          -- split; [intros [_ Hn]; congruence|discriminate].
          -- rewrite HEx. split; [intros [H _]; exact H|intros H; split; [exact H|exact Hne]].
        * intros r0 E0 Hs0. injection E0 as <-. congruence.
      + destruct (index_rule s1 id r) as [s' [e|]] eqn:Ei.
        * (* indexing the new rule failed: the old one is put back *)
          pose proof (index_rule_tr _ _ _ _ _ Ei) as [Hie Hit].
          assert (Hnp : rule_path r = None).
          { destruct (rule_path r); [|reflexivity]. destruct Hie as [_ Hie].
            assert (X : Some e = None) by (apply Hie; discriminate). discriminate. }
          assert (Hs'k : st_kind s' = Indexed).
          { pose proof (index_rule_kind s1 id r) as X. rewrite Ei in X. cbn [fst] in X. congruence. }
          assert (Hs'f : st_facts s' = st_facts s).
          { pose proof (index_rule_facts s1 id r) as X. rewrite Ei in X. cbn [fst] in X. congruence. }
          assert (Hs't : forall π j, tr_has (st_pindex s') π j <-> tr_has (st_pindex s) π j /\ j <> id).
          { intros π j. rewrite Hit, H1t, Hnp. split; [intros [H|[_ H]]; [exact H|discriminate]|intros H; left; exact H]. }
          intros H. injection H as <- <-.
          destruct oldrule as [o|] eqn:Eo.
          -- cbn [opath] in Hold. destruct (is_scheduled o) eqn:Eso.
             ++ split; [exact Hs'k|]. split; [exact Hs'f|].
                intros π j. rewrite Hs't. split; [intros [H _]; exact H|].
                intros H. split; [exact H|]. intros ->. apply Hold in H. discriminate.
             ++ destruct (index_rule s' id o) as [s'' e''] eqn:Ei2. cbn [fst].
                pose proof (index_rule_tr _ _ _ _ _ Ei2) as [_ Hit2].
                split; [pose proof (index_rule_kind s' id o) as X; rewrite Ei2 in X; cbn [fst] in X; congruence|].
                split; [pose proof (index_rule_facts s' id o) as X; rewrite Ei2 in X; cbn [fst] in X; congruence|].
                intros π j. rewrite Hit2, Hs't. split.
                ** intros [[H _]|[-> H]]; [exact H|]. apply Hold. exact H.
                ** intros H. destruct (String.eqb_spec j id) as [->|Hne].
                   --- right. split; [reflexivity|]. apply Hold. exact H.
                   --- left. split; assumption.
          -- split; [exact Hs'k|]. split; [exact Hs'f|].
             intros π j. rewrite Hs't. split; [intros [H _]; exact H|].
             intros H. split; [exact H|]. intros ->. apply Hold in H. discriminate.
        * (* indexed *)
          pose proof (index_rule_tr _ _ _ _ _ Ei) as [Hie Hit].
          intros H. injection H as <- <-.
          split; [pose proof (index_rule_kind s1 id r) as X; rewrite Ei in X; cbn [fst] in X; congruence|].
          split; [pose proof (index_rule_facts s1 id r) as X; rewrite Ei in X; cbn [fst] in X; congruence|].
          split.
          -- intros π j. rewrite Hit, H1t. cbn [opath]. rewrite Es.
             destruct (String.eqb_spec j id) as [->|Hne].
             ++ split; [intros [[_ Hn]|[_ H]]; [congruence|exact H]|intros H; right; split; [reflexivity|exact H]].
             ++ rewrite HEx. split; [intros [[H _]|[Hj _]]; [exact H|contradiction]|intros H; left; split; assumption].
          -- intros r0 E0 _. injection E0 as <-. apply Hie. reflexivity.
    - intros H. injection H as <- <-. split; [exact H1k|]. split; [exact H1f|]. split.
      + intros π j. rewrite H1t. cbn [opath].
        destruct (String.eqb_spec j id) as [->|Hne].
        * split; [intros [_ Hn]; congruence|discriminate].
        * rewrite HEx. split; [intros [H _]; exact H|intros H; split; [exact H|exact Hne]].
      + intros r0 E0. discriminate. }
  match goal with
  | |- J (fst (let '(a, b) := ?X in _)) => destruct X as [s2 err] eqn:EX
  end.
  specialize (Hcases s2 err eq_refl).
  destruct Hcases as (H2k & H2f & H2).
  destruct err as [e|]; cbn [fst].
  - unfold J, Ex, Ri. rewrite H2k, H2f. split; [reflexivity|]. split.
    + intros π j. rewrite H2. apply HEx.
    + exact HRi.
  - destruct H2 as [H2t H2n]. apply (J_record s2 s id fact); assumption.
Qed.

(** ** Fields that the invariant does not read *)

Lemma J_store_call s : J s -> J (fst (store_call s)).
Proof. apply J_ext; reflexivity. Qed.

Lemma J_set_amb s a : J s -> J (set_amb s a).
Proof. apply J_ext; reflexivity. Qed.

Lemma J_set_store s st : J s -> J (set_store s st).
Proof. apply J_ext; reflexivity. Qed.

Lemma J_set_tindex s t : J s -> J (set_tindex s t).
Proof. apply J_ext; reflexivity. Qed.

Lemma J_set_fail s f : J s -> J (set_fail s f).
Proof. apply J_ext; reflexivity. Qed.

(** ** Dropping a fact (rem_body un-indexes the stored rule, whatever it is) *)

Lemma J_drop s id fact :
  J s -> alookup id (st_facts s) = Some fact ->
  J (set_facts (match extract_rule fact false with
                | Ok (Some rule) => unindex_rule s id rule
                | _ => s
                end)
               (aremove id (st_facts (match extract_rule fact false with
                                      | Ok (Some rule) => unindex_rule s id rule
                                      | _ => s
                                      end)))).
Proof.
  intros (Hk & HEx & HRi) Hl. unfold Ex in HEx.
  set (s1 := match extract_rule fact false with
             | Ok (Some rule) => unindex_rule s id rule
             | _ => s
             end).
  assert (H1k : st_kind s1 = Indexed).
  { subst s1. destruct (extract_rule fact false) as [[rule|]| | |]; try exact Hk.
    rewrite unindex_rule_kind. exact Hk. }
  assert (H1f : st_facts s1 = st_facts s).
  { subst s1. destruct (extract_rule fact false) as [[rule|]| | |]; try reflexivity.
    apply unindex_rule_facts. }
  assert (H1t : forall π j, tr_has (st_pindex s1) π j <-> tr_has (st_pindex s) π j /\ j <> id).
  { intros π j. pose proof (HEx π id) as Hold. rewrite Hl in Hold.
    unfold fact_path, stored_rule in Hold. subst s1.
    destruct (extract_rule fact false) as [[rule|]| | |]; cbn [opath] in Hold.
    - rewrite unindex_rule_tr. split.
      + intros [Ht Hn]. split; [exact Ht|]. intros ->. apply Hn. split; [reflexivity|].
        apply Hold in Ht. exact Ht.
      + intros [Ht Hn]. split; [exact Ht|]. intros [Hj _]. contradiction.
    - split; [intros Ht; split; [exact Ht|]; intros ->; apply Hold in Ht; discriminate|intros [Ht _]; exact Ht].
    - split; [intros Ht; split; [exact Ht|]; intros ->; apply Hold in Ht; discriminate|intros [Ht _]; exact Ht].
    - split; [intros Ht; split; [exact Ht|]; intros ->; apply Hold in Ht; discriminate|intros [Ht _]; exact Ht].
    - split; [intros Ht; split; [exact Ht|]; intros ->; apply Hold in Ht; discriminate|intros [Ht _]; exact Ht]. }
  unfold J, Ex, Ri. cbn [st_kind st_facts st_pindex set_facts]. rewrite H1f.
  split; [exact H1k|]. split.
  - intros π j. rewrite H1t, alookup_aremove. destruct (String.eqb_spec j id) as [->|Hne].
    + split; [intros [_ Hn]; congruence|discriminate].
    + rewrite HEx. split; [intros [H _]; exact H|intros H; split; [exact H|exact Hne]].
  - intros j r. rewrite alookup_aremove. destruct (String.eqb j id); [discriminate|apply HRi].
Qed.

(** ** Removal (same induction as StateProofs.RemInv) *)

Lemma J_set_pending s p : J s -> J (set_pending s p).
Proof. apply J_ext; reflexivity. Qed.

(** the readers only note ids: the invariant does not read the list *)
Lemma expire_J s id fact now : J s -> J (fst (expire s id fact now)).
Proof.
  intros HJ. unfold expire. destruct (fact_expired fact now); [|exact HJ].
  apply J_set_pending; exact HJ.
Qed.

Lemma search_ids_J ids : forall s pattern now acc,
  J s -> J (fst (search_ids s ids pattern now acc)).
Proof.
  induction ids as [|id r IH]; intros s pattern now acc HJ; cbn [search_ids].
  - exact HJ.
  - destruct (alookup id (st_facts s)) as [fact|]; [|apply IH; exact HJ].
    pose proof (expire_J s id fact now HJ) as H.
    destruct (expire s id fact now) as [s1 expired]. cbn [fst] in H.
    destruct expired; [apply IH; exact H|].
    destruct (core_match pattern fact []) as [[|b bss]|e|w|]; try exact H; apply IH; exact H.
Qed.

Lemma search_state_J s pattern now :
  J s -> J (fst (search_state s pattern now)).
Proof.
  intros HJ. unfold search_state. destruct (st_kind s).
  - destruct (ti_search (st_tindex s) (extract_terms pattern)); try exact HJ.
    apply search_ids_J; exact HJ.
  - apply search_ids_J; exact HJ.
Qed.

Section RemJ.
  Variable rem_rec : state -> string -> Z -> state * outcome bool.
  Hypothesis rem_rec_J : forall s id now, J s -> J (fst (rem_rec s id now)).

  Lemma rem_list_J ids : forall s skip now,
    J s -> J (fst (rem_list rem_rec s ids skip now)).
  Proof.
    induction ids as [|j r IH]; intros s skip now HJ; cbn [rem_list].
    - exact HJ.
    - destruct (skipped skip j); [apply IH; exact HJ|].
      pose proof (rem_rec_J s j now HJ) as H.
      destruct (rem_rec s j now) as [s1 [b|e|w|]]; cbn [fst] in *; try exact H.
      apply IH; exact H.
  Qed.

  Lemma delete_dependencies_J s id now :
    J s -> J (fst (delete_dependencies rem_rec s id now)).
  Proof.
    intros HJ. unfold delete_dependencies.
    pose proof (search_state_J s (dw_pattern id) now HJ) as H.
    destruct (search_state s (dw_pattern id) now) as [s1 [found|e|w|]]; cbn [fst] in *; try exact H.
    apply rem_list_J; exact H.
  Qed.

  Lemma rem_body_J s id now : J s -> J (fst (rem_body rem_rec s id now)).
  Proof.
    intros HJ. unfold rem_body.
    assert (Hk : st_kind s = Indexed) by apply HJ. rewrite Hk.
    destruct (alookup id (st_facts s)) as [fact|] eqn:El.
    - pose proof (J_drop s id fact HJ El) as H2.
      cbv zeta.
      set (s1 := match extract_rule fact false with
                 | Ok (Some rule) => unindex_rule s id rule
                 | _ => s
                 end) in *.
      set (s2 := set_facts s1 (aremove id (st_facts s1))) in *.
      apply (J_set_tindex s2 (fold_left (fun idx t => ti_rem t id idx) (extract_terms fact) (st_tindex s2))) in H2.
      set (s3 := set_tindex s2 _) in *.
      apply J_store_call in H2.
      destruct (store_call s3) as [s4 failed]. cbn [fst] in H2.
      destruct failed; [exact H2|].
      apply (J_set_store s4 (aremove id (st_store s4))) in H2.
      pose proof (delete_dependencies_J _ id now H2) as H6.
      destruct (delete_dependencies rem_rec (set_store s4 (aremove id (st_store s4))) id now) as [s6 [u|e|w|]];
        exact H6.
    - pose proof (delete_dependencies_J _ id now HJ) as H6.
      destruct (delete_dependencies rem_rec s id now) as [s6 [u|e|w|]]; exact H6.
  Qed.
End RemJ.

Lemma rem_fuel_J fuel : forall s id now, J s -> J (fst (rem_fuel fuel s id now)).
Proof.
  induction fuel as [|f IH]; intros s id now HJ; cbn [rem_fuel].
  - exact HJ.
  - apply rem_body_J; assumption.
Qed.

Lemma st_rem_J s id now : J s -> J (fst (st_rem s id now)).
Proof. apply rem_fuel_J. Qed.

Lemma st_rem_rec_J s id now : J s -> J (fst (st_rem_rec s id now)).
Proof. apply rem_fuel_J. Qed.

Lemma J_with_purge {A} (r : state * outcome A) now : J (fst r) -> J (fst (with_purge r now)).
Proof. apply (with_purge_inv J J_set_pending st_rem_J). Qed.

Lemma st_search_J s p now : J s -> J (fst (st_search s p now)).
Proof. intros HJ. unfold st_search. apply J_with_purge. apply search_state_J; exact HJ. Qed.

Lemma get_body_J s id now : J s -> J (fst (get_body s id now)).
Proof.
  intros HJ. unfold get_body. destruct (alookup id (st_facts s)) as [fact|]; [|exact HJ].
  pose proof (expire_J s id fact now HJ) as H.
  destruct (expire s id fact now) as [s1 [|]]; exact H.
Qed.

Lemma st_get_J s id now : J s -> J (fst (st_get s id now)).
Proof. intros HJ. unfold st_get. apply J_with_purge. apply get_body_J; exact HJ. Qed.

Lemma st_Rem_J s id now : J s -> J (fst (st_Rem s id now)).
Proof.
  intros HJ. unfold st_Rem. apply J_with_purge.
  destruct (st_hooks s); [|apply st_rem_J; exact HJ].
  pose proof (st_get_J s id now HJ) as H.
  destruct (st_get s id now) as [s1 [b|e|w|]]; cbn [fst] in *; try exact H.
  apply st_rem_J; exact H.
Qed.

Lemma find_ids_idx_J ids : forall s now acc, J s -> J (fst (find_ids_idx s ids now acc)).
Proof.
  induction ids as [|id r IH]; intros s now acc HJ; cbn [find_ids_idx].
  - exact HJ.
  - destruct (alookup id (st_facts s)) as [fact|]; [|exact HJ].
    pose proof (expire_J s id fact now HJ) as H.
    destruct (expire s id fact now) as [s1 expired]. cbn [fst] in H.
    destruct expired; [apply IH; exact H|].
    destruct (extract_rule fact true) as [[body|]|e|w|]; try exact H. apply IH; exact H.
Qed.

Lemma do_find_rules_J s ev now : J s -> J (fst (do_find_rules s ev now)).
Proof.
  intros HJ. unfold do_find_rules. apply J_with_purge.
  assert (Hk : st_kind s = Indexed) by apply HJ. rewrite Hk.
  destruct (pi_search (st_pindex s) ev); try exact HJ. apply find_ids_idx_J; exact HJ.
Qed.

Lemma st_find_rules_J s ev now : J s -> J (fst (st_find_rules s ev now)).
Proof.
  intros HJ. unfold st_find_rules.
  pose proof (do_find_rules_J s ev now HJ) as H.
  destruct (do_find_rules s ev now) as [s1 res]. cbn [fst] in H.
  destruct res as [l|e|w|]; exact H.
Qed.

Lemma st_clear_J s : J s -> J (fst (st_clear s)).
Proof.
  intros HJ. unfold st_clear.
  assert (Hk : st_kind s = Indexed) by apply HJ.
  pose proof (J_store_call s HJ) as H.
  destruct (store_call s) as [s1 failed] eqn:E. rewrite Hk. cbn [fst] in *.
  destruct failed; [exact H|]. cbn [fst].
  destruct H as (Hk1 & _ & _).
  unfold J, Ex, Ri. cbn [st_kind st_facts st_pindex set_store set_pindex set_tindex set_facts alookup].
  split; [exact Hk1|]. split.
  - intros π j. split; [intros H; exfalso; eapply tr_has_empty; exact H|discriminate].
  - intros j r H. discriminate.
Qed.

(** ** The add-hook corner: when the add hook (the harness's validating hook or
    the cron hook) rejects the fact, the changes made to the rule index are
    undone and the state is untouched (repair of D51 in /repo). *)

Lemma alookup_ainsert_ne {A} k j (v : A) l : j <> k -> alookup j (ainsert k v l) = alookup j l.
Proof. apply alookup_ainsert_other. Qed.

Lemma st_add_hook_err_state s given x now fresh aux id fact e :
  prepare_fact given x now fresh aux = Ok (id, fact) -> st_kind s = Indexed ->
  add_hook_err s fact = Some e ->
  st_add s given x now fresh aux = (s, Err e).
Proof.
  intros Hp Hk He. unfold st_add. rewrite Hp, Hk.
  destruct (extract_rule_false_ok fact) as [rule Hr]. rewrite Hr, He.
  reflexivity.
Qed.

Lemma st_add_J s given x now fresh aux : J s -> J (fst (st_add s given x now fresh aux)).
Proof.
  intros HJ.
  assert (Hk : st_kind s = Indexed) by apply HJ.
  destruct (prepare_fact given x now fresh aux) as [[id fact]|e|w|] eqn:Hp.
  2-4: unfold st_add; rewrite Hp; exact HJ.
  destruct (add_hook_err s fact) as [e|] eqn:He.
  - rewrite (st_add_hook_err_state _ _ _ _ _ _ _ _ _ Hp Hk He). exact HJ.
  - unfold st_add. rewrite Hp, Hk.
    destruct (extract_rule fact false) as [rule|e|w|]; try exact HJ.
    rewrite He.
    pose proof (st_add_mem_idx_J s id fact HJ) as H1.
    destruct (st_add_mem_idx s id fact) as [s1 [e|]]; cbn [fst] in *; [exact H1|].
    apply J_store_call in H1.
    destruct (store_call s1) as [s2 failed]. cbn [fst] in H1.
    destruct failed; [exact H1|]. cbn [fst]. apply J_set_store; exact H1.
Qed.

Lemma J_empty hooks fail : J (set_fail (empty_state Indexed hooks) fail).
Proof.
  unfold J, Ex, Ri. cbn. split; [reflexivity|]. split.
  - intros π j. split; [intros H; exfalso; eapply tr_has_empty; exact H|discriminate].
  - intros j r H. discriminate.
Qed.

Lemma sstep_J s o : J s -> J (sstep s o).
Proof.
  destruct o as [op now]. unfold sstep. destruct op.
  - apply st_add_J.
  - apply st_Rem_J.
  - apply st_get_J.
  - apply st_search_J.
  - apply st_find_rules_J.
  - apply st_clear_J.
Qed.

Lemma fold_sstep_J ops : forall s, J s -> J (fold_left sstep ops s).
Proof.
  induction ops as [|o r IH]; intros s HJ; cbn [fold_left]; [exact HJ|].
  apply IH. apply sstep_J; exact HJ.
Qed.

Lemma J_reachable hooks fail ops : J (reachable Indexed hooks fail ops).
Proof. unfold reachable. apply fold_sstep_J. apply J_empty. Qed.

Theorem pidx_reachable : forall hooks fail ops, Pidx (reachable Indexed hooks fail ops).
Proof. intros. apply Pidx_iff. apply J_reachable. Qed.

Theorem pidx_exact_reachable : pidx_exact_reachable_statement.
Proof. intros hooks fail ops. apply (pidx_reachable hooks fail ops). Qed.

Theorem rules_indexable_reachable : rules_indexable_reachable_statement.
Proof. intros hooks fail ops. apply (pidx_reachable hooks fail ops). Qed.

Theorem stored_rule_indexed : stored_rule_indexed_statement.
Proof.
  intros hooks fail ops id fact rule s Hl He Hs.
  destruct (pidx_reachable hooks fail ops) as (_ & HEx & HRi). fold s in HEx, HRi.
  destruct (HRi id fact rule Hl He Hs) as (p & π & Hp & Hπ).
  exists p, π. split; [exact Hp|]. split; [exact Hπ|].
  apply HEx. exists fact, rule, p. repeat split; assumption.
Qed.

(** Per-operation preservation, in terms of the public invariant. *)
Theorem Pidx_st_add s given x now fresh aux : Pidx s -> Pidx (fst (st_add s given x now fresh aux)).
Proof. rewrite !Pidx_iff. apply st_add_J. Qed.
Theorem Pidx_st_Rem s id now : Pidx s -> Pidx (fst (st_Rem s id now)).
Proof. rewrite !Pidx_iff. apply st_Rem_J. Qed.
Theorem Pidx_st_get s id now : Pidx s -> Pidx (fst (st_get s id now)).
Proof. rewrite !Pidx_iff. apply st_get_J. Qed.
Theorem Pidx_st_search s p now : Pidx s -> Pidx (fst (st_search s p now)).
Proof. rewrite !Pidx_iff. apply st_search_J. Qed.
Theorem Pidx_st_find_rules s ev now : Pidx s -> Pidx (fst (st_find_rules s ev now)).
Proof. rewrite !Pidx_iff. apply st_find_rules_J. Qed.
Theorem Pidx_st_clear s : Pidx s -> Pidx (fst (st_clear s)).
Proof. rewrite !Pidx_iff. apply st_clear_J. Qed.

(** * Part 2: a candidate id is never stale *)

Lemma extract_rule_req fact r :
  extract_rule fact true = Ok (Some r) <-> extract_rule fact false = Ok (Some r).
Proof.
  unfold extract_rule. destruct (jget "rule" fact) as [[| | | | |rm]|]; split; intros H; try discriminate; exact H.
Qed.

Lemma expire_noexp s id fact now :
  fact_expired fact now = false -> expire s id fact now = (s, false).
Proof. apply expire_false. Qed.

Lemma find_ids_idx_noexp s now :
  no_expired s now ->
  forall ids acc,
    (forall id, In id ids -> exists fact body,
        alookup id (st_facts s) = Some fact /\ extract_rule fact true = Ok (Some body)) ->
    exists l, find_ids_idx s ids now acc = (s, Ok l) /\
      forall id body, In (id, body) l <->
        In (id, body) acc \/
        (In id ids /\ exists fact, alookup id (st_facts s) = Some fact /\
                                   extract_rule fact true = Ok (Some body)).
Proof.
  intros Hexp. induction ids as [|i r IH]; intros acc Hall; cbn [find_ids_idx].
  - exists (rev acc). split; [reflexivity|]. intros id body. rewrite <- in_rev.
    split; [intros H; left; exact H|intros [H|[[] _]]; exact H].
  - destruct (Hall i (or_introl eq_refl)) as (fact & body & Hl & Hb).
    rewrite Hl, (expire_noexp _ _ _ _ (Hexp i fact Hl)), Hb.
    destruct (IH ((i, body) :: acc)) as (l & Hrun & Hin).
    { intros id Hid. apply Hall. right; exact Hid. }
    exists l. split; [exact Hrun|]. intros id body'. rewrite Hin. cbn [In]. split.
    + intros [[E|H]|(H1 & H2)].
      * injection E as <- <-. right. split; [left; reflexivity|]. exists fact. split; assumption.
      * left; exact H.
      * right. split; [right; exact H1|exact H2].
    + intros [H|([<-|H1] & fact' & H2 & H3)].
      * left; right; exact H.
      * rewrite Hl in H2. injection H2 as <-. rewrite Hb in H3. injection H3 as <-.
        left; left; reflexivity.
      * right. split; [exact H1|]. exists fact'. split; assumption.
Qed.

Theorem stale_never_blocks : stale_never_blocks_statement.
Proof.
  intros s ev ids now HEx Hexp Hs.
  destruct (find_ids_idx_noexp s now Hexp ids []) as (l & Hrun & Hin).
  { intros id Hid. destruct (psearch_only_stored _ _ _ _ Hs Hid) as (π & Ht).
    apply HEx in Ht. destruct Ht as (fact & rule & p & Hl & He & _).
    exists fact, rule. split; [exact Hl|]. apply extract_rule_req. exact He. }
  exists l. split; [exact Hrun|]. intros id body. rewrite Hin. cbn [In].
  split; [intros [[]|H]; exact H|intros H; right; exact H].
Qed.

(** * Part 3: no matching rule is missed *)

Theorem candidates_complete : candidates_complete_statement.
Proof.
  intros s ev ids id fact rule p b HEx HRi Hs Hl He Hsch Hp Hwp Hwe Hnp Hao Hlay.
  apply extract_rule_req in He.
  destruct (HRi id fact rule Hl He Hsch) as (p' & π & Hp' & Hπ).
  rewrite Hp in Hp'. injection Hp' as <-.
  apply (pindex_complete (st_pindex s) p ev b π id ids); try assumption.
  apply HEx. exists fact, rule, p. repeat split; assumption.
Qed.

(** * Part 4a: FindRules.Do ([find_children]) *)

Lemma enabled_noexp l now : nothing_expired l now -> fst (enabled l now) = l.
Proof.
  intros H. unfold enabled. pose proof (get_prop_string_noexp l "enabled" now H) as Hg.
  destruct (get_prop_string l "enabled" now) as [l' e]. exact Hg.
Qed.

Lemma rule_enabled_noexp l id now : nothing_expired l now -> fst (rule_enabled l id now) = l.
Proof.
  intros H. unfold rule_enabled. pose proof (enabled_noexp l now H) as He.
  destruct (enabled l now) as [l1 en]. cbn [fst] in He. subst l1.
  destruct (negb en); [reflexivity|].
  pose proof (get_prop_noexp l id "disabled" now H) as Hg.
  destruct (get_prop l id "disabled" now) as [l2 o]. cbn [fst] in Hg. subst l2.
  destruct o as [[| | | | |]|]; reflexivity.
Qed.

(** [find_children] when nothing expires and the `when` patterns of the
    enabled candidates match without error: the location is unchanged and the
    children are exactly the enabled candidates with a non-empty match. *)
Lemma find_children_spec l ev now :
  nothing_expired l now ->
  forall rules acc,
    (forall id body, In (id, body) rules -> snd (rule_enabled l id now) = true ->
        exists p bss, when_pattern body = Some p /\ core_match p ev [] = Ok bss) ->
    exists ch, find_children l rules ev now acc = (l, Ok ch) /\
      forall id bss, In (id, bss) ch <->
        In (id, bss) acc \/
        exists body p, In (id, body) rules /\ snd (rule_enabled l id now) = true /\
                       when_pattern body = Some p /\ core_match p ev [] = Ok bss /\ bss <> [].
Proof.
  intros Hne. induction rules as [|[i body] r IH]; intros acc Hok; cbn [find_children].
  - exists (rev acc). split; [reflexivity|]. intros id bss. rewrite <- in_rev.
    split; [intros H; left; exact H|intros [H|(b & p & [] & _)]; exact H].
  - pose proof (rule_enabled_noexp l i now Hne) as Hfst.
    destruct (rule_enabled l i now) as [l1 en] eqn:Een. cbn [fst] in Hfst. subst l1.
    assert (Hok' : forall id body0, In (id, body0) r -> snd (rule_enabled l id now) = true ->
                     exists p bss, when_pattern body0 = Some p /\ core_match p ev [] = Ok bss).
    { intros id body0 Hin. apply Hok. right; exact Hin. }
    destruct en; cbn [negb].
    + destruct (Hok i body (or_introl eq_refl)) as (p & bss0 & Hp & Hm).
      { rewrite Een. reflexivity. }
      rewrite Hp, Hm. destruct bss0 as [|b0 bss0].
      * destruct (IH acc Hok') as (ch & Hrun & Hin). exists ch. split; [exact Hrun|].
        intros id bss. rewrite Hin. cbn [In]. split.
        -- intros [H|(body' & p' & H1 & H2)]; [left; exact H|right].
           exists body', p'. split; [right; exact H1|exact H2].
        -- intros [H|(body' & p' & [E|H1] & H2 & H3 & H4 & H5)]; [left; exact H| |].
           ++ injection E as <- <-. rewrite Hp in H3. injection H3 as <-.
              rewrite Hm in H4. injection H4 as <-. congruence.
           ++ right. exists body', p'. repeat split; assumption.
      * destruct (IH ((i, b0 :: bss0) :: acc) Hok') as (ch & Hrun & Hin). exists ch. split; [exact Hrun|].
        intros id bss. rewrite Hin. cbn [In]. split.
        -- intros [[E|H]|(body' & p' & H1 & H2)].
           ++ injection E as <- <-. right. exists body, p.
              split; [left; reflexivity|]. split; [rewrite Een; reflexivity|].
              split; [exact Hp|]. split; [exact Hm|discriminate].
           ++ left; exact H.
           ++ right. exists body', p'. split; [right; exact H1|exact H2].
        -- intros [H|(body' & p' & [E|H1] & H2 & H3 & H4 & H5)]; [left; right; exact H| |].
           ++ injection E as <- <-. rewrite Hp in H3. injection H3 as <-.
              rewrite Hm in H4. injection H4 as <-. left; left; reflexivity.
           ++ right. exists body', p'. repeat split; assumption.
    + destruct (IH acc Hok') as (ch & Hrun & Hin). exists ch. split; [exact Hrun|].
      intros id bss. rewrite Hin. cbn [In]. split.
      * intros [H|(body' & p' & H1 & H2)]; [left; exact H|right].
        exists body', p'. split; [right; exact H1|exact H2].
      * intros [H|(body' & p' & [E|H1] & H2 & H3)]; [left; exact H| |].
        -- injection E as <- <-. rewrite Een in H2. discriminate.
        -- right. exists body', p'. split; [exact H1|]. split; [exact H2|exact H3].
Qed.

(** * Part 4b: the indexed dispatch is exact *)

Lemma canonical_patterns rule w p :
  jget "when" rule = Some (JObj w) -> alookup "pattern" w = Some (JObj p) ->
  rule_patterns rule = Some (JObj p) /\ when_pattern rule = Some (JObj p).
Proof. intros Hw Hp. unfold rule_patterns, when_pattern. rewrite Hw, Hp. split; reflexivity. Qed.

Lemma canonical_when_patterns rule :
  canonical_when rule -> exists p, rule_patterns rule = Some p /\ when_pattern rule = Some p.
Proof.
  intros (w & p & Hw & Hp). exists (JObj p). apply (canonical_patterns rule w p Hw Hp).
Qed.

Lemma fragment_wf p d b0 : fragment p d b0 = true -> wf_json p = true /\ wf_json d = true.
Proof.
  unfold fragment. intros H.
  repeat (apply andb_true_iff in H; destruct H as [H ?]). split; assumption.
Qed.

Lemma check_rules_ok l :
  (forall id body, In (id, body) l -> exists r, rule_from_map body = Ok r) -> check_rules l = l.
Proof.
  unfold check_rules.
  induction l as [|[i body] r IH]; intros H; cbn [filter snd]; [reflexivity|].
  destruct (H i body (or_introl eq_refl)) as (r0 & Hr). unfold rule_parses at 1. rewrite Hr.
  f_equal. apply IH. intros id b Hin. apply (H id b). right; exact Hin.
Qed.

(** an id returned by the index search is a stored non-scheduled rule *)
Lemma candidate_is_stored s ev ids id :
  Pidx_exact s -> pi_search (st_pindex s) ev = Ok ids -> In id ids ->
  exists fact rule, alookup id (st_facts s) = Some fact /\
                    extract_rule fact true = Ok (Some rule) /\ is_scheduled rule = false.
Proof.
  intros HEx Hs Hid. destruct (psearch_only_stored _ _ _ _ Hs Hid) as (π & Ht).
  apply HEx in Ht. destruct Ht as (fact & rule & p & Hl & He & Hsch & _).
  exists fact, rule. split; [exact Hl|]. split; [apply extract_rule_req; exact He|exact Hsch].
Qed.

(** The indexed candidate list, with the RuleFromMap check. *)
Lemma st_find_rules_indexed s ev now ids :
  st_kind s = Indexed -> Pidx_exact s -> no_expired s now -> st_pending s = [] ->
  pi_search (st_pindex s) ev = Ok ids -> bodies_checked s ->
  exists cands, st_find_rules s ev now = (s, Ok cands) /\
    forall id body, In (id, body) cands <->
      In id ids /\ exists fact, alookup id (st_facts s) = Some fact /\
                                extract_rule fact true = Ok (Some body).
Proof.
  intros Hk HEx Hexp Hpend Hs Hchk.
  destruct (stale_never_blocks s ev ids now HEx Hexp Hs) as (cands & Hrun & Hin).
  exists cands. split; [|exact Hin].
  unfold st_find_rules, do_find_rules. rewrite Hk, Hs, Hrun, (with_purge_nil s _ now Hpend).
  rewrite check_rules_ok; [reflexivity|].
  intros id body Hc. apply Hin in Hc. destruct Hc as (Hid & fact & Hl & He).
  destruct (candidate_is_stored s ev ids id HEx Hs Hid) as (fact' & rule' & Hl' & He' & Hsch).
  rewrite Hl in Hl'. injection Hl' as <-. rewrite He in He'. injection He' as <-.
  apply (Hchk id fact body Hl He Hsch).
Qed.

(** Dispatch from any state satisfying the invariant (not only reachable ones). *)
Theorem dispatch_exact_indexed_inv : forall s l ev now ids,
  Pidx s -> l_state l = s -> nothing_expired l now ->
  pi_search (st_pindex s) ev = Ok ids ->
  rules_in_fragment s ev -> rules_index_ok s -> bodies_checked s ->
  exists cands ch,
    st_find_rules s ev now = (s, Ok cands) /\
    find_children l cands ev now [] = (l, Ok ch) /\
    forall id bss, In (id, bss) ch <-> dispatch_spec l s ev now id bss.
Proof.
  intros s l ev now ids (Hk & HEx & HRi) Hls Hne Hs Hfrag Hidx Hchk.
  assert (Hexp : no_expired s now).
  { intros id fact Hl. apply (proj1 Hne id fact). rewrite Hls. exact Hl. }
  assert (Hpend : st_pending s = []) by (rewrite <- Hls; exact (proj2 Hne)).
  destruct (st_find_rules_indexed s ev now ids Hk HEx Hexp Hpend Hs Hchk) as (cands & Hfind & Hin).
  assert (Hcand : forall id body, In (id, body) cands ->
            exists fact, alookup id (st_facts s) = Some fact /\
                         extract_rule fact true = Ok (Some body) /\ is_scheduled body = false).
  { intros id body Hc. apply Hin in Hc. destruct Hc as (Hid & fact & Hl & He).
    destruct (candidate_is_stored s ev ids id HEx Hs Hid) as (fact' & rule' & Hl' & He' & Hsch).
    rewrite Hl in Hl'. injection Hl' as <-. rewrite He in He'. injection He' as <-.
    exists fact. repeat split; assumption. }
  destruct (find_children_spec l ev now Hne cands []) as (ch & Hrun & Hch).
  { intros id body Hc _. destruct (Hcand id body Hc) as (fact & Hl & He & Hsch).
    destruct (Hfrag id fact body Hl He Hsch) as (w & p & Hw & Hp & Hf).
    destruct (canonical_patterns body w p Hw Hp) as [_ Hwp].
    destruct (match_exact (JObj p) ev [] Hf) as (out & Hm & _).
    exists (JObj p), out. split; assumption. }
  exists cands, ch. split; [exact Hfind|]. split; [exact Hrun|].
  intros id bss. rewrite Hch. cbn [In]. unfold dispatch_spec. split.
  - intros [[]|(body & p & Hc & Hen & Hwp & Hm & Hne0)].
    destruct (Hcand id body Hc) as (fact & Hl & He & Hsch).
    exists fact, body, p. repeat split; assumption.
  - intros (fact & rule & p & Hl & He & Hsch & Hwp & Hen & Hm & Hne0).
    right. exists rule, p. split; [|repeat split; assumption].
    apply Hin. split; [|exists fact; split; assumption].
    destruct (Hfrag id fact rule Hl He Hsch) as (w & p' & Hw & Hp & Hf).
    destruct (canonical_patterns rule w p' Hw Hp) as [Hrp Hwp'].
    rewrite Hwp in Hwp'. injection Hwp' as ->.
    destruct (Hidx id fact rule w p' Hl He Hsch Hw Hp) as [Hnp Hao].
    destruct (fragment_wf _ _ _ Hf) as [Hwfp Hwfe].
    destruct (match_exact (JObj p') ev [] Hf) as (out & Hm' & Hout).
    rewrite Hm in Hm'. injection Hm' as <-.
    destruct bss as [|b bss]; [congruence|].
    assert (HE : Ext (JObj p') ev [] b) by (apply Hout; left; reflexivity).
    destruct HE as (_ & _ & _ & Hlay).
    apply (candidates_complete s ev ids id fact rule (JObj p') b); assumption.
Qed.

Theorem dispatch_exact_indexed : dispatch_exact_indexed_statement.
Proof.
  intros hooks fail ops l ev now ids s. apply dispatch_exact_indexed_inv. apply pidx_reachable.
Qed.

(** * Part 5: the linear state *)

(** the pattern the linear state matches: the "pattern" member of `when`,
    or the whole `when` map *)
Definition lin_pat (w : list (string * json)) : json :=
  match alookup "pattern" w with Some p => p | None => JObj w end.

(** the per-fact decision of [find_ids_lin] *)
Definition lin_sel (ev fact : json) : outcome (option json) :=
  match jget "rule" fact with
  | None => Ok None
  | Some (JObj rm) =>
      match alookup "when" rm with
      | Some (JObj w) =>
          match core_match (lin_pat w) ev [] with
          | Ok [] => Ok None
          | Ok _ => Ok (Some (JObj rm))
          | Err e => Err e
          | Panic w' => Panic w'
          | OutOfFuel => OutOfFuel
          end
      | _ => Ok None
      end
  | Some _ => Ok None
  end.

Lemma find_ids_lin_step s id r ev now acc fact :
  alookup id (st_facts s) = Some fact -> fact_expired fact now = false ->
  find_ids_lin s (id :: r) ev now acc =
  match lin_sel ev fact with
  | Ok None => find_ids_lin s r ev now acc
  | Ok (Some b) => find_ids_lin s r ev now ((id, b) :: acc)
  | Err e => (s, Err e)
  | Panic w => (s, Panic w)
  | OutOfFuel => (s, OutOfFuel)
  end.
Proof.
  intros Hl Hx. cbn [find_ids_lin]. rewrite Hl. unfold lin_sel.
  destruct (jget "rule" fact) as [rule|]; [|reflexivity].
  rewrite (expire_noexp _ _ _ _ Hx).
  destruct rule as [| | | | |rm]; try reflexivity.
  destruct (alookup "when" rm) as [[| | | | |w]|]; try reflexivity.
  unfold lin_pat. destruct (core_match _ ev []) as [[|b bss]| | |]; reflexivity.
Qed.

Lemma find_ids_lin_noexp s ev now :
  no_expired s now ->
  (forall id fact, alookup id (st_facts s) = Some fact -> exists o, lin_sel ev fact = Ok o) ->
  forall ids acc,
    exists l, find_ids_lin s ids ev now acc = (s, Ok l) /\
      forall id body, In (id, body) l <->
        In (id, body) acc \/
        (In id ids /\ exists fact, alookup id (st_facts s) = Some fact /\
                                   lin_sel ev fact = Ok (Some body)).
Proof.
  intros Hexp Hsel. induction ids as [|i r IH]; intros acc.
  - exists (rev acc). split; [reflexivity|]. intros id body. rewrite <- in_rev.
    split; [intros H; left; exact H|intros [H|[[] _]]; exact H].
  - destruct (alookup i (st_facts s)) as [fact|] eqn:Hl.
    + rewrite (find_ids_lin_step s i r ev now acc fact Hl (Hexp i fact Hl)).
      destruct (Hsel i fact Hl) as (o & Ho). rewrite Ho. destruct o as [b|].
      * destruct (IH ((i, b) :: acc)) as (l & Hrun & Hin). exists l. split; [exact Hrun|].
        intros id body. rewrite Hin. cbn [In]. split.
        -- intros [[E|H]|(H1 & H2)].
           ++ injection E as <- <-. right. split; [left; reflexivity|]. exists fact. split; assumption.
           ++ left; exact H.
           ++ right. split; [right; exact H1|exact H2].
        -- intros [H|([<-|H1] & fact' & H2 & H3)].
           ++ left; right; exact H.
           ++ rewrite Hl in H2. injection H2 as <-. rewrite Ho in H3. injection H3 as <-.
              left; left; reflexivity.
           ++ right. split; [exact H1|]. exists fact'. split; assumption.
      * destruct (IH acc) as (l & Hrun & Hin). exists l. split; [exact Hrun|].
        intros id body. rewrite Hin. cbn [In]. split.
        -- intros [H|(H1 & H2)]; [left; exact H|right]. split; [right; exact H1|exact H2].
        -- intros [H|([<-|H1] & fact' & H2 & H3)].
           ++ left; exact H.
           ++ rewrite Hl in H2. injection H2 as <-. rewrite Ho in H3. discriminate.
           ++ right. split; [exact H1|]. exists fact'. split; assumption.
    + cbn [find_ids_lin]. rewrite Hl.
      destruct (IH acc) as (l & Hrun & Hin). exists l. split; [exact Hrun|].
      intros id body. rewrite Hin. cbn [In]. split.
      * intros [H|(H1 & H2)]; [left; exact H|right]. split; [right; exact H1|exact H2].
      * intros [H|([<-|H1] & fact' & H2 & H3)].
        -- left; exact H.
        -- rewrite Hl in H2. discriminate.
        -- right. split; [exact H1|]. exists fact'. split; assumption.
Qed.

(** the body [extract_rule] builds differs from the raw rule at most at "expires" *)
Lemma extract_rule_raw fact rule :
  extract_rule fact true = Ok (Some rule) <->
  exists rm rm', jget "rule" fact = Some (JObj rm) /\ rule = JObj rm' /\
                 rm' = match jget "expires" fact with Some e => ainsert "expires" e rm | None => rm end.
Proof.
  unfold extract_rule. destruct (jget "rule" fact) as [[| | | | |rm]|]; split;
    try discriminate; try (intros (rm0 & rm' & H & _); discriminate).
  - intros H. injection H as <-. exists rm. eexists. split; [reflexivity|]. split; reflexivity.
  - intros (rm0 & rm' & H & -> & ->). injection H as <-. reflexivity.
Qed.

Lemma expires_other (fact : json) rm k :
  k <> "expires" ->
  alookup k (match jget "expires" fact with Some e => ainsert "expires" e rm | None => rm end) = alookup k rm.
Proof.
  intros Hk. destruct (jget "expires" fact); [|reflexivity]. apply alookup_ainsert_other. exact Hk.
Qed.

Lemma body_same_when (fact : json) rm :
  let rm' := match jget "expires" fact with Some e => ainsert "expires" e rm | None => rm end in
  jget "when" (JObj rm') = alookup "when" rm /\
  when_pattern (JObj rm') = when_pattern (JObj rm) /\
  is_scheduled (JObj rm') = is_scheduled (JObj rm).
Proof.
  cbv zeta. unfold when_pattern, is_scheduled. cbn [jget].
  rewrite !expires_other by discriminate. repeat split; reflexivity.
Qed.

Theorem dispatch_exact_linear : dispatch_exact_linear_statement.
Proof.
  intros s l ev now Hk Hls Hne Hfrag Hchk Hsw.
  assert (Hexp : no_expired s now).
  { intros id fact Hl. apply (proj1 Hne id fact). rewrite Hls. exact Hl. }
  (* every stored rule with a `when` map is non-scheduled, canonical and in the fragment *)
  assert (Hwhen : forall id fact rm w,
            alookup id (st_facts s) = Some fact -> jget "rule" fact = Some (JObj rm) ->
            alookup "when" rm = Some (JObj w) ->
            is_scheduled (JObj rm) = false /\
            exists p, alookup "pattern" w = Some (JObj p) /\ fragment (JObj p) ev [] = true).
  { intros id fact rm w Hl Hr Hw.
    assert (Hsch : is_scheduled (JObj rm) = false).
    { destruct (is_scheduled (JObj rm)) eqn:E; [|reflexivity].
      exfalso. apply (Hsw id fact rm Hl Hr E w Hw). }
    split; [exact Hsch|].
    destruct (body_same_when fact rm) as (Hjw & _ & Hs').
    set (rm' := match jget "expires" fact with Some e => ainsert "expires" e rm | None => rm end) in *.
    assert (He : extract_rule fact true = Ok (Some (JObj rm'))).
    { apply extract_rule_raw. exists rm, rm'. repeat split; [exact Hr]. }
    destruct (Hfrag id fact (JObj rm') Hl He) as (w' & p & Hw' & Hp & Hf); [congruence|].
    rewrite Hjw, Hw in Hw'. injection Hw' as <-. exists p. split; assumption. }
  assert (Hsel : forall id fact, alookup id (st_facts s) = Some fact -> exists o, lin_sel ev fact = Ok o).
  { intros id fact Hl. unfold lin_sel.
    destruct (jget "rule" fact) as [[| | | | |rm]|] eqn:Hr; try (eexists; reflexivity).
    destruct (alookup "when" rm) as [[| | | | |w]|] eqn:Hw; try (eexists; reflexivity).
    destruct (Hwhen id fact rm w Hl Hr Hw) as (_ & p & Hp & Hf).
    unfold lin_pat. rewrite Hp.
    destruct (match_exact (JObj p) ev [] Hf) as (out & Hm & _). rewrite Hm.
    destruct out; eexists; reflexivity. }
  destruct (find_ids_lin_noexp s ev now Hexp Hsel (map fst (st_facts s)) []) as (cands & Hrun & Hin).
  (* what a candidate is *)
  assert (Hcand : forall id body, In (id, body) cands <->
            exists fact rm w p bss0,
              alookup id (st_facts s) = Some fact /\ jget "rule" fact = Some (JObj rm) /\
              body = JObj rm /\ alookup "when" rm = Some (JObj w) /\
              alookup "pattern" w = Some (JObj p) /\
              core_match (JObj p) ev [] = Ok bss0 /\ bss0 <> []).
  { intros id body. rewrite Hin. cbn [In]. split.
    - intros [[]|(Hid & fact & Hl & Hs)]. unfold lin_sel in Hs.
      destruct (jget "rule" fact) as [[| | | | |rm]|] eqn:Hr; try discriminate.
      destruct (alookup "when" rm) as [[| | | | |w]|] eqn:Hw; try discriminate.
      destruct (Hwhen id fact rm w Hl Hr Hw) as (_ & p & Hp & Hf).
      unfold lin_pat in Hs. rewrite Hp in Hs.
      destruct (core_match (JObj p) ev []) as [[|b0 bss0]| | |] eqn:Hm; try discriminate.
      injection Hs as <-. exists fact, rm, w, p, (b0 :: bss0).
      repeat split; try assumption; try reflexivity. discriminate.
    - intros (fact & rm & w & p & bss0 & Hl & Hr & -> & Hw & Hp & Hm & Hn).
      right. split; [eapply alookup_In_keys; exact Hl|]. exists fact. split; [exact Hl|].
      unfold lin_sel. rewrite Hr, Hw. unfold lin_pat. rewrite Hp, Hm.
      destruct bss0; [congruence|reflexivity]. }
  assert (Hfind : st_find_rules s ev now = (s, Ok cands)).
  { assert (Hpend : st_pending s = []) by (rewrite <- Hls; exact (proj2 Hne)).
    unfold st_find_rules, do_find_rules. rewrite Hk, Hrun, (with_purge_nil s _ now Hpend).
    rewrite check_rules_ok; [reflexivity|].
    intros id body Hc. apply Hcand in Hc.
    destruct Hc as (fact & rm & w & p & bss0 & Hl & Hr & -> & Hw & _).
    destruct (Hwhen id fact rm w Hl Hr Hw) as (Hsch & _).
    apply (Hchk id fact rm Hl Hr Hsch). }
  destruct (find_children_spec l ev now Hne cands []) as (ch & Hrunc & Hch).
  { intros id body Hc _. apply Hcand in Hc.
    destruct Hc as (fact & rm & w & p & bss0 & Hl & Hr & -> & Hw & Hp & Hm & _).
    exists (JObj p), bss0. split; [|exact Hm].
    apply (canonical_patterns (JObj rm) w p); [exact Hw|exact Hp]. }
  exists cands, ch. split; [exact Hfind|]. split; [exact Hrunc|].
  intros id bss. rewrite Hch. cbn [In]. unfold dispatch_spec. split.
  - intros [[]|(body & p0 & Hc & Hen & Hwp & Hm0 & Hne0)].
    apply Hcand in Hc. destruct Hc as (fact & rm & w & p & bss0 & Hl & Hr & -> & Hw & Hp & Hm & Hn).
    destruct (Hwhen id fact rm w Hl Hr Hw) as (Hsch & _).
    destruct (body_same_when fact rm) as (_ & Hwp' & Hs').
    set (rm' := match jget "expires" fact with Some e => ainsert "expires" e rm | None => rm end) in *.
    exists fact, (JObj rm'), p0.
    split; [exact Hl|]. split; [apply extract_rule_raw; exists rm, rm'; repeat split; exact Hr|].
    split; [congruence|]. split; [congruence|]. repeat split; assumption.
  - intros (fact & rule & p0 & Hl & He & Hsch & Hwp & Hen & Hm & Hne0).
    destruct (Hfrag id fact rule Hl He Hsch) as (w & p & Hw & Hp & Hf).
    destruct (canonical_patterns rule w p Hw Hp) as [_ Hwp'].
    rewrite Hwp in Hwp'. injection Hwp' as ->.
    apply extract_rule_raw in He. destruct He as (rm & rm' & Hr & -> & Erm').
    destruct (body_same_when fact rm) as (Hjw & Hwp2 & _). rewrite <- Erm' in Hjw, Hwp2.
    rewrite Hjw in Hw.
    right. exists (JObj rm), (JObj p). split.
    + apply Hcand. exists fact, rm, w, p, bss. repeat split; assumption.
    + split; [exact Hen|]. split; [congruence|]. split; assumption.
Qed.

(** ** Indexed and linear dispatch agree *)

Lemma st_get_snd_lin s id now :
  no_expired s now -> st_pending s = [] ->
  snd (st_get (as_linear s) id now) = snd (st_get s id now).
Proof.
  intros Hexp Hpend. unfold st_get, get_body. cbn [as_linear st_facts].
  destruct (alookup id (st_facts s)) as [fact|] eqn:Hl.
  - rewrite !(expire_false _ id fact now (Hexp id fact Hl)).
    rewrite (with_purge_nil s _ now Hpend), (with_purge_nil (as_linear s) _ now Hpend). reflexivity.
  - rewrite (with_purge_nil s _ now Hpend), (with_purge_nil (as_linear s) _ now Hpend). reflexivity.
Qed.

Lemma get_prop_snd l l' id prop now :
  snd (st_get (l_state l') (String.append "!" (String.append id (String.append "." prop))) now) =
  snd (st_get (l_state l) (String.append "!" (String.append id (String.append "." prop))) now) ->
  snd (get_prop l' id prop now) = snd (get_prop l id prop now).
Proof.
  unfold get_prop. intros H.
  destruct (st_get (l_state l) _ now) as [s1 o1].
  destruct (st_get (l_state l') _ now) as [s2 o2].
  cbn [snd] in H. subst o2. destruct o1; reflexivity.
Qed.

Lemma enabled_snd l now :
  snd (enabled l now) =
  (let e := match snd (get_prop l "" "enabled" now) with Some (JStr s) => s | _ => "" end in
   String.eqb e "" || String.eqb e "yes" || String.eqb e "true").
Proof.
  unfold enabled, get_prop_string. destruct (get_prop l "" "enabled" now) as [l1 o]. cbn [snd].
  destruct o as [[| | |s| |]|]; reflexivity.
Qed.

Lemma rule_enabled_snd l id now :
  nothing_expired l now ->
  snd (rule_enabled l id now) =
  (if negb (snd (enabled l now)) then false
   else match snd (get_prop l id "disabled" now) with Some (JBool d) => negb d | _ => true end).
Proof.
  intros Hne. unfold rule_enabled. pose proof (enabled_noexp l now Hne) as He.
  destruct (enabled l now) as [l1 en]. cbn [fst snd] in *. subst l1.
  destruct (negb en); [reflexivity|].
  destruct (get_prop l id "disabled" now) as [l2 o]. cbn [snd].
  destruct o as [[| b | | | |]|]; reflexivity.
Qed.

Lemma nothing_expired_lin l s now :
  l_state l = s -> nothing_expired l now -> nothing_expired (with_state l (as_linear s)) now.
Proof.
  intros Hls [Hne Hp]. split.
  - intros id fact Hl. apply (Hne id fact). rewrite Hls. exact Hl.
  - cbn [with_state l_state as_linear st_pending]. rewrite <- Hls. exact Hp.
Qed.

Lemma rule_enabled_lin l s id now :
  l_state l = s -> nothing_expired l now ->
  snd (rule_enabled (with_state l (as_linear s)) id now) = snd (rule_enabled l id now).
Proof.
  intros Hls Hne.
  pose proof (nothing_expired_lin l s now Hls Hne) as Hne'.
  assert (Hexp : no_expired s now).
  { intros i fact Hl. apply (proj1 Hne i fact). rewrite Hls. exact Hl. }
  assert (Hg : forall i prop, snd (get_prop (with_state l (as_linear s)) i prop now) = snd (get_prop l i prop now)).
  { intros i prop. apply get_prop_snd. cbn [with_state l_state]. rewrite Hls. apply st_get_snd_lin; [exact Hexp|]. rewrite <- Hls. exact (proj2 Hne). }
  rewrite (rule_enabled_snd _ id now Hne'), (rule_enabled_snd l id now Hne).
  rewrite !enabled_snd, !Hg. reflexivity.
Qed.

Theorem idx_lin_dispatch_agree_inv : forall s l ev now ids,
  Pidx s -> l_state l = s -> nothing_expired l now ->
  pi_search (st_pindex s) ev = Ok ids ->
  rules_in_fragment s ev -> rules_index_ok s -> bodies_checked s ->
  raw_bodies_checked s -> scheduled_have_no_when s ->
  exists c1 ch1 c2 ch2,
    st_find_rules s ev now = (s, Ok c1) /\
    find_children l c1 ev now [] = (l, Ok ch1) /\
    st_find_rules (as_linear s) ev now = (as_linear s, Ok c2) /\
    find_children (with_state l (as_linear s)) c2 ev now [] = (with_state l (as_linear s), Ok ch2) /\
    (forall x, In x ch1 <-> In x ch2) /\
    forall id bss, In (id, bss) ch1 <-> dispatch_spec l s ev now id bss.
Proof.
  intros s l ev now ids HP Hls Hne Hs Hfrag Hidx Hchk Hraw Hsw.
  destruct (dispatch_exact_indexed_inv s l ev now ids HP Hls Hne Hs Hfrag Hidx Hchk)
    as (c1 & ch1 & Hf1 & Hc1 & H1).
  destruct (dispatch_exact_linear (as_linear s) (with_state l (as_linear s)) ev now eq_refl eq_refl
              (nothing_expired_lin l s now Hls Hne) Hfrag Hraw Hsw)
    as (c2 & ch2 & Hf2 & Hc2 & H2).
  exists c1, ch1, c2, ch2. repeat (split; [assumption|]). split; [|exact H1].
  intros [id bss]. rewrite H1, H2. unfold dispatch_spec. cbn [as_linear st_facts].
  rewrite (rule_enabled_lin l s id now Hls Hne). reflexivity.
Qed.

Theorem idx_lin_dispatch_agree : idx_lin_dispatch_agree_statement.
Proof.
  intros hooks fail ops l ev now ids s Hls Hne Hs Hfrag Hidx Hchk Hraw Hsw.
  destruct (dispatch_exact_indexed_inv s l ev now ids (pidx_reachable hooks fail ops) Hls Hne Hs Hfrag Hidx Hchk)
    as (c1 & ch1 & Hf1 & Hc1 & H1).
  destruct (dispatch_exact_linear (as_linear s) (with_state l (as_linear s)) ev now eq_refl eq_refl
              (nothing_expired_lin l s now Hls Hne) Hfrag Hraw Hsw)
    as (c2 & ch2 & Hf2 & Hc2 & H2).
  exists c1, ch1, c2, ch2. repeat (split; [assumption|]).
  intros [id bss]. rewrite H1, H2. unfold dispatch_spec. cbn [as_linear st_facts].
  rewrite (rule_enabled_lin l s id now Hls Hne). reflexivity.
Qed.

(** * Part 6: removed / overwritten rules *)

(** ** A successful removal leaves no fact under the id (either kind) *)

Section RemGone.
  Variable id0 : string.
  Definition gone (s : state) : Prop := alookup id0 (st_facts s) = None.

  Lemma gone_ext s s' : st_facts s' = st_facts s -> gone s -> gone s'.
  Proof. unfold gone. intros ->. auto. Qed.

  Lemma gone_aremove s k : gone s -> gone (set_facts s (aremove k (st_facts s))).
  Proof.
    unfold gone. cbn [st_facts set_facts]. intros H. rewrite alookup_aremove.
    destruct (String.eqb id0 k); [reflexivity|exact H].
  Qed.

  Variable rem_rec : state -> string -> Z -> state * outcome bool.
  Hypothesis rem_rec_gone : forall s j now, gone s -> gone (fst (rem_rec s j now)).

  Lemma gone_set_pending s p : gone s -> gone (set_pending s p).
  Proof. apply gone_ext; reflexivity. Qed.

  Lemma expire_gone s j fact now : gone s -> gone (fst (expire s j fact now)).
  Proof.
    intros HG. unfold expire. destruct (fact_expired fact now); [|exact HG].
    apply gone_set_pending; exact HG.
  Qed.

  Lemma search_ids_gone ids : forall s pattern now acc,
    gone s -> gone (fst (search_ids s ids pattern now acc)).
  Proof.
    induction ids as [|j r IH]; intros s pattern now acc HG; cbn [search_ids].
    - exact HG.
    - destruct (alookup j (st_facts s)) as [fact|]; [|apply IH; exact HG].
      pose proof (expire_gone s j fact now HG) as H.
      destruct (expire s j fact now) as [s1 expired]. cbn [fst] in H.
      destruct expired; [apply IH; exact H|].
      destruct (core_match pattern fact []) as [[|b bss]|e|w|]; try exact H; apply IH; exact H.
  Qed.

  Lemma search_state_gone s pattern now :
    gone s -> gone (fst (search_state s pattern now)).
  Proof.
    intros HG. unfold search_state. destruct (st_kind s).
    - destruct (ti_search (st_tindex s) (extract_terms pattern)); try exact HG.
      apply search_ids_gone; exact HG.
    - apply search_ids_gone; exact HG.
  Qed.

  Lemma rem_list_gone ids : forall s skip now,
    gone s -> gone (fst (rem_list rem_rec s ids skip now)).
  Proof.
    induction ids as [|j r IH]; intros s skip now HG; cbn [rem_list].
    - exact HG.
    - destruct (skipped skip j); [apply IH; exact HG|].
      pose proof (rem_rec_gone s j now HG) as H.
      destruct (rem_rec s j now) as [s1 [b|e|w|]]; cbn [fst] in *; try exact H.
      apply IH; exact H.
  Qed.

  Lemma delete_dependencies_gone s j now :
    gone s -> gone (fst (delete_dependencies rem_rec s j now)).
  Proof.
    intros HG. unfold delete_dependencies.
    pose proof (search_state_gone s (dw_pattern j) now HG) as H.
    destruct (search_state s (dw_pattern j) now) as [s1 [found|e|w|]]; cbn [fst] in *; try exact H.
    apply rem_list_gone; exact H.
  Qed.

  (** [rem_body] on any id keeps [gone]; on [id0] itself it establishes it
      whenever it does not fail. *)
  Lemma rem_body_gone s j now :
    (gone s \/ (j = id0 /\ exists b, snd (rem_body rem_rec s j now) = Ok b)) ->
    gone (fst (rem_body rem_rec s j now)).
  Proof.
    unfold rem_body. intros HG.
    destruct (st_kind s).
    - destruct (alookup j (st_facts s)) as [fact|] eqn:El.
      + set (s1 := match extract_rule fact false with
                   | Ok (Some rule) => unindex_rule s j rule
                   | _ => s
                   end) in *.
        assert (H1f : st_facts s1 = st_facts s).
        { subst s1. destruct (extract_rule fact false) as [[rule|]| | |]; try reflexivity.
          apply unindex_rule_facts. }
        assert (H2 : gone (set_facts s1 (aremove j (st_facts s1)))).
        { destruct HG as [HG|[-> _]].
          - apply gone_aremove. apply (gone_ext s); assumption.
          - unfold gone. cbn [st_facts set_facts]. apply alookup_aremove_same. }
        cbv zeta in *.
        set (s2 := set_facts s1 (aremove j (st_facts s1))) in *.
        set (s3 := set_tindex s2 _) in *.
        assert (H3 : gone s3) by exact H2.
        destruct (store_call s3) as [s4 failed] eqn:Esc.
        assert (H4 : gone s4).
        { unfold store_call in Esc. injection Esc as <- _. exact H3. }
        destruct failed; [exact H4|].
        assert (H5 : gone (set_store s4 (aremove j (st_store s4)))) by exact H4.
        pose proof (delete_dependencies_gone _ j now H5) as H6.
        destruct (delete_dependencies rem_rec (set_store s4 (aremove j (st_store s4))) j now) as [s6 [u|e|w|]];
          exact H6.
      + assert (HG' : gone s).
        { destruct HG as [HG|[-> _]]; [exact HG|exact El]. }
        pose proof (delete_dependencies_gone _ j now HG') as H6.
        destruct (delete_dependencies rem_rec s j now) as [s6 [u|e|w|]]; exact H6.
    - destruct (store_call s) as [s1 failed] eqn:Esc.
      assert (H1f : st_facts s1 = st_facts s).
      { unfold store_call in Esc. injection Esc as <- _. reflexivity. }
      destruct failed.
      + destruct HG as [HG|[_ [b Hb]]]; [apply (gone_ext s); assumption|discriminate].
      + cbv zeta in *.
        set (s2 := set_store s1 (aremove j (st_store s1))) in *.
        assert (H3 : gone (set_facts s2 (aremove j (st_facts s2)))).
        { destruct HG as [HG|[-> _]].
          - apply gone_aremove. apply (gone_ext s); assumption.
          - unfold gone. cbn [st_facts set_facts]. apply alookup_aremove_same. }
        pose proof (delete_dependencies_gone _ j now H3) as H6.
        destruct (delete_dependencies rem_rec (set_facts s2 (aremove j (st_facts s2))) j now) as [s6 [u|e|w|]];
          exact H6.
  Qed.
End RemGone.

Lemma rem_fuel_gone_keep id0 fuel : forall s j now,
  gone id0 s -> gone id0 (fst (rem_fuel fuel s j now)).
Proof.
  induction fuel as [|f IH]; intros s j now HG; cbn [rem_fuel].
  - exact HG.
  - apply rem_body_gone; [exact IH|left; exact HG].
Qed.

Lemma st_rem_gone s id now s' b :
  st_rem s id now = (s', Ok b) -> alookup id (st_facts s') = None.
Proof.
  unfold st_rem. destruct (cascade_fuel s) as [|f]; cbn [rem_fuel]; [discriminate|].
  intros H.
  pose proof (rem_body_gone id (rem_fuel f) (rem_fuel_gone_keep id f) s id now) as HG.
  rewrite H in HG. cbn [fst snd] in HG. apply HG. right. split; [reflexivity|]. exists b. reflexivity.
Qed.

Lemma st_rem_gone_keep id0 s j now : gone id0 s -> gone id0 (fst (st_rem s j now)).
Proof. apply rem_fuel_gone_keep. Qed.

(** a public operation that answers [Ok] got this answer from the operation proper *)
Lemma with_purge_ok {A} (r : state * outcome A) now s' a :
  with_purge r now = (s', Ok a) -> snd r = Ok a /\ s' = fst (purge (fst r) now).
Proof.
  unfold with_purge. intros H. injection H as Hs Ho. split; [|symmetry; exact Hs].
  destruct (snd r) as [a0|e|w|]; try discriminate;
    destruct (snd (purge (fst r) now)); try discriminate; exact Ho.
Qed.

Lemma st_Rem_gone s id now s' b :
  st_Rem s id now = (s', Ok b) -> alookup id (st_facts s') = None.
Proof.
  unfold st_Rem. intros H. apply with_purge_ok in H. destruct H as [Ho ->].
  apply (purge_inv (gone id) (gone_set_pending id) (st_rem_gone_keep id)).
  destruct (st_hooks s).
  - destruct (st_get s id now) as [s1 [f|e|w|]]; try discriminate.
    destruct (st_rem s1 id now) as [s2 o] eqn:E. cbn [fst snd] in *. subst o.
    apply (st_rem_gone _ _ _ _ _ E).
  - destruct (st_rem s id now) as [s2 o] eqn:E. cbn [fst snd] in *. subst o.
    apply (st_rem_gone _ _ _ _ _ E).
Qed.

(** After [st_Rem id] succeeds, the trie holds no entry for [id] (under any
    path, in particular not under the path of the rule's former pattern), the
    id is not a candidate and is not dispatched, whatever the event. *)
Theorem removed_rule_never_dispatched : forall s id now b s' l' ev now' ids,
  Pidx s -> st_Rem s id now = (s', Ok b) ->
  l_state l' = s' -> nothing_expired l' now' ->
  pi_search (st_pindex s') ev = Ok ids ->
  rules_in_fragment s' ev -> rules_index_ok s' -> bodies_checked s' ->
  (forall π, ~ tr_has (st_pindex s') π id) /\ ~ In id ids /\
  exists cands ch,
    st_find_rules s' ev now' = (s', Ok cands) /\
    find_children l' cands ev now' [] = (l', Ok ch) /\
    (forall body, ~ In (id, body) cands) /\ (forall bss, ~ In (id, bss) ch).
Proof.
  intros s id now b s' l' ev now' ids HP HR Hls Hne Hs Hfrag Hidx Hchk.
  pose proof (Pidx_st_Rem s id now HP) as HP'. rewrite HR in HP'. cbn [fst] in HP'.
  pose proof (st_Rem_gone _ _ _ _ _ HR) as Hgone.
  assert (Htr : forall π, ~ tr_has (st_pindex s') π id).
  { intros π Ht. apply HP' in Ht. destruct Ht as (fact & _ & _ & Hl & _). congruence. }
  assert (Hids : ~ In id ids).
  { intros Hid. destruct (psearch_only_stored _ _ _ _ Hs Hid) as (π & Ht). apply (Htr π Ht). }
  split; [exact Htr|]. split; [exact Hids|].
  assert (Hexp : no_expired s' now').
  { intros i fact Hl. apply (proj1 Hne i fact). rewrite Hls. exact Hl. }
  destruct HP' as (Hk & HEx & HRi).
  assert (Hpend : st_pending s' = []) by (rewrite <- Hls; exact (proj2 Hne)).
  destruct (st_find_rules_indexed s' ev now' ids Hk HEx Hexp Hpend Hs Hchk) as (cands0 & Hfind0 & Hin0).
  destruct (dispatch_exact_indexed_inv s' l' ev now' ids (conj Hk (conj HEx HRi)) Hls Hne Hs Hfrag Hidx Hchk)
    as (cands & ch & Hfind & Hrun & Hch).
  exists cands, ch. split; [exact Hfind|]. split; [exact Hrun|]. split.
  - intros body Hc. rewrite Hfind0 in Hfind. injection Hfind as <-.
    apply Hin0 in Hc. destruct Hc as [Hid _]. contradiction.
  - intros bss Hc. apply Hch in Hc. destruct Hc as (fact & _ & _ & Hl & _). congruence.
Qed.

(** After [st_add] stores a new fact under [id] (a plain fact, or a rule with
    another `when`), the trie holds [id] only under the path of the NEW rule's
    pattern, and [id] is dispatched only if the NEW fact is a non-scheduled
    rule whose own `when` pattern matches the event. *)
Theorem overwritten_rule_never_dispatched : forall s given x now fresh aux s' id l' ev now' ids,
  Pidx s -> st_wf s -> st_add s given x now fresh aux = (s', Ok id) ->
  l_state l' = s' -> nothing_expired l' now' ->
  pi_search (st_pindex s') ev = Ok ids ->
  rules_in_fragment s' ev -> rules_index_ok s' -> bodies_checked s' ->
  exists fact, prepare_fact given x now fresh aux = Ok (id, fact) /\
               alookup id (st_facts s') = Some fact /\
    (forall π, tr_has (st_pindex s') π id ->
       exists rule p, extract_rule fact false = Ok (Some rule) /\ is_scheduled rule = false /\
                      rule_patterns rule = Some p /\ pattern_path p = Some π) /\
    exists cands ch,
      st_find_rules s' ev now' = (s', Ok cands) /\
      find_children l' cands ev now' [] = (l', Ok ch) /\
      forall bss, In (id, bss) ch <->
        exists rule p, extract_rule fact true = Ok (Some rule) /\ is_scheduled rule = false /\
                       when_pattern rule = Some p /\ snd (rule_enabled l' id now') = true /\
                       core_match p ev [] = Ok bss /\ bss <> [].
Proof.
  intros s given x now fresh aux s' id l' ev now' ids HP Hwf HA Hls Hne Hs Hfrag Hidx Hchk.
  pose proof (Pidx_st_add s given x now fresh aux HP) as HP'. rewrite HA in HP'. cbn [fst] in HP'.
  destruct (add_visible s given x now fresh aux s' id Hwf HA) as (_ & fact & Hprep & Hl & _).
  exists fact. split; [exact Hprep|]. split; [exact Hl|]. split.
  - intros π Ht. apply HP' in Ht. destruct Ht as (fact' & rule & p & Hl' & He & Hsch & Hp & Hπ).
    rewrite Hl in Hl'. injection Hl' as <-. exists rule, p. repeat split; assumption.
  - destruct (dispatch_exact_indexed_inv s' l' ev now' ids HP' Hls Hne Hs Hfrag Hidx Hchk)
      as (cands & ch & Hfind & Hrun & Hch).
    exists cands, ch. split; [exact Hfind|]. split; [exact Hrun|].
    intros bss. rewrite Hch. unfold dispatch_spec. split.
    + intros (fact' & rule & p & Hl' & H). rewrite Hl in Hl'. injection Hl' as <-.
      exists rule, p. exact H.
    + intros (rule & p & H). exists fact, rule, p. split; [exact Hl|exact H].
Qed.

(** In particular: overwriting a rule by a plain fact (no "rule" member, or a
    non-map one) un-dispatches the id for every event. *)
Corollary overwritten_by_plain_fact_never_dispatched : forall s given x now fresh aux s' id l' ev now' ids fact,
  Pidx s -> st_wf s -> st_add s given x now fresh aux = (s', Ok id) ->
  prepare_fact given x now fresh aux = Ok (id, fact) ->
  extract_rule fact false = Ok None ->
  l_state l' = s' -> nothing_expired l' now' ->
  pi_search (st_pindex s') ev = Ok ids ->
  rules_in_fragment s' ev -> rules_index_ok s' -> bodies_checked s' ->
  (forall π, ~ tr_has (st_pindex s') π id) /\
  exists cands ch,
    st_find_rules s' ev now' = (s', Ok cands) /\
    find_children l' cands ev now' [] = (l', Ok ch) /\
    forall bss, ~ In (id, bss) ch.
Proof.
  intros s given x now fresh aux s' id l' ev now' ids fact HP Hwf HA Hprep Hplain Hls Hne Hs Hfrag Hidx Hchk.
  destruct (overwritten_rule_never_dispatched s given x now fresh aux s' id l' ev now' ids
              HP Hwf HA Hls Hne Hs Hfrag Hidx Hchk) as (fact' & Hprep' & Hl & Htr & cands & ch & Hfind & Hrun & Hch).
  rewrite Hprep in Hprep'. injection Hprep' as <-.
  split.
  - intros π Ht. destruct (Htr π Ht) as (rule & p & He & _). congruence.
  - exists cands, ch. split; [exact Hfind|]. split; [exact Hrun|].
    intros bss Hc. apply Hch in Hc. destruct Hc as (rule & p & He & _).
    apply extract_rule_req in He. congruence.
Qed.

(** * Part 7: refutations (why the hypotheses are needed) *)

(** add one fact to an empty state of the given kind, then process an event:
    candidates and children *)
Definition cx_state (k : skind) (id : string) (fact : json) : state :=
  fst (st_add (empty_state k false) id fact 100 "fresh" None).

Definition cx_dispatch (k : skind) (id : string) (fact ev : json)
  : outcome (list (string * json)) * option (outcome (list (string * list bindings))) :=
  let s := cx_state k id fact in
  let '(s1, c) := st_find_rules s ev 100 in
  (c, match c with
      | Ok cands => Some (snd (find_children (mkLoc s1 false 1000) cands ev 100 []))
      | _ => None
      end).

(** A rule whose `when` has no "pattern" member is indexed under the whole
    `when` map ([rule_patterns]) but re-matched against the empty pattern
    ([when_pattern]): the indexed state dispatches it for an event its `when`
    map does not match, the linear state does not.  (Hence [canonical_when]
    in [rules_in_fragment].) *)
Definition cx1_body : json := JObj [("action", JObj [("code", JStr "x")]); ("when", JObj [("b", JArr [])])].
Definition cx1_fact : json := JObj [("rule", cx1_body)].
Definition cx1_ev : json := JObj [("a", JArr [JBool true])].

Lemma direct_when_matched_by_index_only_counterexample :
  st_facts (cx_state Indexed "r1" cx1_fact) = [("r1", cx1_fact)] /\
  st_facts (cx_state Linear "r1" cx1_fact) = [("r1", cx1_fact)] /\
  rule_patterns cx1_body = Some (JObj [("b", JArr [])]) /\
  when_pattern cx1_body = Some (JObj []) /\
  core_match (JObj [("b", JArr [])]) cx1_ev [] = Ok [] /\
  pi_search (st_pindex (cx_state Indexed "r1" cx1_fact)) cx1_ev = Ok ["r1"] /\
  cx_dispatch Indexed "r1" cx1_fact cx1_ev = (Ok [("r1", cx1_body)], Some (Ok [("r1", [[]])])) /\
  cx_dispatch Linear "r1" cx1_fact cx1_ev = (Ok [], Some (Ok [])).
Proof. vm_compute. repeat split; reflexivity. Qed.

(** A stored rule with a "schedule" member AND a `when` map (accepted by
    [st_add]; with a null or empty schedule also by [rule_from_map], which
    takes it for an ordinary event rule).  Before the repair of D59/D66 the
    indexed state looked at the PRESENCE of the member: such a rule was never
    indexed and never dispatched, while the linear state dispatched it.  Now a
    null or empty schedule is no schedule ([is_scheduled]) and both kinds
    dispatch the rule.  With a real schedule the indexed state does not index
    the rule and the linear state's RuleFromMap check refuses the candidate,
    which is skipped (before the repair of D53 the whole event failed): not
    dispatched by either.  ([scheduled_have_no_when] in the linear theorems
    keeps such rules out because nothing is assumed about their patterns.) *)
Definition cx2_body_of (sched : json) : json :=
  JObj [("action", JObj [("code", JStr "x")]); ("schedule", sched);
        ("when", JObj [("pattern", JObj [("a", JStr "1")])])].
Definition cx2_body (sched : string) : json := cx2_body_of (JStr sched).
Definition cx2_fact_of (sched : json) : json := JObj [("rule", cx2_body_of sched)].
Definition cx2_fact (sched : string) : json := cx2_fact_of (JStr sched).
Definition cx2_ev : json := JObj [("a", JStr "1")].

Example empty_schedule_dispatched_by_both_example :
  st_facts (cx_state Indexed "r2" (cx2_fact "")) = st_facts (cx_state Linear "r2" (cx2_fact "")) /\
  rule_from_map (cx2_body "") = Ok (cx2_body "") /\
  is_scheduled (cx2_body "") = false /\
  pi_search (st_pindex (cx_state Indexed "r2" (cx2_fact ""))) cx2_ev = Ok ["r2"] /\
  cx_dispatch Indexed "r2" (cx2_fact "") cx2_ev = (Ok [("r2", cx2_body "")], Some (Ok [("r2", [[]])])) /\
  cx_dispatch Linear "r2" (cx2_fact "") cx2_ev = (Ok [("r2", cx2_body "")], Some (Ok [("r2", [[]])])) /\
  (* a null schedule: the same *)
  rule_from_map (cx2_body_of JNull) = Ok (cx2_body_of JNull) /\
  cx_dispatch Indexed "r4" (cx2_fact_of JNull) cx2_ev = (Ok [("r4", cx2_body_of JNull)], Some (Ok [("r4", [[]])])) /\
  cx_dispatch Linear "r4" (cx2_fact_of JNull) cx2_ev = (Ok [("r4", cx2_body_of JNull)], Some (Ok [("r4", [[]])])) /\
  (* a real schedule: dispatched by neither *)
  is_scheduled (cx2_body "* * * * *") = true /\
  cx_dispatch Indexed "r3" (cx2_fact "* * * * *") cx2_ev = (Ok [], Some (Ok [])) /\
  cx_dispatch Linear "r3" (cx2_fact "* * * * *") cx2_ev = (Ok [], Some (Ok [])).
Proof. vm_compute. repeat split; reflexivity. Qed.

(** The second half of D66: a scheduled rule is not in the index, so nothing
    is looked for there when it leaves.  Its `when` may be something the index
    cannot sort (the array of two maps): the rule is stored (AddFact does not
    validate), replaced and removed like anything else. *)
Definition cx3_fact : json :=
  JObj [("rule", JObj [("action", JObj [("code", JStr "1")]); ("schedule", JStr "+1h");
                       ("when", JObj [("pattern", JObj [("a", JArr [JObj []; JObj []])])])])].

Example scheduled_unsortable_when_removable_example :
  snd (pi_add pn_empty (JObj [("a", JArr [JObj []; JObj []])]) "r") <> None /\
  snd (pi_rem pn_empty (JObj [("a", JArr [JObj []; JObj []])]) "r") <> None /\
  st_facts (cx_state Indexed "r" cx3_fact) = [("r", cx3_fact)] /\
  snd (st_add (cx_state Indexed "r" cx3_fact) "r" cx3_fact 101 "fresh" None) = Ok "r" /\
  snd (st_Rem (cx_state Indexed "r" cx3_fact) "r" 101) = Ok true /\
  st_facts (fst (st_Rem (cx_state Indexed "r" cx3_fact) "r" 101)) = [] /\
  st_pindex (fst (st_Rem (cx_state Indexed "r" cx3_fact) "r" 101)) = st_pindex (cx_state Indexed "r" cx3_fact).
Proof. vm_compute. repeat split; try reflexivity; discriminate. Qed.

(** ** The repair of D59/D66: a rule without a schedule is indexed when it is added *)

Lemma no_schedule_not_scheduled rule : no_schedule rule <-> is_scheduled rule = false.
Proof.
  unfold no_schedule, is_scheduled. split.
  - intros [H|[H|H]]; rewrite H; reflexivity.
  - destruct (jget "schedule" rule) as [[| | |sch| |]|]; try discriminate; auto.
    destruct (String.eqb_spec sch "") as [->|]; [auto|discriminate].
Qed.

Theorem unscheduled_rule_indexed_on_add : unscheduled_rule_indexed_on_add_statement.
Proof.
  intros hooks fail ops given x now fresh aux s' id s HA.
  pose proof (pidx_reachable hooks fail ops) as HP. fold s in HP.
  assert (Hwf : st_wf s) by (apply (idx_sup_reachable hooks fail ops)).
  pose proof (Pidx_st_add s given x now fresh aux HP) as HP'. rewrite HA in HP'. cbn [fst] in HP'.
  destruct (add_visible s given x now fresh aux s' id Hwf HA) as (_ & fact & Hprep & Hl & _).
  exists fact. split; [exact Hprep|]. split; [exact Hl|].
  intros rule He Hns. apply no_schedule_not_scheduled in Hns.
  destruct HP' as (Hk' & HEx' & HRi').
  assert (He0 : extract_rule fact false = Ok (Some rule)) by (apply extract_rule_req; exact He).
  split; [|split].
  - destruct (HRi' id fact rule Hl He0 Hns) as (p & π & Hp & Hπ).
    exists p, π. split; [exact Hp|]. split; [exact Hπ|].
    apply HEx'. exists fact, rule, p. repeat split; assumption.
  - intros p ev ids b Hp Hs Hwp Hwe Hnp Hao Hlay.
    apply (candidates_complete s' ev ids id fact rule p b); assumption.
  - intros l' ev now' ids Hls Hne Hs Hfrag Hidx Hchk Hraw Hsw.
    destruct (idx_lin_dispatch_agree_inv s' l' ev now' ids (conj Hk' (conj HEx' HRi')) Hls Hne Hs
                Hfrag Hidx Hchk Hraw Hsw) as (c1 & ch1 & c2 & ch2 & Hf1 & Hc1 & Hf2 & Hc2 & Hag & H1).
    exists c1, ch1, c2, ch2. repeat (split; [assumption|]).
    intros bss. rewrite H1. unfold dispatch_spec. split.
    + intros (fact' & rule' & p & Hl' & He' & _ & H). rewrite Hl in Hl'. injection Hl' as <-.
      rewrite He in He'. injection He' as <-. exists p. exact H.
    + intros (p & H). exists fact, rule, p. split; [exact Hl|]. split; [exact He|]. split; [exact Hns|exact H].
Qed.

(** * Part 8: reload, and the semantic reading of the characterisation *)

(** State.Load (rebuild from the storage) re-establishes the invariant. *)
Lemma load_idx_J pairs : forall s now, J s -> J (fst (load_idx s pairs now)).
Proof.
  induction pairs as [|[id x] r IH]; intros s now HJ; cbn [load_idx].
  - exact HJ.
  - destruct (prepare_fact id x now id None) as [[id' fact]|e|w|].
    + pose proof (st_add_mem_idx_J s id' fact HJ) as H1.
      destruct (st_add_mem_idx s id' fact) as [s1 [e|]]; cbn [fst] in *; [exact H1|].
      apply IH; exact H1.
    + destruct (String.eqb e "expired"); [|exact HJ].
      pose proof (J_store_call s HJ) as H1.
      destruct (store_call s) as [s1 failed]. cbn [fst] in H1.
      destruct failed; [exact H1|]. apply IH. apply J_set_store; exact H1.
    + exact HJ.
    + exact HJ.
Qed.

Theorem Pidx_st_load hooks store now : Pidx (fst (st_load Indexed hooks store now)).
Proof.
  apply Pidx_iff. unfold st_load.
  assert (H0 : J (set_store (empty_state Indexed hooks) store)).
  { apply J_set_store. apply (J_empty hooks None). }
  apply J_store_call in H0.
  destruct (store_call (set_store (empty_state Indexed hooks) store)) as [s1 failed]. cbn [fst] in H0.
  destruct failed; [exact H0|]. apply load_idx_J; exact H0.
Qed.

(** The rules dispatch must evaluate, semantically: stored, non-scheduled,
    enabled, and some assignment lays the `when` pattern over the event. *)
Definition matching_rule (l : loc) (s : state) (ev : json) (now : Z) (id : string) : Prop :=
  exists fact rule w p b,
    alookup id (st_facts s) = Some fact /\ extract_rule fact true = Ok (Some rule) /\
    is_scheduled rule = false /\
    jget "when" rule = Some (JObj w) /\ alookup "pattern" w = Some (JObj p) /\
    snd (rule_enabled l id now) = true /\ Ext (JObj p) ev [] b.

(** [dispatch_spec] read through [match_exact]: a rule is a child iff it is a
    matching rule, and its bindings are exactly the canonical assignments
    under which its pattern lays over the event. *)
Theorem dispatch_spec_semantic l s ev now :
  rules_in_fragment s ev ->
  (forall id, (exists bss, dispatch_spec l s ev now id bss) <-> matching_rule l s ev now id) /\
  (forall id bss, dispatch_spec l s ev now id bss ->
     exists fact rule w p,
       alookup id (st_facts s) = Some fact /\ extract_rule fact true = Ok (Some rule) /\
       jget "when" rule = Some (JObj w) /\ alookup "pattern" w = Some (JObj p) /\
       forall b, In b bss <-> Ext (JObj p) ev [] b).
Proof.
  intros Hfrag. split.
  - intros id. split.
    + intros (bss & fact & rule & p0 & Hl & He & Hsch & Hwp & Hen & Hm & Hne0).
      destruct (Hfrag id fact rule Hl He Hsch) as (w & p & Hw & Hp & Hf).
      destruct (canonical_patterns rule w p Hw Hp) as [_ Hwp'].
      rewrite Hwp in Hwp'. injection Hwp' as ->.
      destruct (match_exact (JObj p) ev [] Hf) as (out & Hm' & Hout).
      rewrite Hm in Hm'. injection Hm' as <-.
      destruct bss as [|b bss]; [congruence|].
      assert (HE : Ext (JObj p) ev [] b) by (apply Hout; left; reflexivity).
      exists fact, rule, w, p, b.
      split; [exact Hl|]. split; [exact He|]. split; [exact Hsch|]. split; [exact Hw|].
      split; [exact Hp|]. split; [exact Hen|exact HE].
    + intros (fact & rule & w & p & b & Hl & He & Hsch & Hw & Hp & Hen & HE).
      destruct (Hfrag id fact rule Hl He Hsch) as (w' & p' & Hw' & Hp' & Hf).
      rewrite Hw in Hw'. injection Hw' as <-. rewrite Hp in Hp'. injection Hp' as <-.
      destruct (canonical_patterns rule w p Hw Hp) as [_ Hwp].
      destruct (match_exact (JObj p) ev [] Hf) as (out & Hm & Hout).
      exists out, fact, rule, (JObj p).
      split; [exact Hl|]. split; [exact He|]. split; [exact Hsch|]. split; [exact Hwp|].
      split; [exact Hen|]. split; [exact Hm|].
      intros ->. apply Hout in HE. exact HE.
  - intros id bss (fact & rule & p0 & Hl & He & Hsch & Hwp & Hen & Hm & Hne0).
    destruct (Hfrag id fact rule Hl He Hsch) as (w & p & Hw & Hp & Hf).
    destruct (canonical_patterns rule w p Hw Hp) as [_ Hwp'].
    rewrite Hwp in Hwp'. injection Hwp' as ->.
    destruct (match_exact (JObj p) ev [] Hf) as (out & Hm' & Hout).
    rewrite Hm in Hm'. injection Hm' as <-.
    exists fact, rule, w, p.
    split; [exact Hl|]. split; [exact He|]. split; [exact Hw|]. split; [exact Hp|exact Hout].
Qed.

(** * Part 9: the hypotheses are decidable; a worked history *)

Definition rule_ok_b (ev fact : json) : bool :=
  match extract_rule fact true with
  | Ok (Some rule) =>
      is_scheduled rule ||
      match jget "when" rule with
      | Some (JObj w) =>
          match alookup "pattern" w with
          | Some (JObj p) =>
              fragment (JObj p) ev [] && no_propvar_keys (JObj p) && arrays_ok (JObj p) &&
              match rule_from_map rule with Ok _ => true | _ => false end
          | _ => false
          end
      | _ => false
      end
  | _ => true
  end.

Definition dispatch_hyps_b (s : state) (ev : json) : bool :=
  forallb (fun kv => rule_ok_b ev (snd kv)) (st_facts s).

Definition nothing_expired_b (l : loc) (now : Z) : bool :=
  forallb (fun kv => negb (fact_expired (snd kv) now)) (st_facts (l_state l)) &&
  match st_pending (l_state l) with [] => true | _ => false end.

Lemma nothing_expired_b_sound l now : nothing_expired_b l now = true -> nothing_expired l now.
Proof.
  unfold nothing_expired_b, nothing_expired. rewrite andb_true_iff, forallb_forall. intros [H Hp]. split.
  - intros id fact Hl.
    apply alookup_In in Hl. specialize (H _ Hl). cbn [snd] in H. apply negb_true_iff in H. exact H.
  - destruct (st_pending (l_state l)); [reflexivity|discriminate].
Qed.

Lemma dispatch_hyps_b_sound s ev :
  dispatch_hyps_b s ev = true ->
  rules_in_fragment s ev /\ rules_index_ok s /\ bodies_checked s.
Proof.
  unfold dispatch_hyps_b. rewrite forallb_forall. intros H.
  assert (Hone : forall id fact rule,
            alookup id (st_facts s) = Some fact -> extract_rule fact true = Ok (Some rule) ->
            is_scheduled rule = false ->
            exists w p, jget "when" rule = Some (JObj w) /\ alookup "pattern" w = Some (JObj p) /\
                        fragment (JObj p) ev [] = true /\ no_propvar_keys (JObj p) = true /\
                        arrays_ok (JObj p) = true /\ exists r, rule_from_map rule = Ok r).
  { intros id fact rule Hl He Hs. apply alookup_In in Hl. specialize (H _ Hl). cbn [snd] in H.
    unfold rule_ok_b in H. rewrite He, Hs in H. cbn [orb] in H.
    destruct (jget "when" rule) as [[| | | | |w]|] eqn:Hw; try discriminate.
    destruct (alookup "pattern" w) as [[| | | | |p]|] eqn:Hp; try discriminate.
    apply andb_true_iff in H. destruct H as [H H4].
    apply andb_true_iff in H. destruct H as [H H3].
    apply andb_true_iff in H. destruct H as [H1 H2].
    exists w, p. repeat (split; [first [reflexivity|assumption]|]).
    destruct (rule_from_map rule) as [r| | |]; try discriminate. exists r. reflexivity. }
  split; [|split].
  - intros id fact rule Hl He Hs.
    destruct (Hone id fact rule Hl He Hs) as (w & p & Hw & Hp & Hf & _).
    exists w, p. repeat split; assumption.
  - intros id fact rule w p Hl He Hs Hw Hp.
    destruct (Hone id fact rule Hl He Hs) as (w' & p' & Hw' & Hp' & _ & Hn & Ha & _).
    rewrite Hw in Hw'. injection Hw' as <-. rewrite Hp in Hp'. injection Hp' as <-.
    split; assumption.
  - intros id fact rule Hl He Hs.
    destruct (Hone id fact rule Hl He Hs) as (w & p & _ & _ & _ & _ & _ & Hr). exact Hr.
Qed.

(** A history with a rule overwritten by a rule with another `when` (r1), a
    removed rule (r3), a rule overwritten by a plain fact (r4): the hypotheses
    of [dispatch_exact_indexed] hold, and the children are r2 and r5 only. *)
Definition ex_rule (k v : string) : json :=
  JObj [("rule", JObj [("action", JObj [("code", JStr "x")]); ("when", JObj [("pattern", JObj [(k, JStr v)])])])].

Definition ex_ops : list (sop * Z) :=
  [(SAdd "r1" (ex_rule "a" "?x") "f1" None, 10);
   (SAdd "r1" (ex_rule "b" "?y") "f2" None, 11);
   (SAdd "r2" (ex_rule "a" "1") "f3" None, 12);
   (SAdd "r3" (ex_rule "a" "?z") "f4" None, 13);
   (SRem "r3", 14);
   (SAdd "r4" (ex_rule "a" "?x") "f5" None, 15);
   (SAdd "r4" (JObj [("a", JStr "1")]) "f6" None, 16);
   (SAdd "r5" (ex_rule "a" "?w") "f7" None, 17)].

Definition ex_s : state := reachable Indexed false None ex_ops.
Definition ex_l : loc := mkLoc ex_s false 1000.
Definition ex_ev : json := JObj [("a", JStr "1")].

Definition ex_body (k v : string) : json :=
  JObj [("action", JObj [("code", JStr "x")]); ("when", JObj [("pattern", JObj [(k, JStr v)])])].
Definition ex_cands : list (string * json) := [("r2", ex_body "a" "1"); ("r5", ex_body "a" "?w")].

Lemma dispatch_example :
  forall id bss,
    dispatch_spec ex_l ex_s ex_ev 20 id bss <->
    (id, bss) = ("r2", [[]]) \/ (id, bss) = ("r5", [[("?w", JStr "1")]]).
Proof.
  destruct (dispatch_hyps_b_sound ex_s ex_ev) as (Hfrag & Hidx & Hchk); [vm_compute; reflexivity|].
  assert (Hne : nothing_expired ex_l 20) by (apply nothing_expired_b_sound; vm_compute; reflexivity).
  assert (Hls : l_state ex_l = ex_s) by (unfold ex_l; cbn [l_state]; reflexivity).
  assert (Hs : pi_search (st_pindex ex_s) ex_ev = Ok ["r2"; "r5"]) by (vm_compute; reflexivity).
  destruct (dispatch_exact_indexed_inv ex_s ex_l ex_ev 20 ["r2"; "r5"]
              (pidx_reachable false None ex_ops) Hls Hne Hs Hfrag Hidx Hchk)
    as (cands & ch & Hfind & Hrun & Hch).
  assert (C1 : snd (st_find_rules ex_s ex_ev 20) = Ok ex_cands) by (vm_compute; reflexivity).
  rewrite Hfind in C1. cbn [snd] in C1. injection C1 as ->.
  assert (C2 : snd (find_children ex_l ex_cands ex_ev 20 []) =
               Ok [("r2", [[]]); ("r5", [[("?w", JStr "1")]])]) by (vm_compute; reflexivity).
  rewrite Hrun in C2. cbn [snd] in C2. injection C2 as ->.
  intros id bss. rewrite <- Hch. cbn [In]. intuition congruence.
Qed.

Print Assumptions pidx_reachable.
Print Assumptions pidx_exact_reachable.
Print Assumptions rules_indexable_reachable.
Print Assumptions stored_rule_indexed.
Print Assumptions stale_never_blocks.
Print Assumptions candidates_complete.
Print Assumptions find_children_spec.
Print Assumptions dispatch_exact_indexed_inv.
Print Assumptions dispatch_exact_indexed.
Print Assumptions dispatch_exact_linear.
Print Assumptions idx_lin_dispatch_agree.
Print Assumptions unscheduled_rule_indexed_on_add.
Print Assumptions removed_rule_never_dispatched.
Print Assumptions overwritten_rule_never_dispatched.
Print Assumptions overwritten_by_plain_fact_never_dispatched.
Print Assumptions Pidx_st_load.
Print Assumptions dispatch_spec_semantic.
Print Assumptions dispatch_hyps_b_sound.
Print Assumptions dispatch_example.
Print Assumptions direct_when_matched_by_index_only_counterexample.
Print Assumptions empty_schedule_dispatched_by_both_example.
Print Assumptions scheduled_unsortable_when_removable_example.
