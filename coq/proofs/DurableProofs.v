(** C06 (durability) and C07 (expiry): proofs of the statements of DurableSpec.v.
    Supporting developments: DurableFrame (the cascade frame), DurableInv
    (effect of each operation on the fields), DurablePrepare (PrepareFact),
    DurableReload (load), DurableMirror (invariants over histories),
    DurableExpiry (reads), DurableFail (storage failures), DurableClosure,
    DurableReach (reachable states, witnesses). *)
From Coq Require Import Lia.
From Verif Require Import Json Outcome Match PatIndex State StateSpec CascadeSpec AssocLemmas StateProofs
  DurableFrame DurableInv DurablePrepare DurableReload DurableSpec DurableMirror
  DurableExpiry DurableFail DurableClosure DurableReach.

(** * A. Durability *)

Theorem store_mirrors_memory_hooks : store_mirrors_memory_hooks_statement.
Proof.
  intros k hooks ops. cbv zeta. unfold reachable.
  apply fold_sstep_M. split; reflexivity.
Qed.

Theorem store_mirrors_memory : store_mirrors_memory_statement.
Proof.
  intros k ops. apply store_mirrors_memory_hooks.
Qed.

Theorem hook_reject_leaves_no_residue : hook_reject_leaves_no_residue_statement.
Proof. exact hook_reject_leaves_no_residue_main. Qed.

Theorem reachable_state_wf : reachable_wf_statement.
Proof. exact reachable_wf. Qed.

Theorem prepare_idempotent : prepare_idempotent_statement.
Proof. exact DurablePrepare.prepare_idempotent. Qed.

Theorem prepared_reachable : prepared_reachable_statement.
Proof. exact reachable_prepared. Qed.

Theorem indexable_reachable : indexable_reachable_statement.
Proof.
  intros hooks fail ops. apply (reachable_Ix Indexed hooks fail ops).
  apply (reachable_fields Indexed hooks fail ops).
Qed.

Theorem reload_same_facts : reload_same_facts_statement.
Proof. exact reload_same_facts_main. Qed.

Theorem reload_equiv_reachable_hooks : reload_equiv_reachable_hooks_statement.
Proof. exact reload_equiv_reachable_hooks. Qed.

Theorem reload_equiv_reachable : reload_equiv_reachable_statement.
Proof.
  intros k ops now. apply (DurableReach.reload_equiv_reachable_hooks k false ops now).
Qed.

Theorem storage_failure_is_reported : storage_failure_is_reported_statement.
Proof.
  split; [|split].
  - intros s g x now fr aux n Hf. apply st_add_reports. exact Hf.
  - intros s id now n Hf Hne. apply st_Rem_reports; assumption.
  - intros s n Hf. apply st_clear_reports. exact Hf.
Qed.

Theorem ops_touch_only_named_ids : ops_touch_only_named_ids_statement.
Proof.
  split; [|split; [|split; [|split]]].
  - exact st_add_touches_only_id.
  - exact st_add_rejected_untouched.
  - exact st_Rem_only_loses.
  - exact st_Rem_lost_in_closure.
  - intros s now Hne Hp. split; [|split].
    + intros id. apply st_get_noexp; assumption.
    + intros p. apply st_search_noexp; assumption.
    + intros ev. apply st_find_rules_noexp; assumption.
Qed.

(** * B. Expiry *)

(** B1 is the collection [expiry_from_numeric_ttl], [expiry_from_duration_ttl],
    [expiry_from_numeric_expires], [expiry_from_rfc3339_expires],
    [no_expiry_without_ttl_or_expires], [stored_fact_has_no_ttl],
    [rule_body_carries_expiry] of DurablePrepare.v, gathered here. *)
Theorem expiry_instant_fixed_at_write : expiry_instant_fixed_at_write_statement.
Proof.
  unfold expiry_instant_fixed_at_write_statement.
  intros given x now fresh aux id fact Hp. repeat split.
  - intros v. eapply expiry_from_numeric_ttl; exact Hp.
  - intros d n. eapply expiry_from_duration_ttl; exact Hp.
  - intros E. eapply expiry_from_numeric_expires; exact Hp.
  - intros str. eapply expiry_from_rfc3339_expires; exact Hp.
  - eapply no_expiry_without_ttl_or_expires; exact Hp.
  - eapply stored_fact_has_no_ttl; exact Hp.
  - eapply prepare_fact_not_expired; exact Hp.
  - intros r. eapply rule_body_carries_expiry; exact Hp.
Qed.

Theorem expired_write_rejected : expired_write_rejected_statement.
Proof. exact DurablePrepare.expired_write_rejected. Qed.

Theorem stored_facts_never_modified : stored_facts_never_modified_statement.
Proof.
  intros s o id f' H. apply sstep_facts_origin in H.
  destruct H as [H|(g & x & fr & aux & now & -> & Hp)]; [left; exact H|right].
  cbn [writes_id]. rewrite Hp. apply String.eqb_refl.
Qed.

Theorem expiry_instant_never_moves : expiry_instant_never_moves_statement.
Proof.
  intros k hooks fail ops1 ops2 id f2 Hw. unfold reachable. rewrite fold_left_app.
  apply fold_sstep_facts_origin. exact Hw.
Qed.

Theorem get_visible_iff : get_visible_iff_statement.
Proof. exact st_get_Ok_iff. Qed.

Theorem removal_never_errs_without_failure : removal_never_errs_without_failure_statement.
Proof. exact st_rem_ok_nofail. Qed.

Theorem purged_once_seen : purged_once_seen_statement.
Proof. exact st_get_expired. Qed.

Theorem search_never_returns_expired : search_never_returns_expired_statement.
Proof. exact st_search_live. Qed.

Theorem find_never_returns_expired : find_never_returns_expired_statement.
Proof. exact st_find_rules_live. Qed.

Theorem never_expires_without_expiry : never_expires_without_expiry_statement.
Proof. exact DurablePrepare.never_expires_without_expiry. Qed.

Theorem load_drops_expired : load_drops_expired_statement.
Proof. exact load_drops_expired_main. Qed.

(** * Witnesses (by computation), restated *)

Definition hook_reject_leaves_no_residue_example := DurableReach.hook_reject_leaves_no_residue_example.
Definition failed_add_modifies_memory_counterexample := DurableReach.failed_add_modifies_memory_counterexample.
Definition failed_clear_empties_memory_counterexample := DurableReach.failed_clear_empties_memory_counterexample.
Definition purge_errors_swallowed_example := DurableFail.purge_errors_swallowed_example.
Definition purge_errors_dropped_linear_example := DurableFail.purge_errors_dropped_linear_example.
Definition purged_once_seen_alone_counterexample := DurableFail.purged_once_seen_alone_counterexample.
Definition load_linear_keeps_expired_example := DurableReload.load_linear_keeps_expired_example.
Definition load_indexed_drops_expired_example := DurableReload.load_indexed_drops_expired_example.
Definition load_expired_record_in_facts_counterexample := DurableReload.load_expired_record_in_facts_counterexample.

Print Assumptions store_mirrors_memory.
Print Assumptions store_mirrors_memory_hooks.
Print Assumptions reachable_state_wf.
Print Assumptions prepare_idempotent.
Print Assumptions prepared_reachable.
Print Assumptions indexable_reachable.
Print Assumptions reload_same_facts.
Print Assumptions reload_equiv_reachable.
Print Assumptions reload_equiv_reachable_hooks.
Print Assumptions storage_failure_is_reported.
Print Assumptions ops_touch_only_named_ids.
Print Assumptions expiry_instant_fixed_at_write.
Print Assumptions expired_write_rejected.
Print Assumptions stored_facts_never_modified.
Print Assumptions expiry_instant_never_moves.
Print Assumptions get_visible_iff.
Print Assumptions removal_never_errs_without_failure.
Print Assumptions purged_once_seen.
Print Assumptions search_never_returns_expired.
Print Assumptions find_never_returns_expired.
Print Assumptions never_expires_without_expiry.
Print Assumptions load_drops_expired.
Print Assumptions load_expired_record_not_loaded.
Print Assumptions load_expired_record_not_in_facts.
Print Assumptions hook_reject_leaves_no_residue.
Print Assumptions hook_reject_leaves_no_residue_example.
Print Assumptions failed_add_modifies_memory_counterexample.
Print Assumptions failed_clear_empties_memory_counterexample.
Print Assumptions purge_errors_swallowed_example.
Print Assumptions purge_errors_dropped_linear_example.
Print Assumptions purged_once_seen_alone_counterexample.
Print Assumptions load_linear_keeps_expired_example.
Print Assumptions load_indexed_drops_expired_example.
Print Assumptions load_expired_record_in_facts_counterexample.
