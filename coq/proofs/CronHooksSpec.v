(** Statements for C15, registry clause: "a rule with a schedule is registered
    with the cron service exactly while it exists".
    The instrumented step [cstep] performs an operation of the state API and
    applies to the cron registry the calls the model of cron/corehooks.go makes
    (CronHooks.v).  Definitions and statements only; proofs in CronHooksProofs.v. *)
From Verif Require Import Json Outcome Match PatIndex State Location CronHooks StateSpec DurableSpec.

(** * The instrumented step *)

Definition cstep (persistent : bool) (sr : state * registry) (o : sop * Z) : state * registry :=
  let '(s, reg) := sr in
  let '(op, now) := o in
  match op with
  | SAdd g x fr aux =>
      let '(s', r) := st_add s g x now fr aux in
      (s', fold_left apply_call (calls_add persistent false s' r) reg)
  | SRem id => (fst (st_Rem s id now), fold_left apply_call (calls_rem s id now) reg)
  | SGet id => (fst (st_get s id now), reg)
  | SSearch p => (fst (st_search s p now), reg)
  | SFind ev => (fst (st_find_rules s ev now), reg)
  | SClear => (fst (st_clear s), fold_left apply_call (calls_clear s now) reg)
  end.

(** hooks installed, no storage failure, empty registry *)
Definition cinit (k : skind) : state * registry := (set_fail (empty_state k true) None, []).

Definition crun (persistent : bool) (k : skind) (ops : list (sop * Z)) : state * registry :=
  fold_left (cstep persistent) ops (cinit k).

(** * Direct operations: the operations that are not one of the known bypasses *)

Definition is_some {A} (o : option A) : bool := match o with Some _ => true | None => false end.

(** every scheduled rule of [s] other than [id] is still stored in [s'] *)
Definition others_kept (s s' : state) (id : string) : bool :=
  forallb (fun js => String.eqb (fst js) id || is_some (alookup (fst js) (st_facts s'))) (scheduled_rules s).

(** [direct s o]: in state [s] the operation [o] is none of
    (a) a successful add of a non-scheduled fact under an id that holds a scheduled rule;
    (b) a Rem after which a scheduled rule other than the named id has disappeared (deleteWith cascade);
    (d) a Clear of the linear state while it stores a scheduled rule.
    ((c), removal by expiry, is excluded by the separate hypothesis that nothing is expired.) *)
Definition direct (s : state) (o : sop * Z) : bool :=
  let '(op, now) := o in
  match op with
  | SAdd g x fr aux =>
      match prepare_fact g x now fr aux, snd (st_add s g x now fr aux) with
      | Ok (id, fact), Ok _ =>
          negb (is_some (alookup id (scheduled_rules s)) && negb (is_some (fact_schedule fact)))
      | _, _ => true
      end
  | SRem id => others_kept s (fst (st_Rem s id now)) id
  | SClear => match st_kind s with
              | Indexed => true
              | Linear => match scheduled_rules s with [] => true | _ => false end
              end
  | _ => true
  end.

(** The coarser, purely syntactic-on-kind version asked for: any linear Clear
    and any overwrite attempt (successful or not) is excluded. *)
Definition direct_coarse (s : state) (o : sop * Z) : bool :=
  let '(op, now) := o in
  match op with
  | SAdd g x fr aux =>
      match prepare_fact g x now fr aux with
      | Ok (id, fact) =>
          negb (is_some (alookup id (scheduled_rules s)) && negb (is_some (fact_schedule fact)))
      | _ => true
      end
  | SRem id => others_kept s (fst (st_Rem s id now)) id
  | SClear => match st_kind s with Indexed => true | Linear => false end
  | _ => true
  end.

(** The history is direct and nothing is expired when an operation runs:
    a condition on every prefix. *)
Definition direct_history (persistent : bool) (k : skind) (ops : list (sop * Z)) : Prop :=
  forall ops1 o ops2, ops = (ops1 ++ o :: ops2)%list ->
    let s := fst (crun persistent k ops1) in
    no_expired s (snd o) /\ direct s o = true.

(** Syntactic sufficient condition for "nothing ever expires": no added fact
    carries a [ttl] or an [expires]. *)
Definition op_never_expires (o : sop * Z) : bool :=
  match o with
  | (SAdd g x fr aux, _) => negb (is_some (alookup "ttl" (jO x))) && negb (is_some (alookup "expires" (jO x)))
  | _ => true
  end.

(** ... and the decidable directness check along a run. *)
Fixpoint direct_run (persistent : bool) (sr : state * registry) (ops : list (sop * Z)) : bool :=
  match ops with
  | [] => true
  | o :: r => direct (fst sr) o && direct_run persistent (cstep persistent sr o) r
  end.

(** * Statements *)

Definition scheduled_rules_spec_statement : Prop :=
  forall s, st_wf s ->
    (forall id sch, alookup id (scheduled_rules s) = Some sch <->
                    exists fact, alookup id (st_facts s) = Some fact /\ fact_schedule fact = Some sch) /\
    sorted_keys (map fst (scheduled_rules s)) = true.

Definition registry_exact_iff_statement : Prop :=
  forall reg s, st_wf s -> sorted_keys (map fst reg) = true ->
    (registry_exact reg s = true <-> forall id, alookup id reg = alookup id (scheduled_rules s)).

Definition cstep_exact_statement : Prop :=
  forall persistent s reg o s' reg',
    registry_exact reg s = true -> st_wf s -> st_hooks s = true -> st_fail s = None ->
    no_expired s (snd o) -> direct s o = true ->
    cstep persistent (s, reg) o = (s', reg') ->
    registry_exact reg' s' = true.

Definition registry_exact_direct_ops_statement : Prop :=
  forall persistent k ops,
    direct_history persistent k ops ->
    forall ops1 ops2, ops = (ops1 ++ ops2)%list ->
      let '(s, reg) := crun persistent k ops1 in registry_exact reg s = true.

(** decidable form: no ttl/expires anywhere, and the boolean directness check *)
Definition registry_exact_direct_ops_bool_statement : Prop :=
  forall persistent k ops,
    forallb op_never_expires ops = true ->
    direct_run persistent (cinit k) ops = true ->
    let '(s, reg) := crun persistent k ops in registry_exact reg s = true.

Definition load_reregisters_indexed_statement : Prop :=
  forall s now,
    st_wf s -> prepared s -> st_store s = st_facts s -> no_expired s now -> all_indexable_in s ->
    st_kind s = Indexed -> st_hooks s = true ->
    exists s', st_load Indexed true (st_store s) now = (s', Ok tt) /\
               st_facts s' = st_facts s /\
               (* non-persistent cron: the load registers exactly the stored scheduled rules *)
               registry_exact (fold_left apply_call (calls_load false s') []) s' = true /\
               (* persistent cron: no call; the registry kept by the service is still exact *)
               calls_load true s' = [] /\
               (forall reg, registry_exact reg s = true ->
                            registry_exact (fold_left apply_call (calls_load true s') reg) s' = true).
