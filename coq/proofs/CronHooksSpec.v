(** Statements for C15, registry clause: "a rule with a schedule is registered
    with the cron service exactly while it exists".
    The instrumented step [cstep] performs an operation of the state API - or
    reloads the state from its storage - and applies to the cron registry the
    calls the model of cron/corehooks.go makes (CronHooks.v).  Definitions and
    statements only; proofs in CronHooksProofs.v and CronHooksHist.v. *)
From Verif Require Import Json Outcome Match PatIndex State Location CronHooks StateSpec DurableSpec.

(** * The instrumented step *)

(** an operation of the state API, or a restart of the location (State.Load
    into a fresh state over the same storage) *)
Inductive cop :=
| COp (o : sop)
| CReload.

(** the state after the operation *)
Definition cstate_step (s : state) (o : cop * Z) : state :=
  match fst o with
  | COp op => sstep s (op, snd o)
  | CReload => fst (st_load (st_kind s) (st_hooks s) (st_store s) (snd o))
  end.

(** the calls the cron service receives during the operation *)
Definition ccalls (persistent : bool) (s : state) (o : cop * Z) : list ccall :=
  let now := snd o in
  match fst o with
  | COp (SAdd g x fr aux) =>
      let '(s', r) := st_add s g x now fr aux in calls_add persistent false s s' r
  | COp (SRem id) => calls_Rem s id now
  | COp (SGet id) => calls_get s id now
  | COp (SSearch p) => calls_search s p now
  | COp (SFind ev) => calls_find s ev now
  | COp SClear => calls_clear s
  | CReload => calls_load persistent (st_store s) now (cstate_step s o)
  end.

(** a cron service that is not persistent has forgotten its jobs when the
    location is loaded again (a restart) *)
Definition reg_before (persistent : bool) (reg : registry) (o : cop * Z) : registry :=
  match fst o with
  | CReload => if persistent then reg else []
  | COp _ => reg
  end.

Definition cstep (persistent : bool) (sr : state * registry) (o : cop * Z) : state * registry :=
  (cstate_step (fst sr) o,
   fold_left apply_call (ccalls persistent (fst sr) o) (reg_before persistent (snd sr) o)).

(** hooks installed, no storage failure, empty registry *)
Definition cinit (k : skind) : state * registry := (set_fail (empty_state k true) None, []).

Definition crun (persistent : bool) (k : skind) (ops : list (cop * Z)) : state * registry :=
  fold_left (cstep persistent) ops (cinit k).

Definition is_some {A} (o : option A) : bool := match o with Some _ => true | None => false end.

(** * Statements *)

Definition scheduled_rules_spec_statement : Prop :=
  forall s, st_wf s ->
    (forall id sch, alookup id (scheduled_rules s) = Some sch <->
                    exists fact, alookup id (st_facts s) = Some fact /\ fact_schedule fact = Some sch) /\
    sorted_keys (map fst (scheduled_rules s)) = true.

Definition registry_exact_iff_statement : Prop :=
  forall reg s, st_wf s -> sorted_keys (map fst reg) = true ->
    (registry_exact reg s = true <-> forall id, alookup id reg = alookup id (scheduled_rules s)).

(** One operation of the state API, in ANY state with the hooks installed
    (whatever is expired, pending, or has failed before): the calls it makes
    turn an exact registry into an exact registry.  The only hypothesis on
    the operation is that no storage call fails during it. *)
Definition cstep_exact_statement : Prop :=
  forall persistent s reg op now,
    registry_exact reg s = true -> st_wf s -> st_hooks s = true -> st_fail s = None ->
    let '(s', reg') := cstep persistent (s, reg) (COp op, now) in
    registry_exact reg' s' = true.

(** THE property: for EVERY history of operations - adds, overwrites, removals
    with their deleteWith cascades, reads with the purge of what has expired,
    clear, restarts - on either kind of state, with a persistent or a
    non-persistent cron service, after every operation the registry of the
    cron service holds exactly the stored scheduled rules, with their
    schedules. *)
Definition registry_exact_all_ops_statement : Prop :=
  forall persistent k ops,
    let '(s, reg) := crun persistent k ops in registry_exact reg s = true.

(** ... "after every operation": the same for every prefix of the history *)
Definition registry_exact_every_prefix_statement : Prop :=
  forall persistent k ops ops1 ops2, ops = (ops1 ++ ops2)%list ->
    let '(s, reg) := crun persistent k ops1 in registry_exact reg s = true.

(** Consequences, per path of finding D28 (now repaired): *)

(** (a) after a successful add the id is registered iff the stored fact is a
    scheduled rule (so an overwrite by anything unscheduled drops the job) *)
Definition overwrite_unschedules_statement : Prop :=
  forall persistent k ops g x fr aux now id,
    let '(s, reg) := crun persistent k ops in
    snd (st_add s g x now fr aux) = Ok id ->
    let '(s', reg') := cstep persistent (s, reg) (COp (SAdd g x fr aux), now) in
    alookup id reg' = match alookup id (st_facts s') with Some f => fact_schedule f | None => None end.

(** (b,c) whatever an operation removes - the named id, its dependents, expired
    items - has no job afterwards *)
Definition removed_is_unscheduled_statement : Prop :=
  forall persistent k ops o j,
    let '(s', reg') := crun persistent k (ops ++ [o])%list in
    alookup j (st_facts s') = None -> alookup j reg' = None.

(** (d) after Clear the registry is empty (both kinds) *)
Definition clear_unschedules_all_statement : Prop :=
  forall persistent k ops now,
    snd (crun persistent k (ops ++ [(COp SClear, now)])%list) = [].

(** (e) a restart with a cron service that forgets: the load registers exactly
    the stored scheduled rules again, on both kinds of state; with a
    persistent service the registry it kept is exact for the loaded state *)
Definition load_reregisters_statement : Prop :=
  forall persistent k ops now,
    let '(s', reg') := crun persistent k (ops ++ [(CReload, now)])%list in
    registry_exact reg' s' = true /\
    (persistent = false ->
     reg' = fold_left apply_call (calls_load false (st_store (fst (crun persistent k ops))) now s') []).

(** The calls of an operation amount to the difference between the scheduled
    rules before and after it ([diff_calls], which the correspondence checker
    uses for compound operations): they have the same effect on the registry. *)
Definition calls_effect_is_diff_statement : Prop :=
  forall persistent k ops op now,
    let '(s, reg) := crun persistent k ops in
    let '(s', reg') := cstep persistent (s, reg) (COp op, now) in
    let added := match op with
                 | SAdd g x fr aux => match snd (st_add s g x now fr aux) with Ok id => Some id | _ => None end
                 | _ => None
                 end in
    reg' = fold_left apply_call (diff_calls persistent s s' added false) reg.
