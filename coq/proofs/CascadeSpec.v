(** Statements for C08 (deleteWith cascades terminate and remove exactly the dependents). *)
From Verif Require Import Json Outcome Match PatIndex State.

(** (1) Termination on every dependency graph: with the fuel the model uses
    (2 * number of facts + 4) a removal never runs out of fuel — whatever the
    state (cycles, self-loops, dangling targets, expired facts, either state
    kind, storage failures). *)
Definition cascade_terminates_statement : Prop :=
  forall s id now, snd (st_rem s id now) <> OutOfFuel.

(** (1b) The purge of the noted expired items (the rounds of removals the
    public entry points run under the write lock, after D52's repair)
    terminates too, on every state: with the rounds the model allows (number
    of facts + 1: a round that notes new ids has removed at least one fact)
    it never runs out of fuel, it never panics and never reports an error of
    its own (the errors of its removals are logged), and no id is left noted. *)
Definition purge_terminates_statement : Prop :=
  forall s now, snd (purge s now) = Ok tt /\ st_pending (fst (purge s now)) = [].

(** so a public entry point answers what its operation proper answered *)
Definition purge_keeps_answer_statement : Prop :=
  forall A (r : state * outcome A) now, with_purge r now = (fst (purge (fst r) now), snd r).

(** Fuel is only a device: any larger amount gives the same answer. *)
Definition cascade_fuel_irrelevant_statement : Prop :=
  forall s id now fuel, (cascade_fuel s <= fuel)%nat ->
    rem_fuel fuel s id now = st_rem s id now.

(** [State.dw_names fact x]: the fact literally names x in its deleteWith
    array (the check that the repaired deleteDependencies makes). *)

(** The least set containing [id] and every stored fact that names a member. *)
Inductive Clo (s : state) (id : string) : string -> Prop :=
| Clo_root : Clo s id id
| Clo_dep : forall x j fact, Clo s id x -> alookup j (st_facts s) = Some fact ->
                             dw_names fact x = true -> Clo s id j.

Definition no_expired (s : state) (now : Z) : Prop :=
  forall id fact, alookup id (st_facts s) = Some fact -> fact_expired fact now = false.

(** (2) Exactness for the linear state: when nothing is expired and no
    storage call fails, removing [id] — ANY id, an id that looks like a
    pattern variable included (D14, repaired: the candidates that the search
    for {"deleteWith": [id]} finds are checked literally) — deletes exactly
    the closure, from memory and from the storage, and changes nothing else. *)
Definition cascade_exact_linear_statement : Prop :=
  forall s id now s' had,
    st_kind s = Linear -> st_fail s = None ->
    sorted_keys (map fst (st_facts s)) = true -> sorted_keys (map fst (st_store s)) = true ->
    no_expired s now ->
    st_rem s id now = (s', Ok had) ->
    (had = match alookup id (st_facts s) with Some _ => true | None => false end) /\
    (forall j, Clo s id j -> alookup j (st_facts s') = None /\ alookup j (st_store s') = None) /\
    (forall j, ~ Clo s id j -> alookup j (st_facts s') = alookup j (st_facts s) /\
                               alookup j (st_store s') = alookup j (st_store s)).

(** with the result never an error under these hypotheses *)
Definition cascade_ok_linear_statement : Prop :=
  forall s id now,
    st_kind s = Linear -> st_fail s = None -> no_expired s now ->
    exists s' had, st_rem s id now = (s', Ok had).

(** (3) D14 (repaired), on the state of the former witness: "keep" depends on
    "other", "dep" depends on the variable-looking id "?zzz"; removing the
    (absent) id "?zzz" deletes "dep" and leaves "keep". *)
Definition varlike_id_removes_literal_dependents_statement : Prop :=
  exists s s', st_kind s = Linear /\
    alookup "keep" (st_facts s) <> None /\ ~ Clo s "?zzz" "keep" /\
    alookup "dep" (st_facts s) <> None /\ Clo s "?zzz" "dep" /\
    st_rem s "?zzz" 100 = (s', Ok false) /\
    alookup "keep" (st_facts s') = alookup "keep" (st_facts s) /\
    alookup "dep" (st_facts s') = None.
