(** C19 B3 at the level of one location: the protected location with the
    right keys and its unprotected twin answer every request alike. *)
From Coq Require Import Lia Permutation.
From Verif Require Import Json Outcome Match PatIndex State Location SysOps CorrLoc MatchSpec MatchLemmas1.
From Verif Require Import StateSpec AssocLemmas StateProofs CascadeSpec CascadeLemmas1 GateProofs CapacityProofs.
From Verif Require Import DurableFrame DurableInv DurableSpec DurableMirror DurableExpiry DurableReload.
From Verif Require Import LocSpec LocBasics LocRules HistSpec HistLoc HistGate HistClosure HistCascade HistState HistTwin.

(** * Pure readings *)

Lemma healthy_nothing_expired hooks l now : healthy hooks (l_state l) -> nothing_expired l now.
Proof.
  intros H. apply healthy_HInv in H. destruct H as [HI _]. split.
  - exact (HInv_noexp hooks (l_state l) now HI).
  - apply HI.
Qed.

Lemma get_prop_string_pure l prop now :
  nothing_expired l now -> get_prop_string l prop now = (l, key_of l prop).
Proof.
  intros Hn. unfold get_prop_string, key_of.
  rewrite (get_prop_live l "" prop now (nothing_expired_live l "" prop now Hn) (proj2 Hn)).
  destruct (prop_val l "" prop) as [[| | |s| |]|]; reflexivity.
Qed.

Lemma prop_val_twin L U id prop :
  st_facts (l_state U) = nokey (st_facts (l_state L)) -> key_idb (prop_id id prop) = false ->
  prop_val U id prop = prop_val L id prop.
Proof. intros HF Hk. unfold prop_val. rewrite HF, nokey_lookup, Hk. reflexivity. Qed.

Lemma key_of_twin_nokey L U prop :
  st_facts (l_state U) = nokey (st_facts (l_state L)) -> key_idb (prop_id "" prop) = false ->
  key_of U prop = key_of L prop.
Proof. intros HF Hk. unfold key_of. rewrite (prop_val_twin L U "" prop HF Hk). reflexivity. Qed.

Lemma key_of_twin_key L U prop :
  st_facts (l_state U) = nokey (st_facts (l_state L)) -> key_idb (prop_id "" prop) = true ->
  key_of U prop = "".
Proof. intros HF Hk. unfold key_of, prop_val. rewrite HF, nokey_lookup, Hk. reflexivity. Qed.

(** * The gates decide alike *)

Lemma gates_twin hooks L U cL cU now gs :
  twin_loc hooks L U -> opens L cL -> at_capacity L = false -> at_capacity U = false ->
  first_refusal L cL now gs = first_refusal U cU now gs.
Proof.
  intros (Hro & Hk & HL & HU & HF & Hin) [[Ow|Ow] [Or|Or]] HcL HcU;
    pose proof (healthy_nothing_expired hooks L now HL) as HnL;
    pose proof (healthy_nothing_expired hooks U now HU) as HnU;
    unfold first_refusal;
    (assert (Hg : forall g, gate_pass L cL now g = gate_pass U cU now g);
     [|induction gs as [|g gs IH]; [reflexivity|]; cbn [find]; rewrite (Hg g);
       destruct (negb (gate_pass U cU now g)); [reflexivity|exact IH]]);
    intros g; destruct g; cbn [gate_pass];
    try (rewrite HcL, HcU; reflexivity);
    try (unfold enabled; rewrite (get_prop_string_pure L "enabled" now HnL), (get_prop_string_pure U "enabled" now HnU);
         cbn [snd]; rewrite (key_of_twin_nokey L U "enabled" HF eq_refl); reflexivity);
    try (rewrite !check_write_spec, Hro, (get_prop_string_pure L "writeKey" now HnL),
           (get_prop_string_pure U "writeKey" now HnU); cbn [snd]; cbv zeta;
         rewrite (key_of_twin_key L U "writeKey" HF eq_refl); cbn [String.eqb orb];
         rewrite ?Ow; rewrite ?String.eqb_refl; rewrite ?Bool.orb_true_r; reflexivity);
    try (rewrite !check_read_spec, (get_prop_string_pure L "readKey" now HnL),
           (get_prop_string_pure U "readKey" now HnU); cbn [snd]; cbv zeta;
         rewrite (key_of_twin_key L U "readKey" HF eq_refl); cbn [String.eqb orb];
         rewrite ?Or; rewrite ?String.eqb_refl; rewrite ?Bool.orb_true_r; reflexivity).
Qed.

(** * One request to both *)

(** the key facts of [l'] are key facts of [l] *)
Definition KS (l' l : loc) : Prop :=
  forall i f, key_idb i = true -> alookup i (st_facts (l_state l')) = Some f ->
              alookup i (st_facts (l_state l)) = Some f.

Lemma KS_refl l : KS l l.
Proof. intros i f _ H. exact H. Qed.

Lemma KS_trans a b c : KS a b -> KS b c -> KS a c.
Proof. intros H1 H2 i f Hi Hl. apply (H2 i f Hi). apply (H1 i f Hi). exact Hl. Qed.

Lemma KS_opens l' l c : KS l' l -> opens l c -> opens l' c.
Proof.
  intros HK [Hw Hr].
  assert (Hkey : forall prop, key_idb (prop_id "" prop) = true -> key_of l' prop = "" \/ key_of l' prop = key_of l prop).
  { intros prop Hk. unfold key_of, prop_val.
    destruct (alookup (prop_id "" prop) (st_facts (l_state l'))) as [f|] eqn:E; [|left; reflexivity].
    rewrite (HK _ f Hk E). right; reflexivity. }
  split.
  - destruct (Hkey "writeKey" eq_refl) as [->| ->]; [left; reflexivity|exact Hw].
  - destruct (Hkey "readKey" eq_refl) as [->| ->]; [left; reflexivity|exact Hr].
Qed.

(** both results: twins again, the same answer, no new key fact *)
Definition TWP {A} (hooks : bool) (L0 : loc) (rL rU : loc * outcome A) : Prop :=
  twin_loc hooks (fst rL) (fst rU) /\ snd rL = snd rU /\ KS (fst rL) L0.

Lemma twin_loc_Twin hooks L U :
  twin_loc hooks L U <-> l_readonly U = l_readonly L /\ Twin hooks (l_state L) (l_state U).
Proof.
  unfold twin_loc, Twin. rewrite !healthy_HInv. tauto.
Qed.

Lemma sop_ok_parts o : sop_ok o = true -> op_plain o = true /\ op_indexable o = true /\ op_nokey o = true.
Proof.
  unfold sop_ok. intros H. apply andb_true_iff in H. destruct H as [H H3]. apply andb_true_iff in H. tauto.
Qed.

Lemma gated_twin {A} hooks L U cL cU now gs (kL kU : loc -> loc * outcome A) :
  twin_loc hooks L U -> opens L cL -> at_capacity L = false -> at_capacity U = false ->
  TWP hooks L (kL L) (kU U) -> TWP hooks L (gated gs L cL now kL) (gated gs U cU now kU).
Proof.
  intros HT Ho HcL HcU Hk. pose proof HT as (_ & _ & HL & HU & _).
  rewrite (gated_pure gs L cL now kL (healthy_nothing_expired hooks L now HL)).
  rewrite (gated_pure gs U cU now kU (healthy_nothing_expired hooks U now HU)).
  rewrite (gates_twin hooks L U cL cU now gs HT Ho HcL HcU).
  destruct (first_refusal U cU now gs) as [e|]; [|exact Hk].
  split; [exact HT|]. split; [reflexivity|apply KS_refl].
Qed.

(** ** the state operations under the twins *)

Lemma tw_step hooks L U o :
  twin_loc hooks L U -> sop_ok o = true ->
  twin_loc hooks (upd_state L (sstep (l_state L) o)) (upd_state U (sstep (l_state U) o)) /\
  KS (upd_state L (sstep (l_state L) o)) L.
Proof.
  intros HT Hok. destruct (sop_ok_parts o Hok) as (Hpl & Hix & Hnk).
  apply twin_loc_Twin in HT. destruct HT as [Hro HT].
  destruct (twin_step hooks _ _ o HT Hpl Hix Hnk) as [HT' _]. split.
  - apply twin_loc_Twin. split; [exact Hro|exact HT'].
  - destruct HT as (HS & _ & _ & _ & _ & _ & Hin). intros i f Hi Hl. cbn [l_state upd_state] in Hl.
    apply (sstep_keysub hooks (l_state L) o HS Hin Hpl Hnk i f Hi Hl).
Qed.

Lemma tw_add {B} hooks L U g x now fr aux (f : string -> B) :
  twin_loc hooks L U -> sop_ok (SAdd g x fr aux, now) = true ->
  TWP hooks L (lift L (st_add (l_state L) g x now fr aux) f) (lift U (st_add (l_state U) g x now fr aux) f).
Proof.
  intros HT Hok. destruct (tw_step hooks L U _ HT Hok) as [H1 H2].
  destruct (sop_ok_parts _ Hok) as (Hpl & Hix & Hnk).
  apply twin_loc_Twin in HT. destruct HT as [_ (HS & HU & _)].
  unfold TWP, lift. cbn [fst snd]. split; [exact H1|]. split; [|exact H2].
  rewrite (st_add_ans hooks _ g x now fr aux HS Hpl Hix), (st_add_ans hooks _ g x now fr aux HU Hpl Hix). reflexivity.
Qed.

Lemma tw_Rem {B} hooks L U id now (f : bool -> B) :
  twin_loc hooks L U -> sop_ok (SRem id, now) = true ->
  TWP hooks L (lift L (st_Rem (l_state L) id now) f) (lift U (st_Rem (l_state U) id now) f).
Proof.
  intros HT Hok. destruct (tw_step hooks L U _ HT Hok) as [H1 H2].
  destruct (sop_ok_parts _ Hok) as (Hpl & Hix & Hnk).
  apply twin_loc_Twin in HT. destruct HT as [_ (HS & HU & _ & _ & _ & HF & _)].
  unfold TWP, lift. cbn [fst snd]. split; [exact H1|]. split; [|exact H2].
  cbn [op_plain op_nokey] in Hpl, Hnk. apply andb_true_iff in Hnk. destruct Hnk as [Hk _]. apply Bool.negb_true_iff in Hk.
  rewrite (st_Rem_ans hooks _ id now HS), (st_Rem_ans hooks _ id now HU).
  unfold had_fact. rewrite HF, nokey_lookup, Hk. reflexivity.
Qed.

Lemma st_get_healthy hooks s id now :
  healthy hooks s -> st_get s id now = (s, match alookup id (st_facts s) with Some f => Ok f | None => Err "notfound" end).
Proof.
  intros H. apply healthy_HInv in H. destruct H as [HI _].
  apply st_get_live; [|apply HI]. intros f Hl. exact (HInv_noexp hooks s now HI id f Hl).
Qed.

Lemma tw_clear {B} hooks L U (f : unit -> B) :
  twin_loc hooks L U ->
  TWP hooks L (lift L (st_clear (l_state L)) f) (lift U (st_clear (l_state U)) f).
Proof.
  intros HT. assert (Hok : sop_ok (SClear, 0) = true) by reflexivity.
  destruct (tw_step hooks L U _ HT Hok) as [H1 H2].
  apply twin_loc_Twin in HT. destruct HT as [_ (HS & HU & _)].
  unfold TWP, lift. cbn [fst snd]. split; [exact H1|]. split; [|exact H2].
  pose proof (st_clear_shape (l_state L)) as Hc. pose proof (st_clear_shape (l_state U)) as Hd. cbv zeta in Hc, Hd.
  destruct HS as (Hfs & _), HU as (Hfu & _).
  rewrite (will_fail_None _ Hfs) in Hc. rewrite (will_fail_None _ Hfu) in Hd.
  destruct Hc as (_ & _ & _ & _ & -> & _). destruct Hd as (_ & _ & _ & _ & -> & _). reflexivity.
Qed.

(** ** every covered request *)

Lemma tstep_twin hooks L U q n :
  twin_loc hooks L U -> opens L (t_cL q) -> treq_ok q = true ->
  at_capacity L = false -> at_capacity U = false ->
  twin_loc hooks (fst (tstep (L, U) q)) (snd (tstep (L, U) q)) /\
  loc_res n L (t_cL q) (t_env q) (t_op q) = loc_res n U (t_cU q) (t_env q) (t_op q) /\
  KS (fst (tstep (L, U) q)) L.
Proof.
  intros HT Ho Hok HcL HcU. destruct q as [cL cU e op]. unfold tstep. cbn [t_cL t_cU t_env t_op fst snd] in *.
  pose proof HT as (Hro & Hkind & HhL & HhU & HF & Hin).
  assert (Hfin : forall A (rL rU : loc * outcome A) (wrap : outcome A -> lres),
             TWP hooks L rL rU ->
             twin_loc hooks (fst rL) (fst rU) /\ wrap (snd rL) = wrap (snd rU) /\ KS (fst rL) L).
  { intros A rL rU wrap (H1 & H2 & H3). rewrite H2. auto. }
  destruct op; cbn [treq_ok t_op t_env] in Hok; try discriminate; cbn [loc_apply loc_res].
  - (* AddFact *) apply (Hfin _ _ _ RId). unfold loc_add_fact. apply gated_twin; auto. apply tw_add; assumption.
  - (* AddRule *) apply (Hfin _ _ _ RId). unfold loc_add_rule. apply gated_twin; auto.
    destruct (rule_from_map rule) as [r0|x|w|]; try (split; [exact HT|split; [reflexivity|apply KS_refl]]).
    destruct (set_expires (jO rule) (e_now e) (e_aux e)) as [[[rm ex] E]|x|w|];
      try (split; [exact HT|split; [reflexivity|apply KS_refl]]).
    apply (tw_add hooks L U id (rule_wrapper rm ex E)); assumption.
  - (* RemFact *) apply (Hfin _ _ _ RBool). unfold loc_rem_fact. apply gated_twin; auto. apply tw_Rem; assumption.
  - (* RemRule *) apply (Hfin _ _ _ RBool). unfold loc_rem_rule. apply gated_twin; auto.
    apply andb_true_iff in Hok. destruct Hok as [Hok1 Hok2].
    destruct (tw_Rem hooks L U id (e_now e) (fun b : bool => b) HT Hok1) as (T1 & A1 & K1).
    unfold lift in T1, A1, K1. cbn [fst snd] in T1, A1, K1.
    destruct (st_Rem (l_state L) id (e_now e)) as [sL oL]. destruct (st_Rem (l_state U) id (e_now e)) as [sU oU].
    cbn [fst snd] in *.
    assert (Ho' : oL = oU) by (destruct oL, oU; cbn in A1; congruence).
    subst oU. destruct oL as [b|x|w|]; try (split; [exact T1|split; [reflexivity|exact K1]]).
    pose proof T1 as (_ & _ & HhL1 & HhU1 & HF1 & _).
    destruct (sop_ok_parts _ Hok2) as (_ & _ & Hnk2). cbn [op_nokey] in Hnk2.
    apply andb_true_iff in Hnk2. destruct Hnk2 as [Hk2 _]. apply Bool.negb_true_iff in Hk2.
    rewrite !get_prop_pid. cbn [l_state upd_state].
    rewrite (st_get_healthy hooks sL _ (e_now e) HhL1), (st_get_healthy hooks sU _ (e_now e) HhU1).
    cbn [l_state upd_state] in HF1. rewrite HF1, nokey_lookup, Hk2.
    destruct (alookup (prop_id id "disabled") (st_facts sL)) as [pf|].
    + destruct (jget _ pf) as [v|].
      * destruct (tw_Rem hooks (upd_state (upd_state L sL) sL) (upd_state (upd_state U sU) sU)
                    (prop_id id "disabled") (e_now e) (fun _ : bool => b)) as (T2 & A2 & K2); [exact T1|exact Hok2|].
        split; [exact T2|]. split; [exact A2|]. eapply KS_trans; [exact K2|exact K1].
      * split; [exact T1|]. split; [reflexivity|exact K1].
    + split; [exact T1|]. split; [reflexivity|exact K1].
  - (* GetFact *) apply (Hfin _ _ _ RJson). unfold loc_get_fact. apply gated_twin; auto.
    apply Bool.negb_true_iff in Hok. unfold TWP, lift.
    rewrite (st_get_healthy hooks _ id (e_now e) HhL), (st_get_healthy hooks _ id (e_now e) HhU). cbn [fst snd].
    rewrite !upd_state_same. split; [exact HT|]. split; [|apply KS_refl]. rewrite HF, nokey_lookup, Hok. reflexivity.
  - (* GetRule *) apply (Hfin _ _ _ RJson). unfold loc_get_rule. apply gated_twin; auto.
    apply Bool.negb_true_iff in Hok.
    rewrite (st_get_healthy hooks _ id (e_now e) HhL), (st_get_healthy hooks _ id (e_now e) HhU).
    rewrite HF, nokey_lookup, Hok.
    destruct (alookup id (st_facts (l_state L))) as [fact|]; unfold TWP; cbn [fst snd]; rewrite !upd_state_same;
      (split; [exact HT|split; [reflexivity|apply KS_refl]]).
  - (* EnableRule *) apply (Hfin _ _ _ RUnit). unfold loc_enable_rule. apply gated_twin; auto.
    destruct enable; [apply tw_Rem|apply tw_add]; assumption.
  - (* Clear *) apply (Hfin _ _ _ RUnit). unfold loc_clear. apply gated_twin; auto. apply tw_clear; assumption.
  - (* SetParents *) apply (Hfin _ _ _ RId). unfold loc_set_parents. apply gated_twin; auto. apply tw_add; assumption.
  - (* GetParents *) apply (Hfin _ _ _ RParents). unfold loc_get_parents. apply gated_twin; auto.
    unfold get_parents. rewrite !get_prop_pid.
    rewrite (st_get_healthy hooks _ _ (e_now e) HhL), (st_get_healthy hooks _ _ (e_now e) HhU).
    rewrite HF, nokey_lookup. change (key_idb (prop_id "" "parents")) with false. cbv iota.
    unfold TWP. destruct (alookup (prop_id "" "parents") (st_facts (l_state L))) as [pf|]; rewrite !upd_state_same.
    + destruct (jget _ pf) as [[| | | |xs|]|]; cbn [fst snd]; (split; [exact HT|split; [reflexivity|apply KS_refl]]).
    + cbn [fst snd]. split; [exact HT|split; [reflexivity|apply KS_refl]].
  - (* SetReadOnly *) split; [|split; [reflexivity|intros i f _ H; exact H]].
    unfold twin_loc. cbn [l_readonly l_state]. split; [reflexivity|]. split; [exact Hkind|].
    split; [exact HhL|]. split; [exact HhU|]. split; [exact HF|exact Hin].
Qed.

(** * A request grows a location by at most one item *)

Definition grows1 (l' l : loc) : Prop := lcount l' <= lcount l + 1 /\ l_max l' = l_max l.

Lemma lsub_grows1 l' l : lsub l' l -> grows1 l' l.
Proof. intros H. pose proof (lsub_count _ _ H). destruct H as (_ & _ & Hm). split; [lia|exact Hm]. Qed.

Lemma gated_grows1 {A} gs l c now (k : loc -> loc * outcome A) :
  (forall l0, grows1 (fst (k l0)) l0) -> grows1 (fst (gated gs l c now k)) l.
Proof.
  intros Hk. unfold gated. pose proof (run_gates_lsub gs l c now) as Hs.
  destruct (run_gates gs l c now) as [l' [er|]]; cbn [fst] in *; [apply lsub_grows1; exact Hs|].
  destruct (Hk l') as [H1 H2]. pose proof (lsub_count _ _ Hs). destruct Hs as (_ & _ & Hm).
  split; [lia|congruence].
Qed.

Lemma lift_add_grows1 {B} l g x now fr aux (f : string -> B) :
  grows1 (fst (lift l (st_add (l_state l) g x now fr aux) f)) l.
Proof.
  unfold lift, grows1, lcount, upd_state. cbn [fst l_max l_state].
  pose proof (st_add_len (l_state l) g x now fr aux) as H. unfold nfacts in H. split; [lia|reflexivity].
Qed.

Lemma loc_apply_grows1 l c e op : op <> LReload -> grows1 (loc_apply l c e op) l.
Proof.
  intros Hop. destruct op; cbn [loc_apply]; try congruence.
  - unfold loc_add_fact. apply gated_grows1. intros l0. apply lift_add_grows1.
  - unfold loc_add_rule. apply gated_grows1. intros l0.
    destruct (rule_from_map rule); cbn [fst]; try (apply lsub_grows1; apply lsub_refl).
    destruct (set_expires (jO rule) (e_now e) (e_aux e)) as [[[rm ex] E]|x|w|]; cbn [fst];
      try (apply lsub_grows1; apply lsub_refl).
    apply lift_add_grows1.
  - apply lsub_grows1, lsub_rem_fact.
  - apply lsub_grows1, lsub_rem_rule.
  - apply lsub_grows1, lsub_get_fact.
  - apply lsub_grows1, lsub_get_rule.
  - destruct enable; [apply lsub_grows1, lsub_enable_true|].
    unfold loc_enable_rule. apply gated_grows1. intros l0. apply lift_add_grows1.
  - pose proof (loc_clear_within (l_max l) l c e) as H. unfold within in H.
    destruct (Z.le_gt_cases (lcount l) (l_max l)) as [Hle|Hgt].
    + destruct (H (conj eq_refl Hle)) as [H1 H2]. split; [|exact H1].
      unfold loc_clear, gated in *. pose proof (run_gates_lsub (gates_of "Clear") l c (e_now e)) as Hs.
      destruct (run_gates (gates_of "Clear") l c (e_now e)) as [l' [er|]]; cbn [fst] in *.
      * pose proof (lsub_count _ _ Hs). lia.
      * unfold lift, lcount, upd_state. cbn [fst l_state]. pose proof (st_clear_count (l_state l')).
        pose proof (lsub_count _ _ Hs). unfold lcount in *. lia.
    + unfold loc_clear, gated. pose proof (run_gates_lsub (gates_of "Clear") l c (e_now e)) as Hs.
      destruct (run_gates (gates_of "Clear") l c (e_now e)) as [l' [er|]]; cbn [fst] in *.
      * apply lsub_grows1; exact Hs.
      * unfold lift, grows1, lcount, upd_state. cbn [fst l_state l_max]. pose proof (st_clear_count (l_state l')).
        pose proof (lsub_count _ _ Hs). destruct Hs as (_ & _ & Hm). unfold lcount in *. split; [lia|exact Hm].
  - unfold loc_set_parents. apply gated_grows1. intros l0. apply lift_add_grows1.
  - apply lsub_grows1, lsub_get_parents.
  - apply lsub_grows1, lsub_size.
  - split; [unfold lcount; cbn [l_state]; lia|reflexivity].
  - apply lsub_grows1, loc_search_local_lsub.
  - apply lsub_grows1, lsub_refl.
Qed.

(** * The history *)

Lemma not_at_capacity l (k : Z) : 0 < k -> lcount l + k < l_max l + 1 -> at_capacity l = false.
Proof. intros Hk H. unfold at_capacity. apply Z.leb_gt. unfold lcount in H. lia. Qed.

Lemma twin_history hooks n : forall h L U L0,
  twin_loc hooks L U -> KS L L0 ->
  (forall q, In q h -> opens L0 (t_cL q)) ->
  forallb treq_ok h = true ->
  lcount L + Z.of_nat (length h) < l_max L -> lcount U + Z.of_nat (length h) < l_max U ->
  twin_loc hooks (fst (fold_left tstep h (L, U))) (snd (fold_left tstep h (L, U))) /\
  KS (fst (fold_left tstep h (L, U))) L0 /\
  (forall r1 r2, In (r1, r2) (ttrace n (L, U) h) -> r1 = r2).
Proof.
  induction h as [|q h IH]; intros L U L0 HT HK Ho Hok HcL HcU; cbn [fold_left ttrace].
  - cbn [fst snd]. split; [exact HT|]. split; [exact HK|]. intros r1 r2 [].
  - cbn [forallb] in Hok. apply andb_true_iff in Hok. destruct Hok as [Hq Hr].
    cbn [length] in HcL, HcU. rewrite Nat2Z.inj_succ in HcL, HcU.
    assert (HaL : at_capacity L = false) by (apply (not_at_capacity L 1); lia).
    assert (HaU : at_capacity U = false) by (apply (not_at_capacity U 1); lia).
    assert (HoL : opens L (t_cL q)) by (eapply KS_opens; [exact HK|apply Ho; left; reflexivity]).
    destruct (tstep_twin hooks L U q n HT HoL Hq HaL HaU) as (T1 & R1 & K1).
    assert (Hnr : t_op q <> LReload) by (intros E; destruct q as [a b c op]; cbn in *; subst op; discriminate).
    destruct (loc_apply_grows1 L (t_cL q) (t_env q) (t_op q) Hnr) as [GL1 GL2].
    destruct (loc_apply_grows1 U (t_cU q) (t_env q) (t_op q) Hnr) as [GU1 GU2].
    destruct (IH (fst (tstep (L, U) q)) (snd (tstep (L, U) q)) L0 T1) as (A1 & A2 & A3).
    + eapply KS_trans; [exact K1|exact HK].
    + intros q' Hin. apply Ho. right; exact Hin.
    + exact Hr.
    + unfold tstep. cbn [fst snd]. lia.
    + unfold tstep. cbn [fst snd]. lia.
    + replace (tstep (L, U) q) with (fst (tstep (L, U) q), snd (tstep (L, U) q)) by (destruct (tstep (L, U) q); reflexivity).
      split; [exact A1|]. split; [exact A2|].
      intros r1 r2 [E|Hin]; [injection E as <- <-; exact R1|exact (A3 r1 r2 Hin)].
Qed.

Theorem right_keys_transparent_main : right_keys_transparent_statement.
Proof.
  intros hooks h L U n HT Ho Hok HcL HcU LU'.
  destruct (twin_history hooks n h L U L HT (KS_refl L) Ho Hok HcL HcU) as (T & K & R). fold LU' in T, K.
  split; [exact T|]. pose proof T as (Hro & Hkind & HhL & HhU & HF & Hin).
  split.
  { destruct HhL as (_ & _ & _ & -> & _), HhU as (_ & _ & _ & -> & _). exact HF. }
  split; [exact R|].
  intros cL cU e p HoL Hterms Hpv Hfrag Hkeys.
  assert (HoL' : opens (fst LU') cL) by (eapply KS_opens; eassumption).
  pose proof (healthy_nothing_expired hooks (fst LU') (e_now e) HhL) as HnL.
  pose proof (healthy_nothing_expired hooks (snd LU') (e_now e) HhU) as HnU.
  unfold loc_search_local. rewrite (gated_pure _ _ cL _ _ HnL), (gated_pure _ _ cU _ _ HnU).
  (* the two gates of a search do not include the capacity gate *)
  assert (Hg : first_refusal (fst LU') cL (e_now e) (gates_of "searchFacts") =
               first_refusal (snd LU') cU (e_now e) (gates_of "searchFacts")).
  { change (gates_of "searchFacts") with [GEnabled; GRead].
    destruct HoL' as [_ [Or|Or]]; unfold first_refusal; cbn [find gate_pass];
      unfold enabled;
      rewrite (get_prop_string_pure (fst LU') "enabled" (e_now e) HnL),
              (get_prop_string_pure (snd LU') "enabled" (e_now e) HnU); cbn [snd];
      rewrite (key_of_twin_nokey (fst LU') (snd LU') "enabled" HF eq_refl);
      rewrite !check_read_spec, (get_prop_string_pure (fst LU') "readKey" (e_now e) HnL),
              (get_prop_string_pure (snd LU') "readKey" (e_now e) HnU); cbn [snd]; cbv zeta;
      rewrite (key_of_twin_key (fst LU') (snd LU') "readKey" HF eq_refl); cbn [String.eqb orb];
      rewrite ?Or; rewrite ?String.eqb_refl; rewrite ?Bool.orb_true_r; reflexivity. }
  rewrite Hg. destruct (first_refusal (snd LU') cU (e_now e) (gates_of "searchFacts")) as [er|]; [reflexivity|].
  unfold lift. cbn [snd].
  destruct (right_keys_transparent_state_main hooks [] (l_state (fst LU')) (l_state (snd LU')) HhL HhU Hkind HF Hin
              eq_refl eq_refl eq_refl) as (_ & _ & _ & _ & _ & _ & _ & _ & Hsearch).
  cbn [fold_left] in Hsearch.
  destruct (Hsearch p (e_now e) Hterms Hpv Hfrag Hkeys) as (f1 & f2 & E1 & E2 & Hperm).
  rewrite E1, E2. cbn [snd omap obind found_equiv]. exact Hperm.
Qed.
