(** Statements for C13 (totality: every public operation returns a result or
    an error within bounded time; it never panics, overflows the stack or
    hangs; a rejected input leaves the location serving).
    Definitions and statements only; proofs in Total*.v. *)
From Verif Require Import Json Outcome Match PatIndex State Location SysOps Query QueryOps Events.
From Verif Require Import StateSpec GateProofs LocSpec.

(** * Outcomes that are neither a Go panic nor a computation out of fuel *)

Definition obad {A} (o : outcome A) : bool :=
  match o with Panic _ | OutOfFuel => true | _ => false end.

Definition opanic {A} (o : outcome A) : bool :=
  match o with Panic _ => true | _ => false end.

(** the outcome is a result or an error *)
Definition answers {A} (o : outcome A) : Prop :=
  o <> OutOfFuel /\ forall w, o <> Panic w.

Definition never_panics {A} (o : outcome A) : Prop := forall w, o <> Panic w.

Definition lres_bad (r : lres) : bool :=
  match r with
  | RId o => obad o | RBool o => obad o | RJson o => obad o | RUnit o => obad o
  | RParents o => obad o | RSize o => obad o | RFound o => obad o | RChildren o => obad o
  end.

Definition lres_panic (r : lres) : bool :=
  match r with
  | RId o => opanic o | RBool o => opanic o | RJson o => opanic o | RUnit o => opanic o
  | RParents o => opanic o | RSize o => opanic o | RFound o => opanic o | RChildren o => opanic o
  end.

(** A walk (event processing) is bad if its disposition or one of the
    executed actions is. *)
Definition walk_bad (w : walk) : bool :=
  obad (w_disp w) || existsb (fun x => obad (x_res x)) (w_execs w).

Definition walk_panic (w : walk) : bool :=
  opanic (w_disp w) || existsb (fun x => opanic (x_res x)) (w_execs w).

(** * Ground states, locations, systems *)

Definition ground_list (l : list (string * json)) : bool := forallb (fun kv => ground (snd kv)) l.

(** every fact in memory is ground (no string or key starts with "?") *)
Definition st_ground (s : state) : Prop := ground_list (st_facts s) = true.
(** ... and so is everything in the storage (what a reload reads) *)
Definition st_store_ground (s : state) : Prop := ground_list (st_store s) = true.

Definition loc_ground (l : loc) : Prop := st_ground (l_state l) /\ st_store_ground (l_state l).

Definition sys_ground (sy : system) : Prop := forall n l, sys_get sy n = Some l -> loc_ground l.

Definition sys_all_wf (sy : system) : Prop := forall n l, sys_get sy n = Some l -> st_wf (l_state l).

(** the only payload of [sys_step] that is matched as DATA is an event *)
Definition lop_event_ground (op : lop) : Prop :=
  match op with LEvent ev => ground ev = true | _ => True end.

(** the payloads that end up in stored facts are ground (search patterns are
    arbitrary: they may contain variables) *)
Definition lop_ground (op : lop) : Prop :=
  match op with
  | LAddFact _ fact => ground fact = true
  | LAddRule _ rule => ground rule = true
  | LEnableRule id _ => is_var id = false
  | LSetParents ps => forallb (fun p => negb (is_var p)) ps = true
  | LEvent ev => ground ev = true
  | _ => True
  end.

(** * 1. The matcher *)

Definition core_match_total_ground_statement : Prop :=
  forall p d bs, ground d = true -> ground_bs bs = true ->
    core_match p d bs <> OutOfFuel /\ (forall w, core_match p d bs <> Panic w).

(** the bindings the matcher returns are ground again *)
Definition core_match_ground_results_statement : Prop :=
  forall p d bs out, ground d = true -> ground_bs bs = true ->
    core_match p d bs = Ok out -> forall b, In b out -> ground_bs b = true.

(** a ground pattern (no variable anywhere) never exhausts the fuel, on any data *)
Definition core_match_total_ground_pattern_statement : Prop :=
  forall p d bs, ground p = true ->
    core_match p d bs <> OutOfFuel /\ (forall b out, core_match p d bs = Ok out -> In b out -> b = bs).

Definition jmatch_never_panics_statement : Prop :=
  forall fuel p d bs w, jmatch fuel p d bs <> Panic w.

(** * 2. ParseQuery *)

Definition parse_query_total_statement : Prop :=
  forall sem q, parse_query sem (parse_fuel q) q <> OutOfFuel /\
                (forall w, parse_query sem (parse_fuel q) q <> Panic w).

(** * 3. The state API *)

(** As asked: a well-formed state whose stored facts are ground, ground
    inputs.  (The pattern of a search is arbitrary: only the DATA is ground.) *)
Definition state_ops_total_statement : Prop :=
  forall s now, st_wf s -> st_ground s ->
    (forall g x fr aux, ground x = true -> answers (snd (st_add s g x now fr aux))) /\
    (forall id, answers (snd (st_Rem s id now))) /\
    (forall id, answers (snd (st_get s id now))) /\
    (forall p, answers (snd (st_search s p now))) /\
    (forall ev, ground ev = true -> answers (snd (st_find_rules s ev now))) /\
    answers (snd (st_clear s)) /\
    (forall k hooks store, ground_list store = true -> answers (snd (st_load k hooks store now))).

(** Sharper: which hypothesis each operation really needs.  Nothing for add,
    Rem, get, clear, load (ANY state, ANY input); a ground EVENT for
    FindRules (the stored rules, with their variables, are arbitrary); ground
    stored FACTS for a search (any pattern).  Well-formedness is never needed. *)
Definition state_ops_total_sharp_statement : Prop :=
  forall s now,
    (forall g x fr aux, answers (snd (st_add s g x now fr aux))) /\
    (forall id, answers (snd (st_Rem s id now))) /\
    (forall id, answers (snd (st_get s id now))) /\
    answers (snd (st_clear s)) /\
    (forall k hooks store, answers (snd (st_load k hooks store now))) /\
    (forall ev, ground ev = true -> answers (snd (st_find_rules s ev now))) /\
    (st_ground s -> forall p, answers (snd (st_search s p now))).

(** groundness of the stored facts (and of the storage) is kept by every operation *)
Definition st_ground_preserved_statement : Prop :=
  forall s now, st_ground s ->
    (forall g x fr aux, ground x = true -> st_ground (fst (st_add s g x now fr aux))) /\
    (forall id, st_ground (fst (st_Rem s id now))) /\
    (forall id, st_ground (fst (st_get s id now))) /\
    (forall p, st_ground (fst (st_search s p now))) /\
    (forall ev, st_ground (fst (st_find_rules s ev now))) /\
    st_ground (fst (st_clear s)) /\
    (forall k hooks store, ground_list store = true -> st_ground (fst (st_load k hooks store now))).

Definition st_store_ground_preserved_statement : Prop :=
  forall s now, st_store_ground s ->
    (forall g x fr aux, ground x = true -> st_store_ground (fst (st_add s g x now fr aux))) /\
    (forall id, st_store_ground (fst (st_Rem s id now))) /\
    (forall id, st_store_ground (fst (st_get s id now))) /\
    (forall p, st_store_ground (fst (st_search s p now))) /\
    (forall ev, st_store_ground (fst (st_find_rules s ev now))) /\
    st_store_ground (fst (st_clear s)) /\
    (forall k hooks store, ground_list store = true -> st_store_ground (fst (st_load k hooks store now))).

(** [st_ground] in terms of look-ups *)
Definition st_ground_lookup_statement : Prop :=
  forall s, (st_ground s -> forall id f, alookup id (st_facts s) = Some f -> ground f = true) /\
            (st_wf s -> (forall id f, alookup id (st_facts s) = Some f -> ground f = true) -> st_ground s).

(** the index walks that report exhaustion as an error value never do *)
Definition index_walks_total_statement : Prop :=
  (forall n ev, answers (pi_search n ev)) /\
  (forall n p id, snd (pi_add n p id) <> Some "fuel" /\ snd (pi_rem n p id) <> Some "fuel").

(** * 4. The Location API, queries, event processing *)

Definition sys_step_total_statement : Prop :=
  forall sy name c e op,
    sys_wf sy -> sys_ground sy -> lop_event_ground op ->
    lres_bad (snd (sys_step sy name c e op)) = false.

(** every operation but a fact search is total on ANY system (rules with
    variables, non-ground facts): only a dispatched event must be ground *)
Definition sys_step_total_any_system_statement : Prop :=
  forall sy name c e op,
    sys_wf sy -> lop_event_ground op -> (forall p inh, op <> LSearch p inh) ->
    lres_bad (snd (sys_step sy name c e op)) = false.

Definition sys_step_keeps_ground_statement : Prop :=
  forall sy name c e op,
    sys_wf sy -> sys_ground sy -> lop_ground op ->
    sys_wf (fst (sys_step sy name c e op)) /\ sys_ground (fst (sys_step sy name c e op)).

(** every request of a history gets a result or an error *)
Fixpoint run_answers (sy : system) (h : list request) : Prop :=
  match h with
  | [] => True
  | q :: r => lres_bad (snd (sys_step sy (r_loc q) (r_ctx q) (r_env q) (r_op q))) = false /\
              run_answers (sys_do sy q) r
  end.

Definition history_total_statement : Prop :=
  forall h sy, sys_wf sy -> sys_ground sy -> (forall q, In q h -> lop_ground (r_op q)) ->
    run_answers sy h /\ sys_wf (sys_run sy h) /\ sys_ground (sys_run sy h).

Definition sys_query_total_statement : Prop :=
  forall sy name c e sem q,
    sys_wf sy -> sys_ground sy ->
    obad (snd (sys_query sy name c e sem q)) = false /\
    sys_wf (fst (sys_query sy name c e sem q)) /\ sys_ground (fst (sys_query sy name c e sem q)).

Definition process_event_total_statement : Prop :=
  forall sy name c e sem ev,
    sys_wf sy -> sys_ground sy -> ground ev = true ->
    walk_bad (snd (process_event sy name c e sem ev)) = false /\
    sys_wf (fst (process_event sy name c e sem ev)) /\ sys_ground (fst (process_event sy name c e sem ev)).

(** a fact search whose PATTERN is ground is total on any system and any state *)
Definition search_ground_pattern_total_statement : Prop :=
  (forall s p now, ground p = true -> answers (snd (st_search s p now))) /\
  (forall sy name c e p inh, sys_wf sy -> ground p = true ->
     lres_bad (snd (sys_step sy name c e (LSearch p inh))) = false).

(** * 5. A rejected or failed input leaves everything as it was *)

Definition rejected_input_keeps_state_statement : Prop :=
  (* an add whose PrepareFact fails *)
  (forall s g x now fr aux,
     (forall p, prepare_fact g x now fr aux <> Ok p) -> fst (st_add s g x now fr aux) = s) /\
  (* a refusing gate *)
  (forall A gs l c now (k : loc -> loc * outcome A) l' e,
     nothing_expired l now -> run_gates gs l c now = (l', Some e) ->
     gated gs l c now k = (l, Err e)) /\
  (* AddRule of something RuleFromMap rejects *)
  (forall l c e id rule x,
     nothing_expired l (e_now e) -> rule_from_map rule = Err x ->
     exists err, loc_add_rule l c e id rule = (l, Err err)) /\
  (* a query that does not parse *)
  (forall sy name l c e sem q x,
     sys_wf sy -> sys_get sy name = Some l -> nothing_expired l (e_now e) ->
     parse_query sem (parse_fuel q) q = Err x ->
     exists err, sys_query sy name c e sem q = (sy, Err err)) /\
  (* reads (get, search, find-rules), whatever they answer — an error of the
     matcher on a malformed pattern included (no purge pending: the list of
     noted ids is empty between any two operations) *)
  (forall s now, no_expired s now -> st_pending s = [] ->
     (forall id, fst (st_get s id now) = s) /\
     (forall p, fst (st_search s p now) = s) /\
     (forall ev, fst (st_find_rules s ev now) = s)).

(** * 6. No panic, unconditionally *)

Definition no_panic_constructor_statement : Prop :=
  (forall fuel p d bs, never_panics (jmatch fuel p d bs)) /\
  (forall sem fuel q, (jsize q < fuel)%nat -> never_panics (parse_query sem fuel q)) /\
  (forall s now,
     (forall g x fr aux, never_panics (snd (st_add s g x now fr aux))) /\
     (forall id, never_panics (snd (st_Rem s id now))) /\
     (forall id, never_panics (snd (st_get s id now))) /\
     (forall p, never_panics (snd (st_search s p now))) /\
     (forall ev, never_panics (snd (st_find_rules s ev now))) /\
     never_panics (snd (st_clear s)) /\
     (forall k hooks store, never_panics (snd (st_load k hooks store now)))) /\
  (forall sy name c e op, lres_panic (snd (sys_step sy name c e op)) = false) /\
  (forall sy name c e sem q, never_panics (snd (sys_query sy name c e sem q))) /\
  (forall sy name c e sem ev, walk_panic (snd (process_event sy name c e sem ev)) = false).
