(** C08 over histories, support: the removal cascade deletes exactly the
    deleteWith closure in BOTH state kinds (the linear case is
    CascadeExact.v; here the proof is redone uniformly, the indexed state
    finding the dependents through its term index). *)
From Coq Require Import Lia.
From Verif Require Import Json Outcome Match PatIndex State MatchLemmas1 StateSpec AssocLemmas StateProofs.
From Verif Require Import CascadeSpec CascadeLemmas1 CascadeTerm CascadeExact DurableFrame DurableInv DurableExpiry HistSpec.

(** the storage holds what the memory holds *)
Definition mirror_lk (s : state) : Prop := forall j, alookup j (st_store s) = alookup j (st_facts s).

Definition goodk (s : state) (now : Z) : Prop :=
  st_fail s = None /\ CascadeSpec.no_expired s now /\ mirror_lk s /\ (st_kind s = Indexed -> P s).

(** * The dependents are found, index or not *)

Lemma dw_terms x t :
  In t (extract_terms (dw_pattern x)) ->
  t = "deleteWith" \/ (t = x /\ is_var x = false /\ (String.length x <? 1024)%nat = true).
Proof.
  rewrite In_extract_terms. unfold dw_pattern. rewrite raw_obj. cbn [raw_kvs]. rewrite app_nil_r.
  rewrite in_app_iff. intros [H|H].
  - unfold key_terms in H. cbn in H. destruct H as [<-|[]]. left; reflexivity.
  - unfold val_terms in H. cbn [String.eqb orb] in H.
    change (String.eqb "deleteWith" "rule" || has_suffix "!" "deleteWith") with false in H.
    rewrite raw_arr in H. cbn [raw_list extract_terms_raw] in H. rewrite app_nil_r in H.
    destruct (is_var x) eqn:Ev; cbn [negb andb] in H; [destruct H|].
    destruct (String.length x <? 1024)%nat eqn:El; [|destruct H].
    destruct H as [<-|[]]. right. auto.
Qed.

Lemma dw_names_terms fact x t :
  dw_names fact x = true -> In t (extract_terms (dw_pattern x)) -> In t (extract_terms fact).
Proof.
  intros Hn Ht. unfold dw_names in Hn.
  destruct fact as [| | | | |kvs]; cbn [jget] in Hn; try discriminate.
  destruct (alookup "deleteWith" kvs) as [[| | | |l|]|] eqn:El; try discriminate.
  apply mem_json_In in Hn. apply alookup_In in El.
  rewrite In_extract_terms, raw_obj, In_raw_kvs. exists "deleteWith", (JArr l). split; [exact El|].
  destruct (dw_terms x t Ht) as [->|(-> & Hv & Hlen)].
  - left. unfold key_terms. cbn. left; reflexivity.
  - right. unfold val_terms.
    change (String.eqb "deleteWith" "rule" || has_suffix "!" "deleteWith") with false. cbv iota.
    rewrite raw_arr, In_raw_list. exists (JStr x). split; [exact Hn|].
    cbn [extract_terms_raw]. rewrite Hv, Hlen. left; reflexivity.
Qed.

(** the search (through the term index or not) succeeds, changes nothing, and
    the targets that deleteDependencies keeps of what it found are exactly the
    stored facts that name [x] literally — for ANY [x]: for a variable-looking
    one the pattern's only term is "deleteWith" and the variable matches every
    element ([dw_names_hit]) *)
Lemma search_state_pure2 s x now :
  CascadeSpec.no_expired s now -> (st_kind s = Indexed -> P s) ->
  exists found,
    search_state s (dw_pattern x) now = (s, Ok found) /\
    forall j, In j (dw_targets s x (map fst found)) <->
              exists fact, alookup j (st_facts s) = Some fact /\ dw_names fact x = true.
Proof.
  intros Hne HP. destruct (st_kind s) eqn:Hk.
  2:{ destruct (search_state_pure s x now Hk Hne) as (found & Hs & Hfound).
      exists found. split; [exact Hs|]. apply targets_exact. exact Hfound. }
  destruct (HP eq_refl) as (_ & _ & Hsup).
  unfold search_state. rewrite Hk.
  destruct (ti_search_spec (st_tindex s) (extract_terms (dw_pattern x)) (dw_terms_nonempty x)) as (ids & Hs & Hids).
  rewrite Hs. rewrite search_ids_pure by exact Hne. eexists. split; [reflexivity|].
  intros j. rewrite dw_targets_In. cbn [rev app]. rewrite pure_hits_In. split.
  - intros [_ H]. exact H.
  - intros (f & H1 & H2). split; [|eauto]. split; [|exists f; split; [exact H1|apply dw_names_hit; exact H2]].
    apply Hids. intros t Ht. apply (Hsup j f t H1).
    eapply dw_names_terms; [exact H2|exact Ht].
Qed.

(** * Exactly the closure, both kinds *)

Lemma Rm_goodk s D s' now :
  goodk s now -> Rm s D s' -> (st_kind s' = Indexed -> P s') -> goodk s' now.
Proof.
  intros (Hf & Hne & Hm & _) HR HP'. pose proof HR as (Hk' & Hf' & HF & HS).
  split; [congruence|]. split; [|split; [|exact HP']].
  - intros j f Hj. eapply Hne. eapply Rm_sub; eauto.
  - intros j. rewrite HF, HS. destruct (mem_str j D); [reflexivity|apply Hm].
Qed.

Lemma Rm_head s x now :
  goodk s now ->
  snd (rem_head s x) = true /\ Rm s [x] (fst (rem_head s x)) /\
  (st_kind s = Indexed -> P (fst (rem_head s x))).
Proof.
  intros (Hf & Hne & Hm & HP). unfold rem_head. destruct (st_kind s) eqn:Hk.
  - destruct (alookup x (st_facts s)) as [fact|] eqn:El.
    + destruct (idx_drop_fields s x fact) as (F1 & F2 & F3 & F4 & F5 & F6 & F7 & F8).
      pose proof (facts_idx_drop s x fact) as F0.
      unfold store_call. rewrite F5, Hf. cbn [fst snd]. split; [reflexivity|]. split.
      * unfold Rm. cbn [st_kind st_fail st_facts st_store set_store mem_str].
        rewrite ?F1, ?F5, ?F0, ?F2, ?Hk. repeat split; auto; intros j; rewrite alookup_aremove, orb_false_r; reflexivity.
      * intros _. specialize (HP eq_refl).
        assert (H1 : eqp s (match extract_rule fact false with
                            | Ok (Some rule) => unindex_rule s x rule | _ => s end)) by apply eqp_pre_drop.
        apply (eqp_P _ _ H1) in HP. pose proof (P_drop _ x fact HP) as H3.
        apply P_store_call in H3. unfold store_call in H3. cbn [fst] in H3.
        apply (P_set_store_aremove _ x) in H3. exact H3.
    + cbn [fst snd]. split; [reflexivity|]. split; [|exact HP].
      unfold Rm. cbn [mem_str]. repeat split; auto; intros j; rewrite orb_false_r;
        destruct (String.eqb_spec j x) as [->|]; auto. rewrite Hm. auto.
  - unfold store_call. rewrite Hf. cbn [fst snd]. split; [reflexivity|]. split; [|intros H; discriminate].
    unfold Rm. cbn [st_kind st_fail st_facts st_store set_store set_facts mem_str].
    repeat split; auto; intros j; rewrite alookup_aremove, orb_false_r; reflexivity.
Qed.

Section ExactGen2.
  Variable rem_rec : state -> string -> Z -> state * outcome bool.
  Variable now : Z.
  Hypothesis Hspec : forall s j s' had, goodk s now ->
    rem_rec s j now = (s', Ok had) -> Post s j s' had.
  Hypothesis HrecP : forall s j, P s -> P (fst (rem_rec s j now)).

  Lemma rem_list_exact2 s0 skip : forall ids sc Dacc s',
    goodk sc now -> Rm s0 Dacc sc ->
    rem_list rem_rec sc ids skip now = (s', Ok tt) ->
    exists D', Rm s0 (Dacc ++ D') s' /\
      (forall j, In j ids -> skipped skip j = false -> In j D') /\
      (forall d, In d D' -> exists j, In j ids /\ Clo s0 j d) /\
      (forall y j fact, In y D' -> alookup j (st_facts s0) = Some fact ->
                        dw_names fact y = true -> In j (Dacc ++ D')).
  Proof.
    induction ids as [|j ids IH]; intros sc Dacc s' Hg HR Hrl; cbn [rem_list] in Hrl.
    - inversion Hrl; subst s'. exists []. rewrite app_nil_r.
      split; [exact HR|]. repeat split; intros; cbn [In] in *; contradiction.
    - destruct (skipped skip j) eqn:Ej.
      + destruct (IH sc Dacc s' Hg HR Hrl) as (D' & H1 & H2 & H3 & H4).
        exists D'. split; [exact H1|]. repeat split; auto.
        * intros j0 [Hj0|Hj0] Hne; [congruence|auto].
        * intros d Hd. destruct (H3 d Hd) as (j0 & Hj0 & Hc). exists j0. split; [right|]; auto.
      + destruct (rem_rec sc j now) as [s1 o] eqn:Er.
        destruct o as [b| | |]; try discriminate.
        destruct (Hspec sc j s1 b Hg Er) as (_ & Dj & Hj1 & Hj2 & Hj3 & Hj4).
        assert (Hg1 : goodk s1 now).
        { eapply Rm_goodk; [exact Hg|exact Hj4|]. intros Hk1.
          pose proof (HrecP sc j) as HPj. rewrite Er in HPj. cbn [fst] in HPj. apply HPj.
          destruct Hg as (_ & _ & _ & HPsc). apply HPsc. destruct Hj4 as (Hk & _). congruence. }
        assert (HR1 : Rm s0 (Dacc ++ Dj) s1) by (eapply Rm_trans; eauto).
        destruct (IH s1 (Dacc ++ Dj)%list s' Hg1 HR1 Hrl) as (D'' & H1 & H2 & H3 & H4).
        exists (Dj ++ D'')%list. rewrite app_assoc. split; [exact H1|]. repeat split; auto.
        * intros j0 [Hj0|Hj0] Hne; apply in_or_app; [left; subst; auto|right; auto].
        * intros d Hd. apply in_app_or in Hd. destruct Hd as [Hd|Hd].
          -- exists j. split; [left; auto|]. eapply Clo_mono; [|apply Hj2; exact Hd].
             intros j0 f. eapply Rm_sub; eauto.
          -- destruct (H3 d Hd) as (j0 & Hj0 & Hc). exists j0. split; [right|]; auto.
        * intros y j0 fact Hy Hp Hn. apply in_app_or in Hy. destruct Hy as [Hy|Hy]; [|eauto].
          apply in_or_app. destruct (mem_str j0 Dacc) eqn:Em.
          -- left. apply in_or_app. left. apply mem_str_In. exact Em.
          -- left. apply in_or_app. right.
             destruct HR as (_ & _ & HF & _). specialize (HF j0). rewrite Em, Hp in HF.
             eapply Hj3; eauto.
  Qed.

  Lemma rem_body_exact2 s x s' had :
    goodk s now ->
    rem_body rem_rec s x now = (s', Ok had) -> Post s x s' had.
  Proof.
    intros Hg Hb. rewrite rem_body_head in Hb.
    destruct (Rm_head s x now Hg) as (Hcont & HR3 & HP3). rewrite Hcont in Hb.
    set (s3 := fst (rem_head s x)) in *.
    assert (Hk3 : st_kind s3 = st_kind s) by apply HR3.
    assert (Hg3 : goodk s3 now).
    { eapply Rm_goodk; [exact Hg|exact HR3|]. intros H. apply HP3. congruence. }
    pose proof Hg3 as (Hf3 & Hne3 & Hm3 & HPk3).
    unfold delete_dependencies in Hb.
    destruct (search_state_pure2 s3 x now Hne3 HPk3) as (found & Hsearch & Hfound).
    rewrite Hsearch in Hb.
    set (skip := match st_kind s3 with Linear => Some x | Indexed => None end) in *.
    destruct (rem_list rem_rec s3 (dw_targets s3 x (map fst found)) skip now) as [s6 o] eqn:Erl.
    destruct o as [[]| | |]; cbn [wrapb] in Hb; try discriminate.
    inversion Hb; subst s6 had. clear Hb.
    destruct (rem_list_exact2 s skip _ s3 [x] s' Hg3 HR3 Erl) as (D' & R1 & R2 & R3 & R4).
    split; [reflexivity|].
    change ([x] ++ D')%list with (x :: D') in *. exists (x :: D').
    assert (Hfound_clo : forall j, In j (dw_targets s3 x (map fst found)) -> Clo s x j).
    { intros j Hj. apply Hfound in Hj. destruct Hj as (f & Hp & Hh).
      eapply Clo_dep; [apply Clo_root| |exact Hh]. exact (Rm_sub _ _ _ _ _ HR3 Hp). }
    split; [left; reflexivity|]. split; [|split; [|exact R1]].
    - intros d [Hd|Hd]; [subst; constructor|].
      destruct (R3 d Hd) as (j & Hj & Hc). eapply Clo_trans; eauto.
    - intros y j fact [Hy|Hy] Hp Hn; [|exact (R4 y j fact Hy Hp Hn)].
      subst y. destruct (String.eqb j x) eqn:Ej.
      + apply String.eqb_eq in Ej. subst j. left; reflexivity.
      + right.
        assert (Hjf : In j (dw_targets s3 x (map fst found))).
        { apply Hfound. exists fact. split; [|exact Hn].
          destruct HR3 as (_ & _ & HF & _). rewrite HF. cbn [mem_str]. rewrite Ej. exact Hp. }
        apply R2; [exact Hjf|].
        unfold skip. destruct (st_kind s3); cbn [skipped]; [reflexivity|exact Ej].
  Qed.
End ExactGen2.

Lemma rem_fuel_exact2 now : forall fuel s x s' had,
  goodk s now ->
  rem_fuel fuel s x now = (s', Ok had) -> Post s x s' had.
Proof.
  induction fuel as [|f IH]; intros s x s' had Hg H; cbn [rem_fuel] in H.
  - discriminate.
  - eapply rem_body_exact2; eauto. intros s0 j HP. apply rem_fuel_P. exact HP.
Qed.

(** the removal succeeds *)
Lemma rem_fuel_ok2 now : forall fuel s x, goodk s now ->
  ok_or_oof (snd (rem_fuel fuel s x now)).
Proof.
  intros fuel s x (Hf & _). apply rem_fuel_nofail. exact Hf.
Qed.
